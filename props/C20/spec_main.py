ID = 'C20'
UNITS = {'math': dict(wrap='wrap.cc', new_block=64)}
BOUNDS = ''
STUBS = []
OUTSIDE = []
ASSUMPTIONS = []

TYPES = (('u8', 8, 0), ('u16', 16, 0), ('u32', 32, 0), ('u64', 64, 0), ('i8', 8, 1), ('i16', 16, 1), ('i32', 32, 1), ('i64', 64, 1))

def queries(tier):
    qs = []
    def q(name, harness, defs, unwind, timeout=300, mem_gb=4, desc='', bounds='', **kw):
        d = dict(name=name, unit='math', harness=harness, defs=defs, unwind=unwind, timeout=timeout, mem_gb=mem_gb, desc=desc, bounds=bounds)
        d.update(kw)
        qs.append(d)
    for t, bits, sg in TYPES:
        q('log2i_%s' % t, 'h_log2i.c', {'T': t, 'BITS': bits, 'SIGNED': sg}, 66, 120,
          desc='log2i<%s>(v): 2^r <= v < 2^(r+1) for every positive v of the type' % t, bounds='all positive values')
    for be in ('', 'cadical', 'kissat', 'cvc5'):
        q('gcd_u8_%s' % be, 'h_gcd.c', {'T': 'u8', 'BITS': 8, 'OPBITS': 8, 'MODE': 0}, 14, 300, backend=be)
        q('red_u8_%s' % be, 'h_gcd.c', {'T': 'u8', 'BITS': 8, 'OPBITS': 8, 'MODE': 1}, 14, 300, backend=be)
    for dims in (2, 3, 4):
        for g, gn in ((0, 'lin'), (1, 'mul'), (2, 'div'), (3, 'mod')):
            q('v%d_ops_%s' % (dims, gn), 'h_vec.c', {'DIMS': dims, 'MODE': 0, 'GROUP': g}, 10, 300)
        for mode, nm in ((1, 'preds'), (2, 'order'), (3, 'at')):
            q('v%d_%s' % (dims, nm), 'h_vec.c', {'DIMS': dims, 'MODE': mode}, 6, 300)
    q('v3_cross_cb2', 'h_vec.c', {'DIMS': 3, 'MODE': 4, 'CB': 2}, 6, 300, backend='kissat')
    q('v_ctor', 'h_vec.c', {'DIMS': 4, 'MODE': 5}, 6, 300)
    for mode, nm in ((0, 'mulv'), (1, 'transpose')):
        q('m4_%s' % nm, 'h_mat.c', {'MODE': mode}, 18, 300, mem_gb=8)
    for eb in (1, 2):
        for be in ('', 'kissat'):
            q('m4_mulm_eb%d_%s' % (eb, be), 'h_mat.c', {'MODE': 2, 'EB': eb}, 18, 300, mem_gb=8, backend=be)
            q('m4_assoc_eb%d_%s' % (eb, be), 'h_mat.c', {'MODE': 3, 'EB': eb}, 18, 300, mem_gb=8, backend=be)
    for g, gn in ((0, 'lin'), (1, 'mul'), (2, 'div'), (3, 'mod')):
        q('m4_ops_%s' % gn, 'h_mat.c', {'MODE': 4, 'GROUP': g}, 18, 300, mem_gb=8)
    q('random_int_b8', 'h_random.c', {'MODE': 0, 'BLOCK': 8}, 12, 300)
    q('random_data_b4_3_2', 'h_random.c', {'MODE': 1, 'BLOCK': 4, 'N1': 3, 'N2': 2}, 12, 300)
    q('random_str_b4_5', 'h_random.c', {'MODE': 2, 'BLOCK': 4, 'N1': 5}, 12, 300)
    return qs
