/* C20: Matrix4<double> M * inverse(M) == I within 1e-9 for strictly diagonally dominant M (property text: "M * inverse(M) = I
 * for every diagonally dominant (hence stably invertible) M", tolerance 1e-9).
 * The Gauss-Jordan elimination runs on IEEE doubles; CBMC bit-blasts every division / multiplication / addition exactly.
 * What the SAT back end can decide is a structured family (cells): the diagonal entries are symbolic integers in [DLO, DHI]
 * (as doubles; non-powers of two included, so reciprocals are inexact), NOFF off-diagonal entries at the concrete positions
 * given by POS0/POS1 (index 4*c + r) are symbolic integers in [-OB, OB], every other off-diagonal entry is 0.
 * Strict diagonal dominance (|m[k][k]| > sum of the other |entries| of its row AND column) is assumed.
 * Asserted: inverse()/invert() do not throw; every entry of M * inverse(M) is within 1e-9 of the identity; the same for the
 * inverse computed in place (symbolic choice). */
#include "harness.h"
int64_t w_m4d_inverse(uint64_t* m, uint32_t inplace, uint64_t* out_inv, uint64_t* out_prod);
#ifndef DLO
#define DLO 1
#endif
#ifndef DHI
#define DHI 7
#endif
#ifndef OB
#define OB 1
#endif
#ifndef NOFF
#define NOFF 0
#endif
#ifndef POS0
#define POS0 1
#endif
#ifndef POS1
#define POS1 4
#endif
static uint64_t bits(double d) { uint64_t u; memcpy(&u, &d, 8); return u; }
static double dbl(uint64_t u) { double d; memcpy(&d, &u, 8); return d; }
void harness(void) {
  int64_t e[16];
  uint64_t M[16], I[16], P[16];
  for (int i = 0; i < 16; i++) e[i] = 0;
  for (int k = 0; k < 4; k++) {
    e[5 * k] = in_irange(DLO, DHI);
    if (in_bool()) e[5 * k] = -e[5 * k]; /* negative pivots too */
  }
#if NOFF >= 1
  e[POS0] = in_irange(-OB, OB);
#endif
#if NOFF >= 2
  e[POS1] = in_irange(-OB, OB);
#endif
  /* strict diagonal dominance by rows and by columns (index 4*c + r) */
  for (int k = 0; k < 4; k++) {
    int64_t rs = 0, cs = 0;
    for (int j = 0; j < 4; j++) if (j != k) {
      int64_t a = e[4 * j + k], b = e[4 * k + j];
      rs += a < 0 ? -a : a;
      cs += b < 0 ? -b : b;
    }
    int64_t d = e[5 * k] < 0 ? -e[5 * k] : e[5 * k];
    ASSUME(d > rs && d > cs);
  }
  for (int i = 0; i < 16; i++) M[i] = bits((double)e[i]);
  uint32_t ip = in_bool();
  int64_t rc = w_m4d_inverse(M, ip, I, P);
  OBS(rc);
  ASSERT(rc == 0, "a strictly diagonally dominant matrix is invertible: inverse()/invert() do not throw");
  for (int c = 0; c < 4; c++) for (int r = 0; r < 4; r++) {
    double p = dbl(P[4 * c + r]);
    double want = (c == r) ? 1.0 : 0.0;
    OBS(P[4 * c + r]);
    ASSERT(p == p, "M * inverse(M) has no NaN entry");
    ASSERT(p - want <= 1e-9 && want - p <= 1e-9, "M * inverse(M) == I within 1e-9");
  }
}
