ID = 'C20'
UNITS = {
    'math': dict(wrap='wrap.cc', new_block=64),
}
BOUNDS = ('Matrix4<double> M*inverse(M) == I within 1e-9 (IEEE doubles bit-blasted): strictly diagonally dominant M from structured families - diagonal entries +-1..15, or diagonal +-2..7 plus one symbolic off-diagonal entry in [-3,3] at each of the 12 positions, or diagonal +-3..7 plus two off-diagonal entries in [-2,2] (6 position pairs). '
          'log2i: every positive value of all 8 integer types. gcd/reduce_fraction: definition (divides both, every common divisor '
          'divides it, coprime reduced terms, same ratio in 128-bit) for operands < 2^6 (quick) / < 2^8 (thorough) in uint8/16/32/64 and '
          'int32, plus the full-width identities gcd(x,0)=gcd(0,x)=gcd(x,x)=x, gcd(x,1)=1 for every value of all 8 types. '
          'random_int: every lo<=hi with hi-lo+1 representable, every byte of the random source symbolic; random_data: request '
          'sizes <= 6 in two consecutive calls, source block sizes 1..16. '
          'Vector2/3/4<int32>: + - unary- (every input whose exact result fits int32), * / % scalar (operands in [-15,15] quick, '
          '[-127,127] thorough), !, ==, !=, norm1, dims (full width), dot/norm2 (components in [-4,4] quick, [-15,15] thorough), '
          'operator< laws on three full-width symbolic vectors, at(i), constructors, cross == definition and orthogonality for '
          'components in [-2,2] quick / [-4,4] thorough. Matrix4<int32>: identity, M*v (entries in [-4,4]), transposition '
          '(full width), operator==, elementwise operators, A*B == definition for entries in {0,1} (quick) / [-1,1] (thorough), (AB)v == A(Bv) for entries in {0,1}.')
STUBS = [
    'phosg::scoped_fd("/dev/urandom") constructor/destructor/operator int and phosg::readx(int fd, size_t n) (Filesystem.cc) are replaced in '
    'props/C20/wrap.cc by definitions forwarding to the harness function verif_urandom(buf, n): it delivers BLOCK bytes per call (BLOCK = 1..16 '
    'per cell instead of the 4096 requested), every byte a solver input; '
    'read errors / short reads of /dev/urandom are not modelled (readx throws in the real code)',
    '__cxa_thread_atexit / __cxa_atexit (destructor registration of the static fd and the thread_local buffer): no-ops (engine/rt/rt_model.c)',
]
OUTSIDE = [
    'Matrix4<double>::inverse()/invert() beyond the structured families of h_inv.c (diagonal +-1..15; diagonal +-2..7 plus one off-diagonal entry in [-3,3] at any '
    'position; diagonal +-3..7 plus two off-diagonal entries in [-2,2] at six position pairs): dense diagonally dominant matrices and non-integer entries are a '
    'floating-point statement over 16 free doubles that the bit-level solver does not decide',
    'norm() (sqrt), str() (printf %g), the double/float instantiations of Vector/Matrix',
    'gcd/reduce_fraction for operands >= 2^8 (measured: operands < 2^10 in uint16/uint64 give no verdict in 300 s with kissat; each Euclid step is a '
    'relational divider for the SAT solver) apart from the full-width identities listed in BOUNDS; negative operands (excluded by the property)',
    'products with larger operands: dot/norm2/cross/M*v/A*B beyond the stated component bounds (32-bit multiplier equivalence: components < 2^8 already '
    'give no verdict in 300 s on the default back end); signed overflow cases (undefined behaviour in C++) are excluded by assumption in every arithmetic harness',
    'random_int when hi - lo + 1 overflows int64 (hi - lo >= 2^63 - 1): `high - low + 1` is a signed overflow (undefined behaviour; UBSan aborts the '
    'replay build), see NOTES.md; the statistical quality (modulo bias) of random_int; /dev/urandom itself',
    'random_data request sizes > 6 and more than two consecutive calls; the real refill block size 4096 (the query with the exact readx contract - one 4096-byte '
    'block, 4096 symbolic bytes - exceeds 12 GB in propositional reduction): block sizes 1..16 exercise the same buffer.size()-relative arithmetic',
]
ASSUMPTIONS = [
    'x86-64: int is 32 bits, long long 64 bits (log2i fix uses __builtin_clzll)',
    'the harness-side reference for * / % on int32 operands is C\'s own operator on the same operands (exact because operands are bounded); what is '
    'decided is that the right operation is applied to the right components in both the value-returning and the compound form',
]

TYPES = (('u8', 8, 0), ('u16', 16, 0), ('u32', 32, 0), ('u64', 64, 0), ('i8', 8, 1), ('i16', 16, 1), ('i32', 32, 1), ('i64', 64, 1))


def fib_unwind(opbits):
    """Euclid on operands < 2^opbits runs at most n steps where F(n+1) < 2^opbits (Lame); +2 for the swap step and the loop exit"""
    a, b, n = 1, 1, 1
    while b < (1 << opbits):
        a, b, n = b, a + b, n + 1
    return n + 2


def queries(tier):
    thorough = tier != 'quick'
    qs = []

    def q(name, harness, defs, unwind, timeout=300, mem_gb=4, desc='', bounds='', unit='math', **kw):
        d = dict(name=name, unit=unit, harness=harness, defs=defs, unwind=unwind, timeout=timeout, mem_gb=mem_gb, desc=desc, bounds=bounds)
        d.update(kw)
        qs.append(d)

    # ---- log2i -------------------------------------------------------------------------------------------------------
    for t, bits, sg in TYPES:
        q('log2i_%s' % t, 'h_log2i.c', {'T': t, 'BITS': bits, 'SIGNED': sg}, 66, 120,
          desc='log2i<%s>(v): 0 <= r < value bits and (v >> r) == 1, i.e. 2^r <= v < 2^(r+1), for every positive v of the type' % t,
          bounds='all positive values of the type')
    # ---- gcd / reduce_fraction ------------------------------------------------------------------------------------------
    ob = 8 if thorough else 6
    for t, bits, sg in (('u8', 8, 0), ('u16', 16, 0), ('u32', 32, 0), ('u64', 64, 0), ('i32', 32, 1)):
        q('gcd_%s_o%d' % (t, ob), 'h_gcd.c', {'T': t, 'BITS': bits, 'OPBITS': ob, 'MODE': 0}, fib_unwind(ob), 900, backend='kissat', cost=200,
          desc='gcd<%s>(a,b): divides a and b; every (symbolic) common divisor d divides it; gcd(a,0)=a, gcd(0,b)=b' % t,
          bounds='0 <= a, b < 2^%d, 1 <= d < 2^%d' % (ob, ob))
        q('reduce_%s_o%d' % (t, ob), 'h_gcd.c', {'T': t, 'BITS': bits, 'OPBITS': ob, 'MODE': 1}, fib_unwind(ob), 900, backend='kissat', cost=200,
          desc='reduce_fraction<%s>(a,b), b != 0: p*b == q*a in 128-bit, q != 0, no d >= 2 divides both p and q, terms do not grow' % t,
          bounds='0 <= a < 2^%d, 1 <= b < 2^%d' % (ob, ob))
    for t, bits, sg in TYPES:
        q('gcd_fullwidth_%s' % t, 'h_gcd.c', {'T': t, 'BITS': bits, 'OPBITS': bits - sg, 'MODE': 2}, 5, 900, backend='kissat', cost=150 if bits == 64 else 10,
          desc='gcd<%s>: gcd(x,0)=gcd(0,x)=gcd(x,x)=x, gcd(x,1)=gcd(1,x)=1, reduce_fraction(x,x)=(1,1), (x,1)->(x,1), (0,x)->(0,1)' % t,
          bounds='every non-negative x of the type')
    # ---- Random.cc -------------------------------------------------------------------------------------------------------
    for blk in ((8,) if not thorough else (1, 3, 8, 16)):
        q('random_int_b%d' % blk, 'h_random.c', {'MODE': 0, 'BLOCK': blk}, 20, 300,
          desc='random_int(lo,hi) in [lo,hi], no exception; source hands out %d-byte blocks, every byte symbolic' % blk,
          bounds='all lo <= hi with hi - lo <= 2^63 - 2')
    cells = [(4, 3, 2), (4, 4, 1), (1, 2, 2), (16, 6, 6)] if not thorough else \
        [(b, n1, n2) for b in (1, 2, 4, 16) for (n1, n2) in ((0, 0), (0, 3), (3, 0), (1, 1), (3, 2), (4, 4), (5, 6), (6, 6))]
    for b, n1, n2 in cells:
        q('random_data_b%d_%d_%d' % (b, n1, n2), 'h_random.c', {'MODE': 1, 'BLOCK': b, 'N1': n1, 'N2': n2}, 20, 300,
          desc='random_data(buf,%d) then random_data(buf,%d): exactly the requested bytes written (canaries intact), every delivered byte is a '
               'source byte, no source byte delivered twice, number of refills == ceil(total/block)' % (n1, n2),
          bounds='block size %d, request sizes %d and %d' % (b, n1, n2))
    for b, n in ([(4, 5)] if not thorough else [(4, 0), (4, 5), (16, 6), (3, 20)]):
        q('random_str_b%d_%d' % (b, n), 'h_random.c', {'MODE': 2, 'BLOCK': b, 'N1': n}, 24, 300,
          desc='random_data(%d) (string form) has size %d and every byte from the source' % (n, n), bounds='block size %d, n == %d' % (b, n))
    # ---- Vector2/3/4<int32_t> ----------------------------------------------------------------------------------------------
    mb = 127 if thorough else 15
    pb = 15 if thorough else 4
    for dims in (2, 3, 4):
        q('v%d_ops_lin' % dims, 'h_vec.c', {'DIMS': dims, 'MODE': 0, 'GROUP': 0}, 12, 300,
          desc='Vector%d: unary -, +/- vector, +/- scalar, and += -= forms == componentwise definition (symbolic operator choice)' % dims,
          bounds='every input whose exact result fits int32')
        for g, gn in ((1, 'mul'), (2, 'div'), (3, 'mod')):
            q('v%d_ops_%s' % (dims, gn), 'h_vec.c', {'DIMS': dims, 'MODE': 0, 'GROUP': g, 'MB': mb}, 12, 900, backend='kissat',
              desc='Vector%d: operator %s scalar and its compound form == componentwise definition' % (dims, {'mul': '*', 'div': '/', 'mod': '%'}[gn]),
              bounds='components and scalar in [-%d,%d]%s' % (mb, mb, '' if g == 1 else ', scalar != 0'))
        q('v%d_preds' % dims, 'h_vec.c', {'DIMS': dims, 'MODE': 1, 'PB': pb}, 8, 900, backend='kissat',
          desc='Vector%d: operator!, ==, !=, dimensions(), norm1 (full width, exact sum fits), norm2 and dot == definitions' % dims,
          bounds='full width; norm2/dot: components in [-%d,%d]' % (pb, pb))
        q('v%d_order' % dims, 'h_vec.c', {'DIMS': dims, 'MODE': 2}, 8, 300,
          desc='Vector%d operator<: == lexicographic definition; irreflexive, asymmetric, transitive, incomparability transitive; '
               '!(a<b)&&!(b<a) <=> a==b; == is componentwise' % dims, bounds='three symbolic vectors, full int32 width')
        q('v%d_at' % dims, 'h_vec.c', {'DIMS': dims, 'MODE': 3}, 8, 300, desc='Vector%d::at(i) is the i-th component' % dims, bounds='i < %d, full width' % dims)
    cb = 4 if thorough else 2
    q('v3_cross_cb%d' % cb, 'h_vec.c', {'DIMS': 3, 'MODE': 4, 'CB': cb}, 8, 900, backend='kissat', cost=120,
      desc='cross(a,b) == definition; cross(a,b).dot(a) == 0 and .dot(b) == 0', bounds='components in [-%d,%d]' % (cb, cb))
    q('v_ctor', 'h_vec.c', {'DIMS': 4, 'MODE': 5}, 8, 300, desc='Vector3(Vector2,z), Vector4(Vector2,z,w), Vector4(Vector3,w), default constructors', bounds='full width')
    # ---- Matrix4<int32_t> -------------------------------------------------------------------------------------------------------
    q('m4_mulv', 'h_mat.c', {'MODE': 0, 'VB': 4}, 18, 900, backend='kissat',
      desc='Matrix4() is the identity; (M v)_r == sum_c m[c][r] v_c; I*v == v (full width)', bounds='entries and components in [-4,4]')
    q('m4_transpose', 'h_mat.c', {'MODE': 1}, 18, 300, mem_gb=8,
      desc='transposition()/transpose(): m\'[c][r] == m[r][c]; twice == identity; operator== / != elementwise', bounds='full width')
    for ls, ln in ((0, 'matrix'), (1, 'scalar')):
        q('m4_ops_lin_%s' % ln, 'h_mat.c', {'MODE': 4, 'GROUP': 0, 'LINSET': ls}, 18, 900, mem_gb=8, backend='kissat', cost=100,
          desc='Matrix4 + and - with a %s operand, value-returning and compound forms (symbolic choice) == elementwise definition' % ln,
          bounds='every input whose exact result fits int32')
    for g, gn in ((1, 'mul'), (2, 'div'), (3, 'mod')):
        q('m4_ops_%s' % gn, 'h_mat.c', {'MODE': 4, 'GROUP': g, 'MB': 15}, 18, 900, mem_gb=8, backend='kissat',
          desc='Matrix4 %s scalar and compound form == elementwise definition' % gn, bounds='entries and scalar in [-15,15]')
    q('m4_mulm_01', 'h_mat.c', {'MODE': 2, 'EB': 1, 'NNBITS': 1}, 18, 900, mem_gb=8, backend='kissat', cost=300,
      desc='(A B)[c][r] == sum_z A[z][r] B[c][z] (phosg accumulates in double), operator* and operator*=', bounds='entries in {0,1}')
    if thorough:
        q('m4_mulm_eb1', 'h_mat.c', {'MODE': 2, 'EB': 1}, 18, 1500, mem_gb=8, backend='kissat', cost=1500,
          desc='(A B)[c][r] == sum_z A[z][r] B[c][z] (phosg accumulates in double), operator* and operator*=', bounds='entries in [-1,1]')
    q('m4_assoc_01', 'h_mat.c', {'MODE': 3, 'EB': 1, 'NNBITS': 1}, 70, 900, mem_gb=8, backend='kissat', cost=300,
      desc='(A B) v == A (B v)', bounds='entries and components in {0,1}')
    # ---- Matrix4<double>: M * inverse(M) == I within 1e-9 (IEEE doubles bit-blasted; structured diagonally dominant families) ------
    inv = [('diag', dict(NOFF=0, DLO=1, DHI=15 if thorough else 3), 'diagonal matrices, entries +-1..%d' % (15 if thorough else 3))]
    for pos in ((1, 11) if not thorough else (1, 2, 3, 4, 6, 7, 8, 9, 11, 12, 13, 14)):
        inv.append(('off%d' % pos, dict(NOFF=1, POS0=pos, DLO=2, DHI=7, OB=3), 'diagonal +-2..7 plus ONE off-diagonal entry at index %d in [-3,3]' % pos))
    if thorough:
        for p0, p1 in ((1, 4), (1, 6), (2, 9), (4, 13), (7, 8), (3, 12)):
            inv.append(('off%d_%d' % (p0, p1), dict(NOFF=2, POS0=p0, POS1=p1, DLO=3, DHI=7, OB=2), 'diagonal +-3..7 plus TWO off-diagonal entries at indices %d,%d in [-2,2]' % (p0, p1)))
    for nm, dd, bd in inv:
        q('m4d_inverse_' + nm, 'h_inv.c', dd, 18, 900, mem_gb=8, cost=120,
          desc='Matrix4<double>: M * inverse(M) == I within 1e-9, inverse()/invert() do not throw (strictly diagonally dominant M)', bounds=bd)
    return qs
