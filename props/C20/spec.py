ID = 'C20'
UNITS = {'math': dict(wrap='wrap.cc', new_block=64)}
BOUNDS = ''
STUBS = []
OUTSIDE = []
ASSUMPTIONS = []

TYPES = (('u8', 8, 0), ('u16', 16, 0), ('u32', 32, 0), ('u64', 64, 0), ('i8', 8, 1), ('i16', 16, 1), ('i32', 32, 1), ('i64', 64, 1))

def queries(tier):
    qs = []
    def q(name, harness, defs, unwind, timeout=300, mem_gb=4, desc='', bounds='', **kw):
        d = dict(name=name, unit='math', harness=harness, defs=defs, unwind=unwind, timeout=timeout, mem_gb=mem_gb, desc=desc, bounds=bounds)
        d.update(kw)
        qs.append(d)
    for t, bits, sg in TYPES:
        q('log2i_%s' % t, 'h_log2i.c', {'T': t, 'BITS': bits, 'SIGNED': sg}, 66, 120,
          desc='log2i<%s>(v): 2^r <= v < 2^(r+1) for every positive v of the type' % t, bounds='all positive values')
    for t, bits, ob, be in (('u8', 8, 8, 'kissat'), ('u8', 8, 8, 'cadical'), ('u16', 16, 8, 'kissat'), ('u32', 32, 8, 'kissat'), ('u64', 64, 8, 'kissat'), ('u16', 16, 10, 'kissat'), ('u64', 64, 10, 'kissat')):
        q('gcd_%s_o%d_%s' % (t, ob, be), 'h_gcd.c', {'T': t, 'BITS': bits, 'OPBITS': ob, 'MODE': 0}, 14 if ob == 8 else 17, 300, backend=be)
        q('red_%s_o%d_%s' % (t, ob, be), 'h_gcd.c', {'T': t, 'BITS': bits, 'OPBITS': ob, 'MODE': 1}, 14 if ob == 8 else 17, 300, backend=be)
    q('gcdspec_u64', 'h_gcd.c', {'T': 'u64', 'BITS': 64, 'OPBITS': 64, 'MODE': 2}, 5, 300)
    q('gcdspec_i32', 'h_gcd.c', {'T': 'i32', 'BITS': 32, 'OPBITS': 31, 'MODE': 2}, 5, 300)
    for nn in (8, 14):
        q('v4_ops_mul_nn%d' % nn, 'h_vec.c', {'DIMS': 4, 'MODE': 0, 'GROUP': 1, 'MB': 32767, 'NNBITS': nn}, 10, 300)
        q('v4_preds_nn%d' % nn, 'h_vec.c', {'DIMS': 4, 'MODE': 1, 'PB': 16383, 'NNBITS': nn}, 6, 300)
        q('m4_mulv_nn%d' % nn, 'h_mat.c', {'MODE': 0, 'VB': 16383, 'NNBITS': nn}, 18, 300)
        q('m4_ops_mul_nn%d' % nn, 'h_mat.c', {'MODE': 4, 'GROUP': 1, 'MB': 32767, 'NNBITS': nn}, 18, 300)
    q('m4_mulv_4_kissat', 'h_mat.c', {'MODE': 0, 'VB': 4}, 18, 300, backend='kissat')
    q('m4_mulm_nn2', 'h_mat.c', {'MODE': 2, 'EB': 3, 'NNBITS': 2}, 18, 300, mem_gb=8)
    q('m4_mulm_nn4_kissat', 'h_mat.c', {'MODE': 2, 'EB': 15, 'NNBITS': 4}, 18, 300, mem_gb=8, backend='kissat')
    q('m4_assoc_nn1_kissat', 'h_mat.c', {'MODE': 3, 'EB': 1, 'NNBITS': 1}, 70, 300, mem_gb=8, backend='kissat')
    q('m4_assoc_eb1_kissat', 'h_mat.c', {'MODE': 3, 'EB': 1}, 70, 300, mem_gb=8, backend='kissat')
    return qs
