/* C20: Matrix4<int32_t>. Layout on the harness side = phosg's v[16] with v[4*c + r] = m[c][r]; M*v is defined by
 * (M v)_r = sum_c m[c][r] * v_c (phosg's operator*(Vector4)), i.e. c is the column and r the row index.
 * defs: MODE, EB = entry bound (entries in [-EB, EB]) for the product laws. */
#include "harness.h"
int64_t w_m4_identity(uint32_t* out);
int64_t w_m4_mulv(uint32_t* m, uint32_t* v, uint32_t* out);
int64_t w_m4_mulm(uint32_t* a, uint32_t* b, uint32_t inplace, uint32_t* out);
int64_t w_m4_transpose(uint32_t* a, uint32_t inplace, uint32_t* out);
int64_t w_m4_assoc(uint32_t* a, uint32_t* b, uint32_t* v, uint32_t* out_abv, uint32_t* out_a_bv);
int64_t w_m4_op(uint32_t op, uint32_t* a, uint32_t* b, uint32_t s, uint32_t* out);
int64_t w_m4_eq(uint32_t* a, uint32_t* b, uint32_t ne);
enum { M_ADD_M = 0, M_SUB_M, M_ADD_S, M_SUB_S, M_MUL_S, M_DIV_S, M_MOD_S, M_IADD_M, M_ISUB_M, M_IADD_S, M_ISUB_S, M_IMUL_S, M_IDIV_S, M_IMOD_S, M_COUNT };
#ifndef EB
#define EB 2
#endif
#ifndef MB
#define MB 127
#endif
#ifndef VB
#define VB 127 /* entry / component bound for M*v */
#endif
#ifndef GROUP
#define GROUP 0
#endif
#define U(p) ((uint32_t*)(p))
static int fits32(int64_t v) { return v >= -2147483648LL && v <= 2147483647LL; }
static void in_mat_full(int32_t* m) { for (int i = 0; i < 16; i++) m[i] = in_i32(); }
#ifdef NNBITS
/* structurally narrow non-negative operands: value = input & (2^NNBITS - 1) (cheap for the bit-level solver); bnd is then only an upper bound */
static int32_t in_small(int64_t bnd) { int32_t v = (int32_t)(in_u64() & ((1ULL << NNBITS) - 1)); ASSUME(v <= bnd); return v; }
#else
static int32_t in_small(int64_t bnd) { return (int32_t)in_irange(-bnd, bnd); }
#endif
static void in_mat_small(int32_t* m, int64_t bnd) { for (int i = 0; i < 16; i++) m[i] = in_small(bnd); }

void harness(void) {
  int32_t A[16], B[16], R[16], R2[16], v[4], o1[4], o2[4];
#if MODE == 0
  /* default constructor = identity; M*v = definition (entries and vector bounded so that the exact sums fit int32) */
  ASSERT(w_m4_identity(U(R)) == 0, "Matrix4() does not throw");
  for (int c = 0; c < 4; c++) for (int r = 0; r < 4; r++) ASSERT(R[4 * c + r] == (c == r), "Matrix4() is the identity");
  in_mat_small(A, VB);
  for (int i = 0; i < 4; i++) v[i] = in_small(VB);
  ASSERT(w_m4_mulv(U(A), U(v), U(o1)) == 0, "M*v does not throw");
  for (int r = 0; r < 4; r++) {
    int32_t s = 0; /* exact for VB <= 16383: |terms| < 2^28 */
    for (int c = 0; c < 4; c++) s += A[4 * c + r] * v[c];
    OBS(o1[r]);
    ASSERT(o1[r] == s, "(M v)_r == sum_c m[c][r] v_c");
  }
  /* I*v == v, full width */
  for (int i = 0; i < 4; i++) v[i] = in_i32();
  ASSERT(w_m4_mulv(U(R), U(v), U(o2)) == 0, "I*v does not throw");
  for (int i = 0; i < 4; i++) ASSERT(o2[i] == v[i], "I*v == v");
#elif MODE == 1
  /* transposition: definition, involution; both forms (value-returning and in place), full width */
  in_mat_full(A);
  uint32_t ip1 = in_bool(), ip2 = in_bool();
  ASSERT(w_m4_transpose(U(A), ip1, U(R)) == 0, "transpose does not throw");
  for (int c = 0; c < 4; c++) for (int r = 0; r < 4; r++) ASSERT(R[4 * c + r] == A[4 * r + c], "transposition: m'[c][r] == m[r][c]");
  ASSERT(w_m4_transpose(U(R), ip2, U(R2)) == 0, "transpose does not throw");
  for (int i = 0; i < 16; i++) ASSERT(R2[i] == A[i], "transpose twice == identity");
  ASSERT(w_m4_eq(U(R2), U(A), 0) == 1 && w_m4_eq(U(R2), U(A), 1) == 0, "operator== / != on equal matrices");
  /* operator== is elementwise */
  in_mat_full(B);
  int eq = 1;
  for (int i = 0; i < 16; i++) if (A[i] != B[i]) eq = 0;
  ASSERT(w_m4_eq(U(A), U(B), 0) == eq, "operator== <=> all entries equal");
  ASSERT(w_m4_eq(U(A), U(B), 1) == !eq, "operator!= <=> some entry differs");
#elif MODE == 2
  /* matrix product = definition: (A B)[c][r] = sum_z A[z][r] * B[c][z]; entries in [-EB, EB] */
  in_mat_small(A, EB); in_mat_small(B, EB);
  uint32_t ip = in_bool();
  ASSERT(w_m4_mulm(U(A), U(B), ip, U(R)) == 0, "A*B does not throw");
  for (int c = 0; c < 4; c++) for (int r = 0; r < 4; r++) {
    int32_t s = 0; /* exact: entries bounded */
    for (int z = 0; z < 4; z++) s += A[4 * z + r] * B[4 * c + z];
    OBS(R[4 * c + r]);
    ASSERT(R[4 * c + r] == s, "(A B)[c][r] == sum_z A[z][r] B[c][z]");
  }
#elif MODE == 3
  /* (A B) v == A (B v); entries in [-EB, EB] */
  in_mat_small(A, EB); in_mat_small(B, EB);
  for (int i = 0; i < 4; i++) v[i] = in_small(EB);
  ASSERT(w_m4_assoc(U(A), U(B), U(v), U(o1), U(o2)) == 0, "products do not throw");
  for (int i = 0; i < 4; i++) { OBS(o1[i]); ASSERT(o1[i] == o2[i], "(A B) v == A (B v)"); }
#else
  /* elementwise operators with a matrix or a scalar: every element checked.
   * GROUP 0: + - (every input whose exact result fits int32); GROUP 1/2/3: * / % scalar with operands in [-MB, MB]. */
  in_mat_full(A); in_mat_full(B);
  int32_t s = in_i32();
  uint32_t op;
  int32_t ref[16];
#if GROUP == 0
#if !defined(LINSET)
  static const uint8_t ops[] = {M_ADD_M, M_SUB_M, M_ADD_S, M_SUB_S, M_IADD_M, M_ISUB_M, M_IADD_S, M_ISUB_S};
#elif LINSET == 0 /* cell: matrix operand */
  static const uint8_t ops[] = {M_ADD_M, M_SUB_M, M_IADD_M, M_ISUB_M};
#else /* cell: scalar operand */
  static const uint8_t ops[] = {M_ADD_S, M_SUB_S, M_IADD_S, M_ISUB_S};
#endif
  op = ops[in_range(0, sizeof(ops) - 1)];
  for (int i = 0; i < 16; i++) {
    int64_t x = A[i], y = B[i], r;
    switch (op) {
      case M_ADD_M: case M_IADD_M: r = x + y; break;
      case M_SUB_M: case M_ISUB_M: r = x - y; break;
      case M_ADD_S: case M_IADD_S: r = x + s; break;
      default: r = x - s; break;
    }
    ASSUME(fits32(r));
    ref[i] = (int32_t)r;
  }
#else
  op = (GROUP == 1 ? M_MUL_S : GROUP == 2 ? M_DIV_S : M_MOD_S);
  if (in_bool()) op += M_IMUL_S - M_MUL_S;
#ifdef NNBITS
  s = in_small(MB);
  in_mat_small(A, MB);
#endif
  ASSUME(s >= -MB && s <= MB);
  if (GROUP != 1) ASSUME(s != 0);
  for (int i = 0; i < 16; i++) ASSUME(A[i] >= -MB && A[i] <= MB);
  for (int i = 0; i < 16; i++) ref[i] = (GROUP == 1) ? A[i] * s : (GROUP == 2) ? A[i] / s : A[i] % s;
#endif
  ASSERT(w_m4_op(op, U(A), U(B), (uint32_t)s, U(R)) == 0, "matrix operator does not throw");
  for (int i = 0; i < 16; i++) { OBS(R[i]); ASSERT(R[i] == ref[i], "matrix operator == elementwise definition"); }
#endif
}
