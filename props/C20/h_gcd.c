/* C20: gcd<T> and reduce_fraction<T>.  defs: T = type suffix (u8,u16,u32,u64,i32,...), BITS = width of T, OPBITS = operand
 * restriction (operands < 2^OPBITS; == BITS or BITS-1 for signed means "every non-negative value of the type").
 * Reference = the definition of the greatest common divisor, not an algorithm:
 *   g | a, g | b, and for an arbitrary (symbolic) d: d | a and d | b  =>  d | g;  gcd(a,0) = a. */
#include "harness.h"
#define CAT_(a, b) a##b
#define CAT(a, b) CAT_(a, b)
/* every instantiation is named here (the driver picks the wrapper roots by name) */
uint64_t w_gcd_u8(uint64_t a, uint64_t b);
int64_t w_reduce_u8(uint64_t a, uint64_t b, uint64_t* out);
uint64_t w_gcd_u16(uint64_t a, uint64_t b);
int64_t w_reduce_u16(uint64_t a, uint64_t b, uint64_t* out);
uint64_t w_gcd_u32(uint64_t a, uint64_t b);
int64_t w_reduce_u32(uint64_t a, uint64_t b, uint64_t* out);
uint64_t w_gcd_u64(uint64_t a, uint64_t b);
int64_t w_reduce_u64(uint64_t a, uint64_t b, uint64_t* out);
uint64_t w_gcd_i8(uint64_t a, uint64_t b);
int64_t w_reduce_i8(uint64_t a, uint64_t b, uint64_t* out);
uint64_t w_gcd_i16(uint64_t a, uint64_t b);
int64_t w_reduce_i16(uint64_t a, uint64_t b, uint64_t* out);
uint64_t w_gcd_i32(uint64_t a, uint64_t b);
int64_t w_reduce_i32(uint64_t a, uint64_t b, uint64_t* out);
uint64_t w_gcd_i64(uint64_t a, uint64_t b);
int64_t w_reduce_i64(uint64_t a, uint64_t b, uint64_t* out);

void harness(void) {
  const uint64_t lim = (OPBITS >= 64) ? ~0ULL : ((1ULL << OPBITS) - 1);
  uint64_t a = in_range(0, lim), b = in_range(0, lim);
  uint64_t d = in_range(1, lim);
#if MODE == 0
  uint64_t g = CAT(w_gcd_, T)(a, b);
  OBS(g);
  if (b == 0) ASSERT(g == a, "gcd(a,0) == a");
  if (a == 0) ASSERT(g == b, "gcd(0,b) == b");
  if (a != 0 || b != 0) {
    ASSERT(g != 0, "gcd of a non-zero pair is non-zero");
    if (g != 0) {
      ASSERT(a % g == 0, "gcd divides a");
      ASSERT(b % g == 0, "gcd divides b");
      if (a % d == 0 && b % d == 0) ASSERT(g % d == 0, "every common divisor divides gcd");
    }
  }
#elif MODE == 2
  /* full-width special cases (any value of the type, non-negative for signed T): gcd(x,0) = gcd(0,x) = gcd(x,x) = x, gcd(x,1) = 1,
   * and reduce_fraction(x, x) = (1,1), reduce_fraction(x, 1) = (x, 1), reduce_fraction(0, x) = (0, 1) */
  uint64_t x = a;
  (void)d;
  ASSERT(CAT(w_gcd_, T)(x, 0) == x, "gcd(x,0) == x");
  ASSERT(CAT(w_gcd_, T)(0, x) == x, "gcd(0,x) == x");
  ASSERT(CAT(w_gcd_, T)(x, x) == x, "gcd(x,x) == x");
  if (x != 0) {
    ASSERT(CAT(w_gcd_, T)(x, 1) == 1 && CAT(w_gcd_, T)(1, x) == 1, "gcd(x,1) == 1");
    uint64_t o[2] = {7, 7};
    ASSERT(CAT(w_reduce_, T)(x, x, o) == 0 && o[0] == 1 && o[1] == 1, "reduce_fraction(x,x) == (1,1)");
    ASSERT(CAT(w_reduce_, T)(x, 1, o) == 0 && o[0] == x && o[1] == 1, "reduce_fraction(x,1) == (x,1)");
    ASSERT(CAT(w_reduce_, T)(0, x, o) == 0 && o[0] == 0 && o[1] == 1, "reduce_fraction(0,x) == (0,1)");
  }
  OBS(x);
#else
  /* reduce_fraction(a, b), b != 0 (a fraction has a non-zero denominator) */
  ASSUME(b != 0);
  uint64_t out[2] = {0, 0};
  int64_t rc = CAT(w_reduce_, T)(a, b, out);
  OBS(rc); OBS(out[0]); OBS(out[1]);
  ASSERT(rc == 0, "reduce_fraction returns");
  uint64_t p = out[0], q = out[1];
  ASSERT(q != 0, "reduced denominator is non-zero");
  ASSERT((unsigned __int128)p * b == (unsigned __int128)q * a, "same ratio: p*b == q*a");
  /* coprime: no d >= 2 divides both */
  if (d >= 2 && q != 0) ASSERT(!(p % d == 0 && q % d == 0), "reduced terms are coprime");
  ASSERT(p <= a && q <= b, "terms do not grow");
#endif
}
