/* C20: Vector2/3/4<int32_t>. defs: DIMS = 2|3|4, MODE.
 * Reference = the componentwise definitions over the integers (64-bit arithmetic in the harness); the inputs are restricted
 * to those whose mathematically exact result fits int32_t (signed overflow is undefined in C++, the property is about values). */
#include "harness.h"
int64_t w_v2_op(uint32_t op, uint32_t* a, uint32_t* b, uint32_t s, uint32_t* out);
int64_t w_v3_op(uint32_t op, uint32_t* a, uint32_t* b, uint32_t s, uint32_t* out);
int64_t w_v4_op(uint32_t op, uint32_t* a, uint32_t* b, uint32_t s, uint32_t* out);
int64_t w_v2_pred(uint32_t p, uint32_t* a, uint32_t* b, uint64_t* out);
int64_t w_v3_pred(uint32_t p, uint32_t* a, uint32_t* b, uint64_t* out);
int64_t w_v4_pred(uint32_t p, uint32_t* a, uint32_t* b, uint64_t* out);
int64_t w_v_at(uint32_t dims, uint32_t* a, uint64_t i, uint64_t* out);
int64_t w_v3_cross(uint32_t* a, uint32_t* b, uint32_t* out);
int64_t w_v_ctor(uint32_t which, uint32_t* a, uint32_t* out);

enum { OP_NEG = 0, OP_ADD_V, OP_SUB_V, OP_ADD_S, OP_SUB_S, OP_MUL_S, OP_DIV_S, OP_MOD_S,
       OP_IADD_V, OP_ISUB_V, OP_IADD_S, OP_ISUB_S, OP_IMUL_S, OP_IDIV_S, OP_IMOD_S, OP_COUNT };
enum { P_NOT = 0, P_EQ, P_NE, P_LT, P_NORM1, P_NORM2, P_DOT, P_DIMS };

static int64_t v_op(uint32_t op, int32_t* a, int32_t* b, int32_t s, int32_t* out) {
#if DIMS == 2
  return w_v2_op(op, (uint32_t*)a, (uint32_t*)b, (uint32_t)s, (uint32_t*)out);
#elif DIMS == 3
  return w_v3_op(op, (uint32_t*)a, (uint32_t*)b, (uint32_t)s, (uint32_t*)out);
#else
  return w_v4_op(op, (uint32_t*)a, (uint32_t*)b, (uint32_t)s, (uint32_t*)out);
#endif
}
static int64_t v_pred(uint32_t p, int32_t* a, int32_t* b) {
  uint64_t out = 0;
  int64_t rc;
#if DIMS == 2
  rc = w_v2_pred(p, (uint32_t*)a, (uint32_t*)b, &out);
#elif DIMS == 3
  rc = w_v3_pred(p, (uint32_t*)a, (uint32_t*)b, &out);
#else
  rc = w_v4_pred(p, (uint32_t*)a, (uint32_t*)b, &out);
#endif
  ASSERT(rc == 0, "vector predicate does not throw");
  return (int64_t)out;
}
static int fits32(int64_t v) { return v >= -2147483648LL && v <= 2147483647LL; }
static void in_vec(int32_t* v) { for (int i = 0; i < 4; i++) v[i] = in_i32(); }
#ifdef NNBITS
/* structurally narrow non-negative operand: value = input & (2^NNBITS - 1), i.e. in [0, 2^NNBITS) (cheap for the bit-level solver) */
static int32_t in_small(void) { return (int32_t)(in_u64() & ((1ULL << NNBITS) - 1)); }
#endif
#ifndef GROUP
#define GROUP 0
#endif
#ifndef MB
#define MB 127 /* operand bound for * / % */
#endif
#ifndef PB
#define PB 16383 /* component bound for dot / norm2 */
#endif
#ifndef CB
#define CB 4 /* component bound for the polynomial identities (property quantifier: [-4,4]) */
#endif

void harness(void) {
  int32_t a[4], b[4], c[4], out[4] = {0, 0, 0, 0};
#if MODE == 0
  /* every arithmetic operator (value-returning and compound forms) == componentwise definition.
   * GROUP 0: unary -, + and - with a vector or a scalar: every input whose exact result fits int32_t.
   * GROUP 1: * scalar; GROUP 2: / scalar; GROUP 3: % scalar: components and scalar in [-MB, MB] (the exact result then fits;
   *          the reference is C's own int32 operator on the same operands - what is decided is that the right operation
   *          reaches the right components, for both the value-returning and the compound form). */
  in_vec(a); in_vec(b);
  int32_t s = in_i32();
  uint32_t op;
  int32_t ref[4];
#if GROUP == 0
  static const uint8_t ops[] = {OP_NEG, OP_ADD_V, OP_SUB_V, OP_ADD_S, OP_SUB_S, OP_IADD_V, OP_ISUB_V, OP_IADD_S, OP_ISUB_S};
  op = ops[in_range(0, sizeof(ops) - 1)];
  for (int i = 0; i < DIMS; i++) {
    int64_t x = a[i], y = b[i], r;
    switch (op) {
      case OP_NEG: r = -x; break;
      case OP_ADD_V: case OP_IADD_V: r = x + y; break;
      case OP_SUB_V: case OP_ISUB_V: r = x - y; break;
      case OP_ADD_S: case OP_IADD_S: r = x + s; break;
      default: r = x - s; break;
    }
    ASSUME(fits32(r));
    ref[i] = (int32_t)r;
  }
#else
  op = (GROUP == 1 ? OP_MUL_S : GROUP == 2 ? OP_DIV_S : OP_MOD_S);
  if (in_bool()) op += OP_IMUL_S - OP_MUL_S; /* compound form */
#ifdef NNBITS
  s = in_small();
  for (int i = 0; i < DIMS; i++) a[i] = in_small();
#endif
  ASSUME(s >= -MB && s <= MB);
  if (GROUP != 1) ASSUME(s != 0);
  for (int i = 0; i < DIMS; i++) {
    ASSUME(a[i] >= -MB && a[i] <= MB);
    ref[i] = (GROUP == 1) ? a[i] * s : (GROUP == 2) ? a[i] / s : a[i] % s;
  }
#endif
  int64_t rc = v_op(op, a, b, s, out);
  ASSERT(rc == 0, "vector operator does not throw");
  for (int i = 0; i < DIMS; i++) { OBS(out[i]); ASSERT(out[i] == ref[i], "operator == componentwise definition"); }
#elif MODE == 1
  /* !, ==, !=, norm1 (sum of components), norm2, dot, dimensions */
  in_vec(a); in_vec(b);
#ifdef NNBITS
  for (int i = 0; i < 4; i++) { a[i] = in_small(); b[i] = in_small(); }
#endif
  int all0 = 1, eq = 1;
  int64_t sum = 0;
  for (int i = 0; i < DIMS; i++) {
    if (a[i] != 0) all0 = 0;
    if (a[i] != b[i]) eq = 0;
    sum += a[i];
  }
  ASSERT(v_pred(P_NOT, a, b) == all0, "operator! <=> all components zero");
  ASSERT(v_pred(P_EQ, a, b) == eq, "operator== <=> all components equal");
  ASSERT(v_pred(P_NE, a, b) == !eq, "operator!= <=> some component differs");
  ASSERT(v_pred(P_DIMS, a, b) == DIMS, "dimensions()");
  if (fits32(sum)) {
    int ok = 1; int64_t part = 0;
    for (int i = 0; i < DIMS; i++) { part += a[i]; if (!fits32(part)) ok = 0; }
    if (ok) ASSERT(v_pred(P_NORM1, a, b) == sum, "norm1 == sum of components");
  }
  /* products: components in [-PB, PB] so that every exact partial sum fits int32 (then int32 arithmetic is exact) */
  int small = 1;
  for (int i = 0; i < DIMS; i++)
    if (a[i] < -PB || a[i] > PB || b[i] < -PB || b[i] > PB) small = 0;
  if (small) {
    int32_t n2 = 0, dot = 0;
    for (int i = 0; i < DIMS; i++) { n2 += a[i] * a[i]; dot += a[i] * b[i]; }
    ASSERT(v_pred(P_NORM2, a, b) == (int64_t)n2, "norm2 == sum of squares");
    ASSERT(v_pred(P_DOT, a, b) == (int64_t)dot, "dot == sum of products");
  }
#elif MODE == 2
  /* operator< : lexicographic, strict weak (indeed total) order consistent with == ; three symbolic vectors, full width */
  in_vec(a); in_vec(b); in_vec(c);
  int lex = 0, eq = 1;
  for (int i = DIMS - 1; i >= 0; i--) { /* lexicographic definition, evaluated from the last component */
    if (a[i] < b[i]) lex = 1; else if (a[i] > b[i]) lex = 0;
    if (a[i] != b[i]) eq = 0;
  }
  int ab = (int)v_pred(P_LT, a, b), ba = (int)v_pred(P_LT, b, a), bc = (int)v_pred(P_LT, b, c), ac = (int)v_pred(P_LT, a, c);
  int cb = (int)v_pred(P_LT, c, b), ca = (int)v_pred(P_LT, c, a);
  OBS(ab); OBS(ba); OBS(bc); OBS(ac);
  ASSERT(ab == lex, "operator< is the lexicographic order");
  ASSERT(!v_pred(P_LT, a, a), "irreflexive");
  ASSERT(!(ab && ba), "asymmetric");
  if (ab && bc) ASSERT(ac, "transitive");
  if (!ab && !ba && !bc && !cb) ASSERT(!ac && !ca, "incomparability is transitive");
  ASSERT((!ab && !ba) == (int)v_pred(P_EQ, a, b), "!(a<b) && !(b<a) <=> a == b");
  ASSERT((int)v_pred(P_EQ, a, b) == eq, "operator== is componentwise equality");
#elif MODE == 3
  /* at(i) */
  in_vec(a);
  uint64_t i = in_range(0, DIMS - 1);
  uint64_t r = 0;
  int64_t rc = w_v_at(DIMS, (uint32_t*)a, i, &r);
  ASSERT(rc == 0, "at() does not throw");
  OBS(r);
  ASSERT((int64_t)r == (int64_t)a[i], "at(i) is the i-th component");
#elif MODE == 4
  /* cross product: definition, and orthogonality to both operands (through phosg's dot), components in [-CB, CB] */
  for (int i = 0; i < 3; i++) { a[i] = (int32_t)in_irange(-CB, CB); b[i] = (int32_t)in_irange(-CB, CB); }
  a[3] = b[3] = 0;
#ifdef A0
  ASSUME(a[0] == (A0)); /* optional case split outside the solver */
#endif
  int64_t rc = w_v3_cross((uint32_t*)a, (uint32_t*)b, (uint32_t*)out);
  ASSERT(rc == 0, "cross does not throw");
  ASSERT(out[0] == a[1] * b[2] - a[2] * b[1], "cross.x");
  ASSERT(out[1] == a[2] * b[0] - a[0] * b[2], "cross.y");
  ASSERT(out[2] == a[0] * b[1] - a[1] * b[0], "cross.z");
  uint64_t d = 1;
  ASSERT(w_v3_pred(P_DOT, (uint32_t*)out, (uint32_t*)a, &d) == 0 && d == 0, "cross(a,b) . a == 0");
  d = 1;
  ASSERT(w_v3_pred(P_DOT, (uint32_t*)out, (uint32_t*)b, &d) == 0 && d == 0, "cross(a,b) . b == 0");
  for (int i = 0; i < 3; i++) OBS(out[i]);
#else
  /* constructors */
  in_vec(a);
  uint32_t which = (uint32_t)in_range(0, 3);
  int64_t rc = w_v_ctor(which, (uint32_t*)a, (uint32_t*)out);
  ASSERT(rc == 0, "constructors do not throw");
  if (which == 0) ASSERT(out[0] == a[0] && out[1] == a[1] && out[2] == a[2], "Vector3(Vector2, z)");
  else if (which == 1 || which == 2) ASSERT(out[0] == a[0] && out[1] == a[1] && out[2] == a[2] && out[3] == a[3], "Vector4(Vector2|Vector3, ...)");
  else ASSERT(out[0] == 0 && out[1] == 0 && out[2] == 0, "default constructors give the zero vector");
#endif
}
