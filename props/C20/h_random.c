/* C20: random_int(lo,hi) in [lo,hi]; random_data fills exactly the requested bytes, each from a fresh source byte.
 * The random source (/dev/urandom through phosg::scoped_fd + phosg::readx(fd, 4096), see wrap.cc) is a stub: every byte it
 * delivers is a solver input. defs: MODE, BLOCK = number of bytes the source hands out per readx call (the real readx returns
 * the 4096 requested bytes; the refill/tail arithmetic of random_data only uses buffer.size(), BLOCK scales it down;
 * BLOCK == 0 means "exactly the requested number"), N1/N2 = concrete request sizes (MODE 1), */
#include "harness.h"
int64_t w_random_int(uint64_t lo, uint64_t hi, uint64_t* out);
int64_t w_random_data2(uint8_t* out1, uint64_t n1, uint8_t* out2, uint64_t n2);
int64_t w_random_data_str(uint64_t n, uint8_t* out, uint64_t cap);

#ifndef BLOCK
#define BLOCK 8
#endif
#define SRC_MAX 40
static uint8_t src[SRC_MAX]; /* every byte handed out so far */
static unsigned src_n;
static unsigned refills;
static uint8_t avoid;      /* MODE 1: the source never delivers this value (so "written" is observable) */
static int use_avoid;

uint64_t STUB(verif_urandom)(uint8_t* buf, uint64_t requested) {
  uint64_t got = BLOCK ? BLOCK : requested;
  refills++;
  for (uint64_t i = 0; i < got; i++) {
    uint8_t v = in_u8();
    if (use_avoid) ASSUME(v != avoid);
    buf[i] = v;
    if (src_n < SRC_MAX) src[src_n] = v;
    src_n++;
  }
  return got;
}

void harness(void) {
#if MODE == 0
  /* random_int: lo <= hi, hi - lo + 1 representable (hi - lo <= 2^63 - 2). */
  int64_t lo = in_i64(), hi = in_i64();
  ASSUME(lo <= hi);
  ASSUME((uint64_t)hi - (uint64_t)lo <= 0x7FFFFFFFFFFFFFFEULL);
#ifdef RANGE_LO
  ASSUME((uint64_t)hi - (uint64_t)lo + 1 >= RANGE_LO && (uint64_t)hi - (uint64_t)lo + 1 <= RANGE_HI);
#endif
  uint64_t out = 0;
  int64_t rc = w_random_int((uint64_t)lo, (uint64_t)hi, &out);
  OBS(rc); OBS(out);
  ASSERT(rc == 0, "random_int does not throw");
  ASSERT((int64_t)out >= lo && (int64_t)out <= hi, "random_int(lo,hi) in [lo,hi]");
  ASSERT(src_n <= SRC_MAX, "harness source log bound");
#elif MODE == 1
  /* two consecutive random_data calls (the second starts from whatever the first left in the buffer) */
  uint8_t o1[N1 + 2], o2[N2 + 2];
  avoid = in_u8(); use_avoid = 1;
  for (unsigned i = 0; i < N1 + 2; i++) o1[i] = avoid;
  for (unsigned i = 0; i < N2 + 2; i++) o2[i] = avoid;
  int64_t rc = w_random_data2(o1, N1, o2, N2);
  OBS(rc);
  ASSERT(rc == 0, "random_data does not throw");
  ASSERT(src_n <= SRC_MAX, "harness source log bound");
  for (unsigned i = 0; i < N1; i++) { OBS(o1[i]); ASSERT(o1[i] != avoid, "every requested byte is written (call 1)"); }
  for (unsigned i = 0; i < N2; i++) { OBS(o2[i]); ASSERT(o2[i] != avoid, "every requested byte is written (call 2)"); }
  ASSERT(o1[N1] == avoid && o1[N1 + 1] == avoid, "nothing written beyond the request (call 1)");
  ASSERT(o2[N2] == avoid && o2[N2 + 1] == avoid, "nothing written beyond the request (call 2)");
  /* freshness: if the source bytes are pairwise distinct then so are all delivered bytes (no source byte is used twice),
   * and every delivered byte is a source byte */
  int distinct = 1;
  for (unsigned i = 0; i < src_n && i < SRC_MAX; i++)
    for (unsigned j = i + 1; j < src_n && j < SRC_MAX; j++)
      if (src[i] == src[j]) distinct = 0;
  uint8_t all[N1 + N2 + 1];
  for (unsigned i = 0; i < N1; i++) all[i] = o1[i];
  for (unsigned i = 0; i < N2; i++) all[N1 + i] = o2[i];
  for (unsigned i = 0; i < N1 + N2; i++) {
    int from_src = 0;
    for (unsigned j = 0; j < src_n && j < SRC_MAX; j++) if (all[i] == src[j]) from_src = 1;
    ASSERT(from_src, "every delivered byte came from the source");
    if (distinct) for (unsigned j = i + 1; j < N1 + N2; j++) ASSERT(all[i] != all[j], "no source byte is delivered twice");
  }
  /* economy: no more source blocks are drawn than needed */
  if (BLOCK) ASSERT(refills == (N1 + N2 + BLOCK - 1) / BLOCK, "refill count == ceil(total/BLOCK)");
#else
  /* string form: random_data(n) returns exactly n bytes */
  uint8_t o[N1 + 2];
  avoid = in_u8(); use_avoid = 1;
  int64_t rc = w_random_data_str(N1, o, sizeof(o));
  OBS(rc);
  ASSERT(rc == (int64_t)N1, "random_data(n).size() == n");
  for (unsigned i = 0; i < N1; i++) { OBS(o[i]); ASSERT(o[i] != avoid, "every byte of the string is a source byte"); }
#endif
}
