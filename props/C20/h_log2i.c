/* C20: log2i<T>(v) == floor(log2 v) for every v > 0 of the type: 2^r <= v < 2^(r+1).
 * defs: T suffix, BITS = width, SIGNED = 0/1 (signed: positive values only, v < 2^(BITS-1)). */
#include "harness.h"
#define CAT_(a, b) a##b
#define CAT(a, b) CAT_(a, b)
int64_t w_log2i_u8(uint64_t v);
int64_t w_log2i_u16(uint64_t v);
int64_t w_log2i_u32(uint64_t v);
int64_t w_log2i_u64(uint64_t v);
int64_t w_log2i_i8(uint64_t v);
int64_t w_log2i_i16(uint64_t v);
int64_t w_log2i_i32(uint64_t v);
int64_t w_log2i_i64(uint64_t v);

void harness(void) {
  const unsigned vb = BITS - SIGNED;
  const uint64_t lim = (vb >= 64) ? ~0ULL : ((1ULL << vb) - 1);
  uint64_t v = in_range(1, lim);
  int64_t r = CAT(w_log2i_, T)(v);
  OBS(r);
  ASSERT(r >= 0 && r < (int64_t)vb, "log2i in [0, value bits)");
  if (r >= 0 && r < 64) {
    ASSERT((v >> r) == 1, "2^r <= v < 2^(r+1)");
  }
}
