// C20 wrappers: Math.hh (gcd, reduce_fraction, log2i), Vector.hh (Vector2/3/4, Matrix4 over int32_t), Random.cc.
// Environment of Random.cc: /dev/urandom is reached through phosg::scoped_fd and phosg::readx(int, size_t) (both defined in
// Filesystem.cc, which is NOT part of this unit). They are replaced here by definitions that forward to the harness-provided
// C function verif_urandom() (the harness fills the bytes from solver inputs): see spec.STUBS.
#include "wrap.hh"
#include "Math.hh"
#include "Vector.hh"
#include "Random.cc"
using namespace phosg;

// ---- environment stub (C++ side adapter; the nondeterministic source itself lives in the harness) -------------------
#ifndef VERIF_URANDOM_CAP
#define VERIF_URANDOM_CAP 64
#endif
extern "C" uint64_t verif_urandom(uint8_t* buf, uint64_t requested); // returns the number of bytes it delivers in this block
namespace phosg {
scoped_fd::scoped_fd(const char*, int, mode_t) : fd(3) {}
scoped_fd::~scoped_fd() {}
scoped_fd::operator int() const { return this->fd; }
std::string readx(int, size_t size) {
  // contract of readx(fd, n): exactly n bytes or an exception. The harness chooses the block length it hands out
  // (VERIF_BLOCK; n itself when that is 0) so that the refill arithmetic can be decided for small blocks.
  uint8_t tmp[VERIF_URANDOM_CAP];
  uint64_t got = verif_urandom(tmp, size);
  if (got > sizeof(tmp)) throw std::length_error("verif_urandom block exceeds VERIF_URANDOM_CAP"); // harness bound, reported as rc -3
  return std::string(reinterpret_cast<const char*>(tmp), got);
}
} // namespace phosg

// ---- Math.hh ---------------------------------------------------------------------------------------------------------
#define GCD_W(sfx, T)                                                                       \
  WEXPORT uint64_t w_gcd_##sfx(uint64_t a, uint64_t b) {                                    \
    try { return static_cast<uint64_t>(gcd<T>(static_cast<T>(a), static_cast<T>(b))); }     \
    W_CATCH_ALL                                                                             \
  }                                                                                         \
  WEXPORT int64_t w_reduce_##sfx(uint64_t a, uint64_t b, uint64_t* out) {                   \
    try {                                                                                   \
      auto r = reduce_fraction<T>(static_cast<T>(a), static_cast<T>(b));                    \
      out[0] = static_cast<uint64_t>(r.first);                                              \
      out[1] = static_cast<uint64_t>(r.second);                                             \
      return 0;                                                                             \
    }                                                                                       \
    W_CATCH_ALL                                                                             \
  }                                                                                         \
  WEXPORT int64_t w_log2i_##sfx(uint64_t v) {                                               \
    try { return static_cast<int64_t>(log2i<T>(static_cast<T>(v))); }                       \
    W_CATCH_ALL                                                                             \
  }
GCD_W(u8, uint8_t)
GCD_W(u16, uint16_t)
GCD_W(u32, uint32_t)
GCD_W(u64, uint64_t)
GCD_W(i8, int8_t)
GCD_W(i16, int16_t)
GCD_W(i32, int32_t)
GCD_W(i64, int64_t)

// ---- Random.cc ---------------------------------------------------------------------------------------------------------
WEXPORT int64_t w_random_int(int64_t lo, int64_t hi, int64_t* out) {
  try {
    *out = random_int(lo, hi);
    return 0;
  }
  W_CATCH_ALL
}
// two consecutive calls on the same (thread-local) buffer state
WEXPORT int64_t w_random_data2(uint8_t* out1, size_t n1, uint8_t* out2, size_t n2) {
  try {
    phosg::random_data(out1, n1);
    phosg::random_data(out2, n2);
    return 0;
  }
  W_CATCH_ALL
}
WEXPORT int64_t w_random_data_str(size_t n, uint8_t* out, size_t cap) {
  try {
    return w_copy_out(phosg::random_data(n), out, cap);
  }
  W_CATCH_ALL
}

// ---- Vector2/3/4<int32_t> ----------------------------------------------------------------------------------------------
// op codes shared by the three vector wrappers
enum {
  OP_NEG = 0, OP_ADD_V, OP_SUB_V, OP_ADD_S, OP_SUB_S, OP_MUL_S, OP_DIV_S, OP_MOD_S,
  OP_IADD_V, OP_ISUB_V, OP_IADD_S, OP_ISUB_S, OP_IMUL_S, OP_IDIV_S, OP_IMOD_S,
};
template <typename V>
static V vec_apply(int op, const V& a, const V& b, int32_t s) {
  V t = a;
  switch (op) {
    case OP_NEG: return -a;
    case OP_ADD_V: return a + b;
    case OP_SUB_V: return a - b;
    case OP_ADD_S: return a + s;
    case OP_SUB_S: return a - s;
    case OP_MUL_S: return a * s;
    case OP_DIV_S: return a / s;
    case OP_MOD_S: return a % s;
    case OP_IADD_V: t += b; return t;
    case OP_ISUB_V: t -= b; return t;
    case OP_IADD_S: t += s; return t;
    case OP_ISUB_S: t -= s; return t;
    case OP_IMUL_S: t *= s; return t;
    case OP_IDIV_S: t /= s; return t;
    case OP_IMOD_S: t %= s; return t;
  }
  return V();
}
// predicate / scalar result codes
enum { P_NOT = 0, P_EQ, P_NE, P_LT, P_NORM1, P_NORM2, P_DOT, P_DIMS };

WEXPORT int64_t w_v2_op(int op, const int32_t* a, const int32_t* b, int32_t s, int32_t* out) {
  try {
    Vector2<int32_t> r = vec_apply(op, Vector2<int32_t>(a[0], a[1]), Vector2<int32_t>(b[0], b[1]), s);
    out[0] = r.x; out[1] = r.y;
    return 0;
  }
  W_CATCH_ALL
}
WEXPORT int64_t w_v3_op(int op, const int32_t* a, const int32_t* b, int32_t s, int32_t* out) {
  try {
    Vector3<int32_t> r = vec_apply(op, Vector3<int32_t>(a[0], a[1], a[2]), Vector3<int32_t>(b[0], b[1], b[2]), s);
    out[0] = r.x; out[1] = r.y; out[2] = r.z;
    return 0;
  }
  W_CATCH_ALL
}
WEXPORT int64_t w_v4_op(int op, const int32_t* a, const int32_t* b, int32_t s, int32_t* out) {
  try {
    Vector4<int32_t> r = vec_apply(op, Vector4<int32_t>(a[0], a[1], a[2], a[3]), Vector4<int32_t>(b[0], b[1], b[2], b[3]), s);
    out[0] = r.x; out[1] = r.y; out[2] = r.z; out[3] = r.w;
    return 0;
  }
  W_CATCH_ALL
}
template <typename V>
static int64_t vec_pred(int p, const V& a, const V& b) {
  switch (p) {
    case P_NOT: return !a;
    case P_EQ: return a == b;
    case P_NE: return a != b;
    case P_LT: return a < b;
    case P_NORM1: return a.norm1();
    case P_NORM2: return a.norm2();
    case P_DOT: return a.dot(b);
    case P_DIMS: return V::dimensions();
  }
  return -1;
}
// result through *out so that negative values cannot be confused with exception codes
WEXPORT int64_t w_v2_pred(int p, const int32_t* a, const int32_t* b, int64_t* out) {
  try { *out = vec_pred(p, Vector2<int32_t>(a[0], a[1]), Vector2<int32_t>(b[0], b[1])); return 0; }
  W_CATCH_ALL
}
WEXPORT int64_t w_v3_pred(int p, const int32_t* a, const int32_t* b, int64_t* out) {
  try { *out = vec_pred(p, Vector3<int32_t>(a[0], a[1], a[2]), Vector3<int32_t>(b[0], b[1], b[2])); return 0; }
  W_CATCH_ALL
}
WEXPORT int64_t w_v4_pred(int p, const int32_t* a, const int32_t* b, int64_t* out) {
  try { *out = vec_pred(p, Vector4<int32_t>(a[0], a[1], a[2], a[3]), Vector4<int32_t>(b[0], b[1], b[2], b[3])); return 0; }
  W_CATCH_ALL
}
WEXPORT int64_t w_v_at(int dims, const int32_t* a, size_t i, int64_t* out) {
  try {
    if (dims == 2) *out = Vector2<int32_t>(a[0], a[1]).at(i);
    else if (dims == 3) *out = Vector3<int32_t>(a[0], a[1], a[2]).at(i);
    else *out = Vector4<int32_t>(a[0], a[1], a[2], a[3]).at(i);
    return 0;
  }
  W_CATCH_ALL
}
WEXPORT int64_t w_v3_cross(const int32_t* a, const int32_t* b, int32_t* out) {
  try {
    Vector3<int32_t> r = Vector3<int32_t>(a[0], a[1], a[2]).cross(Vector3<int32_t>(b[0], b[1], b[2]));
    out[0] = r.x; out[1] = r.y; out[2] = r.z;
    return 0;
  }
  W_CATCH_ALL
}
// the converting constructors Vector3(Vector2, z), Vector4(Vector2, z, w), Vector4(Vector3, w) and the default constructors
WEXPORT int64_t w_v_ctor(int which, const int32_t* a, int32_t* out) {
  try {
    if (which == 0) { Vector3<int32_t> r(Vector2<int32_t>(a[0], a[1]), a[2]); out[0] = r.x; out[1] = r.y; out[2] = r.z; out[3] = 0; }
    else if (which == 1) { Vector4<int32_t> r(Vector2<int32_t>(a[0], a[1]), a[2], a[3]); out[0] = r.x; out[1] = r.y; out[2] = r.z; out[3] = r.w; }
    else if (which == 2) { Vector4<int32_t> r(Vector3<int32_t>(a[0], a[1], a[2]), a[3]); out[0] = r.x; out[1] = r.y; out[2] = r.z; out[3] = r.w; }
    else { Vector2<int32_t> r2; Vector3<int32_t> r3; Vector4<int32_t> r4; out[0] = r2.x | r2.y; out[1] = r3.x | r3.y | r3.z; out[2] = r4.x | r4.y | r4.z | r4.w; out[3] = 0; }
    return 0;
  }
  W_CATCH_ALL
}

// ---- Matrix4<int32_t>; harness-side layout = phosg's v[16] (v[4*c + r] = m[c][r]) -----------------------------------------
static Matrix4<int32_t> mat_in(const int32_t* p) {
  Matrix4<int32_t> m;
  for (size_t z = 0; z < 16; z++) m.v[z] = p[z];
  return m;
}
static void mat_out(const Matrix4<int32_t>& m, int32_t* p) {
  for (size_t z = 0; z < 16; z++) p[z] = m.v[z];
}
WEXPORT int64_t w_m4_identity(int32_t* out) {
  try { mat_out(Matrix4<int32_t>(), out); return 0; }
  W_CATCH_ALL
}
WEXPORT int64_t w_m4_mulv(const int32_t* m, const int32_t* v, int32_t* out) {
  try {
    Vector4<int32_t> r = mat_in(m) * Vector4<int32_t>(v[0], v[1], v[2], v[3]);
    out[0] = r.x; out[1] = r.y; out[2] = r.z; out[3] = r.w;
    return 0;
  }
  W_CATCH_ALL
}
WEXPORT int64_t w_m4_mulm(const int32_t* a, const int32_t* b, int inplace, int32_t* out) {
  try {
    if (inplace) { Matrix4<int32_t> t = mat_in(a); t *= mat_in(b); mat_out(t, out); }
    else mat_out(mat_in(a) * mat_in(b), out);
    return 0;
  }
  W_CATCH_ALL
}
WEXPORT int64_t w_m4_transpose(const int32_t* a, int inplace, int32_t* out) {
  try {
    if (inplace) { Matrix4<int32_t> t = mat_in(a); t.transpose(); mat_out(t, out); }
    else mat_out(mat_in(a).transposition(), out);
    return 0;
  }
  W_CATCH_ALL
}
// (A*B)*v and A*(B*v) computed by phosg
WEXPORT int64_t w_m4_assoc(const int32_t* a, const int32_t* b, const int32_t* v, int32_t* out_abv, int32_t* out_a_bv) {
  try {
    Matrix4<int32_t> A = mat_in(a), B = mat_in(b);
    Vector4<int32_t> V(v[0], v[1], v[2], v[3]);
    Vector4<int32_t> l = (A * B) * V;
    Vector4<int32_t> r = A * (B * V);
    out_abv[0] = l.x; out_abv[1] = l.y; out_abv[2] = l.z; out_abv[3] = l.w;
    out_a_bv[0] = r.x; out_a_bv[1] = r.y; out_a_bv[2] = r.z; out_a_bv[3] = r.w;
    return 0;
  }
  W_CATCH_ALL
}
enum { M_ADD_M = 0, M_SUB_M, M_ADD_S, M_SUB_S, M_MUL_S, M_DIV_S, M_MOD_S, M_IADD_M, M_ISUB_M, M_IADD_S, M_ISUB_S, M_IMUL_S, M_IDIV_S, M_IMOD_S };
WEXPORT int64_t w_m4_op(int op, const int32_t* a, const int32_t* b, int32_t s, int32_t* out) {
  try {
    Matrix4<int32_t> A = mat_in(a), B = mat_in(b), R;
    switch (op) {
      case M_ADD_M: R = A + B; break;
      case M_SUB_M: R = A - B; break;
      case M_ADD_S: R = A + s; break;
      case M_SUB_S: R = A - s; break;
      case M_MUL_S: R = A * s; break;
      case M_DIV_S: R = A / s; break;
      case M_MOD_S: R = A % s; break;
      case M_IADD_M: A += B; R = A; break;
      case M_ISUB_M: A -= B; R = A; break;
      case M_IADD_S: A += s; R = A; break;
      case M_ISUB_S: A -= s; R = A; break;
      case M_IMUL_S: A *= s; R = A; break;
      case M_IDIV_S: A /= s; R = A; break;
      case M_IMOD_S: A %= s; R = A; break;
    }
    mat_out(R, out);
    return 0;
  }
  W_CATCH_ALL
}
WEXPORT int64_t w_m4_eq(const int32_t* a, const int32_t* b, int ne) {
  try { return ne ? (mat_in(a) != mat_in(b)) : (mat_in(a) == mat_in(b)); }
  W_CATCH_ALL
}

// ---- Matrix4<double>: M * inverse(M) (C20 inversion clause). Entries as IEEE bit patterns, layout v[4*c + r].
static Matrix4<double> matd_in(const uint64_t* p) {
  Matrix4<double> m;
  for (size_t z = 0; z < 16; z++) memcpy(&m.v[z], &p[z], 8);
  return m;
}
static void matd_out(const Matrix4<double>& m, uint64_t* p) {
  for (size_t z = 0; z < 16; z++) memcpy(&p[z], &m.v[z], 8);
}
// out_inv = inverse(M) (or invert() in place), out_prod = M * inverse(M); runtime_error (-5) when phosg says "not invertible"
WEXPORT int64_t w_m4d_inverse(const uint64_t* m, int inplace, uint64_t* out_inv, uint64_t* out_prod) {
  try {
    Matrix4<double> M = matd_in(m);
    Matrix4<double> I = M;
    if (inplace) I.invert(); else I = M.inverse();
    matd_out(I, out_inv);
    matd_out(M * I, out_prod);
    return 0;
  }
  W_CATCH_ALL
}
