ID = 'C20'
UNITS = {'math': dict(wrap='wrap.cc', new_block=64)}
BOUNDS = ''
STUBS = []
OUTSIDE = []
ASSUMPTIONS = []

TYPES = (('u8', 8, 0), ('u16', 16, 0), ('u32', 32, 0), ('u64', 64, 0), ('i8', 8, 1), ('i16', 16, 1), ('i32', 32, 1), ('i64', 64, 1))

def queries(tier):
    qs = []
    def q(name, harness, defs, unwind, timeout=300, mem_gb=4, desc='', bounds='', **kw):
        d = dict(name=name, unit='math', harness=harness, defs=defs, unwind=unwind, timeout=timeout, mem_gb=mem_gb, desc=desc, bounds=bounds)
        d.update(kw)
        qs.append(d)
    for t, bits, sg in TYPES:
        q('log2i_%s' % t, 'h_log2i.c', {'T': t, 'BITS': bits, 'SIGNED': sg}, 66, 120,
          desc='log2i<%s>(v): 2^r <= v < 2^(r+1) for every positive v of the type' % t, bounds='all positive values')
    for be in ('', 'cadical', 'kissat', 'cvc5'):
        q('gcd_u8_%s' % be, 'h_gcd.c', {'T': 'u8', 'BITS': 8, 'OPBITS': 8, 'MODE': 0}, 14, 300, backend=be)
        q('red_u8_%s' % be, 'h_gcd.c', {'T': 'u8', 'BITS': 8, 'OPBITS': 8, 'MODE': 1}, 14, 300, backend=be)
    for mb, be in ((15, ''), (15, 'kissat'), (127, 'kissat'), (127, 'cadical')):
        q('v2_ops_mul_%d_%s' % (mb, be), 'h_vec.c', {'DIMS': 2, 'MODE': 0, 'GROUP': 1, 'MB': mb}, 10, 300, backend=be)
        q('v4_preds_%d_%s' % (mb, be), 'h_vec.c', {'DIMS': 4, 'MODE': 1, 'PB': mb}, 6, 300, backend=be)
        q('m4_mulv_%d_%s' % (mb, be), 'h_mat.c', {'MODE': 0, 'VB': mb}, 18, 300, backend=be)
        q('m4_ops_mul_%d_%s' % (mb, be), 'h_mat.c', {'MODE': 4, 'GROUP': 1, 'MB': mb}, 18, 300, backend=be)
    q('m4_assoc_eb1_kissat', 'h_mat.c', {'MODE': 3, 'EB': 1}, 70, 300, mem_gb=8, backend='kissat')
    q('m4_mulm_eb1_cadical', 'h_mat.c', {'MODE': 2, 'EB': 1}, 18, 300, mem_gb=8, backend='cadical')
    return qs
