/* C06/4: PPM / PAM.  Cell: W,H, ALPHA, CW (bits per channel), MODE.
 * MODE 0  colour save: save(COLOR_PPM) of a symbolic image writes exactly the canonical file: the header the Netpbm formats
 *         define ("P6 W H MAXVAL\n", or the P7 header WIDTH/HEIGHT/DEPTH 4/MAXVAL/TUPLTYPE RGB_ALPHA/ENDHDR when the image
 *         has alpha) followed by the raw samples, nothing else.
 * MODE 2  colour load: the same canonical file, produced HERE, with symbolic samples: loading any prefix raises an exception
 *         or reproduces dimensions, alpha flag, channel width and the checked sample byte exactly.
 *         MODE 0 + MODE 2 together are the save->load identity (the file in between is byte-for-byte the canonical one; the
 *         split is needed because CBMC does not propagate constants through the snprintf varargs).
 * MODE 1  grayscale input produced HERE: "P5 W H MAXVAL\n" (ALPHA=0) or P7 TUPLTYPE GRAYSCALE_ALPHA (ALPHA=1) with symbolic
 *         samples: the complete file decodes to (g,g,g[,a]) per pixel, W x H, CW-bit channels; prefixes: exception or
 *         identical; the decoder stays inside its buffers (CBMC pointer checks on the exact-size malloc).
 * Samples wider than 8 bits are compared in the byte order phosg itself writes (host order), see NOTES.md.
 * The ALPHA=1 (P7) variants of MODE 1/2 are not queried from this file: P7 input has its own harness and unit (h_p7.c). */
#ifndef FCAP
#define FCAP 224
#endif
#include "c06.h"
#define BPC (CW / 8)
#define CH (3 + ALPHA)
#define N (W * H * CH * BPC)
static uint32_t put_str(uint8_t* d, uint32_t n, const char* s) { while (*s) d[n++] = (uint8_t)*s++; return n; }
static uint32_t put_dec(uint8_t* d, uint32_t n, uint64_t v) {
  uint8_t t[20]; uint32_t k = 0;
  do { t[k++] = (uint8_t)('0' + v % 10); v /= 10; } while (v);
  while (k) d[n++] = t[--k];
  return n;
}
#define MAXV (CW == 64 ? 18446744073709551615ULL : ((1ULL << (CW % 64)) - 1))
void harness(void) {
  static uint8_t exp_[FCAP];
  uint8_t d0[N + 1];
  file_reset();
  uint32_t hn = 0;
  int64_t r;
#if MODE == 0
  ASSERT(w_new(0, W, H, ALPHA, CW) == 0, "constructor");
  in_bytes(d0, N);
  w_set_data(0, d0, N);
  r = w_save_file(0, 1, HFILE);
  OBS(r);
  ASSERT(r == 0, "save as colour PPM succeeds");
#if ALPHA
  hn = put_str(exp_, hn, "P7\nWIDTH "); hn = put_dec(exp_, hn, W); hn = put_str(exp_, hn, "\nHEIGHT "); hn = put_dec(exp_, hn, H);
  hn = put_str(exp_, hn, "\nDEPTH 4\nMAXVAL "); hn = put_dec(exp_, hn, MAXV); hn = put_str(exp_, hn, "\nTUPLTYPE RGB_ALPHA\nENDHDR\n");
#else
  hn = put_str(exp_, hn, "P6 "); hn = put_dec(exp_, hn, W); hn = put_str(exp_, hn, " "); hn = put_dec(exp_, hn, H); hn = put_str(exp_, hn, " ");
  hn = put_dec(exp_, hn, MAXV); hn = put_str(exp_, hn, "\n");
#endif
  ASSERT(flen_ == hn + N, "file = header + W*H*channels*bytes samples");
  for (uint32_t i = 0; i < hn; i++) ASSERT(file_[i] == exp_[i], "header text is the Netpbm header for this image");
  uint64_t k = in_range(0, N - 1);
  ASSERT(file_[hn + k] == d0[k], "samples are stored raw, row-major, interleaved");
  w_free(0);
  return;
#elif MODE == 2
  /* independent encoder for colour input */
#if ALPHA
  hn = put_str(file_, hn, "P7\nWIDTH "); hn = put_dec(file_, hn, W); hn = put_str(file_, hn, "\nHEIGHT "); hn = put_dec(file_, hn, H);
  hn = put_str(file_, hn, "\nDEPTH 4\nMAXVAL "); hn = put_dec(file_, hn, MAXV); hn = put_str(file_, hn, "\nTUPLTYPE RGB_ALPHA\nENDHDR\n");
#else
  hn = put_str(file_, hn, "P6 "); hn = put_dec(file_, hn, W); hn = put_str(file_, hn, " "); hn = put_dec(file_, hn, H); hn = put_str(file_, hn, " ");
  hn = put_dec(file_, hn, MAXV); hn = put_str(file_, hn, "\n");
#endif
  for (uint32_t i = 0; i < N; i++) { d0[i] = in_u8(); file_[hn + i] = d0[i]; }
  flen_ = hn + N;
  uint64_t k = in_range(0, N - 1);
#else
  /* independent encoder for grayscale input */
#if ALPHA
  hn = put_str(file_, hn, "P7\nWIDTH "); hn = put_dec(file_, hn, W); hn = put_str(file_, hn, "\nHEIGHT "); hn = put_dec(file_, hn, H);
  hn = put_str(file_, hn, "\nDEPTH 2\nMAXVAL "); hn = put_dec(file_, hn, MAXV); hn = put_str(file_, hn, "\nTUPLTYPE GRAYSCALE_ALPHA\nENDHDR\n");
#else
  hn = put_str(file_, hn, "P5 "); hn = put_dec(file_, hn, W); hn = put_str(file_, hn, " "); hn = put_dec(file_, hn, H); hn = put_str(file_, hn, " ");
  hn = put_dec(file_, hn, MAXV); hn = put_str(file_, hn, "\n");
#endif
#define GN (W * H * (1 + ALPHA) * BPC)
  for (uint32_t i = 0; i < GN; i++) file_[hn + i] = in_u8();
  flen_ = hn + GN;
  uint64_t k = in_range(0, N - 1);
#endif
  const uint64_t full = flen_;
  /* truncation: inside the text header the length is a concrete cell (TLEN) - a symbolic cut there makes the parsed
   * dimensions, hence the malloc size, symbolic; inside the samples it is symbolic in [header length, full] */
#ifdef TLEN
  uint64_t tlen = TLEN < full ? TLEN : full;
  file_rewind(tlen);
#else
  uint64_t tlen = in_range(0, full);
  file_rewind_min(tlen, hn);
#endif
  r = w_load(1, HFILE);
  OBS(r);
  if (tlen == full) ASSERT(r == 0, "the complete file loads");
  ASSERT(r == 0 || r == W_IO_ERROR || r == W_RUNTIME_ERROR, "a truncated file is rejected with io_error/runtime_error or decodes");
  if (r == 0) {
    ASSERT(w_width(1) == W && w_height(1) == H && w_has_alpha(1) == ALPHA && w_channel_width(1) == CW && w_data_size(1) == N, "dimensions, alpha flag, channel width reproduced");
    int64_t b = w_data_byte(1, k);
    OBS(b);
#if MODE == 2
    ASSERT(b == d0[k], "checked sample byte reproduced exactly");
#else
    { uint64_t chan = k / BPC, byte = k % BPC, pix = chan / CH, c = chan % CH;
      uint64_t gi = (pix * (1 + ALPHA) + (c == 3 ? 1 : 0)) * BPC + byte; /* gray sample for R,G,B; alpha sample for A */
      ASSERT(b == file_[hn + gi], "gray sample is copied to R, G and B, alpha sample to A"); }
#endif
    w_free(1);
  }
}
