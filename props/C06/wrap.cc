// C06 wrappers: Image codecs (Image.cc load/save through Filesystem.cc freadx/fwritex). Thin adapters; the FILE* is an opaque
// handle owned by the harness, every libc stream function the codecs call is a harness stub over a byte array.
#include "wrap.hh"
#include <functional>
#include <map>
#include <memory>
#include <unordered_map>
#include <deque>
#include <vector>
#include <string>
#include "Filesystem.cc"
#include "Strings.cc"
#include "Encoding.cc"
#include "Image.cc"
using namespace phosg;

#define W_IO_ERROR (-20)        /* phosg::io_error (short read / write) */
#define W_UNKNOWN_FORMAT (-21)  /* Image::unknown_format */
#define C06_CATCH                                                   \
  catch (const io_error&) { return W_IO_ERROR; }                    \
  catch (const Image::unknown_format&) { return W_UNKNOWN_FORMAT; } \
  W_CATCH_ALL

static Image* g[2];

WEXPORT int64_t w_new(uint32_t slot, size_t w, size_t h, uint32_t alpha, uint32_t cw) {
  try {
    g[slot] = new Image(w, h, alpha != 0, static_cast<uint8_t>(cw));
    return 0;
  }
  W_CATCH_ALL
}
WEXPORT int64_t w_free(uint32_t slot) {
  delete g[slot];
  g[slot] = nullptr;
  return 0;
}
WEXPORT int64_t w_data_size(uint32_t slot) { return static_cast<int64_t>(g[slot]->get_data_size()); }
WEXPORT int64_t w_width(uint32_t slot) { return static_cast<int64_t>(g[slot]->get_width()); }
WEXPORT int64_t w_height(uint32_t slot) { return static_cast<int64_t>(g[slot]->get_height()); }
WEXPORT int64_t w_has_alpha(uint32_t slot) { return g[slot]->get_has_alpha(); }
WEXPORT int64_t w_channel_width(uint32_t slot) { return g[slot]->get_channel_width(); }
WEXPORT int64_t w_set_data(uint32_t slot, const uint8_t* p, size_t n) {
  if (n != g[slot]->get_data_size()) return W_CAPACITY;
  uint8_t* d = static_cast<uint8_t*>(g[slot]->get_data());
  for (size_t i = 0; i < n; i++) d[i] = p[i];
  return 0;
}
WEXPORT int64_t w_get_data(uint32_t slot, uint8_t* p, size_t n) {
  if (n != g[slot]->get_data_size()) return W_CAPACITY;
  const uint8_t* d = static_cast<const uint8_t*>(g[slot]->get_data());
  for (size_t i = 0; i < n; i++) p[i] = d[i];
  return 0;
}
// one stored byte (for the single checked pixel; avoids copying the whole buffer)
WEXPORT int64_t w_data_byte(uint32_t slot, size_t i) {
  if (i >= g[slot]->get_data_size()) return W_CAPACITY;
  return static_cast<const uint8_t*>(g[slot]->get_data())[i];
}
// fmt: 0 GRAYSCALE_PPM, 1 COLOR_PPM, 2 WINDOWS_BITMAP, 3 PNG
WEXPORT int64_t w_save_file(uint32_t slot, uint32_t fmt, uint8_t* f) {
  try {
    g[slot]->save(reinterpret_cast<FILE*>(f), static_cast<Image::Format>(fmt));
    return 0;
  }
  C06_CATCH
}
WEXPORT int64_t w_save_string(uint32_t slot, uint32_t fmt, uint8_t* out, size_t cap) {
  try {
    return w_copy_out(g[slot]->save(static_cast<Image::Format>(fmt)), out, cap);
  }
  C06_CATCH
}
WEXPORT int64_t w_load(uint32_t slot, uint8_t* f) {
  try {
    g[slot] = new Image(reinterpret_cast<FILE*>(f));
    return 0;
  }
  C06_CATCH
}
// raw-data constructor Image(FILE*, w, h, alpha, channel_width)
WEXPORT int64_t w_load_raw(uint32_t slot, uint8_t* f, int64_t w, int64_t h, uint32_t alpha, uint32_t cw) {
  try {
    g[slot] = new Image(reinterpret_cast<FILE*>(f), w, h, alpha != 0, static_cast<uint8_t>(cw));
    return 0;
  }
  C06_CATCH
}
// BMP header arithmetic (static in Image.cc): fills the packed header, returns the number of header bytes to write
WEXPORT int64_t w_bmp_header(int64_t width, int64_t height, uint32_t alpha, uint8_t* out, size_t cap) {
  try {
    WindowsBitmapHeader h;
    size_t pixel_bytes = 3 + (alpha != 0);
    size_t row_padding = (4 - ((width * pixel_bytes) % 4)) % 4;
    size_t n = init_bmp_header(h, width, height, alpha != 0, pixel_bytes, row_padding);
    if (n > cap || n > sizeof(h)) return W_CAPACITY;
    memcpy(out, &h, sizeof(h) < cap ? sizeof(h) : cap);
    return static_cast<int64_t>(n);
  }
  W_CATCH_ALL
}
