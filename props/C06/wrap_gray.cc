// C06 kernel wrapper: the static template expand_gray_samples_in_place<T> of Image.cc (gray / gray+alpha -> RGB / RGBA, in
// place) called directly on a caller-owned buffer. Separate TU on purpose: if a future change renames or inlines the
// template this file no longer compiles and only the `gray` unit becomes inconclusive, the file-level units keep working.
#include "wrap.cc"

// cw: 8/16/32/64 bits per sample; data holds pixel_count*(1 or 2) samples and has room for pixel_count*(3 or 4)
WEXPORT int64_t w_expand_gray(uint32_t cw, uint8_t* data, size_t pixel_count, uint32_t has_alpha) {
  try {
    switch (cw) {
      case 8: expand_gray_samples_in_place<uint8_t>(data, pixel_count, has_alpha != 0); return 0;
      case 16: expand_gray_samples_in_place<uint16_t>(reinterpret_cast<uint16_t*>(data), pixel_count, has_alpha != 0); return 0;
      case 32: expand_gray_samples_in_place<uint32_t>(reinterpret_cast<uint32_t*>(data), pixel_count, has_alpha != 0); return 0;
      case 64: expand_gray_samples_in_place<uint64_t>(reinterpret_cast<uint64_t*>(data), pixel_count, has_alpha != 0); return 0;
    }
    return W_CAPACITY;
  }
  W_CATCH_ALL
}
