/* C06/7: raw-data constructor Image(FILE*, w, h, alpha, channel_width) with a symbolic file length: a short file raises
 * io_error and releases the pixel buffer (--memory-leak-check), a long enough file yields the bytes. */
#define FCAP 64
#include "c06.h"
#define N (W * H * (3 + ALPHA))
void harness(void) {
  file_reset();
  for (uint32_t i = 0; i < N; i++) file_[i] = in_u8();
  uint64_t tlen = in_range(0, N);
  file_rewind(tlen);
  int64_t r = w_load_raw(0, HFILE, W, H, ALPHA, 8);
  OBS(r);
  ASSERT(r == (tlen == N ? 0 : W_IO_ERROR), "raw constructor: io_error iff the file is shorter than the image");
  if (r == 0) {
    uint64_t k = in_range(0, N - 1);
    ASSERT(w_data_byte(0, k) == file_[k], "raw bytes are the pixels");
    w_free(0);
  }
}
