/* C06/6: PNG framing.  zlib is the environment: compressBound / compress2 / crc32 are stubs (compress2 records the buffer it is
 * given and emits a short deterministic byte string; crc32 is a deterministic running function with the composition law
 * crc(crc(c,a),b) == crc(c,a||b)), so what is decided is everything Image.cc itself does:
 *   8-byte signature; chunks IHDR(13) gAMA(4) IDAT IEND in that order, each  length_be | type | data | crc_be(type||data);
 *   IHDR = width_be, height_be, bit depth 8, colour type 2 (RGB) / 6 (RGBA), compression 0, filter 0, interlace 0;
 *   gAMA = 45455; the buffer handed to compress2 is H scanlines of  filter byte 0 | W*channels sample bytes  (checked for a
 *   symbolic byte index), level 9, destination capacity = compressBound(source length); IDAT data = compress2 output.
 * Outside: that the deflate stream inflates to the scanlines and that zlib's CRC is the PNG CRC (zlib is not encoded). */
#define FCAP 160
#include "c06.h"
#define CH (3 + ALPHA)
#define N (W * H * CH)
#define RAW (H * (1 + W * CH))
static uint8_t zsrc[RAW + 8]; static uint64_t zsrc_len, zcap_seen; static uint32_t zlevel, zcalls;
#define ZOUT 5
uint64_t STUB(compressBound)(uint64_t n) { return n + 13; }
uint32_t STUB(compress2)(uint8_t* dest, uint64_t* dest_len, uint8_t* src, uint64_t src_len, uint32_t level) {
  zcalls++; zlevel = level; zcap_seen = *dest_len; zsrc_len = src_len;
  ASSERT(src_len <= RAW, "compress2 source length within the scanline buffer size");
  for (uint64_t i = 0; i < src_len && i < RAW; i++) zsrc[i] = src[i];
  ASSERT(*dest_len >= ZOUT, "destination capacity");
  for (uint32_t i = 0; i < ZOUT; i++) dest[i] = (uint8_t)(0xA0 + i);
  *dest_len = ZOUT;
  return 0;
}
static uint32_t crc_step(uint32_t c, uint8_t b) { return (c * 31u + b) ^ 0x5bd1e995u; }
uint64_t STUB(crc32)(uint64_t crc, uint8_t* p, uint32_t n) { uint32_t c = (uint32_t)crc; for (uint32_t i = 0; i < n; i++) c = crc_step(c, p[i]); return c; }
static uint32_t be32(const uint8_t* p) { return (uint32_t)p[0] << 24 | (uint32_t)p[1] << 16 | (uint32_t)p[2] << 8 | p[3]; }
/* checks one chunk at offset o, returns the offset after it */
static uint32_t chunk(uint32_t o, const char* type, uint32_t len) {
  ASSERT(be32(file_ + o) == len, "chunk length (big-endian)");
  ASSERT(file_[o + 4] == (uint8_t)type[0] && file_[o + 5] == (uint8_t)type[1] && file_[o + 6] == (uint8_t)type[2] && file_[o + 7] == (uint8_t)type[3], "chunk type");
  uint32_t c = 0;
  for (uint32_t i = 0; i < 4 + len; i++) c = crc_step(c, file_[o + 4 + i]);
  ASSERT(be32(file_ + o + 8 + len) == c, "chunk CRC covers type and data");
  return o + 12 + len;
}
void harness(void) {
  uint8_t d0[N + 1];
  static const uint8_t sig[8] = {137, 80, 78, 71, 13, 10, 26, 10};
  file_reset();
  ASSERT(w_new(0, W, H, ALPHA, 8) == 0, "constructor");
  in_bytes(d0, N);
  w_set_data(0, d0, N);
  int64_t r = w_save_file(0, 3, HFILE);
  OBS(r);
  ASSERT(r == 0, "save as PNG succeeds");
  ASSERT(flen_ == 8 + 25 + 16 + 12 + ZOUT + 12, "file length = signature + IHDR + gAMA + IDAT + IEND");
  for (int i = 0; i < 8; i++) ASSERT(file_[i] == sig[i], "PNG signature");
  uint32_t o = chunk(8, "IHDR", 13);
  ASSERT(be32(file_ + 16) == W && be32(file_ + 20) == H, "IHDR width/height");
  ASSERT(file_[24] == 8 && file_[25] == (ALPHA ? 6 : 2) && file_[26] == 0 && file_[27] == 0 && file_[28] == 0, "IHDR depth 8, colour type, deflate, filter 0, no interlace");
  o = chunk(o, "gAMA", 4);
  ASSERT(be32(file_ + o - 8) == 45455, "gAMA 1/2.2");
  uint32_t idat = o;
  o = chunk(o, "IDAT", ZOUT);
  for (uint32_t i = 0; i < ZOUT; i++) ASSERT(file_[idat + 8 + i] == (uint8_t)(0xA0 + i), "IDAT data is the compress2 output");
  o = chunk(o, "IEND", 0);
  ASSERT(o == flen_, "nothing after IEND");
  ASSERT(zcalls == 1 && zlevel == 9 && zsrc_len == RAW && zcap_seen == RAW + 13, "compress2 called once: level 9, H*(1+W*channels) bytes, capacity compressBound()");
  uint64_t k = in_range(0, RAW - 1);
  uint64_t row = k / (1 + W * CH), col = k % (1 + W * CH);
  OBS(zsrc[k]);
  if (col == 0) ASSERT(zsrc[k] == 0, "every scanline starts with filter type 0");
  else ASSERT(zsrc[k] == d0[row * W * CH + col - 1], "scanline bytes are the row's samples in order");
  w_free(0);
}
