ID = 'C06'
# Functions cut out of the generated C (they only build exception messages / are unreachable); the stubs are in c06.h:
#  string_printf          -> returns "" (message text is not part of any claim; decimal formatting is not modelled)
#  io_error::io_error(int)-> only reached when fread()/fwrite() return a negative count, which size_t never is; left unprovided,
#                            so reaching it would be reported as "unmodelled external"
CUTS = [r'^_ZN5phosg13string_printfB5cxx11EPKcz$', r'^_ZN5phosg8io_errorC[12]Ei$']
UNITS = {'img': dict(wrap='wrap.cc', shim=True, new_block=128, cxxflags=['-U_FORTIFY_SOURCE', '-D_FORTIFY_SOURCE=0'], cuts=CUTS, gen_defs=['VERIF_EXC_POOL=4'])}
# P7 (PAM) input: the header parser (phosg::fgets + std::string per line) only becomes tractable when every heap read folds:
# deterministic zero-initialised operator-new pool (static blocks), pointer differences folded by the translator, field
# sensitivity up to the block size.  new_block 320 >= the 257-byte line block of phosg::fgets.
UNITS['gray'] = dict(wrap='wrap_gray.cc', shim=True, new_block=128, cxxflags=['-U_FORTIFY_SOURCE', '-D_FORTIFY_SOURCE=0'], cuts=CUTS, gen_defs=['VERIF_EXC_POOL=4'])
UNITS['p7'] = dict(wrap='wrap.cc', shim=True, new_block=320, cxxflags=['-U_FORTIFY_SOURCE', '-D_FORTIFY_SOURCE=0'], cuts=CUTS,
                   gen_defs=['VERIF_EXC_POOL=4', 'VERIF_NEW_POOL=12'], ir2c_flags=['--ptrdiff', '--flat-unions'])
BOUNDS = ('Images 1..4 x 1..3 (all residues of width mod 4), alpha on/off, all pixel/sample bytes symbolic, ONE symbolic checked pixel/byte per query. '
          'BMP: save->decode->load, every prefix length symbolic; input variants 24/32-bit BI_RGB, BI_BITFIELDS with all 24 byte-mask permutations, top-down/bottom-up, '
          'info header 40/108/124 bytes, pixel-data gap 0/2. BMP header arithmetic: width symbolic in [1,32768], height cells. '
          'PPM: P6 load for 8/16/32/64-bit samples with every prefix inside the samples symbolic and every prefix inside the header as concrete cells; P5 gray load 8/16/32/64-bit; '
          'P6/P7 save bytes == canonical file (exact Netpbm header text + raw samples). '
          'P7 (PAM) input: TUPLTYPE RGB / RGB_ALPHA / GRAYSCALE / GRAYSCALE_ALPHA x (1,1) (2,1) (1,2) (2,2) x 8/16-bit samples (32/64-bit for the 2-wide images), header text concrete per cell '
          '(canonical line order, plus the reverse order for each tuple type), MAXVAL = 2^n-1 plus the channel-width thresholds 1, 256, 65536, 2^32-1, 2^32; all samples symbolic, ONE symbolic checked byte; '
          'every prefix inside the samples symbolic, prefixes inside the header as concrete cells (every 4th byte of the 71-byte GRAYSCALE_ALPHA header and its last three); P7 save->load identity in one query for (1,1) (2,1) (1,2) (2,2), 8..64-bit. '
          'Gray expansion kernel expand_gray_samples_in_place<uint8/16/32/64_t>: 1..4 pixels, with/without alpha, all sample values, every output sample checked. '
          'PNG: framing for 1..3 x 1..3. Raw constructor: every file length.')
STUBS = ['stdio over a harness byte array (props/C06/c06.h): fread fwrite fgetc fgets feof fileno fseek __isoc99_fscanf("%zu"/"%lu") snprintf(literals,%zu,%lu) - libc contracts, exact decimal conversion; '
         'fread deviation: on a short read the unread tail of the caller buffer receives stale bytes (never read: freadx throws)',
         'strtoull (base 10, exact incl. overflow) for std::stoull in the P7 header parser (generated C only; the replay build calls libc)',
         'P7 unit only: operator new is a deterministic bump allocator over 12 static zero-initialised 320-byte blocks (VERIF_NEW_POOL; a larger request or a 13th allocation is a reported bound failure); '
         'malloc (the pixel buffer) stays CBMC\'s exact-size malloc with arbitrary initial content',
         'zlib compressBound / compress2 / crc32: deterministic stand-ins that record their input (PNG harness only)',
         'phosg::string_printf cut to "" in the generated C (exception messages only); io_error(int) constructor cut (unreachable: fread never returns a negative count)',
         'engine/shim unordered_map (BI_BITFIELDS mask table, 4 entries) and deque',
         'exception objects come from a static pool (VERIF_EXC_POOL) so that cbmc --memory-leak-check sees only program allocations']
OUTSIDE = ['P7 (PAM) input with a header the solver does not see as concrete text: symbolic header bytes / symbolic dimensions, header lines longer than 255 bytes (second block of phosg::fgets), '
           'comment (#) and empty header lines (phosg rejects them: "unknown header command" - not a supported variant), DEPTH inconsistent with TUPLTYPE (phosg ignores DEPTH), images above 2x2 for P7',
           'that the deflate stream inflates to the scan lines and that zlib crc32 is the PNG CRC (zlib is not encoded); independent-decoder agreement for PNG beyond framing',
           'dimensions above 4x3; 16-bit and wider samples are compared in host byte order (phosg writes and reads them raw; Netpbm defines big-endian) - see NOTES.md',
           'malformed (not merely truncated) headers, e.g. BMP info-header size < 4 (observation in NOTES.md)']
ASSUMPTIONS = ['x86-64 little-endian host', 'heap allocation never fails',
               'P7 unit (h_p7.c): operator-new memory reads as zero until written and a block is never reused (static pool): behaviour that depends on reading uninitialised '
               'std::string storage or on using a std::string block after operator delete is not explored there (the replay build runs under ASan); the malloc\'ed pixel buffer is not affected']
FLAGS = ['--memory-leak-check', '--max-field-sensitivity-array-size', '256']
P7FLAGS = ['--memory-leak-check', '--max-field-sensitivity-array-size', '512']
# the shim unordered_map(initializer_list) constructor of the 4-entry mask table: nested slot-search loops, 4 x 4 iterations
UM = ','.join('_ZNSt13unordered_mapIjmvvvEC2ESt16initializer_listISt4pairIKjmEE.%d:20' % i for i in range(4))


def queries(tier):
    qs = []
    T = tier == 'thorough'

    def bmp(W, H, A, tlen=None):
        n = W * H * (3 + A) + 2
        defs = {'W': W, 'H': H, 'ALPHA': A}
        if tlen is not None:
            defs['TLEN'] = tlen
        full = 14 + (124 if A else 40) + ((W * (3 + A) + 3) // 4 * 4) * H
        return dict(name='bmp_roundtrip_%dx%da%d%s' % (W, H, A, '' if tlen is None else '_cut%d' % tlen), unit='img', harness='h_bmp_rt.c', defs=defs, unwind=max(W * (3 + A) + 3, H + 2, 6),
                    unwindset='in_bytes.0:%d,w_set_data.0:%d,verif_memset_loop.0:%d,X_fread.0:%d,X_fwrite.0:%d,verif_memcpy_loop.0:%d,' % (n, n, n, 142, 142, 142) + UM, timeout=900, mem_gb=8, object_bits=12, flags=FLAGS,
                    desc='BMP save of a %dx%d image (alpha=%d): header fields/rows/padding per the format, independent decode of the checked pixel, load of %s: io_error or identical' % (W, H, A, 'every prefix that ends inside the pixel data (symbolic)' if tlen is None else 'the %d-byte prefix (inside the headers)' % tlen),
                    bounds='image %dx%d, all pixel bytes' % (W, H))

    def bmpvar(W, H, bpp, comp, topdown, hdr, gap=0, tlen=None):
        dv = {'W': W, 'H': H, 'BPP': bpp, 'COMP': comp, 'TOPDOWN': topdown, 'HDR': hdr, 'GAP': gap}
        if tlen is not None:
            dv['TLEN'] = tlen
        full = 14 + hdr + 2 + ((W * bpp // 8 + 3) // 4 * 4) * H
        return dict(name='bmp_variant_%dx%d_bpp%d_comp%d_td%d_hdr%d_gap%d%s' % (W, H, bpp, comp, topdown, hdr, gap, '' if tlen is None else '_cut%d' % tlen), unit='img', harness='h_bmp_var.c',
                    defs=dv, unwind=max(W * 4 + 3, H + 2, 6),
                    unwindset='harness.0:%d,harness.1:%d,harness.2:%d,harness.3:%d,X_fread.0:%d,verif_memcpy_loop.0:%d,verif_memset_loop.0:%d,' % (full, full, full, full, 142, 142, 142) + UM, timeout=900, mem_gb=8, object_bits=12, flags=FLAGS,
                    desc='BMP decode %d-bit %s %s, info header %d bytes, %dx%d: pixels per the format definition (symbolic mask permutation), data offset gap %d, %s: io_error or identical' % (bpp, ('BI_RGB', '', '', 'BI_BITFIELDS')[comp], ('bottom-up', 'top-down')[topdown], hdr, W, H, gap, 'every prefix that ends inside the pixel data (symbolic)' if tlen is None else 'the %d-byte prefix (inside the headers)' % tlen),
                    bounds='image %dx%d, all data bytes, all 24 mask permutations' % (W, H))

    def ppm(mode, W, H, A, CW, tlen=None):
        n = W * H * (3 + A) * CW // 8 + 2
        defs = {'MODE': mode, 'W': W, 'H': H, 'ALPHA': A, 'CW': CW, 'FCAP': 96 + n}
        if tlen is not None:
            defs['TLEN'] = tlen
        # snprintf_core loops: .0/.1 digit loops, .2 the format-string loop
        return dict(name='ppm_%s_%dx%da%d_cw%d%s' % (('colour_save', 'gray_decode', 'colour_load')[mode], W, H, A, CW, '' if tlen is None else '_cut%d' % tlen), unit='img', harness='h_ppm.c', defs=defs,
                    unwind=max(W, H, 8) + 2, unwindset='in_bytes.0:%d,w_set_data.0:%d,verif_memset_loop.0:%d,X_fread.0:%d,X_fwrite.0:%d,verif_memcpy_loop.0:%d,harness.0:%d,harness.1:%d,harness.2:%d,harness.3:100,put_str.0:40,put_dec.0:22,put_dec.1:22,fscanf_core.0:6,fscanf_core.1:22,snprintf_core.0:24,snprintf_core.1:24,snprintf_core.2:%d,strlen.0:100' % (n, n, n, n, 100, n, 100, 100, 100, 72 if A else 22),
                    timeout=900, mem_gb=8, object_bits=12, flags=FLAGS,
                    desc='%s, %dx%d, alpha=%d, %d-bit samples%s' % (('colour PPM (P6) / PAM (P7 when alpha) save: file == canonical Netpbm header + raw samples', 'grayscale PPM input: (g,g,g) expansion, memory safety', 'colour PPM load of the canonical file: identity')[mode], W, H, A, CW,
                                                                     '' if mode == 0 else (', every prefix that ends inside the samples (symbolic): exception or identical' if tlen is None else ', prefix of %d bytes (inside the header): exception' % tlen)),
                    bounds='image %dx%d, all sample bytes' % (W, H))

    def png(W, H, A):
        n = W * H * (3 + A) + 2
        return dict(name='png_framing_%dx%da%d' % (W, H, A), unit='img', harness='h_png.c', defs={'W': W, 'H': H, 'ALPHA': A}, unwind=max(W * 4 + 2, 20),
                    unwindset='in_bytes.0:%d,w_set_data.0:%d,verif_memset_loop.0:%d,X_fwrite.0:40,verif_memcpy_loop.0:40,X_compress2.0:%d' % (n, n, n + H + 20, n + H + 2), timeout=900, mem_gb=8, object_bits=12, flags=FLAGS,
                    desc='PNG save of a %dx%d image (alpha=%d): signature, IHDR/gAMA/IDAT/IEND framing with big-endian lengths and CRC over type+data (zlib stubs), scanline buffer handed to compress2' % (W, H, A),
                    bounds='image %dx%d, all pixel bytes; zlib functions are stubs' % (W, H))

    def raw(W, H, A):
        n = W * H * (3 + A) + 2
        return dict(name='raw_ctor_%dx%da%d' % (W, H, A), unit='img', harness='h_raw.c', defs={'W': W, 'H': H, 'ALPHA': A}, unwind=8,
                    unwindset='harness.0:%d,X_fread.0:%d,verif_memcpy_loop.0:%d' % (n, n, n), timeout=600, mem_gb=6, object_bits=12, flags=FLAGS,
                    desc='Image(FILE*, %d, %d, alpha=%d) raw constructor: io_error iff short file, pixel buffer released on the exception path' % (W, H, A),
                    bounds='image %dx%d, every file length 0..size' % (W, H))

    def p7(TT, W, H, CW, tlen=None, order=0, rt=False, maxval=None):
        A = 1 if rt else TT & 1
        n = W * H * (3 + A) * CW // 8 + 2
        defs = {'TT': TT, 'W': W, 'H': H, 'CW': CW, 'FCAP': 128 + n}
        if tlen is not None:
            defs['TLEN'] = tlen
        if order:
            defs['ORDER'] = order
        if rt:
            defs['MODE_RT'] = 1
        if maxval is not None:
            defs['MAXVAL'] = '%dULL' % maxval
        tn = ('RGB', 'RGB_ALPHA', 'GRAYSCALE', 'GRAYSCALE_ALPHA')[TT]
        name = 'p7_%s_%dx%d_cw%d%s%s%s' % ('roundtrip' if rt else tn.lower(), W, H, CW, '_o%d' % order if order else '', '' if maxval is None else '_max%d' % maxval, '' if tlen is None else '_cut%d' % tlen)
        # global unwind 10: the 8-slot deque shim constructor/destructor loops and the <= 4-pixel expansion loops; text loops are listed:
        # a header line is at most "TUPLTYPE GRAYSCALE_ALPHA\n" = 25 bytes (fgets stub, strlen, substr memcpy, memcmp of the 15-byte type),
        # MAXVAL has at most 20 digits (strtoull), the 257-byte line block of phosg::fgets is zero-filled by std::string(256, 0)
        ul = {'in_bytes.0': n, 'w_set_data.0': n, 'harness.0': n, 'X_fread.0': n, 'put_str.0': 40, 'put_dec.0': 22, 'put_dec.1': 22, 'verif_memset_loop.0': 260, 'X_fgets.0': 30, 'strlen.0': 30,
              'verif_memcpy_loop.0': 30, 'memcmp.0': 30, 'X_strtoull.0': 4, 'X_strtoull.1': 23}
        if rt:  # save side: header text through the snprintf model (format string of 71 bytes), one fwrite of the header and one of the samples
            ul.update({'X_fwrite.0': max(n, 100), 'snprintf_core.0': 24, 'snprintf_core.1': 24, 'snprintf_core.2': 72, 'verif_memcpy_loop.0': max(n, 100), 'strlen.0': 100})
        us = ','.join('%s:%d' % kv for kv in ul.items())
        if rt:
            desc = 'P7 save -> load identity: save(COLOR_PPM) of a %dx%d image with alpha, %d-bit samples, then load of the written bytes: same geometry, alpha flag, channel width, checked sample; every prefix that ends inside the samples (symbolic): io_error or identical' % (W, H, CW)
        else:
            desc = ('P7 (PAM) input TUPLTYPE %s, %dx%d, MAXVAL %s (%d-bit samples)%s: geometry, alpha flag, channel width and the checked sample are what the format defines; %s' %
                    (tn, W, H, maxval if maxval is not None else '2^%d-1' % CW, CW, ', header lines in reverse order' if order else '',
                     'every prefix that ends inside the samples (symbolic): io_error or identical; no out-of-bounds access, no leak' if tlen is None else 'prefix of %d bytes: rejected iff it ends inside the header' % tlen))
        return dict(name=name, unit='p7', harness='h_p7.c', defs=defs, unwind=10, unwindset=us, timeout=900, mem_gb=3, object_bits=12, flags=P7FLAGS, desc=desc,
                    bounds='image %dx%d, all sample bytes, header text concrete' % (W, H))

    def gray(CW, A):
        n = 4 * (3 + A) * CW // 8 + 2
        return dict(name='gray_expand_cw%d_a%d' % (CW, A), unit='gray', harness='h_gray.c', defs={'CW': CW, 'ALPHA': A}, unwind=6, unwindset='one.0:%d,one.1:%d,one.2:%d' % (n, n, n), timeout=600, mem_gb=2,
                    object_bits=12, flags=FLAGS,
                    desc='expand_gray_samples_in_place<uint%d_t>, has_alpha=%d, 1..4 pixels in an exact-size buffer: every pixel is (g,g,g%s) of the original samples, no access outside the buffer' % (CW, A, ',a' if A else ''),
                    bounds='pixel count 1..4, all sample values')

    for A in (0, 1):
        for HT in ([1, 3, 64] if not T else [1, 2, 3, 4, 5, 7, 8, 63, 64, 1000, 32768]):
            qs.append(dict(name='bmp_header_a%d_h%d' % (A, HT), unit='img', harness='h_bmp_hdr.c', defs={'ALPHA': A, 'HT': HT}, unwind=4, unwindset='verif_memcpy_loop.0:142', timeout=600, mem_gb=6,
                           desc='init_bmp_header for symbolic width in [1,32768], height %d, alpha=%d: every header field per the BMP specification' % (HT, A),
                           bounds='width in [1,32768], height %d' % HT))
    if not T:
        qs += [bmp(1, 2, 0), bmp(2, 2, 0), bmp(3, 2, 0), bmp(4, 2, 0), bmp(2, 2, 1), bmp(3, 1, 1), bmp(2, 2, 0, 0), bmp(2, 2, 0, 17), bmp(2, 2, 0, 53), bmp(2, 2, 1, 100)]
        qs += [bmpvar(2, 2, 24, 0, 0, 40), bmpvar(3, 2, 24, 0, 1, 40), bmpvar(2, 2, 32, 0, 0, 40), bmpvar(2, 2, 32, 3, 0, 124, 2), bmpvar(1, 2, 32, 3, 1, 108)]
        qs += [ppm(0, 2, 2, 0, 8), ppm(0, 1, 1, 1, 8), ppm(2, 2, 2, 0, 8), ppm(2, 2, 2, 0, 8, 5), ppm(2, 1, 2, 0, 16), ppm(2, 2, 1, 0, 64), ppm(2, 2, 1, 0, 64, 27), ppm(1, 2, 2, 0, 8), ppm(1, 1, 2, 0, 16)]
        qs += [png(2, 2, 0), png(1, 2, 1), raw(2, 2, 0)]
        qs += [gray(8, 1), gray(16, 1), gray(64, 1), gray(8, 0), gray(32, 0)]
        qs += [p7(3, 2, 1, 8), p7(3, 1, 2, 16), p7(3, 2, 2, 8), p7(2, 2, 2, 8), p7(2, 2, 1, 16), p7(1, 2, 1, 8), p7(1, 1, 2, 16), p7(0, 2, 2, 8), p7(0, 1, 1, 16),
               p7(3, 2, 1, 8, order=1), p7(3, 2, 1, 8, tlen=40), p7(3, 2, 1, 8, tlen=70), p7(2, 1, 1, 16, maxval=256), p7(1, 2, 1, 8, rt=True), p7(1, 1, 1, 16, rt=True)]
    else:
        for W in (1, 2, 3, 4):
            for H in (1, 2, 3):
                for A in (0, 1):
                    qs.append(bmp(W, H, A))
        for (W, H) in ((1, 1), (2, 2), (3, 2), (4, 1)):
            for td in (0, 1):
                qs += [bmpvar(W, H, 24, 0, td, 40), bmpvar(W, H, 32, 0, td, 40), bmpvar(W, H, 32, 3, td, 108), bmpvar(W, H, 32, 3, td, 124)]
        for cut in range(0, 54, 2):
            qs.append(bmp(2, 2, 0, cut))
        for cut in range(1, 138, 4):
            qs.append(bmp(2, 1, 1, cut))
        for cut in (0, 13, 14, 17, 18, 30, 53, 55):
            qs.append(bmpvar(2, 2, 24, 0, 1, 40, 2, cut))
        qs += [bmpvar(2, 2, 24, 0, 0, 40, 2), bmpvar(2, 2, 32, 3, 1, 124, 2), bmpvar(3, 1, 24, 0, 0, 108), bmpvar(3, 1, 24, 0, 1, 124)]
        for (W, H) in ((1, 1), (2, 2), (3, 1), (1, 3)):
            for CW in (8, 16, 32, 64):
                qs += [ppm(2, W, H, 0, CW), ppm(1, W, H, 0, CW)]
        for cut in range(0, 11):      # "P6 2 2 255\n" is 11 bytes
            qs.append(ppm(2, 2, 2, 0, 8, cut))
        for cut in range(0, 31, 3):   # "P6 2 1 18446744073709551615\n" is 28 bytes
            qs.append(ppm(2, 2, 1, 0, 64, cut))
        for cut in (0, 1, 2, 3, 5, 7, 9, 10):
            qs.append(ppm(1, 2, 2, 0, 8, cut))
        qs += [ppm(0, 2, 2, 0, 8), ppm(0, 1, 1, 0, 16), ppm(0, 1, 1, 0, 64), ppm(0, 1, 1, 1, 8), ppm(0, 2, 1, 1, 16)]
        for W in (1, 2, 3):
            for H in (1, 2, 3):
                for A in (0, 1):
                    qs.append(png(W, H, A))
        qs += [raw(1, 1, 0), raw(2, 2, 0), raw(2, 2, 1), raw(3, 1, 0)]
        for CW in (8, 16, 32, 64):
            qs += [gray(CW, 0), gray(CW, 1)]
        for TT in (0, 1, 2, 3):
            for (W, H) in ((1, 1), (2, 1), (1, 2), (2, 2)):
                for CW in (8, 16) + ((32, 64) if W == 2 else ()):
                    qs.append(p7(TT, W, H, CW))
            qs.append(p7(TT, 2, 1, 8, order=1))
        # "P7\nWIDTH 2\nHEIGHT 1\nDEPTH 2\nMAXVAL 255\nTUPLTYPE GRAYSCALE_ALPHA\nENDHDR\n" is 71 bytes, then 4 sample bytes
        for cut in list(range(0, 69, 4)) + [69, 70, 71, 72, 74]:   # 70 = header without its final newline
            qs.append(p7(3, 2, 1, 8, tlen=cut))
        for cut in (0, 2, 3, 11, 12, 31, 43, 60, 61):   # "P7\nWIDTH 1\nHEIGHT 1\nDEPTH 3\nMAXVAL 65535\nTUPLTYPE RGB\nENDHDR\n" is 61 bytes; 60 = without the final newline
            qs.append(p7(0, 1, 1, 16, tlen=cut))
        qs += [p7(2, 2, 1, 8, maxval=1), p7(3, 2, 1, 16, maxval=256), p7(0, 2, 1, 32, maxval=65536), p7(1, 1, 1, 32, maxval=4294967295), p7(3, 1, 2, 64, maxval=4294967296)]
        for (W, H, CW) in ((1, 1, 8), (2, 1, 8), (1, 2, 16), (2, 2, 8), (1, 1, 32), (2, 1, 64)):
            qs.append(p7(1, W, H, CW, rt=True))
    if T:
        for q in qs:
            q.setdefault('tv_runs', 20)  # translation validation: 60 random runs per query in quick, 20 in thorough (many more queries)
    return qs
