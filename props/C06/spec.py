ID = 'C06'
CUTS = [r'^_ZN5phosg13string_printfB5cxx11EPKcz$']
UNITS = {'img': dict(wrap='wrap.cc', shim=True, new_block=64, cxxflags=['-U_FORTIFY_SOURCE', '-D_FORTIFY_SOURCE=0'], cuts=CUTS, gen_defs=['VERIF_EXC_POOL=4'])}
BOUNDS = ''
STUBS = []
OUTSIDE = []
ASSUMPTIONS = []
P = '_ZN5phosg5Image'


def queries(tier):
    qs = []
    def bmp(W, H, A):
        n = W * H * (3 + A) + 2
        full = 14 + (124 if A else 40) + ((W * (3 + A) + 3) // 4 * 4) * H
        return dict(name='bmp_roundtrip_%dx%da%d' % (W, H, A), unit='img', harness='h_bmp_rt.c', defs={'W': W, 'H': H, 'ALPHA': A}, unwind=max(W * (3 + A) + 3, H + 2, 6),
                    unwindset='in_bytes.0:%d,w_set_data.0:%d,verif_memset_loop.0:%d,X_fread.0:%d,X_fwrite.0:%d,verif_memcpy_loop.0:%d' % (n, n, n, 126, 126, 126), timeout=900, mem_gb=8, object_bits=12,
                    flags=['--memory-leak-check', '--max-field-sensitivity-array-size', '256'],
                    desc='BMP save of a %dx%d image (alpha=%d): header fields/rows/padding per the format, independent decode of the checked pixel, load of every prefix length: io_error or identical' % (W, H, A),
                    bounds='image %dx%d, all pixel bytes, every truncation length 0..%d' % (W, H, full))
    if tier == 'quick':
        qs += [bmp(1, 2, 0), bmp(2, 2, 0), bmp(3, 2, 0), bmp(4, 2, 0), bmp(2, 2, 1), bmp(3, 1, 1)]
    return qs
