ID = 'C06'
CUTS = [r'^_ZN5phosg13string_printfB5cxx11EPKcz$', r'^_ZN5phosg8io_errorC[12]Ei$', r'^_ZN5phosg5fgetsB5cxx11EP8_IO_FILE$']
UNITS = {'img': dict(wrap='wrap.cc', shim=True, new_block=128, per_harness={'h_ppm.c': {'new_block': 320}}, cxxflags=['-U_FORTIFY_SOURCE', '-D_FORTIFY_SOURCE=0'], cuts=CUTS, gen_defs=['VERIF_EXC_POOL=4'])}
BOUNDS = ''
STUBS = []
OUTSIDE = []
ASSUMPTIONS = []
P = '_ZN5phosg5Image'


def queries(tier):
    qs = []
    def bmp(W, H, A):
        n = W * H * (3 + A) + 2
        full = 14 + (124 if A else 40) + ((W * (3 + A) + 3) // 4 * 4) * H
        return dict(name='bmp_roundtrip_%dx%da%d' % (W, H, A), unit='img', harness='h_bmp_rt.c', defs={'W': W, 'H': H, 'ALPHA': A}, unwind=max(W * (3 + A) + 3, H + 2, 6),
                    unwindset='in_bytes.0:%d,w_set_data.0:%d,verif_memset_loop.0:%d,X_fread.0:%d,X_fwrite.0:%d,verif_memcpy_loop.0:%d' % (n, n, n, 142, 142, 142), timeout=900, mem_gb=8, object_bits=12,
                    flags=['--memory-leak-check', '--max-field-sensitivity-array-size', '256'],
                    desc='BMP save of a %dx%d image (alpha=%d): header fields/rows/padding per the format, independent decode of the checked pixel, load of every prefix length: io_error or identical' % (W, H, A),
                    bounds='image %dx%d, all pixel bytes, every truncation length 0..%d' % (W, H, full))
    FLAGS = ['--memory-leak-check', '--max-field-sensitivity-array-size', '256']
    def bmpvar(W, H, bpp, comp, topdown, hdr, gap=0):
        full = 14 + hdr + 2 + ((W * bpp // 8 + 3) // 4 * 4) * H
        return dict(name='bmp_variant_%dx%d_bpp%d_comp%d_td%d_hdr%d_gap%d' % (W, H, bpp, comp, topdown, hdr, gap), unit='img', harness='h_bmp_var.c',
                    defs={'W': W, 'H': H, 'BPP': bpp, 'COMP': comp, 'TOPDOWN': topdown, 'HDR': hdr, 'GAP': gap}, unwind=max(W * 4 + 3, H + 2, 6),
                    unwindset='harness.0:%d,harness.1:%d,harness.2:%d,harness.3:%d,X_fread.0:%d,verif_memcpy_loop.0:%d,verif_memset_loop.0:%d' % (full, full, full, full, 142, 142, 142), timeout=900, mem_gb=8, object_bits=12, flags=FLAGS,
                    desc='BMP decode %d-bit %s %s, info header %d bytes, %dx%d: pixels per the format definition (symbolic mask permutation), data offset gap %d, every prefix length: io_error or identical' % (bpp, ('BI_RGB', '', '', 'BI_BITFIELDS')[comp], ('bottom-up', 'top-down')[topdown], hdr, W, H, gap),
                    bounds='image %dx%d, all data bytes, all 24 mask permutations, every truncation length' % (W, H))
    for A in (0, 1):
        for HT in ([1, 3, 64] if tier == 'quick' else [1, 2, 3, 4, 5, 7, 8, 63, 64, 1000, 32768]):
            qs.append(dict(name='bmp_header_a%d_h%d' % (A, HT), unit='img', harness='h_bmp_hdr.c', defs={'ALPHA': A, 'HT': HT}, unwind=4, unwindset='verif_memcpy_loop.0:142', timeout=600, mem_gb=6,
                           desc='init_bmp_header for symbolic width in [1,32768], height %d, alpha=%d: every header field per the BMP specification' % (HT, A),
                           bounds='width in [1,32768], height %d' % HT))
    def ppm(mode, W, H, A, CW, tlen=None):
        n = W * H * (3 + A) * CW // 8 + 2
        defs = {'MODE': mode, 'W': W, 'H': H, 'ALPHA': A, 'CW': CW, 'FCAP': 96 + n}
        if tlen is not None:
            defs['TLEN'] = tlen
        return dict(name='ppm_%s_%dx%da%d_cw%d%s' % (('colour_save', 'gray_decode', 'colour_load')[mode], W, H, A, CW, '' if tlen is None else '_cut%d' % tlen), unit='img', harness='h_ppm.c', defs=defs,
                    unwind=max(W, H, 8) + 2, unwindset='in_bytes.0:%d,w_set_data.0:%d,verif_memset_loop.0:%d,X_fread.0:%d,X_fwrite.0:%d,verif_memcpy_loop.0:%d,harness.0:%d,harness.1:%d,harness.2:%d,harness.3:100,harness.4:100,put_str.0:40,put_dec.0:22,put_dec.1:22,fscanf_core.0:6,fscanf_core.1:22,snprintf_core.0:24,snprintf_core.1:24,snprintf_core.2:90,strlen.0:100,X_fgets.0:260,X__ZN5phosg5fgetsB5cxx11EP8_IO_FILE.0:42,X__ZN5phosg5fgetsB5cxx11EP8_IO_FILE.1:42,memcmp.0:30,X_strtoull.0:4,X_strtoull.1:24' % (n, n, 260, n, 100, 260, 100, 100, 100),
                    timeout=900, mem_gb=8, object_bits=12, flags=FLAGS,
                    desc='%s, %dx%d, alpha=%d, %d-bit samples, %s: exception or identical' % (('colour PPM/PAM save: file == canonical Netpbm header + raw samples', 'grayscale PPM/PAM input: (g,g,g[,a]) expansion, memory safety', 'colour PPM/PAM load of the canonical file: identity')[mode], W, H, A, CW, 'every prefix that ends inside the samples (symbolic)' if tlen is None else 'prefix of %d bytes (inside the header)' % tlen),
                    bounds='image %dx%d, all sample bytes, every truncation length' % (W, H))
    if tier == 'quick':
        qs += [ppm(0, 2, 2, 0, 8), ppm(2, 2, 2, 0, 8), ppm(2, 2, 2, 0, 8, 5),  ppm(2, 1, 2, 0, 16), ppm(2, 2, 1, 0, 64), ppm(2, 2, 1, 0, 64, 27), ppm(1, 2, 2, 0, 8), ppm(1, 1, 2, 0, 16), ppm(0, 1, 1, 1, 16)]
    def png(W, H, A):
        n = W * H * (3 + A) + 2
        return dict(name='png_framing_%dx%da%d' % (W, H, A), unit='img', harness='h_png.c', defs={'W': W, 'H': H, 'ALPHA': A}, unwind=max(W * 4 + 2, 20),
                    unwindset='in_bytes.0:%d,w_set_data.0:%d,verif_memset_loop.0:%d,X_fwrite.0:40,verif_memcpy_loop.0:40,X_compress2.0:%d' % (n, n, n + H + 20, n + H + 2), timeout=900, mem_gb=8, object_bits=12, flags=FLAGS,
                    desc='PNG save of a %dx%d image (alpha=%d): signature, IHDR/gAMA/IDAT/IEND framing with big-endian lengths and CRC over type+data (zlib stubs), scanline buffer handed to compress2' % (W, H, A),
                    bounds='image %dx%d, all pixel bytes; zlib functions are stubs' % (W, H))
    def raw(W, H, A):
        n = W * H * (3 + A) + 2
        return dict(name='raw_ctor_%dx%da%d' % (W, H, A), unit='img', harness='h_raw.c', defs={'W': W, 'H': H, 'ALPHA': A}, unwind=8,
                    unwindset='harness.0:%d,X_fread.0:%d,verif_memcpy_loop.0:%d' % (n, n, n), timeout=600, mem_gb=6, object_bits=12, flags=FLAGS,
                    desc='Image(FILE*, %d, %d, alpha=%d) raw constructor: io_error iff short file, pixel buffer released on the exception path' % (W, H, A),
                    bounds='image %dx%d, every file length 0..size' % (W, H))
    if tier == 'quick':
        qs += [png(2, 2, 0), png(1, 2, 1), raw(2, 2, 0)]
    if tier == 'quick':
        qs += [bmpvar(2, 2, 24, 0, 0, 40), bmpvar(3, 2, 24, 0, 1, 40), bmpvar(2, 2, 32, 0, 0, 40), bmpvar(2, 2, 32, 3, 0, 124, 2), bmpvar(1, 2, 32, 3, 1, 108)]
    if tier == 'quick':
        qs += [bmp(1, 2, 0), bmp(2, 2, 0), bmp(3, 2, 0), bmp(4, 2, 0), bmp(2, 2, 1), bmp(3, 1, 1)]
    return qs
