/* C06 shared: wrapper prototypes (generated-C parameter types) and THE FILE MODEL.
 * The file is the environment: one in-memory byte array file_[FCAP] with length flen_ and cursor fpos_; the FILE* given to phosg
 * is the opaque address of hfile_.  Every stdio function Image::load/save reach (via freadx/fwritex/fgets in Filesystem.cc)
 * is defined here with its libc contract:
 *   fread/fwrite (size 1 items; short count at end of file / when the array is full; unread tail of the buffer poisoned), fgetc (EOF at end), fgets (line or
 *   n-1 bytes, NUL-terminated, NULL at end), feof, fseek (SET/CUR, may go past the end), fileno, fscanf("%zu"/"%lu": skip
 *   white space, read decimal digits, 0 items if none), snprintf (literals and %zu/%lu decimal; exact).
 * In the real build (VERIF_NATIVE_REAL) the same definitions interpose the libc symbols; calls on any other FILE* (the native
 * driver reading its replay file) are forwarded to the *_unlocked libc twins. */
#ifndef C06_H
#define C06_H
#include <stdarg.h>
#include "harness.h"
int64_t w_new(uint32_t slot, uint64_t w, uint64_t h, uint32_t alpha, uint32_t cw);
int64_t w_free(uint32_t slot);
int64_t w_data_size(uint32_t slot);
int64_t w_width(uint32_t slot);
int64_t w_height(uint32_t slot);
int64_t w_has_alpha(uint32_t slot);
int64_t w_channel_width(uint32_t slot);
int64_t w_set_data(uint32_t slot, uint8_t* p, uint64_t n);
int64_t w_get_data(uint32_t slot, uint8_t* p, uint64_t n);
int64_t w_data_byte(uint32_t slot, uint64_t i);
int64_t w_save_file(uint32_t slot, uint32_t fmt, uint8_t* f);
int64_t w_save_string(uint32_t slot, uint32_t fmt, uint8_t* out, uint64_t cap);
int64_t w_load(uint32_t slot, uint8_t* f);
int64_t w_load_raw(uint32_t slot, uint8_t* f, uint64_t w, uint64_t h, uint32_t alpha, uint32_t cw);
int64_t w_bmp_header(uint64_t width, uint64_t height, uint32_t alpha, uint8_t* out, uint64_t cap);
#define W_IO_ERROR (-20)
#define W_UNKNOWN_FORMAT (-21)
#define W_RUNTIME_ERROR (-5)

#ifndef FCAP
#define FCAP 256
#endif
static uint8_t file_[FCAP + 1];
static uint64_t flen_, fpos_;
static uint64_t flen_min_; /* concrete lower bound of flen_ (harness keeps flen_min_ <= flen_): lets text-header parsing stay concrete when only the body length is symbolic */
#define IN_FILE(pos) ((pos) < flen_min_ || (pos) < flen_)
static uint8_t feof_;
static uint8_t hfile_[8];
#define HFILE (hfile_)

#ifdef VERIF_NATIVE_REAL
/* libc twins for foreign streams (declared by hand: the stdio header would clash with the stub prototypes) */
uint64_t fread_unlocked(void*, uint64_t, uint64_t, void*);
uint64_t fwrite_unlocked(const void*, uint64_t, uint64_t, void*);
int getc(void*);
char* fgets_unlocked(char*, int, void*);
int feof_unlocked(void*);
int fileno_unlocked(void*);
int fseeko(void*, long, int);
int vsnprintf(char*, uint64_t, const char*, va_list);
int vfscanf(void*, const char*, va_list);
#define FOREIGN(f, expr) if ((uint8_t*)(f) != hfile_) return (expr)
#else
#define FOREIGN(f, expr) if ((uint8_t*)(f) != hfile_) ASSERT(0, "stream function called on a FILE* that is not the harness file")
#endif

uint64_t STUB(fread)(uint8_t* p, uint64_t size, uint64_t n, uint8_t* f) {
  FOREIGN(f, fread_unlocked(p, size, n, f));
  ASSERT(size == 1, "file model: item size 1");
  /* The cursor is kept as "bytes requested so far" (it may run past flen_; every reader treats a cursor >= flen_ as end of
   * file), so that it stays a concrete number on the no-short-read path whatever the symbolic file length is. */
  /* On a short read libc leaves the unread tail of the caller's buffer untouched (uninitialised malloc memory in load()).
   * The model writes the file's stale byte XOR 0xA5 there: still inside the size*n bytes the caller passed, and guaranteed to
   * differ from the true data, so a decoder that ignored a short read cannot pass the "decodes identically" check.
   * For positions below the concrete lower bound flen_min_ the XOR term folds to 0 and header bytes stay concrete. */
#define FBYTE(pos) ((uint8_t)(file_[pos] ^ (IN_FILE(pos) ? 0 : 0xA5)))
  uint64_t got = 0;
  if (n == 2 && fpos_ + 1 < FCAP) {
    /* same bytes, written as one 2-byte object: clang turns load()'s `char sig[2]` into an i16 slot, and CBMC folds the
     * signature to a constant only when the slot is assigned as a whole (two byte-wise updates stay symbolic) */
    uint8_t two[2] = {FBYTE(fpos_), FBYTE(fpos_ + 1)};
    memcpy(p, two, 2);
    got = (IN_FILE(fpos_) ? 1 : 0) + (IN_FILE(fpos_ + 1) ? 1 : 0);
  } else
  for (uint64_t i = 0; i < n; i++) { if (fpos_ + i < FCAP) p[i] = FBYTE(fpos_ + i); if (IN_FILE(fpos_ + i)) got++; }
  fpos_ += n;
  if (got < n) feof_ = 1;
  return got;
}
uint64_t STUB(fwrite)(uint8_t* p, uint64_t size, uint64_t n, uint8_t* f) {
  FOREIGN(f, fwrite_unlocked(p, size, n, f));
  ASSERT(size == 1, "file model: item size 1");
  ASSERT(fpos_ == flen_, "file model: writes append");
  uint64_t room = FCAP - flen_, put = n < room ? n : room;
  ASSERT(put == n, "BOUND: file model capacity FCAP");
  for (uint64_t i = 0; i < put; i++) file_[flen_ + i] = p[i];
  flen_ += put; fpos_ = flen_;
  return put;
}
uint32_t STUB(fgetc)(uint8_t* f) {
  FOREIGN(f, (uint32_t)getc(f));
  if (!IN_FILE(fpos_)) { feof_ = 1; return (uint32_t)-1; }
  return file_[fpos_++];
}
uint8_t* STUB(fgets)(uint8_t* s, uint32_t n, uint8_t* f) {
  FOREIGN(f, (uint8_t*)fgets_unlocked((char*)s, (int)n, f));
  if ((int32_t)n <= 0) return 0;
  uint32_t k = 0;
  while (k + 1 < n && IN_FILE(fpos_)) { uint8_t c = file_[fpos_++]; s[k++] = c; if (c == '\n') break; }
  if (k == 0 && n > 1) { feof_ = 1; return 0; }
  s[k] = 0;
  return s;
}
uint32_t STUB(feof)(uint8_t* f) { FOREIGN(f, (uint32_t)feof_unlocked(f)); return feof_; }
uint32_t STUB(fileno)(uint8_t* f) { FOREIGN(f, (uint32_t)fileno_unlocked(f)); return 3; }
uint32_t STUB(fseek)(uint8_t* f, uint64_t off, uint32_t whence) {
  FOREIGN(f, (uint32_t)fseeko(f, (long)off, (int)whence));
  ASSERT(whence == 0 || whence == 1, "file model: SEEK_SET / SEEK_CUR only");
  ASSERT(whence == 0 || (int64_t)off >= 0, "file model: relative seeks are forward (cursor may already be past the end)");
  int64_t np = (int64_t)off + (whence == 1 ? (int64_t)fpos_ : 0);
  if (np < 0) return (uint32_t)-1;
  fpos_ = (uint64_t)np; feof_ = 0;
  return 0;
}
/* fscanf / snprintf.  CBMC does not propagate constants through va_arg, which would turn the parsed width (hence the malloc
 * size) and the printed header into unknowns.  Every call in Image.cc has a fixed shape - fscanf(f, "%zu"|"%lu", &v) and
 * snprintf(buf, cap, fmt, a, b, c) with three unsigned long arguments - so for the generated C the stubs are defined with
 * exactly those parameters (same registers as the variadic call on x86-64); the real build keeps the variadic prototypes and
 * forwards foreign streams/other shapes to libc.  glibc renames fscanf to __isoc99_fscanf at compile time. */
static uint32_t fscanf_core(uint8_t* fmt, uint64_t* out) {
  ASSERT(fmt[0] == '%' && ((fmt[1] == 'z' && fmt[2] == 'u') || (fmt[1] == 'l' && fmt[2] == 'u')) && fmt[3] == 0, "UNMODELLED fscanf format");
  while (IN_FILE(fpos_) && (file_[fpos_] == ' ' || (file_[fpos_] >= 9 && file_[fpos_] <= 13))) fpos_++;
  if (!IN_FILE(fpos_)) { feof_ = 1; return (uint32_t)-1; }
  uint64_t v = 0; uint32_t nd = 0;
  while (IN_FILE(fpos_) && file_[fpos_] >= '0' && file_[fpos_] <= '9') { v = v * 10 + (uint64_t)(file_[fpos_] - '0'); fpos_++; nd++; }
  if (nd == 0) return 0;
  *out = v;
  return 1;
}
/* literals, %%, and up to three %zu / %lu conversions taken from a[0..2] */
static uint32_t snprintf_core(uint8_t* buf, uint64_t cap, uint8_t* fmt, const uint64_t* a) {
  uint64_t n = 0; uint32_t ai = 0;
  for (uint32_t i = 0; fmt[i]; i++) {
    if (fmt[i] != '%') { if (n + 1 < cap) buf[n] = fmt[i]; n++; continue; }
    i++;
    if (fmt[i] == '%') { if (n + 1 < cap) buf[n] = '%'; n++; continue; }
    ASSERT((fmt[i] == 'z' || fmt[i] == 'l') && fmt[i + 1] == 'u' && ai < 3, "UNMODELLED snprintf conversion");
    i++;
    uint64_t v = a[ai++];
    uint8_t dig[20]; uint32_t nd = 0;
    dig[nd++] = (uint8_t)('0' + v % 10); v /= 10;
    while (v != 0) { dig[nd++] = (uint8_t)('0' + v % 10); v /= 10; }
    while (nd > 0) { nd--; if (n + 1 < cap) buf[n] = dig[nd]; n++; }
  }
  if (cap) buf[n < cap ? n : cap - 1] = 0;
  return (uint32_t)n;
}
#ifdef VERIF_NATIVE_REAL
uint32_t __isoc99_fscanf(uint8_t* f, uint8_t* fmt, ...) {
  va_list va;
  va_start(va, fmt);
  if (f != hfile_) { int r = vfscanf(f, (const char*)fmt, va); va_end(va); return (uint32_t)r; }
  uint64_t* out = va_arg(va, uint64_t*);
  va_end(va);
  return fscanf_core(fmt, out);
}
uint32_t snprintf(uint8_t* buf, uint64_t cap, uint8_t* fmt, ...) {
  va_list va;
  va_start(va, fmt);
  int ours = 1; uint32_t nconv = 0; /* ours: only literals and %zu/%lu, at most three */
  for (uint32_t i = 0; fmt[i]; i++) if (fmt[i] == '%') { if (fmt[i + 1] == '%') { i++; continue; } if ((fmt[i + 1] == 'z' || fmt[i + 1] == 'l') && fmt[i + 2] == 'u') nconv++; else ours = 0; }
  if (!ours || nconv > 3) { int r = vsnprintf((char*)buf, cap, (const char*)fmt, va); va_end(va); return (uint32_t)r; }
  uint64_t a[3] = {0, 0, 0};
  for (uint32_t k = 0; k < nconv; k++) a[k] = va_arg(va, uint64_t);
  va_end(va);
  return snprintf_core(buf, cap, fmt, a);
}
#else
uint32_t X___isoc99_fscanf(uint8_t* f, uint8_t* fmt, uint64_t* out) {
  FOREIGN(f, 0);
  return fscanf_core(fmt, out);
}
uint32_t X_snprintf(uint8_t* buf, uint64_t cap, uint8_t* fmt, uint64_t a0, uint64_t a1, uint64_t a2) {
  uint64_t a[3] = {a0, a1, a2};
  return snprintf_core(buf, cap, fmt, a);
}
#endif
/* strtoull (std::stoull in the P7 header parser): base 10, C-locale, exact incl. overflow -> ULLONG_MAX/ERANGE.  In the real
 * build the libc function itself is used (strtoul is the same function on LP64; the native driver also calls strtoull). */
#ifdef VERIF_NATIVE_REAL
unsigned long strtoul(const char*, char**, int);
uint64_t strtoull(uint8_t* s, uint8_t** end, uint32_t base) { return strtoul((const char*)s, (char**)end, (int)base); }
#else
uint8_t* X___errno_location(void);
/* this stub exists only next to the generated C (the real build calls libc), so a passing check must not appear in the
 * native assertion log that translation validation compares */
#ifdef VERIF_CBMC
#define ASSERT_GEN_ONLY(c, msg) ASSERT(c, msg)
#else
#define ASSERT_GEN_ONLY(c, msg) do { if (!(c)) ASSERT(0, msg); } while (0)
#endif
uint64_t X_strtoull(uint8_t* s, uint8_t** end, uint32_t base) {
  ASSERT_GEN_ONLY(base == 10, "UNMODELLED strtoull base");
  uint32_t i = 0; int neg = 0;
  while (s[i] == ' ' || (s[i] >= 9 && s[i] <= 13)) i++;
  if (s[i] == '+' || s[i] == '-') { neg = s[i] == '-'; i++; }
  uint64_t v = 0; uint32_t nd = 0; int ovf = 0;
  while (s[i] >= '0' && s[i] <= '9') {
    uint64_t d = (uint64_t)(s[i] - '0');
    if (v > (18446744073709551615ULL - d) / 10) ovf = 1; else v = v * 10 + d;
    i++; nd++;
  }
  if (end) *end = nd ? s + i : s;
  if (ovf) { *(int*)X___errno_location() = 34; return 18446744073709551615ULL; }
  return neg ? (uint64_t)0 - v : v;
}
#endif
#ifndef VERIF_NATIVE_REAL
/* phosg::string_printf is cut out of the generated C (it only builds exception messages from decimal conversions, which
 * the vasprintf model does not cover): it returns an empty std::string (SSO layout: pointer to the local buffer, size 0). */
void STUB(_ZN5phosg13string_printfB5cxx11EPKcz)(uint8_t* sret, uint8_t* fmt, ...) {
  (void)fmt;
  *(uint8_t**)sret = sret + 16;
  *(uint64_t*)(sret + 8) = 0;
  sret[16] = 0;
}
#endif

static void file_reset(void) { flen_ = 0; flen_min_ = 0; fpos_ = 0; feof_ = 0; }
static void file_rewind(uint64_t new_len) { flen_ = new_len; flen_min_ = 0; fpos_ = 0; feof_ = 0; }
/* symbolic length with a concrete lower bound */
static void file_rewind_min(uint64_t new_len, uint64_t concrete_min) { ASSUME(new_len >= concrete_min); flen_ = new_len; flen_min_ = concrete_min; fpos_ = 0; feof_ = 0; }
#endif
