/* C06/3: BMP input variants, file bytes produced HERE from the format definition (independent encoder), W x H pixels.
 * Cell: BPP (24|32), COMP (0 BI_RGB | 3 BI_BITFIELDS), TOPDOWN (negative biHeight), HDR (info header size 40|108|124).
 * Symbolic: every pixel-data byte (incl. row padding), the assignment of the four byte masks to R,G,B,A (all 24
 * permutations, BI_BITFIELDS only), the checked pixel (GAP bytes between header and pixel data, bfOffBits, is a cell), and the
 * truncation length.  Decided: the complete file decodes to the pixels the format defines (BI_RGB: B,G,R[,unused] ->
 * no alpha; BI_BITFIELDS: channel = byte selected by its mask -> alpha image; rows bottom-up unless biHeight < 0);
 * every prefix is rejected with io_error or decodes identically; no out-of-bounds access, no leak. */
#define FCAP 224
#include "c06.h"
#define BYPP (BPP / 8)
#define STRIDE ((W * BYPP + 3) / 4 * 4)
static void put32(uint8_t* p, uint32_t v) { p[0] = (uint8_t)v; p[1] = (uint8_t)(v >> 8); p[2] = (uint8_t)(v >> 16); p[3] = (uint8_t)(v >> 24); }
static void put16(uint8_t* p, uint32_t v) { p[0] = (uint8_t)v; p[1] = (uint8_t)(v >> 8); }
void harness(void) {
  file_reset();
  const uint32_t gap = GAP; /* cell: bytes between the headers and the pixel data (bfOffBits) */
  uint32_t off = 14 + HDR + gap;
  uint64_t full = off + (uint64_t)STRIDE * H;
  for (uint32_t i = 0; i < 14 + HDR + 2; i++) file_[i] = 0;
  file_[0] = 'B'; file_[1] = 'M';
  put32(file_ + 2, (uint32_t)full); put32(file_ + 10, off);
  put32(file_ + 14, HDR); put32(file_ + 18, W); put32(file_ + 22, TOPDOWN ? (uint32_t)-(int32_t)H : H);
  put16(file_ + 26, 1); put16(file_ + 28, BPP); put32(file_ + 30, COMP);
  /* channel -> byte position (0..3) inside the little-endian 32-bit pixel */
  uint32_t pos[4] = {2, 1, 0, 3}; /* BI_RGB: B,G,R,(unused) */
#if COMP == 3
  pos[0] = (uint32_t)in_range(0, 3); pos[1] = (uint32_t)in_range(0, 3); pos[2] = (uint32_t)in_range(0, 3); pos[3] = (uint32_t)in_range(0, 3);
  ASSUME(pos[0] != pos[1] && pos[0] != pos[2] && pos[0] != pos[3] && pos[1] != pos[2] && pos[1] != pos[3] && pos[2] != pos[3]);
  for (int c = 0; c < 4; c++) put32(file_ + 54 + 4 * c, 0xFFu << (8 * pos[c]));
#endif
  for (uint32_t i = 0; i < STRIDE * H; i++) file_[off + i] = in_u8();
  int64_t px = in_irange(0, W - 1), py = in_irange(0, H - 1);
  /* truncation: inside the headers the length is a concrete cell (TLEN), inside the pixel data it is symbolic in
   * [header length, full] (the file model keeps header bytes concrete below that bound) */
#ifdef TLEN
  uint64_t tlen = TLEN < full ? TLEN : full;
  file_rewind(tlen);
#else
  uint64_t tlen = in_range(0, full);
  file_rewind_min(tlen, off);
#endif
  int64_t r = w_load(0, HFILE);
  OBS(r);
  if (tlen == full) ASSERT(r == 0, "the complete file loads");
  ASSERT(r == 0 || r == W_IO_ERROR, "a truncated file is rejected with io_error or decodes");
  if (r == 0) {
    const int alpha = COMP == 3;
    const int ch = 3 + alpha;
    ASSERT(w_width(0) == W && w_height(0) == H && w_has_alpha(0) == alpha && w_channel_width(0) == 8 && w_data_size(0) == W * H * ch, "geometry: W x H, alpha iff BI_BITFIELDS, 8-bit channels");
    uint32_t frow = TOPDOWN ? (uint32_t)py : (uint32_t)(H - 1 - py);
    const uint8_t* p = file_ + off + (uint64_t)frow * STRIDE + (uint64_t)px * BYPP;
    for (int c = 0; c < ch; c++) { int64_t b = w_data_byte(0, (py * W + px) * ch + c); OBS(b); ASSERT(b == p[pos[c]], "decoded channel is the byte the format assigns to it"); }
    w_free(0);
  }
}
