/* C06/1+5: Windows BMP save -> (independent decode of the bytes) -> load, on a W x H image (ALPHA), symbolic pixel bytes, one
 * symbolic checked pixel, symbolic truncation point.
 *  (a) save(FILE*) writes a file whose header fields follow the BMP specification (BITMAPFILEHEADER + BITMAPINFOHEADER for
 *      24-bit BI_RGB, BITMAPV5HEADER for 32-bit BI_BITFIELDS), rows bottom-up, each row padded to 4 bytes with zeros,
 *      and an independent decoder written here reads the checked pixel back from the bytes;
 *  (b) loading the complete file reproduces dimensions, alpha flag, 8-bit channel width and the checked pixel;
 *  (c) loading ANY prefix (length symbolic in [0, full)) ends in an exception, or decodes identically - never an out-of-bounds
 *      access (CBMC pointer checks on the exact-size malloc buffers) and no leaked allocation (--memory-leak-check). */
#define FCAP 192
#include "c06.h"
#define CH (3 + ALPHA)
#define N (W * H * CH)
static uint32_t le32(const uint8_t* p) { return (uint32_t)p[0] | (uint32_t)p[1] << 8 | (uint32_t)p[2] << 16 | (uint32_t)p[3] << 24; }
static uint32_t le16(const uint8_t* p) { return (uint32_t)p[0] | (uint32_t)p[1] << 8; }
void harness(void) {
  uint8_t d0[N + 1];
  file_reset();
  ASSERT(w_new(0, W, H, ALPHA, 8) == 0, "constructor");
  in_bytes(d0, N);
  w_set_data(0, d0, N);
  int64_t r = w_save_file(0, 2, HFILE);
  OBS(r);
  ASSERT(r == 0, "save as BMP succeeds");
  /* (a) the bytes, against the format definition */
  const uint32_t hdr = 14 + (ALPHA ? 124 : 40), bpp = ALPHA ? 32 : 24;
  const uint32_t stride = ((W * bpp / 8) + 3) / 4 * 4;
  const uint64_t full = hdr + (uint64_t)stride * H;
  OBS(flen_);
  ASSERT(flen_ == full, "file length = headers + H rows padded to 4 bytes");
  ASSERT(file_[0] == 'B' && file_[1] == 'M', "magic BM");
  ASSERT(le32(file_ + 2) == full, "bfSize = file length");
  ASSERT(le32(file_ + 10) == hdr, "bfOffBits = header length");
  ASSERT(le32(file_ + 14) == hdr - 14, "biSize");
  ASSERT(le32(file_ + 18) == W && le32(file_ + 22) == H, "biWidth / biHeight (positive: bottom-up)");
  ASSERT(le16(file_ + 26) == 1 && le16(file_ + 28) == bpp, "planes / bit count");
  ASSERT(le32(file_ + 30) == (ALPHA ? 3 : 0), "compression BI_RGB / BI_BITFIELDS");
  ASSERT(le32(file_ + 34) == 0 || le32(file_ + 34) == stride * H, "biSizeImage 0 or the pixel data size");
#if ALPHA
  ASSERT(le32(file_ + 54) == 0x000000FF && le32(file_ + 58) == 0x0000FF00 && le32(file_ + 62) == 0x00FF0000 && le32(file_ + 66) == 0xFF000000, "V4 channel masks R,G,B,A in byte order");
#endif
  int64_t px = in_irange(0, W - 1), py = in_irange(0, H - 1);
  {
    const uint8_t* row = file_ + hdr + (uint64_t)(H - 1 - py) * stride; /* bottom-up */
    const uint8_t* p = row + px * (bpp / 8);
    const uint8_t* o = d0 + (py * W + px) * CH;
#if ALPHA
    ASSERT(p[0] == o[0] && p[1] == o[1] && p[2] == o[2] && p[3] == o[3], "32-bit pixel bytes follow the masks (R,G,B,A)");
#else
    ASSERT(p[0] == o[2] && p[1] == o[1] && p[2] == o[0], "24-bit pixel bytes are B,G,R");
    for (uint32_t k = W * 3; k < stride; k++) ASSERT(row[k] == 0, "row padding is zero");
#endif
  }
  /* (b)+(c): load a prefix */
  /* truncation: inside the headers the length is a concrete cell (TLEN), inside the pixel data it is symbolic in
   * [header length, full] (the file model keeps header bytes concrete below that bound) */
#ifdef TLEN
  uint64_t tlen = TLEN < full ? TLEN : full;
  file_rewind(tlen);
#else
  uint64_t tlen = in_range(0, full);
  file_rewind_min(tlen, hdr);
#endif
  r = w_load(1, HFILE);
  OBS(r);
  if (tlen == full) ASSERT(r == 0, "the complete file loads");
  ASSERT(r == 0 || r == W_IO_ERROR, "a truncated file is rejected with io_error or decodes");
  if (r == 0) {
    ASSERT(w_width(1) == W && w_height(1) == H && w_has_alpha(1) == ALPHA && w_channel_width(1) == 8 && w_data_size(1) == N, "dimensions, alpha flag, channel width reproduced");
    for (int k = 0; k < CH; k++) { int64_t b = w_data_byte(1, (py * W + px) * CH + k); OBS(b); ASSERT(b == d0[(py * W + px) * CH + k], "checked pixel reproduced exactly"); }
    w_free(1);
  }
  w_free(0);
}
