/* C06/6: the in-place grayscale expansion kernel expand_gray_samples_in_place<T> (Image.cc, used by Image::load for P5 and
 * P7 GRAYSCALE / GRAYSCALE_ALPHA data).  Cell: CW (bits per sample: T = uint8/16/32/64_t), ALPHA.  For every pixel count
 * 1..PCMAX: a buffer of EXACTLY pixel_count*(3+ALPHA) samples (malloc: CBMC pointer checks / ASan see any access outside
 * it) starts with pixel_count tuples (g) or (g,a) of symbolic samples; afterwards EVERY pixel is (g,g,g) or (g,g,g,a) of
 * the ORIGINAL samples - in particular pixel 0, whose source tuple overlaps its own destination.
 * If the template does not exist in the tree under test (renamed/inlined) the wrapper TU does not compile and the unit is
 * reported inconclusive; the file-level P5/P7 queries (h_ppm.c MODE 1, h_p7.c) do not depend on it. */
#include "harness.h"
#include <stdlib.h>
int64_t w_expand_gray(uint32_t cw, uint8_t* data, uint64_t pixel_count, uint32_t has_alpha);
#ifndef PCMAX
#define PCMAX 4
#endif
#define BPC (CW / 8)
#define SS (1 + ALPHA) /* samples per source tuple */
#define DS (3 + ALPHA) /* samples per expanded pixel */
static void one(const uint32_t pc) {
  uint8_t orig[PCMAX * SS * BPC];
  uint8_t* buf = (uint8_t*)malloc(pc * DS * BPC);
  ASSUME(buf != 0);
  for (uint32_t i = 0; i < PCMAX * SS * BPC; i++) if (i < pc * SS * BPC) { orig[i] = in_u8(); buf[i] = orig[i]; }
  /* the rest of the buffer is the uninitialised tail load() leaves after freadx; give it arbitrary content */
  for (uint32_t i = 0; i < PCMAX * DS * BPC; i++) if (i >= pc * SS * BPC && i < pc * DS * BPC) buf[i] = in_u8();
  int64_t r = w_expand_gray(CW, buf, pc, ALPHA);
  ASSERT(r == 0, "expansion returns normally");
  for (uint32_t i = 0; i < PCMAX * DS * BPC; i++) if (i < pc * DS * BPC) {
    uint32_t s = i / BPC, byte = i % BPC, pix = s / DS, c = s % DS;
    uint32_t si = (pix * SS + (c == 3 ? 1 : 0)) * BPC + byte;
    OBS(buf[i]);
    ASSERT(buf[i] == orig[si], "pixel = (g,g,g[,a]) of the original samples");
  }
  free(buf);
}
void harness(void) {
  one(1);
#if PCMAX >= 2
  one(2);
#endif
#if PCMAX >= 3
  one(3);
#endif
#if PCMAX >= 4
  one(4);
#endif
}
