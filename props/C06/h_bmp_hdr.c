/* C06/2: BMP header arithmetic (init_bmp_header, static in Image.cc) for symbolic width in [1, 2^15], height HT (cell), ALPHA cell.
 * Every field against the BMP specification; loop-free. */
#include "harness.h"
int64_t w_bmp_header(uint64_t width, uint64_t height, uint32_t alpha, uint8_t* out, uint64_t cap);
static uint32_t le32(const uint8_t* p) { return (uint32_t)p[0] | (uint32_t)p[1] << 8 | (uint32_t)p[2] << 16 | (uint32_t)p[3] << 24; }
static uint32_t le16(const uint8_t* p) { return (uint32_t)p[0] | (uint32_t)p[1] << 8; }
void harness(void) {
  uint8_t h[138];
  uint64_t w = in_range(1, 32768), ht = HT; /* height is a cell: width x height symbolic products stall every back end */
  int64_t n = w_bmp_header(w, ht, ALPHA, h, sizeof(h));
  OBS(n);
  const uint32_t hdr = 14 + (ALPHA ? 124 : 40), bypp = ALPHA ? 4 : 3;
  ASSERT(n == hdr, "header length 54 (BITMAPINFOHEADER) or 138 (BITMAPV5HEADER)");
  uint64_t stride = (w * bypp + 3) / 4 * 4;
  ASSERT(h[0] == 'B' && h[1] == 'M', "magic");
  ASSERT(le32(h + 2) == (uint32_t)(hdr + stride * ht), "bfSize = header + H padded rows");
  ASSERT(le16(h + 6) == 0 && le16(h + 8) == 0, "reserved words are zero");
  ASSERT(le32(h + 10) == hdr, "bfOffBits");
  ASSERT(le32(h + 14) == hdr - 14, "biSize");
  ASSERT(le32(h + 18) == w && le32(h + 22) == ht, "biWidth, biHeight");
  ASSERT(le16(h + 26) == 1, "biPlanes");
  ASSERT(le16(h + 28) == bypp * 8, "biBitCount");
  ASSERT(le32(h + 30) == (ALPHA ? 3 : 0), "biCompression");
  ASSERT(le32(h + 34) == (ALPHA ? (uint32_t)(w * ht * 4) : 0), "biSizeImage (0 allowed for BI_RGB)");
  ASSERT(le32(h + 46) == 0 && le32(h + 50) == 0, "no palette");
#if ALPHA
  ASSERT(le32(h + 54) == 0x000000FF && le32(h + 58) == 0x0000FF00 && le32(h + 62) == 0x00FF0000 && le32(h + 66) == 0xFF000000, "byte masks R,G,B,A");
  ASSERT(le32(h + 70) == 0x73524742, "colour space sRGB");
#endif
}
