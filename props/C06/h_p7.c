/* C06/5: P7 (PAM) INPUT.  Cell: TT (tuple type: 0 RGB, 1 RGB_ALPHA, 2 GRAYSCALE, 3 GRAYSCALE_ALPHA), W, H, CW (bits per sample),
 * optional TLEN (concrete prefix length inside the header), optional ORDER (1: TUPLTYPE line first, MAXVAL before the sizes),
 * optional MAXVAL (default 2^CW-1; any value whose samples need CW/8 bytes: 1..255 -> 8, 256..65535 -> 16, ..2^32-1 -> 32, else 64).
 * The file is produced HERE from the Netpbm PAM definition:
 *   "P7\nWIDTH w\nHEIGHT h\nDEPTH d\nMAXVAL m\nTUPLTYPE t\nENDHDR\n" + w*h tuples of d samples, row-major,
 *   d = 3 (RGB) 4 (RGB_ALPHA) 1 (GRAYSCALE) 2 (GRAYSCALE_ALPHA)
 * The header TEXT is concrete per cell (it decides the heap shape of the line parser); all samples are symbolic.
 * Decided: the complete file loads; width, height, alpha flag (tuple types *_ALPHA), channel width and data size are the
 * file's; ONE symbolic checked byte of the decoded image equals the byte the format defines - colour tuples are stored
 * as they are, a gray tuple (g[,a]) becomes (g,g,g[,a]).  Any prefix: io_error/runtime_error or the identical image; the
 * pixel buffer is exact-size malloc memory (CBMC pointer checks, --memory-leak-check; ASan/LSan in the replay build).
 * Samples wider than 8 bits are compared in the byte order phosg itself uses (host order), see NOTES.md.
 *
 * MODE_RT: save -> load identity for an image WITH alpha: w_save_file(COLOR_PPM) writes the P7 file into the file model,
 * the same bytes are loaded back: same geometry, alpha flag, channel width and the checked byte (TT is ignored). */
#ifndef FCAP
#define FCAP 224
#endif
#include "c06.h"
#define BPC (CW / 8)
#ifdef MODE_RT
#undef TT
#define TT 1
#endif
#define ALPHA (TT & 1)
#define GRAY (TT >= 2)
#define CH (3 + ALPHA)                 /* channels of the decoded image */
#define FD (GRAY ? 1 + ALPHA : CH)     /* samples per tuple in the file (= DEPTH) */
#define N (W * H * CH * BPC)           /* decoded bytes */
#define FN (W * H * FD * BPC)          /* sample bytes in the file */
#ifdef MAXVAL
#define MAXV ((uint64_t)(MAXVAL))
#else
#define MAXV (CW == 64 ? 18446744073709551615ULL : ((1ULL << (CW % 64)) - 1))
#endif
static uint32_t put_str(uint8_t* d, uint32_t n, const char* s) { while (*s) d[n++] = (uint8_t)*s++; return n; }
static uint32_t put_dec(uint8_t* d, uint32_t n, uint64_t v) {
  uint8_t t[20]; uint32_t k = 0;
  do { t[k++] = (uint8_t)('0' + v % 10); v /= 10; } while (v);
  while (k) d[n++] = t[--k];
  return n;
}
static const char* const tname_[4] = {"RGB", "RGB_ALPHA", "GRAYSCALE", "GRAYSCALE_ALPHA"};
void harness(void) {
  uint32_t hn = 0;
  int64_t r;
  file_reset();
#ifdef MODE_RT
  uint8_t d0[N + 1];
  ASSERT(w_new(0, W, H, 1, CW) == 0, "constructor");
  in_bytes(d0, N);
  w_set_data(0, d0, N);
  r = w_save_file(0, 1, HFILE);
  OBS(r);
  ASSERT(r == 0, "save as colour PPM (P7 because of alpha) succeeds");
  ASSERT(flen_ >= N, "file holds at least the samples");
  hn = (uint32_t)(flen_ - N);
  w_free(0);
#else
#if defined(ORDER) && ORDER == 1
  hn = put_str(file_, hn, "P7\nTUPLTYPE "); hn = put_str(file_, hn, tname_[TT]);
  hn = put_str(file_, hn, "\nMAXVAL "); hn = put_dec(file_, hn, MAXV);
  hn = put_str(file_, hn, "\nDEPTH "); hn = put_dec(file_, hn, FD);
  hn = put_str(file_, hn, "\nHEIGHT "); hn = put_dec(file_, hn, H);
  hn = put_str(file_, hn, "\nWIDTH "); hn = put_dec(file_, hn, W);
  hn = put_str(file_, hn, "\nENDHDR\n");
#else
  hn = put_str(file_, hn, "P7\nWIDTH "); hn = put_dec(file_, hn, W);
  hn = put_str(file_, hn, "\nHEIGHT "); hn = put_dec(file_, hn, H);
  hn = put_str(file_, hn, "\nDEPTH "); hn = put_dec(file_, hn, FD);
  hn = put_str(file_, hn, "\nMAXVAL "); hn = put_dec(file_, hn, MAXV);
  hn = put_str(file_, hn, "\nTUPLTYPE "); hn = put_str(file_, hn, tname_[TT]);
  hn = put_str(file_, hn, "\nENDHDR\n");
#endif
  for (uint32_t i = 0; i < FN; i++) file_[hn + i] = in_u8();
  flen_ = hn + FN;
#endif
  const uint64_t full = flen_;
  uint64_t k = in_range(0, N - 1);
  /* truncation: inside the text header the length is a concrete cell (TLEN); inside the samples it is symbolic */
#ifdef TLEN
  uint64_t tlen = TLEN < full ? TLEN : full;
  file_rewind(tlen);
#else
  uint64_t tlen = in_range(0, full);
  file_rewind_min(tlen, hn);
#endif
  r = w_load(1, HFILE);
  OBS(r);
  if (tlen == full) ASSERT(r == 0, "the complete file loads");
  ASSERT(r == 0 || r == W_IO_ERROR || r == W_RUNTIME_ERROR, "a truncated file is rejected with io_error/runtime_error or decodes");
#ifdef TLEN
  if (TLEN < hn) ASSERT(r != 0, "a file that ends inside the header does not load");
#endif
  if (r == 0) {
    ASSERT(w_width(1) == W && w_height(1) == H, "width and height are the header's");
    ASSERT(w_has_alpha(1) == ALPHA, "alpha flag is set exactly for the *_ALPHA tuple types");
    ASSERT(w_channel_width(1) == CW, "channel width follows MAXVAL");
    ASSERT(w_data_size(1) == N, "decoded size is W*H*(3 or 4) samples");
    int64_t b = w_data_byte(1, k);
    OBS(b);
    { uint64_t chan = k / BPC, byte = k % BPC, pix = chan / CH, c = chan % CH;
      /* colour: sample c of the tuple; gray: the gray sample for R,G,B and the alpha sample for A */
      uint64_t fi = (pix * FD + (GRAY ? (c == 3 ? 1 : 0) : c)) * BPC + byte;
      ASSERT(b == file_[hn + fi], "decoded sample is the one the tuple type defines (colour: as stored; gray: g,g,g[,a])"); }
    w_free(1);
  }
}
