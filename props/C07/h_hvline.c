/* C07/6a: draw_horizontal_line (KIND 0) / draw_vertical_line (KIND 1) on a W x H canvas (ALPHA), dash length DASH (cell).
 * Symbolic: canvas contents, both end coordinates in [-3, size+3], the fixed coordinate in [-3, size+3], colour (4 x u64),
 * one checked pixel.  Property text: no exception; no pixel off the ideal segment (row y, x1<=x<=x2, dash phase "on":
 * (x / dash) even, or dash==0) is ever changed; a changed pixel carries the colour; and when both end points are inside
 * the canvas every "on" pixel of the segment is drawn. */
#include "c07.h"
#define CH (3 + ALPHA)
#define N (W * H * CH)
void harness(void) {
  uint8_t d0[N + 1], d1[N + 1];
  ASSERT(w_new(0, W, H, ALPHA, 8) == 0, "constructor");
  in_bytes(d0, N);
  w_set_data(0, d0, N);
#if KIND == 0
  int64_t a = in_irange(-3, W + 3), b = in_irange(-3, W + 3), c = in_irange(-3, H + 3);
#else
  int64_t a = in_irange(-3, H + 3), b = in_irange(-3, H + 3), c = in_irange(-3, W + 3);
#endif
  uint64_t col[4];
  for (int k = 0; k < 4; k++) col[k] = in_u64();
  int64_t r;
#if KIND == 0
  r = w_draw_hline(0, (uint64_t)a, (uint64_t)b, (uint64_t)c, DASH, col[0], col[1], col[2], col[3]);
#else
  r = w_draw_vline(0, (uint64_t)c, (uint64_t)a, (uint64_t)b, DASH, col[0], col[1], col[2], col[3]);
#endif
  OBS(r);
  ASSERT(r == 0, "axis-aligned line never throws");
  w_get_data(0, d1, N);
#if N > 0
  int64_t px = in_irange(0, W - 1), py = in_irange(0, H - 1);
#if KIND == 0
  int64_t along = px, across = py, ext = W, ext2 = H;
#else
  int64_t along = py, across = px, ext = H, ext2 = W;
#endif
  int dash_on = (DASH == 0) || (((along / (DASH ? DASH : 1)) & 1) == 0);
  int on_segment = across == c && along >= a && along <= b && dash_on;
  int ends_inside = a >= 0 && b < ext && c >= 0 && c < ext2;
  int same = 1, is_col = 1;
  for (int k = 0; k < CH; k++) {
    uint8_t g = d1[(py * W + px) * CH + k];
    OBS(g);
    if (g != d0[(py * W + px) * CH + k]) same = 0;
    if (g != (uint8_t)col[k]) is_col = 0;
  }
  ASSERT(same || is_col, "a pixel is either untouched or carries the line colour");
  if (!on_segment) ASSERT(same, "no pixel off the ideal segment is changed");
  if (on_segment && ends_inside) ASSERT(is_col, "with both ends inside the canvas every on-phase pixel of the segment is drawn");
#endif
  w_free(0);
}
