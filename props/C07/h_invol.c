/* C07/7: whole-image transforms and copies on a W x H canvas (ALPHA, CW bits per channel), symbolic contents, one symbolic
 * checked byte k (so "every pixel" is covered).  KIND:
 *  0 reverse_horizontal: once == mirror model (pixel (x,y) <- (W-1-x,y)); twice == identity
 *  1 reverse_vertical:   once == mirror model; twice == identity
 *  2 invert: once == max - v per stored channel; twice == identity
 *  3 set_has_alpha(!ALPHA) then back: colour channels unchanged; alpha unchanged if ALPHA==0 start (add-then-drop identity);
 *    intermediate image has the other channel count, colour channels copied, new alpha == max
 *  4 set_channel_width(CW2) then back to CW (widen-then-narrow when CW2 > CW): identity; widening replicates the value
 *  5 copy constructor is deep: writing into the copy leaves the original unchanged and vice versa; copy equals original
 *  6 copy assignment into an existing image of another size (or, with ASSIGN_CW, of the same extent but another channel width): deep, equal
 *  7 move constructor: target has the pixels, source is left empty (0x0) */
#include "c07.h"
#define CH (3 + ALPHA)
#define BPC (CW / 8)
#define N (W * H * CH * BPC)
#ifndef CW2
#define CW2 16
#endif
#define BPC2 (CW2 / 8)
#define N2 (W * H * CH * BPC2)
#define NALT (W * H * (7 - CH) * BPC)
void harness(void) {
  uint8_t d0[N + 1], d1[N + 1], d2[N + 1];
  static uint8_t alt[(N2 > NALT ? N2 : NALT) + 1];
  ASSERT(w_new(0, W, H, ALPHA, CW) == 0, "constructor");
  in_bytes(d0, N);
  w_set_data(0, d0, N);
  uint64_t k = in_range(0, N ? N - 1 : 0);
  uint64_t chan = k / BPC, byte = k % BPC, pix = chan / CH, c = chan % CH, x = W ? pix % W : 0, y = W ? pix / W : 0;
  uint64_t maxv = CW == 64 ? ~0ULL : ((1ULL << (CW % 64)) - 1);
  int64_t r1, r2;
#if KIND <= 2
#if KIND == 0
  r1 = w_reverse_horizontal(0); w_get_data(0, d1, N); r2 = w_reverse_horizontal(0);
#elif KIND == 1
  r1 = w_reverse_vertical(0); w_get_data(0, d1, N); r2 = w_reverse_vertical(0);
#else
  r1 = w_invert(0); w_get_data(0, d1, N); r2 = w_invert(0);
#endif
  w_get_data(0, d2, N);
  ASSERT(r1 == 0 && r2 == 0, "whole-image transform never throws");
#if N > 0
  OBS(d1[k]); OBS(d2[k]);
#if KIND == 0
  ASSERT(d1[k] == d0[(((y * W + (W - 1 - x)) * CH + c) * BPC) + byte], "one horizontal mirror: pixel comes from the mirrored column");
#elif KIND == 1
  ASSERT(d1[k] == d0[((((H - 1 - y) * W + x) * CH + c) * BPC) + byte], "one vertical mirror: pixel comes from the mirrored row");
#else
  ASSERT(px_get(d1, W, CH, BPC, x, y, c) == ((maxv - px_get(d0, W, CH, BPC, x, y, c)) & maxv), "invert: channel becomes max - value");
#endif
  ASSERT(d2[k] == d0[k], "applying the transform twice restores every byte");
#endif
#elif KIND == 3
  r1 = w_set_has_alpha(0, !ALPHA);
  ASSERT(r1 == 0 && w_has_alpha(0) == !ALPHA && w_data_size(0) == NALT, "alpha flag toggled, buffer resized");
  w_get_data(0, alt, NALT);
  r2 = w_set_has_alpha(0, ALPHA);
  ASSERT(r2 == 0 && w_has_alpha(0) == ALPHA && w_data_size(0) == N, "alpha flag restored");
  w_get_data(0, d2, N);
#if N > 0
  OBS(d2[k]);
  if (c < 3) {
    ASSERT(alt[((pix * (7 - CH) + c) * BPC) + byte] == d0[k], "colour channels are copied when the alpha channel is added/dropped");
    ASSERT(d2[k] == d0[k], "add-then-drop (or drop-then-add) keeps every colour channel");
  } else {
    ASSERT(d2[k] == 0xFF, "re-added alpha channel is fully opaque");
  }
#if !ALPHA
  { uint64_t q = in_range(0, W * H - 1); ASSERT(px_get(alt, W, 4, BPC, q % W, q / W, 3) == maxv, "added alpha channel is max (opaque)"); }
#endif
#endif
#elif KIND == 4
  r1 = w_set_channel_width(0, CW2);
  ASSERT(r1 == 0 && w_channel_width(0) == CW2 && w_data_size(0) == N2, "channel width changed, buffer resized");
  w_get_data(0, alt, N2);
  r2 = w_set_channel_width(0, CW);
  ASSERT(r2 == 0 && w_channel_width(0) == CW && w_data_size(0) == N, "channel width restored");
  w_get_data(0, d2, N);
#if N > 0
  OBS(d2[k]);
#if CW2 > CW
  { uint64_t v = px_get(d0, W, CH, BPC, x, y, c), wv = 0;
    for (int s = 0; s < CW2; s += CW) wv |= v << s;
    ASSERT(px_get(alt, W, CH, BPC2, x, y, c) == wv, "widening replicates the value into every CW-bit group"); }
  ASSERT(d2[k] == d0[k], "widen-then-narrow restores every byte");
#else
  ASSERT(px_get(alt, W, CH, BPC2, x, y, c) == (px_get(d0, W, CH, BPC, x, y, c) >> (CW - CW2)), "narrowing keeps the high bits");
#endif
#endif
#elif KIND == 5 || KIND == 6
#if KIND == 5
  r1 = w_copy(1, 0);
#else
#ifdef ASSIGN_CW
  /* destination already allocated with the SAME extent and alpha mode but another channel width (its buffer has another size) */
  ASSERT(w_new(1, W, H, ALPHA, ASSIGN_CW) == 0, "constructor");
#else
  ASSERT(w_new(1, 1, 2, !ALPHA, 8) == 0, "constructor");
#endif
  r1 = w_assign(1, 0);
#endif
  ASSERT(r1 == 0, "copy does not throw");
  ASSERT(w_width(1) == W && w_height(1) == H && w_has_alpha(1) == ALPHA && w_channel_width(1) == CW && w_data_size(1) == N, "copy has the same geometry");
  w_get_data(1, d1, N);
#if N > 0
  ASSERT(d1[k] == d0[k], "copy has the same pixels");
  { /* write one symbolic pixel into the copy: original unchanged; then into the original: copy keeps its own value */
    int64_t wx = in_irange(0, W - 1), wy = in_irange(0, H - 1);
    uint64_t v[4]; for (int q = 0; q < 4; q++) v[q] = in_u64();
    ASSERT(w_write_pixel(1, (uint64_t)wx, (uint64_t)wy, v[0], v[1], v[2], v[3]) == 0, "in-range write");
    w_get_data(0, d2, N);
    ASSERT(d2[k] == d0[k], "writing into the copy leaves the original untouched (deep copy)");
    w_get_data(1, d1, N);
    ASSERT(w_write_pixel(0, (uint64_t)wx, (uint64_t)wy, ~v[0], ~v[1], ~v[2], ~v[3]) == 0, "in-range write");
    w_get_data(1, d2, N);
    ASSERT(d2[k] == d1[k], "writing into the original leaves the copy untouched (deep copy)");
  }
#endif
  w_free(1);
#elif KIND == 7
  r1 = w_move(1, 0);
  ASSERT(r1 == 0, "move does not throw");
  ASSERT(w_width(1) == W && w_height(1) == H && w_has_alpha(1) == ALPHA && w_channel_width(1) == CW && w_data_size(1) == N, "moved-to image has the geometry");
  ASSERT(w_width(0) == 0 && w_height(0) == 0 && w_data_size(0) == 0, "moved-from image is empty");
  w_get_data(1, d1, N);
#if N > 0
  ASSERT(d1[k] == d0[k], "moved-to image has the pixels");
#endif
  w_free(1);
#endif
  w_free(0);
}
