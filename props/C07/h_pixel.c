/* C07/4: direct pixel access with UNCONSTRAINED 64-bit coordinates on a W x H canvas (cell: W,H,ALPHA,CW).
 * read_pixel / write_pixel throw out_of_range iff the coordinate is outside [0,W) x [0,H); inside, read returns the channels
 * stored at ((y*W+x)*channels + c) (alpha = all-ones channel value when the image has no alpha channel) and write changes
 * exactly the bytes of that pixel (values truncated to the channel width), every other byte of the buffer is untouched.
 * CBMC's pointer checks on the exact-size malloc'ed pixel buffer cover "never touches memory outside the buffer". */
#include "c07.h"
#define CH (3 + ALPHA)
#define BPC (CW / 8)
#define N (W * H * CH * BPC)
void harness(void) {
  uint8_t before[N + 1], after[N + 1];
  ASSERT(w_new(0, W, H, ALPHA, CW) == 0, "constructor does not throw");
  in_bytes(before, N);
  ASSERT(w_set_data(0, before, N) == 0, "data size is W*H*channels*bytes");
  int64_t x = in_i64(), y = in_i64();
  int inside = x >= 0 && y >= 0 && x < W && y < H;
  uint64_t maxv = CW == 64 ? ~0ULL : ((1ULL << (CW % 64)) - 1);
  uint64_t out[4] = {0, 0, 0, 0};
  int64_t r = w_read_pixel(0, (uint64_t)x, (uint64_t)y, out);
  OBS(r);
  ASSERT(r == (inside ? 0 : -1), "read_pixel throws out_of_range iff the coordinate is outside the canvas");
  if (inside && r == 0) {
    for (int c = 0; c < 3; c++) { OBS(out[c]); ASSERT(out[c] == px_get(before, W, CH, BPC, x, y, c), "read_pixel returns the stored channel"); }
    ASSERT(out[3] == (ALPHA ? px_get(before, W, CH, BPC, x, y, 3) : maxv), "read_pixel alpha: stored value, or max when there is no alpha channel");
  }
#if CW == 8
  uint32_t c32 = 0;
  r = w_read_pixel32(0, (uint64_t)x, (uint64_t)y, &c32);
  ASSERT(r == (inside ? 0 : -1), "read_pixel(uint32) throws out_of_range iff outside");
  if (inside && r == 0) ASSERT(c32 == ((uint32_t)out[0] << 24 | (uint32_t)out[1] << 16 | (uint32_t)out[2] << 8 | (uint32_t)out[3]), "packed colour is RGBA8888");
#endif
  uint64_t v[4];
  for (int c = 0; c < 4; c++) v[c] = in_u64();
  r = w_write_pixel(0, (uint64_t)x, (uint64_t)y, v[0], v[1], v[2], v[3]);
  OBS(r);
  ASSERT(r == (inside ? 0 : -1), "write_pixel throws out_of_range iff the coordinate is outside the canvas");
  ASSERT(w_get_data(0, after, N) == 0, "size unchanged");
  uint64_t k = in_range(0, N ? N - 1 : 0); /* one symbolic checked byte */
  if (N > 0) {
    OBS(after[k]);
    uint64_t chan_index = k / BPC, pix = chan_index / CH, c = chan_index % CH, byte = k % BPC;
    if (inside && r == 0 && pix == (uint64_t)(y * W + x)) ASSERT(after[k] == (uint8_t)(v[c] >> (8 * byte)), "write_pixel stores the (truncated) channel value in the addressed pixel");
    else ASSERT(after[k] == before[k], "every byte outside the addressed pixel is untouched");
  }
  w_free(0);
}
