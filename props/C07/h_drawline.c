/* C07/6b: draw_line (Bresenham with a double error term) for a concrete direction cell (DX,DY) on a W x H canvas.
 * Symbolic: start point (x0,y0) in [-3,W+3] x [-3,H+3] (so the line may be partly or wholly outside), colour.
 * The canvas starts black (constructor) and the colour has a non-zero red byte, so "marked" == red byte non-zero.
 * Decided: never throws; every marked pixel lies on the ideal segment (major coordinate t in [0,n], minor offset within half
 * a pixel of t*dminor/n: |2*(m*n - t*dm)| <= n); with both ends inside the canvas exactly n+1 = max(|dx|,|dy|)+1 pixels are
 * marked, one per major step, first == start, last == end, consecutive ones differ by at most 1 in the minor coordinate
 * (8-connected path). */
#include "c07.h"
#define CH (3 + ALPHA)
#define N (W * H * CH)
#define ABS(v) ((v) < 0 ? -(v) : (v))
#define SGN(v) ((v) < 0 ? -1 : ((v) > 0 ? 1 : 0))
#define STEEP (ABS(DY) > ABS(DX))
#define NMAJ (STEEP ? ABS(DY) : ABS(DX))
void harness(void) {
  uint8_t d1[N + 1];
  ASSERT(w_new(0, W, H, ALPHA, 8) == 0, "constructor");
  int64_t x0 = in_irange(-3, W + 3), y0 = in_irange(-3, H + 3);
  int64_t x1 = x0 + (DX), y1 = y0 + (DY);
  uint64_t col[4];
  for (int k = 0; k < 4; k++) col[k] = in_u64();
  ASSUME((col[0] & 0xFF) != 0);
  int64_t r = w_draw_line(0, (uint64_t)x0, (uint64_t)y0, (uint64_t)x1, (uint64_t)y1, col[0], col[1], col[2], col[3]);
  OBS(r);
  ASSERT(r == 0, "draw_line never throws");
  w_get_data(0, d1, N);
#if N > 0
  /* (1) one symbolic checked pixel: marked => on the ideal segment, and it carries the colour */
  int64_t px = in_irange(0, W - 1), py = in_irange(0, H - 1);
  int marked = d1[(py * W + px) * CH] != 0;
  OBS(marked);
  if (marked) {
    int64_t t = STEEP ? (py - y0) * SGN(DY) : (px - x0) * SGN(DX); /* steps along the major axis */
    int64_t m = STEEP ? (px - x0) : (py - y0);                    /* signed minor offset */
    int64_t dm = STEEP ? (DX) : (DY);
    if (NMAJ == 0) ASSERT(px == x0 && py == y0, "degenerate line marks only its single point");
    else {
      ASSERT(t >= 0 && t <= NMAJ, "marked pixel lies between the end points along the major axis");
      int64_t dev = 2 * (m * NMAJ - t * dm);
      ASSERT(dev <= NMAJ && -dev <= NMAJ, "marked pixel is within half a pixel of the ideal segment");
    }
    for (int k = 0; k < CH; k++) ASSERT(d1[(py * W + px) * CH + k] == (uint8_t)col[k], "marked pixel carries the line colour");
  }
  /* (2) both ends inside: connected path of exactly n+1 pixels containing both ends */
  if (x0 >= 0 && x0 < W && y0 >= 0 && y0 < H && x1 >= 0 && x1 < W && y1 >= 0 && y1 < H) {
    int64_t total = 0;
    for (int64_t q = 0; q < W * H; q++) total += d1[q * CH] != 0;
    ASSERT(total == NMAJ + 1, "exactly max(|dx|,|dy|)+1 pixels are marked");
    int64_t prev = 0;
    for (int64_t t = 0; t <= NMAJ; t++) {
      int64_t cnt = 0, val = 0;
      if (STEEP) { int64_t yy = y0 + t * SGN(DY); for (int64_t xx = 0; xx < W; xx++) if (d1[(yy * W + xx) * CH] != 0) { cnt++; val = xx; } }
      else { int64_t xx = x0 + t * SGN(DX); for (int64_t yy = 0; yy < H; yy++) if (d1[(yy * W + xx) * CH] != 0) { cnt++; val = yy; } }
      ASSERT(cnt == 1, "one marked pixel per step along the major axis");
      if (t == 0) ASSERT(val == (STEEP ? x0 : y0), "start point is marked");
      else ASSERT(val - prev <= 1 && prev - val <= 1, "consecutive pixels are 8-connected");
      if (t == NMAJ) ASSERT(val == (STEEP ? x1 : y1), "end point is marked");
      prev = val;
    }
  }
#endif
  w_free(0);
}
