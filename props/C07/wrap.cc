// C07 wrappers: Image canvas operations (Image.cc). Thin adapters: a few Image slots, raw data in/out, one wrapper per op.
#include "wrap.hh"
#include <functional>
#include <map>
#include <memory>
#include <unordered_map>
#include <deque>
#include <vector>
#include <string>
#define private public /* reach Image::width/height for the clipping kernel without allocating 2^31-pixel canvases */
#include "Image.hh"
#undef private
#include "Filesystem.cc"
#include "Strings.cc"
#include "Encoding.cc"
#include "Image.cc"
using namespace phosg;

static Image* g[4];

WEXPORT int64_t w_new(uint32_t slot, size_t w, size_t h, uint32_t alpha, uint32_t cw) {
  try {
    g[slot] = new Image(w, h, alpha != 0, static_cast<uint8_t>(cw));
    return 0;
  }
  W_CATCH_ALL
}
WEXPORT int64_t w_free(uint32_t slot) {
  delete g[slot];
  g[slot] = nullptr;
  return 0;
}
WEXPORT int64_t w_copy(uint32_t dst, uint32_t src) { // copy constructor
  try {
    g[dst] = new Image(*g[src]);
    return 0;
  }
  W_CATCH_ALL
}
WEXPORT int64_t w_assign(uint32_t dst, uint32_t src) { // copy assignment into an existing image
  try {
    *g[dst] = *g[src];
    return 0;
  }
  W_CATCH_ALL
}
WEXPORT int64_t w_move(uint32_t dst, uint32_t src) { // move constructor
  try {
    g[dst] = new Image(std::move(*g[src]));
    return 0;
  }
  W_CATCH_ALL
}
WEXPORT int64_t w_data_size(uint32_t slot) { return static_cast<int64_t>(g[slot]->get_data_size()); }
WEXPORT int64_t w_width(uint32_t slot) { return static_cast<int64_t>(g[slot]->get_width()); }
WEXPORT int64_t w_height(uint32_t slot) { return static_cast<int64_t>(g[slot]->get_height()); }
WEXPORT int64_t w_has_alpha(uint32_t slot) { return g[slot]->get_has_alpha(); }
WEXPORT int64_t w_channel_width(uint32_t slot) { return g[slot]->get_channel_width(); }
WEXPORT int64_t w_set_data(uint32_t slot, const uint8_t* p, size_t n) {
  if (n != g[slot]->get_data_size()) return W_CAPACITY;
  uint8_t* d = static_cast<uint8_t*>(g[slot]->get_data());
  for (size_t i = 0; i < n; i++) d[i] = p[i];
  return 0;
}
WEXPORT int64_t w_get_data(uint32_t slot, uint8_t* p, size_t n) {
  if (n != g[slot]->get_data_size()) return W_CAPACITY;
  const uint8_t* d = static_cast<const uint8_t*>(g[slot]->get_data());
  for (size_t i = 0; i < n; i++) p[i] = d[i];
  return 0;
}

// clipping kernel (static in Image.cc). v = {x, y, w, h, sx, sy}, updated in place.
WEXPORT int64_t w_clamp(size_t dw, size_t dh, size_t sw, size_t sh, int64_t* v) {
  try {
    Image d, s;
    d.width = dw; d.height = dh; s.width = sw; s.height = sh;
    ssize_t x = v[0], y = v[1], w = v[2], h = v[3], sx = v[4], sy = v[5];
    clamp_blit_dimensions(d, s, &x, &y, &w, &h, &sx, &sy);
    v[0] = x; v[1] = y; v[2] = w; v[3] = h; v[4] = sx; v[5] = sy;
    return 0;
  }
  W_CATCH_ALL
}

// direct access. out = {r, g, b, a}
WEXPORT int64_t w_read_pixel(uint32_t slot, int64_t x, int64_t y, uint64_t* out) {
  try {
    g[slot]->read_pixel(x, y, &out[0], &out[1], &out[2], &out[3]);
    return 0;
  }
  W_CATCH_ALL
}
WEXPORT int64_t w_read_pixel32(uint32_t slot, int64_t x, int64_t y, uint32_t* out) {
  try {
    *out = g[slot]->read_pixel(x, y);
    return 0;
  }
  W_CATCH_ALL
}
WEXPORT int64_t w_write_pixel(uint32_t slot, int64_t x, int64_t y, uint64_t r, uint64_t gg, uint64_t b, uint64_t a) {
  try {
    g[slot]->write_pixel(x, y, r, gg, b, a);
    return 0;
  }
  W_CATCH_ALL
}
WEXPORT int64_t w_write_pixel32(uint32_t slot, int64_t x, int64_t y, uint32_t c) {
  try {
    g[slot]->write_pixel(x, y, c);
    return 0;
  }
  W_CATCH_ALL
}

WEXPORT int64_t w_fill_rect(uint32_t slot, int64_t x, int64_t y, int64_t w, int64_t h, uint64_t r, uint64_t gg, uint64_t b, uint64_t a) {
  try {
    g[slot]->fill_rect(x, y, w, h, r, gg, b, a);
    return 0;
  }
  W_CATCH_ALL
}
WEXPORT int64_t w_clear(uint32_t slot, uint64_t r, uint64_t gg, uint64_t b, uint64_t a) {
  try {
    g[slot]->clear(r, gg, b, a);
    return 0;
  }
  W_CATCH_ALL
}
// p = {x, y, w, h, sx, sy}
WEXPORT int64_t w_blit(uint32_t dst, uint32_t src, const int64_t* p) {
  try {
    g[dst]->blit(*g[src], p[0], p[1], p[2], p[3], p[4], p[5]);
    return 0;
  }
  W_CATCH_ALL
}
WEXPORT int64_t w_mask_blit_color(uint32_t dst, uint32_t src, const int64_t* p, uint64_t r, uint64_t gg, uint64_t b) {
  try {
    g[dst]->mask_blit(*g[src], p[0], p[1], p[2], p[3], p[4], p[5], r, gg, b);
    return 0;
  }
  W_CATCH_ALL
}
WEXPORT int64_t w_mask_blit_dst(uint32_t dst, uint32_t src, const int64_t* p, uint64_t r, uint64_t gg, uint64_t b) {
  try {
    g[dst]->mask_blit_dst(*g[src], p[0], p[1], p[2], p[3], p[4], p[5], r, gg, b);
    return 0;
  }
  W_CATCH_ALL
}
WEXPORT int64_t w_mask_blit_image(uint32_t dst, uint32_t src, const int64_t* p, uint32_t mask) {
  try {
    g[dst]->mask_blit(*g[src], p[0], p[1], p[2], p[3], p[4], p[5], *g[mask]);
    return 0;
  }
  W_CATCH_ALL
}
WEXPORT int64_t w_blend_blit(uint32_t dst, uint32_t src, const int64_t* p) {
  try {
    g[dst]->blend_blit(*g[src], p[0], p[1], p[2], p[3], p[4], p[5]);
    return 0;
  }
  W_CATCH_ALL
}
WEXPORT int64_t w_blend_blit_alpha(uint32_t dst, uint32_t src, const int64_t* p, uint64_t source_alpha) {
  try {
    g[dst]->blend_blit(*g[src], p[0], p[1], p[2], p[3], p[4], p[5], source_alpha);
    return 0;
  }
  W_CATCH_ALL
}
// custom blits: the per-pixel callback is a C function supplied by the harness
typedef void (*w_fn32_t)(uint32_t* dst, uint32_t src);
typedef void (*w_fn64_t)(uint64_t* d /* r,g,b,a in/out */, const uint64_t* s /* r,g,b,a */);
WEXPORT int64_t w_custom_blit32(uint32_t dst, uint32_t src, const int64_t* p, w_fn32_t fn) {
  try {
    g[dst]->custom_blit(*g[src], p[0], p[1], p[2], p[3], p[4], p[5], [fn](uint32_t& d, uint32_t s) { fn(&d, s); });
    return 0;
  }
  W_CATCH_ALL
}
WEXPORT int64_t w_custom_blit64(uint32_t dst, uint32_t src, const int64_t* p, w_fn64_t fn) {
  try {
    g[dst]->custom_blit(*g[src], p[0], p[1], p[2], p[3], p[4], p[5],
        [fn](uint64_t& dr, uint64_t& dg, uint64_t& db, uint64_t& da, uint64_t sr, uint64_t sg, uint64_t sb, uint64_t sa) {
          uint64_t d[4] = {dr, dg, db, da};
          uint64_t s[4] = {sr, sg, sb, sa};
          fn(d, s);
          dr = d[0]; dg = d[1]; db = d[2]; da = d[3];
        });
    return 0;
  }
  W_CATCH_ALL
}
WEXPORT int64_t w_draw_line(uint32_t slot, int64_t x0, int64_t y0, int64_t x1, int64_t y1, uint64_t r, uint64_t gg, uint64_t b, uint64_t a) {
  try {
    g[slot]->draw_line(x0, y0, x1, y1, r, gg, b, a);
    return 0;
  }
  W_CATCH_ALL
}
WEXPORT int64_t w_draw_hline(uint32_t slot, int64_t x1, int64_t x2, int64_t y, int64_t dash, uint64_t r, uint64_t gg, uint64_t b, uint64_t a) {
  try {
    g[slot]->draw_horizontal_line(x1, x2, y, dash, r, gg, b, a);
    return 0;
  }
  W_CATCH_ALL
}
WEXPORT int64_t w_draw_vline(uint32_t slot, int64_t x, int64_t y1, int64_t y2, int64_t dash, uint64_t r, uint64_t gg, uint64_t b, uint64_t a) {
  try {
    g[slot]->draw_vertical_line(x, y1, y2, dash, r, gg, b, a);
    return 0;
  }
  W_CATCH_ALL
}
// text: one or two characters through the "%c%c" / "%c" format (vasprintf is the harness's exact stub). wh = {width, height}
WEXPORT int64_t w_draw_text(uint32_t slot, int64_t x, int64_t y, int64_t* wh, const uint64_t* fg, const uint64_t* bg, uint32_t nch, uint32_t c0, uint32_t c1) {
  try {
    ssize_t tw = 0, th = 0;
    if (nch == 0) {
      g[slot]->draw_text(x, y, &tw, &th, fg[0], fg[1], fg[2], fg[3], bg[0], bg[1], bg[2], bg[3], "%s", "");
    } else if (nch == 1) {
      g[slot]->draw_text(x, y, &tw, &th, fg[0], fg[1], fg[2], fg[3], bg[0], bg[1], bg[2], bg[3], "%c", static_cast<int>(c0));
    } else {
      g[slot]->draw_text(x, y, &tw, &th, fg[0], fg[1], fg[2], fg[3], bg[0], bg[1], bg[2], bg[3], "%c%c", static_cast<int>(c0), static_cast<int>(c1));
    }
    wh[0] = tw; wh[1] = th;
    return 0;
  }
  W_CATCH_ALL
}
WEXPORT int64_t w_font_bit(uint32_t glyph, uint32_t idx) { return font[glyph][idx] ? 1 : 0; }

WEXPORT int64_t w_reverse_horizontal(uint32_t slot) {
  try { g[slot]->reverse_horizontal(); return 0; }
  W_CATCH_ALL
}
WEXPORT int64_t w_reverse_vertical(uint32_t slot) {
  try { g[slot]->reverse_vertical(); return 0; }
  W_CATCH_ALL
}
WEXPORT int64_t w_invert(uint32_t slot) {
  try { g[slot]->invert(); return 0; }
  W_CATCH_ALL
}
WEXPORT int64_t w_set_has_alpha(uint32_t slot, uint32_t a) {
  try { g[slot]->set_has_alpha(a != 0); return 0; }
  W_CATCH_ALL
}
WEXPORT int64_t w_set_channel_width(uint32_t slot, uint32_t cw) {
  try { g[slot]->set_channel_width(static_cast<uint8_t>(cw)); return 0; }
  W_CATCH_ALL
}
WEXPORT int64_t w_set_alpha_from_mask_color(uint32_t slot, uint64_t r, uint64_t gg, uint64_t b) {
  try { g[slot]->set_alpha_from_mask_color(r, gg, b); return 0; }
  W_CATCH_ALL
}
