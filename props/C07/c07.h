/* shared prototypes (generated-C parameter types) and byte-level pixel helpers for the C07 harnesses */
#ifndef C07_H
#define C07_H
#include "harness.h"
int64_t w_new(uint32_t slot, uint64_t w, uint64_t h, uint32_t alpha, uint32_t cw);
int64_t w_free(uint32_t slot);
int64_t w_copy(uint32_t dst, uint32_t src);
int64_t w_assign(uint32_t dst, uint32_t src);
int64_t w_move(uint32_t dst, uint32_t src);
int64_t w_data_size(uint32_t slot);
int64_t w_width(uint32_t slot);
int64_t w_height(uint32_t slot);
int64_t w_has_alpha(uint32_t slot);
int64_t w_channel_width(uint32_t slot);
int64_t w_set_data(uint32_t slot, uint8_t* p, uint64_t n);
int64_t w_get_data(uint32_t slot, uint8_t* p, uint64_t n);
int64_t w_read_pixel(uint32_t slot, uint64_t x, uint64_t y, uint64_t* out);
int64_t w_read_pixel32(uint32_t slot, uint64_t x, uint64_t y, uint32_t* out);
int64_t w_write_pixel(uint32_t slot, uint64_t x, uint64_t y, uint64_t r, uint64_t g, uint64_t b, uint64_t a);
int64_t w_write_pixel32(uint32_t slot, uint64_t x, uint64_t y, uint32_t c);
int64_t w_fill_rect(uint32_t slot, uint64_t x, uint64_t y, uint64_t w, uint64_t h, uint64_t r, uint64_t g, uint64_t b, uint64_t a);
int64_t w_clear(uint32_t slot, uint64_t r, uint64_t g, uint64_t b, uint64_t a);
int64_t w_blit(uint32_t dst, uint32_t src, uint64_t* p);
int64_t w_mask_blit_color(uint32_t dst, uint32_t src, uint64_t* p, uint64_t r, uint64_t g, uint64_t b);
int64_t w_mask_blit_dst(uint32_t dst, uint32_t src, uint64_t* p, uint64_t r, uint64_t g, uint64_t b);
int64_t w_mask_blit_image(uint32_t dst, uint32_t src, uint64_t* p, uint32_t mask);
int64_t w_blend_blit(uint32_t dst, uint32_t src, uint64_t* p);
int64_t w_blend_blit_alpha(uint32_t dst, uint32_t src, uint64_t* p, uint64_t source_alpha);
int64_t w_custom_blit32(uint32_t dst, uint32_t src, uint64_t* p, uint8_t* fn);
int64_t w_custom_blit64(uint32_t dst, uint32_t src, uint64_t* p, uint8_t* fn);
int64_t w_draw_line(uint32_t slot, uint64_t x0, uint64_t y0, uint64_t x1, uint64_t y1, uint64_t r, uint64_t g, uint64_t b, uint64_t a);
int64_t w_draw_hline(uint32_t slot, uint64_t x1, uint64_t x2, uint64_t y, uint64_t dash, uint64_t r, uint64_t g, uint64_t b, uint64_t a);
int64_t w_draw_vline(uint32_t slot, uint64_t x, uint64_t y1, uint64_t y2, uint64_t dash, uint64_t r, uint64_t g, uint64_t b, uint64_t a);
int64_t w_draw_text(uint32_t slot, uint64_t x, uint64_t y, uint64_t* wh, uint64_t* fg, uint64_t* bg, uint32_t nch, uint32_t c0, uint32_t c1);
int64_t w_font_bit(uint32_t glyph, uint32_t idx);
int64_t w_reverse_horizontal(uint32_t slot);
int64_t w_reverse_vertical(uint32_t slot);
int64_t w_invert(uint32_t slot);
int64_t w_set_has_alpha(uint32_t slot, uint32_t a);
int64_t w_set_channel_width(uint32_t slot, uint32_t cw);
int64_t w_set_alpha_from_mask_color(uint32_t slot, uint64_t r, uint64_t g, uint64_t b);

/* Image storage layout (Image.hh): row-major, 3 or 4 channels per pixel, each channel cw/8 bytes in host (little-endian) order */
static inline uint64_t px_get(const uint8_t* d, uint64_t width, uint64_t ch, uint64_t bpc, uint64_t x, uint64_t y, uint64_t c) {
  uint64_t off = ((y * width + x) * ch + c) * bpc, v = 0;
  for (uint64_t k = 0; k < bpc; k++) v |= (uint64_t)d[off + k] << (8 * k);
  return v;
}
#endif
