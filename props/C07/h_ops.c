/* C07/2: per-pixel reference model for the rectangle operations on small concrete canvases (8-bit channels).
 * Cell (concrete): OP, destination DW x DH (alpha DA), source SW x SH (alpha SA), mask MW x MH for OP_MASKIMG.
 * Symbolic: every byte of every canvas, all six rectangle parameters in [-3, size+3], colours, ONE checked pixel (px,py).
 * Reference rule (straight from the definition of a clipped blit, no relation to clamp_blit_dimensions): destination pixel
 * (px,py) is affected iff i=px-x, j=py-y satisfy 0<=i<w, 0<=j<h and the source pixel (sx+i, sy+j) exists; w<0 / h<0 mean
 * "the whole source extent" (Image.cc convention for the default arguments).  An affected pixel receives the operation's
 * rule applied to that source pixel, every other pixel keeps its old value.  No exception may escape, except the documented
 * runtime_error of the mask-image blit when the mask does not cover the area.
 * Opaque only: source alpha bytes are restricted to {0,0xFF} (blit/blend) so that no multiplier sits in the loop; the blend
 * arithmetic is decided separately on one pixel (h_blend.c). */
#include "c07.h"
#define OP_FILL 0
#define OP_BLIT 1
#define OP_MASKCOLOR 2
#define OP_MASKDST 3
#define OP_MASKIMG 4
#define OP_BLEND 5
#define OP_BLENDALPHA 6
#define OP_CUSTOM32 7
#define OP_CUSTOM64 8
#ifndef MW
#define MW 0
#define MH 0
#endif
#define DCH (3 + DA)
#define SCH (3 + SA)
#define DN (DW * DH * DCH)
#define SN (SW * SH * SCH)
#define MN (MW * MH * 3)

typedef struct { uint64_t c[4]; } px_t;
static px_t load_px(const uint8_t* d, uint64_t width, uint64_t ch, uint64_t x, uint64_t y) {
  px_t p;
  for (int k = 0; k < 3; k++) p.c[k] = d[(y * width + x) * ch + k];
  p.c[3] = ch == 4 ? d[(y * width + x) * ch + 3] : 0xFF;
  return p;
}
static uint32_t pack(px_t p) { return (uint32_t)((p.c[0] & 0xFF) << 24 | (p.c[1] & 0xFF) << 16 | (p.c[2] & 0xFF) << 8 | (p.c[3] & 0xFF)); }

/* callbacks for custom_blit: arbitrary but fixed mixing functions */
static void fn32(uint32_t* d, uint32_t s) { *d = (*d & 0xF0F0F0F0u) ^ (s >> 4) ^ (s << 28); }
static void fn64(uint64_t* d, const uint64_t* s) { uint64_t t = d[0]; d[0] = s[1] ^ d[3]; d[1] = t; d[2] = s[3] + d[2]; d[3] = s[0]; }

void harness(void) {
  uint8_t dst0[DN + 1], dst1[DN + 1], src[SN + 1], msk[MN + 1];
  uint64_t p[6];
  ASSERT(w_new(0, DW, DH, DA, 8) == 0, "constructor");
  in_bytes(dst0, DN);
  w_set_data(0, dst0, DN);
#if OP != OP_FILL
  ASSERT(w_new(1, SW, SH, SA, 8) == 0, "constructor");
  in_bytes(src, SN);
#if SA && (OP == OP_BLIT || OP == OP_BLEND || OP == OP_BLENDALPHA)
  for (int k = 0; k < SW * SH; k++) ASSUME(src[k * 4 + 3] == 0 || src[k * 4 + 3] == 0xFF);
#endif
  w_set_data(1, src, SN);
#endif
#if OP == OP_MASKIMG
  ASSERT(w_new(2, MW, MH, 0, 8) == 0, "constructor");
  in_bytes(msk, MN);
  w_set_data(2, msk, MN);
#endif
  int64_t x = in_irange(-3, DW + 3), y = in_irange(-3, DH + 3);
  int64_t bigw = (DW > SW ? DW : SW) + 3, bigh = (DH > SH ? DH : SH) + 3;
  int64_t w = in_irange(-3, bigw), h = in_irange(-3, bigh);
  int64_t sx = in_irange(-3, SW + 3), sy = in_irange(-3, SH + 3);
  p[0] = (uint64_t)x; p[1] = (uint64_t)y; p[2] = (uint64_t)w; p[3] = (uint64_t)h; p[4] = (uint64_t)sx; p[5] = (uint64_t)sy;
  uint64_t kr = in_u64(), kg = in_u64(), kb = in_u64(); /* colour / key colour, full 64-bit range */
  uint64_t salpha = in_bool() ? 0xFF : 0;
  int64_t r;
#if OP == OP_FILL
  r = w_fill_rect(0, p[0], p[1], p[2], p[3], kr, kg, kb, 0xFF);
#elif OP == OP_BLIT
  r = w_blit(0, 1, p);
#elif OP == OP_MASKCOLOR
  r = w_mask_blit_color(0, 1, p, kr, kg, kb);
#elif OP == OP_MASKDST
  r = w_mask_blit_dst(0, 1, p, kr, kg, kb);
#elif OP == OP_MASKIMG
  r = w_mask_blit_image(0, 1, p, 2);
#elif OP == OP_BLEND
  r = w_blend_blit(0, 1, p);
#elif OP == OP_BLENDALPHA
  r = w_blend_blit_alpha(0, 1, p, salpha);
#elif OP == OP_CUSTOM32
  r = w_custom_blit32(0, 1, p, (uint8_t*)fn32);
#elif OP == OP_CUSTOM64
  r = w_custom_blit64(0, 1, p, (uint8_t*)fn64);
#endif
  OBS(r);
  ASSERT(r != -1, "no out_of_range escapes a canvas operation");
  ASSERT(w_get_data(0, dst1, DN) == 0, "destination size unchanged");
#if DN > 0
  int64_t px = in_irange(0, DW - 1), py = in_irange(0, DH - 1); /* the one checked pixel */
  px_t D = load_px(dst0, DW, DCH, px, py), E = D, G = load_px(dst1, DW, DCH, px, py);
#if OP == OP_FILL
  int64_t weff = w, heff = h;
#else
  int64_t weff = w < 0 ? SW : w, heff = h < 0 ? SH : h;
#endif
  int64_t i = px - x, j = py - y;
  int in_rect = i >= 0 && i < weff && j >= 0 && j < heff;
  int expect_rc = 0;
#if OP == OP_FILL
  if (in_rect) { E.c[0] = kr & 0xFF; E.c[1] = kg & 0xFF; E.c[2] = kb & 0xFF; E.c[3] = 0xFF; }
#else
  in_rect = in_rect && sx + i >= 0 && sx + i < SW && sy + j >= 0 && sy + j < SH;
  px_t S = D;
#if SN > 0
  if (in_rect) S = load_px(src, SW, SCH, sx + i, sy + j);
#else
  in_rect = 0;
#endif
#if OP == OP_BLIT || OP == OP_BLEND
  if (in_rect && S.c[3] != 0) E = S;
#elif OP == OP_BLENDALPHA
  if (in_rect && salpha == 0xFF && S.c[3] == 0xFF) E = S; /* effective alpha = source_alpha*sa/255 is 0xFF or 0 here */
#elif OP == OP_MASKCOLOR
  if (in_rect && (S.c[0] != kr || S.c[1] != kg || S.c[2] != kb)) E = S;
#elif OP == OP_MASKDST
  if (in_rect && D.c[0] == kr && D.c[1] == kg && D.c[2] == kb) E = S;
#elif OP == OP_MASKIMG
  {
    /* clipped area in source space = [sx+ilo, sx+ihi) x [sy+jlo, sy+jhi); the mask is indexed in source space and must
     * cover it (Image.cc comment above the check); if it does not, the documented failure is runtime_error, nothing drawn */
    int64_t ilo = 0, ihi = weff, jlo = 0, jhi = heff;
    if (-x > ilo) ilo = -x; if (-sx > ilo) ilo = -sx; if (DW - x < ihi) ihi = DW - x; if (SW - sx < ihi) ihi = SW - sx;
    if (-y > jlo) jlo = -y; if (-sy > jlo) jlo = -sy; if (DH - y < jhi) jhi = DH - y; if (SH - sy < jhi) jhi = SH - sy;
    int nonempty = ilo < ihi && jlo < jhi;
    int covered = !nonempty || (sx + ihi <= MW && sy + jhi <= MH);
    if ((int64_t)MW < weff || (int64_t)MH < heff || !covered) expect_rc = -5;
    else if (in_rect) {
#if MN > 0
      px_t M = load_px(msk, MW, 3, sx + i, sy + j);
      if (!(M.c[0] == 0xFF && M.c[1] == 0xFF && M.c[2] == 0xFF)) E = S;
#endif
    }
  }
#elif OP == OP_CUSTOM32
  if (in_rect) { uint32_t dc = pack(D); fn32(&dc, pack(S)); E.c[0] = dc >> 24; E.c[1] = (dc >> 16) & 0xFF; E.c[2] = (dc >> 8) & 0xFF; E.c[3] = dc & 0xFF; }
#elif OP == OP_CUSTOM64
  if (in_rect) { fn64(E.c, S.c); for (int k = 0; k < 4; k++) E.c[k] &= 0xFF; }
#endif
#endif
  if (!DA) E.c[3] = 0xFF;
  for (int k = 0; k < 4; k++) OBS(G.c[k]);
  ASSERT(r == expect_rc, "return: success, or runtime_error exactly when the mask does not cover the blitted area");
  ASSERT(G.c[0] == E.c[0] && G.c[1] == E.c[1] && G.c[2] == E.c[2] && G.c[3] == E.c[3], "checked pixel equals the per-pixel reference (inside: rule applied, outside: untouched)");
#else
  ASSERT(r == 0 || OP == OP_MASKIMG, "empty destination: nothing to do, no exception");
#endif
  w_free(0);
#if OP != OP_FILL
  w_free(1);
#endif
#if OP == OP_MASKIMG
  w_free(2);
#endif
}
