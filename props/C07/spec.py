ID = 'C07'
UNITS = {'img': dict(wrap='wrap.cc', new_block=64)}
BOUNDS = ''
STUBS = ['vasprintf: exact mini-model engine/rt/stub_printf.h (literals, %c, %s, hex); used only by the draw_text harness to build the 1-2 character string']
OUTSIDE = []
ASSUMPTIONS = []

COPY_LOOPS = 'in_bytes.0:%d,w_set_data.0:%d,w_get_data.0:%d,verif_memset_loop.0:%d,harness.0:%d'
P = '_ZN5phosg5Image'
OPFN = {'fill': [P + '9fill_rectEllllmmmm'], 'blit': [P + '4blitERKS0_llllll'], 'maskcolor': [P + '9mask_blitERKS0_llllllmmm'],
        'maskdst': [P + '13mask_blit_dstERKS0_llllllmmm'], 'maskimg': [P + '9mask_blitERKS0_llllllS2_'],
        'blend': [P + '10blend_blitERKS0_llllll'], 'blendalpha': [P + '10blend_blitERKS0_llllllm'],
        'custom32': [P + '11custom_blitERKS0_llllllSt8functionIFvRjjEE'], 'custom64': [P + '11custom_blitERKS0_llllllSt8functionIFvRmS4_S4_S4_mmmmEE']}


def loops(fns, bound, nloops=4):
    # explicit per-loop bounds for the pixel loops of the code under test (unwinding assertions stay on: too small = reported)
    return ','.join('%s.%d:%d' % (f, i, bound) for f in fns for i in range(nloops))


def queries(tier):
    qs = []
    qs.append(dict(name='clamp_fullrange', unit='img', harness='h_clamp.c', defs={}, unwind=8, timeout=600, mem_gb=6, backend='cvc5',
                   desc='clamp_blit_dimensions: all 6 rectangle parameters in [-2^31,2^31], canvas extents in [0,2^31]: result == interval intersection reference',
                   bounds='coordinates and extents within +-2^31 (no 64-bit overflow)'))
    cells = [(0, 0), (1, 1), (3, 2)] if tier == 'quick' else [(0, 0), (0, 2), (2, 0), (1, 1), (1, 3), (3, 1), (2, 2), (3, 3)]
    for (W, H) in cells:
        for A in (0, 1):
            for CW in (8, 16, 32, 64):
                n = W * H * (3 + A) * (CW // 8)
                qs.append(dict(name='pixel_%dx%d_a%d_cw%d' % (W, H, A, CW), unit='img', harness='h_pixel.c', defs={'W': W, 'H': H, 'ALPHA': A, 'CW': CW},
                               unwind=10, unwindset='in_bytes.0:%d,w_set_data.0:%d,w_get_data.0:%d,verif_memset_loop.0:%d' % (n + 2, n + 2, n + 2, n + 2), timeout=600, mem_gb=6,
                               desc='read_pixel/write_pixel, unconstrained int64 x,y on a %dx%d canvas (alpha=%d, %d-bit channels): out_of_range iff outside; exact bytes touched' % (W, H, A, CW),
                               bounds='canvas %dx%d, all pixel contents, x,y any int64' % (W, H)))
    OPS = ['fill', 'blit', 'maskcolor', 'maskdst', 'maskimg', 'blend', 'blendalpha', 'custom32', 'custom64']
    def opq(op, DW, DH, DA, SW, SH, SA, MW=0, MH=0):
        n = max(DW * DH * (3 + DA), SW * SH * (3 + SA), MW * MH * 3) + 2
        defs = {'OP': OPS.index(op), 'DW': DW, 'DH': DH, 'DA': DA, 'SW': SW, 'SH': SH, 'SA': SA}
        nm = 'op_%s_d%dx%da%d' % (op, DW, DH, DA)
        if op != 'fill':
            nm += '_s%dx%da%d' % (SW, SH, SA)
        if op == 'maskimg':
            defs.update(MW=MW, MH=MH); nm += '_m%dx%d' % (MW, MH)
        # the pixel loops of the operation run over the CLIPPED rectangle: at most min(dest,source) iterations per axis
        it = (max(DW, DH) if op == 'fill' else max(min(DW, SW), min(DH, SH))) + 1
        return dict(name=nm, unit='img', harness='h_ops.c', defs=defs, unwind=6,
                    unwindset=COPY_LOOPS % ((n,) * 5) + ',' + loops(OPFN[op], it), timeout=900, mem_gb=8, object_bits=12,
                    desc='%s: checked pixel of a %dx%d (alpha=%d) destination equals the per-pixel reference; source %dx%d (alpha=%d); all six rectangle parameters in [-3,size+3]' % (op, DW, DH, DA, SW, SH, SA),
                    bounds='dest %dx%d, source %dx%d, 8-bit channels, x,y,w,h,sx,sy in [-3,size+3], opaque alpha only' % (DW, DH, SW, SH))
    def hvq(kind, W, H, A, dash):
        n = W * H * (3 + A) + 2
        fn = P + ('20draw_horizontal_lineEllllmmmm' if kind == 0 else '18draw_vertical_lineEllllmmmm')
        return dict(name='%sline_%dx%da%d_dash%d' % ('hv'[kind], W, H, A, dash), unit='img', harness='h_hvline.c', defs={'KIND': kind, 'W': W, 'H': H, 'ALPHA': A, 'DASH': dash}, unwind=6,
                    unwindset=COPY_LOOPS % ((n,) * 5) + ',' + loops([fn], (W if kind == 0 else H) + 8, 1), timeout=900, mem_gb=8, object_bits=12,
                    desc='draw_%s_line on %dx%d (alpha=%d), dash %d: never throws, nothing off the segment changes, full segment drawn when both ends are inside' % (('horizontal', 'vertical')[kind], W, H, A, dash),
                    bounds='canvas %dx%d, coordinates in [-3,size+3], dash length %d' % (W, H, dash))
    def dlq(W, H, A, dx, dy):
        n = W * H * (3 + A) + 2
        return dict(name='drawline_%dx%da%d_dx%d_dy%d' % (W, H, A, dx, dy), unit='img', harness='h_drawline.c', defs={'W': W, 'H': H, 'ALPHA': A, 'DX': '(%d)' % dx, 'DY': '(%d)' % dy}, unwind=max(W, H, 4) + 2,
                    unwindset=COPY_LOOPS % ((n,) * 5) + ',harness.2:%d' % (W * H + 2), timeout=900, mem_gb=8, object_bits=12,
                    desc='draw_line direction (%d,%d), start anywhere in [-3,size+3]^2 on %dx%d: marked pixels on the ideal segment; both ends inside => connected path of max(|dx|,|dy|)+1 pixels' % (dx, dy, W, H),
                    bounds='canvas %dx%d, direction (%d,%d), start in [-3,size+3]^2' % (W, H, dx, dy))
    BK = ['fill', 'blit', 'blendblit', 'blendblit_alpha']
    def blq(kind, DA, SA, CW, chan, backend='z3', timeout=600):
        return dict(name='blend1_%s_da%d_sa%d_cw%d_ch%d' % (BK[kind], DA, SA, CW, chan), unit='img', harness='h_blend.c', defs={'KIND': kind, 'DA': DA, 'SA': SA, 'CW': CW, 'CHAN': chan}, unwind=18,
                    timeout=timeout, mem_gb=8, object_bits=12, backend=backend,
                    desc='%s on one pixel (%d-bit channels, dest alpha=%d, source alpha=%d): channel %d equals the truncating alpha-blend formula' % (BK[kind], CW, DA, SA, chan),
                    bounds='1x1 canvases, all channel values, all alphas')
    if tier == 'quick':
        qs += [blq(0, 1, 1, 8, 0), blq(0, 1, 1, 8, 3), blq(1, 1, 1, 8, 1), blq(1, 1, 1, 8, 3), blq(2, 1, 1, 8, 2), blq(2, 1, 1, 8, 3), blq(3, 1, 1, 8, 0), blq(3, 1, 1, 8, 3)]
    def txq(mode, W, H, A, BA, nch=1, tx=None, ty=None):
        n = (W + 2) * (H + 2) * (3 + A) + 2
        defs = {'MODE': mode, 'W': W, 'H': H, 'ALPHA': A, 'BA': BA, 'NCH': nch}
        pos = ''
        if tx is not None:
            defs.update(TX='(%d)' % tx, TY='(%d)' % ty); pos = '_at%d_%d' % (tx, ty)
        return dict(name='text_%s_%dx%da%d_ba%d_n%d%s' % (('model', 'clipinv')[mode], W, H, A, BA, nch, pos), unit='img', harness='h_text.c', defs=defs, unwind=9,
                    unwindset=COPY_LOOPS % ((n,) * 5) + ',X_vasprintf.0:8,' + loops(OPFN['fill'], max(W, H) + (3 if mode else 1)), timeout=900, mem_gb=8, object_bits=12, backend='cadical',
                    desc='draw_text %s on %dx%d (alpha=%d, background alpha %d, %d symbolic char(s)), position anywhere in [-7,W+1]x[-9,H+1]' % (('glyph/background per-pixel model', 'clipping invariance small vs (W+2)x(H+2)')[mode], W, H, A, BA, nch),
                    bounds='canvas %dx%d, %d character(s), 8-bit channels' % (W, H, nch))
    if tier == 'quick':
        qs += [txq(0, 3, 3, 1, 255, 1, -3, -4), txq(0, 4, 2, 0, 0, 1, 1, -2), txq(1, 3, 3, 0, 255, 1, -5, 1)]
    IK = ['mirrorh', 'mirrorv', 'invert', 'alpha', 'width', 'copy', 'assign', 'move']
    def ivq(kind, W, H, A, CW, CW2=16):
        n = W * H * 4 * max(CW, CW2 if kind == 4 else 8) // 8 + 2
        defs = {'KIND': kind, 'W': W, 'H': H, 'ALPHA': A, 'CW': CW}
        nm = 'inv_%s_%dx%da%d_cw%d' % (IK[kind], W, H, A, CW)
        if kind == 4:
            defs['CW2'] = CW2; nm += 'to%d' % CW2
        return dict(name=nm, unit='img', harness='h_invol.c', defs=defs, unwind=max(W * H * 4 + 2, 10),
                    unwindset=(COPY_LOOPS % ((n,) * 5)) + ',verif_memcpy_loop.0:%d' % n, timeout=900, mem_gb=8, object_bits=12,
                    desc='%s on %dx%d (alpha=%d, %d-bit): single-step model and round-trip identity / deep copy, one symbolic checked byte' % (IK[kind], W, H, A, CW),
                    bounds='canvas %dx%d, all contents' % (W, H))
    if tier == 'quick':
        qs += [ivq(0, 3, 2, 1, 8), ivq(0, 2, 2, 0, 16), ivq(1, 2, 3, 0, 8), ivq(1, 1, 2, 1, 32), ivq(2, 2, 2, 1, 8), ivq(2, 2, 1, 0, 64),
               ivq(3, 2, 2, 0, 8), ivq(3, 2, 1, 1, 16), ivq(4, 2, 2, 1, 8, 16), ivq(4, 2, 1, 0, 8, 64), ivq(4, 1, 2, 0, 16, 32), ivq(4, 1, 2, 0, 32, 8),
               ivq(5, 2, 2, 1, 8), ivq(5, 0, 0, 0, 8), ivq(6, 2, 2, 0, 8), ivq(7, 2, 2, 1, 16)]
    if tier == 'quick':
        qs += [hvq(0, 3, 2, 1, 0), hvq(0, 3, 2, 0, 2), hvq(1, 2, 3, 1, 1), hvq(1, 2, 3, 0, 0)]
        qs += [dlq(4, 4, 0, 3, 1), dlq(4, 4, 1, -2, 3), dlq(3, 3, 0, 0, 0), dlq(4, 3, 0, 2, -1), dlq(4, 4, 0, -3, -3)]
    if tier == 'quick':
        for A in (0, 1):
            qs.append(opq('fill', 3, 3, A, 0, 0, 0))
        qs.append(opq('fill', 0, 0, 0, 0, 0, 0))
        for op in OPS[1:]:
            qs.append(opq(op, 3, 2, 1, 2, 3, 1, 2, 2))
            qs.append(opq(op, 2, 2, 0, 3, 3, 0, 3, 3))
    return qs
