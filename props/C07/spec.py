ID = 'C07'
UNITS = {'img': dict(wrap='wrap.cc', new_block=64)}
BOUNDS = ('clamp_blit_dimensions: all six parameters in [-2^31,2^31], canvas extents in [0,2^31] (one loop-free query). read/write_pixel: x,y any int64, canvases up to 3x3, alpha on/off, 8/16/32/64-bit channels. '
          'Rectangle operations (fill_rect, blit, mask_blit x3, blend_blit x2, custom_blit x2): destination and source sizes 0..3 x 0..3 as case-split cells, 8-bit channels, both alpha modes, '
          'all six rectangle parameters symbolic in [-3,size+3], all canvas bytes symbolic, opaque alpha only, ONE symbolic checked pixel. Blend arithmetic: one pixel, 8- and 16-bit channels, one channel per query. '
          'Lines: axis-aligned lines on canvases up to 3x3 with coordinates in [-3,size+3] and dash 0..3; draw_line for direction cells (dx,dy) in [-3,3]^2 on 4x4/3x3 with the start point anywhere in [-3,size+3]^2. '
          'Text: one or two symbolic characters on canvases up to 4x4, position as a case-split cell. Transforms/copies: canvases up to 3x3, all channel widths.')
STUBS = ['vasprintf: exact mini-model engine/rt/stub_printf.h (literals, %c, %s, hex); used only by the draw_text harness to build the 1-2 character string']
OUTSIDE = ['canvases larger than 4x4 (coordinates up to +-2^31 are covered by the clipping-kernel and direct-access harnesses only)',
           'translucent alpha inside multi-pixel blits (the blend formula is decided per pixel by h_blend.c; multi-pixel queries restrict alpha bytes to {0,0xFF})',
           'blend arithmetic on 32/64-bit channels (64-bit: sr*sa overflows uint64 in blend_blit - observation in NOTES.md); fill_rect/blit blending on non-8-bit canvases (they use the 0xFF scale)',
           'resize_blit (floating point interpolation); text longer than 2 characters and text position symbolic (35 glyph writes at a symbolic offset: no verdict in 900 s); random operation sequences',
           'the extent reported by draw_text (not a pixel; observation in NOTES.md)',
           'draw_horizontal/vertical_line with negative dash length; signed overflow for coordinates beyond +-2^62']
ASSUMPTIONS = ['x86-64 little-endian host', 'heap allocation never fails', 'colour/alpha arguments of the 8-bit drawing API are within 0..0xFF where the harness says so (blend harness)']

COPY_LOOPS = 'in_bytes.0:%d,w_set_data.0:%d,w_get_data.0:%d,verif_memset_loop.0:%d,harness.0:%d'
P = '_ZN5phosg5Image'
OPFN = {'fill': [P + '9fill_rectEllllmmmm'], 'blit': [P + '4blitERKS0_llllll'], 'maskcolor': [P + '9mask_blitERKS0_llllllmmm'],
        'maskdst': [P + '13mask_blit_dstERKS0_llllllmmm'], 'maskimg': [P + '9mask_blitERKS0_llllllS2_'],
        'blend': [P + '10blend_blitERKS0_llllll'], 'blendalpha': [P + '10blend_blitERKS0_llllllm'],
        'custom32': [P + '11custom_blitERKS0_llllllSt8functionIFvRjjEE'], 'custom64': [P + '11custom_blitERKS0_llllllSt8functionIFvRmS4_S4_S4_mmmmEE']}
OPS = ['fill', 'blit', 'maskcolor', 'maskdst', 'maskimg', 'blend', 'blendalpha', 'custom32', 'custom64']
BK = ['fill', 'blit', 'blendblit', 'blendblit_alpha']
IK = ['mirrorh', 'mirrorv', 'invert', 'alpha', 'width', 'copy', 'assign', 'move']


def loops(fns, bound, nloops=4):
    # explicit per-loop bounds for the pixel loops of the code under test (unwinding assertions stay on: too small = reported)
    return ','.join('%s.%d:%d' % (f, i, bound) for f in fns for i in range(nloops))


def queries(tier):
    qs = []
    T = tier == 'thorough'
    qs.append(dict(name='clamp_fullrange', unit='img', harness='h_clamp.c', defs={}, unwind=8, timeout=600, mem_gb=6, backend='cvc5',
                   desc='clamp_blit_dimensions: all 6 rectangle parameters in [-2^31,2^31], canvas extents in [0,2^31]: result == interval intersection reference',
                   bounds='coordinates and extents within +-2^31 (no 64-bit overflow)'))

    def pixel(W, H, A, CW):
        n = W * H * (3 + A) * (CW // 8)
        return dict(name='pixel_%dx%d_a%d_cw%d' % (W, H, A, CW), unit='img', harness='h_pixel.c', defs={'W': W, 'H': H, 'ALPHA': A, 'CW': CW},
                    unwind=10, unwindset='in_bytes.0:%d,w_set_data.0:%d,w_get_data.0:%d,verif_memset_loop.0:%d' % (n + 2, n + 2, n + 2, n + 2), timeout=600, mem_gb=6,
                    desc='read_pixel/write_pixel, unconstrained int64 x,y on a %dx%d canvas (alpha=%d, %d-bit channels): out_of_range iff outside; exact bytes touched' % (W, H, A, CW),
                    bounds='canvas %dx%d, all pixel contents, x,y any int64' % (W, H))

    def opq(op, DW, DH, DA, SW, SH, SA, MW=0, MH=0):
        n = max(DW * DH * (3 + DA), SW * SH * (3 + SA), MW * MH * 3) + 2
        defs = {'OP': OPS.index(op), 'DW': DW, 'DH': DH, 'DA': DA, 'SW': SW, 'SH': SH, 'SA': SA}
        nm = 'op_%s_d%dx%da%d' % (op, DW, DH, DA)
        if op != 'fill':
            nm += '_s%dx%da%d' % (SW, SH, SA)
        if op == 'maskimg':
            defs.update(MW=MW, MH=MH); nm += '_m%dx%d' % (MW, MH)
        # the pixel loops of the operation run over the CLIPPED rectangle: at most min(dest,source) iterations per axis
        it = (max(DW, DH) if op == 'fill' else max(min(DW, SW), min(DH, SH))) + 1
        return dict(name=nm, unit='img', harness='h_ops.c', defs=defs, unwind=6,
                    unwindset=COPY_LOOPS % ((n,) * 5) + ',' + loops(OPFN[op], it), timeout=1500, mem_gb=8, object_bits=12,
                    desc='%s: checked pixel of a %dx%d (alpha=%d) destination equals the per-pixel reference; source %dx%d (alpha=%d); all six rectangle parameters in [-3,size+3]' % (op, DW, DH, DA, SW, SH, SA),
                    bounds='dest %dx%d, source %dx%d, 8-bit channels, x,y,w,h,sx,sy in [-3,size+3], opaque alpha only' % (DW, DH, SW, SH))

    def blq(kind, DA, SA, CW, chan, timeout=900):
        return dict(name='blend1_%s_da%d_sa%d_cw%d_ch%d' % (BK[kind], DA, SA, CW, chan), unit='img', harness='h_blend.c', defs={'KIND': kind, 'DA': DA, 'SA': SA, 'CW': CW, 'CHAN': chan}, unwind=18,
                    timeout=timeout, mem_gb=8, object_bits=12, backend='z3',
                    desc='%s on one pixel (%d-bit channels, dest alpha=%d, source alpha=%d): channel %d equals the truncating alpha-blend formula' % (BK[kind], CW, DA, SA, chan),
                    bounds='1x1 canvases, all channel values, all alphas')

    def txq(mode, W, H, A, BA, nch, tx, ty):
        n = (W + 2) * (H + 2) * (3 + A) + 2
        defs = {'MODE': mode, 'W': W, 'H': H, 'ALPHA': A, 'BA': BA, 'NCH': nch, 'TX': '(%d)' % tx, 'TY': '(%d)' % ty}
        return dict(name='text_%s_%dx%da%d_ba%d_n%d_at%d_%d' % (('model', 'clipinv')[mode], W, H, A, BA, nch, tx, ty), unit='img', harness='h_text.c', defs=defs, unwind=9,
                    unwindset=COPY_LOOPS % ((n,) * 5) + ',X_vasprintf.0:8,' + loops(OPFN['fill'], max(W, H) + (3 if mode else 1)), timeout=1500, mem_gb=8, object_bits=12, backend='cadical',
                    desc='draw_text %s on %dx%d (alpha=%d, background alpha %d, %d symbolic char(s)) at (%d,%d)' % (('glyph/background per-pixel model', 'clipping invariance small vs (W+2)x(H+2)')[mode], W, H, A, BA, nch, tx, ty),
                    bounds='canvas %dx%d, %d character(s), 8-bit channels, position (%d,%d)' % (W, H, nch, tx, ty))

    def ivq(kind, W, H, A, CW, CW2=16, assign_cw=None):
        n = max(W * H * 4 * max(CW, CW2 if kind == 4 else 8, assign_cw or 8) // 8 + 2, 12)
        defs = {'KIND': kind, 'W': W, 'H': H, 'ALPHA': A, 'CW': CW}
        nm = 'inv_%s_%dx%da%d_cw%d' % (IK[kind], W, H, A, CW)
        if assign_cw:
            defs['ASSIGN_CW'] = assign_cw; nm += '_into%d' % assign_cw
        if kind == 4:
            defs['CW2'] = CW2; nm += 'to%d' % CW2
        return dict(name=nm, unit='img', harness='h_invol.c', defs=defs, unwind=max(W * H * 4 + 2, 10),
                    unwindset=(COPY_LOOPS % ((n,) * 5)) + ',verif_memcpy_loop.0:%d' % n, timeout=900, mem_gb=8, object_bits=12,
                    desc='%s on %dx%d (alpha=%d, %d-bit): single-step model and round-trip identity / deep copy, one symbolic checked byte' % (IK[kind], W, H, A, CW),
                    bounds='canvas %dx%d, all contents' % (W, H))

    def hvq(kind, W, H, A, dash):
        n = max(W * H * (3 + A) + 2, 12)
        fn = P + ('20draw_horizontal_lineEllllmmmm' if kind == 0 else '18draw_vertical_lineEllllmmmm')
        return dict(name='%sline_%dx%da%d_dash%d' % ('hv'[kind], W, H, A, dash), unit='img', harness='h_hvline.c', defs={'KIND': kind, 'W': W, 'H': H, 'ALPHA': A, 'DASH': dash}, unwind=max(W, H) + 12,
                    unwindset=COPY_LOOPS % ((n,) * 5) + ',' + loops([fn], (W if kind == 0 else H) + 8, 1), timeout=900, mem_gb=8, object_bits=12,
                    desc='draw_%s_line on %dx%d (alpha=%d), dash %d: never throws, nothing off the segment changes, full segment drawn when both ends are inside' % (('horizontal', 'vertical')[kind], W, H, A, dash),
                    bounds='canvas %dx%d, coordinates in [-3,size+3], dash length %d' % (W, H, dash))

    def dlq(W, H, A, dx, dy):
        n = W * H * (3 + A) + 2
        return dict(name='drawline_%dx%da%d_dx%d_dy%d' % (W, H, A, dx, dy), unit='img', harness='h_drawline.c', defs={'W': W, 'H': H, 'ALPHA': A, 'DX': '(%d)' % dx, 'DY': '(%d)' % dy}, unwind=max(W, H, 4) + 2,
                    unwindset=COPY_LOOPS % ((n,) * 5) + ',harness.2:%d' % (W * H + 2), timeout=900, mem_gb=8, object_bits=12,
                    desc='draw_line direction (%d,%d), start anywhere in [-3,size+3]^2 on %dx%d: marked pixels on the ideal segment; both ends inside => connected path of max(|dx|,|dy|)+1 pixels' % (dx, dy, W, H),
                    bounds='canvas %dx%d, direction (%d,%d), start in [-3,size+3]^2' % (W, H, dx, dy))

    if not T:
        qs += [pixel(0, 0, 0, 8), pixel(1, 1, 1, 16), pixel(3, 2, 0, 8), pixel(3, 2, 1, 64), pixel(2, 3, 1, 32)]
        qs += [opq('fill', 3, 3, 0, 0, 0, 0), opq('fill', 3, 3, 1, 0, 0, 0), opq('fill', 0, 0, 0, 0, 0, 0)]
        for op in OPS[1:]:
            qs.append(opq(op, 2, 2, 0, 3, 3, 0, 3, 3))
        qs += [opq('maskimg', 3, 2, 1, 2, 3, 1, 2, 2), opq('maskcolor', 3, 2, 1, 2, 3, 1), opq('custom64', 3, 2, 1, 2, 3, 1)]
        qs += [blq(0, 1, 1, 8, 0), blq(1, 1, 1, 8, 1), blq(2, 1, 1, 8, 2), blq(3, 1, 1, 8, 0), blq(3, 1, 1, 8, 3)]
        qs += [txq(0, 3, 3, 1, 255, 1, -3, -4), txq(1, 3, 3, 0, 255, 1, -5, 1)]
        qs += [ivq(0, 3, 2, 1, 8), ivq(1, 2, 3, 0, 16), ivq(2, 2, 2, 1, 8), ivq(2, 2, 1, 0, 64), ivq(3, 2, 2, 0, 8), ivq(4, 2, 2, 1, 8, 16), ivq(4, 1, 2, 0, 16, 32),
               ivq(5, 2, 2, 1, 8), ivq(6, 2, 2, 0, 8), ivq(6, 2, 2, 1, 16, assign_cw=8), ivq(7, 2, 2, 1, 16),
               blq(2, 1, 1, 16, 0)]
        qs += [hvq(0, 3, 2, 1, 0), hvq(0, 3, 2, 0, 2), hvq(1, 2, 3, 1, 1)]
        qs += [dlq(4, 4, 0, 3, 1), dlq(4, 4, 1, -2, 3), dlq(3, 3, 0, 0, 0), dlq(4, 4, 0, -3, -3)]
    else:
        for (W, H) in [(0, 0), (0, 2), (2, 0), (1, 1), (1, 3), (3, 1), (2, 2), (3, 3)]:
            for A in (0, 1):
                for CW in (8, 16, 32, 64):
                    qs.append(pixel(W, H, A, CW))
        for (W, H) in [(0, 0), (0, 3), (1, 1), (1, 3), (3, 1), (2, 2), (3, 3)]:
            for A in (0, 1):
                qs.append(opq('fill', W, H, A, 0, 0, 0))
        # destination x source size cells for every blit flavour (sizes 0..3, both alpha modes occur on both sides)
        cells = [(0, 0, 0, 2, 2, 0), (2, 2, 1, 0, 0, 0), (1, 1, 0, 1, 1, 1), (1, 3, 1, 3, 1, 0), (3, 1, 0, 1, 3, 1), (2, 2, 0, 3, 3, 0), (3, 2, 1, 2, 3, 1), (3, 3, 0, 2, 2, 1)]
        for op in OPS[1:]:
            for (DW, DH, DA, SW, SH, SA) in cells:
                if op == 'blit' and (DW, DH, DA, SW, SH, SA) == (3, 3, 0, 2, 2, 1):
                    continue   # measured: no verdict in 4500 s (plain blit from an alpha source into a 3x3 canvas without alpha); the other 7 size cells of blit are decided
                if op == 'maskimg':
                    qs.append(opq(op, DW, DH, DA, SW, SH, SA, SW, SH))
                else:
                    qs.append(opq(op, DW, DH, DA, SW, SH, SA))
        qs += [opq('maskimg', 3, 2, 1, 2, 3, 1, 2, 2), opq('maskimg', 2, 2, 0, 3, 3, 0, 2, 3), opq('maskimg', 2, 2, 0, 3, 3, 0, 1, 1), opq('maskimg', 2, 2, 1, 2, 2, 1, 0, 0)]
        for kind in (0, 1, 2, 3):
            for ch in (0, 1, 2, 3):
                qs.append(blq(kind, 1, 1, 8, ch))
        qs += [blq(0, 0, 1, 8, 1), blq(1, 0, 1, 8, 0), blq(1, 1, 0, 8, 3), blq(2, 0, 1, 8, 2), blq(3, 0, 1, 8, 1), blq(2, 1, 1, 16, 0), blq(2, 1, 1, 16, 3), blq(3, 1, 1, 16, 1), blq(3, 1, 1, 16, 3)]
        for (tx, ty) in [(-7, -9), (-6, 0), (-3, -4), (-1, -1), (0, 0), (1, -2), (2, 1), (3, 3), (4, 0), (0, 4), (-5, 1), (1, -8)]:
            qs.append(txq(0, 3, 3, 1, 255, 1, tx, ty))
        for (tx, ty) in [(-6, -7), (-2, -3), (0, 0), (1, -2), (4, 1)]:
            qs.append(txq(0, 4, 2, 0, 0, 1, tx, ty))
        for (tx, ty) in [(-5, 1), (-1, -1), (0, -6), (2, 2)]:
            qs.append(txq(1, 3, 3, 0, 255, 1, tx, ty))
        qs += [txq(1, 2, 2, 1, 0, 2, -7, -3), txq(1, 2, 2, 1, 255, 2, -8, -1)]
        for (W, H) in [(0, 0), (1, 1), (3, 2), (2, 3), (3, 3)]:
            for A in (0, 1):
                for kind in (0, 1, 2, 5, 6, 7):
                    qs.append(ivq(kind, W, H, A, 8))
                qs.append(ivq(3, W, H, A, 8))
        qs += [ivq(0, 2, 2, 0, 16), ivq(1, 1, 2, 1, 32), ivq(2, 2, 1, 0, 64), ivq(2, 2, 2, 1, 16), ivq(3, 2, 1, 1, 16), ivq(3, 2, 2, 0, 64), ivq(5, 2, 2, 0, 64), ivq(7, 2, 2, 1, 16), ivq(6, 2, 1, 0, 8, assign_cw=16), ivq(6, 1, 2, 1, 64, assign_cw=8), ivq(6, 2, 2, 0, 32, assign_cw=16)]
        for (a, b) in [(8, 16), (8, 32), (8, 64), (16, 32), (16, 64), (32, 64), (16, 8), (32, 8), (64, 16), (64, 32)]:
            qs.append(ivq(4, 2, 2, 1, a, b)); qs.append(ivq(4, 1, 2, 0, a, b))
        for kind in (0, 1):
            for (W, H) in [(0, 0), (1, 1), (3, 2), (2, 3), (3, 3)]:
                for dash in (0, 1, 2, 3):
                    qs.append(hvq(kind, W, H, (W + dash) % 2, dash))
        for dx in range(-3, 4):
            for dy in range(-3, 4):
                qs.append(dlq(4, 4, (dx + dy) % 2, dx, dy))
        qs += [dlq(3, 3, 0, 2, 1), dlq(1, 1, 0, 0, 0), dlq(1, 4, 1, 0, 3), dlq(4, 1, 0, -3, 0), dlq(2, 3, 0, 1, -2)]
    if T:
        for q in qs:
            q.setdefault('tv_runs', 20)  # translation validation: 60 random runs per query in quick, 20 in thorough (many more queries)
    return qs
