ID = 'C07'
UNITS = {'img': dict(wrap='wrap.cc', new_block=64)}
BOUNDS = ''
STUBS = []
OUTSIDE = []
ASSUMPTIONS = []

def queries(tier):
    qs = []
    qs.append(dict(name='clamp_fullrange', unit='img', harness='h_clamp.c', defs={}, unwind=8, timeout=600, mem_gb=6, backend='cvc5',
                   desc='clamp_blit_dimensions: all 6 rectangle parameters in [-2^31,2^31], canvas extents in [0,2^31]: result == interval intersection reference',
                   bounds='coordinates and extents within +-2^31 (no 64-bit overflow)'))
    cells = [(0, 0), (1, 1), (3, 2)] if tier == 'quick' else [(0, 0), (0, 2), (2, 0), (1, 1), (1, 3), (3, 1), (2, 2), (3, 3)]
    for (W, H) in cells:
        for A in (0, 1):
            for CW in (8, 16, 32, 64):
                n = W * H * (3 + A) * (CW // 8)
                qs.append(dict(name='pixel_%dx%d_a%d_cw%d' % (W, H, A, CW), unit='img', harness='h_pixel.c', defs={'W': W, 'H': H, 'ALPHA': A, 'CW': CW},
                               unwind=10, unwindset='in_bytes.0:%d,w_set_data.0:%d,w_get_data.0:%d,verif_memset_loop.0:%d' % (n + 2, n + 2, n + 2, n + 2), timeout=600, mem_gb=6,
                               desc='read_pixel/write_pixel, unconstrained int64 x,y on a %dx%d canvas (alpha=%d, %d-bit channels): out_of_range iff outside; exact bytes touched' % (W, H, A, CW),
                               bounds='canvas %dx%d, all pixel contents, x,y any int64' % (W, H)))
    OPS = ['fill', 'blit', 'maskcolor', 'maskdst', 'maskimg', 'blend', 'blendalpha', 'custom32', 'custom64']
    def opq(op, DW, DH, DA, SW, SH, SA, MW=0, MH=0):
        n = max(DW * DH * (3 + DA), SW * SH * (3 + SA), MW * MH * 3) + 2
        defs = {'OP': OPS.index(op), 'DW': DW, 'DH': DH, 'DA': DA, 'SW': SW, 'SH': SH, 'SA': SA}
        nm = 'op_%s_d%dx%da%d' % (op, DW, DH, DA)
        if op != 'fill':
            nm += '_s%dx%da%d' % (SW, SH, SA)
        if op == 'maskimg':
            defs.update(MW=MW, MH=MH); nm += '_m%dx%d' % (MW, MH)
        return dict(name=nm, unit='img', harness='h_ops.c', defs=defs, unwind=max(DW, DH, SW, SH) + 3,
                    unwindset='in_bytes.0:%d,w_set_data.0:%d,w_get_data.0:%d,verif_memset_loop.0:%d,harness.0:%d' % (n, n, n, n, n), timeout=900, mem_gb=8, object_bits=12,
                    desc='%s: checked pixel of a %dx%d (alpha=%d) destination equals the per-pixel reference; source %dx%d (alpha=%d); all six rectangle parameters in [-3,size+3]' % (op, DW, DH, DA, SW, SH, SA),
                    bounds='dest %dx%d, source %dx%d, 8-bit channels, x,y,w,h,sx,sy in [-3,size+3], opaque alpha only' % (DW, DH, SW, SH))
    if tier == 'quick':
        for A in (0, 1):
            qs.append(opq('fill', 3, 3, A, 0, 0, 0))
        qs.append(opq('fill', 0, 0, 0, 0, 0, 0))
        for op in OPS[1:]:
            qs.append(opq(op, 3, 2, 1, 2, 3, 1, 2, 2))
            qs.append(opq(op, 2, 2, 0, 3, 3, 0, 3, 3))
    return qs
