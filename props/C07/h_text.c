/* C07/5+text: draw_text on small canvases (8-bit channels), text produced by the exact vasprintf model (stub_printf.h) from
 * "%c" / "%c%c" with symbolic characters.  BA (cell) is the background alpha: 0 (no background) or 0xFF (opaque box).
 * MODE 0 - per-pixel model of ONE printable-or-not character (not CR/LF): pixel (px,py) with i=px-x, j=py-y becomes
 *          the text colour iff the 5x7 glyph bit (j*5+i) is set (glyph table read through w_font_bit: the bitmap is data, the
 *          placement/clipping logic is what is checked), else the background colour iff BA==0xFF and -1<=i<=5, -1<=j<=7,
 *          else it is untouched; reported extent is 6 x 7; never throws, for x,y anywhere around/outside the canvas.
 * MODE 1 - clipping invariance with NCH symbolic characters (any bytes incl. CR/LF): drawing at (x,y) on the W x H crop
 *          equals drawing at (x+1,y+1) on the (W+2) x (H+2) canvas and cropping, for the checked pixel. */
#include "c07.h"
#include "stub_printf.h"
#define CH (3 + ALPHA)
#define N (W * H * CH)
#define W2 (W + 2)
#define H2 (H + 2)
#define NB (W2 * H2 * CH)
void harness(void) {
  uint8_t small0[N + 1], small1[N + 1];
  uint64_t fg[4], bg[4], wh[2] = {0, 0};
  for (int k = 0; k < 4; k++) { fg[k] = in_u64(); bg[k] = in_u64(); }
  bg[3] = BA;
  uint32_t c0 = in_u8(), c1 = in_u8();
#ifdef TX /* position is a case-split cell (the 35 glyph writes + 63 background writes at a symbolic offset are out of reach) */
  int64_t x = (TX), y = (TY);
#else
  int64_t x = in_irange(-7, W + 1), y = in_irange(-9, H + 1);
#endif
  int64_t px = in_irange(0, W - 1), py = in_irange(0, H - 1);
#if MODE == 0
  ASSUME(c0 != '\n' && c0 != '\r');
  ASSERT(w_new(0, W, H, ALPHA, 8) == 0, "constructor");
  in_bytes(small0, N);
  w_set_data(0, small0, N);
  int64_t r = w_draw_text(0, (uint64_t)x, (uint64_t)y, wh, fg, bg, 1, c0, 0);
  OBS(r);
  ASSERT(r == 0, "draw_text never throws");
  /* reported extent: not part of the C07 statement (pixels only).  Observation recorded in NOTES.md: for x < -6 the reported
   * width is -x instead of 6 because draw_text_v starts max_x_pos at 0 rather than at x. */
  if (x >= -6) ASSERT((int64_t)wh[0] == 6 && (int64_t)wh[1] == 7, "one character is reported as 6 x 7");
  w_get_data(0, small1, N);
  uint32_t glyph = (c0 < 0x20 || c0 > 0x7F) ? 0x5F : c0 - 0x20;
  int64_t i = px - x, j = py - y;
  uint8_t E[4];
  for (int k = 0; k < CH; k++) E[k] = small0[(py * W + px) * CH + k];
  if (i >= 0 && i < 5 && j >= 0 && j < 7 && w_font_bit(glyph, (uint32_t)(j * 5 + i))) { for (int k = 0; k < CH; k++) E[k] = (uint8_t)fg[k]; }
  else if (BA == 0xFF && i >= -1 && i <= 5 && j >= -1 && j <= 7) { for (int k = 0; k < 3; k++) E[k] = (uint8_t)bg[k]; if (ALPHA) E[3] = 0xFF; }
  for (int k = 0; k < CH; k++) { OBS(small1[(py * W + px) * CH + k]); ASSERT(small1[(py * W + px) * CH + k] == E[k], "checked pixel equals the glyph/background/untouched model"); }
  w_free(0);
#else
  static uint8_t big0[NB + 1], big1[NB + 1];
  ASSERT(w_new(0, W, H, ALPHA, 8) == 0 && w_new(1, W2, H2, ALPHA, 8) == 0, "constructors");
  in_bytes(big0, NB);
  for (int yy = 0; yy < H; yy++) for (int xx = 0; xx < W; xx++) for (int k = 0; k < CH; k++) small0[(yy * W + xx) * CH + k] = big0[((yy + 1) * W2 + xx + 1) * CH + k];
  w_set_data(0, small0, N); w_set_data(1, big0, NB);
  uint64_t wh2[2] = {0, 0};
  int64_t r = w_draw_text(0, (uint64_t)x, (uint64_t)y, wh, fg, bg, NCH, c0, c1);
  int64_t r2 = w_draw_text(1, (uint64_t)(x + 1), (uint64_t)(y + 1), wh2, fg, bg, NCH, c0, c1);
  OBS(r); OBS(r2);
  ASSERT(r == 0 && r2 == 0, "draw_text never throws");
  if (x >= 0) ASSERT(wh[0] == wh2[0] && wh[1] == wh2[1], "reported extent does not depend on the canvas"); /* x<0: see the max_x_pos observation above */
  w_get_data(0, small1, N); w_get_data(1, big1, NB);
  for (int k = 0; k < CH; k++) { OBS(small1[(py * W + px) * CH + k]); ASSERT(small1[(py * W + px) * CH + k] == big1[((py + 1) * W2 + px + 1) * CH + k], "text on the small canvas equals text on the larger canvas, cropped"); }
  w_free(0); w_free(1);
#endif
}
