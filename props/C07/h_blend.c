/* C07/3: blend arithmetic on ONE pixel (1x1 destination and source), CW-bit channels (8 or 16).
 * Reference: the textbook truncating alpha blend  out = floor((alpha*s + (max-alpha)*d) / max)  per channel, stated without a
 * divider as  out*max <= alpha*s + (max-alpha)*d < out*max + max  (narrow arithmetic, operands are zero-extended bytes).
 * KIND 0 fill_rect with a translucent 8-bit colour (CW==8; alpha scale 0xFF): rgb blended with a, alpha blended towards a
 * KIND 1 blit with translucent source alpha (CW==8): sa==0 skip, sa==0xFF copy, else rgb and alpha blended with sa
 * KIND 2 blend_blit: sa==max copy, sa==0 skip, else rgb and alpha blended with sa on the max_value scale
 * KIND 3 blend_blit(source_alpha): eff = floor(source_alpha*sa/max); eff==max copy rgb + alpha=eff; eff==0 skip; else rgb
 *        blended with eff, destination alpha kept
 * All channel values and alphas symbolic within the channel range. */
#include "c07.h"
#define BPC (CW / 8)
#define DCH (3 + DA)
#define SCH (3 + SA)
#if CW == 8
typedef uint32_t num_t;
#else
typedef uint64_t num_t;
#endif
static num_t get(const uint8_t* d, int c) { num_t v = 0; for (int k = 0; k < BPC; k++) v |= (num_t)d[c * BPC + k] << (8 * k); return v; }
/* mode per channel: 0 keep D, 1 exact value E, 2 blend: floor(num/maxv) */
void harness(void) {
  uint8_t d0[4 * BPC], d1[4 * BPC], s0[4 * BPC];
  uint64_t p[6] = {0, 0, 1, 1, 0, 0};
  const num_t maxv = ((num_t)1 << CW) - 1;
  ASSERT(w_new(0, 1, 1, DA, CW) == 0 && w_new(1, 1, 1, SA, CW) == 0, "constructors");
  in_bytes(d0, DCH * BPC); in_bytes(s0, SCH * BPC);
  w_set_data(0, d0, DCH * BPC); w_set_data(1, s0, SCH * BPC);
  num_t D[4], S[4], E[4], NUM[4], G;
  int mode[4] = {0, 0, 0, 0};
  for (int c = 0; c < 3; c++) { D[c] = get(d0, c); S[c] = get(s0, c); }
  D[3] = DA ? get(d0, 3) : maxv; S[3] = SA ? get(s0, 3) : maxv;
  uint8_t col[4];
  for (int c = 0; c < 4; c++) { col[c] = in_u8(); E[c] = D[c]; NUM[c] = 0; }
  num_t salpha = CW == 8 ? in_u8() : in_u16();
  int64_t r;
#if KIND == 0
  ASSUME(col[3] != 0xFF);
  r = w_fill_rect(0, 0, 0, 1, 1, col[0], col[1], col[2], col[3]);
  for (int c = 0; c < 4; c++) { mode[c] = 2; NUM[c] = (num_t)col[3] * col[c] + (num_t)(0xFF - col[3]) * D[c]; }
#elif KIND == 1
  r = w_blit(0, 1, p);
  if (S[3] == 0xFF) { for (int c = 0; c < 4; c++) { mode[c] = 1; E[c] = S[c]; } }
  else if (S[3] != 0) { for (int c = 0; c < 4; c++) { mode[c] = 2; NUM[c] = S[3] * S[c] + (0xFF - S[3]) * D[c]; } }
#elif KIND == 2
  r = w_blend_blit(0, 1, p);
  if (S[3] == maxv) { for (int c = 0; c < 4; c++) { mode[c] = 1; E[c] = S[c]; } }
  else if (S[3] != 0) { for (int c = 0; c < 4; c++) { mode[c] = 2; NUM[c] = S[3] * S[c] + (maxv - S[3]) * D[c]; } }
#else
  r = w_blend_blit_alpha(0, 1, p, salpha);
  { num_t eff = salpha * S[3] / maxv;
    if (eff == maxv) { for (int c = 0; c < 3; c++) { mode[c] = 1; E[c] = S[c]; } mode[3] = 1; E[3] = eff; }
    else if (eff != 0) { for (int c = 0; c < 3; c++) { mode[c] = 2; NUM[c] = eff * S[c] + (maxv - eff) * D[c]; } } }
#endif
  OBS(r);
  ASSERT(r == 0, "blend never throws");
  w_get_data(0, d1, DCH * BPC);
  /* one channel per query (CHAN): the four dividers are independent; together they only slow the SAT solver down */
  for (int c = CHAN; c < CHAN + 1 && c < DCH; c++) {
    G = get(d1, c);
    OBS(G);
    if (mode[c] == 2) ASSERT(G * maxv <= NUM[c] && NUM[c] < G * maxv + maxv, "blended channel equals floor((alpha*s + (max-alpha)*d)/max)");
    else ASSERT(G == E[c], "channel is copied (opaque) or kept (transparent)");
  }
  w_free(0); w_free(1);
}
