/* C07/1: clamp_blit_dimensions (static kernel shared by every blit), loop-free, full range.
 * All six rectangle parameters symbolic in [-2^31, 2^31], the four canvas extents symbolic in [0, 2^31].
 * Reference (written here from the definition, no relation to the six-step code): the blit maps dest pixel x+i to source
 * pixel sx+i for i in [0,w); the valid i are those with 0 <= x+i < dest.w and 0 <= sx+i < src.w, i.e. the interval
 * [max(0,-x,-sx), min(w, dest.w-x, src.w-sx)).  Same for the y axis.  If both intervals are non-empty the kernel must
 * return exactly that sub-rectangle (shifted origin in both canvases, same extent); otherwise the result must be empty
 * (w==0 or h==0, both non-negative). */
#include "harness.h"
int64_t w_clamp(uint64_t dw, uint64_t dh, uint64_t sw, uint64_t sh, int64_t* v);

#define LIM 2147483648LL
static int64_t max3(int64_t a, int64_t b, int64_t c) { int64_t m = a > b ? a : b; return m > c ? m : c; }
static int64_t min3(int64_t a, int64_t b, int64_t c) { int64_t m = a < b ? a : b; return m < c ? m : c; }

void harness(void) {
  int64_t dw = in_irange(0, LIM), dh = in_irange(0, LIM), sw = in_irange(0, LIM), sh = in_irange(0, LIM);
  int64_t v[6], o[6];
  for (int i = 0; i < 6; i++) { v[i] = in_irange(-LIM, LIM); o[i] = v[i]; }
  int64_t r = w_clamp((uint64_t)dw, (uint64_t)dh, (uint64_t)sw, (uint64_t)sh, v);
  OBS(r);
  ASSERT(r == 0, "clipping kernel does not throw");
  for (int i = 0; i < 6; i++) OBS(v[i]);
  int64_t x = o[0], y = o[1], w = o[2], h = o[3], sx = o[4], sy = o[5];
  int64_t ilo = max3(0, -x, -sx), ihi = min3(w, dw - x, sw - sx);
  int64_t jlo = max3(0, -y, -sy), jhi = min3(h, dh - y, sh - sy);
  ASSERT(v[2] >= 0 && v[3] >= 0, "resulting extent is never negative");
  if (ilo < ihi && jlo < jhi) {
    ASSERT(v[0] == x + ilo && v[4] == sx + ilo && v[2] == ihi - ilo, "x axis: result is the intersection with both canvases");
    ASSERT(v[1] == y + jlo && v[5] == sy + jlo && v[3] == jhi - jlo, "y axis: result is the intersection with both canvases");
    /* consequences every blit loop relies on */
    ASSERT(v[0] >= 0 && v[0] + v[2] <= dw && v[4] >= 0 && v[4] + v[2] <= sw, "x range inside both canvases");
    ASSERT(v[1] >= 0 && v[1] + v[3] <= dh && v[5] >= 0 && v[5] + v[3] <= sh, "y range inside both canvases");
  } else {
    ASSERT(v[2] == 0 || v[3] == 0, "empty intersection gives an empty rectangle");
  }
}
