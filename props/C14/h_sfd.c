/* C14: scoped_fd closes every descriptor it owns exactly once. NOPS symbolic operations over two object slots:
 * construct (default / from a descriptor / by opening a path, which may fail), move-construct, move-assign, assign a
 * descriptor, open (const char* and std::string forms, may fail), close, destroy; finally every live object is
 * destroyed. ::open/::close are stubs: open hands out fresh descriptors (or fails), close records its argument.
 * Oracle (ownership model written here): after every operation each object reports the descriptor the model says it owns;
 * close is never called on a descriptor that was not handed out or was already closed; at the end every descriptor handed
 * out was closed exactly once. */
#include "harness.h"
uint8_t* w_sfd_new(void);
uint8_t* w_sfd_new_fd(uint32_t fd);
uint8_t* w_sfd_new_open(uint8_t* path, int64_t* code);
uint8_t* w_sfd_new_move(uint8_t* from);
void w_sfd_delete(uint8_t* h);
void w_sfd_move_assign(uint8_t* to, uint8_t* from);
void w_sfd_assign_fd(uint8_t* to, uint32_t fd);
int64_t w_sfd_open(uint8_t* h, uint8_t* path, uint32_t as_string);
void w_sfd_close(uint8_t* h);
int64_t w_sfd_get(uint8_t* h);
int64_t w_sfd_is_open(uint8_t* h);

#ifndef VERIF_NATIVE_REAL
/* generated C only (spec: unit 'fsx' cuts this constructor): it only concatenates the what() text
 * "can't open file <name>: <errno text>"; with it encoded the string appends over strlen-derived (symbolic) lengths cost
 * 22M SAT variables / 12 GB per query. The throw itself, the exception type and the std::string temporary are encoded. */
void X__ZN5phosg16cannot_open_fileC1ERKNSt7__cxx1112basic_stringIcSt11char_traitsIcESaIcEEE(uint8_t* self, uint8_t* name) { (void)self; (void)name; }
#endif
#define W_CANNOT_OPEN (-21)
#ifndef FD0
#define FD0 10   /* first descriptor handed out; cells FD0 = 0 cover the lowest descriptor a process can get */
#endif
#define MAXFD (NOPS + 1)
static int handed;            /* descriptors handed out so far: FD0 .. FD0+handed-1 */
static int closed[MAXFD + 1]; /* close() calls per descriptor */
static int open_fails;        /* next ::open fails */
static int open_calls;
static uint8_t path[2] = {'p', 0};

static uint32_t fresh_fd(void) { uint32_t fd = FD0 + handed; handed++; return fd; }
uint32_t STUB(open)(uint8_t* p, uint32_t flags, ...) {
  (void)flags;
  open_calls++;
  ASSERT(p[0] == 'p' && p[1] == 0, "open receives the given path");
  if (open_fails) return (uint32_t)-1;
  return fresh_fd();
}
uint32_t STUB(close)(uint32_t fd) {
  int ok = (int32_t)fd >= FD0 && (int32_t)fd < FD0 + handed;
  ASSERT(ok, "close is only called on a descriptor that was handed out");
  if (ok) {
    for (int k = 0; k < MAXFD; k++) if (k == (int)fd - FD0) {
      ASSERT(closed[k] == 0, "no descriptor is closed twice");
      closed[k]++;
    }
  }
  return 0;
}

void harness(void) {
  uint8_t* h[2] = {0, 0};
  int64_t own[2] = {-1, -1}; /* model: descriptor owned by the object in each slot */
  int exp_closed[MAXFD + 1];
  for (int k = 0; k <= MAXFD; k++) exp_closed[k] = 0;
#define MODEL_CLOSE(s) do { if (own[s] >= 0) { for (int k_ = 0; k_ < MAXFD; k_++) if (k_ == own[s] - FD0) exp_closed[k_]++; own[s] = -1; } } while (0)
  for (int step = 0; step < NOPS; step++) {
    uint32_t op = (uint32_t)in_range(0, 9);
    uint32_t s = in_bool(), o = 1 - s;
    open_fails = in_bool();
    open_calls = 0;
    int64_t code = 0;
    if (op <= 3) { /* constructions need an empty slot */
      ASSUME(h[s] == 0);
      if (op == 0) { h[s] = w_sfd_new(); own[s] = -1; }
      else if (op == 1) { uint32_t fd = fresh_fd(); h[s] = w_sfd_new_fd(fd); own[s] = fd; }
      else if (op == 2) {
        h[s] = w_sfd_new_open(path, &code);
        ASSERT(open_calls == 1, "the opening constructor calls ::open once");
        if (open_fails) { ASSERT(h[s] == 0 && code == W_CANNOT_OPEN, "failed open => cannot_open_file"); own[s] = -1; }
        else { ASSERT(h[s] != 0, "successful open => object"); own[s] = FD0 + handed - 1; }
      } else { ASSUME(h[o] != 0); h[s] = w_sfd_new_move(h[o]); own[s] = own[o]; own[o] = -1; }
    } else {
      ASSUME(h[s] != 0);
      if (op == 4) { ASSUME(h[o] != 0); w_sfd_move_assign(h[s], h[o]); MODEL_CLOSE(s); own[s] = own[o]; own[o] = -1; }
      else if (op == 5) { uint32_t fd = fresh_fd(); w_sfd_assign_fd(h[s], fd); MODEL_CLOSE(s); own[s] = fd; }
      else if (op == 6 || op == 7) {
        int64_t r = w_sfd_open(h[s], path, op == 7);
        MODEL_CLOSE(s);
        ASSERT(open_calls == 1, "open() calls ::open once");
        if (open_fails) ASSERT(r == W_CANNOT_OPEN, "failed open => cannot_open_file");
        else { ASSERT(r == 0, "successful open"); own[s] = FD0 + handed - 1; }
      } else if (op == 8) { w_sfd_close(h[s]); MODEL_CLOSE(s); }
      else { w_sfd_delete(h[s]); h[s] = 0; MODEL_CLOSE(s); }
    }
    for (int i = 0; i < 2; i++) if (h[i]) {
      ASSERT(w_sfd_get(h[i]) == own[i], "the object holds the descriptor the ownership model says it owns");
      ASSERT(w_sfd_is_open(h[i]) == (own[i] >= 0), "is_open() iff a descriptor is owned");
    }
    for (int k = 0; k < MAXFD; k++) ASSERT(closed[k] == exp_closed[k], "descriptors are closed exactly when ownership ends");
  }
  for (int i = 0; i < 2; i++) if (h[i]) { w_sfd_delete(h[i]); h[i] = 0; }
  for (int k = 0; k < MAXFD; k++) if (k < handed) ASSERT(closed[k] == 1, "every descriptor handed out is closed exactly once");
}
