/* C14: list_directory / list_directory_sorted return exactly the entry names present.
 * Environment = a harness-owned directory "d" behind opendir/readdir/closedir stubs (POSIX contracts):
 *   opendir(path)  : NULL + errno when the solver says so, else the one stream object
 *   readdir(dir)   : the next entry, NULL at the end (and on every later call). Every entry is returned in THE SAME static
 *                    struct dirent, overwritten by the next call (POSIX allows that), d_name NUL-terminated with symbolic
 *                    garbage after the NUL
 *   closedir(dir)  : closes the stream; any use of a closed stream is a model assertion
 * The directory holds N (cell, 0..3) entries with symbolic names of 1..NMAX bytes (any byte except NUL and '/', pairwise
 * distinct, none equal to "." or ".."; names such as ".a", "..a", "..." ARE possible and must be listed) plus "." and ".." at
 * solver-chosen positions of the stream (cell NODOTS: a file system that does not report them).
 * Oracle: opendir fails => cannot_open_file and neither readdir nor closedir is called. Otherwise the result has exactly N
 * elements, every name present occurs in it, "." and ".." do not (phosg skips exactly these two: Filesystem.cc `continue`),
 * closedir was called exactly once and after the last readdir; SORTED form: additionally ascending by unsigned bytes. */
#include "harness.h"
int64_t w_list_directory(uint8_t* path, uint8_t* out, uint64_t nrec, uint64_t rec);
int64_t w_list_directory_sorted(uint8_t* path, uint8_t* out, uint64_t nrec, uint64_t rec);
#ifdef VERIF_NATIVE_REAL
#include <errno.h>
#define ERRNO errno
#else
uint8_t* X___errno_location(void);
#define ERRNO (*(int32_t*)X___errno_location())
#endif
#define W_CANNOT_OPEN (-21)
#ifndef NMAX
#define NMAX 2            /* 2 or 3 */
#endif
#ifdef NODOTS
#define NENT (N)
#else
#define NENT (N + 2)
#endif
#define REC (NMAX + 2)       /* wrapper output record: length byte + NMAX + 1 name bytes */

static uint8_t path[2] = {'d', 0};
static uint8_t names[N + 1][NMAX + 1];   /* the N real entries (C strings) */
static uint8_t ent[NENT + 1][NMAX + 1];  /* the stream: names plus "." and ".." */
static uint8_t junk[NMAX + 1];
static uint8_t dir_obj[8];               /* the DIR */
static uint8_t de[280];                  /* struct dirent, x86-64: d_name at offset 19, 256 bytes */
static int opendir_fails, dir_open, pos, n_opendir, n_readdir, n_closedir, readdir_after_end;

uint8_t* STUB(opendir)(uint8_t* p) {
  ASSERT(p[0] == 'd' && p[1] == 0, "opendir receives the given path");
  n_opendir++;
  if (opendir_fails) { ERRNO = 2; return 0; }
  ASSERT(!dir_open, "one stream at a time");
  dir_open = 1; pos = 0;
  return dir_obj;
}
uint8_t* STUB(readdir)(uint8_t* d) {
  ASSERT(d == dir_obj && dir_open, "readdir on the open stream");
  n_readdir++;
  ASSERT(n_readdir <= NENT + 2, "BOUND: number of readdir() calls"); ASSUME(n_readdir <= NENT + 2);
  if (pos >= NENT) { readdir_after_end++; return 0; }
  for (int k = 0; k < NENT; k++) if (k == pos) {
    int z = 0;
    for (int i = 0; i <= NMAX; i++) { de[19 + i] = z ? junk[i] : ent[k][i]; if (!ent[k][i]) z = 1; }
  }
  pos++;
  return de;
}
uint32_t STUB(closedir)(uint8_t* d) {
  ASSERT(d == dir_obj && dir_open, "closedir on the open stream (no double close)");
  n_closedir++;
  dir_open = 0;
  return 0;
}

static int name_eq(const uint8_t* a, const uint8_t* b) {   /* C-string equality within NMAX + 1 bytes */
  int eq = 1, live = 1;
  for (int i = 0; i <= NMAX; i++) if (live) { if (a[i] != b[i]) { eq = 0; live = 0; } else if (!a[i]) live = 0; }
  return eq;
}
static const uint8_t DOT[4] = {'.', 0, 0, 0}, DOTDOT[4] = {'.', '.', 0, 0};

void harness(void) {
  uint8_t out[(N + 3) * REC];
  for (int k = 0; k < N; k++) {
    in_bytes(names[k], NMAX);
    names[k][NMAX] = 0;
    ASSUME(names[k][0] != 0);
    for (int i = 0; i < NMAX; i++) ASSUME(names[k][i] != '/');
    ASSUME(!name_eq(names[k], DOT) && !name_eq(names[k], DOTDOT));
    for (int j = 0; j < N; j++) if (j < k) ASSUME(!name_eq(names[k], names[j]));
  }
  in_bytes(junk, NMAX + 1);
  /* the stream: "." at position pd, ".." at position pdd, the names in between in index order (they are symbolic, so
   * every order of distinct names is covered) */
#ifndef NODOTS
  int pd = (int)in_range(0, NENT - 1), pdd = (int)in_range(0, NENT - 1);
  ASSUME(pd != pdd);
  int nx = 0;
  for (int k = 0; k < NENT; k++) {
    if (k == pd) memcpy(ent[k], DOT, NMAX + 1);
    else if (k == pdd) memcpy(ent[k], DOTDOT, NMAX + 1);
    else { for (int j = 0; j < N; j++) if (j == nx) memcpy(ent[k], names[j], NMAX + 1); nx++; }
  }
#else
  for (int k = 0; k < N; k++) memcpy(ent[k], names[k], NMAX + 1);
#endif
  opendir_fails = in_bool();
  memset(out, 0xEE, sizeof(out));
#ifdef SORTED
  int64_t r = w_list_directory_sorted(path, out, N + 3, REC);
#else
  int64_t r = w_list_directory(path, out, N + 3, REC);
#endif
  OBS(r);
  ASSERT(n_opendir == 1, "opendir is called once");
  if (opendir_fails) {
    ASSERT(r == W_CANNOT_OPEN, "opendir fails => cannot_open_file");
    ASSERT(n_readdir == 0 && n_closedir == 0, "no readdir / closedir on a stream that was never opened");
  } else {
    ASSERT(n_closedir == 1 && !dir_open, "closedir is called exactly once");
    ASSERT(readdir_after_end == 1, "the stream is read to its end");
    ASSERT(r == N, "the result has exactly as many elements as the directory has entries (without . and ..)");
    if (r == N) {
      for (int j = 0; j < N; j++) {       /* every name present is in the result (with r == N and distinct names: a bijection) */
        int found = 0;
        for (int k = 0; k < N; k++) {
          uint8_t rec[NMAX + 2];
          memcpy(rec, out + k * REC, REC);  /* CBMC 6.11: never pass arr[symbolic].member to a function */
          uint64_t len = 0;
          for (int i = 0; i < NMAX; i++) if (names[j][i] && len == (uint64_t)i) len = i + 1;
          if (rec[0] == len && name_eq(rec + 1, names[j])) found = 1;
        }
        ASSERT(found, "every entry name present is returned, with its exact length and bytes");
      }
#ifdef SORTED
      for (int k = 0; k + 1 < N; k++) {
        int lt = 0, live = 1;
        for (int i = 0; i <= NMAX; i++) if (live) { uint8_t a = out[k * REC + 1 + i], b = out[(k + 1) * REC + 1 + i]; if (a != b) { lt = a < b; live = 0; } }
        ASSERT(lt, "list_directory_sorted: strictly ascending (unsigned byte order)");
      }
#endif
    }
  }
}
