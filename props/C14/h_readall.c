/* C14: read_all(int fd) returns exactly the bytes the source delivers, however delivery is chunked, or throws.
 * The OS is a read() stub over a source of S symbolic bytes (S = cell): every call delivers a solver-chosen number of
 * bytes in 1..min(requested, remaining) (a pipe/socket may return any such short count), 0 at end of data (and again on
 * every later call), or - when the solver picks a fault at that call - fails with -1.
 * The unit is built with read_all's internal block size (16 KiB in the source) replaced by RS bytes (spec: src_subst), so
 * that S below, at and above one and two blocks is within reach; read() must never be asked for more than RS bytes.
 * Oracle: no fault => the result is the whole source (length S, same bytes); fault => io_error. Never a short result. */
#include "harness.h"
#ifndef VERIF_NATIVE_REAL
/* generated C only (spec: the read_all units cut this constructor): it only builds the what() text
 * "io error on fd N: <errno text>"; with it encoded every copy loop needs ~20 more unwindings (x every buffer of the
 * result-joining loop: 142k steps / 13 GB at S=0). The throw itself and the exception type are encoded. */
void X__ZN5phosg8io_errorC1Ei(uint8_t* self, uint32_t fd) { (void)self; (void)fd; }
#endif
int64_t w_read_all_fd(uint32_t fd, uint8_t* out, uint64_t cap);

#define W_IO_ERROR (-20)
#define FD 5
#define MAXCALLS (S + 2)
static uint8_t src[S + 1];
static uint64_t pos;
static int calls, faulted;
static uint64_t plan[MAXCALLS + 1];   /* bytes to deliver at call j (clamped to what is possible) */
static uint8_t fault[MAXCALLS + 1];   /* call j fails */

uint64_t STUB(read)(uint32_t fd, uint8_t* buf, uint64_t n) {
  ASSERT(fd == FD, "read on the given descriptor");
  ASSERT(n >= 1 && n <= RS, "read is asked for 1..block-size bytes");
  ASSERT(calls < MAXCALLS, "BOUND: number of read() calls"); /* reported as a failed bound, never silently cut */
  ASSUME(calls < MAXCALLS);
  int j = calls;
  calls++;
  if (fault[j]) { faulted = 1; return (uint64_t)-1; }
  uint64_t rem = S - pos;
  uint64_t k = plan[j];
  if (k > rem) k = rem;
  if (k > n) k = n;
  for (uint64_t i = 0; i < S; i++) if (i < k) buf[i] = src[pos + i];
  pos += k;
  return k;
}

void harness(void) {
  uint8_t out[S + 1];
  in_bytes(src, S);
  for (int j = 0; j <= MAXCALLS; j++) { plan[j] = in_range(1, S ? S : 1); fault[j] = in_bool(); }
#ifdef NO_FAULTS
  for (int j = 0; j <= MAXCALLS; j++) ASSUME(!fault[j]);
#endif
  int64_t r = w_read_all_fd(FD, out, sizeof(out));
  OBS(r);
  if (faulted) ASSERT(r == W_IO_ERROR, "a failing read() => io_error");
  else {
    ASSERT(r == S, "read_all returns as many bytes as the source delivers (no truncation on short reads)");
    if (r == S) for (int i = 0; i < S; i++) ASSERT(out[i] == src[i], "read_all returns the bytes of the source in order");
  }
}
