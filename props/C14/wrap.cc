// C14 wrappers: file/stream helpers of Filesystem.cc (read_all, fgets, read/readx families, basename/dirname, Poll,
// scoped_fd). Wrappers only adapt types and translate exceptions to codes. FILE* travels as an opaque pointer: the
// stdio functions phosg calls on it (fread/fgets/feof/fileno/fwrite) are environment stubs in the harness.
#include "wrap.hh"
#include <algorithm>
#include <deque>
#include <functional>
#include <memory>
#include <string>
#include <unordered_map>
#include <unordered_set>
#include <utility>
#include <vector>
#include <poll.h>
#include <stdio.h>
// Poll::poll_fds and scoped_fd::fd are private; the harness inspects them (README: allowed).
#define private public
#include "Filesystem.hh"
#undef private
#include "Filesystem.cc"
#include "Strings.cc"
using namespace phosg;

#define W_IO_ERROR (-20)
#define W_CANNOT_OPEN (-21)
#define FS_CATCH                                               \
  catch (const phosg::io_error&) { return W_IO_ERROR; }          \
  catch (const phosg::cannot_open_file&) { return W_CANNOT_OPEN; } \
  W_CATCH_ALL

static inline std::string w_str(const uint8_t* p, size_t n) { return std::string(reinterpret_cast<const char*>(p), n); }

// ---- paths
WEXPORT int64_t w_basename(const uint8_t* p, size_t n, uint8_t* out, size_t cap) {
  try { return w_copy_out(phosg::basename(w_str(p, n)), out, cap); }
  FS_CATCH
}
WEXPORT int64_t w_dirname(const uint8_t* p, size_t n, uint8_t* out, size_t cap) {
  try { return w_copy_out(phosg::dirname(w_str(p, n)), out, cap); }
  FS_CATCH
}

// ---- read to end
WEXPORT int64_t w_read_all_fd(int fd, uint8_t* out, size_t cap) {
  try { return w_copy_out(phosg::read_all(fd), out, cap); }
  FS_CATCH
}
WEXPORT int64_t w_read_all_file(uint8_t* f, uint8_t* out, size_t cap) {
  try { return w_copy_out(phosg::read_all(reinterpret_cast<FILE*>(f)), out, cap); }
  FS_CATCH
}
// length-only variants for the multi-block cells (result bytes are inspected at a few positions by the harness)
WEXPORT int64_t w_read_all_fd_at(int fd, const uint64_t* pos, size_t npos, uint8_t* out) {
  try {
    std::string r = phosg::read_all(fd);
    for (size_t i = 0; i < npos; i++) out[i] = (pos[i] < r.size()) ? static_cast<uint8_t>(r[pos[i]]) : 0;
    return static_cast<int64_t>(r.size());
  }
  FS_CATCH
}
WEXPORT int64_t w_read_all_file_at(uint8_t* f, const uint64_t* pos, size_t npos, uint8_t* out) {
  try {
    std::string r = phosg::read_all(reinterpret_cast<FILE*>(f));
    for (size_t i = 0; i < npos; i++) out[i] = (pos[i] < r.size()) ? static_cast<uint8_t>(r[pos[i]]) : 0;
    return static_cast<int64_t>(r.size());
  }
  FS_CATCH
}
WEXPORT int64_t w_fgets(uint8_t* f, uint8_t* out, size_t cap) {
  try { return w_copy_out(phosg::fgets(reinterpret_cast<FILE*>(f)), out, cap); }
  FS_CATCH
}

// ---- single read (may be short by design) and the exact-size families
WEXPORT int64_t w_read(int fd, size_t size, uint8_t* out, size_t cap) {
  try { return w_copy_out(phosg::read(fd, size), out, cap); }
  FS_CATCH
}
WEXPORT int64_t w_fread(uint8_t* f, size_t size, uint8_t* out, size_t cap) {
  try { return w_copy_out(phosg::fread(reinterpret_cast<FILE*>(f), size), out, cap); }
  FS_CATCH
}
WEXPORT int64_t w_readx(int fd, uint8_t* data, size_t size) {
  try { phosg::readx(fd, data, size); return 0; }
  FS_CATCH
}
WEXPORT int64_t w_readx_str(int fd, size_t size, uint8_t* out, size_t cap) {
  try { return w_copy_out(phosg::readx(fd, size), out, cap); }
  FS_CATCH
}
WEXPORT int64_t w_writex(int fd, const uint8_t* data, size_t size) {
  try { phosg::writex(fd, data, size); return 0; }
  FS_CATCH
}
WEXPORT int64_t w_writex_str(int fd, const uint8_t* data, size_t size) {
  try { phosg::writex(fd, w_str(data, size)); return 0; }
  FS_CATCH
}
WEXPORT int64_t w_preadx(int fd, uint8_t* data, size_t size, int64_t offset) {
  try { phosg::preadx(fd, data, size, offset); return 0; }
  FS_CATCH
}
WEXPORT int64_t w_preadx_str(int fd, size_t size, int64_t offset, uint8_t* out, size_t cap) {
  try { return w_copy_out(phosg::preadx(fd, size, offset), out, cap); }
  FS_CATCH
}
WEXPORT int64_t w_pwritex(int fd, const uint8_t* data, size_t size, int64_t offset) {
  try { phosg::pwritex(fd, data, size, offset); return 0; }
  FS_CATCH
}
WEXPORT int64_t w_freadx(uint8_t* f, uint8_t* data, size_t size) {
  try { phosg::freadx(reinterpret_cast<FILE*>(f), data, size); return 0; }
  FS_CATCH
}
WEXPORT int64_t w_freadx_str(uint8_t* f, size_t size, uint8_t* out, size_t cap) {
  try { return w_copy_out(phosg::freadx(reinterpret_cast<FILE*>(f), size), out, cap); }
  FS_CATCH
}
WEXPORT int64_t w_fwritex(uint8_t* f, const uint8_t* data, size_t size) {
  try { phosg::fwritex(reinterpret_cast<FILE*>(f), data, size); return 0; }
  FS_CATCH
}

// ---- Poll (handle = heap object)
WEXPORT uint8_t* w_poll_new() { return reinterpret_cast<uint8_t*>(new Poll()); }
WEXPORT void w_poll_delete(uint8_t* h) { delete reinterpret_cast<Poll*>(h); }
WEXPORT int64_t w_poll_add(uint8_t* h, int fd, int events) {
  try { reinterpret_cast<Poll*>(h)->add(fd, static_cast<short>(events)); return 0; }
  FS_CATCH
}
WEXPORT int64_t w_poll_remove(uint8_t* h, int fd, int close_fd) {
  try { reinterpret_cast<Poll*>(h)->remove(fd, close_fd != 0); return 0; }
  FS_CATCH
}
WEXPORT int64_t w_poll_empty(uint8_t* h) { return reinterpret_cast<Poll*>(h)->empty() ? 1 : 0; }
WEXPORT int64_t w_poll_count(uint8_t* h) { return static_cast<int64_t>(reinterpret_cast<Poll*>(h)->poll_fds.size()); }
WEXPORT int64_t w_poll_fd_at(uint8_t* h, size_t i) { return reinterpret_cast<Poll*>(h)->poll_fds[i].fd; }
WEXPORT int64_t w_poll_events_at(uint8_t* h, size_t i) { return reinterpret_cast<Poll*>(h)->poll_fds[i].events; }

// ---- scoped_fd (handle = heap object)
WEXPORT uint8_t* w_sfd_new() { return reinterpret_cast<uint8_t*>(new scoped_fd()); }
WEXPORT uint8_t* w_sfd_new_fd(int fd) { return reinterpret_cast<uint8_t*>(new scoped_fd(fd)); }
WEXPORT uint8_t* w_sfd_new_open(const uint8_t* path, int64_t* code) {  // nullptr + code when the constructor throws
  *code = 0;
  try { return reinterpret_cast<uint8_t*>(new scoped_fd(reinterpret_cast<const char*>(path), O_RDONLY)); }
  catch (const phosg::cannot_open_file&) { *code = W_CANNOT_OPEN; }
  catch (...) { *code = W_UNKNOWN_EXCEPTION; }
  return nullptr;
}
WEXPORT uint8_t* w_sfd_new_move(uint8_t* from) { return reinterpret_cast<uint8_t*>(new scoped_fd(std::move(*reinterpret_cast<scoped_fd*>(from)))); }
WEXPORT void w_sfd_delete(uint8_t* h) { delete reinterpret_cast<scoped_fd*>(h); }
WEXPORT void w_sfd_move_assign(uint8_t* to, uint8_t* from) { *reinterpret_cast<scoped_fd*>(to) = std::move(*reinterpret_cast<scoped_fd*>(from)); }
WEXPORT void w_sfd_assign_fd(uint8_t* to, int fd) { *reinterpret_cast<scoped_fd*>(to) = fd; }
WEXPORT int64_t w_sfd_open(uint8_t* h, const uint8_t* path, int as_string) {
  try {
    if (as_string) reinterpret_cast<scoped_fd*>(h)->open(std::string(reinterpret_cast<const char*>(path)), O_RDONLY);
    else reinterpret_cast<scoped_fd*>(h)->open(reinterpret_cast<const char*>(path), O_RDONLY);
    return 0;
  }
  FS_CATCH
}
WEXPORT void w_sfd_close(uint8_t* h) { reinterpret_cast<scoped_fd*>(h)->close(); }
WEXPORT int64_t w_sfd_get(uint8_t* h) { return static_cast<int>(*reinterpret_cast<scoped_fd*>(h)); }
WEXPORT int64_t w_sfd_is_open(uint8_t* h) { return reinterpret_cast<scoped_fd*>(h)->is_open() ? 1 : 0; }
