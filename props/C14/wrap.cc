// C14 wrappers: file/stream helpers of Filesystem.cc (read_all, fgets, read/readx families, basename/dirname, Poll,
// scoped_fd). Wrappers only adapt types and translate exceptions to codes. FILE* travels as an opaque pointer: the
// stdio functions phosg calls on it (fread/fgets/feof/fileno/fwrite) are environment stubs in the harness.
#include "wrap.hh"
#include <algorithm>
#include <deque>
#include <functional>
#include <memory>
#include <string>
#include <unordered_map>
#include <unordered_set>
#include <utility>
#include <vector>
#include <poll.h>
#include <stdio.h>
// Poll::poll_fds and scoped_fd::fd are private; the harness inspects them (README: allowed).
#define private public
#include "Filesystem.hh"
#undef private
#include "Filesystem.cc"
#include "Strings.cc"
using namespace phosg;

#define W_IO_ERROR (-20)
#define W_CANNOT_OPEN (-21)
#define FS_CATCH                                               \
  catch (const phosg::io_error&) { return W_IO_ERROR; }          \
  catch (const phosg::cannot_open_file&) { return W_CANNOT_OPEN; } \
  W_CATCH_ALL

static inline std::string w_str(const uint8_t* p, size_t n) { return std::string(reinterpret_cast<const char*>(p), n); }

// ---- paths
WEXPORT int64_t w_basename(const uint8_t* p, size_t n, uint8_t* out, size_t cap) {
  try { return w_copy_out(phosg::basename(w_str(p, n)), out, cap); }
  FS_CATCH
}
WEXPORT int64_t w_dirname(const uint8_t* p, size_t n, uint8_t* out, size_t cap) {
  try { return w_copy_out(phosg::dirname(w_str(p, n)), out, cap); }
  FS_CATCH
}

// ---- read to end
WEXPORT int64_t w_read_all_fd(int fd, uint8_t* out, size_t cap) {
  try { return w_copy_out(phosg::read_all(fd), out, cap); }
  FS_CATCH
}
WEXPORT int64_t w_read_all_file(uint8_t* f, uint8_t* out, size_t cap) {
  try { return w_copy_out(phosg::read_all(reinterpret_cast<FILE*>(f)), out, cap); }
  FS_CATCH
}
// length-only variants for the multi-block cells (result bytes are inspected at a few positions by the harness)
WEXPORT int64_t w_read_all_fd_at(int fd, const uint64_t* pos, size_t npos, uint8_t* out) {
  try {
    std::string r = phosg::read_all(fd);
    for (size_t i = 0; i < npos; i++) out[i] = (pos[i] < r.size()) ? static_cast<uint8_t>(r[pos[i]]) : 0;
    return static_cast<int64_t>(r.size());
  }
  FS_CATCH
}
WEXPORT int64_t w_read_all_file_at(uint8_t* f, const uint64_t* pos, size_t npos, uint8_t* out) {
  try {
    std::string r = phosg::read_all(reinterpret_cast<FILE*>(f));
    for (size_t i = 0; i < npos; i++) out[i] = (pos[i] < r.size()) ? static_cast<uint8_t>(r[pos[i]]) : 0;
    return static_cast<int64_t>(r.size());
  }
  FS_CATCH
}
WEXPORT int64_t w_fgets(uint8_t* f, uint8_t* out, size_t cap) {
  try { return w_copy_out(phosg::fgets(reinterpret_cast<FILE*>(f)), out, cap); }
  FS_CATCH
}

// ---- single read (may be short by design) and the exact-size families
WEXPORT int64_t w_read(int fd, size_t size, uint8_t* out, size_t cap) {
  try { return w_copy_out(phosg::read(fd, size), out, cap); }
  FS_CATCH
}
WEXPORT int64_t w_fread(uint8_t* f, size_t size, uint8_t* out, size_t cap) {
  try { return w_copy_out(phosg::fread(reinterpret_cast<FILE*>(f), size), out, cap); }
  FS_CATCH
}
WEXPORT int64_t w_readx(int fd, uint8_t* data, size_t size) {
  try { phosg::readx(fd, data, size); return 0; }
  FS_CATCH
}
WEXPORT int64_t w_readx_str(int fd, size_t size, uint8_t* out, size_t cap) {
  try { return w_copy_out(phosg::readx(fd, size), out, cap); }
  FS_CATCH
}
WEXPORT int64_t w_writex(int fd, const uint8_t* data, size_t size) {
  try { phosg::writex(fd, data, size); return 0; }
  FS_CATCH
}
WEXPORT int64_t w_writex_str(int fd, const uint8_t* data, size_t size) {
  try { phosg::writex(fd, w_str(data, size)); return 0; }
  FS_CATCH
}
WEXPORT int64_t w_preadx(int fd, uint8_t* data, size_t size, int64_t offset) {
  try { phosg::preadx(fd, data, size, offset); return 0; }
  FS_CATCH
}
WEXPORT int64_t w_preadx_str(int fd, size_t size, int64_t offset, uint8_t* out, size_t cap) {
  try { return w_copy_out(phosg::preadx(fd, size, offset), out, cap); }
  FS_CATCH
}
WEXPORT int64_t w_pwritex(int fd, const uint8_t* data, size_t size, int64_t offset) {
  try { phosg::pwritex(fd, data, size, offset); return 0; }
  FS_CATCH
}
WEXPORT int64_t w_freadx(uint8_t* f, uint8_t* data, size_t size) {
  try { phosg::freadx(reinterpret_cast<FILE*>(f), data, size); return 0; }
  FS_CATCH
}
WEXPORT int64_t w_freadx_str(uint8_t* f, size_t size, uint8_t* out, size_t cap) {
  try { return w_copy_out(phosg::freadx(reinterpret_cast<FILE*>(f), size), out, cap); }
  FS_CATCH
}
WEXPORT int64_t w_fwritex(uint8_t* f, const uint8_t* data, size_t size) {
  try { phosg::fwritex(reinterpret_cast<FILE*>(f), data, size); return 0; }
  FS_CATCH
}

// ---- Poll (handle = heap object)
WEXPORT uint8_t* w_poll_new() { return reinterpret_cast<uint8_t*>(new Poll()); }
WEXPORT void w_poll_delete(uint8_t* h) { delete reinterpret_cast<Poll*>(h); }
WEXPORT int64_t w_poll_add(uint8_t* h, int fd, int events) {
  try { reinterpret_cast<Poll*>(h)->add(fd, static_cast<short>(events)); return 0; }
  FS_CATCH
}
WEXPORT int64_t w_poll_remove(uint8_t* h, int fd, int close_fd) {
  try { reinterpret_cast<Poll*>(h)->remove(fd, close_fd != 0); return 0; }
  FS_CATCH
}
WEXPORT int64_t w_poll_empty(uint8_t* h) { return reinterpret_cast<Poll*>(h)->empty() ? 1 : 0; }
WEXPORT int64_t w_poll_count(uint8_t* h) { return static_cast<int64_t>(reinterpret_cast<Poll*>(h)->poll_fds.size()); }
WEXPORT int64_t w_poll_fd_at(uint8_t* h, size_t i) { return reinterpret_cast<Poll*>(h)->poll_fds[i].fd; }
WEXPORT int64_t w_poll_events_at(uint8_t* h, size_t i) { return reinterpret_cast<Poll*>(h)->poll_fds[i].events; }

// ---- scoped_fd (handle = heap object)
WEXPORT uint8_t* w_sfd_new() { return reinterpret_cast<uint8_t*>(new scoped_fd()); }
WEXPORT uint8_t* w_sfd_new_fd(int fd) { return reinterpret_cast<uint8_t*>(new scoped_fd(fd)); }
WEXPORT uint8_t* w_sfd_new_open(const uint8_t* path, int64_t* code) {  // nullptr + code when the constructor throws
  *code = 0;
  try { return reinterpret_cast<uint8_t*>(new scoped_fd(reinterpret_cast<const char*>(path), O_RDONLY)); }
  catch (const phosg::cannot_open_file&) { *code = W_CANNOT_OPEN; }
  catch (...) { *code = W_UNKNOWN_EXCEPTION; }
  return nullptr;
}
WEXPORT uint8_t* w_sfd_new_move(uint8_t* from) { return reinterpret_cast<uint8_t*>(new scoped_fd(std::move(*reinterpret_cast<scoped_fd*>(from)))); }
WEXPORT void w_sfd_delete(uint8_t* h) { delete reinterpret_cast<scoped_fd*>(h); }
WEXPORT void w_sfd_move_assign(uint8_t* to, uint8_t* from) { *reinterpret_cast<scoped_fd*>(to) = std::move(*reinterpret_cast<scoped_fd*>(from)); }
WEXPORT void w_sfd_assign_fd(uint8_t* to, int fd) { *reinterpret_cast<scoped_fd*>(to) = fd; }
WEXPORT int64_t w_sfd_open(uint8_t* h, const uint8_t* path, int as_string) {
  try {
    if (as_string) reinterpret_cast<scoped_fd*>(h)->open(std::string(reinterpret_cast<const char*>(path)), O_RDONLY);
    else reinterpret_cast<scoped_fd*>(h)->open(reinterpret_cast<const char*>(path), O_RDONLY);
    return 0;
  }
  FS_CATCH
}
WEXPORT void w_sfd_close(uint8_t* h) { reinterpret_cast<scoped_fd*>(h)->close(); }
WEXPORT int64_t w_sfd_get(uint8_t* h) { return static_cast<int>(*reinterpret_cast<scoped_fd*>(h)); }
WEXPORT int64_t w_sfd_is_open(uint8_t* h) { return reinterpret_cast<scoped_fd*>(h)->is_open() ? 1 : 0; }

// ---- whole files, directories, trees (harnesses h_file.c, h_lsdir.c, h_rmtree.c, h_ftype.c). Paths arrive as C strings.
#define W_CANNOT_STAT (-22)
#define FS2_CATCH                                                \
  catch (const phosg::cannot_stat_file&) { return W_CANNOT_STAT; } \
  FS_CATCH
static inline std::string w_cstr(const uint8_t* p) { return std::string(reinterpret_cast<const char*>(p)); }

WEXPORT int64_t w_save_file(const uint8_t* path, const uint8_t* data, size_t n, int as_string) {
  try {
    if (as_string) phosg::save_file(w_cstr(path), w_str(data, n));
    else phosg::save_file(w_cstr(path), static_cast<const void*>(data), n);
    return 0;
  }
  FS2_CATCH
}
WEXPORT int64_t w_load_file(const uint8_t* path, uint8_t* out, size_t cap) {
  try { return w_copy_out(phosg::load_file(w_cstr(path)), out, cap); }
  FS2_CATCH
}
// names are returned as records of `rec` bytes: {length, first rec-1 bytes}; return value = number of names
template <typename C>
static inline int64_t w_names_out(const C& names, uint8_t* out, size_t nrec, size_t rec) {
  size_t k = 0;
  for (const std::string& s : names) {
    if (k < nrec) {
      out[k * rec] = static_cast<uint8_t>(s.size() < 255 ? s.size() : 255);
      for (size_t i = 0; i + 1 < rec; i++) out[k * rec + 1 + i] = (i < s.size()) ? static_cast<uint8_t>(s[i]) : 0;
    }
    k++;
  }
  return static_cast<int64_t>(k);
}
WEXPORT int64_t w_list_directory(const uint8_t* path, uint8_t* out, size_t nrec, size_t rec) {
  try { return w_names_out(phosg::list_directory(w_cstr(path)), out, nrec, rec); }
  FS2_CATCH
}
WEXPORT int64_t w_list_directory_sorted(const uint8_t* path, uint8_t* out, size_t nrec, size_t rec) {
  try { return w_names_out(phosg::list_directory_sorted(w_cstr(path)), out, nrec, rec); }
  FS2_CATCH
}
WEXPORT int64_t w_unlink(const uint8_t* path, int recursive) {
  try { phosg::unlink(w_cstr(path), recursive != 0); return 0; }
  FS2_CATCH
}
// 0 isfile 1 isdir 2 lisfile 3 lisdir 4 islink (path forms: a failing stat means "no"); 5 stat 6 lstat 7 fstat(fd = path[0]):
// out[0] = st_mode, out[1] = st_size, cannot_stat_file when the call fails
WEXPORT int64_t w_ftype(const uint8_t* path, int which, uint64_t* out) {
  try {
    switch (which) {
      case 0: return phosg::isfile(w_cstr(path)) ? 1 : 0;
      case 1: return phosg::isdir(w_cstr(path)) ? 1 : 0;
      case 2: return phosg::lisfile(w_cstr(path)) ? 1 : 0;
      case 3: return phosg::lisdir(w_cstr(path)) ? 1 : 0;
      case 4: return phosg::islink(w_cstr(path)) ? 1 : 0;
      default: {
        struct stat st = (which == 5) ? phosg::stat(w_cstr(path)) : (which == 6) ? phosg::lstat(w_cstr(path)) : phosg::fstat(static_cast<int>(path[0]));
        out[0] = st.st_mode; out[1] = static_cast<uint64_t>(st.st_size);
        return (phosg::isfile(st) ? 1 : 0) | (phosg::isdir(st) ? 2 : 0) | (phosg::islink(st) ? 4 : 0);
      }
    }
  }
  FS2_CATCH
}
