/* C14: single-call read/write helpers. SIZE = requested byte count (cell), WHICH selects the function.
 * The OS call is a stub that returns a nondeterministic count in [-1, SIZE] (fread/fwrite: [0, SIZE]) and, for reads,
 * delivers that many bytes of a symbolic source. Exact-size families (readx/writex/preadx/pwritex/freadx/fwritex):
 * succeed iff the OS moved exactly SIZE bytes, otherwise io_error - never a short result. read()/fread() (short by design):
 * return exactly the delivered bytes, io_error iff the OS call failed. */
#include "harness.h"
#include "env_msg.h"
int64_t w_read(uint32_t fd, uint64_t size, uint8_t* out, uint64_t cap);
int64_t w_fread(uint8_t* f, uint64_t size, uint8_t* out, uint64_t cap);
int64_t w_readx(uint32_t fd, uint8_t* data, uint64_t size);
int64_t w_readx_str(uint32_t fd, uint64_t size, uint8_t* out, uint64_t cap);
int64_t w_writex(uint32_t fd, uint8_t* data, uint64_t size);
int64_t w_writex_str(uint32_t fd, uint8_t* data, uint64_t size);
int64_t w_preadx(uint32_t fd, uint8_t* data, uint64_t size, int64_t offset);
int64_t w_preadx_str(uint32_t fd, uint64_t size, int64_t offset, uint8_t* out, uint64_t cap);
int64_t w_pwritex(uint32_t fd, uint8_t* data, uint64_t size, int64_t offset);
int64_t w_freadx(uint8_t* f, uint8_t* data, uint64_t size);
int64_t w_freadx_str(uint8_t* f, uint64_t size, uint8_t* out, uint64_t cap);
int64_t w_fwritex(uint8_t* f, uint8_t* data, uint64_t size);

#define W_IO_ERROR (-20)
#define FD 7
static uint8_t file_obj[8]; /* opaque FILE */
static uint8_t src[SIZE + 1];   /* what the OS has to deliver */
static uint8_t sink[SIZE + 1];  /* what the OS accepted */
static int64_t os_ret;          /* the count the OS call returns (chosen by the solver) */
static int64_t the_offset;
static int calls;

static uint64_t do_read(uint8_t* buf, uint64_t n) {
  calls++;
  ASSERT(n == SIZE, "the OS call is asked for exactly the requested size");
  for (int64_t i = 0; i < SIZE; i++) if (i < os_ret) buf[i] = src[i]; /* constant loop bound: os_ret <= SIZE */
  return (uint64_t)os_ret;
}
static uint64_t do_write(uint8_t* buf, uint64_t n) {
  calls++;
  ASSERT(n == SIZE, "the OS call is asked for exactly the requested size");
  for (int64_t i = 0; i < SIZE; i++) if (i < os_ret) sink[i] = buf[i];
  return (uint64_t)os_ret;
}
uint64_t STUB(read)(uint32_t fd, uint8_t* buf, uint64_t n) { ASSERT(fd == FD, "read on the given fd"); return do_read(buf, n); }
uint64_t STUB(write)(uint32_t fd, uint8_t* buf, uint64_t n) { ASSERT(fd == FD, "write on the given fd"); return do_write(buf, n); }
uint64_t STUB(pread)(uint32_t fd, uint8_t* buf, uint64_t n, uint64_t off) { ASSERT(fd == FD && (int64_t)off == the_offset, "pread on the given fd/offset"); return do_read(buf, n); }
uint64_t STUB(pwrite)(uint32_t fd, uint8_t* buf, uint64_t n, uint64_t off) { ASSERT(fd == FD && (int64_t)off == the_offset, "pwrite on the given fd/offset"); return do_write(buf, n); }
uint64_t STUB(fread)(uint8_t* buf, uint64_t sz, uint64_t n, uint8_t* f) { ASSERT(f == file_obj && sz == 1, "fread(…, 1, n, f)"); return do_read(buf, n); }
uint64_t STUB(fwrite)(uint8_t* buf, uint64_t sz, uint64_t n, uint8_t* f) { ASSERT(f == file_obj && sz == 1, "fwrite(…, 1, n, f)"); return do_write(buf, n); }
uint32_t STUB(fileno)(uint8_t* f) { (void)f; return FD; }

#define IS_WRITE (WHICH == 2 || WHICH == 3 || WHICH == 6 || WHICH == 9)
#define IS_STDIO (WHICH == 7 || WHICH == 8 || WHICH == 9 || WHICH == 11)
void harness(void) {
  uint8_t out[SIZE + 1], data[SIZE + 1];
  in_bytes(src, SIZE);
  in_bytes(data, SIZE);
  os_ret = in_irange(IS_STDIO ? 0 : -1, SIZE);
  the_offset = in_irange(0, 1000);
  for (int i = 0; i <= SIZE; i++) out[i] = 0xEE;
  int64_t r;
#if WHICH == 0
  r = w_readx(FD, out, SIZE);
#elif WHICH == 1
  r = w_readx_str(FD, SIZE, out, sizeof(out));
#elif WHICH == 2
  r = w_writex(FD, data, SIZE);
#elif WHICH == 3
  r = w_writex_str(FD, data, SIZE);
#elif WHICH == 4
  r = w_preadx(FD, out, SIZE, the_offset);
#elif WHICH == 5
  r = w_preadx_str(FD, SIZE, the_offset, out, sizeof(out));
#elif WHICH == 6
  r = w_pwritex(FD, data, SIZE, the_offset);
#elif WHICH == 7
  r = w_freadx(file_obj, out, SIZE);
#elif WHICH == 8
  r = w_freadx_str(file_obj, SIZE, out, sizeof(out));
#elif WHICH == 9
  r = w_fwritex(file_obj, data, SIZE);
#elif WHICH == 10
  r = w_read(FD, SIZE, out, sizeof(out));
#elif WHICH == 11
  r = w_fread(file_obj, SIZE, out, sizeof(out));
#endif
  OBS(r);
  ASSERT(calls == 1, "exactly one OS call");
#if WHICH == 10 || WHICH == 11
  /* short by design: the delivered bytes, all of them, nothing else */
  if (os_ret < 0) ASSERT(r == W_IO_ERROR, "failed OS read => io_error");
  else {
    ASSERT(r == os_ret, "read()/fread() return exactly as many bytes as the OS delivered");
    if (r == os_ret) for (int64_t i = 0; i < SIZE; i++) if (i < os_ret) ASSERT(out[i] == src[i], "returned bytes are the delivered bytes");
  }
#else
  if (os_ret != SIZE) ASSERT(r == W_IO_ERROR, "short or failed OS transfer => io_error (never a silently short result)");
  else {
    ASSERT(r == ((WHICH == 1 || WHICH == 5 || WHICH == 8) ? SIZE : 0), "full OS transfer => success");
    if (!IS_WRITE && r >= 0) for (int i = 0; i < SIZE; i++) ASSERT(out[i] == src[i], "buffer holds exactly the delivered bytes");
    if (IS_WRITE && r >= 0) for (int i = 0; i < SIZE; i++) ASSERT(sink[i] == data[i], "the OS received exactly the caller's bytes");
  }
#endif
}
