/* C14: read_all(FILE*) returns the whole stream. fread is a stub obeying the C contract: it returns the full count unless
 * end of data is reached first (a short count from fread means EOF; stream errors are outside this harness), and 0 from
 * then on. Source: S symbolic bytes (cell). Built with the internal block size replaced by RS (spec: src_subst), so S
 * below / at / above one and two blocks exercises the block loop and the joining of blocks. */
#include "harness.h"
int64_t w_read_all_file(uint8_t* f, uint8_t* out, uint64_t cap);

#ifndef VERIF_NATIVE_REAL
void X__ZN5phosg8io_errorC1Ei(uint8_t* self, uint32_t fd) { (void)self; (void)fd; } /* see h_readall.c */
#endif
#define MAXCALLS (S / RS + 2)
static uint8_t file_obj[8];
static uint8_t src[S + 1];
static uint64_t pos;
static int calls;

uint64_t STUB(fread)(uint8_t* buf, uint64_t sz, uint64_t n, uint8_t* f) {
  ASSERT(f == file_obj && sz == 1, "fread(buf, 1, n, f) on the given stream");
  ASSERT(n >= 1 && n <= RS, "fread is asked for 1..block-size bytes");
  ASSERT(calls < MAXCALLS, "BOUND: number of fread() calls");
  ASSUME(calls < MAXCALLS);
  calls++;
  uint64_t k = S - pos;
  if (k > n) k = n;
  for (uint64_t i = 0; i < RS; i++) if (i < k) buf[i] = src[pos + i];
  pos += k;
  return k;
}
uint32_t STUB(fileno)(uint8_t* f) { (void)f; return 5; }

void harness(void) {
  uint8_t out[S + 1];
  in_bytes(src, S);
  int64_t r = w_read_all_file(file_obj, out, sizeof(out));
  OBS(r);
  ASSERT(r == S, "read_all(FILE*) returns as many bytes as the stream holds");
  if (r == S) for (int i = 0; i < S; i++) ASSERT(out[i] == src[i], "read_all(FILE*) returns the bytes of the stream in order");
}
