/* Appended to the generated C of unit fsqs (spec: cuts). MODEL of the libstdc++ instantiation
 *   std::sort(vector<string>::iterator, vector<string>::iterator)
 * which list_directory_sorted calls on the whole vector. Reason (measured): the vector length is a symbolic number (which
 * entries are "."/".." is decided by strcmp on symbolic names), so libstdc++'s `last - first > 16` tests do not fold and symbolic
 * execution unfolds the recursive introsort partitioning and the 16-element insertion sorts although they are infeasible: no
 * verdict in 15 min / out of 6 GB even for the EMPTY directory, also with __introsort_loop and __unguarded_insertion_sort cut.
 * The model sorts at most VERIF_SORT_MAX strings ascending by std::string::operator< (compare the common prefix as unsigned
 * bytes, then the lengths) with a constant-bound insertion sort; more elements, or a string that is not in its small-string
 * buffer, is a reported bound failure. What is decided for phosg is unchanged: it collects the right names and sorts the whole
 * range; the order produced by the libstdc++ sort itself is the library's property, not phosg's. */
#ifndef VERIF_SORT_MAX
#define VERIF_SORT_MAX 5
#endif
static int verif_str_less(uint8_t* a, uint8_t* b) {
  uint64_t la, lb;
  memcpy(&la, a + 8, 8); memcpy(&lb, b + 8, 8);
  for (uint64_t i = 0; i < 15; i++) if (i < la && i < lb) { if (a[16 + i] != b[16 + i]) return a[16 + i] < b[16 + i]; }
  return la < lb;
}
static void verif_str_swap(uint8_t* a, uint8_t* b) {   /* small strings: the data pointer of each object keeps pointing to its own buffer */
  uint8_t t[24];
  memcpy(t, a + 8, 24); memcpy(a + 8, b + 8, 24); memcpy(b + 8, t, 24);
}
void X__ZSt4sortIN9__gnu_cxx17__normal_iteratorIPNSt7__cxx1112basic_stringIcSt11char_traitsIcESaIcEEESt6vectorIS7_SaIS7_EEEEEvT_SD_(uint8_t* first, uint8_t* last) {
  if (first == last) return;
  int64_t n = (int64_t)(last - first) / 32;
  __CPROVER_assert(n <= VERIF_SORT_MAX, "BOUND: std::sort model handles at most VERIF_SORT_MAX elements");
  __CPROVER_assume(n <= VERIF_SORT_MAX);
  for (int64_t k = 0; k < VERIF_SORT_MAX; k++) if (k < n) {
    uint8_t* p; memcpy(&p, first + 32 * k, 8);
    uint64_t len; memcpy(&len, first + 32 * k + 8, 8);
    __CPROVER_assert(p == first + 32 * k + 16 && len <= 15, "BOUND: std::sort model: every string is in its small-string buffer");
    __CPROVER_assume(p == first + 32 * k + 16 && len <= 15);
  }
  for (int64_t i = 1; i < VERIF_SORT_MAX; i++)
    for (int64_t j = VERIF_SORT_MAX - 1; j >= 1; j--)
      if (j <= i && i < n && verif_str_less(first + 32 * j, first + 32 * (j - 1))) verif_str_swap(first + 32 * j, first + 32 * (j - 1));
}
