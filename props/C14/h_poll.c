/* C14: Poll tracks its descriptor set as a map. NOPS symbolic operations (add(fd, events) / remove(fd, close_fd)) over
 * fds {3,4,5} with symbolic 16-bit event masks are applied to a real Poll and to a map model written here (array indexed
 * by fd). After every operation: empty() iff the model is empty, the private poll_fds vector is strictly ascending by fd
 * (sorted, duplicate-free) and equal to the model (re-adding replaces the mask, removing deletes). close() is a stub:
 * it may only be called by remove(fd, true) and then exactly once with that fd when the fd was registered. */
#include "harness.h"
uint8_t* w_poll_new(void);
void w_poll_delete(uint8_t* h);
int64_t w_poll_add(uint8_t* h, uint32_t fd, uint32_t events);
int64_t w_poll_remove(uint8_t* h, uint32_t fd, uint32_t close_fd);
int64_t w_poll_empty(uint8_t* h);
int64_t w_poll_count(uint8_t* h);
int64_t w_poll_fd_at(uint8_t* h, uint64_t i);
int64_t w_poll_events_at(uint8_t* h, uint64_t i);

static int close_calls;
static uint32_t close_arg;
uint32_t STUB(close)(uint32_t fd) { close_calls++; close_arg = fd; return 0; }

#define FD_LO 3
#define NFD 3
void harness(void) {
  int present[NFD] = {0, 0, 0};
  int16_t ev[NFD] = {0, 0, 0};
  uint8_t* p = w_poll_new();
  ASSERT(w_poll_empty(p) == 1, "a new Poll is empty");
  for (int k = 0; k < NOPS; k++) {
    uint32_t is_add = in_bool();
    uint32_t fd = (uint32_t)in_range(FD_LO, FD_LO + NFD - 1);
    int16_t e = (int16_t)in_u16();
    uint32_t cl = in_bool();
    int was = present[fd - FD_LO];
    close_calls = 0;
    if (is_add) {
      ASSERT(w_poll_add(p, fd, (uint32_t)(int32_t)e) == 0, "add does not throw");
      present[fd - FD_LO] = 1; ev[fd - FD_LO] = e;
      ASSERT(close_calls == 0, "add closes nothing");
    } else {
      ASSERT(w_poll_remove(p, fd, cl) == 0, "remove does not throw");
      present[fd - FD_LO] = 0;
      if (was && cl) ASSERT(close_calls == 1 && close_arg == fd, "remove(fd, true) closes a registered fd exactly once");
      if (!cl) ASSERT(close_calls == 0, "remove(fd, false) closes nothing");
      if (close_calls) ASSERT(close_calls == 1 && close_arg == fd, "only the removed fd is closed");
    }
    /* compare with the model */
    int n = present[0] + present[1] + present[2];
    int64_t cnt = w_poll_count(p);
    OBS(cnt);
    ASSERT(w_poll_empty(p) == (n == 0), "empty() iff no descriptor is registered");
    ASSERT(cnt == n, "poll_fds has one entry per registered descriptor (re-adding replaces, removing deletes)");
    int64_t prev = -1;
    for (int i = 0; i < NFD + 2; i++) {
      if (i < cnt) {
        int64_t f = w_poll_fd_at(p, i), e2 = w_poll_events_at(p, i);
        ASSERT(f > prev, "poll_fds is strictly ascending by fd (sorted, duplicate-free)");
        prev = f;
        ASSERT(f >= FD_LO && f < FD_LO + NFD && present[f - FD_LO], "every poll_fds entry is a registered descriptor");
        if (f >= FD_LO && f < FD_LO + NFD) ASSERT(e2 == ev[f - FD_LO], "the entry carries the events of the latest add");
      }
    }
  }
  w_poll_delete(p);
}
