/* Appended to the generated C of the units fsq* (spec: cuts). Everything here only builds the what() TEXT of an exception,
 * which no C14 claim looks at; throw sites, exception types, stack unwinding and catch clauses stay the real code.
 * Cut (spec.UNITS cuts) and modelled as "returns the empty std::string" (libstdc++ layout: {char* p; size_t len; char buf[16]}):
 *   phosg::string_printf(const char*, ...), phosg::string_for_error(int),
 *   std::operator+(const char*, const string&), operator+(string&&, const char*), operator+(string&&, string&&)
 *   - in the functions encoded for these units (load_file, save_file, unlink) these three instantiations occur only in
 *   `"can't ... " + filename + ": " + string_for_error(errno)`; the path concatenation of the recursive unlink
 *   (`filename + "/" + item`) uses operator+(const string&, const char*) and operator+(string&&, const string&): NOT cut.
 * Cut to no-ops: the constructors cannot_stat_file(int), cannot_stat_file(const string&), cannot_open_file(const string&)
 *   (what() text and the `error` member, which nothing encoded reads). */
static void verif_empty_string(uint8_t* s) {
  uint8_t* buf = s + 16;
  memcpy(s, &buf, 8);
  uint64_t z = 0;
  memcpy(s + 8, &z, 8);
  s[16] = 0;
}
void X__ZN5phosg13string_printfB5cxx11EPKcz(uint8_t* ret, uint8_t* fmt, ...) { (void)fmt; verif_empty_string(ret); }
void X__ZN5phosg16string_for_errorB5cxx11Ei(uint8_t* ret, uint32_t err) { (void)err; verif_empty_string(ret); }
void X__ZStplIcSt11char_traitsIcESaIcEENSt7__cxx1112basic_stringIT_T0_T1_EEPKS5_RKS8_(uint8_t* ret, uint8_t* a, uint8_t* b) { (void)a; (void)b; verif_empty_string(ret); }
void X__ZStplIcSt11char_traitsIcESaIcEENSt7__cxx1112basic_stringIT_T0_T1_EEOS8_PKS5_(uint8_t* ret, uint8_t* a, uint8_t* b) { (void)a; (void)b; verif_empty_string(ret); }
void X__ZStplIcSt11char_traitsIcESaIcEENSt7__cxx1112basic_stringIT_T0_T1_EEOS8_S9_(uint8_t* ret, uint8_t* a, uint8_t* b) { (void)a; (void)b; verif_empty_string(ret); }
void X__ZN5phosg16cannot_stat_fileC1Ei(uint8_t* self, uint32_t fd) { (void)self; (void)fd; }
void X__ZN5phosg16cannot_stat_fileC1ERKNSt7__cxx1112basic_stringIcSt11char_traitsIcESaIcEEE(uint8_t* self, uint8_t* name) { (void)self; (void)name; }
void X__ZN5phosg16cannot_open_fileC1ERKNSt7__cxx1112basic_stringIcSt11char_traitsIcESaIcEEE(uint8_t* self, uint8_t* name) { (void)self; (void)name; }
