/* C14: recursive unlink removes the whole tree (and nothing else); non-recursive unlink behaves like unlink(2).
 * Environment = a tiny file-system tree owned by this harness, behind stat/lstat/opendir/readdir/closedir/unlink/rmdir stubs:
 *     node 0  "r"            the path given to phosg::unlink          (type = cell ROOT_T)
 *     node 1  "r/<a>"        node 2  "r/<b>"      entries of r        (types = cells T1, T2; T_NONE = absent)
 *     node 3  "r/<a>/<c>"    entry of node 1 when that is a directory (type = cell T3)
 *     node 4  "o"            a directory OUTSIDE the tree, the target of every symbolic link to a directory
 *     node 5  "o/<x>"        a regular file in it
 *   Names: 'a','b','c','x', or (cells SYMNAMES) symbolic one-byte names (not NUL, '/', '.'; a != b). Types: regular file, directory,
 *   symbolic link to a regular file, symbolic link to the directory o (T_LDIR), dangling symbolic link.
 * POSIX contracts of the stubs:
 *   stat(p)    follows a final symbolic link (dangling -> -1/ENOENT), lstat(p) does not; both -1/ENOENT for a missing node
 *   opendir(p) follows links; NULL/ENOENT, NULL/ENOTDIR when p is not a directory; the stream yields ".", "..", then the live
 *              entries in solver-chosen order; one static struct dirent, overwritten by every readdir
 *   unlink(p)  never follows the final link: -1/ENOENT missing, -1/EISDIR for a directory, else removes the node
 *   rmdir(p)   -1/ENOENT missing, -1/ENOTDIR for anything that is not a directory (also a link to one), else removes it.
 *              rmdir on a directory that still has entries is a MODEL ASSERTION (children must go before their parent;
 *              the call then fails with ENOTEMPTY)
 *   path resolution goes through directories and links-to-directories: "r/<a>/<x>" names o's file when r/<a> links to o
 *   FAULT_AT = k cells: the k-th call among opendir/unlink/rmdir fails with -1/EACCES and has no effect
 * Removing node 4 or 5 (outside the tree) is a model assertion, as is removing any node twice.
 * Oracle: recursive, ROOT_T any:
 *     no injected fault => unlink returns normally;
 *     returns normally  => every node of the tree that existed is gone, each removed exactly once, files and links through
 *                          unlink(2), directories through rmdir(2) (the other call fails in the model), o and o/<x> untouched;
 *     throws            => a call failed (only in FAULT_AT cells), runtime_error / cannot_open_file; nothing outside the tree touched.
 *   non-recursive (RECURSIVE 0): exactly one unlink(2) on "r", no other call: a file or link is removed, a directory stays and
 *     runtime_error is thrown (EISDIR), a missing path is not an error (phosg ignores ENOENT).
 * Cells with a T_LDIR node decide that a link to a directory is removed as a link (unlink(2)) and that o and o/<x> survive:
 * phosg before commit 7253f82 used stat-based isdir() there, listed o through the link and deleted o/<x> (NOTES.md, defect 4). */
#include "harness.h"
int64_t w_unlink(uint8_t* path, uint32_t recursive);
#ifdef VERIF_NATIVE_REAL
#include <errno.h>
#define ERRNO errno
#else
uint8_t* X___errno_location(void);
#define ERRNO (*(int32_t*)X___errno_location())
#endif
#define W_RUNTIME_ERROR (-5)
#define W_CANNOT_OPEN (-21)
enum { T_NONE = 0, T_FILE = 1, T_DIR = 2, T_LFILE = 3, T_LDIR = 4, T_LDANG = 5 };
#ifndef ROOT_T
#define ROOT_T T_DIR
#endif
#ifndef RECURSIVE
#define RECURSIVE 1
#endif
#ifndef FAULT_AT
#define FAULT_AT (-1)   /* index of the failing call among opendir/unlink/rmdir, -1 = none */
#endif
#ifndef ORDER
#define ORDER 0          /* 1 = the two entries of r are listed in reverse order */
#endif
#ifndef T1
#define T1 0
#endif
#ifndef T2
#define T2 0
#endif
#ifndef T3
#define T3 0
#endif
#define NN 6
#define MAXCALLS 12
static uint8_t ntype[NN], nname[NN], removed[NN], rm_count[NN];
static const int nparent[NN] = {-1, 0, 0, 1, -1, 4};
static uint8_t swap_order;
static int fault_at, crit_calls, faulted, n_unlink, n_rmdir, n_opendir, n_stat;
/* directory stream */
static uint8_t dir_obj[8], de[280], sname[2];
static int dir_open, spos, scount;
/* Model assertions and model bounds are recorded here and asserted at the END of the harness in a fixed order: the order in
 * which phosg visits the entries of a directory is the iteration order of its unordered_set, which differs between the
 * solver build (engine shim: insertion order) and the native real build (libstdc++: hash order); the native traces of the two
 * builds are compared line by line, so the trace must not depend on the visiting order. */
static int v_stream, v_outside, v_twice, v_nonempty, b_depth, b_calls, b_streams, b_readdir;

static int live(int i) {
  int ok = ntype[i] != T_NONE && !removed[i];
  int p = nparent[i];
  if (p >= 0) { ok = ok && ntype[p] != T_NONE && !removed[p]; int pp = nparent[p]; if (pp >= 0) ok = ok && ntype[pp] != T_NONE && !removed[pp]; }
  return ok;
}
static int dir_target(int i) {           /* the directory a path component resolves to, -1 if none */
  if (i < 0) return -1;
  if (ntype[i] == T_DIR) return i;
  if (ntype[i] == T_LDIR && live(4)) return 4;
  return -1;
}
static int child_of(int d, uint8_t name) {
  int r = -1;
  for (int j = 1; j < NN; j++) if (nparent[j] == d && live(j) && nname[j] == name) r = j;
  return r;
}
static int not_dir;                       /* lookup failed because an intermediate component is not a directory */
static int lookup(const uint8_t* p) {     /* the node a path names, final component NOT followed; -1 if none */
  not_dir = 0;
  int cur = p[0] == 'r' ? 0 : p[0] == 'o' ? 4 : -1;
  if (cur < 0 || !live(cur)) return -1;
  int idx = 1;
  for (int lvl = 0; lvl < 2; lvl++) {
    if (p[idx] == 0) return cur;
    if (p[idx] != '/' || p[idx + 1] == 0) return -1;
    int d = dir_target(cur);
    if (d < 0) { not_dir = 1; return -1; }
    cur = child_of(d, p[idx + 1]);
    if (cur < 0) return -1;
    idx += 2;
  }
  if (p[idx] != 0) { b_depth = 1; return -1; }
  return cur;
}
static int is_fault(void) {
  if (crit_calls >= MAXCALLS) b_calls = 1;
  int f = (crit_calls == fault_at);
  crit_calls++;
  if (f) { faulted = 1; ERRNO = 13; }
  return f;
}
static void fill_stat(uint8_t* st, int t) {
  memset(st, 0, 144);                     /* struct stat, x86-64: st_mode at 24 (u32) */
  uint32_t mode = t == T_DIR ? 0040755 : t == T_FILE ? 0100644 : 0120777;
  memcpy(st + 24, &mode, 4);
}
uint32_t STUB(stat)(uint8_t* p, uint8_t* st) {
  n_stat++;
  int n = lookup(p);
  if (n < 0) { ERRNO = not_dir ? 20 : 2; return (uint32_t)-1; }
  int t = ntype[n];
  if (t == T_LFILE) t = T_FILE;
  else if (t == T_LDIR) { if (!live(4)) { ERRNO = 2; return (uint32_t)-1; } t = T_DIR; }
  else if (t == T_LDANG) { ERRNO = 2; return (uint32_t)-1; }
  fill_stat(st, t);
  return 0;
}
uint32_t STUB(lstat)(uint8_t* p, uint8_t* st) {
  n_stat++;
  int n = lookup(p);
  if (n < 0) { ERRNO = not_dir ? 20 : 2; return (uint32_t)-1; }
  fill_stat(st, ntype[n]);
  return 0;
}
uint8_t* STUB(opendir)(uint8_t* p) {
  n_opendir++;
  if (dir_open) b_streams = 1;
  int n = lookup(p);
  if (n < 0) { ERRNO = not_dir ? 20 : 2; return 0; }
  int d = dir_target(n);
  if (d < 0) { ERRNO = ntype[n] == T_LDANG ? 2 : 20; return 0; }
  if (is_fault()) return 0;
  scount = 0;
  for (int j = 1; j < NN; j++) if (nparent[j] == d && live(j)) { if (scount == 0) sname[0] = nname[j]; else sname[1] = nname[j]; scount++; }
  if (scount == 2 && swap_order) { uint8_t t = sname[0]; sname[0] = sname[1]; sname[1] = t; }
  dir_open = 1; spos = 0;
  return dir_obj;
}
uint8_t* STUB(readdir)(uint8_t* d) {
  if (!(d == dir_obj && dir_open)) { v_stream = 1; return 0; }
  if (spos > 5) { b_readdir = 1; return 0; }
  int k = spos++;
  if (k >= 2 + scount) return 0;
  de[19] = k < 2 ? '.' : (k == 2 ? sname[0] : sname[1]);
  de[20] = k == 1 ? '.' : 0;
  de[21] = 0;
  return de;
}
uint32_t STUB(closedir)(uint8_t* d) {
  if (!(d == dir_obj && dir_open)) v_stream = 1;
  dir_open = 0;
  return 0;
}
static uint32_t do_remove(int n) {
  if (n > 3) v_outside = 1;
  for (int j = 0; j < NN; j++) if (j == n) { if (removed[j]) v_twice = 1; removed[j] = 1; rm_count[j]++; }
  return 0;
}
uint32_t STUB(unlink)(uint8_t* p) {
  n_unlink++;
  int n = lookup(p);
  if (n < 0) { ERRNO = not_dir ? 20 : 2; return (uint32_t)-1; }
  if (is_fault()) return (uint32_t)-1;
  if (ntype[n] == T_DIR) { ERRNO = 21; return (uint32_t)-1; }
  return do_remove(n);
}
uint32_t STUB(rmdir)(uint8_t* p) {
  n_rmdir++;
  int n = lookup(p);
  if (n < 0) { ERRNO = not_dir ? 20 : 2; return (uint32_t)-1; }
  if (is_fault()) return (uint32_t)-1;
  if (ntype[n] != T_DIR) { ERRNO = 20; return (uint32_t)-1; }
  int kids = 0;
  for (int j = 1; j < NN; j++) if (nparent[j] == n && live(j)) kids = 1;
  if (kids) { v_nonempty = 1; ERRNO = 39; return (uint32_t)-1; }
  return do_remove(n);
}

void harness(void) {
  static uint8_t path[2] = {'r', 0};
  uint8_t existed[NN];
  /* TYPE cells (spec): the type of every node is concrete per query, because it decides how phosg recurses and CBMC does not
   * fold `(mode & S_IFMT) == S_IFDIR` over a symbolic choice of modes (symbolic types: no verdict in 18 min even for the empty
   * tree; concrete: seconds). The same holds for the order of the entries (ORDER) and the failing call (FAULT_AT): CBMC merges
   * the states after a symbolic choice and nothing folds any more (one file in r with a symbolic fault position: no verdict
   * in 18 min). Symbolic per query: the stale errno on entry; the names in SYMNAMES cells. */
#ifdef SYMNAMES
  for (int j = 1; j < NN; j++) if (j != 4) { nname[j] = in_u8(); ASSUME(nname[j] != 0 && nname[j] != '/' && nname[j] != '.'); }
  ASSUME(nname[1] != nname[2]);
#else
  nname[1] = 'a'; nname[2] = 'b'; nname[3] = 'c'; nname[5] = 'x';
#endif
  ntype[0] = ROOT_T; ntype[1] = T1; ntype[2] = T2; ntype[3] = T3;
  if (ntype[0] != T_DIR) { ASSUME(ntype[1] == T_NONE && ntype[2] == T_NONE); }
  if (ntype[1] != T_DIR) ASSUME(ntype[3] == T_NONE);
  ntype[4] = T_DIR; ntype[5] = T_FILE;
  swap_order = ORDER;
#ifdef VERIF_NATIVE_REAL
  /* replay aid only (no verdict depends on it): phosg visits the entries in the iteration order of its unordered_set; the engine
   * shim iterates in insertion order, libstdc++ (2 elements) in reverse insertion order. Listing the two entries the other
   * way round makes the real build visit them in the order the solver saw, so that FAULT_AT counterexamples replay. */
  swap_order = !ORDER;
#endif
  fault_at = FAULT_AT;
  ERRNO = (int32_t)in_range(0, 40);
  for (int j = 0; j < NN; j++) existed[j] = live(j);
  int64_t r = w_unlink(path, RECURSIVE);
  OBS(r == 0);
  ASSERT(!b_depth, "BOUND: path depth of the tree model");
  ASSERT(!b_calls, "BOUND: number of opendir/unlink/rmdir calls");
  ASSERT(!b_streams, "BOUND: one directory stream at a time");
  ASSERT(!b_readdir, "BOUND: readdir calls per stream");
  ASSERT(!v_stream, "readdir / closedir only on the open stream, no double close");
  ASSERT(!v_outside, "only nodes of the tree are removed (never the target of a symbolic link or its contents)");
  ASSERT(!v_twice, "no node is removed twice");
  ASSERT(!v_nonempty, "rmdir is called on an empty directory only (children are removed before their parent)");
  ASSERT(!dir_open, "every directory stream is closed");
  ASSERT(rm_count[4] == 0 && rm_count[5] == 0 && live(4) && live(5), "nothing outside the tree is removed");
#if RECURSIVE
  if (!faulted) ASSERT(r == 0, "no failing call => recursive unlink returns normally");
  if (r == 0) {
    for (int j = 0; j <= 3; j++) ASSERT(rm_count[j] == (existed[j] ? 1 : 0), "recursive unlink returned normally => every node of the tree was removed, exactly once");
  } else {
    ASSERT(r == W_RUNTIME_ERROR || r == W_CANNOT_OPEN, "a failing call => runtime_error (cannot_open_file for opendir)");
    ASSERT(faulted, "recursive unlink throws only when a call failed");
  }
#else
  ASSERT(n_unlink == 1 && n_rmdir == 0 && n_opendir == 0, "non-recursive unlink is one unlink(2) call");
  if (ROOT_T == T_DIR) { ASSERT(r == W_RUNTIME_ERROR, "non-recursive unlink of a directory => runtime_error (EISDIR)"); ASSERT(live(0) && rm_count[0] == 0, "the directory stays"); }
  else if (faulted) ASSERT(r == W_RUNTIME_ERROR && rm_count[0] == 0, "unlink(2) fails => runtime_error");
  else { ASSERT(r == 0, "a file, a link, or a missing path: no exception (ENOENT is ignored)"); ASSERT(rm_count[0] == (ROOT_T != T_NONE), "the node is removed"); }
#endif
}
