/* C14: load_file(save_file(d)) == d, and neither function ever returns/leaves a silently truncated or padded result.
 * The environment is a ONE-FILE file system written here: the file "f" is a byte array fdata[0..flen) that may or may not
 * exist and has symbolic previous content; open/write/read/fstat/close are stubs with their POSIX contracts:
 *   open(path, flags[, mode]) : fails (-1, errno) when the solver says so or when the file does not exist and O_CREAT is absent;
 *                               O_CREAT creates, O_TRUNC empties; returns a fresh descriptor with offset 0
 *   write(fd, buf, n)         : returns a solver-chosen count k in [-1, n]; k >= 0 bytes are stored at the offset (SHORT WRITES),
 *                               -1 = failure with errno set
 *   fstat(fd, st)             : fails (-1, errno) or reports S_IFREG and st_size = flen + DELTA (DELTA = 0 except in the cells
 *                               "the file is shorter / longer than fstat said", i.e. it changed between fstat and read)
 *   read(fd, buf, n)          : returns a solver-chosen count k in [-1, min(n, bytes left)] and delivers k bytes (SHORT READS),
 *                               0 at end of file; the undelivered tail of buf is left untouched
 *   close(fd)                 : marks the descriptor closed; return value solver-chosen (phosg ignores it)
 * errno has a symbolic (possibly stale, possibly 0) value on entry and is only written by failing calls.
 * Oracle (independent of how often phosg calls read/write, so a retrying implementation would pass as well):
 *   save_file returns normally  => the file exists and holds exactly d (length LEN, same bytes, nothing of the old content);
 *   save_file throws            => cannot_open_file iff open failed, else runtime_error, and some write was short / failed;
 *   no failing / short call     => save_file returns normally (no spurious exception);
 *   load_file returns a string  => it is exactly the file content (DELTA <= 0: exactly the first st_size bytes);
 *   load_file throws            => cannot_open_file iff open failed, cannot_stat_file iff fstat failed, else runtime_error and
 *                                  a read was short / failed / the file was shorter than fstat said;
 *   both succeed (DELTA == 0)   => loaded bytes == d;
 *   every descriptor handed out is closed exactly once on every path (also the throwing ones), no call on a closed descriptor. */
#include "harness.h"
#include "env_msg.h"
int64_t w_save_file(uint8_t* path, uint8_t* data, uint64_t n, uint32_t as_string);
int64_t w_load_file(uint8_t* path, uint8_t* out, uint64_t cap);

#ifdef VERIF_NATIVE_REAL
#include <errno.h>
#define ERRNO errno
long syscall(long, ...);
/* the process' own descriptors (the driver's stdout, sanitizer runtime) go to the kernel */
#define FOREIGN_FD(fd, expr) if ((int32_t)(fd) < FD0 || (int32_t)(fd) >= FD0 + MAXFD) return (expr); ASSERT(1, "call on a descriptor that was handed out")
#else
uint8_t* X___errno_location(void);
#define ERRNO (*(int32_t*)X___errno_location())
#define FOREIGN_FD(fd, expr) ASSERT((int32_t)(fd) >= FD0 && (int32_t)(fd) < FD0 + MAXFD, "call on a descriptor that was handed out")
#endif

#define W_RUNTIME_ERROR (-5)
#define W_CANNOT_OPEN (-21)
#define W_CANNOT_STAT (-22)
#ifndef DELTA
#define DELTA 0
#endif
#ifndef OLDLEN
#define OLDLEN 2          /* length of the previous content of the file (when it exists) */
#endif
#define FCAP (LEN > 3 ? LEN + 1 : 4)   /* capacity of the file model */
#ifndef FD0
#define FD0 40             /* first descriptor open() hands out (cells FD0 = 0: the lowest descriptor a process can get) */
#endif
#define MAXFD 2
#define MAXIO 2            /* read / write calls per descriptor */

static uint8_t path[2] = {'f', 0};
static uint8_t fdata[FCAP + 2];
static uint64_t flen;
static int fexists;

static int handed;                 /* descriptors handed out: FD0 .. FD0+handed-1 */
static int fd_closed[MAXFD], fd_wr[MAXFD];
static uint64_t fd_pos[MAXFD];
static int io_calls[MAXFD];
/* solver choices */
static uint8_t open_fail[MAXFD + 1], fstat_fail, close_ret[MAXFD];
static int64_t io_plan[MAXFD][MAXIO];   /* count returned by the j-th read/write on descriptor k (clamped to what is possible; -1 = failure) */
static uint32_t err_code;
/* what happened */
static int open_calls, open_failed, fstat_failed, io_failed, io_short, stat_calls;
static uint64_t st_size_reported;

uint32_t STUB(open)(uint8_t* p, uint32_t flags, ...) {
#ifdef VERIF_NATIVE_REAL
  if (!(p[0] == 'f' && p[1] == 0)) return (uint32_t)syscall(2, p, flags, 0);
#endif
  ASSERT(p[0] == 'f' && p[1] == 0, "open receives the given path");
  ASSERT(open_calls < MAXFD, "BOUND: number of open() calls"); ASSUME(open_calls < MAXFD);
  int j = open_calls++;
  int wr = (flags & 3) == 1;
  ASSERT((flags & 3) == 0 || (flags & 3) == 1, "O_RDONLY or O_WRONLY");
  if (wr) ASSERT(flags == (1 | 0x40 | 0x200), "save_file opens with O_WRONLY|O_CREAT|O_TRUNC");
  else ASSERT(flags == 0, "load_file opens with O_RDONLY");
  if (open_fail[j] || (!fexists && !(flags & 0x40))) { open_failed = 1; ERRNO = (int32_t)err_code; return (uint32_t)-1; }
  if (flags & 0x40) fexists = 1;
  if (flags & 0x200) flen = 0;
  int k = handed++;
  fd_wr[k] = wr; fd_pos[k] = 0; fd_closed[k] = 0; io_calls[k] = 0;
  return (uint32_t)(FD0 + k);
}
uint32_t STUB(close)(uint32_t fd) {
  FOREIGN_FD(fd, (uint32_t)syscall(3, fd));
  uint32_t r = 0;
  for (int k = 0; k < MAXFD; k++) if (k == (int)fd - FD0) {
    ASSERT(k < handed && !fd_closed[k], "close on an open descriptor (no double close)");
    fd_closed[k]++;
    r = close_ret[k] ? (uint32_t)-1 : 0;
  }
  return r;
}
uint64_t STUB(write)(uint32_t fd, uint8_t* buf, uint64_t n) {
  FOREIGN_FD(fd, (uint64_t)syscall(1, fd, buf, n));
  uint64_t ret = 0;
  for (int k = 0; k < MAXFD; k++) if (k == (int)fd - FD0) {
    ASSERT(k < handed && !fd_closed[k] && fd_wr[k], "write on an open, writable descriptor");
    ASSERT(io_calls[k] < MAXIO, "BOUND: write() calls per descriptor"); ASSUME(io_calls[k] < MAXIO);
    int64_t c = io_plan[k][io_calls[k]++];
    ASSERT(fd_pos[k] + n <= FCAP, "BOUND: file model capacity"); ASSUME(fd_pos[k] + n <= FCAP);
    if (c < 0) { io_failed = 1; ERRNO = (int32_t)err_code; ret = (uint64_t)-1; }
    else {
      if ((uint64_t)c > n) c = (int64_t)n;
      if ((uint64_t)c < n) io_short = 1;
      for (uint64_t i = 0; i < FCAP; i++) if (i < (uint64_t)c) fdata[fd_pos[k] + i] = buf[i];
      fd_pos[k] += (uint64_t)c;
      if (fd_pos[k] > flen) flen = fd_pos[k];
      ret = (uint64_t)c;
    }
  }
  return ret;
}
uint64_t STUB(read)(uint32_t fd, uint8_t* buf, uint64_t n) {
  FOREIGN_FD(fd, (uint64_t)syscall(0, fd, buf, n));
  uint64_t ret = 0;
  for (int k = 0; k < MAXFD; k++) if (k == (int)fd - FD0) {
    ASSERT(k < handed && !fd_closed[k] && !fd_wr[k], "read on an open, readable descriptor");
    ASSERT(io_calls[k] < MAXIO, "BOUND: read() calls per descriptor"); ASSUME(io_calls[k] < MAXIO);
    int64_t c = io_plan[k][io_calls[k]++];
    ASSERT(n <= FCAP + 1, "BOUND: read size"); ASSUME(n <= FCAP + 1);
    uint64_t avail = fd_pos[k] < flen ? flen - fd_pos[k] : 0;
    uint64_t full = n < avail ? n : avail;
    if (c < 0) { io_failed = 1; ERRNO = (int32_t)err_code; ret = (uint64_t)-1; }
    else {
      if ((uint64_t)c > full) c = (int64_t)full;
      if ((uint64_t)c < full) io_short = 1;
      for (uint64_t i = 0; i < FCAP; i++) if (i < (uint64_t)c) buf[i] = fdata[fd_pos[k] + i];
      fd_pos[k] += (uint64_t)c;
      ret = (uint64_t)c;
    }
  }
  return ret;
}
uint32_t STUB(fstat)(uint32_t fd, uint8_t* st) {
  FOREIGN_FD(fd, (uint32_t)syscall(5, fd, st));
  stat_calls++;
  for (int k = 0; k < MAXFD; k++) if (k == (int)fd - FD0) ASSERT(k < handed && !fd_closed[k], "fstat on an open descriptor");
  if (fstat_fail) { fstat_failed = 1; ERRNO = (int32_t)err_code; return (uint32_t)-1; }
  memset(st, 0, 144);                               /* struct stat, x86-64: st_mode at 24 (u32), st_size at 48 (i64) */
  uint32_t mode = 0100644;
  memcpy(st + 24, &mode, 4);
  int64_t sz = (int64_t)flen + (DELTA);
  if (sz < 0) sz = 0;
  st_size_reported = (uint64_t)sz;
  memcpy(st + 48, &sz, 8);
  return 0;
}

static void choose_faults(int allow) {
  for (int k = 0; k <= MAXFD; k++) open_fail[k] = in_bool();
  fstat_fail = in_bool();
  for (int k = 0; k < MAXFD; k++) { close_ret[k] = in_bool(); for (int j = 0; j < MAXIO; j++) io_plan[k][j] = in_irange(-1, FCAP + 1); }
  err_code = (uint32_t)in_range(1, 40);
  if (!allow) {
    for (int k = 0; k <= MAXFD; k++) ASSUME(!open_fail[k]);
    ASSUME(!fstat_fail);
    for (int k = 0; k < MAXFD; k++) for (int j = 0; j < MAXIO; j++) ASSUME(io_plan[k][j] == FCAP + 1);
  }
}

void harness(void) {
  uint8_t d[LEN + 1], out[FCAP + 2];
  in_bytes(d, LEN);
  /* previous state of the file */
  fexists = in_bool();
  flen = fexists ? OLDLEN : 0;
  in_bytes(fdata, FCAP);
  ERRNO = (int32_t)in_range(0, 40);   /* stale errno */
#ifndef LOAD_ONLY
  choose_faults(SAVE_FAULTS);
  int64_t r1 = w_save_file(path, d, LEN, AS_STR);
  OBS(r1);
  ASSERT(open_calls == 1, "save_file opens the file once");
  if (open_failed) {
    ASSERT(r1 == W_CANNOT_OPEN, "open fails => cannot_open_file");
    ASSERT(handed == 0, "nothing to close");
  } else {
    ASSERT(handed == 1 && fd_closed[0] == 1, "the descriptor is closed exactly once (also when save_file throws)");
    if (r1 == 0) {
      ASSERT(fexists && flen == LEN, "save_file returned normally => the file has exactly LEN bytes (no truncation, no old tail)");
      for (int i = 0; i < LEN; i++) ASSERT(fdata[i] == d[i], "save_file returned normally => the file holds the data");
    } else {
      ASSERT(r1 == W_RUNTIME_ERROR, "short / failed write => runtime_error");
      ASSERT(io_failed || io_short, "save_file throws only when a write failed or was short");
    }
    if (!io_failed && !io_short) ASSERT(r1 == 0, "all calls succeed in full => no exception");
  }
  int save_ok = (r1 == 0);
  int base = handed;
  open_calls = 0; open_failed = 0; io_failed = 0; io_short = 0;
#else
  int save_ok = 0, base = 0;
#endif
  /* ---- load_file on whatever the file now is */
  uint64_t len0 = flen;
  uint8_t snap[FCAP + 1];
  for (int i = 0; i < FCAP; i++) snap[i] = fdata[i];
  int ex0 = fexists;
  choose_faults(LOAD_FAULTS);
  for (int i = 0; i < FCAP + 2; i++) out[i] = 0xEE;
  int64_t r2 = w_load_file(path, out, sizeof(out));
  OBS(r2);
  ASSERT(open_calls == 1, "load_file opens the file once");
  ASSERT(flen == len0 && fexists == ex0, "load_file does not modify the file");
  if (open_failed) {
    ASSERT(r2 == W_CANNOT_OPEN, "open fails (or no such file) => cannot_open_file");
    ASSERT(handed == base, "nothing to close");
  } else {
    ASSERT(handed == base + 1, "one descriptor");
    for (int k = 0; k < MAXFD; k++) if (k == base) ASSERT(fd_closed[k] == 1, "the descriptor is closed exactly once (also when load_file throws)");
    if (fstat_failed) ASSERT(r2 == W_CANNOT_STAT, "fstat fails => cannot_stat_file");
    else if (r2 >= 0) {
#if DELTA <= 0
      /* DELTA < 0: the file grew after fstat; the property does not say which of "first st_size bytes" or "exception" is right,
       * only garbage / padding is excluded */
      ASSERT((uint64_t)r2 == st_size_reported, "load_file returns st_size bytes");
      for (int i = 0; i < FCAP; i++) if (i < r2) ASSERT(out[i] == snap[i], "load_file returns the bytes of the file");
#else
      ASSERT(0, "the file is shorter than fstat said => load_file must throw, not return a padded string");
#endif
    } else {
      ASSERT(r2 == W_RUNTIME_ERROR, "short / failed read => runtime_error");
      ASSERT(io_failed || io_short || DELTA > 0, "load_file throws only when a read failed or was short");
    }
    if (!fstat_failed && !io_failed && !io_short && DELTA <= 0) ASSERT(r2 >= 0, "all calls succeed in full => no exception");
  }
#if DELTA == 0
  if (save_ok && r2 >= 0) {
    ASSERT(r2 == LEN, "load_file(save_file(d)) has the length of d");
    for (int i = 0; i < LEN; i++) ASSERT(out[i] == d[i], "load_file(save_file(d)) == d");
  }
#endif
  (void)save_ok;
}
