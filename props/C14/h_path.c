/* C14: basename/dirname. LEN symbolic bytes (cell), all 256 values. Reference = definition via the last '/' written here:
 * no slash -> basename = p, dirname = ""; else dirname = p[0..k), basename = p(k..n) and dirname + '/' + basename == p. */
#include "harness.h"
int64_t w_basename(uint8_t* p, uint64_t n, uint8_t* out, uint64_t cap);
int64_t w_dirname(uint8_t* p, uint64_t n, uint8_t* out, uint64_t cap);

void harness(void) {
  uint8_t p[LEN + 1], b[LEN + 2], d[LEN + 2], cat[2 * LEN + 4];
  in_bytes(p, LEN);
  int64_t nb = w_basename(p, LEN, b, sizeof(b));
  int64_t nd = w_dirname(p, LEN, d, sizeof(d));
  OBS(nb); OBS(nd);
  int64_t k = -1; /* last slash */
  for (int64_t i = 0; i < LEN; i++) if (p[i] == '/') k = i;
  ASSERT(nb >= 0 && nd >= 0, "basename/dirname do not throw");
  if (nb < 0 || nd < 0) return;
  if (k < 0) {
    ASSERT(nd == 0, "dirname of a slash-free path is empty");
    ASSERT(nb == LEN, "basename of a slash-free path is the path");
    if (nb == LEN) for (int64_t i = 0; i < LEN; i++) ASSERT(b[i] == p[i], "basename of a slash-free path is the path (bytes)");
  } else {
    ASSERT(nd == k, "dirname is everything before the last slash");
    ASSERT(nb == LEN - k - 1, "basename is everything after the last slash");
    /* the law of the property statement, literally */
    uint64_t cn = 0;
    for (int64_t i = 0; i < nd; i++) cat[cn++] = d[i];
    cat[cn++] = '/';
    for (int64_t i = 0; i < nb; i++) cat[cn++] = b[i];
    ASSERT(cn == LEN, "dirname + '/' + basename has the length of the path");
    if (cn == LEN) for (int64_t i = 0; i < LEN; i++) ASSERT(cat[i] == p[i], "dirname(p) + '/' + basename(p) == p");
    for (int64_t i = 0; i < nb; i++) ASSERT(b[i] != '/', "basename contains no slash");
  }
}
