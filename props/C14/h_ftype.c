/* C14: the file-type helpers list_directory / recursive unlink rely on: stat, lstat, fstat (throwing forms) and
 * isfile / isdir / lisfile / lisdir / islink (path forms: "no" when the stat call fails) and isfile/isdir/islink(struct stat).
 * Environment: one path "p" naming a node whose own mode (what lstat reports) and resolved mode (what stat reports after
 * following symbolic links; equal to the own mode unless the node is a symbolic link) are two symbolic 32-bit st_mode values,
 * symbolic st_size values, and each of stat/lstat/fstat fails (-1, errno) when the solver says so.
 * Oracle, from POSIX <sys/stat.h>: type = st_mode & S_IFMT (0170000); regular = 0100000, directory = 0040000, link = 0120000.
 *   (WHICH = cell, or chosen by the solver when not defined)
 *   WHICH 0 isfile(path)  = stat ok  && resolved type is regular      WHICH 1 isdir(path)  = stat ok  && resolved type is directory
 *   WHICH 2 lisfile(path) = lstat ok && own type is regular           WHICH 3 lisdir(path) = lstat ok && own type is directory
 *   WHICH 4 islink(path)  = lstat ok && own type is link
 *   WHICH 5/6/7 stat/lstat/fstat: cannot_stat_file iff the call fails, otherwise st_mode/st_size passed through unchanged and
 *   the struct-stat predicates agree with the definition. Exactly one system call of the right kind per helper call. */
#include "harness.h"
int64_t w_ftype(uint8_t* path, uint32_t which, uint64_t* out);
#ifdef VERIF_NATIVE_REAL
#include <errno.h>
#define ERRNO errno
#else
uint8_t* X___errno_location(void);
#define ERRNO (*(int32_t*)X___errno_location())
#endif
#define W_CANNOT_STAT (-22)
#define FD 9
static uint8_t path[2] = {'p', 0};
static uint32_t own_mode, res_mode;
static int64_t own_size, res_size;
static uint8_t fail_stat, fail_lstat, fail_fstat;
static int n_stat, n_lstat, n_fstat;

static void fill(uint8_t* st, uint32_t mode, int64_t size) {
  memset(st, 0, 144);     /* struct stat, x86-64: st_mode at 24 (u32), st_size at 48 (i64) */
  memcpy(st + 24, &mode, 4);
  memcpy(st + 48, &size, 8);
}
uint32_t STUB(stat)(uint8_t* p, uint8_t* st) {
  ASSERT(p[0] == 'p' && p[1] == 0, "stat receives the given path");
  n_stat++;
  if (fail_stat) { ERRNO = 2; return (uint32_t)-1; }
  fill(st, res_mode, res_size);
  return 0;
}
uint32_t STUB(lstat)(uint8_t* p, uint8_t* st) {
  ASSERT(p[0] == 'p' && p[1] == 0, "lstat receives the given path");
  n_lstat++;
  if (fail_lstat) { ERRNO = 2; return (uint32_t)-1; }
  fill(st, own_mode, own_size);
  return 0;
}
uint32_t STUB(fstat)(uint32_t fd, uint8_t* st) {
  ASSERT(fd == FD, "fstat receives the given descriptor");
  n_fstat++;
  if (fail_fstat) { ERRNO = 9; return (uint32_t)-1; }
  fill(st, res_mode, res_size);
  return 0;
}

void harness(void) {
  own_mode = in_u32(); res_mode = in_u32();
  own_size = in_i64(); res_size = in_i64();
  if ((own_mode & 0170000) != 0120000) { res_mode = own_mode; res_size = own_size; }  /* not a link: nothing to follow */
  fail_stat = in_bool(); fail_lstat = in_bool(); fail_fstat = in_bool();
  uint8_t fdarg[2] = {FD, 0};
  uint64_t out[2] = {0, 0};
#ifdef WHICH
  uint32_t which = WHICH;
#else
  uint32_t which = (uint32_t)in_range(0, 7);   /* one query decides all eight helpers */
#endif
  int64_t r = w_ftype(which == 7 ? fdarg : path, which, out);
  OBS(r);
  uint32_t own_t = own_mode & 0170000, res_t = res_mode & 0170000;
  if (which == 0) ASSERT(r == (!fail_stat && res_t == 0100000), "isfile(path): stat succeeds and the resolved node is a regular file");
  else if (which == 1) ASSERT(r == (!fail_stat && res_t == 0040000), "isdir(path): stat succeeds and the resolved node is a directory");
  else if (which == 2) ASSERT(r == (!fail_lstat && own_t == 0100000), "lisfile(path): lstat succeeds and the node itself is a regular file");
  else if (which == 3) ASSERT(r == (!fail_lstat && own_t == 0040000), "lisdir(path): lstat succeeds and the node itself is a directory");
  else if (which == 4) ASSERT(r == (!fail_lstat && own_t == 0120000), "islink(path): lstat succeeds and the node itself is a symbolic link");
  else {
    uint8_t failed = which == 5 ? fail_stat : which == 6 ? fail_lstat : fail_fstat;
    uint32_t m = which == 6 ? own_mode : res_mode;
    int64_t sz = which == 6 ? own_size : res_size;
    if (failed) ASSERT(r == W_CANNOT_STAT, "failing call => cannot_stat_file");
    else {
      ASSERT(r >= 0 && out[0] == m && (int64_t)out[1] == sz, "st_mode / st_size are passed through");
      ASSERT(r == (((m & 0170000) == 0100000) ? 1 : 0) + (((m & 0170000) == 0040000) ? 2 : 0) + (((m & 0170000) == 0120000) ? 4 : 0), "isfile/isdir/islink(struct stat) follow the S_IFMT definition");
    }
  }
  ASSERT(n_stat == (which == 0 || which == 1 || which == 5), "stat(2) is called once by exactly the following helpers: isfile, isdir, stat");
  ASSERT(n_lstat == (which == 2 || which == 3 || which == 4 || which == 6), "lstat(2) is called once by exactly: lisfile, lisdir, islink, lstat");
  ASSERT(n_fstat == (which == 7), "fstat(2) is called once by fstat");
}
