/* Reserve-ahead model of std::vector growth, appended to the generated C of the 'R' units (cut: _M_check_len, _M_allocate,
 * _M_deallocate of vector<std::string> and vector<char>; everything else, including _M_realloc_insert, emplace_back,
 * push_back, pop_back, element construction/destruction, is the real libstdc++ code).
 *   growth policy : the first growth of an empty vector reserves VERIF_VEC_CAP elements (libstdc++: 1, 2, 4, ...); a second
 *                   growth is a reported bound failure (never silently wrong)
 *   storage       : one static block per element type instead of operator new (one live vector per element type; a second
 *                   one is a reported bound failure)
 * Why: with the real policy the number and identity of heap blocks depends on symbolic data (a piece is pushed only where
 * a delimiter is), CBMC then case-splits every later access over all blocks (split_args on 2 symbolic bytes: no verdict in
 * 900 s). Not represented by this model: invalidation of element references by a reallocation (the code under test keeps
 * no references across push_back), capacity(), allocation failure. The exact growth code is exercised by the P and X units. */
#ifndef VERIF_VEC_CAP
#define VERIF_VEC_CAP 8
#endif
static uint8_t vr_str_blk[32 * VERIF_VEC_CAP] __attribute__((aligned(8)));
static uint8_t vr_chr_blk[VERIF_VEC_CAP] __attribute__((aligned(8)));
static uint8_t vr_str_used, vr_chr_used;
static uint64_t vr_check_len(uint8_t* vec, uint64_t n, uint64_t elem) {
  uint8_t** f = (uint8_t**)vec; /* _M_start, _M_finish, _M_end_of_storage */
  __CPROVER_assert(f[0] == f[1], "BOUND: reserve-ahead vector model: a vector grew a second time (more than VERIF_VEC_CAP elements)");
  __CPROVER_assume(f[0] == f[1]);
  __CPROVER_assert(n <= VERIF_VEC_CAP, "BOUND: reserve-ahead vector model: request above VERIF_VEC_CAP");
  (void)elem;
  return VERIF_VEC_CAP;
}
uint64_t X__ZNKSt6vectorINSt7__cxx1112basic_stringIcSt11char_traitsIcESaIcEEESaIS5_EE12_M_check_lenEmPKc(uint8_t* vec, uint64_t n, uint8_t* msg) { (void)msg; return vr_check_len(vec, n, 32); }
uint64_t X__ZNKSt6vectorIcSaIcEE12_M_check_lenEmPKc(uint8_t* vec, uint64_t n, uint8_t* msg) { (void)msg; return vr_check_len(vec, n, 1); }
uint8_t* X__ZNSt12_Vector_baseINSt7__cxx1112basic_stringIcSt11char_traitsIcESaIcEEESaIS5_EE11_M_allocateEm(uint8_t* base, uint64_t n) {
  (void)base;
  if (n == 0) return 0;
  __CPROVER_assert(n <= VERIF_VEC_CAP && !vr_str_used, "BOUND: reserve-ahead vector model: second live vector<string> or request above VERIF_VEC_CAP");
  __CPROVER_assume(n <= VERIF_VEC_CAP && !vr_str_used);
  vr_str_used = 1;
  return vr_str_blk;
}
uint8_t* X__ZNSt12_Vector_baseIcSaIcEE11_M_allocateEm(uint8_t* base, uint64_t n) {
  (void)base;
  if (n == 0) return 0;
  __CPROVER_assert(n <= VERIF_VEC_CAP && !vr_chr_used, "BOUND: reserve-ahead vector model: second live vector<char> or request above VERIF_VEC_CAP");
  __CPROVER_assume(n <= VERIF_VEC_CAP && !vr_chr_used);
  vr_chr_used = 1;
  return vr_chr_blk;
}
void X__ZNSt12_Vector_baseINSt7__cxx1112basic_stringIcSt11char_traitsIcESaIcEEESaIS5_EE13_M_deallocateEPS5_m(uint8_t* base, uint8_t* p, uint64_t n) {
  (void)base; (void)n;
  if (!p) return;
  __CPROVER_assert(p == vr_str_blk && vr_str_used, "vector<string> storage released that was not handed out (or twice)");
  vr_str_used = 0;
}
void X__ZNSt12_Vector_baseIcSaIcEE13_M_deallocateEPcm(uint8_t* base, uint8_t* p, uint64_t n) {
  (void)base; (void)n;
  if (!p) return;
  __CPROVER_assert(p == vr_chr_blk && vr_chr_used, "vector<char> storage released that was not handed out (or twice)");
  vr_chr_used = 0;
}
