/* C14: phosg::fgets(FILE*) returns one whole line, however long, or throws. ::fgets / feof / fileno are stubs obeying the C
 * contract over a stream of symbolic bytes: fgets(s, size, f) stores at most size-1 bytes, stops after a newline or at end
 * of data, NUL-terminates, returns NULL when nothing could be read (setting the EOF indicator), or - in the FAULT_AT
 * cells, at that call - fails (NULL, EOF indicator clear). Cells: LEN = line length without terminator, HAS_NL = line is newline-terminated
 * (then XTRA more bytes follow which must not be consumed) or ends at end of data. Line bytes are any value except NUL and
 * newline (a C-string line reader cannot represent NUL: outside the claim).
 * FB = phosg::fgets' internal block size in this build (256 in the source; spec: src_subst replaces it so that lines of
 * one, two and three blocks are within reach).
 * Oracle: no fault => result is exactly the LEN line bytes (+ '\n' iff HAS_NL): not cut at the block boundary, no
 * embedded NUL padding; nothing after the newline is consumed. Fault => io_error. */
#include "harness.h"
#ifndef VERIF_NATIVE_REAL
/* generated C only (spec: unit cuts this constructor): it only formats the what() text. Throw and type are encoded. */
void X__ZN5phosg8io_errorC1EiRKNSt7__cxx1112basic_stringIcSt11char_traitsIcESaIcEEE(uint8_t* self, uint32_t fd, uint8_t* what) { (void)self; (void)fd; (void)what; }
#endif
int64_t w_fgets(uint8_t* f, uint8_t* out, uint64_t cap);

#define W_IO_ERROR (-20)
#ifndef XTRA
#define XTRA 2
#endif
#define T (LEN + (HAS_NL ? 1 + XTRA : 0))
#define EXPECT (LEN + (HAS_NL ? 1 : 0))
#define MAXCALLS (LEN / (FB - 1) + 3)
static uint8_t file_obj[8];
static uint8_t content[T + 1];
static uint64_t pos;
static int calls, eof_flag, faulted;
static uint8_t fault[MAXCALLS + 1];

uint8_t* STUB(fgets)(uint8_t* s, uint32_t size, uint8_t* f) {
  ASSERT(f == file_obj, "fgets on the given stream");
  ASSERT(size == FB, "fgets is given the whole block");
  ASSERT(calls < MAXCALLS, "BOUND: number of fgets() calls");
  ASSUME(calls < MAXCALLS);
  int j = calls++;
  if (fault[j]) { faulted = 1; return 0; }
  /* bytes available up to and including the first newline, or to end of data (control flow is concrete per cell) */
  uint64_t avail = (HAS_NL && pos <= LEN) ? (LEN + 1 - pos) : (T - pos);
  uint64_t k = FB - 1; /* == size - 1 (asserted above); the constant keeps the stub's control flow concrete */
  if (k > avail) k = avail;
  for (uint64_t i = 0; i < k; i++) s[i] = content[pos + i];
  pos += k;
  if (k < FB - 1 && !(HAS_NL && pos == LEN + 1 && k > 0)) eof_flag = 1; /* stopped for lack of data, not at a newline */
  if (k == 0) return 0;
  s[k] = 0;
  return s;
}
uint32_t STUB(feof)(uint8_t* f) { (void)f; return (uint32_t)eof_flag; }
uint32_t STUB(fileno)(uint8_t* f) { (void)f; return 5; }

void harness(void) {
  static uint8_t out[EXPECT + FB + 4];
  for (int i = 0; i < T; i++) {
    content[i] = in_u8();
    if (HAS_NL && i == LEN) content[i] = '\n';
    else ASSUME(content[i] != 0 && content[i] != '\n');
  }
#ifdef FAULT_AT
  fault[FAULT_AT] = 1; /* the FAULT_AT-th ::fgets call fails (cell): keeps the stub's control flow concrete */
#endif
  uint32_t chk = (uint32_t)in_range(0, EXPECT ? EXPECT - 1 : 0); /* one symbolic position instead of a loop over all */
  int64_t r = w_fgets(file_obj, out, sizeof(out));
  OBS(r);
  if (faulted) ASSERT(r == W_IO_ERROR, "a failing fgets() => io_error");
  else {
    ASSERT(r == EXPECT, "the line is returned whole: not cut at an internal block, not padded");
    if (r == EXPECT) {
      if (EXPECT) ASSERT(out[chk] == content[chk], "the returned bytes are the bytes of the line in order");
    }
    ASSERT(pos == EXPECT, "exactly the line was consumed from the stream");
  }
}
