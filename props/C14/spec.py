ID = 'C14'
UNITS = {'fs': dict(wrap='wrap.cc', new_block=64),
         # read_all: the internal block size `static const ssize_t read_size = 16 * 1024;` is not a macro; with the real value
         # no query returns (measured, see NOTES.md). The unit is built from a copy of Filesystem.cc in which that one
         # initialiser is VERIF_READ_SIZE (both builds, generated and real).
         'fsrs4': dict(wrap='wrap.cc', new_block=160, cxxflags=['-DVERIF_READ_SIZE=4'], cuts=[r'^_ZN5phosg8io_errorC1Ei$'],
                       src_subst={'Filesystem.cc': [(r'static const ssize_t read_size = 16 \* 1024;', 'static const ssize_t read_size = VERIF_READ_SIZE;', 2)]}),
         # same TU; the cannot_open_file(const string&) constructor (what() text concatenation only) is an external no-op
         # phosg::fgets uses std::deque<std::string>: engine/shim deque (fixed capacity 8 blocks)
         # and 256-byte blocks (literals 0x100 / 0xFF, not macros). Real size: no verdict (LEN=0 > 40 min); the unit replaces
         # the literal(s) by VERIF_FGETS_BLOCK = 8 (patterns match the unpatched tree, 2+1 places, and the patched one, 1+0).
         'fsfb8': dict(wrap='wrap.cc', shim=True, new_block=64, cxxflags=['-DVERIF_FGETS_BLOCK=8'],
                       cuts=[r'^_ZN5phosg8io_errorC1EiRKNSt7__cxx1112basic_string'],
                       src_subst={'Filesystem.cc': [(r'0x100', 'VERIF_FGETS_BLOCK', [1, 2]), (r'0xFF', '(VERIF_FGETS_BLOCK - 1)', [0, 1])]}),
         'fsx': dict(wrap='wrap.cc', new_block=64, cuts=[r'^_ZN5phosg16cannot_open_fileC1ERKNSt7__cxx1112basic_string'])}
BOUNDS = ''
STUBS = []
OUTSIDE = []
ASSUMPTIONS = []

# heap blocks are byte arrays of exactly new_block (64) elements = CBMC's default field-sensitivity limit; with symbolic
# offsets into them per-element SSA symbols explode (measured: Poll 2 ops 65M variables / 38 GB vs 0.6M / 0.3 GB with 0)
FS0 = ['--max-field-sensitivity-array-size', '0']

RW = ['readx', 'readx_str', 'writex', 'writex_str', 'preadx', 'preadx_str', 'pwritex', 'freadx', 'freadx_str', 'fwritex', 'read', 'fread']

def queries(tier):
    qs = []
    for L in range(0, 6):
        qs.append(dict(name='path_len%d' % L, unit='fs', harness='h_path.c', defs={'LEN': L}, unwind=L + 18, timeout=300, mem_gb=4,
                       desc='basename/dirname on %d symbolic bytes: definition via last slash and dirname+"/"+basename == p' % L,
                       bounds='path length == %d, all byte values' % L))
    for w, nm in enumerate(RW):
        for S in ([0, 1, 3] if tier == 'quick' else [0, 1, 2, 3, 4]):
            qs.append(dict(name='rw_%s_size%d' % (nm, S), unit='fs', harness='h_rw.c', defs={'WHICH': w, 'SIZE': S}, unwind=40, timeout=300, mem_gb=4,
                           desc='%s with requested size %d against an OS call returning any count in [-1,size]' % (nm, S),
                           bounds='size == %d, one OS call, symbolic contents' % S))
    for n in ([1, 2, 3] if tier == 'quick' else [1, 2, 3, 4]):
        qs.append(dict(name='poll_ops%d' % n, unit='fs', harness='h_poll.c', defs={'NOPS': n}, unwind=42, timeout=600, mem_gb=6, flags=FS0,
                       desc='Poll: every history of %d add/remove operations over fds {3,4,5}, symbolic event masks, vs a map model; poll_fds sorted and duplicate-free after every operation' % n,
                       bounds='%d operations, 3 descriptors' % n))
    for n in ([1, 2, 3] if tier == 'quick' else [1, 2, 3, 4]):
        qs.append(dict(name='sfd_ops%d' % n, unit='fsx', harness='h_sfd.c', defs={'NOPS': n}, unwind=40, timeout=900, mem_gb=8, flags=FS0,
                       desc='scoped_fd: every sequence of %d operations (10 kinds, 2 objects, open may fail) vs an ownership model; every descriptor handed out is closed exactly once' % n,
                       bounds='%d operations, 2 objects' % n))
    for S in ([0, 1, 2, 3, 4, 5] if tier == 'quick' else range(0, 10)):
        qs.append(dict(name='readall_fd_rs4_len%d' % S, unit='fsrs4', harness='h_readall.c', defs={'S': S, 'RS': 4}, unwind=max(S, 4) + 4, timeout=900, mem_gb=10, flags=FS0, backend='cadical',
                       desc='read_all(fd) over a %d-byte symbolic source delivered in every possible chunking (each read returns 1..remaining bytes, then 0), optional read fault: result == source or io_error' % S,
                       bounds='source length == %d; <= %d read calls' % (S, S + 2)))
    for S in ([0, 3, 4, 5, 8] if tier == 'quick' else range(0, 10)):
        qs.append(dict(name='readall_file_rs4_len%d' % S, unit='fsrs4', harness='h_readall_file.c', defs={'S': S, 'RS': 4}, unwind=max(S, 4) + 4, timeout=900, mem_gb=10, flags=FS0, backend='cadical',
                       desc='read_all(FILE*) over a %d-byte symbolic stream, fread per C contract (short only at EOF), block size 4: result == stream' % S,
                       bounds='stream length == %d, block size 4 (substituted for 16384)' % S))
    FB = 8
    JOIN = '_ZN5phosg4joinISt5dequeINSt7__cxx1112basic_stringIcSt11char_traitsIcESaIcEEEvEEES7_RKT_.0'
    cells = [(0, 0), (0, 1), (1, 1), (6, 1), (7, 0), (7, 1), (8, 1), (14, 1)] if tier == 'quick' else [(L, nl) for L in (0, 1, 5, 6, 7, 8, 13, 14, 15, 21, 22) for nl in (0, 1)]
    for L, nl in cells:
        qs.append(dict(name='fgets_fb8_len%d_nl%d' % (L, nl), unit='fsfb8', harness='h_fgets.c', defs={'LEN': L, 'HAS_NL': nl, 'FB': FB}, unwind=max(L + 5, FB + 3), timeout=1500, mem_gb=10, flags=FS0, backend='cadical',
                       unwindset='%s:%d' % (JOIN, L // (FB - 1) + 4),  # the join loop runs once per block
                       desc='phosg::fgets (block size 8) on a line of %d symbolic bytes %s, ::fgets per C contract: the whole line, nothing more' % (L, 'newline-terminated + 2 following bytes' if nl else 'ended by end of data'),
                       bounds='line length == %d, block size 8 (substituted for 256)' % L))
    for L, nl, fa in ([(0, 1, 0), (9, 1, 1)] if tier == 'quick' else [(0, 1, 0), (9, 1, 1), (9, 0, 1), (16, 1, 2)]):
        qs.append(dict(name='fgets_fb8_len%d_nl%d_fault%d' % (L, nl, fa), unit='fsfb8', harness='h_fgets.c', defs={'LEN': L, 'HAS_NL': nl, 'FB': FB, 'FAULT_AT': fa}, unwind=max(L + 5, 26), timeout=1500, mem_gb=10, flags=FS0, backend='cadical',
                       unwindset='%s:%d' % (JOIN, L // (FB - 1) + 4),
                       desc='phosg::fgets (block size 8), line of %d bytes, the %d-th ::fgets call fails without EOF: io_error, no partial line' % (L, fa),
                       bounds='line length == %d, block size 8' % L))
    return qs
