ID = 'C14'
UNITS = {'fs': dict(wrap='wrap.cc', new_block=64),
         # read_all: the internal block size `static const ssize_t read_size = 16 * 1024;` is not a macro; with the real value
         # no query returns (measured, see NOTES.md). The unit is built from a copy of Filesystem.cc in which that one
         # initialiser is VERIF_READ_SIZE (both builds, generated and real).
         'fsrs4': dict(wrap='wrap.cc', new_block=64, cxxflags=['-DVERIF_READ_SIZE=4'], cuts=[r'^_ZN5phosg8io_errorC1Ei$'],
                       src_subst={'Filesystem.cc': [(r'static const ssize_t read_size = 16 \* 1024;', 'static const ssize_t read_size = VERIF_READ_SIZE;', 2)]}),
         # same TU; the cannot_open_file(const string&) constructor (what() text concatenation only) is an external no-op
         'fsrs4b': dict(wrap='wrap.cc', new_block=160, cxxflags=['-DVERIF_READ_SIZE=4'], cuts=[r'^_ZN5phosg8io_errorC1Ei$'],  # >= 3 blocks: vector<string> storage 128 bytes
                        src_subst={'Filesystem.cc': [(r'static const ssize_t read_size = 16 \* 1024;', 'static const ssize_t read_size = VERIF_READ_SIZE;', 2)]}),
         # phosg::fgets uses std::deque<std::string>: engine/shim deque (fixed capacity 8 blocks)
         # and 256-byte blocks (literals 0x100 / 0xFF, not macros). Real size: no verdict (LEN=0 > 40 min); the unit replaces
         # the literal(s) by VERIF_FGETS_BLOCK = 8 (patterns match the unpatched tree, 2+1 places, and the patched one, 1+0).
         'fsfb8': dict(wrap='wrap.cc', shim=True, new_block=64, cxxflags=['-DVERIF_FGETS_BLOCK=8'],
                       cuts=[r'^_ZN5phosg8io_errorC1EiRKNSt7__cxx1112basic_string'],
                       src_subst={'Filesystem.cc': [(r'0x100', 'VERIF_FGETS_BLOCK', [1, 2]), (r'0xFF', '(VERIF_FGETS_BLOCK - 1)', [0, 1])]}),
         'fsx': dict(wrap='wrap.cc', new_block=64, cuts=[r'^_ZN5phosg16cannot_open_fileC1ERKNSt7__cxx1112basic_string'])}
BOUNDS = ('read_all(fd)/read_all(FILE*): internal block size 4 (source: 16384, replaced by src_subst), source length 0..7 bytes for read_all(fd) (quick 0,2,5) and 0..9 for read_all(FILE*) (quick 0,3,4,5,8), '
          'symbolic contents, every chunking in which each read() returns 1..min(requested, remaining) bytes, read fault at any call; '
          'phosg::fgets: internal block size 8 (source: 256, replaced by src_subst), line lengths {0,1,5,6,7,8,9,13,14} with/without newline, '
          'symbolic line bytes (no NUL), ::fgets failure at call 0/1 in dedicated cells; readx/writex/preadx/pwritex/freadx/fwritex/read/fread: '
          'requested size 0..4, OS count any value in [-1,size]; basename/dirname: every path of 0..5 bytes; Poll: every history of <= 4 (quick 3) '
          'add/remove over fds {3,4,5} with symbolic 16-bit masks; scoped_fd: every sequence of <= 4 (quick 3) operations of 10 kinds over 2 objects')
STUBS = ['read/write/pread/pwrite: return a solver-chosen count (reads deliver that many bytes of a symbolic source), -1 = failure',
         'fread/fwrite: C contract (h_rw: any count in [0,size]; h_readall_file: full count unless end of data)',
         'fgets/feof/fileno: C contract over a symbolic byte stream (stops after newline or size-1 bytes, NUL-terminates, NULL+EOF flag at end of data, NULL without EOF flag on failure)',
         'open/close: open hands out fresh descriptors or fails; close records its argument',
         'vasprintf -> constant text "E", strerror_r -> no-op (generated C): exception message TEXT is not part of any claim',
         'cut to no-ops in generated C (what() text formatting only): io_error(int) [read_all units], io_error(int, const string&) [fgets unit], cannot_open_file(const string&) [scoped_fd unit]',
         'engine/shim/deque (capacity 8) for the block list of phosg::fgets']
OUTSIDE = ['the real block sizes 16384 / 256: no query returns with them (NOTES.md has the measurements); block-boundary logic is decided for block sizes 4 / 8 substituted into a copy of Filesystem.cc',
           'load_file/save_file (one read/write on a regular file: the property there is the kernel\'s), list_directory, recursive unlink, real pipes and writer timing',
           'stream errors reported through ferror() for the fread-based helpers (fread returns a short count at EOF and on error alike; phosg does not call ferror)',
           'lines containing NUL bytes (phosg::fgets measures blocks with strlen)',
           'interrupted system calls: read() == -1/EINTR is treated as any other failure (io_error)']
ASSUMPTIONS = ['read_all and phosg::fgets behave uniformly in their block-size constant: the only source change in units fsrs4/fsrs4b/fsfb8 is that constant (16 * 1024 -> 4, 0x100/0xFF -> 8/7), applied to both the solver build and the native real build',
               'libc obeys the POSIX/C contracts encoded in the stubs',
               'CBMC flag --max-field-sensitivity-array-size 0 (performance only)']

# heap blocks are byte arrays of exactly new_block (64) elements = CBMC's default field-sensitivity limit; with symbolic
# offsets into them per-element SSA symbols explode (measured: Poll 2 ops 65M variables / 38 GB vs 0.6M / 0.3 GB with 0)
FS0 = ['--max-field-sensitivity-array-size', '0']

RW = ['readx', 'readx_str', 'writex', 'writex_str', 'preadx', 'preadx_str', 'pwritex', 'freadx', 'freadx_str', 'fwritex', 'read', 'fread']

def queries(tier):
    qs = []
    for L in range(0, 6):
        qs.append(dict(name='path_len%d' % L, unit='fs', harness='h_path.c', defs={'LEN': L}, unwind=L + 18, timeout=300, mem_gb=2,
                       desc='basename/dirname on %d symbolic bytes: definition via last slash and dirname+"/"+basename == p' % L,
                       bounds='path length == %d, all byte values' % L))
    for w, nm in enumerate(RW):
        for S in ([0, 1, 3] if tier == 'quick' else [0, 1, 2, 3, 4]):
            qs.append(dict(name='rw_%s_size%d' % (nm, S), unit='fs', harness='h_rw.c', defs={'WHICH': w, 'SIZE': S}, unwind=40, timeout=300, mem_gb=2,
                           desc='%s with requested size %d against an OS call returning any count in [-1,size]' % (nm, S),
                           bounds='size == %d, one OS call, symbolic contents' % S))
    for n in ([1, 2, 3] if tier == 'quick' else [1, 2, 3, 4]):
        qs.append(dict(name='poll_ops%d' % n, unit='fs', harness='h_poll.c', defs={'NOPS': n}, unwind=42, timeout=900, mem_gb=(3 if n < 4 else 9), flags=FS0,
                       desc='Poll: every history of %d add/remove operations over fds {3,4,5}, symbolic event masks, vs a map model; poll_fds sorted and duplicate-free after every operation' % n,
                       bounds='%d operations, 3 descriptors' % n))
    for n in ([1, 2, 3] if tier == 'quick' else [1, 2, 3, 4]):
        qs.append(dict(name='sfd_ops%d' % n, unit='fsx', harness='h_sfd.c', defs={'NOPS': n}, unwind=40, timeout=900, mem_gb=3, flags=FS0,
                       desc='scoped_fd: every sequence of %d operations (10 kinds, 2 objects, open may fail) vs an ownership model; every descriptor handed out is closed exactly once' % n,
                       bounds='%d operations, 2 objects' % n))
    for S in ([0, 2, 5] if tier == 'quick' else range(0, 8)):  # S = 8, 9 (vector<string> of 3 blocks, 160-byte heap blocks): out of 13 GB
        qs.append(dict(name='readall_fd_rs4_len%d' % S, unit='fsrs4' if S < 8 else 'fsrs4b', harness='h_readall.c', defs={'S': S, 'RS': 4}, unwind=max(S, 4) + 4, timeout=1500, mem_gb=(7 if S < 6 else 13), flags=FS0, backend='cadical',
                       desc='read_all(fd) over a %d-byte symbolic source delivered in every possible chunking (each read returns 1..remaining bytes, then 0), optional read fault: result == source or io_error' % S,
                       bounds='source length == %d; <= %d read calls' % (S, S + 2)))
    for S in ([0, 3, 4, 5, 8] if tier == 'quick' else range(0, 10)):
        qs.append(dict(name='readall_file_rs4_len%d' % S, unit='fsrs4' if S < 8 else 'fsrs4b', harness='h_readall_file.c', defs={'S': S, 'RS': 4}, unwind=max(S, 4) + 4, timeout=900, mem_gb=3, flags=FS0, backend='cadical',
                       desc='read_all(FILE*) over a %d-byte symbolic stream, fread per C contract (short only at EOF), block size 4: result == stream' % S,
                       bounds='stream length == %d, block size 4 (substituted for 16384)' % S))
    FB = 8
    JOIN = '_ZN5phosg4joinISt5dequeINSt7__cxx1112basic_stringIcSt11char_traitsIcESaIcEEEvEEES7_RKT_.0'
    cells = [(0, 0), (0, 1), (1, 1), (6, 1), (7, 0), (7, 1), (8, 1)] if tier == 'quick' else [(L, nl) for L in (0, 1, 5, 6, 7, 8, 9, 13, 14) for nl in (0, 1)]
    for L, nl in cells:
        qs.append(dict(name='fgets_fb8_len%d_nl%d' % (L, nl), unit='fsfb8', harness='h_fgets.c', defs={'LEN': L, 'HAS_NL': nl, 'FB': FB}, unwind=max(L + 5, FB + 3), timeout=1800, mem_gb=(7 if L < 13 else 13), flags=FS0, backend='cadical',
                       unwindset='%s:%d' % (JOIN, L // (FB - 1) + 4),  # the join loop runs once per block
                       desc='phosg::fgets (block size 8) on a line of %d symbolic bytes %s, ::fgets per C contract: the whole line, nothing more' % (L, 'newline-terminated + 2 following bytes' if nl else 'ended by end of data'),
                       bounds='line length == %d, block size 8 (substituted for 256)' % L))
    for L, nl, fa in ([(0, 1, 0), (9, 1, 1)] if tier == 'quick' else [(0, 1, 0), (9, 1, 1), (9, 0, 1)]):
        qs.append(dict(name='fgets_fb8_len%d_nl%d_fault%d' % (L, nl, fa), unit='fsfb8', harness='h_fgets.c', defs={'LEN': L, 'HAS_NL': nl, 'FB': FB, 'FAULT_AT': fa}, unwind=max(L + 5, 26), timeout=1500, mem_gb=7, flags=FS0, backend='cadical',
                       unwindset='%s:%d' % (JOIN, L // (FB - 1) + 4),
                       desc='phosg::fgets (block size 8), line of %d bytes, the %d-th ::fgets call fails without EOF: io_error, no partial line' % (L, fa),
                       bounds='line length == %d, block size 8' % L))
    return qs
