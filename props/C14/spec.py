ID = 'C14'
# Units fsq* (file / directory / tree harnesses): the "P encoding" of engine/README.md - -fno-inline so that std::string::_M_create stays
# a function and can be cut into a reported bound (sso_bound.c: every std::string <= 15 bytes), pool allocator, --ptrdiff/--flat-unions,
# engine/shim unordered_set - plus msg_cut.c: functions that only build exception what() TEXT return the empty string / do nothing
# (NOTES.md "Stubs"). fsq192: 192-byte operator-new blocks (shim set of 4 strings = 160 bytes). fsqs (list_directory_sorted only):
# additionally std::sort and vector growth are models (sort_small.c, vec_reserve.c).
MSG_CUTS = ['basic_stringIcSt11char_traitsIcESaIcEE9_M_createERmm$',
            r'^_ZN5phosg13string_printfB5cxx11EPKcz$', r'^_ZN5phosg16string_for_errorB5cxx11Ei$',
            r'^_ZStplIcSt11char_traitsIcESaIcEENSt7__cxx1112basic_stringIT_T0_T1_EEPKS5_RKS8_$',
            r'^_ZStplIcSt11char_traitsIcESaIcEENSt7__cxx1112basic_stringIT_T0_T1_EEOS8_PKS5_$',
            r'^_ZStplIcSt11char_traitsIcESaIcEENSt7__cxx1112basic_stringIT_T0_T1_EEOS8_S9_$',
            r'^_ZN5phosg16cannot_stat_fileC1Ei$', r'^_ZN5phosg16cannot_stat_fileC1ERKNSt7__cxx1112basic_string', r'^_ZN5phosg16cannot_open_fileC1ERKNSt7__cxx1112basic_string']
FSQ = dict(wrap='wrap.cc', shim=True, cxxflags=['-fno-inline'], ir2c_flags=['--ptrdiff', '--flat-unions'], gen_defs=['VERIF_NEW_POOL=8'],
           extra_c=['sso_bound.c', 'msg_cut.c'], cuts=MSG_CUTS)
UNITS = {'fs': dict(wrap='wrap.cc', new_block=64),
         # read_all: the internal block size `static const ssize_t read_size = 16 * 1024;` is not a macro; with the real value
         # no query returns (measured, see NOTES.md). The unit is built from a copy of Filesystem.cc in which that one
         # initialiser is VERIF_READ_SIZE (both builds, generated and real).
         'fsrs4': dict(wrap='wrap.cc', new_block=64, cxxflags=['-DVERIF_READ_SIZE=4'], cuts=[r'^_ZN5phosg8io_errorC1Ei$'],
                       src_subst={'Filesystem.cc': [(r'static const ssize_t read_size = 16 \* 1024;', 'static const ssize_t read_size = VERIF_READ_SIZE;', 2)]}),
         # same TU; the cannot_open_file(const string&) constructor (what() text concatenation only) is an external no-op
         'fsrs4b': dict(wrap='wrap.cc', new_block=160, cxxflags=['-DVERIF_READ_SIZE=4'], cuts=[r'^_ZN5phosg8io_errorC1Ei$'],  # >= 3 blocks: vector<string> storage 128 bytes
                        src_subst={'Filesystem.cc': [(r'static const ssize_t read_size = 16 \* 1024;', 'static const ssize_t read_size = VERIF_READ_SIZE;', 2)]}),
         # phosg::fgets uses std::deque<std::string>: engine/shim deque (fixed capacity 8 blocks)
         # and 256-byte blocks (literals 0x100 / 0xFF, not macros). Real size: no verdict (LEN=0 > 40 min); the unit replaces
         # the literal(s) by VERIF_FGETS_BLOCK = 8 (patterns match the unpatched tree, 2+1 places, and the patched one, 1+0).
         'fsfb8': dict(wrap='wrap.cc', shim=True, new_block=64, cxxflags=['-DVERIF_FGETS_BLOCK=8'],
                       cuts=[r'^_ZN5phosg8io_errorC1EiRKNSt7__cxx1112basic_string'],
                       src_subst={'Filesystem.cc': [(r'0x100', 'VERIF_FGETS_BLOCK', [1, 2]), (r'0xFF', '(VERIF_FGETS_BLOCK - 1)', [0, 1])]}),
         'fsx': dict(wrap='wrap.cc', new_block=64, cuts=[r'^_ZN5phosg16cannot_open_fileC1ERKNSt7__cxx1112basic_string']),
         'fsq': dict(FSQ, new_block=64),
         'fsq192': dict(FSQ, new_block=192),
         'fsqs': dict(FSQ, new_block=192, gen_defs=['VERIF_NEW_POOL=8', 'VERIF_VEC_CAP=8'], extra_c=FSQ['extra_c'] + ['vec_reserve.c', 'sort_small.c'],
                      cuts=MSG_CUTS + [r'^_ZSt4sortIN9__gnu_cxx17__normal_iteratorIPNSt7__cxx1112basic_string',
                                       '^_ZNKSt6vectorINSt7__cxx1112basic_stringIcSt11char_traitsIcESaIcEEESaIS5_EE12_M_check_lenEmPKc$',
                                       '^_ZNSt12_Vector_baseINSt7__cxx1112basic_stringIcSt11char_traitsIcESaIcEEESaIS5_EE1[13]_M_(de)?allocateE']),
         }
BOUNDS = ('read_all(fd)/read_all(FILE*): internal block size 4 (source: 16384, replaced by src_subst), source length 0..7 bytes for read_all(fd) (quick 0,2,5) and 0..9 for read_all(FILE*) (quick 0,3,4,5,8), '
          'symbolic contents, every chunking in which each read() returns 1..min(requested, remaining) bytes, read fault at any call; '
          'phosg::fgets: internal block size 8 (source: 256, replaced by src_subst), line lengths {0,1,5,6,7,8,9,13,14} with/without newline, '
          'symbolic line bytes (no NUL), ::fgets failure at call 0/1 in dedicated cells; readx/writex/preadx/pwritex/freadx/fwritex/read/fread: '
          'requested size 0..4, OS count any value in [-1,size]; basename/dirname: every path of 0..5 bytes; Poll: every history of <= 4 (quick 3) '
          'add/remove over fds {3,4,5} with symbolic 16-bit masks; scoped_fd: every sequence of <= 4 (quick 3) operations of 10 kinds over 2 objects (descriptors from 10; one cell with 2 operations and descriptors from 0); '
          'load_file/save_file: data of 0..3 and 7 symbolic bytes (quick 0, 2), pointer and std::string forms, one file that may pre-exist with 2 old bytes, every combination of failing open/fstat, '
          'write count in [-1,n], read count in [-1,available] over <= 2 write/read calls, st_size off by -2..+2 in dedicated cells (there is no internal block size: one read/write call); '
          'isfile/isdir/lisfile/lisdir/islink/stat/lstat/fstat: all 2^32 st_mode values for the node and for the link target; '
          'list_directory / list_directory_sorted: 0..3 entries with symbolic distinct names of 1..2 bytes (1..3 bytes for 1-2 entries) plus "." and ".." at every position; '
          'unlink: root + <= 2 entries + <= 1 sub-entry, 78 concrete (tree shape, entry order, failing call, path type, recursive flag) configurations (quick 5) over node types file/dir/link->file/link->dir/dangling link, names a/b/c, path itself of every type, recursive and non-recursive')
STUBS = ['read/write/pread/pwrite: return a solver-chosen count (reads deliver that many bytes of a symbolic source), -1 = failure',
         'fread/fwrite: C contract (h_rw: any count in [0,size]; h_readall_file: full count unless end of data)',
         'fgets/feof/fileno: C contract over a symbolic byte stream (stops after newline or size-1 bytes, NUL-terminates, NULL+EOF flag at end of data, NULL without EOF flag on failure)',
         'open/close: open hands out fresh descriptors or fails; close records its argument',
         'vasprintf -> constant text "E", strerror_r -> no-op (generated C): exception message TEXT is not part of any claim',
         'cut to no-ops in generated C (what() text formatting only): io_error(int) [read_all units], io_error(int, const string&) [fgets unit], cannot_open_file(const string&) [scoped_fd unit]',
         'engine/shim/deque (capacity 8) for the block list of phosg::fgets',
         'h_file.c one-file file system: open (O_CREAT creates, O_TRUNC empties, missing file without O_CREAT or solver choice => -1/errno), write (solver-chosen count in [-1,n] stored at the offset), fstat (S_IFREG, st_size = length + DELTA, or -1), read (solver-chosen count in [-1, min(n, bytes left)], tail of the buffer untouched), close (marks closed, result solver-chosen); errno symbolic on entry, written only by failing calls',
         'h_ftype.c: stat/lstat/fstat fill st_mode/st_size from symbolic values or fail',
         'h_lsdir.c: opendir (NULL/errno by solver choice), readdir (one static struct dirent overwritten per call, symbolic bytes after the terminating NUL, NULL at the end and afterwards), closedir; readdir never fails',
         'h_rmtree.c tree model: stat follows a final link / lstat does not, opendir follows links and lists ".", "..", live entries; unlink(2): ENOENT missing, EISDIR directory, never follows; rmdir(2): ENOENT, ENOTDIR for non-directories and links, non-empty directory = model assertion (+ENOTEMPTY); injected failure = EACCES without effect; path resolution through directories and links to directories',
         'units fsq/fsq192/fsqs (msg_cut.c): string_printf, string_for_error and the three std::operator+ instantiations that occur only in exception-message concatenations return the empty string; constructors cannot_stat_file(int/string), cannot_open_file(string) are no-ops: what() text is never part of a claim. std::string::_M_create cut (sso_bound.c): every std::string <= 15 bytes or a reported bound failure. operator new = deterministic pool allocator (VERIF_NEW_POOL)',
         'engine/shim/unordered_set (capacity 4, insertion-order iteration) for the result of list_directory',
         'unit fsqs only (list_directory_sorted): std::sort(vector<string>::iterator) replaced by an insertion-sort MODEL by std::string operator< for <= 5 small strings (sort_small.c) and vector growth by the reserve-ahead model vec_reserve.c (copied from props/C08); with the real libstdc++ introsort no verdict in 15 min even for the empty directory']
OUTSIDE = ['the real block sizes 16384 / 256: no query returns with them (NOTES.md has the measurements); block-boundary logic is decided for block sizes 4 / 8 substituted into a copy of Filesystem.cc',
           'real pipes and writer timing; real kernel file systems (load_file/save_file/list_directory/unlink are decided against the contract stubs listed above)',
           'load_file on a file whose real length exceeds st_size (it grew after fstat, or st_size is not meaningful: /proc, /sys, FIFOs report 0): phosg returns exactly the first st_size bytes; the cells file_load_deltam* only exclude garbage/padding, the property text does not say whether prefix or exception is right',
           'readdir() failing in the middle of a directory (NULL with errno set): phosg cannot tell it from the end of the directory (errno is not cleared/inspected) and returns the names read so far - observation, the readdir stub never fails; same for a failing closedir/close (results ignored by phosg)',
           'save_file: mode bits of the created file (variadic third argument of open), fsync/close errors',
           'recursive unlink: trees deeper than 2 levels or wider than 2 entries, symbolic entry names (one file with a symbolic 1-byte name: no verdict in 360 s; symbolic names are covered for list_directory), symbolic node types / entry order / fault position (each is a concrete cell: a symbolic choice stops constant folding, empty tree no verdict in 18 min), failures of stat itself, ENOENT races (another process deleting entries concurrently)',
           'the real libstdc++ std::sort and std::unordered_set code (model / shim), exception message texts',
           'stream errors reported through ferror() for the fread-based helpers (fread returns a short count at EOF and on error alike; phosg does not call ferror)',
           'lines containing NUL bytes (phosg::fgets measures blocks with strlen)',
           'interrupted system calls: read() == -1/EINTR is treated as any other failure (io_error)']
ASSUMPTIONS = ['read_all and phosg::fgets behave uniformly in their block-size constant: the only source change in units fsrs4/fsrs4b/fsfb8 is that constant (16 * 1024 -> 4, 0x100/0xFF -> 8/7), applied to both the solver build and the native real build',
               'libc obeys the POSIX/C contracts encoded in the stubs',
               'CBMC flag --max-field-sensitivity-array-size 0 / 512 (performance only)',
               'x86-64 glibc layout of struct stat (st_mode at offset 24, st_size at 48, 144 bytes) and struct dirent (d_name at offset 19) in the stubs; the native real build uses the same stubs, so a wrong offset shows up as a translation-validation/replay failure of the stat-based oracles',
               'units fsq*: no std::string longer than 15 bytes occurs (reported bound otherwise); pool allocator: use-after-delete not detected by CBMC (ASan checks the native runs)']

# heap blocks are byte arrays of exactly new_block (64) elements = CBMC's default field-sensitivity limit; with symbolic
# offsets into them per-element SSA symbols explode (measured: Poll 2 ops 65M variables / 38 GB vs 0.6M / 0.3 GB with 0)
FS0 = ['--max-field-sensitivity-array-size', '0']
# the file / directory / tree harnesses keep paths, shapes and most heap content concrete: arrays up to 512 elements are split into
# cells so that those values constant-fold during symbolic execution (with 0: nothing folds, rmtree on the EMPTY directory no verdict in 18 min vs 0.3 s)
FS512 = ['--max-field-sensitivity-array-size', '512']

RW = ['readx', 'readx_str', 'writex', 'writex_str', 'preadx', 'preadx_str', 'pwritex', 'freadx', 'freadx_str', 'fwritex', 'read', 'fread']

USET_IT = '_ZNSt13unordered_setINSt7__cxx1112basic_stringIcSt11char_traitsIcESaIcEEEvvvE8iteratorppEv.0:5'  # shim iterator++: at most VERIF_USET_CAP + 1 steps

def queries(tier):
    qs = []
    for L in range(0, 6):
        qs.append(dict(name='path_len%d' % L, unit='fs', harness='h_path.c', defs={'LEN': L}, unwind=L + 18, timeout=300, mem_gb=2,
                       desc='basename/dirname on %d symbolic bytes: definition via last slash and dirname+"/"+basename == p' % L,
                       bounds='path length == %d, all byte values' % L))
    for w, nm in enumerate(RW):
        for S in ([0, 1, 3] if tier == 'quick' else [0, 1, 2, 3, 4]):
            qs.append(dict(name='rw_%s_size%d' % (nm, S), unit='fs', harness='h_rw.c', defs={'WHICH': w, 'SIZE': S}, unwind=40, timeout=300, mem_gb=2,
                           desc='%s with requested size %d against an OS call returning any count in [-1,size]' % (nm, S),
                           bounds='size == %d, one OS call, symbolic contents' % S))
    for n in ([1, 2, 3] if tier == 'quick' else [1, 2, 3, 4]):
        qs.append(dict(name='poll_ops%d' % n, unit='fs', harness='h_poll.c', defs={'NOPS': n}, unwind=42, timeout=900, mem_gb=(3 if n < 4 else 9), flags=FS0,
                       desc='Poll: every history of %d add/remove operations over fds {3,4,5}, symbolic event masks, vs a map model; poll_fds sorted and duplicate-free after every operation' % n,
                       bounds='%d operations, 3 descriptors' % n))
    for n in ([1, 2, 3] if tier == 'quick' else [1, 2, 3, 4]):
        qs.append(dict(name='sfd_ops%d' % n, unit='fsx', harness='h_sfd.c', defs={'NOPS': n}, unwind=40, timeout=900, mem_gb=3, flags=FS0,
                       desc='scoped_fd: every sequence of %d operations (10 kinds, 2 objects, open may fail) vs an ownership model; every descriptor handed out is closed exactly once' % n,
                       bounds='%d operations, 2 objects' % n))
    for S in ([0, 2, 5] if tier == 'quick' else range(0, 8)):  # S = 8, 9 (vector<string> of 3 blocks, 160-byte heap blocks): out of 13 GB
        qs.append(dict(name='readall_fd_rs4_len%d' % S, unit='fsrs4' if S < 8 else 'fsrs4b', harness='h_readall.c', defs={'S': S, 'RS': 4}, unwind=max(S, 4) + 4, timeout=1500, mem_gb=(7 if S < 6 else 13), flags=FS0, backend='cadical',
                       desc='read_all(fd) over a %d-byte symbolic source delivered in every possible chunking (each read returns 1..remaining bytes, then 0), optional read fault: result == source or io_error' % S,
                       bounds='source length == %d; <= %d read calls' % (S, S + 2)))
    for S in ([0, 3, 4, 5, 8] if tier == 'quick' else range(0, 10)):
        qs.append(dict(name='readall_file_rs4_len%d' % S, unit='fsrs4' if S < 8 else 'fsrs4b', harness='h_readall_file.c', defs={'S': S, 'RS': 4}, unwind=max(S, 4) + 4, timeout=900, mem_gb=3, flags=FS0, backend='cadical',
                       desc='read_all(FILE*) over a %d-byte symbolic stream, fread per C contract (short only at EOF), block size 4: result == stream' % S,
                       bounds='stream length == %d, block size 4 (substituted for 16384)' % S))
    FB = 8
    JOIN = '_ZN5phosg4joinISt5dequeINSt7__cxx1112basic_stringIcSt11char_traitsIcESaIcEEEvEEES7_RKT_.0'
    cells = [(0, 0), (0, 1), (1, 1), (6, 1), (7, 0), (7, 1), (8, 1)] if tier == 'quick' else [(L, nl) for L in (0, 1, 5, 6, 7, 8, 9, 13, 14) for nl in (0, 1)]
    for L, nl in cells:
        qs.append(dict(name='fgets_fb8_len%d_nl%d' % (L, nl), unit='fsfb8', harness='h_fgets.c', defs={'LEN': L, 'HAS_NL': nl, 'FB': FB}, unwind=max(L + 5, FB + 3), timeout=1800, mem_gb=(7 if L < 13 else 13), flags=FS0, backend='cadical',
                       unwindset='%s:%d' % (JOIN, L // (FB - 1) + 4),  # the join loop runs once per block
                       desc='phosg::fgets (block size 8) on a line of %d symbolic bytes %s, ::fgets per C contract: the whole line, nothing more' % (L, 'newline-terminated + 2 following bytes' if nl else 'ended by end of data'),
                       bounds='line length == %d, block size 8 (substituted for 256)' % L))
    for L, nl, fa in ([(0, 1, 0), (9, 1, 1)] if tier == 'quick' else [(0, 1, 0), (9, 1, 1), (9, 0, 1)]):
        qs.append(dict(name='fgets_fb8_len%d_nl%d_fault%d' % (L, nl, fa), unit='fsfb8', harness='h_fgets.c', defs={'LEN': L, 'HAS_NL': nl, 'FB': FB, 'FAULT_AT': fa}, unwind=max(L + 5, 26), timeout=1500, mem_gb=7, flags=FS0, backend='cadical',
                       unwindset='%s:%d' % (JOIN, L // (FB - 1) + 4),
                       desc='phosg::fgets (block size 8), line of %d bytes, the %d-th ::fgets call fails without EOF: io_error, no partial line' % (L, fa),
                       bounds='line length == %d, block size 8' % L))
    quick = tier == 'quick'
    # ---- load_file / save_file over the one-file file system of h_file.c (all stub failures / short counts symbolic per query)
    cells = [(2, 1, 40), (0, 0, 0)] if quick else [(L, a, 40) for L in (0, 1, 2, 3, 7) for a in (0, 1)] + [(0, 0, 0), (2, 1, 0)]
    for L, a, fd0 in cells:
        qs.append(dict(name='file_rt_len%d_%s%s' % (L, 'str' if a else 'ptr', '' if fd0 else '_fd0'), unit='fsq', harness='h_file.c', defs={'LEN': L, 'AS_STR': a, 'SAVE_FAULTS': 1, 'LOAD_FAULTS': 1, 'FD0': fd0},
                       unwind=12, timeout=600, mem_gb=4, flags=FS512,
                       desc='save_file(%s form) of %d symbolic bytes then load_file over a one-file file system: open/write/fstat/read/close stubs with solver-chosen failures, short writes and short reads; file may pre-exist with 2 old bytes; descriptors start at %d: result == data or the documented exception, never truncated/padded, descriptor closed exactly once' % ('std::string' if a else 'pointer', L, fd0),
                       bounds='data length == %d; <= 2 write and <= 2 read calls per descriptor; old file length 2' % L))
    for dl in ((-1, 1) if quick else (-2, -1, 1, 2)):
        qs.append(dict(name='file_load_delta%s%d' % ('m' if dl < 0 else 'p', abs(dl)), unit='fsq', harness='h_file.c', defs={'LEN': 0, 'LOAD_ONLY': 1, 'OLDLEN': 2, 'DELTA': dl, 'LOAD_FAULTS': 1},
                       unwind=12, timeout=600, mem_gb=4, flags=FS512,
                       desc='load_file when fstat reports st_size = real length %+d (file changed between fstat and read): %s' % (dl, 'the file is shorter than fstat said => exception, never a padded string' if dl > 0 else 'the file is longer => exactly the first st_size bytes or an exception, never garbage'),
                       bounds='file length 2 (or missing), st_size off by %+d, symbolic read/open/fstat failures' % dl))
    # ---- stat helpers
    qs.append(dict(name='ftype_all', unit='fsq', harness='h_ftype.c', defs={}, unwind=12, timeout=300, mem_gb=3, flags=FS512,
                   desc='isfile/isdir/lisfile/lisdir/islink(path), stat/lstat/fstat and the struct-stat predicates against stat/lstat/fstat stubs with fully symbolic st_mode (own and link-resolved), st_size and failures; helper chosen by the solver',
                   bounds='one call; all 2^32 st_mode values for the node itself and for the link target'))
    # ---- list_directory / list_directory_sorted
    cells = [(2, 0, 2, 0), (1, 0, 3, 0), (1, 1, 2, 0)] if quick else ([(N, srt, 2, 0) for srt in (0, 1) for N in range(0, 4)] + [(1, 0, 3, 0), (2, 0, 3, 0), (1, 1, 3, 0), (2, 0, 2, 1), (2, 1, 2, 1)])
    for N, srt, nmax, nodots in cells:
        d = {'N': N, 'NMAX': nmax}
        if srt: d['SORTED'] = 1
        if nodots: d['NODOTS'] = 1
        qs.append(dict(name='lsdir_%s_n%d%s%s' % ('sorted' if srt else 'set', N, '_nmax3' if nmax == 3 else '', '_nodots' if nodots else ''), unit='fsqs' if srt else 'fsq192', harness='h_lsdir.c', defs=d,
                       unwind=6, unwindset=USET_IT + ',verif_str_less.0:16', timeout=1200, mem_gb=8, flags=FS0 if srt else FS512,  # measured: sorted n3 168 s with FS0, 269 s with FS512; set n3 48 s / 26 s
                       desc='%s over an opendir/readdir/closedir stub directory with %d entries of symbolic 1..%d-byte names%s: result == exactly the names present, closedir exactly once, opendir failure => cannot_open_file' % ('list_directory_sorted' if srt else 'list_directory', N, nmax, '' if nodots else ' plus "." and ".." at solver-chosen positions'),
                       bounds='%d entries, names 1..%d bytes (no NUL, no "/"), distinct' % (N, nmax)))
    # ---- unlink (recursive / non-recursive) over the tree model of h_rmtree.c; every cell is one concrete tree shape
    def rm(name, defs, what):
        d = dict(defs)
        qs.append(dict(name=name, unit='fsq192', harness='h_rmtree.c', defs=d, unwind=8, unwindset=USET_IT, timeout=300, mem_gb=6, flags=FS512,
                       desc='unlink over the tree model (stat/lstat/opendir/readdir/closedir/unlink/rmdir stubs): ' + what,
                       bounds='root + <= 2 entries + <= 1 sub-entry; node types, entry order and failing call concrete per query; names a/b/c'))
    TN = {0: 'absent', 1: 'file', 2: 'dir', 3: 'link->file', 4: 'link->dir', 5: 'dangling link'}
    def ncalls(t1, t2, t3):
        return 1 + sum(1 for t in (t1, t2, t3) if t) + 1 + sum(1 for t in (t1, t2, t3) if t == 2)
    if quick:
        shapes = [((2, 1, 5), 0, [-1, 2]), ((4, 1, 0), 0, [-1])]
    else:
        shapes = [((0, 0, 0), 0, None), ((1, 0, 0), 0, None), ((3, 0, 0), 0, [-1]), ((5, 0, 0), 0, [-1]), ((2, 0, 0), 0, None), ((1, 1, 0), 0, [-1]), ((3, 5, 0), 0, None), ((3, 5, 0), 1, [-1, 1]),
                  ((2, 0, 1), 0, None), ((2, 1, 5), 0, None), ((2, 1, 5), 1, None), ((2, 2, 2), 0, [-1, 2, 3]), ((2, 2, 2), 1, [-1]), ((2, 3, 3), 0, [-1]), ((2, 5, 1), 1, [-1]),
                  ((4, 0, 0), 0, [-1, 1]), ((4, 1, 0), 0, [-1]), ((4, 1, 0), 1, [-1]), ((4, 4, 0), 0, [-1]), ((2, 0, 4), 0, [-1, 2]), ((2, 4, 4), 1, [-1])]
    for (t1, t2, t3), order, faults in shapes:
        for fa in (faults if faults is not None else range(-1, ncalls(t1, t2, t3))):
            rm('rmtree_%d%d%d%s_f%s' % (t1, t2, t3, '_rev' if order else '', fa if fa >= 0 else 'n'), {'T1': t1, 'T2': t2, 'T3': t3, 'ORDER': order, 'FAULT_AT': fa},
               'recursive unlink of r = {a: %s, b: %s, a/c: %s}%s, %s: whole tree removed exactly once, children before parents, files by unlink(2) and directories by rmdir(2), nothing outside the tree touched; a failing call => exception' % (
                   TN[t1], TN[t2], TN[t3], ' (entries listed b, a)' if order else '', 'no call fails' if fa < 0 else 'call #%d among opendir/unlink/rmdir fails' % fa))
    for rt in ([4] if quick else [0, 1, 3, 4, 5]):
        for fa in ((-1,) if quick else (-1, 0)):
            rm('rmtree_root%d_rec_f%s' % (rt, fa if fa >= 0 else 'n'), {'ROOT_T': rt, 'FAULT_AT': fa}, 'recursive unlink of a path that is %s (%s)' % (TN[rt], 'no call fails' if fa < 0 else 'the first call fails'))
    for rt in ([2] if quick else [0, 1, 2, 3, 4, 5]):
        for fa in ((-1,) if quick else (-1, 0)):
            rm('rmtree_root%d_nonrec_f%s' % (rt, fa if fa >= 0 else 'n'), {'ROOT_T': rt, 'FAULT_AT': fa, 'RECURSIVE': 0}, 'non-recursive unlink of a path that is %s (%s): one unlink(2); a directory stays and runtime_error is thrown, a missing path is not an error' % (TN[rt], 'no call fails' if fa < 0 else 'the call fails'))
    # scoped_fd owning descriptor 0 (the lowest descriptor a process can get)
    qs.append(dict(name='sfd_fd0_ops2', unit='fsx', harness='h_sfd.c', defs={'NOPS': 2, 'FD0': 0}, unwind=40, timeout=900, mem_gb=3, flags=FS0,
                   desc='scoped_fd: every sequence of 2 operations with descriptors numbered from 0 (descriptor 0 is owned and must be closed like any other)', bounds='2 operations, 2 objects, descriptors 0..2'))
    return qs
