ID = 'C14'
UNITS = {'fs': dict(wrap='wrap.cc', new_block=64)}
BOUNDS = ''
STUBS = []
OUTSIDE = []
ASSUMPTIONS = []

RW = ['readx', 'readx_str', 'writex', 'writex_str', 'preadx', 'preadx_str', 'pwritex', 'freadx', 'freadx_str', 'fwritex', 'read', 'fread']

def queries(tier):
    qs = []
    for L in range(0, 6):
        qs.append(dict(name='path_len%d' % L, unit='fs', harness='h_path.c', defs={'LEN': L}, unwind=L + 18, timeout=300, mem_gb=4,
                       desc='basename/dirname on %d symbolic bytes: definition via last slash and dirname+"/"+basename == p' % L,
                       bounds='path length == %d, all byte values' % L))
    for w, nm in enumerate(RW):
        for S in ([0, 1, 3] if tier == 'quick' else [0, 1, 2, 3, 4]):
            qs.append(dict(name='rw_%s_size%d' % (nm, S), unit='fs', harness='h_rw.c', defs={'WHICH': w, 'SIZE': S}, unwind=40, timeout=300, mem_gb=4,
                           desc='%s with requested size %d against an OS call returning any count in [-1,size]' % (nm, S),
                           bounds='size == %d, one OS call, symbolic contents' % S))
    for n in ([1, 2, 3] if tier == 'quick' else [1, 2, 3, 4]):
        qs.append(dict(name='poll_ops%d' % n, unit='fs', harness='h_poll.c', defs={'NOPS': n}, unwind=12, timeout=600, mem_gb=6,
                       desc='Poll: every history of %d add/remove operations over fds {3,4,5}, symbolic event masks, vs a map model; poll_fds sorted and duplicate-free after every operation' % n,
                       bounds='%d operations, 3 descriptors' % n))
    return qs
