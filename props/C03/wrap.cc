// C03 wrappers: bswap / sign-extension helpers and the converted_endian<> scalar wrappers of Encoding.hh.
// Values cross the C ABI as uint64_t bit patterns (floats/doubles as their IEEE bit patterns); the wrappers only adapt types.
#include "wrap.hh"
#include "Encoding.hh"
using namespace phosg;

template <typename T>
static inline T from_bits(uint64_t b) {
  if constexpr (std::is_same_v<T, float>) {
    uint32_t x = static_cast<uint32_t>(b);
    float f;
    memcpy(&f, &x, 4);
    return f;
  } else if constexpr (std::is_same_v<T, double>) {
    double f;
    memcpy(&f, &b, 8);
    return f;
  } else {
    return static_cast<T>(b);
  }
}
template <typename T>
static inline uint64_t to_bits(T v) {
  if constexpr (std::is_same_v<T, float>) {
    uint32_t x;
    memcpy(&x, &v, 4);
    return x;
  } else if constexpr (std::is_same_v<T, double>) {
    uint64_t x;
    memcpy(&x, &v, 8);
    return x;
  } else {
    return static_cast<uint64_t>(static_cast<std::make_unsigned_t<T>>(v)); // zero-extended bit pattern of the value
  }
}

// ---- free helpers: fn selects the function; argument and result are raw bit patterns (result zero-extended from its type) ----
WEXPORT uint64_t w_helper(uint32_t fn, uint64_t a) {
  switch (fn) {
    case 0: return bswap8(static_cast<uint8_t>(a));
    case 1: return bswap16(static_cast<uint16_t>(a));
    case 2: return bswap24(static_cast<uint32_t>(a));
    case 3: return to_bits<int32_t>(bswap24s(static_cast<int32_t>(a)));
    case 4: return bswap32(static_cast<uint32_t>(a));
    case 5: return bswap48(a);
    case 6: return to_bits<int64_t>(bswap48s(static_cast<int64_t>(a)));
    case 7: return bswap64(a);
    case 8: return to_bits<float>(bswap32f(static_cast<uint32_t>(a))); // u32 -> float
    case 9: return bswap32f(from_bits<float>(a)); // float -> u32
    case 10: return to_bits<double>(bswap64f(a)); // u64 -> double
    case 11: return bswap64f(from_bits<double>(a)); // double -> u64
    case 12: return to_bits<int32_t>(ext24(static_cast<uint32_t>(a)));
    case 13: return to_bits<int64_t>(ext48(a));
    // the bswap<> template specialisations used by converted_endian
    case 14: return bswap<uint8_t>(static_cast<uint8_t>(a));
    case 15: return to_bits<int8_t>(bswap<int8_t>(static_cast<int8_t>(a)));
    case 16: return bswap<uint16_t>(static_cast<uint16_t>(a));
    case 17: return to_bits<int16_t>(bswap<int16_t>(static_cast<int16_t>(a)));
    case 18: return bswap<uint32_t>(static_cast<uint32_t>(a));
    case 19: return to_bits<int32_t>(bswap<int32_t>(static_cast<int32_t>(a)));
    case 20: return bswap<uint64_t>(a);
    case 21: return to_bits<int64_t>(bswap<int64_t>(static_cast<int64_t>(a)));
    case 22: return bswap<float, uint32_t>(from_bits<float>(a));
    case 23: return to_bits<float>(bswap<uint32_t, float>(static_cast<uint32_t>(a)));
    case 24: return bswap<double, uint64_t>(from_bits<double>(a));
    case 25: return to_bits<double>(bswap<uint64_t, double>(a));
    // sign_extend<ResultT, SrcT>
    case 30: return to_bits<int16_t>(sign_extend<int16_t, uint8_t>(static_cast<uint8_t>(a)));
    case 31: return to_bits<int32_t>(sign_extend<int32_t, uint8_t>(static_cast<uint8_t>(a)));
    case 32: return to_bits<int64_t>(sign_extend<int64_t, uint8_t>(static_cast<uint8_t>(a)));
    case 33: return to_bits<int32_t>(sign_extend<int32_t, uint16_t>(static_cast<uint16_t>(a)));
    case 34: return to_bits<int64_t>(sign_extend<int64_t, uint16_t>(static_cast<uint16_t>(a)));
    case 35: return to_bits<int64_t>(sign_extend<int64_t, uint32_t>(static_cast<uint32_t>(a)));
    case 36: return sign_extend<uint16_t, uint8_t>(static_cast<uint8_t>(a));
    case 37: return sign_extend<uint32_t, uint8_t>(static_cast<uint8_t>(a));
    case 38: return sign_extend<uint64_t, uint8_t>(static_cast<uint8_t>(a));
    case 39: return sign_extend<uint32_t, uint16_t>(static_cast<uint16_t>(a));
    case 40: return sign_extend<uint64_t, uint16_t>(static_cast<uint16_t>(a));
    case 41: return sign_extend<uint64_t, uint32_t>(static_cast<uint32_t>(a));
    case 42: return to_bits<int32_t>(sign_extend<int32_t, int8_t>(static_cast<int8_t>(a)));
    case 43: return to_bits<int64_t>(sign_extend<int64_t, int16_t>(static_cast<int16_t>(a)));
    case 44: return to_bits<int64_t>(sign_extend<int64_t, int32_t>(static_cast<int32_t>(a)));
    default: return 0xDEADDEADDEADDEADULL;
  }
}

// ---- wrapper types: object initialised with v, ONE operation with operand d; reports the object bytes afterwards
//      (raw[0..sizeof)), and the value the operation returned (as a bit pattern) ----
enum {
  OP_CTOR = 0, OP_ASSIGN, OP_STORE_LOAD, OP_RAW, OP_ADD, OP_SUB, OP_MUL, OP_DIV, OP_MOD, OP_AND, OP_OR, OP_XOR, OP_SHL, OP_SHR,
  OP_PREINC, OP_POSTINC, OP_PREDEC, OP_POSTDEC, OP_COPY };

template <typename W, typename T, typename S>
static inline int64_t wrapper_op(uint32_t op, uint64_t v_bits, uint64_t d_bits, uint8_t* raw, uint64_t* ret) {
  static_assert(sizeof(W) == sizeof(T), "wrapper occupies exactly sizeof(T) bytes");
  static_assert(sizeof(S) == sizeof(T), "stored representation has the width of the exposed type");
  static_assert(alignof(W) == 1, "wrapper is packed");
  T v = from_bits<T>(v_bits), d = from_bits<T>(d_bits);
  W w(v);
  int64_t rc = 0;
  switch (op) {
    case OP_CTOR: *ret = to_bits<T>(static_cast<T>(w)); break;
    case OP_ASSIGN: *ret = to_bits<T>(static_cast<T>(w = d)); break;
    case OP_STORE_LOAD: w.store(d); *ret = to_bits<T>(w.load()); break;
    case OP_RAW: w.store_raw(static_cast<S>(d_bits)); *ret = to_bits<S>(w.load_raw()); break;
    case OP_ADD: *ret = to_bits<T>(static_cast<T>(w += d)); break;
    case OP_SUB: *ret = to_bits<T>(static_cast<T>(w -= d)); break;
    case OP_MUL: *ret = to_bits<T>(static_cast<T>(w *= d)); break;
    case OP_DIV: *ret = to_bits<T>(static_cast<T>(w /= d)); break;
    case OP_PREINC: *ret = to_bits<T>(++w); break;
    case OP_POSTINC: *ret = to_bits<T>(w++); break;
    case OP_PREDEC: *ret = to_bits<T>(--w); break;
    case OP_POSTDEC: *ret = to_bits<T>(w--); break;
    case OP_COPY: { W other(d); W& r = (w = other); *ret = to_bits<T>(static_cast<T>(r)); break; }
    default:
      if constexpr (std::is_integral_v<T>) {
        switch (op) {
          case OP_MOD: *ret = to_bits<T>(static_cast<T>(w %= d)); break;
          case OP_AND: *ret = to_bits<T>(static_cast<T>(w &= d)); break;
          case OP_OR: *ret = to_bits<T>(static_cast<T>(w |= d)); break;
          case OP_XOR: *ret = to_bits<T>(static_cast<T>(w ^= d)); break;
          case OP_SHL: *ret = to_bits<T>(static_cast<T>(w <<= d)); break;
          case OP_SHR: *ret = to_bits<T>(static_cast<T>(w >>= d)); break;
          default: rc = W_CAPACITY;
        }
      } else {
        rc = W_CAPACITY;
      }
  }
  memcpy(raw, &w, sizeof(W));
  return rc;
}

#define DEF(W, T, S) \
  WEXPORT int64_t w_##W(uint32_t op, uint64_t v, uint64_t d, uint8_t* raw, uint64_t* ret) { return wrapper_op<W, T, S>(op, v, d, raw, ret); }
#define DEF3(sfx, T, S) DEF(le_##sfx, T, S) DEF(be_##sfx, T, S) DEF(re_##sfx, T, S)
DEF3(uint16_t, uint16_t, uint16_t)
DEF3(int16_t, int16_t, int16_t)
DEF3(uint32_t, uint32_t, uint32_t)
DEF3(int32_t, int32_t, int32_t)
DEF3(uint64_t, uint64_t, uint64_t)
DEF3(int64_t, int64_t, int64_t)
DEF3(float, float, uint32_t)
DEF3(double, double, uint64_t)

// ---- compound operators with a right-hand side of a type R different from the exposed type T (the operators are
//      templates over R): object initialised with v, ONE `w op= (R)d`; rt selects R: 0 int32_t, 1 uint32_t, 2 int64_t,
//      3 uint64_t, 4 float, 5 double (d carries the operand's bit pattern) ----
template <typename W, typename T, typename R>
static inline int64_t mixed_op(uint32_t op, uint64_t v_bits, uint64_t d_bits, uint8_t* raw, uint64_t* ret) {
  T v = from_bits<T>(v_bits);
  R d = from_bits<R>(d_bits);
  W w(v);
  int64_t rc = 0;
  switch (op) {
    case OP_ADD: *ret = to_bits<T>(static_cast<T>(w += d)); break;
    case OP_SUB: *ret = to_bits<T>(static_cast<T>(w -= d)); break;
    case OP_MUL: *ret = to_bits<T>(static_cast<T>(w *= d)); break;
    case OP_DIV: *ret = to_bits<T>(static_cast<T>(w /= d)); break;
    default:
      if constexpr (std::is_integral_v<T> && std::is_integral_v<R>) {
        switch (op) {
          case OP_MOD: *ret = to_bits<T>(static_cast<T>(w %= d)); break;
          case OP_AND: *ret = to_bits<T>(static_cast<T>(w &= d)); break;
          case OP_OR: *ret = to_bits<T>(static_cast<T>(w |= d)); break;
          case OP_XOR: *ret = to_bits<T>(static_cast<T>(w ^= d)); break;
          case OP_SHL: *ret = to_bits<T>(static_cast<T>(w <<= d)); break;
          case OP_SHR: *ret = to_bits<T>(static_cast<T>(w >>= d)); break;
          default: rc = W_CAPACITY;
        }
      } else {
        rc = W_CAPACITY;
      }
  }
  memcpy(raw, &w, sizeof(W));
  return rc;
}
template <typename W, typename T>
static inline int64_t mixed_dispatch(uint32_t op, uint32_t rt, uint64_t v, uint64_t d, uint8_t* raw, uint64_t* ret) {
  switch (rt) {
    case 0: return mixed_op<W, T, int32_t>(op, v, d, raw, ret);
    case 1: return mixed_op<W, T, uint32_t>(op, v, d, raw, ret);
    case 2: return mixed_op<W, T, int64_t>(op, v, d, raw, ret);
    case 3: return mixed_op<W, T, uint64_t>(op, v, d, raw, ret);
    default:
      if constexpr (std::is_floating_point_v<T>) { // floating operands only on the floating wrappers
        if (rt == 4) return mixed_op<W, T, float>(op, v, d, raw, ret);
        if (rt == 5) return mixed_op<W, T, double>(op, v, d, raw, ret);
      }
      return W_CAPACITY;
  }
}
#define DEFM(W, T) \
  WEXPORT int64_t w_mixed_##W(uint32_t op, uint32_t rt, uint64_t v, uint64_t d, uint8_t* raw, uint64_t* ret) { return mixed_dispatch<W, T>(op, rt, v, d, raw, ret); }
#define DEFM3(sfx, T) DEFM(le_##sfx, T) DEFM(be_##sfx, T) DEFM(re_##sfx, T)
DEFM3(uint16_t, uint16_t)
DEFM3(int16_t, int16_t)
DEFM3(uint32_t, uint32_t)
DEFM3(int32_t, int32_t)
DEFM3(uint64_t, uint64_t)
DEFM3(int64_t, int64_t)
DEFM3(float, float)
DEFM3(double, double)

// a wrapper embedded in a packed record keeps its size and position (layout claim "always occupies exactly sizeof(T) bytes")
struct Rec {
  uint8_t tag;
  be_uint32_t a;
  le_uint16_t b;
  re_uint64_t c;
  be_float f;
} __attribute__((packed));
static_assert(sizeof(Rec) == 1 + 4 + 2 + 8 + 4, "wrappers add no padding");
WEXPORT int64_t w_rec(uint32_t a, uint32_t b, uint64_t c, uint64_t f_bits, uint8_t* raw) {
  Rec r;
  r.tag = 0x5A;
  r.a = a;
  r.b = static_cast<uint16_t>(b);
  r.c = c;
  r.f = from_bits<float>(f_bits);
  memcpy(raw, &r, sizeof(r));
  return sizeof(r);
}
