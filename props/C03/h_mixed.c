/* C03: compound operators with a right-hand side whose type R differs from the exposed type T (the operators are templates
 * over R). Cell: -DW=<alias type> -DBITS -DSIGNED -DFLT -DBIG (as in h_wrap.c) and the operand type -DRB=32|64 (bits)
 * -DRS=0|1 (signed) -DRF=0|1 (floating: float if RB==32, double if RB==64); -DOP=<n> fixes the operator, otherwise it is a
 * symbolic choice among the cheap ones (+= -= and, for integers, &= |= ^= <<= >>=).
 * Symbolic: v (all BITS bits), d (all RB bits). Reference: the native `T x = v; x op= (R)d` - i.e. the usual arithmetic
 * conversions to the common type CT of (promoted T, R), the operation there, conversion back to T - written on the unsigned
 * twin of CT so that the reference itself never executes undefined signed overflow. Checked: the object bytes afterwards
 * decode (in the named order) to the native x, and the operator returns the value the native operator returns.
 * Excluded (native behaviour undefined): division/modulo by zero, overflow of a SIGNED common type (+ - *), MIN / -1,
 * shift counts negative or >= width of the promoted left operand. Floating results: any NaN matches a NaN (payload
 * propagation is compiler-dependent), everything else bit-exact. */
#include "harness.h"
#define CAT2(a, b) a##b
#define CAT(a, b) CAT2(a, b)
/* all 24 alias types (the driver collects the wrappers a harness names); this query calls w_mixed_<W> */
int64_t w_mixed_le_uint16_t(uint32_t op, uint32_t rt, uint64_t v, uint64_t d, uint8_t* raw, uint64_t* ret);
int64_t w_mixed_be_uint16_t(uint32_t op, uint32_t rt, uint64_t v, uint64_t d, uint8_t* raw, uint64_t* ret);
int64_t w_mixed_re_uint16_t(uint32_t op, uint32_t rt, uint64_t v, uint64_t d, uint8_t* raw, uint64_t* ret);
int64_t w_mixed_le_int16_t(uint32_t op, uint32_t rt, uint64_t v, uint64_t d, uint8_t* raw, uint64_t* ret);
int64_t w_mixed_be_int16_t(uint32_t op, uint32_t rt, uint64_t v, uint64_t d, uint8_t* raw, uint64_t* ret);
int64_t w_mixed_re_int16_t(uint32_t op, uint32_t rt, uint64_t v, uint64_t d, uint8_t* raw, uint64_t* ret);
int64_t w_mixed_le_uint32_t(uint32_t op, uint32_t rt, uint64_t v, uint64_t d, uint8_t* raw, uint64_t* ret);
int64_t w_mixed_be_uint32_t(uint32_t op, uint32_t rt, uint64_t v, uint64_t d, uint8_t* raw, uint64_t* ret);
int64_t w_mixed_re_uint32_t(uint32_t op, uint32_t rt, uint64_t v, uint64_t d, uint8_t* raw, uint64_t* ret);
int64_t w_mixed_le_int32_t(uint32_t op, uint32_t rt, uint64_t v, uint64_t d, uint8_t* raw, uint64_t* ret);
int64_t w_mixed_be_int32_t(uint32_t op, uint32_t rt, uint64_t v, uint64_t d, uint8_t* raw, uint64_t* ret);
int64_t w_mixed_re_int32_t(uint32_t op, uint32_t rt, uint64_t v, uint64_t d, uint8_t* raw, uint64_t* ret);
int64_t w_mixed_le_uint64_t(uint32_t op, uint32_t rt, uint64_t v, uint64_t d, uint8_t* raw, uint64_t* ret);
int64_t w_mixed_be_uint64_t(uint32_t op, uint32_t rt, uint64_t v, uint64_t d, uint8_t* raw, uint64_t* ret);
int64_t w_mixed_re_uint64_t(uint32_t op, uint32_t rt, uint64_t v, uint64_t d, uint8_t* raw, uint64_t* ret);
int64_t w_mixed_le_int64_t(uint32_t op, uint32_t rt, uint64_t v, uint64_t d, uint8_t* raw, uint64_t* ret);
int64_t w_mixed_be_int64_t(uint32_t op, uint32_t rt, uint64_t v, uint64_t d, uint8_t* raw, uint64_t* ret);
int64_t w_mixed_re_int64_t(uint32_t op, uint32_t rt, uint64_t v, uint64_t d, uint8_t* raw, uint64_t* ret);
int64_t w_mixed_le_float(uint32_t op, uint32_t rt, uint64_t v, uint64_t d, uint8_t* raw, uint64_t* ret);
int64_t w_mixed_be_float(uint32_t op, uint32_t rt, uint64_t v, uint64_t d, uint8_t* raw, uint64_t* ret);
int64_t w_mixed_re_float(uint32_t op, uint32_t rt, uint64_t v, uint64_t d, uint8_t* raw, uint64_t* ret);
int64_t w_mixed_le_double(uint32_t op, uint32_t rt, uint64_t v, uint64_t d, uint8_t* raw, uint64_t* ret);
int64_t w_mixed_be_double(uint32_t op, uint32_t rt, uint64_t v, uint64_t d, uint8_t* raw, uint64_t* ret);
int64_t w_mixed_re_double(uint32_t op, uint32_t rt, uint64_t v, uint64_t d, uint8_t* raw, uint64_t* ret);
enum { OP_ADD = 4, OP_SUB, OP_MUL, OP_DIV, OP_MOD, OP_AND, OP_OR, OP_XOR, OP_SHL, OP_SHR };
#define NB (BITS / 8)
#define MASK ((BITS == 64) ? ~0ULL : ((1ULL << (BITS % 64)) - 1))
#define RMASK ((RB == 64) ? ~0ULL : 0xFFFFFFFFULL)
#define RCODE (RF ? (RB == 32 ? 4 : 5) : ((RB == 64 ? 2 : 0) + (RS ? 0 : 1)))

/* operand type R */
#if RF
#if RB == 32
typedef float RT;
static RT rfb(uint64_t b) { uint32_t x = (uint32_t)b; RT f; memcpy(&f, &x, 4); return f; }
#else
typedef double RT;
static RT rfb(uint64_t b) { RT f; memcpy(&f, &b, 8); return f; }
#endif
#elif RB == 32 && RS
typedef int32_t RT;
#elif RB == 32
typedef uint32_t RT;
#elif RS
typedef int64_t RT;
#else
typedef uint64_t RT;
#endif

#if FLT
#define EXPMASK ((BITS == 32) ? 0x7F800000ULL : 0x7FF0000000000000ULL)
#define MANMASK ((BITS == 32) ? 0x007FFFFFULL : 0x000FFFFFFFFFFFFFULL)
static int is_nan(uint64_t b) { return (b & EXPMASK) == EXPMASK && (b & MANMASK) != 0; }
#if BITS == 32
typedef float flt_t;
static flt_t fb(uint64_t b) { uint32_t x = (uint32_t)b; flt_t f; memcpy(&f, &x, 4); return f; }
static uint64_t bf(flt_t f) { uint32_t x; memcpy(&x, &f, 4); return x; }
#else
typedef double flt_t;
static flt_t fb(uint64_t b) { flt_t f; memcpy(&f, &b, 8); return f; }
static uint64_t bf(flt_t f) { uint64_t x; memcpy(&x, &f, 8); return x; }
#endif
#else
/* exposed type NT, its unsigned twin UNT, promoted type PT/UPT (int for the 16-bit types) */
#if BITS == 16
#if SIGNED
typedef int16_t NT;
#else
typedef uint16_t NT;
#endif
typedef uint16_t UNT; typedef int32_t PT; typedef uint32_t UPT;
#define PSIGNED 1
#define PBITS 32
#elif BITS == 32
#if SIGNED
typedef int32_t NT; typedef int32_t PT;
#else
typedef uint32_t NT; typedef uint32_t PT;
#endif
typedef uint32_t UNT; typedef uint32_t UPT;
#define PSIGNED SIGNED
#define PBITS 32
#else
#if SIGNED
typedef int64_t NT; typedef int64_t PT;
#else
typedef uint64_t NT; typedef uint64_t PT;
#endif
typedef uint64_t UNT; typedef uint64_t UPT;
#define PSIGNED SIGNED
#define PBITS 64
#endif
/* common type CT of (PT, RT) by the usual arithmetic conversions */
#define CB (PBITS > RB ? PBITS : RB)
#define CS ((PSIGNED && RS) || (PSIGNED && !RS && PBITS > RB) || (RS && !PSIGNED && RB > PBITS))
#if CB == 32
typedef uint32_t UCT;
#if CS
typedef int32_t CT;
#else
typedef uint32_t CT;
#endif
#define CMIN 0x80000000u
#else
typedef uint64_t UCT;
#if CS
typedef int64_t CT;
#else
typedef uint64_t CT;
#endif
#define CMIN 0x8000000000000000ull
#endif
#endif

void harness(void) {
  uint64_t v = in_u64() & MASK, d = in_u64() & RMASK;
#ifdef OP
  uint32_t op = OP;
#elif FLT
  uint32_t op = (uint32_t)in_range(OP_ADD, OP_SUB);
#else
  uint32_t op = (uint32_t)in_range(OP_ADD, OP_SHR);
  ASSUME(op != OP_MUL && op != OP_DIV && op != OP_MOD); /* own queries */
#endif
  uint64_t stored = 0;
#if FLT
#if RF
  const RT y = rfb(d);
#else
  const RT y = (RT)d;
#endif
  flt_t r = fb(v);
  switch (op) {
    case OP_ADD: r += y; break;
    case OP_SUB: r -= y; break;
    case OP_MUL: r *= y; break;
    case OP_DIV: r /= y; break;
    default: ASSUME(0);
  }
  stored = bf(r);
#else
  const NT x = (NT)v;
  const RT y = (RT)d;
  const PT px = (PT)x;                 /* integral promotion */
  const CT cx = (CT)px, cy = (CT)y;    /* usual arithmetic conversions (sign-/zero-extension, modular to unsigned) */
  const UCT ux = (UCT)cx, uy = (UCT)cy;
  const UPT upx = (UPT)px;
  CT t;
  int ovf = 0;
#define RES(e) ((uint64_t)(UNT)(NT)(e)) /* conversion back to T (modular), as a bit pattern */
  switch (op) {
    case OP_ADD: stored = RES(ux + uy); if (CS) ovf = __builtin_add_overflow(cx, cy, &t); break;
    case OP_SUB: stored = RES(ux - uy); if (CS) ovf = __builtin_sub_overflow(cx, cy, &t); break;
    case OP_MUL: stored = RES(ux * uy); if (CS) ovf = __builtin_mul_overflow(cx, cy, &t); break;
    case OP_DIV:
      ASSUME(y != 0);
      if (CS) { ASSUME(!(ux == CMIN && uy == (UCT)-1)); stored = RES(cx / cy); }
      else stored = RES(ux / uy);
      break;
    case OP_MOD:
      ASSUME(y != 0);
      if (CS) { ASSUME(!(ux == CMIN && uy == (UCT)-1)); stored = RES(cx % cy); }
      else stored = RES(ux % uy);
      break;
    case OP_AND: stored = RES(ux & uy); break;
    case OP_OR: stored = RES(ux | uy); break;
    case OP_XOR: stored = RES(ux ^ uy); break;
    /* shifts: no common type; the result has the promoted type of the LEFT operand */
    case OP_SHL: ASSUME((!RS || (int64_t)y >= 0) && (uint64_t)y < PBITS); stored = RES(upx << (uint64_t)y); break;
    case OP_SHR: ASSUME((!RS || (int64_t)y >= 0) && (uint64_t)y < PBITS);
      if (PSIGNED && px < 0) stored = RES(~((~upx) >> (uint64_t)y)); /* arithmetic shift of a negative value */
      else stored = RES(upx >> (uint64_t)y);
      break;
    default: ASSUME(0);
  }
  ASSUME(!ovf);
#endif
  const uint64_t returned = stored; /* `x op= y` yields the new x */
  uint8_t raw[9];
  for (int i = 0; i < 9; i++) raw[i] = 0xC3;
  uint64_t ret = 0;
  int64_t rc = CAT(w_mixed_, W)(op, RCODE, v, d, raw, &ret);
  OBS(op); OBS(rc);
  ASSERT(rc == 0, "operation exists for this type pair");
  uint64_t got_stored = 0; /* decode the object bytes in the named order */
  for (int k = 0; k < 8; k++) if (k < NB) got_stored |= (uint64_t)raw[k] << (8 * (BIG ? (NB - 1 - k) : k));
  int nan_s = 0, nan_r = 0;
#if FLT
  nan_s = is_nan(stored) && is_nan(got_stored);
  nan_r = is_nan(returned) && is_nan(ret);
#endif
  OBS(nan_r ? returned : ret); OBS(nan_s ? stored : got_stored);
  ASSERT(got_stored == stored || nan_s, "object bytes are the named-byte-order encoding of the native `x op= (R)d`");
  ASSERT(ret == returned || nan_r, "the operator returns what the native operator returns");
  ASSERT(raw[NB] == 0xC3, "the object occupies exactly sizeof(T) bytes");
}
