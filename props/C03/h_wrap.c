/* C03: one converted_endian<> alias type per query. -DW=<type> -DBITS=16|32|64 -DSIGNED=0|1 -DFLT=0|1 -DBIG=0|1
 * (BIG: the type's name says big-endian, or reverse-of-host on this little-endian host) -DOPSET=...
 * The object is initialised with symbolic v (all BITS bits free), then ONE operator with symbolic operand d is applied.
 * Checked against a reference written here on plain integers / C floats:
 *   - the object bytes afterwards are the named-order bytes of the native result ("stored value"),
 *   - the value returned by the operator is the value the same operator returns on the native type.
 * Operand restrictions (native behaviour undefined otherwise): d != 0 for / and %, shift count < BITS, no signed
 * overflow for 32/64-bit signed + - * ++ -- and no MIN / -1. */
#include "harness.h"
#define CAT2(a, b) a##b
#define CAT(a, b) CAT2(a, b)
/* all 24 alias types (the driver collects the wrappers a harness names); this query calls w_<W> */
int64_t w_le_uint16_t(uint32_t op, uint64_t v, uint64_t d, uint8_t* raw, uint64_t* ret);
int64_t w_be_uint16_t(uint32_t op, uint64_t v, uint64_t d, uint8_t* raw, uint64_t* ret);
int64_t w_re_uint16_t(uint32_t op, uint64_t v, uint64_t d, uint8_t* raw, uint64_t* ret);
int64_t w_le_int16_t(uint32_t op, uint64_t v, uint64_t d, uint8_t* raw, uint64_t* ret);
int64_t w_be_int16_t(uint32_t op, uint64_t v, uint64_t d, uint8_t* raw, uint64_t* ret);
int64_t w_re_int16_t(uint32_t op, uint64_t v, uint64_t d, uint8_t* raw, uint64_t* ret);
int64_t w_le_uint32_t(uint32_t op, uint64_t v, uint64_t d, uint8_t* raw, uint64_t* ret);
int64_t w_be_uint32_t(uint32_t op, uint64_t v, uint64_t d, uint8_t* raw, uint64_t* ret);
int64_t w_re_uint32_t(uint32_t op, uint64_t v, uint64_t d, uint8_t* raw, uint64_t* ret);
int64_t w_le_int32_t(uint32_t op, uint64_t v, uint64_t d, uint8_t* raw, uint64_t* ret);
int64_t w_be_int32_t(uint32_t op, uint64_t v, uint64_t d, uint8_t* raw, uint64_t* ret);
int64_t w_re_int32_t(uint32_t op, uint64_t v, uint64_t d, uint8_t* raw, uint64_t* ret);
int64_t w_le_uint64_t(uint32_t op, uint64_t v, uint64_t d, uint8_t* raw, uint64_t* ret);
int64_t w_be_uint64_t(uint32_t op, uint64_t v, uint64_t d, uint8_t* raw, uint64_t* ret);
int64_t w_re_uint64_t(uint32_t op, uint64_t v, uint64_t d, uint8_t* raw, uint64_t* ret);
int64_t w_le_int64_t(uint32_t op, uint64_t v, uint64_t d, uint8_t* raw, uint64_t* ret);
int64_t w_be_int64_t(uint32_t op, uint64_t v, uint64_t d, uint8_t* raw, uint64_t* ret);
int64_t w_re_int64_t(uint32_t op, uint64_t v, uint64_t d, uint8_t* raw, uint64_t* ret);
int64_t w_le_float(uint32_t op, uint64_t v, uint64_t d, uint8_t* raw, uint64_t* ret);
int64_t w_be_float(uint32_t op, uint64_t v, uint64_t d, uint8_t* raw, uint64_t* ret);
int64_t w_re_float(uint32_t op, uint64_t v, uint64_t d, uint8_t* raw, uint64_t* ret);
int64_t w_le_double(uint32_t op, uint64_t v, uint64_t d, uint8_t* raw, uint64_t* ret);
int64_t w_be_double(uint32_t op, uint64_t v, uint64_t d, uint8_t* raw, uint64_t* ret);
int64_t w_re_double(uint32_t op, uint64_t v, uint64_t d, uint8_t* raw, uint64_t* ret);
enum { OP_CTOR = 0, OP_ASSIGN, OP_STORE_LOAD, OP_RAW, OP_ADD, OP_SUB, OP_MUL, OP_DIV, OP_MOD, OP_AND, OP_OR, OP_XOR, OP_SHL, OP_SHR,
  OP_PREINC, OP_POSTINC, OP_PREDEC, OP_POSTDEC, OP_COPY };
#define NB (BITS / 8)
#define MASK ((BITS == 64) ? ~0ULL : ((1ULL << (BITS % 64)) - 1))
#define SIGNBIT (1ULL << (BITS - 1))

static int64_t sx(uint64_t x) { return (x & SIGNBIT) ? (int64_t)(x | ~MASK) : (int64_t)x; } /* value of the BITS-bit two's complement pattern */

#if FLT
#if BITS == 32
typedef float flt_t;
static flt_t fb(uint64_t b) { uint32_t x = (uint32_t)b; flt_t f; memcpy(&f, &x, 4); return f; }
static uint64_t bf(flt_t f) { uint32_t x; memcpy(&x, &f, 4); return x; }
#else
typedef double flt_t;
static flt_t fb(uint64_t b) { flt_t f; memcpy(&f, &b, 8); return f; }
static uint64_t bf(flt_t f) { uint64_t x; memcpy(&x, &f, 8); return x; }
#endif
#endif

void harness(void) {
  uint64_t v = in_u64() & MASK, d = in_u64() & MASK;
#ifdef OP
  uint32_t op = OP;
#else
  uint32_t op = (uint32_t)in_range(0, OP_COPY);
  /* the expensive arithmetic kernels have their own queries (-DOP=...) */
  ASSUME(op != OP_MUL && op != OP_DIV && op != OP_MOD);
#if FLT
  ASSUME(!(op >= OP_MOD && op <= OP_SHR)); /* % & | ^ << >> do not exist for floating types */
#endif
#endif
  uint64_t stored = 0, returned = 0; /* reference: native value of x afterwards, and what the native operator returns */
  int raw_op = 0;
#if FLT
  flt_t x = fb(v), y = fb(d), r;
  switch (op) {
    case OP_CTOR: stored = returned = v; break;
    case OP_ASSIGN: case OP_STORE_LOAD: case OP_COPY: stored = returned = d; break;
    case OP_RAW: raw_op = 1; break;
    case OP_ADD: r = x; r += y; stored = returned = bf(r); break;
    case OP_SUB: r = x; r -= y; stored = returned = bf(r); break;
    case OP_MUL: r = x; r *= y; stored = returned = bf(r); break;
    case OP_DIV: r = x; r /= y; stored = returned = bf(r); break;
    case OP_PREINC: r = x; returned = bf(++r); stored = bf(r); break;
    case OP_POSTINC: r = x; returned = bf(r++); stored = bf(r); break;
    case OP_PREDEC: r = x; returned = bf(--r); stored = bf(r); break;
    case OP_POSTDEC: r = x; returned = bf(r--); stored = bf(r); break;
    default: ASSUME(0);
  }
#else
  const int64_t sv = sx(v), sd = sx(d);
  int ovf = 0; /* native signed overflow (undefined): excluded */
  switch (op) {
    case OP_CTOR: stored = returned = v; break;
    case OP_ASSIGN: case OP_STORE_LOAD: case OP_COPY: stored = returned = d; break;
    case OP_RAW: raw_op = 1; break;
    case OP_ADD: stored = (v + d) & MASK; ovf = (sv >= 0) == (sd >= 0) && (sx(stored) >= 0) != (sv >= 0); returned = stored; break;
    case OP_SUB: stored = (v - d) & MASK; ovf = (sv >= 0) != (sd >= 0) && (sx(stored) >= 0) != (sv >= 0); returned = stored; break;
    case OP_MUL: {
      stored = (v * d) & MASK;
#if SIGNED && BITS == 64
      int64_t t; ovf = __builtin_mul_overflow(sv, sd, &t);
#elif SIGNED
      ovf = (sv * sd != sx(stored));
#endif
      returned = stored; break; }
    case OP_DIV:
      ASSUME(d != 0);
#if SIGNED
      ovf = (v == SIGNBIT && d == MASK); ASSUME(!(BITS == 64 && ovf));
      stored = (uint64_t)(sv / sd) & MASK;
#else
      stored = v / d;
#endif
      returned = stored; break;
    case OP_MOD:
      ASSUME(d != 0);
#if SIGNED
      ovf = (v == SIGNBIT && d == MASK); ASSUME(!(BITS == 64 && ovf));
      stored = (uint64_t)(sv % sd) & MASK;
#else
      stored = v % d;
#endif
      returned = stored; break;
    case OP_AND: stored = returned = v & d; break;
    case OP_OR: stored = returned = v | d; break;
    case OP_XOR: stored = returned = v ^ d; break;
    case OP_SHL: ASSUME(d < BITS); stored = returned = (v << d) & MASK; break;
    case OP_SHR: ASSUME(d < BITS);
#if SIGNED
      stored = ((sv >= 0) ? (v >> d) : ~((~(uint64_t)sv) >> d)) & MASK; /* arithmetic shift */
#else
      stored = v >> d;
#endif
      returned = stored; break;
    case OP_PREINC: stored = returned = (v + 1) & MASK; ovf = (v == (MASK >> 1)); break;
    case OP_POSTINC: stored = (v + 1) & MASK; returned = v; ovf = (v == (MASK >> 1)); break;
    case OP_PREDEC: stored = returned = (v - 1) & MASK; ovf = (v == SIGNBIT); break;
    case OP_POSTDEC: stored = (v - 1) & MASK; returned = v; ovf = (v == SIGNBIT); break;
    default: ASSUME(0);
  }
#if SIGNED && BITS >= 32
  ASSUME(!ovf); /* int16_t arithmetic is done in int and converted back: no undefined overflow there */
#endif
#endif
  uint8_t raw[9];
  for (int i = 0; i < 9; i++) raw[i] = 0xC3;
  uint64_t ret = 0;
  int64_t rc = CAT(w_, W)(op, v, d, raw, &ret);
  OBS(op); OBS(rc); OBS(ret);
  ASSERT(rc == 0, "operation exists for this type");
  if (raw_op) {
    /* store_raw(d) puts the host-order bytes of d into the object verbatim; load_raw() gives them back */
    for (int k = 0; k < 8; k++) if (k < NB) ASSERT(raw[k] == (uint8_t)(d >> (8 * k)), "store_raw stores the representation verbatim");
    ASSERT(ret == d, "load_raw returns the stored representation");
  } else {
    for (int k = 0; k < 8; k++) if (k < NB) {
      OBS(raw[k]);
      ASSERT(raw[k] == (uint8_t)(stored >> (8 * (BIG ? (NB - 1 - k) : k))), "object bytes are the named-byte-order encoding of the native result");
    }
    ASSERT(ret == returned, "the operator returns what the same operator returns on the native type");
  }
  ASSERT(raw[NB] == 0xC3, "the object occupies exactly sizeof(T) bytes");
}
