/* C03: one converted_endian<> alias type per query. -DW=<type> -DBITS=16|32|64 -DSIGNED=0|1 -DFLT=0|1 -DBIG=0|1
 * (BIG: the type's name says big-endian, or reverse-of-host on this little-endian host) -DOPSET=...
 * The object is initialised with symbolic v (all BITS bits free), then ONE operator with symbolic operand d is applied.
 * Checked against a reference written here on plain integers / C floats:
 *   - the object bytes afterwards are the named-order bytes of the native result ("stored value"),
 *   - the value returned by the operator is the value the same operator returns on the native type.
 * Operand restrictions (native behaviour undefined otherwise): d != 0 for / and %, shift count < BITS, no overflow of the
 * signed promoted type (int32/int64 + - * ++ --, and uint16*uint16 which is multiplied as int) and no MIN / -1. */
#include "harness.h"
#define CAT2(a, b) a##b
#define CAT(a, b) CAT2(a, b)
/* all 24 alias types (the driver collects the wrappers a harness names); this query calls w_<W> */
int64_t w_le_uint16_t(uint32_t op, uint64_t v, uint64_t d, uint8_t* raw, uint64_t* ret);
int64_t w_be_uint16_t(uint32_t op, uint64_t v, uint64_t d, uint8_t* raw, uint64_t* ret);
int64_t w_re_uint16_t(uint32_t op, uint64_t v, uint64_t d, uint8_t* raw, uint64_t* ret);
int64_t w_le_int16_t(uint32_t op, uint64_t v, uint64_t d, uint8_t* raw, uint64_t* ret);
int64_t w_be_int16_t(uint32_t op, uint64_t v, uint64_t d, uint8_t* raw, uint64_t* ret);
int64_t w_re_int16_t(uint32_t op, uint64_t v, uint64_t d, uint8_t* raw, uint64_t* ret);
int64_t w_le_uint32_t(uint32_t op, uint64_t v, uint64_t d, uint8_t* raw, uint64_t* ret);
int64_t w_be_uint32_t(uint32_t op, uint64_t v, uint64_t d, uint8_t* raw, uint64_t* ret);
int64_t w_re_uint32_t(uint32_t op, uint64_t v, uint64_t d, uint8_t* raw, uint64_t* ret);
int64_t w_le_int32_t(uint32_t op, uint64_t v, uint64_t d, uint8_t* raw, uint64_t* ret);
int64_t w_be_int32_t(uint32_t op, uint64_t v, uint64_t d, uint8_t* raw, uint64_t* ret);
int64_t w_re_int32_t(uint32_t op, uint64_t v, uint64_t d, uint8_t* raw, uint64_t* ret);
int64_t w_le_uint64_t(uint32_t op, uint64_t v, uint64_t d, uint8_t* raw, uint64_t* ret);
int64_t w_be_uint64_t(uint32_t op, uint64_t v, uint64_t d, uint8_t* raw, uint64_t* ret);
int64_t w_re_uint64_t(uint32_t op, uint64_t v, uint64_t d, uint8_t* raw, uint64_t* ret);
int64_t w_le_int64_t(uint32_t op, uint64_t v, uint64_t d, uint8_t* raw, uint64_t* ret);
int64_t w_be_int64_t(uint32_t op, uint64_t v, uint64_t d, uint8_t* raw, uint64_t* ret);
int64_t w_re_int64_t(uint32_t op, uint64_t v, uint64_t d, uint8_t* raw, uint64_t* ret);
int64_t w_le_float(uint32_t op, uint64_t v, uint64_t d, uint8_t* raw, uint64_t* ret);
int64_t w_be_float(uint32_t op, uint64_t v, uint64_t d, uint8_t* raw, uint64_t* ret);
int64_t w_re_float(uint32_t op, uint64_t v, uint64_t d, uint8_t* raw, uint64_t* ret);
int64_t w_le_double(uint32_t op, uint64_t v, uint64_t d, uint8_t* raw, uint64_t* ret);
int64_t w_be_double(uint32_t op, uint64_t v, uint64_t d, uint8_t* raw, uint64_t* ret);
int64_t w_re_double(uint32_t op, uint64_t v, uint64_t d, uint8_t* raw, uint64_t* ret);
enum { OP_CTOR = 0, OP_ASSIGN, OP_STORE_LOAD, OP_RAW, OP_ADD, OP_SUB, OP_MUL, OP_DIV, OP_MOD, OP_AND, OP_OR, OP_XOR, OP_SHL, OP_SHR,
  OP_PREINC, OP_POSTINC, OP_PREDEC, OP_POSTDEC, OP_COPY };
#define NB (BITS / 8)
#define MASK ((BITS == 64) ? ~0ULL : ((1ULL << (BITS % 64)) - 1))
#define SIGNBIT (1ULL << (BITS - 1))

/* native types of this cell: NT exposed type, UNT its unsigned twin, PT/UPT the type the arithmetic is done in after
 * integral promotion (int for both 16-bit types), PSIGNED whether that type is signed */
#if !FLT
#if BITS == 16
#if SIGNED
typedef int16_t NT;
#else
typedef uint16_t NT;
#endif
typedef uint16_t UNT; typedef int32_t PT; typedef uint32_t UPT;
#define PSIGNED 1
#define PMIN 0x80000000u
#elif BITS == 32
#if SIGNED
typedef int32_t NT; typedef int32_t PT;
#else
typedef uint32_t NT; typedef uint32_t PT;
#endif
typedef uint32_t UNT; typedef uint32_t UPT;
#define PSIGNED SIGNED
#define PMIN 0x80000000u
#else
#if SIGNED
typedef int64_t NT; typedef int64_t PT;
#else
typedef uint64_t NT; typedef uint64_t PT;
#endif
typedef uint64_t UNT; typedef uint64_t UPT;
#define PSIGNED SIGNED
#define PMIN 0x8000000000000000ull
#endif
#endif

#if FLT
/* IEEE NaN: exponent all ones, mantissa non-zero. Which NaN payload an arithmetic instruction propagates (first or second
 * operand) is not fixed by C++ and differs between compilers, so ARITHMETIC results are compared modulo NaN payload;
 * conversions, assignments and load/store are compared bit-exactly (NaN payloads included). */
#define EXPMASK ((BITS == 32) ? 0x7F800000ULL : 0x7FF0000000000000ULL)
#define MANMASK ((BITS == 32) ? 0x007FFFFFULL : 0x000FFFFFFFFFFFFFULL)
static int is_nan(uint64_t b) { return (b & EXPMASK) == EXPMASK && (b & MANMASK) != 0; }
#if BITS == 32
typedef float flt_t;
static flt_t fb(uint64_t b) { uint32_t x = (uint32_t)b; flt_t f; memcpy(&f, &x, 4); return f; }
static uint64_t bf(flt_t f) { uint32_t x; memcpy(&x, &f, 4); return x; }
#else
typedef double flt_t;
static flt_t fb(uint64_t b) { flt_t f; memcpy(&f, &b, 8); return f; }
static uint64_t bf(flt_t f) { uint64_t x; memcpy(&x, &f, 8); return x; }
#endif
#endif

void harness(void) {
  uint64_t v = in_u64() & MASK, d = in_u64() & MASK;
#ifdef OP
  uint32_t op = OP;
#else
  uint32_t op = (uint32_t)in_range(0, OP_COPY);
  /* the expensive arithmetic kernels have their own queries (-DOP=...) */
  ASSUME(op != OP_MUL && op != OP_DIV && op != OP_MOD);
#if FLT
  /* % & | ^ << >> do not exist for floating types; floating + - ++ -- have their own queries as well */
  ASSUME(op <= OP_RAW || op == OP_COPY);
#endif
#endif
  uint64_t stored = 0, returned = 0; /* reference: native value of x afterwards, and what the native operator returns */
  int raw_op = 0, arith = 0;
#if FLT
  flt_t x = fb(v), y = fb(d), r;
  arith = (op >= OP_ADD && op <= OP_DIV) || (op >= OP_PREINC && op <= OP_POSTDEC);
  switch (op) {
    case OP_CTOR: stored = returned = v; break;
    case OP_ASSIGN: case OP_STORE_LOAD: case OP_COPY: stored = returned = d; break;
    case OP_RAW: raw_op = 1; break;
    case OP_ADD: r = x; r += y; stored = returned = bf(r); break;
    case OP_SUB: r = x; r -= y; stored = returned = bf(r); break;
    case OP_MUL: r = x; r *= y; stored = returned = bf(r); break;
    case OP_DIV: r = x; r /= y; stored = returned = bf(r); break;
    case OP_PREINC: r = x; returned = bf(++r); stored = bf(r); break;
    case OP_POSTINC: r = x; returned = bf(r++); stored = bf(r); break;
    case OP_PREDEC: r = x; returned = bf(--r); stored = bf(r); break;
    case OP_POSTDEC: r = x; returned = bf(r--); stored = bf(r); break;
    default: ASSUME(0);
  }
#else
  /* native operands: x, y have the exposed type NT; arithmetic happens in the promoted type (int for the 16-bit types),
   * written here on the unsigned twin UPT so that the reference itself never executes undefined signed overflow */
  const NT x = (NT)v, y = (NT)d;
  const PT px = (PT)x, py = (PT)y;            /* integral promotion (sign- or zero-extends) */
  const UPT ux = (UPT)px, uy = (UPT)py;
  PT t;
  int ovf = 0; /* the native operation would overflow a signed (promoted) type: undefined, excluded */
#define RES(e) ((uint64_t)(UNT)(NT)(e)) /* convert back to NT (modular), as bit pattern */
  switch (op) {
    case OP_CTOR: stored = returned = v; break;
    case OP_ASSIGN: case OP_STORE_LOAD: case OP_COPY: stored = returned = d; break;
    case OP_RAW: raw_op = 1; break;
    case OP_ADD: stored = returned = RES(ux + uy); if (PSIGNED) ovf = __builtin_add_overflow(px, py, &t); break;
    case OP_SUB: stored = returned = RES(ux - uy); if (PSIGNED) ovf = __builtin_sub_overflow(px, py, &t); break;
    case OP_MUL: stored = returned = RES(ux * uy); if (PSIGNED) ovf = __builtin_mul_overflow(px, py, &t); break;
    case OP_DIV:
      ASSUME(y != 0);
      if (PSIGNED) { ovf = (ux == PMIN && py == -1); ASSUME(!ovf); stored = RES(px / py); }
      else stored = RES(ux / uy);
      returned = stored; break;
    case OP_MOD:
      ASSUME(y != 0);
      if (PSIGNED) { ovf = (ux == PMIN && py == -1); ASSUME(!ovf); stored = RES(px % py); }
      else stored = RES(ux % uy);
      returned = stored; break;
    case OP_AND: stored = returned = RES(ux & uy); break;
    case OP_OR: stored = returned = RES(ux | uy); break;
    case OP_XOR: stored = returned = RES(ux ^ uy); break;
    case OP_SHL: ASSUME(d < BITS); stored = returned = RES(ux << d); break;
    case OP_SHR: ASSUME(d < BITS);
      if (PSIGNED && px < 0) stored = RES(~((~ux) >> d)); /* arithmetic shift of a negative value */
      else stored = RES(ux >> d);
      returned = stored; break;
    case OP_PREINC: stored = returned = RES(ux + 1); if (PSIGNED) ovf = __builtin_add_overflow(px, (PT)1, &t); break;
    case OP_POSTINC: stored = RES(ux + 1); returned = v; if (PSIGNED) ovf = __builtin_add_overflow(px, (PT)1, &t); break;
    case OP_PREDEC: stored = returned = RES(ux - 1); if (PSIGNED) ovf = __builtin_sub_overflow(px, (PT)1, &t); break;
    case OP_POSTDEC: stored = RES(ux - 1); returned = v; if (PSIGNED) ovf = __builtin_sub_overflow(px, (PT)1, &t); break;
    default: ASSUME(0);
  }
  ASSUME(!ovf);
#endif
  uint8_t raw[9];
  for (int i = 0; i < 9; i++) raw[i] = 0xC3;
  uint64_t ret = 0;
  int64_t rc = CAT(w_, W)(op, v, d, raw, &ret);
  OBS(op); OBS(rc);
  ASSERT(rc == 0, "operation exists for this type");
  uint64_t got_stored = 0; /* decode the object bytes in the named order */
  for (int k = 0; k < 8; k++) if (k < NB) got_stored |= (uint64_t)raw[k] << (8 * (BIG ? (NB - 1 - k) : k));
  if (raw_op) {
    /* store_raw(d) puts the host-order bytes of d into the object verbatim; load_raw() gives them back */
    OBS(ret);
    for (int k = 0; k < 8; k++) if (k < NB) ASSERT(raw[k] == (uint8_t)(d >> (8 * k)), "store_raw stores the representation verbatim");
    ASSERT(ret == d, "load_raw returns the stored representation");
  } else {
    int nan_s = 0, nan_r = 0;
#if FLT
    nan_s = arith && is_nan(stored) && is_nan(got_stored); /* both NaN after arithmetic: payload not compared */
    nan_r = arith && is_nan(returned) && is_nan(ret);
#endif
    OBS(nan_r ? returned : ret); OBS(nan_s ? stored : got_stored);
    ASSERT(got_stored == stored || nan_s, "object bytes are the named-byte-order encoding of the native result");
    ASSERT(ret == returned || nan_r, "the operator returns what the same operator returns on the native type");
  }
  ASSERT(raw[NB] == 0xC3, "the object occupies exactly sizeof(T) bytes");
}
