/* C03: wrappers embedded in a packed record occupy exactly sizeof(T) bytes each, in the named byte order. */
#include "harness.h"
int64_t w_rec(uint32_t a, uint32_t b, uint64_t c, uint64_t f_bits, uint8_t* raw);
void harness(void) {
  uint32_t a = in_u32(), b = in_u16(); uint64_t c = in_u64(); uint32_t f = in_u32();
  uint8_t raw[20];
  for (int i = 0; i < 20; i++) raw[i] = 0xC3;
  int64_t n = w_rec(a, b, c, f, raw);
  ASSERT(n == 19, "record size = 1 + 4 + 2 + 8 + 4");
  ASSERT(raw[0] == 0x5A, "tag");
  for (int k = 0; k < 4; k++) ASSERT(raw[1 + k] == (uint8_t)(a >> (8 * (3 - k))), "be_uint32_t field: big-endian bytes");
  for (int k = 0; k < 2; k++) ASSERT(raw[5 + k] == (uint8_t)(b >> (8 * k)), "le_uint16_t field: little-endian bytes");
  for (int k = 0; k < 8; k++) ASSERT(raw[7 + k] == (uint8_t)(c >> (8 * (7 - k))), "re_uint64_t field: reverse-of-host (big-endian) bytes");
  for (int k = 0; k < 4; k++) ASSERT(raw[15 + k] == (uint8_t)(f >> (8 * (3 - k))), "be_float field: big-endian bytes of the IEEE pattern");
  ASSERT(raw[19] == 0xC3, "nothing beyond the record is written");
}
