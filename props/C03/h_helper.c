/* C03: free helpers of Encoding.hh, one function per query (FN), argument: full 64 symbolic bits (the wrapper truncates
 * to the parameter type, so every value of the parameter type is covered). Reference: byte k of the result is byte
 * N/8-1-k of the argument, bits above N are zero (unsigned forms) or copies of bit N-1 (signed forms / ext / sign_extend);
 * applying the function twice gives back the low N bits (involution). */
#include "harness.h"
uint64_t w_helper(uint32_t fn, uint64_t a);

static uint64_t rev(uint64_t a, int nbytes) { /* reference byte reversal of the low nbytes bytes */
  uint64_t r = 0;
  for (int k = 0; k < 8; k++) if (k < nbytes) r |= ((a >> (8 * k)) & 0xFF) << (8 * (nbytes - 1 - k));
  return r;
}
static uint64_t sext(uint64_t a, int from_bits, int to_bits) { /* replicate bit from_bits-1 into bits from_bits..to_bits-1 */
  uint64_t lo = (from_bits == 64) ? a : (a & ((1ULL << from_bits) - 1));
  uint64_t r = lo;
  for (int b = 0; b < 64; b++) if (b >= from_bits && b < to_bits && ((lo >> (from_bits - 1)) & 1)) r |= 1ULL << b;
  return r;
}
/* FN -> (kind, N = significant bytes, result bits) ; kind 0 = bswap unsigned, 1 = bswap + sign extension, 2 = pure sign extension */
void harness(void) {
  uint64_t a = in_u64();
#if KIND == 2
  /* ext24/ext48 take the narrow value in a wider parameter: the domain is "a holds an N-bit value" (for sign_extend the
   * parameter type is exactly N bits wide, the mask is a no-op) */
  a &= (NBYTES == 8) ? ~0ULL : ((1ULL << (8 * NBYTES)) - 1);
#endif
  uint64_t r = w_helper(FN, a);
  OBS(r);
#if KIND == 0
  ASSERT(r == rev(a, NBYTES), "bswapN: byte k of the result is byte N/8-1-k of the argument, upper bits zero");
  ASSERT(w_helper(FN2, r) == (NBYTES == 8 ? a : (a & ((1ULL << (8 * NBYTES)) - 1))), "bswapN is an involution on the low N bits");
#elif KIND == 1
  ASSERT(r == sext(rev(a, NBYTES), 8 * NBYTES, RBITS), "signed bswapN: reversed low N bits, sign-extended from bit N-1");
  ASSERT(w_helper(FN2, r) == sext(a, 8 * NBYTES, RBITS), "signed bswapN applied twice gives the sign-extended low N bits back");
#else
  ASSERT(r == sext(a, 8 * NBYTES, RBITS), "sign extension replicates bit N-1 of the narrower value into all upper bits of the result");
#endif
}
