ID = 'C03'
UNITS = {'enc': dict(wrap='wrap.cc', new_block=64)}
BOUNDS = ('loop-free: every query covers ALL values of its operands (full 16/32/64 bits of value and of operand - also when the operand type R differs from the exposed type -, IEEE bit patterns for '
          'float/double incl. NaN payloads, infinities, -0); one operator application per query')
STUBS = []
OUTSIDE = ['big-endian hosts (Platform.hh selects PHOSG_LITTLE_ENDIAN on x86-64; the other branch is not compiled)',
           'operand types R outside {T, int32_t, uint32_t, int64_t, uint64_t, and float/double on the floating wrappers} in the templated compound operators (8/16-bit operands, floating operands on integer wrappers, long double)',
           'native-undefined operand combinations: division/modulo by zero, shift counts >= width, signed 32/64-bit overflow, MIN / -1',
           'sign_extend with a 64-bit source type (no wider result type exists; the expression 1 << 63 on int is undefined)',
           'NaN payload propagation is compared between the wrapper and the C reference under the same FP model (CBMC float model / host FPU), not against IEEE-754 text']
ASSUMPTIONS = ['x86-64 little-endian host; two\'s complement; arithmetic right shift of negative values (C++20 semantics)']

# (name, BITS, SIGNED, FLT)
BASE = [('uint16_t', 16, 0, 0), ('int16_t', 16, 1, 0), ('uint32_t', 32, 0, 0), ('int32_t', 32, 1, 0),
        ('uint64_t', 64, 0, 0), ('int64_t', 64, 1, 0), ('float', 32, 1, 1), ('double', 64, 1, 1)]
# helper functions: fn -> (name, KIND, NBYTES, RBITS, FN2 = function applied for the involution check)
HELPERS = [(0, 'bswap8', 0, 1, 8, 0), (1, 'bswap16', 0, 2, 16, 1), (2, 'bswap24', 0, 3, 32, 2), (3, 'bswap24s', 1, 3, 32, 3),
           (4, 'bswap32', 0, 4, 32, 4), (5, 'bswap48', 0, 6, 64, 5), (6, 'bswap48s', 1, 6, 64, 6), (7, 'bswap64', 0, 8, 64, 7),
           (8, 'bswap32f_u2f', 0, 4, 32, 9), (9, 'bswap32f_f2u', 0, 4, 32, 8), (10, 'bswap64f_u2f', 0, 8, 64, 11), (11, 'bswap64f_f2u', 0, 8, 64, 10),
           (12, 'ext24', 2, 3, 32, 0), (13, 'ext48', 2, 6, 64, 0),
           (14, 'bswapT_u8', 0, 1, 8, 14), (15, 'bswapT_s8', 0, 1, 8, 15), (16, 'bswapT_u16', 0, 2, 16, 16), (17, 'bswapT_s16', 0, 2, 16, 17),
           (18, 'bswapT_u32', 0, 4, 32, 18), (19, 'bswapT_s32', 0, 4, 32, 19), (20, 'bswapT_u64', 0, 8, 64, 20), (21, 'bswapT_s64', 0, 8, 64, 21),
           (22, 'bswapT_f2u32', 0, 4, 32, 23), (23, 'bswapT_u2f32', 0, 4, 32, 22), (24, 'bswapT_d2u64', 0, 8, 64, 25), (25, 'bswapT_u2d64', 0, 8, 64, 24),
           (30, 'sign_extend_s16_u8', 2, 1, 16, 0), (31, 'sign_extend_s32_u8', 2, 1, 32, 0), (32, 'sign_extend_s64_u8', 2, 1, 64, 0),
           (33, 'sign_extend_s32_u16', 2, 2, 32, 0), (34, 'sign_extend_s64_u16', 2, 2, 64, 0), (35, 'sign_extend_s64_u32', 2, 4, 64, 0),
           (36, 'sign_extend_u16_u8', 2, 1, 16, 0), (37, 'sign_extend_u32_u8', 2, 1, 32, 0), (38, 'sign_extend_u64_u8', 2, 1, 64, 0),
           (39, 'sign_extend_u32_u16', 2, 2, 32, 0), (40, 'sign_extend_u64_u16', 2, 2, 64, 0), (41, 'sign_extend_u64_u32', 2, 4, 64, 0),
           (42, 'sign_extend_s32_s8', 2, 1, 32, 0), (43, 'sign_extend_s64_s16', 2, 2, 64, 0), (44, 'sign_extend_s64_s32', 2, 4, 64, 0)]
OPN = {'add': 4, 'sub': 5, 'mul': 6, 'div': 7, 'mod': 8, 'and': 9, 'or': 10, 'xor': 11, 'shl': 12, 'shr': 13, 'preinc': 14, 'postinc': 15, 'predec': 16, 'postdec': 17}


def Q(name, harness, defs, unwind=12, timeout=90, desc='', bounds='', **kw):
    d = dict(name=name, unit='enc', harness=harness, defs=defs, unwind=unwind, timeout=timeout, mem_gb=3, desc=desc, bounds=bounds, tv_runs=60)
    d.update(kw)
    return d


def queries(tier):
    qs = []
    for fn, nm, kind, nbytes, rbits, fn2 in HELPERS:
        qs.append(Q('helper_' + nm, 'h_helper.c', {'FN': fn, 'KIND': kind, 'NBYTES': nbytes, 'RBITS': rbits, 'FN2': fn2}, unwind=66,
                    desc=nm + ': byte reversal / sign replication against the bit-level definition, involution', bounds='all 2^64 argument patterns'))
    qs.append(Q('packed_record', 'h_rec.c', {}, unwind=22, desc='wrappers inside a packed struct: exact size, position and byte order', bounds='all field values'))
    for pre, big in (('le', 0), ('be', 1), ('re', 1)):
        for nm, bits, sg, flt in BASE:
            w = '%s_%s' % (pre, nm)
            defs = {'W': w, 'BITS': bits, 'SIGNED': sg, 'FLT': flt, 'BIG': big}
            bnd = 'all %d-bit values v and operands d' % bits
            qs.append(Q(w + '_ops', 'h_wrap.c', defs, unwind=10, bounds=bnd,
                        desc=w + ': ctor/convert, =, store/load, store_raw/load_raw, += -= ' + ('' if flt else '&= |= ^= <<= >>= ') + '++x x++ --x x--, copy-assign (operator symbolic): object bytes and returned value vs native'))
            for k in (('add', 'sub', 'mul', 'div', 'preinc', 'postinc', 'predec', 'postdec') if flt else ('mul', 'div', 'mod')):
                d2 = dict(defs); d2['OP'] = OPN[k]
                if tier == 'quick' and bits == 64 and (flt or (k == 'mul' and sg)):
                    continue  # double arithmetic and the int64 multiply-overflow predicate take 5-45 s each: thorough tier
                qs.append(Q('%s_%s' % (w, k), 'h_wrap.c', d2, unwind=10, bounds=bnd, cost=600 if bits == 64 else 100, backend='z3',
                            desc='%s operator %s: object bytes and returned value vs native, both operands symbolic' % (w, k)))
    # compound operators with an operand type R different from the exposed type T (h_mixed.c)
    RTYPES = {'i32': (32, 1, 0), 'u32': (32, 0, 0), 'i64': (64, 1, 0), 'u64': (64, 0, 0), 'f32': (32, 1, 1), 'f64': (64, 1, 1)}
    for pre, big in (('le', 0), ('be', 1), ('re', 1)):
        for nm, bits, sg, flt in BASE:
            w = '%s_%s' % (pre, nm)
            if flt:
                rts = ['i32', 'u32', 'i64', 'u64', 'f64' if bits == 32 else 'f32']
                qrts = ['i32', 'u32']
            else:
                own = ('i' if sg else 'u') + str(bits)
                rts = [r for r in ('i32', 'u32', 'i64', 'u64') if r != own]
                qrts = ['i32', 'u32'] if bits == 64 else [('u64' if sg else 'i64')]
            if tier == 'quick' and w in ('be_int16_t', 'be_uint32_t'):
                continue  # quick: one 16-bit and one 32-bit wrapper with a 64-bit operand (be_uint16_t x i64, be_int32_t x u64)
            if tier == 'quick' and pre != 'be':
                continue  # quick: one byte order (the operator bodies are shared by le_/be_/re_; byte order itself is covered by the R = T queries)
            for r in (qrts if tier == 'quick' else rts):
                rb, rs, rf = RTYPES[r]
                defs = {'W': w, 'BITS': bits, 'SIGNED': sg, 'FLT': flt, 'BIG': big, 'RB': rb, 'RS': rs, 'RF': rf}
                bnd = 'all %d-bit values v, all %d-bit operands d of type %s' % (bits, rb, r)
                cheap = ('add', 'sub') if flt else ('add', 'sub', 'and', 'or', 'xor', 'shl', 'shr')
                costly = ('mul', 'div') if flt else ('mul', 'div', 'mod')
                for k in cheap + (costly if pre == 'be' else ()):
                    if tier == 'quick' and k in ('or', 'xor'):
                        continue  # same code shape as &=
                    d2 = dict(defs); d2['OP'] = OPN[k]
                    qs.append(Q('%s_x_%s_%s' % (w, r, k), 'h_mixed.c', d2, unwind=10, bounds=bnd, backend='' if flt else 'z3', flags=['--cvc5'] if flt else [], cost=300 if k in costly else 50,
                                desc='%s %s= (%s)d: object bytes and returned value vs the native usual-arithmetic-conversion result, both operands symbolic' % (w, k, r)))
    return qs
