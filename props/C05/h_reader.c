/* C05 kernel: the bounds-checked StringReader primitives the JSON parser reads its input through, on a LEN-byte buffer
 * (all bytes symbolic), symbolic start offset in [0, LEN] and, for pget_s8, every offset the parser can form (it only
 * calls pget_s8(where()+1) with where() < size, i.e. offsets 0..LEN; offsets near 2^64 where offset+size wraps are property C02's
 * subject, not reachable from JSON::parse):
 *   get_s8(false) / get_s8(): the byte at the offset, or out_of_range iff offset >= LEN; advances by one only on success+advance
 *   pget_s8(off): the byte at off, or out_of_range iff off >= LEN          eof(): offset >= LEN
 *   skip_if(lit, n): true and advance by n iff the next n bytes equal lit (n = LITLEN, lit symbolic), else false and no move
 * plus value_for_hex_char (OP 5): 0-9 A-F a-f -> value, anything else out_of_range.
 * "Never reads outside the input" is decided by CBMC's pointer checks on the translated code (ASan natively): the buffer is
 * exactly LEN bytes. OP is a concrete cell. */
#include "harness.h"
#include "json_cuts.h"
int64_t w_reader_op(uint8_t* in, uint64_t n, uint64_t start, uint32_t op, uint64_t arg, uint8_t* lit, uint64_t litlen, uint64_t* where);
int64_t w_hex_char(uint8_t c);
#ifndef LITLEN
#define LITLEN 1
#endif
void harness(void) {
#if OP == 5
  uint8_t c = in_u8();
  int64_t r = w_hex_char(c);
  OBS(r);
  int ref = (c >= '0' && c <= '9') ? c - '0' : (c >= 'A' && c <= 'F') ? c - 'A' + 10 : (c >= 'a' && c <= 'f') ? c - 'a' + 10 : -1;
  ASSERT(r == (int64_t)ref, "value_for_hex_char: digit value, or out_of_range for a non-hex character");
#else
  uint8_t buf[LEN ? LEN : 1], lit[LITLEN];
  in_bytes(buf, LEN);
  in_bytes(lit, LITLEN);
  uint64_t start = in_range(0, LEN);
  uint64_t arg = in_range(0, LEN + 1);
  uint64_t where = 12345;
  int64_t r = w_reader_op(buf, LEN, start, OP, arg, lit, LITLEN, &where);
  OBS(r);
#if OP == 0 || OP == 1
  if (start >= LEN) ASSERT(r == -1, "reading at or past the end throws out_of_range");
  else { ASSERT(r == buf[start], "get_s8 returns the byte at the offset"); ASSERT(where == start + (OP == 1), "offset advances by one only when asked to"); }
#elif OP == 2
  if (arg >= LEN) ASSERT(r == -1, "pget_s8 at or past the end throws out_of_range");
  else { ASSERT(r == buf[arg], "pget_s8 returns the byte at the given offset"); ASSERT(where == start, "pget_s8 does not move the reader"); }
#elif OP == 3
  ASSERT(r == (start >= LEN), "eof() is offset >= size"); ASSERT(where == start, "eof() does not move the reader");
#else
  int match = start + LITLEN <= LEN;
  if (match) for (unsigned i = 0; i < LITLEN; i++) if (buf[start + i] != lit[i]) match = 0;
  ASSERT(r == match, "skip_if is true exactly when the next bytes equal the literal");
  ASSERT(where == start + (match ? LITLEN : 0), "skip_if advances past the literal only on a match");
#endif
#endif
}
