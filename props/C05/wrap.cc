// C05 wrappers: JSON::parse (three entry points) and the static whitespace/comment skipper (JSON.cc)
#include "wrap.hh"
#include "Strings.cc"
#include "JSON.cc"
using namespace phosg;

#define W_PARSE_ERROR (-20)
#define W_TYPE_ERROR (-21)
#define W_JSON_CATCH                                              \
  catch (const JSON::parse_error&) { return W_PARSE_ERROR; }      \
  catch (const JSON::type_error&) { return W_TYPE_ERROR; }        \
  W_CATCH_ALL

// kind: 0 null, 1 bool, 2 int, 3 float, 4 string, 5 list, 6 dict.
// *val: bool -> 0/1, int -> value, float -> IEEE bits, string -> length (bytes in sout), list/dict -> size
static int64_t describe(const JSON& j, uint64_t* val, uint8_t* sout, size_t cap) {
  if (j.is_null()) { *val = 0; return 0; }
  if (j.is_bool()) { *val = j.as_bool() ? 1 : 0; return 1; }
  if (j.is_int()) { *val = static_cast<uint64_t>(j.as_int()); return 2; }
  if (j.is_float()) { double d = j.as_float(); memcpy(val, &d, 8); return 3; }
  if (j.is_string()) {
    const std::string& s = j.as_string();
    if (s.size() > cap) return W_CAPACITY;
    if (s.size()) memcpy(sout, s.data(), s.size());
    *val = s.size();
    return 4;
  }
  if (j.is_list()) { *val = j.size(); return 5; }
  *val = j.size();
  return 6;
}

// string entry point (const char*, size): rejects trailing non-whitespace
WEXPORT int64_t w_json_parse(const uint8_t* in, size_t n, int strict, uint64_t* val, uint8_t* sout, size_t cap) {
  try {
    JSON j = JSON::parse(reinterpret_cast<const char*>(in), n, strict != 0);
    return describe(j, val, sout, cap);
  }
  W_JSON_CATCH
}

// string entry point, then describe one element of the top-level container: list -> element idx, dict -> value of key.
// *topsize = size of the container. W_NO_ELEM if the result is not a container / idx out of range / key absent.
#define W_NO_ELEM (-30)
WEXPORT int64_t w_json_parse_elem(const uint8_t* in, size_t n, int strict, size_t idx, const uint8_t* key, size_t keylen, uint64_t* topsize,
    uint64_t* val, uint8_t* sout, size_t cap) {
  try {
    JSON j = JSON::parse(reinterpret_cast<const char*>(in), n, strict != 0);
    if (j.is_list()) {
      *topsize = j.size();
      if (idx >= j.size()) return W_NO_ELEM;
      return describe(j.at(idx), val, sout, cap);
    }
    if (j.is_dict()) {
      *topsize = j.size();
      std::string k(reinterpret_cast<const char*>(key), keylen);
      if (!j.contains(k)) return W_NO_ELEM;
      return describe(j.at(k), val, sout, cap);
    }
    return W_NO_ELEM;
  }
  W_JSON_CATCH
}

// reader entry point: *where = reader offset after the value
WEXPORT int64_t w_json_parse_reader(const uint8_t* in, size_t n, int strict, uint64_t* val, uint8_t* sout, size_t cap, uint64_t* where) {
  try {
    StringReader r(in, n);
    JSON j = JSON::parse(r, strict != 0);
    *where = r.where();
    return describe(j, val, sout, cap);
  }
  W_JSON_CATCH
}

// Either entry point (reader != 0: StringReader& entry point, *where = reader offset after the value), then describe the root
// and up to two members reached by concrete paths. A path is a byte sequence; on a list a step is the index (byte - '0'), on a
// dictionary the one-byte key. Results: return value / *val / sout[0..15] = root; kinds[i] / vals[i] / sout[16*(i+1)..] = member
// i (kinds[i] = W_NO_ELEM if the path does not exist). The paths are concrete in every harness.
static const JSON* walk(const JSON& j, const uint8_t* p, size_t n) {
  const JSON* c = &j;
  for (size_t i = 0; i < n; i++) {
    if (c->is_list()) {
      size_t idx = static_cast<size_t>(p[i] - '0');
      if (idx >= c->size()) return nullptr;
      c = &c->at(idx);
    } else if (c->is_dict()) {
      std::string k(1, static_cast<char>(p[i]));
      if (!c->contains(k)) return nullptr;
      c = &c->at(k);
    } else {
      return nullptr;
    }
  }
  return c;
}
WEXPORT int64_t w_json_parse_q(const uint8_t* in, size_t n, int strict, int reader, uint64_t* where, const uint8_t* p0, size_t n0,
    const uint8_t* p1, size_t n1, int64_t* kinds, uint64_t* vals, uint64_t* val, uint8_t* sout) {
  try {
    StringReader r(in, n);
    JSON j = reader ? JSON::parse(r, strict != 0) : JSON::parse(reinterpret_cast<const char*>(in), n, strict != 0);
    *where = r.where();
    kinds[0] = kinds[1] = W_NO_ELEM;
    if (p0) {
      const JSON* m = walk(j, p0, n0);
      if (m) kinds[0] = describe(*m, &vals[0], sout + 16, 16);
    }
    if (p1) {
      const JSON* m = walk(j, p1, n1);
      if (m) kinds[1] = describe(*m, &vals[1], sout + 32, 16);
    }
    return describe(j, val, sout, 16);
  }
  W_JSON_CATCH
}

// static void skip_whitespace_and_comments(StringReader&, bool): returns the reader offset afterwards
WEXPORT int64_t w_json_skip_ws(const uint8_t* in, size_t n, size_t start, int strict) {
  try {
    StringReader r(in, n, start);
    skip_whitespace_and_comments(r, strict != 0);
    return static_cast<int64_t>(r.where());
  }
  W_JSON_CATCH
}

// The StringReader primitives JSON::parse is built on (Strings.hh / Strings.cc). op: 0 get_s8(false) (peek), 1 get_s8() (advance),
// 2 pget_s8(arg), 3 eof(), 4 skip_if(lit, litlen). Returns the byte (0..255) / the bool; *where = reader offset afterwards.
WEXPORT int64_t w_reader_op(const uint8_t* in, size_t n, size_t start, int op, size_t arg, const uint8_t* lit, size_t litlen, uint64_t* where) {
  try {
    StringReader r(in, n, start);
    int64_t ret;
    switch (op) {
      case 0: ret = static_cast<uint8_t>(r.get_s8(false)); break;
      case 1: ret = static_cast<uint8_t>(r.get_s8()); break;
      case 2: ret = static_cast<uint8_t>(r.pget_s8(arg)); break;
      case 3: ret = r.eof() ? 1 : 0; break;
      default: ret = r.skip_if(lit, litlen) ? 1 : 0; break;
    }
    *where = r.where();
    return ret;
  }
  W_JSON_CATCH
}

// value_for_hex_char (Strings.cc): digit value, or out_of_range
WEXPORT int64_t w_hex_char(uint8_t c) {
  try {
    return value_for_hex_char(static_cast<char>(c));
  }
  W_JSON_CATCH
}
