/* C05: JSON::parse(const char*, size, strict) on LEN symbolic bytes against an independent reference reader.
 *
 * Reference (written from RFC 8259 and the extension list in JSON.hh, not from JSON.cc):
 *   strict grammar   = RFC 8259: ws = SP HT LF CR; null true false; number = -? (0|[1-9][0-9]*) (.[0-9]+)? ([eE][+-]?[0-9]+)?;
 *                      string = " (unescaped >= 0x20 except " and \ | \" \\ \/ \b \f \n \r \t \uXXXX)* "; [ v,* ] ; { "k":v,* }
 *   default grammar  = strict + the four documented extensions: // comments (to CR, LF or end of input) wherever ws is
 *                      allowed, hexadecimal integers -?0x[0-9A-Fa-f]+, n t f, one trailing comma before ] or }.
 *   values: integer numerals (no fraction, no exponent, hex) are ints; numerals with a fraction or exponent are floats
 *   (value = digits * 10^(exp - #fraction digits), one correctly rounded multiplication/division); \u00XX denotes the byte XX.
 * Asserted:
 *   A1 totality: the call returns a value or throws parse_error / out_of_range, nothing else (memory safety: CBMC pointer
 *      checks on the translated code, ASan natively);
 *   A2 every strict-grammar document is accepted in BOTH modes with the reference kind and value;
 *   A3 a document that needs an extension is accepted with the reference value in default mode and rejected in strict mode.
 * Outside this harness (stated in spec.BOUNDS): \uXXXX above U+00FF, exponents above 9, duplicate dictionary keys, numerals
 * beyond 18 digits; for such inputs only A1 is asserted.
 * Cells: LEN (input length), NB (max number of '[' '{' bytes = nesting bound), FIRST (optional class of the first byte). */
#include "harness.h"
#include "json_cuts.h"
int64_t w_json_parse(uint8_t* in, uint64_t n, uint32_t strict, uint64_t* val, uint8_t* sout, uint64_t cap);
int64_t w_json_parse_elem(uint8_t* in, uint64_t n, uint32_t strict, uint64_t idx, uint8_t* key, uint64_t keylen, uint64_t* topsize, uint64_t* val, uint8_t* sout, uint64_t cap);

#define K_NULL 0
#define K_BOOL 1
#define K_INT 2
#define K_FLOAT 3
#define K_STRING 4
#define K_LIST 5
#define K_DICT 6

typedef struct {
  int ok;        /* text at pos is a value of the grammar */
  int outside;   /* value is outside the stated bounds: no value claim */
  int kind;
  uint64_t ival; /* bool / int / container size */
  double fval;
  uint8_t str[LEN + 1];
  unsigned slen;
  unsigned end; /* offset after the value */
} rv_t;

static uint8_t in[LEN + 1];
static const double P10[] = {1e0, 1e1, 1e2, 1e3, 1e4, 1e5, 1e6, 1e7, 1e8, 1e9, 1e10, 1e11, 1e12, 1e13, 1e14, 1e15, 1e16, 1e17, 1e18, 1e19, 1e20, 1e21, 1e22};

static int is_dig(uint8_t c) { return c >= '0' && c <= '9'; }
static int hexv(uint8_t c) {
  if (c >= '0' && c <= '9') return c - '0';
  if (c >= 'A' && c <= 'F') return c - 'A' + 10;
  if (c >= 'a' && c <= 'f') return c - 'a' + 10;
  return -1;
}
static int lit(unsigned pos, const char* s, unsigned n) {
  if (pos + n > LEN) return 0;
  for (unsigned i = 0; i < n; i++) if (in[pos + i] != (uint8_t)s[i]) return 0;
  return 1;
}

static unsigned ref_ws(unsigned pos, int ext) {
  for (;;) {
    if (pos >= LEN) return pos;
    uint8_t c = in[pos];
    if (c == ' ' || c == '\t' || c == '\n' || c == '\r') { pos++; continue; }
    if (ext && c == '/' && pos + 1 < LEN && in[pos + 1] == '/') {
      pos += 2;
      while (pos < LEN && in[pos] != '\n' && in[pos] != '\r') pos++;
      continue;
    }
    return pos;
  }
}

static void ref_number(unsigned pos, int ext, rv_t* v) {
  unsigned i = pos;
  int neg = 0;
  v->ok = 0;
  if (i < LEN && in[i] == '-') { neg = 1; i++; }
  if (i >= LEN || !is_dig(in[i])) return;
  if (ext && in[i] == '0' && i + 2 < LEN && in[i + 1] == 'x' && hexv(in[i + 2]) >= 0) {
    uint64_t m = 0; unsigned nd = 0;
    i += 2;
    while (i < LEN && hexv(in[i]) >= 0) { m = (m << 4) | (uint64_t)hexv(in[i]); i++; nd++; }
    if (nd > 15) v->outside = 1;
    v->ok = 1; v->kind = K_INT; v->ival = neg ? (uint64_t)0 - m : m; v->end = i;
    return;
  }
  uint64_t m = 0; unsigned nd = 0, nfrac = 0; int isf = 0; unsigned ex = 0; int eneg = 0;
  if (in[i] == '0') { i++; nd = 1; }
  else { while (i < LEN && is_dig(in[i])) { m = m * 10 + (uint64_t)(in[i] - '0'); i++; nd++; } }
  if (i < LEN && in[i] == '.') {
    if (i + 1 >= LEN || !is_dig(in[i + 1])) return;
    i++;
    while (i < LEN && is_dig(in[i])) { m = m * 10 + (uint64_t)(in[i] - '0'); i++; nd++; nfrac++; }
    isf = 1;
  }
  if (i < LEN && (in[i] == 'e' || in[i] == 'E')) {
    unsigned j = i + 1;
    if (j < LEN && (in[j] == '+' || in[j] == '-')) { eneg = in[j] == '-'; j++; }
    if (j >= LEN || !is_dig(in[j])) return;
    unsigned ned = 0;
    while (j < LEN && is_dig(in[j])) { ex = ex * 10 + (unsigned)(in[j] - '0'); j++; ned++; }
    if (ned > 1) v->outside = 1; /* exponent bound 9 */
    i = j;
    isf = 1;
  }
  if (nd > 15) v->outside = 1;
  v->ok = 1; v->end = i;
  if (!isf) { v->kind = K_INT; v->ival = neg ? (uint64_t)0 - m : m; return; }
  v->kind = K_FLOAT;
  int p = (eneg ? -(int)ex : (int)ex) - (int)nfrac;
  double d = (double)m;
  if (p > 22 || p < -22) { v->outside = 1; p = 0; }
  if (p >= 0) d = d * P10[p]; else d = d / P10[-p];
  v->fval = neg ? -d : d;
}

static void ref_string(unsigned pos, rv_t* v) {
  unsigned i = pos + 1;
  v->ok = 0; v->slen = 0;
  for (;;) {
    if (i >= LEN) return;
    uint8_t c = in[i];
    if (c == '"') { v->ok = 1; v->kind = K_STRING; v->end = i + 1; return; }
    if (c < 0x20) return;
    if (c != '\\') { v->str[v->slen++] = c; i++; continue; }
    if (i + 1 >= LEN) return;
    uint8_t e = in[i + 1];
    uint8_t b;
    switch (e) {
      case '"': b = '"'; break; case '\\': b = '\\'; break; case '/': b = '/'; break; case 'b': b = '\b'; break;
      case 'f': b = '\f'; break; case 'n': b = '\n'; break; case 'r': b = '\r'; break; case 't': b = '\t'; break;
      case 'u': {
        if (i + 5 >= LEN) return;
        int h0 = hexv(in[i + 2]), h1 = hexv(in[i + 3]), h2 = hexv(in[i + 4]), h3 = hexv(in[i + 5]);
        if (h0 < 0 || h1 < 0 || h2 < 0 || h3 < 0) return;
        if (h0 != 0 || h1 != 0) v->outside = 1; /* above U+00FF: not claimed */
        b = (uint8_t)(h2 * 16 + h3);
        i += 4;
        break;
      }
      default: return;
    }
    v->str[v->slen++] = b;
    i += 2;
  }
}

/* scalar value at pos */
static void ref_scalar(unsigned pos, int ext, rv_t* v) {
  v->ok = 0;
  if (pos >= LEN) return;
  uint8_t c = in[pos];
  if (c == '"') { ref_string(pos, v); return; }
  if (c == '-' || is_dig(c)) { ref_number(pos, ext, v); return; }
  if (lit(pos, "null", 4)) { v->ok = 1; v->kind = K_NULL; v->ival = 0; v->end = pos + 4; return; }
  if (lit(pos, "true", 4)) { v->ok = 1; v->kind = K_BOOL; v->ival = 1; v->end = pos + 4; return; }
  if (lit(pos, "false", 5)) { v->ok = 1; v->kind = K_BOOL; v->ival = 0; v->end = pos + 5; return; }
  if (ext && c == 'n') { v->ok = 1; v->kind = K_NULL; v->ival = 0; v->end = pos + 1; return; }
  if (ext && c == 't') { v->ok = 1; v->kind = K_BOOL; v->ival = 1; v->end = pos + 1; return; }
  if (ext && c == 'f') { v->ok = 1; v->kind = K_BOOL; v->ival = 0; v->end = pos + 1; return; }
}

#if NB >= 1
/* value at pos: scalar, or a container whose members are scalars (nesting bound 1). For containers *el describes member
 * number idx (if present) and *key its key (dicts); dupkeys is set if two members have the same key. */
static void ref_value(unsigned pos, int ext, rv_t* v, unsigned idx, rv_t* el, rv_t* key, int* dupkeys) {
  v->ok = 0;
  if (pos >= LEN) return;
  uint8_t open = in[pos];
  if (open != '[' && open != '{') { ref_scalar(pos, ext, v); return; }
  uint8_t close = open == '[' ? ']' : '}';
  unsigned i = ref_ws(pos + 1, ext);
  unsigned count = 0;
  rv_t k, e, firstkey;
  el->ok = 0; key->ok = 0; firstkey.ok = 0;
  if (i < LEN && in[i] == close) { v->ok = 1; v->kind = open == '[' ? K_LIST : K_DICT; v->ival = 0; v->end = i + 1; return; }
  for (;;) {
    if (open == '{') {
      if (i >= LEN || in[i] != '"') return;
      k.outside = 0;
      ref_string(i, &k);
      if (!k.ok) return;
      if (k.outside) v->outside = 1;
      i = ref_ws(k.end, ext);
      if (i >= LEN || in[i] != ':') return;
      i = ref_ws(i + 1, ext);
      if (count == 0) firstkey = k;
      else if (count == 1 && firstkey.slen == k.slen) {
        int same = 1;
        for (unsigned q = 0; q < k.slen; q++) if (firstkey.str[q] != k.str[q]) same = 0;
        if (same) *dupkeys = 1;
      }
      if (count >= 2) v->outside = 1; /* duplicate detection is written for <= 2 members */
    }
    e.outside = 0;
    ref_scalar(i, ext, &e);
    if (!e.ok) return;
    if (e.outside) v->outside = 1;
    if (count == idx) { *el = e; if (open == '{') *key = k; }
    count++;
    i = ref_ws(e.end, ext);
    if (i >= LEN) return;
    if (in[i] == close) break;
    if (in[i] != ',') return;
    i = ref_ws(i + 1, ext);
    if (ext && i < LEN && in[i] == close) break; /* one trailing comma */
  }
  v->ok = 1; v->kind = open == '[' ? K_LIST : K_DICT; v->ival = count; v->end = i + 1;
}
#endif

static int same_value(const rv_t* v, int64_t r, uint64_t val, const uint8_t* sout, int* kind_ok) {
  *kind_ok = (r == v->kind);
  switch (v->kind) {
    case K_NULL: return r == K_NULL;
    case K_BOOL: return r == K_BOOL && val == v->ival;
    case K_INT: return r == K_INT && val == v->ival;
    case K_FLOAT: {
      double got;
      if (r == K_FLOAT) { memcpy(&got, &val, 8); }
      else if (r == K_INT) got = (double)(int64_t)val;
      else return 0;
      double ref = v->fval, diff = got - ref, mag = ref < 0 ? -ref : ref;
      if (diff < 0) diff = -diff;
      return diff <= mag * 1e-9; /* got == ref up to rounding (also excludes NaN/inf) */
    }
    case K_STRING: {
      if (r != K_STRING || val != v->slen) return 0;
      for (unsigned i = 0; i < v->slen; i++) if (sout[i] != v->str[i]) return 0;
      return 1;
    }
    default: return r == v->kind && val == v->ival;
  }
}

void harness(void) {
  uint8_t sout[LEN + 1];
  in_bytes(in, LEN);
  uint32_t strict = in_bool();
#ifdef FIRST_LO
  ASSUME(in[0] >= FIRST_LO && in[0] <= FIRST_HI);
#endif
  { unsigned nb = 0; for (unsigned i = 0; i < LEN; i++) nb += (in[i] == '[' || in[i] == '{'); ASSUME(nb <= NB); }
  /* bound on the exponent loop of the code under test: at most one digit after e/E[+-] */
  for (unsigned i = 0; i + 2 < LEN; i++) if (in[i] == 'e' || in[i] == 'E') {
    unsigned j = i + 1;
    if (in[j] == '+' || in[j] == '-') j++;
    if (j + 1 < LEN) ASSUME(!(is_dig(in[j]) && is_dig(in[j + 1])));
  }
  /* reference, both grammars */
  rv_t sv, xv, sel, xel, skey, xkey;
  int sdup = 0, xdup = 0;
  unsigned idx = 0;
  sv.outside = xv.outside = 0; sel.ok = xel.ok = skey.ok = xkey.ok = 0; sel.outside = xel.outside = 0;
  unsigned sp = ref_ws(0, 0), xp = ref_ws(0, 1);
#if NB >= 1
  idx = (unsigned)in_range(0, 2);
  ref_value(sp, 0, &sv, idx, &sel, &skey, &sdup);
  ref_value(xp, 1, &xv, idx, &xel, &xkey, &xdup);
#else
  ref_scalar(sp, 0, &sv);
  ref_scalar(xp, 1, &xv);
#endif
  int std_ok = sv.ok && ref_ws(sv.end, 0) == LEN;
  int ext_ok = xv.ok && ref_ws(xv.end, 1) == LEN;

  uint64_t val = 0;
  int64_t r = w_json_parse(in, LEN, strict, &val, sout, LEN + 1);
  OBS(r); OBS(std_ok); OBS(ext_ok);
  ASSERT(r >= 0 || r == -20 || r == -1, "A1: only parse_error / out_of_range escape");
  int kind_ok = 1;
  const rv_t* ref = 0; const rv_t* rel = 0; const rv_t* rkey = 0; int dup = 0;
  if (std_ok && !sv.outside) {
    ASSERT(r >= 0, "A2: a standard JSON document is accepted (both modes)");
    ref = &sv; rel = &sel; rkey = &skey; dup = sdup;
  } else if (!std_ok && ext_ok && !xv.outside) {
    if (strict) { ASSERT(r < 0, "A3: strict mode rejects a document that needs an extension"); }
    else { ASSERT(r >= 0, "A3: default mode accepts the documented extensions"); ref = &xv; rel = &xel; rkey = &xkey; dup = xdup; }
  }
  if (dup) ref = 0; /* RFC 8259: behaviour with duplicate member names is unspecified */
  if (ref && r >= 0) {
    ASSERT(same_value(ref, r, val, sout, &kind_ok), "parsed value equals the reference value");
    ASSERT(kind_ok, "parsed kind equals the reference kind (a numeral with a fraction or exponent is a float)");
#if NB >= 1
    if ((ref->kind == K_LIST || ref->kind == K_DICT) && rel->ok && !dup) {
      uint64_t topsize = 0, eval = 0;
      int64_t er = w_json_parse_elem(in, LEN, strict, idx, (uint8_t*)rkey->str, ref->kind == K_DICT ? rkey->slen : 0, &topsize, &eval, sout, LEN + 1);
      OBS(er);
      ASSERT(er >= 0, "container member is present");
      if (er >= 0) {
        ASSERT(same_value(rel, er, eval, sout, &kind_ok), "container member equals the reference member");
        ASSERT(kind_ok, "container member kind equals the reference kind");
      }
    }
#endif
  }
}
