/* C05 kernel: static skip_whitespace_and_comments(StringReader&, bool) on LEN symbolic bytes, symbolic mode.
 * Reference scanner written from the JSON.hh contract: whitespace = SP HT CR LF; with extensions enabled a `//` starts a
 * comment that runs to the next CR or LF (or the end of input); in strict mode comments are not recognised.
 * Asserted: stops exactly where the reference stops; nothing but out_of_range can escape (lone trailing '/', see below). Reads outside
 * [0,LEN) are CBMC bounds failures on the translated StringReader / ASan failures natively. */
#include "harness.h"
int64_t w_json_skip_ws(uint8_t* in, uint64_t n, uint64_t start, uint32_t strict);

static int is_ws(uint8_t c) { return c == ' ' || c == '\t' || c == '\r' || c == '\n'; }

void harness(void) {
  uint8_t in[LEN + 1];
  in_bytes(in, LEN);
  uint32_t strict = in_bool();
  uint64_t i = 0;
  for (;;) {
    if (i >= LEN) break;
    if (is_ws(in[i])) { i++; continue; }
    if (!strict && in[i] == '/' && i + 1 < LEN && in[i + 1] == '/') {
      i += 2;
      while (i < LEN && in[i] != '\n' && in[i] != '\r') i++;
      continue;
    }
    break;
  }
  int64_t r = w_json_skip_ws(in, LEN, 0, strict);
  OBS(r);
  /* a lone '/' as the last byte (extensions enabled): the look-ahead for the second '/' reads past the end and the documented
   * out_of_range escapes; the property allows parse_error or out_of_range for such (invalid) documents */
  int lone_slash = !strict && i + 1 == LEN && in[i] == '/';
  ASSERT(r >= 0 || (lone_slash && r == -1), "only out_of_range can escape, and only for a lone '/' at the end of the input");
  if (r >= 0) ASSERT(r == (int64_t)i, "stops at the first byte that is neither whitespace nor inside a // comment");
}
