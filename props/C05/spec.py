import os
ID = 'C05'
PARSE = '_ZN5phosg4JSON5parseERNS_12StringReaderEb'
SKIPWS = '_ZN5phosgL28skip_whitespace_and_commentsERNS_12StringReaderEb'
# std::variant<...>::_M_reset visitor = the recursive part of ~JSON (list/dict members are JSON objects again)
RESET = '_ZSt10__do_visitIvZNSt8__detail9__variant16_Variant_storageILb0EJDnbldNSt7__cxx1112basic_stringIcSt11char_traitsIcESaIcEEESt6vectorISt10unique_ptrIN5phosg4JSONESt14default_deleteISC_EESaISF_EESt13unordered_mapIS8_SF_vvvEEE8_M_resetEvEUlOT_E_JRSt7variantIJDnbldS8_SH_SJ_EEEEDcOT0_DpOT1_'
REALLOC = '_ZNSt6vectorISt10unique_ptrIN5phosg4JSONESt14default_deleteIS2_EESaIS5_EE17_M_realloc_insertIJPS2_EEEvN9__gnu_cxx17__normal_iteratorIPS5_S7_EEDpOT_'
# builders of exception MESSAGES (text never influences a result or a thrown type): cut out of the generated C, empty-string
# bodies in json_cuts.h. Only value_for_hex_char's message builder is reached by the tiered queries.
CUTS = [r'^_ZNSt7__cxx119to_stringEm$', r'^_ZStplIcSt11char_traitsIcESaIcEENSt7__cxx1112basic_stringIT_T0_T1_EEPKS5_OS8_$',
        r'^_ZNSt7__cxx1112basic_stringIcSt11char_traitsIcESaIcEEC2IS3_EEPKcRKS3_$', r'^_ZN5phosg13string_printfB5cxx11EPKcz$']
UNITS = {'json': dict(wrap='wrap.cc', shim=True, new_block=96, cxxflags=['-DVERIF_UMAP_CAP=2'], cuts=CUTS, ir2c_flags=['--union-fp-bytes'])}

BOUNDS = ('JSON::parse on templated documents (h_tmpl.c): concrete skeleton + trailing symbolic holes of one lexical class each (WS, digit, letter), parser mode a concrete cell: '
          '19 templates x 2 modes (7 x 2 in the quick tier), every value of the holes; plus exponent-plus-sign templates 1e+D, -2.5E+D, 7e+2 WS and fully concrete '
          'one-member dictionaries {"a":7} {"a":t} {"a":0x1C} {"a":7,} (mode a cell); '
          'skip_whitespace_and_comments: every input of length 0..6 (quick) / 0..8 (thorough) over all 256 byte values, both modes; '
          'StringReader get_s8 / pget_s8 / eof / skip_if: buffers of 0..6 bytes, every start offset 0..LEN, pget offsets 0..LEN+1, '
          'literal lengths 1, 4, 5 (the lengths JSON::parse uses) with symbolic literal bytes; value_for_hex_char: all 256 bytes. '
          'Loops unwound to LEN+3 with unwinding assertions.')
STUBS = ['message builders cut to empty strings (json_cuts.h): phosg::string_printf (text of the out_of_range thrown by value_for_hex_char); '
         'std::to_string(unsigned long), operator+(const char*, std::string&&), std::string(const char*) (texts of the parse_errors thrown by JSON::parse)',
         'engine/shim/unordered_map (fixed capacity 2) replaces std::unordered_map in the translated TU (empty dictionaries in the template queries)',
         'ir2c --union-fp-bytes: double members of std::variant storage emitted as byte arrays (CBMC loses pointers stored in double-typed fields)']
OUTSIDE = ['JSON::parse on inputs that are not one of the templates: totality / exception types on arbitrary bytes, acceptance and values of standard documents in '
           'both modes, strict-mode rejection of the four extensions, extent consumed by the reader entry point, trailing-garbage rejection, nesting up to 500. '
           'Measured (16 cores, cbmc 6.11, message builders cut, unordered_map shim, recursion bounded by the number of brackets): fully symbolic input of '
           'LENGTH 1 (2 modes): symbolic execution 7-8 min, then the SAT back end exceeds 10 GB during propositional reduction (also with --slice-formula); '
           'length 2: 13-17 min symbolic execution, >10 GB; "[" + one symbolic byte: no verdict in 1500 s. Reproduce with C05_PROBES=1 (queries probe_*).',
           'a symbolic mode flag ([] with symbolic strict: > 28 GB) or a symbolic byte in front of concrete bytes ([WS] : no verdict in 900 s) is equally out of reach, hence '
           'trailing holes and a concrete mode cell; templates dropped for memory/time: dictionaries with members, hex digits, positive exponents, holes inside strings, truncations',
           'signed overflow on INT64_MIN in the parser (JSON.cc:118,161): invisible to the solver (generated C is unsigned arithmetic); reproduced natively with UBSan; patch in fixes-unconfirmed/',
           'offsets near 2^64 in StringReader::pget (offset+size wraps): not reachable from JSON::parse (it only forms where()+1 <= size); subject of C02']
ASSUMPTIONS = ['the kernels are the only routes by which JSON::parse touches its input: StringReader::get_s8/pget_s8/eof/skip_if/go/where (by reading JSON.cc:19-258)']


def parse_unwindset(L, NB, elems=None):
    """whole-parse probes: global --unwind 8 covers the constant 7-way std::variant index loops; data-dependent loops get exact bounds"""
    if elems is None:
        elems = max(1, (L - 1) // 2) if NB else 0
    u = ['%s:%d' % (PARSE, NB + 1), '%s:%d' % (RESET, NB + 1)]
    for k in range(0, 9):
        u.append('%s.%d:%d' % (PARSE, k, L + 2))
    u += ['%s.9:11' % PARSE, '%s.10:11' % PARSE]
    u += ['%s.0:%d' % (SKIPWS, L + 2), 'verif_memcpy_loop.0:%d' % (L + 2), 'verif_memset_loop.0:%d' % (L + 2), 'memcmp.0:7']
    u += ['%s.0:%d' % (RESET, elems + 2), '%s.1:%d' % (RESET, elems + 2), '%s.0:%d' % (REALLOC, elems + 2), '%s.1:%d' % (REALLOC, elems + 2)]
    return ','.join(u)


def queries(tier):
    qs = []
    for L in (range(0, 7) if tier == 'quick' else range(0, 9)):
        qs.append(dict(name='skipws_len%d' % L, unit='json', harness='h_skipws.c', defs={'LEN': L}, unwind=L + 3, timeout=600, mem_gb=4,
                       desc='skip_whitespace_and_comments on %d symbolic bytes, symbolic mode: stops exactly where the reference scanner stops; only out_of_range may escape (lone trailing /)' % L,
                       bounds='input length == %d, all byte values, both modes' % L))
    for op, nm in ((0, 'peek'), (1, 'get'), (2, 'pget'), (3, 'eof')):
        for L in ([0, 1, 3] if tier == 'quick' else [0, 1, 2, 3, 6]):
            qs.append(dict(name='reader_%s_len%d' % (nm, L), unit='json', harness='h_reader.c', defs={'OP': op, 'LEN': L}, unwind=L + 3, timeout=300, mem_gb=3,
                           desc='StringReader %s on a %d-byte buffer, symbolic offset: value / out_of_range exactly at the end, no access outside the buffer' % (nm, L),
                           bounds='buffer length == %d, start offset 0..%d, pget offset 0..%d' % (L, L, L + 1)))
    for L, K in ([(0, 1), (3, 1), (4, 4), (5, 5)] if tier == 'quick' else [(0, 1), (1, 1), (3, 1), (3, 4), (4, 4), (6, 4), (4, 5), (5, 5), (7, 5)]):
        qs.append(dict(name='reader_skipif_len%d_lit%d' % (L, K), unit='json', harness='h_reader.c', defs={'OP': 4, 'LEN': L, 'LITLEN': K}, unwind=max(L, K) + 3, timeout=300, mem_gb=3,
                       desc='StringReader::skip_if with a %d-byte symbolic literal on a %d-byte buffer (the parser uses 1, 4 and 5 byte literals)' % (K, L),
                       bounds='buffer length == %d, literal length == %d' % (L, K)))
    qs.append(dict(name='hex_char', unit='json', harness='h_reader.c', defs={'OP': 5, 'LEN': 0}, unwind=26, timeout=300, mem_gb=3,
                   desc='value_for_hex_char on all 256 byte values', bounds='all 256 values'))
    TNAMES = {1: '[]+WS', 2: '{}+WS', 3: '[ ]+WS', 4: '{ }+WS', 5: '[7,8]+WS', 7: '[7,]+WS', 10: '-+D1+D+D', 11: '5e-+D', 12: '5E-+D', 15: '2.+D+D', 16: '{1:2}+WS',
              17: 'null+WS', 18: 'true+WS', 19: 'false+WS', 20: 'n+WS', 21: 't+WS', 22: 'f+WS', 23: '//c\\n7+WS', 24: '7 +L (both entry points)'}
    tq = [1, 2, 7, 11, 16, 20, 24] if tier == 'quick' else sorted(TNAMES)
    for t in tq:
        for st in (0, 1):
            qs.append(dict(name='tmpl%02d_strict%d' % (t, st), unit='json', harness='h_tmpl.c', defs={'TPL': t, 'STRICT': st}, unwind=12,
                           unwindset=parse_unwindset(9, 1, elems=2), object_bits=12, timeout=900, mem_gb=6,
                           desc='JSON::parse(%s) on the templated document %s (concrete skeleton + trailing holes of one lexical class each): expected acceptance / kind / value / exception type' % ('strict' if st else 'default', TNAMES[t]),
                           bounds='template %s, mode %s, every value of the holes' % (TNAMES[t], 'strict' if st else 'default')))
    # cells added for the exponent '+' sign and for the strict flag below a dictionary value. Dictionaries WITH a member are costly
    # (shim emplace + two levels of ~JSON): recursion bound 2, 12 GB cap, no symbolic hole; the member value is read back only in the thorough
    # tier. {"a":[1,]} (three levels) was dropped: on the seeded mutant it gives no verdict in 900 s, so it could not be shown to fail.
    XN = {30: '1e++D', 31: '-2.5E++D', 32: '7e+2+WS (both entry points)', 33: '{"a":7}', 34: '{"a":t}', 35: '{"a":0x1C}', 37: '{"a":7,}'}
    if tier == 'quick':
        xs = [(30, 0, 0, 0, 0), (34, 0, 1, 0, 1), (33, 0, 1, 0, 1)]
    else:
        xs = [(t, 0, st, 0, 0) for t in (30, 31, 32) for st in (0, 1)]
        xs += [(33, 0, 0, 1, 1), (33, 0, 1, 1, 1)]
        xs += [(t, 0, 1, 0, 1) for t in (34, 35, 37)] + [(t, 0, 0, 1, 1) for t in (34, 35, 37)]
    for t, hole, st, elem, nb in xs:
        qs.append(dict(name='tmpl%02d_strict%d' % (t, st), unit='json', harness='h_tmpl.c', defs={'TPL': t, 'STRICT': st, 'HOLE': hole, 'ELEM': elem}, unwind=12,
                       unwindset=parse_unwindset(12, nb, elems=2), object_bits=12, timeout=900, mem_gb=(12 if t >= 33 else 6),
                       desc='JSON::parse(%s) on the templated document %s%s: expected acceptance / kind / value%s' % ('strict' if st else 'default', XN[t], ' + trailing WS hole' if hole else '', ' of member a' if elem else ''),
                       bounds='template %s%s, mode %s' % (XN[t], '+WS' if hole else '', 'strict' if st else 'default')))
    if os.environ.get('C05_PROBES'):
        # measurement only (see OUTSIDE): whole JSON::parse on fully symbolic bytes. None of these returned a verdict.
        for L, NB in ((1, 0), (2, 0), (2, 1)):
            qs.append(dict(name='probe_total_len%d_nb%d' % (L, NB), unit='json', harness='h_probe.c', defs={'LEN': L, 'NB': NB}, unwind=8,
                           unwindset=parse_unwindset(L, NB), object_bits=12, timeout=1500, mem_gb=10, tv=False,
                           desc='whole JSON::parse totality probe', bounds='input length %d, <= %d brackets' % (L, NB)))
        qs.append(dict(name='probe_first91_len2', unit='json', harness='h_probe.c', defs={'LEN': 2, 'NB': 1, 'FIRST': 91}, unwind=8,
                       unwindset=parse_unwindset(2, 1), object_bits=12, timeout=1500, mem_gb=10, tv=False, desc='"[" + one symbolic byte', bounds=''))
        qs.append(dict(name='probe_parse_len2_nb0', unit='json', harness='h_parse.c', defs={'LEN': 2, 'NB': 0}, unwind=8,
                       unwindset=parse_unwindset(2, 0), object_bits=12, timeout=1500, mem_gb=10, tv=False, desc='reference-reader harness', bounds=''))
    return qs
