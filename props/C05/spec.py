ID = 'C05'
PARSE = '_ZN5phosg4JSON5parseERNS_12StringReaderEb'
CUTS = [r'^_ZNSt7__cxx119to_stringEm$', r'^_ZStplIcSt11char_traitsIcESaIcEENSt7__cxx1112basic_stringIT_T0_T1_EEPKS5_OS8_$']
UNITS = {'json': dict(wrap='wrap.cc', shim=True, new_block=96, cxxflags=['-DVERIF_UMAP_CAP=2'], cuts=CUTS)}
BOUNDS = ''
STUBS = []
OUTSIDE = []
ASSUMPTIONS = []

def queries(tier):
    qs = []
    for L in range(0, 7):
        qs.append(dict(name='skipws_len%d' % L, unit='json', harness='h_skipws.c', defs={'LEN': L}, unwind=L + 3, timeout=300, mem_gb=6,
                       desc='skip_whitespace_and_comments on %d symbolic bytes, symbolic mode: no exception, stops where the reference scanner stops' % L,
                       bounds='input length == %d, all byte values' % L))
    for L in (1, 2, 3, 4):
        for C in range(5):
          for NB in (0, 1, 2):
            qs.append(dict(name='probe_c%d_len%d_nb%d' % (C, L, NB), unit='json', harness='h_probe.c', defs={'LEN': L, 'CLASS': C, 'NB': NB}, unwind=L + 3,
                           unwindset='%s:%d' % (PARSE, NB + 1), object_bits=12, timeout=900, mem_gb=10,
                       desc='probe', bounds=''))
    return qs
