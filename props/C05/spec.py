ID = 'C05'
PARSE = '_ZN5phosg4JSON5parseERNS_12StringReaderEb'
SKIPWS = '_ZN5phosgL28skip_whitespace_and_commentsERNS_12StringReaderEb'
# std::variant<...>::_M_reset visitor = the recursive part of ~JSON (list/dict members are JSON objects again)
RESET = '_ZSt10__do_visitIvZNSt8__detail9__variant16_Variant_storageILb0EJDnbldNSt7__cxx1112basic_stringIcSt11char_traitsIcESaIcEEESt6vectorISt10unique_ptrIN5phosg4JSONESt14default_deleteISC_EESaISF_EESt13unordered_mapIS8_SF_vvvEEE8_M_resetEvEUlOT_E_JRSt7variantIJDnbldS8_SH_SJ_EEEEDcOT0_DpOT1_'
REALLOC = '_ZNSt6vectorISt10unique_ptrIN5phosg4JSONESt14default_deleteIS2_EESaIS5_EE17_M_realloc_insertIJPS2_EEEvN9__gnu_cxx17__normal_iteratorIPS5_S7_EEDpOT_'
# message builders of thrown exceptions (text never influences results): cut out of the generated C, bodies in json_cuts.h
CUTS = [r'^_ZNSt7__cxx119to_stringEm$', r'^_ZStplIcSt11char_traitsIcESaIcEENSt7__cxx1112basic_stringIT_T0_T1_EEPKS5_OS8_$',
        r'^_ZNSt7__cxx1112basic_stringIcSt11char_traitsIcESaIcEEC2IS3_EEPKcRKS3_$', r'^_ZN5phosg13string_printfB5cxx11EPKcz$']
UNITS = {'json': dict(wrap='wrap.cc', shim=True, new_block=96, cxxflags=['-DVERIF_UMAP_CAP=2'], cuts=CUTS, ir2c_flags=['--union-fp-bytes']),
         'jsonpd': dict(wrap='wrap.cc', shim=True, new_block=96, cxxflags=['-DVERIF_UMAP_CAP=2'], cuts=CUTS, ir2c_flags=['--union-fp-bytes', '--ptrdiff'])}
BOUNDS = ''
STUBS = []
OUTSIDE = []
ASSUMPTIONS = []


def parse_unwindset(L, NB, elems=None):
    """global --unwind 8 covers the constant 7-way std::variant index loops; the data-dependent loops get exact bounds:
    recursion depth of parse() and of ~JSON = NB+1 (each level consumes one '[' or '{'), scanning loops <= L+1 bytes,
    exponent loops <= 9 (harness bound), container member loops <= elems"""
    if elems is None:
        elems = max(1, (L - 1) // 2) if NB else 0
    u = ['%s:%d' % (PARSE, NB + 1), '%s:%d' % (RESET, NB + 1)]
    for k in range(0, 9):
        u.append('%s.%d:%d' % (PARSE, k, L + 2))
    u += ['%s.9:11' % PARSE, '%s.10:11' % PARSE]
    u += ['%s.0:%d' % (SKIPWS, L + 2), 'verif_memcpy_loop.0:%d' % (L + 2), 'verif_memset_loop.0:%d' % (L + 2), 'memcmp.0:7']
    u += ['%s.0:%d' % (RESET, elems + 2), '%s.1:%d' % (RESET, elems + 2), '%s.0:%d' % (REALLOC, elems + 2), '%s.1:%d' % (REALLOC, elems + 2)]
    return ','.join(u)


def queries(tier):
    qs = []
    for L in range(0, 7):
        qs.append(dict(name='skipws_len%d' % L, unit='json', harness='h_skipws.c', defs={'LEN': L}, unwind=L + 3, timeout=300, mem_gb=3,
                       desc='skip_whitespace_and_comments on %d symbolic bytes, symbolic mode: no exception, stops where the reference scanner stops' % L,
                       bounds='input length == %d, all byte values' % L))
    for op, nm in ((0, 'peek'), (1, 'get'), (2, 'pget'), (3, 'eof')):
        for L in ([0, 1, 3] if tier == 'quick' else [0, 1, 2, 3, 6]):
            qs.append(dict(name='reader_%s_len%d' % (nm, L), unit='json', harness='h_reader.c', defs={'OP': op, 'LEN': L}, unwind=L + 3, timeout=300, mem_gb=3,
                           desc='StringReader %s on a %d-byte buffer, symbolic offset: value / out_of_range exactly at the end, no access outside the buffer' % (nm, L),
                           bounds='buffer length == %d, start offset 0..%d, pget offset 0..%d' % (L, L, L + 1)))
    for L, K in ([(0, 1), (3, 1), (4, 4), (5, 5)] if tier == 'quick' else [(0, 1), (1, 1), (3, 1), (3, 4), (4, 4), (6, 4), (4, 5), (5, 5), (7, 5)]):
        qs.append(dict(name='reader_skipif_len%d_lit%d' % (L, K), unit='json', harness='h_reader.c', defs={'OP': 4, 'LEN': L, 'LITLEN': K}, unwind=max(L, K) + 3, timeout=300, mem_gb=3,
                       desc='StringReader::skip_if with a %d-byte symbolic literal on a %d-byte buffer (the parser uses 1, 4 and 5 byte literals)' % (K, L),
                       bounds='buffer length == %d, literal length == %d' % (L, K)))
    qs.append(dict(name='hex_char', unit='json', harness='h_reader.c', defs={'OP': 5, 'LEN': 0}, unwind=26, timeout=300, mem_gb=3,
                   desc='value_for_hex_char on all 256 byte values', bounds='all 256 values'))
    qs.append(dict(name='slice_len1_nb0', unit='json', harness='h_probe.c', defs={'LEN': 1, 'NB': 0}, unwind=8, flags=['--slice-formula'],
                           unwindset=parse_unwindset(1, 0), object_bits=12, timeout=1500, mem_gb=10, desc='parse', bounds=''))
    for f in (91, 123):
        qs.append(dict(name='first%d_len2' % f, unit='json', harness='h_probe.c', defs={'LEN': 2, 'NB': 1, 'FIRST': f}, unwind=8,
                           unwindset=parse_unwindset(2, 1), object_bits=12, timeout=1500, mem_gb=10, desc='parse', bounds=''))
    for L in (1, 2, 3):
        for NB in (0, 1):
            qs.append(dict(name='totalpd_len%d_nb%d' % (L, NB), unit='jsonpd', harness='h_probe.c', defs={'LEN': L, 'NB': NB}, unwind=8,
                           unwindset=parse_unwindset(L, NB), object_bits=12, timeout=1500, mem_gb=10,
                           desc='parse', bounds=''))
            qs.append(dict(name='total_len%d_nb%d' % (L, NB), unit='json', harness='h_probe.c', defs={'LEN': L, 'NB': NB}, unwind=8,
                           unwindset=parse_unwindset(L, NB), object_bits=12, timeout=1500, mem_gb=10,
                           desc='parse', bounds=''))
    return qs
