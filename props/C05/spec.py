import os
ID = 'C05'
PARSE = '_ZN5phosg4JSON5parseERNS_12StringReaderEb'
SKIPWS = '_ZN5phosgL28skip_whitespace_and_commentsERNS_12StringReaderEb'
# std::variant<...>::_M_reset visitor = the recursive part of ~JSON (list/dict members are JSON objects again)
RESET = '_ZSt10__do_visitIvZNSt8__detail9__variant16_Variant_storageILb0EJDnbldNSt7__cxx1112basic_stringIcSt11char_traitsIcESaIcEEESt6vectorISt10unique_ptrIN5phosg4JSONESt14default_deleteISC_EESaISF_EESt13unordered_mapIS8_SF_vvvEEE8_M_resetEvEUlOT_E_JRSt7variantIJDnbldS8_SH_SJ_EEEEDcOT0_DpOT1_'
REALLOC = '_ZNSt6vectorISt10unique_ptrIN5phosg4JSONESt14default_deleteIS2_EESaIS5_EE17_M_realloc_insertIJPS2_EEEvN9__gnu_cxx17__normal_iteratorIPS5_S7_EEDpOT_'
# builders of exception MESSAGES (text never influences a result or a thrown type): cut out of the generated C, empty-string
# bodies in json_cuts.h. Only value_for_hex_char's message builder is reached by the tiered queries.
CUTS = [r'^_ZNSt7__cxx119to_stringEm$', r'^_ZStplIcSt11char_traitsIcESaIcEENSt7__cxx1112basic_stringIT_T0_T1_EEPKS5_OS8_$',
        r'^_ZNSt7__cxx1112basic_stringIcSt11char_traitsIcESaIcEEC2IS3_EEPKcRKS3_$', r'^_ZN5phosg13string_printfB5cxx11EPKcz$']
UNITS = {'json': dict(wrap='wrap.cc', shim=True, new_block=96, cxxflags=['-DVERIF_UMAP_CAP=2'], cuts=CUTS, ir2c_flags=['--union-fp-bytes'])}



# unit for documents with containers (h_cont.c), run path-wise: every branch on concrete data has to constant-fold, otherwise each one
# doubles the number of paths. Needed for that (measured, NOTES.md): the pool allocator (no malloc/free: CBMC's models of both contain
# nondeterministic bookkeeping branches), --flat-unions/--ptrdiff (std::string SSO), and VERIF_MEM_WORDS (the 24/32-byte struct
# copies and the {0,0,0} initialisation of a std::vector inside the std::variant are word stores, not a byte_update over an
# uninitialised object that symex cannot fold).
UNITS['jc'] = dict(wrap='wrap.cc', shim=True, new_block=96, cxxflags=['-DVERIF_UMAP_CAP=2'], cuts=CUTS, ir2c_flags=['--union-fp-bytes', '--ptrdiff', '--flat-unions'],
                   gen_defs=['VERIF_NEW_POOL=16', 'VERIF_MEM_WORDS'])

BOUNDS = ('JSON::parse on templated documents: concrete skeleton + symbolic holes of one lexical class each (WS, digit, hex digit, letter, escape letter, any byte), parser mode and entry point concrete cells, '
          'input buffer of exactly the document length. '
          'First set (h_tmpl.c, state merging, trailing holes only): 19 templates x 2 modes (7 x 2 quick) plus 1e+D, -2.5E+D, 7e+2 WS and the concrete one-member dictionaries {"a":7} {"a":t} {"a":0x1C} {"a":7,}. '
          'Second set (h_doc.c, cbmc --paths, holes anywhere but the first byte of a value, at most two digit holes in a row): 47 scalar templates x 2 modes (DOCS in this file: decimal integers next to '
          'INT64_MIN/INT64_MAX incl. two symbolic last digits, hex integers up to 16 digits, fraction/exponent forms with 1-digit symbolic exponents, 1.5e+300 / 1.5e+30D, number-like malformed input, strings with one '
          'symbolic character of every class, the eight escapes, \\u00HH, \\uHHHH, \\xHH, malformed escapes, trailing bytes after a value) and every prefix (length >= 2) of 6 short documents with a symbolic last byte (PREFIX_DOCS). '
          'Third set (h_cont.c, cbmc --paths, unit jc): 22 container templates (CONTS: lists and dictionaries with one or two members, nesting <= 3, strings/hex/comments as members, duplicate key, '
          'missing / doubled / misplaced separators, trailing commas; digit holes inside the member numerals, one template each with the hole as the whole member). '
          'skip_whitespace_and_comments: every input of length 0..6 (quick) / 0..8 (thorough) over all 256 byte values, both modes; '
          'StringReader get_s8 / pget_s8 / eof / skip_if: buffers of 0..6 bytes, every start offset 0..LEN, pget offsets 0..LEN+1, '
          'literal lengths 1, 4, 5 (the lengths JSON::parse uses) with symbolic literal bytes; value_for_hex_char: all 256 bytes. '
          'Loops unwound to LEN+3 with unwinding assertions (exponent loops 11, 312 for the 3-digit exponents).')
STUBS = ['message builders cut to empty strings (json_cuts.h): phosg::string_printf (text of the out_of_range thrown by value_for_hex_char); '
         'std::to_string(unsigned long), operator+(const char*, std::string&&), std::string(const char*) (texts of the parse_errors thrown by JSON::parse)',
         'engine/shim/unordered_map (fixed capacity 2) replaces std::unordered_map in the translated TU (empty dictionaries in the template queries)',
         'ir2c --union-fp-bytes: double members of std::variant storage emitted as byte arrays (CBMC loses pointers stored in double-typed fields)',
         'unit jc (container templates): operator new/delete = deterministic pool allocator of engine/rt/rt_model.c (VERIF_NEW_POOL=16 blocks of 96 bytes, static, zero-initialised; use-after-delete not detected by CBMC, ASan checks the native replay); '
         'constant-size memcpy/memset of 8..64 bytes as uint64_t word stores (VERIF_MEM_WORDS, same bytes); ir2c --ptrdiff --flat-unions']
OUTSIDE = ['JSON::parse on inputs that are not one of the templates: totality / exception types on arbitrary bytes, acceptance and values of arbitrary standard documents, nesting beyond 3 (the statement says 500), '
           'documents longer than 23 bytes, more than two members, exponents with a symbolic digit count, \\u escapes above U+00FF (statement excludes them), numbers beyond int64 (only "a value or a documented exception" is asserted). '
           'Measured with state merging (16 cores, cbmc 6.11): fully symbolic input of LENGTH 1: symbolic execution 7-8 min, then > 10 GB in the SAT back end; "[" + one symbolic byte: no verdict in 1500 s; '
           'a symbolic mode flag ([] with symbolic strict): > 28 GB; a symbolic byte in front of concrete bytes ("X", [WS]): 150 s / 4.4 GB resp. no verdict in 900 s. Reproduce with C05_PROBES=1 (queries probe_*).',
           'Measured path-wise (cbmc --paths lifo, what the second and third template sets use; ~0.3 s per path, 8 s start-up per query): a hole inside a token 2-30 paths; a hole that is the first byte of a value ~700 paths '
           '(cont301 [D] 316 s, cont361 [L] 220-320 s): the whole dispatch of the parser incl. both container branches is explored for it, so two such holes ([D,D]), a whitespace hole in front of a value ([1, WS ]: no verdict in 600 s), '
           'three digit holes in a row (4DDD: 750+ paths, no verdict in 300 s), a WS hole after an exponent (exponent loop bound), two parser runs in one query over containers ([1D] x: 440 s, {"a":1D} x: 577 s) and two digit holes in two members '
           '([1D,2D] 245 s, {"a":1D,"b":2D} 460 s, {"a":[1D,2D]} 547 s; only the first is kept) are at or beyond the budget. Dropped for that reason: [1D WS ,2D WS ] WS, {"a" WS :1D WS } WS (no verdict in 900 s), '
           '{"a":{"b":{"c":1D}}} / [{"a":[1D]}] (bound failures of the pool / unwinding not sorted out), prefixes of container documents (not measured), the prefix -12.5e+ followed by a symbolic byte (no verdict in 300 s). Free bytes of length >= 1 at the start of a document remain out of reach.',
           'signed overflow in the parser is invisible to the solver (generated C is unsigned arithmetic, --no-signed-overflow-check); the INT64_MIN accumulation overflow found natively with UBSan is fixed upstream (60d569e), values next to the limits are now decided by doc100-103, doc113-114',
           'offsets near 2^64 in StringReader::pget (offset+size wraps): not reachable from JSON::parse (it only forms where()+1 <= size); subject of C02']
ASSUMPTIONS = ['unit jc: operator-new blocks are static zero-initialised pool blocks: behaviour that depends on reading uninitialised heap memory is not explored; use-after-delete is not detected in the model',
               'path-wise runs (--paths lifo) decide every path with the solver but keep the global unwinding bounds; cbmc 6.11 single_path_symex_checker explores all paths (all-properties mode, no --stop-on-fail)',
               'the kernels are the only routes by which JSON::parse touches its input: StringReader::get_s8/pget_s8/eof/skip_if/go/where (by reading JSON.cc:19-258)']


def parse_unwindset(L, NB, elems=None, exp=11):
    """whole-parse probes: global --unwind 8 covers the constant 7-way std::variant index loops; data-dependent loops get exact bounds"""
    if elems is None:
        elems = max(1, (L - 1) // 2) if NB else 0
    u = ['%s:%d' % (PARSE, NB + 1), '%s:%d' % (RESET, NB + 1)]
    for k in range(0, 9):
        u.append('%s.%d:%d' % (PARSE, k, L + 2))
    u += ['%s.9:%d' % (PARSE, exp), '%s.10:%d' % (PARSE, exp)]
    u += ['%s.0:%d' % (SKIPWS, L + 2), 'verif_memcpy_loop.0:%d' % (L + 2), 'verif_memset_loop.0:%d' % (L + 2), 'memcmp.0:7']
    u += ['%s.0:%d' % (RESET, elems + 2), '%s.1:%d' % (RESET, elems + 2), '%s.0:%d' % (REALLOC, elems + 2), '%s.1:%d' % (REALLOC, elems + 2)]
    return ','.join(u)


# ---- second template set (h_doc.c) ----
# scalar documents: cbmc --paths lifo (path-wise symbolic execution: one solver query per path, no state merging). Measured: a hole
# in front of concrete bytes costs 130-180 s / 4.4 GB with merging (the reader offset becomes symbolic at the first join) and
# 9-20 s / 1 GB path-wise. Containers do not work path-wise (see NOTES.md), they stay in the merging mode.
PATHS = ['--paths', 'lifo']
# tpl: (skeleton as shown in reports, document length, modes, quick-tier modes)
DOCS = {
    100: ('-922337203685477580 D', 20, (0, 1), (0, 1)),
    101: ('922337203685477580 D', 19, (0, 1), (0,)),
    102: ('-92233720368547758 D D', 20, (0, 1), ()),
    103: ('92233720368547758 D D', 19, (0, 1), ()),
    104: ('4 D D', 3, (0, 1), ()),
    105: ('-1 D D', 4, (0, 1), ()),
    106: ('1844674407370955161 D (beyond int64)', 20, (0, 1), ()),
    107: ('-922337203685477581 D (beyond int64)', 20, (0, 1), ()),
    108: ('1 D SP x (both entry points)', 4, (0, 1), (1,)),
    109: ('7 SP X (X any byte)', 3, (0, 1), (0,)),
    110: ('0x H', 3, (0, 1), (0, 1)),
    111: ('0x H H', 4, (0, 1), ()),
    112: ('-0x H', 4, (0, 1), (1,)),
    113: ('0x7FFFFFFFFFFFFFF H', 18, (0, 1), ()),
    114: ('-0x800000000000000 H', 19, (0, 1), (0,)),
    115: ('0x H SP ] (reader entry point)', 5, (0,), ()),
    120: ('5e+ D', 4, (0, 1), ()),
    121: ('5e D', 3, (0, 1), (0,)),
    122: ('3 D e D', 4, (0, 1), ()),
    123: ('1 D . D e D', 6, (0, 1), (1,)),
    124: ('- D . D E- D', 7, (0, 1), ()),
    125: ('7 D . D D', 5, (0, 1), ()),
    126: ('2.5e D ,] (reader entry point)', 7, (0, 1), ()),
    127: ('1.5e+300 (no hole)', 8, (0, 1), (0,)),
    128: ('1.5e+30 D', 8, (0,), ()),
    130: ('- (lone minus)', 1, (0, 1), ()),
    131: ('0 D (leading zero)', 2, (0, 1), ()),
    132: ('- WS', 2, (0, 1), ()),
    133: ('1 D .', 3, (0, 1), ()),
    134: ('1 D e', 3, (0, 1), ()),
    135: ('1 D e+', 4, (0, 1), ()),
    136: ('. D', 2, (0, 1), ()),
    137: ('+ D', 2, (0, 1), ()),
    139: ('7 X (X any byte but digit . e E)', 2, (0, 1), ()),
    200: ('" X " (X printable or >= 0x80)', 3, (0, 1), (0,)),
    201: ('" X " (X control character)', 3, (0, 1), ()),
    202: ('" X X " (two-byte UTF-8 sequence)', 4, (0, 1), ()),
    203: ('" L L L "', 5, (0, 1), ()),
    204: ('" L " SP x (both entry points)', 5, (0, 1), (0,)),
    205: ('"" WS', 3, (0, 1), ()),
    210: ('"\\ E " (E one of the eight escape letters)', 4, (0, 1), (0, 1)),
    211: ('"\\ X " (X no escape letter)', 4, (0, 1), ()),
    212: ('"a\\ E L "', 6, (0, 1), ()),
    220: ('"\\u00 H H "', 8, (0, 1), (0,)),
    221: ('"\\u H H H H " (above U+00FF)', 8, (0, 1), ()),
    222: ('"\\u00 H X " (X no hex digit)', 8, (0, 1), (0,)),
    223: ('"\\u00 H H L "', 9, (0, 1), (1,)),
    225: ('"\\x H H "', 6, (0, 1), (0,)),
    226: ('"\\x H X " (X no hex digit)', 6, (0, 1), ()),
}
# documents whose every prefix is a cell; the last kept byte is replaced by a symbolic byte (all 256 values)
PREFIX_DOCS = {500: ('"a\\u0041\\n"', 11), 501: ('-12.5e+2', 8), 502: ('false', 5), 503: ('null SP', 5), 504: ('-0x1F', 5), 505: ('//c LF 7', 5)}


def doc_queries(tier):
    qs = []
    for t in sorted(DOCS):
        nm, L, modes, qmodes = DOCS[t]
        for st in (qmodes if tier == 'quick' else modes):
            qs.append(dict(name='doc%03d_strict%d' % (t, st), unit='json', harness='h_doc.c', defs={'TPL': t, 'STRICT': st}, unwind=12,
                           unwindset=parse_unwindset(L, 0, exp=(312 if t in (127, 128) else 11)) + ',fill.0:%d,harness.0:302,harness.1:302' % (L + 2), object_bits=12, timeout=(900 if t == 128 else 300), mem_gb=6, flags=PATHS,
                           desc='JSON::parse(%s) on the templated document %s: exact kind / value / where() or the documented exception' % ('strict' if st else 'default', nm),
                           bounds='template %s, mode %s, every value of the holes; exact-size input buffer' % (nm, 'strict' if st else 'default')))
    for t in sorted(PREFIX_DOCS):
        nm, L = PREFIX_DOCS[t]
        for P in range(2, L + (0 if t == 505 else 1)):  # a symbolic byte at the START of a value (P == 1, or after the comment of 505) is not feasible path-wise
            if t == 501 and P == 7:
                continue  # '-12.5e+' + symbolic byte: no verdict in 300 s (exponent sign/digit look-ahead on the hole, two parser runs)
            for st in (0, 1):
                if tier == 'quick' and not (t == 500 and P in (5, 11) and st == 0):
                    continue
                qs.append(dict(name='pre%03d_len%02d_strict%d' % (t, P, st), unit='json', harness='h_doc.c', defs={'TPL': t, 'STRICT': st, 'PREFIX': P}, unwind=12,
                               unwindset=parse_unwindset(L, 0) + ',fill.0:%d' % (L + 2), object_bits=12, timeout=300, mem_gb=6, flags=PATHS,
                               desc='JSON::parse(%s), both entry points, on the first %d bytes of %s with the last of them replaced by a symbolic byte: only parse_error / out_of_range escape, no read outside the %d-byte buffer' % ('strict' if st else 'default', P, nm, P),
                               bounds='prefix length %d of %s, last byte all 256 values, mode %s' % (P, nm, 'strict' if st else 'default')))
    return qs


WALK = '_ZL4walkRKN5phosg4JSONEPKhm'
# tpl: (skeleton, document length, nesting, modes, quick-tier modes, timeout)
CONTS = {
    300: ('[1 D ,2 D ]', 7, 1, (1,), (), 600),
    301: ('[ D ] (hole = first byte of the member)', 3, 1, (0,), (), 900),
    302: ('[[1 D ]]', 6, 2, (0, 1), (0,), 300),
    303: ('[[],[1 D ]]', 9, 2, (0, 1), (), 300),
    305: ('[" L ",1 D ]', 8, 1, (0, 1), (), 300),
    310: ('{"a":1 D }', 8, 1, (0, 1), (1,), 300),
    312: ('{"a":1,"a":2} (duplicate key)', 13, 1, (0, 1), (), 300),
    313: ('{" L ":1 D }', 8, 1, (0,), (), 600),
    315: ('{"a":" L "}', 9, 1, (0, 1), (), 300),
    320: ('{"a" 1 D } (missing colon)', 8, 1, (0, 1), (0,), 300),
    321: ('[1 D SP 2 D ] (missing comma)', 7, 1, (0,), (), 300),
    322: ('{"a":1 D SP "b":2} (missing comma)', 14, 1, (0, 1), (), 300),
    323: ('[1 D ,,2] (doubled comma)', 7, 1, (0, 1), (), 300),
    324: ('{"a",1 D } (comma for colon)', 8, 1, (0, 1), (), 300),
    325: ('[,1 D ] (leading comma)', 5, 1, (0, 1), (), 300),
    330: ('[1 D ,]', 5, 1, (0,), (0,), 300),
    331: ('{"a":1 D ,}', 9, 1, (0, 1), (1,), 300),
    340: ('[[[1 D ]]]', 8, 3, (0, 1), (), 300),
    361: ('[ L ] (hole = the member)', 3, 1, (1,), (), 900),
    362: ('[0x H ]', 5, 1, (0, 1), (1,), 300),
    363: ('{"a":0x H }', 9, 1, (0, 1), (), 300),
    364: ('[1 D // L LF ]', 8, 1, (0, 1), (), 300),
}


def cont_q(name, defs, L, nb, to, desc, bounds):
    return dict(name=name, unit='jc', harness='h_cont.c', defs=defs, unwind=12,
                unwindset=parse_unwindset(L, nb, elems=2) + ',fill.0:%d,%s.0:60' % (L + 2, WALK), object_bits=12, timeout=to, mem_gb=6,
                flags=PATHS + ['--max-field-sensitivity-array-size', '128'], desc=desc, bounds=bounds)


def cont_queries(tier):
    qs = []
    for t in sorted(CONTS):
        nm, L, nb, modes, qmodes, to = CONTS[t]
        for st in (qmodes if tier == 'quick' else modes):
            qs.append(cont_q('cont%03d_strict%d' % (t, st), {'TPL': t, 'STRICT': st}, L, nb, to,
                             'JSON::parse(%s) on the templated container document %s: exact kind / size / members / where(), or rejection with the documented exceptions' % ('strict' if st else 'default', nm),
                             'template %s, mode %s, every value of the holes; nesting %d; exact-size input buffer' % (nm, 'strict' if st else 'default', nb)))
    return qs


def queries(tier):
    qs = []
    for L in (range(0, 7) if tier == 'quick' else range(0, 9)):
        qs.append(dict(name='skipws_len%d' % L, unit='json', harness='h_skipws.c', defs={'LEN': L}, unwind=L + 3, timeout=600, mem_gb=4,
                       desc='skip_whitespace_and_comments on %d symbolic bytes, symbolic mode: stops exactly where the reference scanner stops; only out_of_range may escape (lone trailing /)' % L,
                       bounds='input length == %d, all byte values, both modes' % L))
    for op, nm in ((0, 'peek'), (1, 'get'), (2, 'pget'), (3, 'eof')):
        for L in ([0, 1, 3] if tier == 'quick' else [0, 1, 2, 3, 6]):
            qs.append(dict(name='reader_%s_len%d' % (nm, L), unit='json', harness='h_reader.c', defs={'OP': op, 'LEN': L}, unwind=L + 3, timeout=300, mem_gb=3,
                           desc='StringReader %s on a %d-byte buffer, symbolic offset: value / out_of_range exactly at the end, no access outside the buffer' % (nm, L),
                           bounds='buffer length == %d, start offset 0..%d, pget offset 0..%d' % (L, L, L + 1)))
    for L, K in ([(0, 1), (3, 1), (4, 4), (5, 5)] if tier == 'quick' else [(0, 1), (1, 1), (3, 1), (3, 4), (4, 4), (6, 4), (4, 5), (5, 5), (7, 5)]):
        qs.append(dict(name='reader_skipif_len%d_lit%d' % (L, K), unit='json', harness='h_reader.c', defs={'OP': 4, 'LEN': L, 'LITLEN': K}, unwind=max(L, K) + 3, timeout=300, mem_gb=3,
                       desc='StringReader::skip_if with a %d-byte symbolic literal on a %d-byte buffer (the parser uses 1, 4 and 5 byte literals)' % (K, L),
                       bounds='buffer length == %d, literal length == %d' % (L, K)))
    qs.append(dict(name='hex_char', unit='json', harness='h_reader.c', defs={'OP': 5, 'LEN': 0}, unwind=26, timeout=300, mem_gb=3,
                   desc='value_for_hex_char on all 256 byte values', bounds='all 256 values'))
    TNAMES = {1: '[]+WS', 2: '{}+WS', 3: '[ ]+WS', 4: '{ }+WS', 5: '[7,8]+WS', 7: '[7,]+WS', 10: '-+D1+D+D', 11: '5e-+D', 12: '5E-+D', 15: '2.+D+D', 16: '{1:2}+WS',
              17: 'null+WS', 18: 'true+WS', 19: 'false+WS', 20: 'n+WS', 21: 't+WS', 22: 'f+WS', 23: '//c\\n7+WS', 24: '7 +L (both entry points)'}
    tq = [1, 2, 7, 11, 16, 20, 24] if tier == 'quick' else sorted(TNAMES)
    for t in tq:
        for st in (0, 1):
            qs.append(dict(name='tmpl%02d_strict%d' % (t, st), unit='json', harness='h_tmpl.c', defs={'TPL': t, 'STRICT': st}, unwind=12,
                           unwindset=parse_unwindset(9, 1, elems=2), object_bits=12, timeout=900, mem_gb=6,
                           desc='JSON::parse(%s) on the templated document %s (concrete skeleton + trailing holes of one lexical class each): expected acceptance / kind / value / exception type' % ('strict' if st else 'default', TNAMES[t]),
                           bounds='template %s, mode %s, every value of the holes' % (TNAMES[t], 'strict' if st else 'default')))
    # cells added for the exponent '+' sign and for the strict flag below a dictionary value. Dictionaries WITH a member are costly
    # (shim emplace + two levels of ~JSON): recursion bound 2, 12 GB cap, no symbolic hole; the member value is read back only in the thorough
    # tier. {"a":[1,]} (three levels) was dropped: on the seeded mutant it gives no verdict in 900 s, so it could not be shown to fail.
    XN = {30: '1e++D', 31: '-2.5E++D', 32: '7e+2+WS (both entry points)', 33: '{"a":7}', 34: '{"a":t}', 35: '{"a":0x1C}', 37: '{"a":7,}'}
    if tier == 'quick':
        xs = [(30, 0, 0, 0, 0), (34, 0, 1, 0, 1), (33, 0, 1, 0, 1)]
    else:
        xs = [(t, 0, st, 0, 0) for t in (30, 31, 32) for st in (0, 1)]
        xs += [(33, 0, 0, 1, 1), (33, 0, 1, 1, 1)]
        xs += [(t, 0, 1, 0, 1) for t in (34, 35, 37)] + [(t, 0, 0, 1, 1) for t in (34, 35, 37)]
    for t, hole, st, elem, nb in xs:
        qs.append(dict(name='tmpl%02d_strict%d' % (t, st), unit='json', harness='h_tmpl.c', defs={'TPL': t, 'STRICT': st, 'HOLE': hole, 'ELEM': elem}, unwind=12,
                       unwindset=parse_unwindset(12, nb, elems=2), object_bits=12, timeout=900, mem_gb=(12 if t >= 33 else 6),
                       desc='JSON::parse(%s) on the templated document %s%s: expected acceptance / kind / value%s' % ('strict' if st else 'default', XN[t], ' + trailing WS hole' if hole else '', ' of member a' if elem else ''),
                       bounds='template %s%s, mode %s' % (XN[t], '+WS' if hole else '', 'strict' if st else 'default')))
    qs += doc_queries(tier)
    qs += cont_queries(tier)
    if os.environ.get('C05_PROBES'):
        # measurement only (see OUTSIDE): whole JSON::parse on fully symbolic bytes. None of these returned a verdict.
        for L, NB in ((1, 0), (2, 0), (2, 1)):
            qs.append(dict(name='probe_total_len%d_nb%d' % (L, NB), unit='json', harness='h_probe.c', defs={'LEN': L, 'NB': NB}, unwind=8,
                           unwindset=parse_unwindset(L, NB), object_bits=12, timeout=1500, mem_gb=10, tv=False,
                           desc='whole JSON::parse totality probe', bounds='input length %d, <= %d brackets' % (L, NB)))
        qs.append(dict(name='probe_first91_len2', unit='json', harness='h_probe.c', defs={'LEN': 2, 'NB': 1, 'FIRST': 91}, unwind=8,
                       unwindset=parse_unwindset(2, 1), object_bits=12, timeout=1500, mem_gb=10, tv=False, desc='"[" + one symbolic byte', bounds=''))
        qs.append(dict(name='probe_parse_len2_nb0', unit='json', harness='h_parse.c', defs={'LEN': 2, 'NB': 0}, unwind=8,
                       unwindset=parse_unwindset(2, 0), object_bits=12, timeout=1500, mem_gb=10, tv=False, desc='reference-reader harness', bounds=''))
    return qs
