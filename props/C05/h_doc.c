/* C05: JSON::parse on TEMPLATED documents, second set (h_tmpl.c is the first): a concrete skeleton with symbolic holes of one
 * lexical class each; the parser mode (STRICT) and the entry point are concrete cells. The document is held in a buffer of
 * EXACTLY its length, so any read past the end is a CBMC pointer-check failure (ASan natively).
 *
 * Scalar documents (numbers, strings, constants) are run with `cbmc --paths lifo` (path-wise symbolic execution, every path is
 * decided by the solver; spec.py): there the holes may stand anywhere, the price is one path per symbolic branch decision. For
 * that reason everything in this file that depends on a hole is written BRANCH-FREE (?: on side-effect-free operands, no `if`
 * on symbolic data): an `if` on a hole in the harness doubles the number of paths.
 *
 * Expected results are written here from RFC 8259 and the extension list of JSON.hh, never by calling phosg:
 *   - integers: decimal / hexadecimal value accumulated in uint64_t (INT64_MIN has no positive counterpart);
 *   - floats: phosg promises no correctly rounded result; the reference uses the documented elementary double operations
 *     (integer part converted, + digit * 0.1^k per fraction digit, then x10 / x0.1 per exponent step, then the sign);
 *   - escapes: table from RFC 8259 section 7;   \u00HH -> the byte HH (the statement limits \u to U+00FF).
 * Where the statement does not define the outcome (magnitudes beyond int64, raw control characters in strings, a lone "-",
 * malformed input in general) only "a value, parse_error or out_of_range" is asserted (DOCUMENTED).
 * Return codes: kind 0 null 1 bool 2 int 3 float 4 string 5 list 6 dict, -20 parse_error, -21 type_error, -1 out_of_range, -30 no such member. */
#include "harness.h"
#include "json_cuts.h"
int64_t w_json_parse_q(uint8_t* in, uint64_t n, uint32_t strict, uint32_t reader, uint64_t* where, uint8_t* p0, uint64_t n0,
                       uint8_t* p1, uint64_t n1, int64_t* kinds, uint64_t* vals, uint64_t* val, uint8_t* sout);

/* hole markers inside a skeleton */
#define D "\001"   /* '0'..'9' */
#define D1 "\002"  /* '1'..'9' */
#define H "\003"   /* hex digit, both cases */
#define WS "\004"  /* SP HT CR LF */
#define L "\005"   /* 'a'..'z' */
#define ANY "\006" /* any byte */
#define X "\007"   /* any byte; the template ASSUMEs its class afterwards */

static uint8_t hole(uint8_t k) {
  uint8_t c = in_u8();
  if (k == 1) ASSUME(c >= '0' && c <= '9');
  if (k == 2) ASSUME(c >= '1' && c <= '9');
  if (k == 3) ASSUME((c >= '0' && c <= '9') || (c >= 'a' && c <= 'f') || (c >= 'A' && c <= 'F'));
  if (k == 4) ASSUME(c == ' ' || c == '\t' || c == '\r' || c == '\n');
  if (k == 5) ASSUME(c >= 'a' && c <= 'z');
  return c;
}
/* n bytes of the skeleton; PREFIX cells pass n < strlen(skeleton) */
static void fill(const char* sk, unsigned n, uint8_t* in, uint8_t* h) {
  unsigned nh = 0;
  for (unsigned i = 0; i < n; i++) {
    uint8_t c = (uint8_t)sk[i];
    if (c >= 1 && c <= 7) { c = hole(c); h[nh++] = c; }
    in[i] = c;
  }
}
#define HV(c) ((unsigned)((c) <= '9' ? (c) - '0' : ((c) | 0x20) - 'a' + 10)) /* value of a hex digit (class H) */
#define DV(c) ((unsigned)((c) - '0'))
static double dbl(uint64_t bits) { double d; memcpy(&d, &bits, 8); return d; }
/* x * 10^e and x * 0.1^e by e <= 9 single multiplications (the documented evaluation order), branch-free */
#define STEP(x, i, e, f) x = (i) < (e) ? x * (f) : x
#define SCALE(x, e, f) do { STEP(x, 0, e, f); STEP(x, 1, e, f); STEP(x, 2, e, f); STEP(x, 3, e, f); STEP(x, 4, e, f); STEP(x, 5, e, f); STEP(x, 6, e, f); STEP(x, 7, e, f); STEP(x, 8, e, f); } while (0)

#define REJECTED(r) ((r) == -20 || (r) == -1)
#define DOCUMENTED(r) (((r) >= 0 && (r) <= 6) || (r) == -20 || (r) == -1)
#define NOEL (-30)

/* ---- skeleton table ---- */
#if TPL == 100
#define SK "-922337203685477580" D
#elif TPL == 101
#define SK "922337203685477580" D
#elif TPL == 102
#define SK "-92233720368547758" D D
#elif TPL == 103
#define SK "92233720368547758" D D
#elif TPL == 104
#define SK "4" D D
#elif TPL == 105
#define SK "-1" D D
#elif TPL == 106
#define SK "1844674407370955161" D
#elif TPL == 107
#define SK "-922337203685477581" D
#elif TPL == 108
#define SK "1" D " x"
#elif TPL == 109
#define SK "7 " X
#elif TPL == 110
#define SK "0x" H
#elif TPL == 111
#define SK "0x" H H
#elif TPL == 112
#define SK "-0x" H
#elif TPL == 113
#define SK "0x7FFFFFFFFFFFFFF" H
#elif TPL == 114
#define SK "-0x800000000000000" H
#elif TPL == 115
#define SK "0x" H " ]"
#elif TPL == 120
#define SK "5e+" D
#elif TPL == 121
#define SK "5e" D
#elif TPL == 122
#define SK "3" D "e" D
#elif TPL == 123
#define SK "1" D "." D "e" D
#elif TPL == 124
#define SK "-" D "." D "E-" D
#elif TPL == 125
#define SK "7" D "." D D
#elif TPL == 126
#define SK "2.5e" D ",]"
#elif TPL == 127
#define SK "1.5e+300"
#elif TPL == 128
#define SK "1.5e+30" D
#elif TPL == 130
#define SK "-"
#elif TPL == 131
#define SK "0" D
#elif TPL == 132
#define SK "-" WS
#elif TPL == 133
#define SK "1" D "."
#elif TPL == 134
#define SK "1" D "e"
#elif TPL == 135
#define SK "1" D "e+"
#elif TPL == 136
#define SK "." D
#elif TPL == 137
#define SK "+" D
#elif TPL == 139
#define SK "7" X
#elif TPL == 200 || TPL == 201
#define SK "\"" X "\""
#elif TPL == 202
#define SK "\"" X X "\""
#elif TPL == 203
#define SK "\"" L L L "\""
#elif TPL == 204
#define SK "\"" L "\" x"
#elif TPL == 205
#define SK "\"\"" WS
#elif TPL == 210 || TPL == 211
#define SK "\"\\" X "\""
#elif TPL == 212
#define SK "\"a\\" X L "\""
#elif TPL == 220
#define SK "\"\\u00" H H "\""
#elif TPL == 221
#define SK "\"\\u" H H H H "\""
#elif TPL == 222
#define SK "\"\\u00" H X "\""
#elif TPL == 223
#define SK "\"\\u00" H H L "\""
#elif TPL == 225
#define SK "\"\\x" H H "\""
#elif TPL == 226
#define SK "\"\\x" H X "\""
/* 5xx: documents whose every prefix is a cell (PREFIX = number of bytes kept, the last kept byte is replaced by a symbolic byte) */
#elif TPL == 500
#define SK "\"a\\u0041\\n\""
#elif TPL == 501
#define SK "-12.5e+2"
#elif TPL == 502
#define SK "false"
#elif TPL == 503
#define SK "null "
#elif TPL == 504
#define SK "-0x1F"
#elif TPL == 505
#define SK "//c\n7"
#else
#error "unknown TPL"
#endif

static const char SK_[] = SK;
#ifdef PREFIX
enum { N = PREFIX };
#else
enum { N = sizeof(SK_) - 1 };
#endif

/* run the string entry point (reader 0) or the StringReader& entry point (reader 1); P0 / P1: member paths ("" = none) */
#define RUN(reader, P0, P1)                                                                                   \
  do {                                                                                                        \
    static uint8_t p0_[] = P0, p1_[] = P1;                                                                    \
    r = w_json_parse_q(in, N, STRICT, reader, &where, sizeof(p0_) > 1 ? &p0_[0] : (uint8_t*)0, sizeof(p0_) - 1, \
                       sizeof(p1_) > 1 ? &p1_[0] : (uint8_t*)0, sizeof(p1_) - 1, kinds, vals, &val, sout);     \
    OBS(r);                                                                                                   \
  } while (0)
#define PARSE() RUN(0, "", "")
#define PARSE_READER() RUN(1, "", "")

#ifndef STRICT
#define STRICT 0
#endif

void harness(void) {
  uint8_t in[N ? N : 1], h[8] = {0}, sout[48] = {0};
  uint64_t val = 99, where = 99, vals[2] = {99, 99};
  int64_t r, kinds[2] = {99, 99};
  (void)dbl;
  fill(SK_, N, in, h);

  /* ---------------- 10x: decimal integers, in particular next to the int64 limits ---------------- */
#if TPL == 100 || TPL == 101   /* "-922337203685477580" D (INT64_MIN is ...808), "922337203685477580" D (INT64_MAX is ...807) */
  PARSE();
  uint64_t mag = 9223372036854775800ULL + DV(h[0]);
  uint64_t lim = 9223372036854775807ULL + (TPL == 100);
  ASSERT(DOCUMENTED(r), "a value or a documented exception");
  ASSERT(mag > lim || (r == 2 && val == (TPL == 100 ? 0 - mag : mag)), "a decimal numeral inside [INT64_MIN, INT64_MAX] is an int with exactly its value");
#elif TPL == 102 || TPL == 103  /* "-92233720368547758" D D  and  "92233720368547758" D D */
  PARSE();
  uint64_t mag = 9223372036854775800ULL + DV(h[0]) * 10 + DV(h[1]);
  uint64_t lim = 9223372036854775807ULL + (TPL == 102);
  ASSERT(DOCUMENTED(r), "a value or a documented exception");
  ASSERT(mag > lim || (r == 2 && val == (TPL == 102 ? 0 - mag : mag)), "a 19-digit decimal numeral inside int64 is an int with exactly its value");
#elif TPL == 104 || TPL == 105  /* "4" D D  and  "-1" D D   (a hole in the FIRST byte of a value and more than two holes in a row are avoided: see NOTES.md) */
  PARSE();
  uint64_t mag = ((TPL == 104 ? 4 : 1) * 10 + DV(h[0])) * 10 + DV(h[1]);
  ASSERT(r == 2 && val == (TPL == 105 ? 0 - mag : mag), "a decimal numeral is an int with its value");
#elif TPL == 106 || TPL == 107  /* beyond int64 (around 2^64 / below INT64_MIN): the statement only covers numbers within int64 */
  PARSE();
  ASSERT(DOCUMENTED(r), "beyond int64: a value or a documented exception");
#elif TPL == 108                /* "1" D " x" : entry points */
  PARSE();
  ASSERT(r == -20, "the string entry point rejects trailing non-whitespace with parse_error");
  PARSE_READER();
  ASSERT(r == 2 && val == 10 + DV(h[0]) && where == 2, "the reader entry point returns the int and stops right after its last digit");
#elif TPL == 109                /* "7 " X, X any byte: the string entry point accepts exactly trailing whitespace */
  PARSE();
  ASSERT((h[0] == ' ' || h[0] == '\t' || h[0] == '\r' || h[0] == '\n') ? (r == 2 && val == 7) : REJECTED(r),
         "the string entry point accepts trailing whitespace and rejects any other trailing byte (a lone / is not a comment)");
  /* ---------------- 11x: hexadecimal integers (extension) ---------------- */
#elif TPL >= 110 && TPL <= 114
  PARSE();
  uint64_t ref = TPL == 111 ? (uint64_t)(HV(h[0]) * 16 + HV(h[1])) : TPL == 113 ? 0x7FFFFFFFFFFFFFF0ULL + HV(h[0]) : TPL == 114 ? 0x8000000000000000ULL + HV(h[0]) : (uint64_t)HV(h[0]);
  uint64_t expect = (TPL == 112 || TPL == 114) ? 0 - ref : ref;
  int inside = TPL != 114 || ref == 0x8000000000000000ULL; /* -0x800000000000000H is inside int64 only for H = 0 */
  (void)expect; (void)inside;
#if STRICT
  ASSERT(r == -20, "strict mode rejects a hexadecimal integer (the string entry point sees trailing data after the 0)");
#else
  ASSERT(DOCUMENTED(r), "a value or a documented exception");
  ASSERT(!inside || (r == 2 && val == expect), "default mode reads a hexadecimal integer with exactly its value");
#endif
#elif TPL == 115                /* "0x" H " ]" : reader entry point, default mode: extent of the hexadecimal numeral */
  PARSE_READER();
  ASSERT(r == 2 && val == HV(h[0]) && where == 3, "the reader entry point consumes exactly the hexadecimal numeral");
  /* ---------------- 12x: fractions and exponents ---------------- */
#elif TPL == 120 || TPL == 121  /* "5e+" D, "5e" D */
  PARSE();
  double ref = 5.0; SCALE(ref, DV(h[0]), 10);
  ASSERT(r == 3 && dbl(val) == ref, "5e+D / 5eD is the float 5 * 10^D");
#elif TPL == 122                /* "3" D "e" D */
  PARSE();
  double ref = (double)(30 + DV(h[0])); SCALE(ref, DV(h[1]), 10);
  ASSERT(r == 3 && dbl(val) == ref, "3DeD is the float 3D * 10^D");
#elif TPL == 123                /* "1" D "." D "e" D */
  PARSE();
  double ref = (double)(10 + DV(h[0])); ref += (double)DV(h[1]) * 0.1; SCALE(ref, DV(h[2]), 10);
  ASSERT(r == 3 && dbl(val) == ref, "1D.DeD is the float (1D + D/10) * 10^D");
#elif TPL == 124                /* "-" D "." D "E-" D */
  PARSE();
  double ref = (double)DV(h[0]); ref += (double)DV(h[1]) * 0.1; SCALE(ref, DV(h[2]), 0.1); ref = -ref;
  ASSERT(r == 3 && dbl(val) == ref, "-D.DE-D is the float -(D + D/10) * 0.1^D");
#elif TPL == 125                /* "7" D "." D D */
  PARSE();
  double ref = (double)(70 + DV(h[0])), pl = 0.1; ref += (double)DV(h[1]) * pl; pl *= 0.1; ref += (double)DV(h[2]) * pl;
  ASSERT(r == 3 && dbl(val) == ref, "7D.DD is the float 7D + D/10 + D/100");
#elif TPL == 126                /* "2.5e" D ",]" : reader entry point: extent of a numeral with fraction and exponent */
  PARSE_READER();
  double ref = 2.0; ref += 5.0 * 0.1; SCALE(ref, DV(h[0]), 10);
  ASSERT(r == 3 && dbl(val) == ref && where == 5, "the reader entry point consumes exactly the numeral 2.5eD");
#elif TPL == 127 || TPL == 128  /* "1.5e+300" (concrete cell), "1.5e+30" D : three-digit exponent; 1.5e+309 overflows to +inf in the reference as well */
  PARSE();
  double ref = 1.0; ref += 5.0 * 0.1;
  for (int i = 0; i < 300; i++) ref *= 10;
#if TPL == 128
  SCALE(ref, DV(h[0]), 10);
#endif
  ASSERT(r == 3 && dbl(val) == ref, "1.5e+30D is the float 1.5 * 10^(300+D)");
  /* ---------------- 13x: number-like input whose outcome the statement does not define: totality only ---------------- */
#elif TPL >= 130 && TPL <= 137  /* "-", "0D", "-" WS, "1D.", "1De", "1De+", ".D", "+D" */
  PARSE();
  ASSERT(DOCUMENTED(r), "a value or a documented exception");
  PARSE_READER();
  ASSERT(DOCUMENTED(r), "a value or a documented exception (reader entry point)");
#elif TPL == 139                /* "7" X, X any byte that cannot continue the numeral (not a digit, '.', 'e', 'E') */
  ASSUME(!(h[0] >= '0' && h[0] <= '9') && h[0] != '.' && h[0] != 'e' && h[0] != 'E');
  PARSE();
  ASSERT((h[0] == ' ' || h[0] == '\t' || h[0] == '\r' || h[0] == '\n') ? (r == 2 && val == 7) : REJECTED(r),
         "directly after a complete numeral the string entry point accepts only whitespace (7/ is rejected)");
  /* ---------------- 20x: strings, unescaped characters ---------------- */
#elif TPL == 200                /* one unescaped character: printable ASCII other than the quote and the backslash, or a byte >= 0x80 */
  ASSUME((h[0] >= 0x20 && h[0] != '"' && h[0] != '\\' && h[0] != 0x7F) || h[0] >= 0x80);
  PARSE();
  ASSERT(r == 4 && val == 1 && sout[0] == h[0], "an unescaped character is taken as it is");
#elif TPL == 201                /* a raw control character is not standard JSON; the statement does not define the outcome */
  ASSUME(h[0] < 0x20 || h[0] == 0x7F);
  PARSE();
  ASSERT(DOCUMENTED(r), "a value or a documented exception");
#elif TPL == 202                /* a two-byte UTF-8 sequence (U+0080..U+07FF) is passed through */
  ASSUME(h[0] >= 0xC2 && h[0] <= 0xDF && h[1] >= 0x80 && h[1] <= 0xBF);
  PARSE();
  ASSERT(r == 4 && val == 2 && sout[0] == h[0] && sout[1] == h[1], "a UTF-8 sequence is passed through byte by byte");
#elif TPL == 203                /* three letters */
  PARSE();
  ASSERT(r == 4 && val == 3 && sout[0] == h[0] && sout[1] == h[1] && sout[2] == h[2], "a three-letter string");
#elif TPL == 204                /* "L" x : entry points */
  PARSE();
  ASSERT(r == -20, "the string entry point rejects trailing non-whitespace with parse_error");
  PARSE_READER();
  ASSERT(r == 4 && val == 1 && sout[0] == h[0] && where == 3, "the reader entry point stops right after the closing quote");
#elif TPL == 205                /* "" WS */
  PARSE();
  ASSERT(r == 4 && val == 0, "the empty string, trailing whitespace allowed");
  /* ---------------- 21x: single-character escapes ---------------- */
#elif TPL == 210                /* the eight escapes of RFC 8259 section 7 */
  uint8_t e = h[0];
  ASSUME(e == '"' || e == '\\' || e == '/' || e == 'b' || e == 'f' || e == 'n' || e == 'r' || e == 't');
  uint8_t ref = e == '"' ? 0x22 : e == '\\' ? 0x5C : e == '/' ? 0x2F : e == 'b' ? 0x08 : e == 'f' ? 0x0C : e == 'n' ? 0x0A : e == 'r' ? 0x0D : 0x09;
  PARSE();
  ASSERT(r == 4 && val == 1 && sout[0] == ref, "a single-character escape yields the character RFC 8259 assigns");
#elif TPL == 211                /* any other escape letter (not x, not u) is not JSON: outcome not defined by the statement */
  uint8_t e = h[0];
  ASSUME(!(e == '"' || e == '\\' || e == '/' || e == 'b' || e == 'f' || e == 'n' || e == 'r' || e == 't' || e == 'x' || e == 'u'));
  PARSE();
  ASSERT(DOCUMENTED(r), "a value or a documented exception");
#elif TPL == 212                /* "a\" E L "" : escape between ordinary characters */
  uint8_t e = h[0];
  ASSUME(e == '"' || e == '\\' || e == '/' || e == 'b' || e == 'f' || e == 'n' || e == 'r' || e == 't');
  uint8_t ref = e == '"' ? 0x22 : e == '\\' ? 0x5C : e == '/' ? 0x2F : e == 'b' ? 0x08 : e == 'f' ? 0x0C : e == 'n' ? 0x0A : e == 'r' ? 0x0D : 0x09;
  PARSE();
  ASSERT(r == 4 && val == 3 && sout[0] == 'a' && sout[1] == ref && sout[2] == h[1], "escape between two ordinary characters");
  /* ---------------- 22x: \u and \x ---------------- */
#elif TPL == 220                /* \u00HH */
  PARSE();
  ASSERT(r == 4 && val == 1 && sout[0] == HV(h[0]) * 16 + HV(h[1]), "\\u00HH yields the byte HH");
#elif TPL == 221                /* \uHHHH above U+00FF is outside the statement */
  ASSUME(h[0] != '0' || h[1] != '0');
  PARSE();
  ASSERT(DOCUMENTED(r), "a value or a documented exception");
#elif TPL == 222 || TPL == 226  /* \u00H? / \xH? with a non-hex digit: malformed */
  ASSUME(!((h[1] >= '0' && h[1] <= '9') || (h[1] >= 'a' && h[1] <= 'f') || (h[1] >= 'A' && h[1] <= 'F')));
  PARSE();
  ASSERT(DOCUMENTED(r), "a value or a documented exception");
#elif TPL == 223                /* \u00HH followed by a letter */
  PARSE();
  ASSERT(r == 4 && val == 2 && sout[0] == HV(h[0]) * 16 + HV(h[1]) && sout[1] == h[2], "\\u00HH is exactly six characters long");
#elif TPL == 225                /* \xHH : what HEX_ESCAPE_CODES serialization emits; not in the list of extensions strict mode disables */
  PARSE();
#if STRICT
  ASSERT(DOCUMENTED(r), "a value or a documented exception");
#else
  ASSERT(r == 4 && val == 1 && sout[0] == HV(h[0]) * 16 + HV(h[1]), "default mode: \\xHH yields the byte HH");
#endif
  /* ---------------- 5xx: every prefix of a document, last kept byte symbolic ---------------- */
#elif TPL >= 500 && TPL <= 505
#ifdef PREFIX
  in[N - 1] = in_u8();
#endif
  PARSE();
  ASSERT(DOCUMENTED(r), "a value or a documented exception");
  PARSE_READER();
  ASSERT(DOCUMENTED(r), "a value or a documented exception (reader entry point)");
#endif
}
