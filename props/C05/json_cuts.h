/* Bodies for the functions cut out of the generated C (spec.UNITS[...]['cuts']): the builders of exception MESSAGES in
 * JSON::parse ("..." + std::to_string(r.where())). The message text never influences a result or a thrown type, so the
 * cut functions return an empty std::string (libstdc++ layout: {char* p; size_t n; union{char buf[16]; size_t cap;}};
 * empty: p = &buf, n = 0, buf[0] = 0). In the real native build cuts do not apply (real functions run). */
#ifndef JSON_CUTS_H
#define JSON_CUTS_H
#ifndef VERIF_NATIVE_REAL
static void verif_empty_string(uint8_t* s) {
  *(uint8_t**)s = s + 16;
  *(uint64_t*)(s + 8) = 0;
  s[16] = 0;
}
/* std::to_string(unsigned long) */
void X__ZNSt7__cxx119to_stringEm(uint8_t* ret, uint64_t v) { (void)v; verif_empty_string(ret); }
/* std::operator+(const char*, std::string&&) */
void X__ZStplIcSt11char_traitsIcESaIcEENSt7__cxx1112basic_stringIT_T0_T1_EEPKS5_OS8_(uint8_t* ret, uint8_t* lhs, uint8_t* rhs) { (void)lhs; (void)rhs; verif_empty_string(ret); }
#endif
#endif
