/* Bodies for the functions cut out of the generated C (spec.UNITS[...]['cuts']): the builders of exception MESSAGES in
 * JSON::parse ("..." + std::to_string(r.where())). The message text never influences a result or a thrown type, so the
 * cut functions return an empty std::string (libstdc++ layout: {char* p; size_t n; union{char buf[16]; size_t cap;}};
 * empty: p = &buf, n = 0, buf[0] = 0). In the real native build cuts do not apply (real functions run). */
#ifndef JSON_CUTS_H
#define JSON_CUTS_H
#ifndef VERIF_NATIVE_REAL
static void verif_empty_string(uint8_t* s) {
  *(uint8_t**)s = s + 16;
  *(uint64_t*)(s + 8) = 0;
  s[16] = 0;
}
/* std::to_string(unsigned long) */
void X__ZNSt7__cxx119to_stringEm(uint8_t* ret, uint64_t v) { (void)v; verif_empty_string(ret); }
/* std::operator+(const char*, std::string&&) */
void X__ZStplIcSt11char_traitsIcESaIcEENSt7__cxx1112basic_stringIT_T0_T1_EEPKS5_OS8_(uint8_t* ret, uint8_t* lhs, uint8_t* rhs) { (void)lhs; (void)rhs; verif_empty_string(ret); }
/* std::string::basic_string(const char*, const allocator&): in this unit only exception messages are built from literals */
void X__ZNSt7__cxx1112basic_stringIcSt11char_traitsIcESaIcEEC2IS3_EEPKcRKS3_(uint8_t* self, uint8_t* s, uint8_t* a) { (void)s; (void)a; verif_empty_string(self); }
/* phosg::string_printf(const char*, ...): in this unit only value_for_hex_char's exception message */
void X__ZN5phosg13string_printfB5cxx11EPKcz(uint8_t* ret, uint8_t* fmt, ...) { (void)fmt; verif_empty_string(ret); }
#endif
#endif
