/* C05: JSON::parse on TEMPLATED documents: a concrete skeleton followed by symbolic holes, each hole restricted to one
 * lexical class (WS = SP HT CR LF, D = '0'..'9', D1 = '1'..'9', H = hex digit, L = 'a'..'z'). The parser mode is a concrete
 * cell (STRICT 0/1) and the holes are the LAST bytes of the document: measured (NOTES.md), a symbolic mode flag or a symbolic
 * byte in front of concrete bytes makes CBMC explore the whole parser again at a symbolic offset (no verdict in 900-1500 s,
 * > 28 GB), while trailing holes cost 10-60 s. (Dropped for the same reason, > 6-14 GB in the SAT back end or no verdict in 900 s:
 * dictionaries with members, hexadecimal holes, positive exponents, holes inside strings, truncated containers.) Every query still decides its assertion for all values of the holes at once.
 * Expected results are written from RFC 8259 / the extension list in JSON.hh; float values are computed here with the
 * same elementary double operations (x0.1 / x10 per exponent step, digit*0.1^k per fraction digit), as no correctly rounded
 * result is promised by phosg.   Return codes: kind 0 null 1 bool 2 int 3 float 4 string 5 list 6 dict, -20 parse_error,
 * -21 type_error, -1 out_of_range. */
#include "harness.h"
#include "json_cuts.h"
int64_t w_json_parse(uint8_t* in, uint64_t n, uint32_t strict, uint64_t* val, uint8_t* sout, uint64_t cap);
int64_t w_json_parse_elem(uint8_t* in, uint64_t n, uint32_t strict, uint64_t idx, uint8_t* key, uint64_t keylen, uint64_t* topsize, uint64_t* val, uint8_t* sout, uint64_t cap);
int64_t w_json_parse_reader(uint8_t* in, uint64_t n, uint32_t strict, uint64_t* val, uint8_t* sout, uint64_t cap, uint64_t* where);

static uint8_t ws(void) { uint8_t c = in_u8(); ASSUME(c == ' ' || c == '\t' || c == '\r' || c == '\n'); return c; }
static uint8_t dig(void) { uint8_t c = in_u8(); ASSUME(c >= '0' && c <= '9'); return c; }
static uint8_t dig1(void) { uint8_t c = in_u8(); ASSUME(c >= '1' && c <= '9'); return c; }
static uint8_t hexd(void) { uint8_t c = in_u8(); ASSUME((c >= '0' && c <= '9') || (c >= 'a' && c <= 'f') || (c >= 'A' && c <= 'F')); return c; }
static uint8_t let(void) { uint8_t c = in_u8(); ASSUME(c >= 'a' && c <= 'z'); return c; }
static unsigned hv(uint8_t c) { return c <= '9' ? c - '0' : (c | 0x20) - 'a' + 10; }
static double dbl(uint64_t bits) { double d; memcpy(&d, &bits, 8); return d; }

#define DOC(lit) do { const char* s_ = lit; for (n = 0; s_[n]; n++) in[n] = (uint8_t)s_[n]; } while (0)
#define REJECTED(r) ((r) == -20 || (r) == -1)
#define ONLY_DOCUMENTED(r) ((r) >= 0 || (r) == -20 || (r) == -1)

void harness(void) {
  uint8_t in[16], sout[16];
  unsigned n = 0;
  uint64_t val = 99, where = 99;
  int64_t r;
#if TPL == 1 || TPL == 2          /* "[]" WS, "{}" WS : empty containers are standard JSON */
  DOC(TPL == 1 ? "[]" : "{}"); in[n++] = ws();
  r = w_json_parse(in, n, STRICT, &val, sout, 16); OBS(r);
  ASSERT(r == (TPL == 1 ? 5 : 6) && val == 0, "an empty list / dictionary is accepted in this mode with size 0");
#elif TPL == 3 || TPL == 4        /* "[ ]" WS, "{ }" WS */
  DOC(TPL == 3 ? "[ ]" : "{ }"); in[n++] = ws();
  r = w_json_parse(in, n, STRICT, &val, sout, 16); OBS(r);
  ASSERT(r == (TPL == 3 ? 5 : 6) && val == 0, "an empty list / dictionary with inner whitespace is accepted in this mode");
#elif TPL == 5                    /* "[7,8]" WS : standard, both modes */
  DOC("[7,8]"); in[n++] = ws();
  r = w_json_parse(in, n, STRICT, &val, sout, 16); OBS(r);
  ASSERT(r == 5 && val == 2, "a standard list document is accepted in this mode with the right size");
#elif TPL == 7                    /* trailing comma "[7,]" WS : extension */
  DOC("[7,]"); in[n++] = ws();
  r = w_json_parse(in, n, STRICT, &val, sout, 16); OBS(r);
  if (STRICT) ASSERT(REJECTED(r), "strict mode rejects a trailing comma");
  else ASSERT(r == 5 && val == 1, "default mode accepts a trailing comma; the container has one member");
#elif TPL == 10                   /* "-" D1 D D : standard negative integer, both modes */
  DOC("-"); uint8_t a = dig1(), b = dig(), c = dig(); in[n++] = a; in[n++] = b; in[n++] = c;
  r = w_json_parse(in, n, STRICT, &val, sout, 16); OBS(r);
  ASSERT(r == 2 && (int64_t)val == -(int64_t)((a - '0') * 100 + (b - '0') * 10 + (c - '0')), "a standard integer numeral is an int with its decimal value");
#elif TPL == 11 || TPL == 12      /* "5e-" D and "5E-" D : exponent form, standard, both modes */
  DOC(TPL == 11 ? "5e-" : "5E-"); uint8_t d = dig(); in[n++] = d;
  r = w_json_parse(in, n, STRICT, &val, sout, 16); OBS(r);
  double ref = 5.0; for (int i = 0; i < d - '0'; i++) ref *= 0.1;
  ASSERT(r == 2 || r == 3, "a standard numeral with exponent is accepted as a number");
  ASSERT(r != 2 || (double)(int64_t)val == ref, "exponent numeral: an int result has the value of the numeral (5e-1 is not 0)");
  ASSERT(r != 3 || dbl(val) == ref, "exponent numeral: a float result has the value 5 * 0.1^D");
  ASSERT(r == 3, "a numeral with an exponent is a float");
#elif TPL == 15                   /* "2." D D : fraction */
  DOC("2."); uint8_t a = dig(), b = dig(); in[n++] = a; in[n++] = b;
  r = w_json_parse(in, n, STRICT, &val, sout, 16); OBS(r);
  double p = 0.1, ref = 2.0; ref += (a - '0') * p; p *= 0.1; ref += (b - '0') * p;
  ASSERT(r == 3 && dbl(val) == ref, "a numeral with a fraction is a float with value 2 + D/10 + D/100");
#elif TPL == 16                   /* "{1:2}" WS : a non-string key is malformed JSON */
  DOC("{1:2}"); in[n++] = ws();
  r = w_json_parse(in, n, STRICT, &val, sout, 16); OBS(r);
  ASSERT(ONLY_DOCUMENTED(r), "only parse_error / out_of_range escape");
  ASSERT(REJECTED(r), "a dictionary with a non-string key is rejected");
#elif TPL >= 17 && TPL <= 19      /* "null" WS, "true" WS, "false" WS : standard */
  DOC(TPL == 17 ? "null" : TPL == 18 ? "true" : "false"); in[n++] = ws();
  r = w_json_parse(in, n, STRICT, &val, sout, 16); OBS(r);
  ASSERT(r == (TPL == 17 ? 0 : 1) && val == (TPL == 18), "null / true / false are accepted in this mode with their value");
#elif TPL >= 20 && TPL <= 22      /* "n" WS, "t" WS, "f" WS : extension */
  DOC(TPL == 20 ? "n" : TPL == 21 ? "t" : "f"); in[n++] = ws();
  r = w_json_parse(in, n, STRICT, &val, sout, 16); OBS(r);
  if (STRICT) ASSERT(REJECTED(r), "strict mode rejects one-character constants");
  else ASSERT(r == (TPL == 20 ? 0 : 1) && val == (TPL == 21), "default mode reads n / t / f as null / true / false");
#elif TPL == 23                   /* "//c\n7" WS : comment extension */
  DOC("//c\n7"); in[n++] = ws();
  r = w_json_parse(in, n, STRICT, &val, sout, 16); OBS(r);
  if (STRICT) ASSERT(REJECTED(r), "strict mode rejects comments");
  else ASSERT(r == 2 && val == 7, "default mode skips a // comment");
#elif TPL == 24                   /* "7 " L : trailing garbage, both entry points */
  DOC("7 "); in[n++] = let();
  r = w_json_parse(in, n, STRICT, &val, sout, 16); OBS(r);
  ASSERT(r == -20, "the string entry point rejects trailing non-whitespace with parse_error");
  r = w_json_parse_reader(in, n, STRICT, &val, sout, 16, &where); OBS(r);
  ASSERT(r == 2 && val == 7 && where == 1, "the reader entry point returns the value and stops right after it");
#elif TPL == 30                   /* "1e+" D : explicit plus sign in the exponent */
  DOC("1e+"); uint8_t d = dig(); in[n++] = d;
  r = w_json_parse(in, n, STRICT, &val, sout, 16); OBS(r);
  double ref = 1.0; for (int i = 0; i < d - '0'; i++) ref *= 10;
  ASSERT(r == 3 && dbl(val) == ref, "1e+D is accepted as the float 10^D");
#elif TPL == 31                   /* "-2.5E+" D */
  DOC("-2.5E+"); uint8_t d = dig(); in[n++] = d;
  r = w_json_parse(in, n, STRICT, &val, sout, 16); OBS(r);
  double ref = 2.0; ref += 5 * 0.1; for (int i = 0; i < d - '0'; i++) ref *= 10;
  ASSERT(r == 3 && dbl(val) == -ref, "-2.5E+D is accepted as the float -2.5 * 10^D");
#elif TPL == 32                   /* "7e+2" WS, reader entry point consumes the whole numeral */
  DOC("7e+2"); in[n++] = ws();
  r = w_json_parse(in, n, STRICT, &val, sout, 16); OBS(r);
  { double ref = 7.0; ref *= 10; ref *= 10; ASSERT(r == 3 && dbl(val) == ref, "7e+2 is accepted as the float 700"); }
  r = w_json_parse_reader(in, n, STRICT, &val, sout, 16, &where); OBS(r);
  ASSERT(r == 3 && where == 4, "the reader entry point consumes the whole numeral 7e+2");
#elif TPL == 33 || TPL == 34 || TPL == 35 || TPL == 37     /* dictionaries with one member; the strict flag must reach the member value */
  /* 33 {"a":7}  34 {"a":t}  35 {"a":0x1C}  37 {"a":7,}  -- fully concrete bytes: a dictionary that really gets a member costs
   * 45-100 s / several GB already; with a trailing hole the accepting path gives no verdict in 900 s (the mode stays a cell) */
  DOC(TPL == 33 ? "{\"a\":7}" : TPL == 34 ? "{\"a\":t}" : TPL == 35 ? "{\"a\":0x1C}" : "{\"a\":7,}");
#if HOLE
  in[n++] = ws();
#endif
  uint64_t topsize = 99; uint8_t key[1] = {'a'};
#if ELEM
  r = w_json_parse_elem(in, n, STRICT, 0, key, 1, &topsize, &val, sout, 16); OBS(r);
#else
  r = w_json_parse(in, n, STRICT, &val, sout, 16); OBS(r); (void)key;
#endif
  if (TPL != 33 && STRICT) ASSERT(REJECTED(r), "strict mode rejects an extension below a dictionary value (one-character constant, hex integer, trailing comma)");
  else {
#if !ELEM
    ASSERT(r == 6 && val == 1, "accepted as a dictionary with one member");
#else
    ASSERT(topsize == 1, "the dictionary has one member");
    if (TPL == 33 || TPL == 37) ASSERT(r == 2 && val == 7, "member a is the int 7");
    if (TPL == 34) ASSERT(r == 1 && val == 1, "member a is true");
    if (TPL == 35) ASSERT(r == 2 && val == 0x1C, "member a is the int 0x1C");
#endif
  }
#endif
}
