/* C05 templated documents (first experiment): concrete skeleton, holes restricted to one lexical class. */
#include "harness.h"
#include "json_cuts.h"
int64_t w_json_parse(uint8_t* in, uint64_t n, uint32_t strict, uint64_t* val, uint8_t* sout, uint64_t cap);
static uint8_t hole_ws(void) { uint8_t c = in_u8(); ASSUME(c == ' ' || c == '\t' || c == '\r' || c == '\n'); return c; }
void harness(void) {
  uint32_t strict = in_bool();
  uint64_t val = 99;
#if TPL == 0
  uint8_t in[3] = {'[', ']', 0}; enum { N = 2 };
#elif TPL == 1
  uint8_t in[4] = {'[', 0, ']', 0}; enum { N = 3 }; in[1] = hole_ws();
#elif TPL == 2
  uint8_t in[4] = {'{', 0, '}', 0}; enum { N = 3 }; in[1] = hole_ws();
#elif TPL == 3
  uint8_t in[3] = {'{', '}', 0}; enum { N = 2 };
#endif
  uint8_t sout[N + 1];
  int64_t r = w_json_parse(in, N, strict, &val, sout, N + 1);
  OBS(r); OBS(val);
  ASSERT(r == ((TPL == 2 || TPL == 3) ? 6 : 5) && val == 0, "an empty container (with optional whitespace) is accepted in both modes with size 0");
}
