/* C05: JSON::parse on TEMPLATED documents, third set: CONTAINERS (h_tmpl.c is the first set, h_doc.c the second, scalar one): a concrete skeleton with symbolic holes of one
 * lexical class each; the parser mode (STRICT) and the entry point are concrete cells. The document is held in a buffer of
 * EXACTLY its length, so any read past the end is a CBMC pointer-check failure (ASan natively).
 *
 * Scalar documents (numbers, strings, constants) are run with `cbmc --paths lifo` (path-wise symbolic execution, every path is
 * decided by the solver; spec.py): there the holes may stand anywhere, the price is one path per symbolic branch decision. For
 * that reason everything in this file that depends on a hole is written BRANCH-FREE (?: on side-effect-free operands, no `if`
 * on symbolic data): an `if` on a hole in the harness doubles the number of paths.
 *
 * Expected results are written here from RFC 8259 and the extension list of JSON.hh, never by calling phosg:
 *   - integers: decimal / hexadecimal value accumulated in uint64_t (INT64_MIN has no positive counterpart);
 *   - floats: phosg promises no correctly rounded result; the reference uses the documented elementary double operations
 *     (integer part converted, + digit * 0.1^k per fraction digit, then x10 / x0.1 per exponent step, then the sign);
 *   - escapes: table from RFC 8259 section 7;   \u00HH -> the byte HH (the statement limits \u to U+00FF).
 * Where the statement does not define the outcome (magnitudes beyond int64, raw control characters in strings, a lone "-",
 * malformed input in general) only "a value, parse_error or out_of_range" is asserted (DOCUMENTED).
 * Return codes: kind 0 null 1 bool 2 int 3 float 4 string 5 list 6 dict, -20 parse_error, -21 type_error, -1 out_of_range, -30 no such member. */
#include "harness.h"
#include "json_cuts.h"
int64_t w_json_parse_q(uint8_t* in, uint64_t n, uint32_t strict, uint32_t reader, uint64_t* where, uint8_t* p0, uint64_t n0,
                       uint8_t* p1, uint64_t n1, int64_t* kinds, uint64_t* vals, uint64_t* val, uint8_t* sout);

/* hole markers inside a skeleton */
#define D "\001"   /* '0'..'9' */
#define D1 "\002"  /* '1'..'9' */
#define H "\003"   /* hex digit, both cases */
#define WS "\004"  /* SP HT CR LF */
#define L "\005"   /* 'a'..'z' */
#define ANY "\006" /* any byte */
#define X "\007"   /* any byte; the template ASSUMEs its class afterwards */

static uint8_t hole(uint8_t k) {
  uint8_t c = in_u8();
  if (k == 1) ASSUME(c >= '0' && c <= '9');
  if (k == 2) ASSUME(c >= '1' && c <= '9');
  if (k == 3) ASSUME((c >= '0' && c <= '9') || (c >= 'a' && c <= 'f') || (c >= 'A' && c <= 'F'));
  if (k == 4) ASSUME(c == ' ' || c == '\t' || c == '\r' || c == '\n');
  if (k == 5) ASSUME(c >= 'a' && c <= 'z');
  return c;
}
/* n bytes of the skeleton; PREFIX cells pass n < strlen(skeleton) */
static void fill(const char* sk, unsigned n, uint8_t* in, uint8_t* h) {
  unsigned nh = 0;
  for (unsigned i = 0; i < n; i++) {
    uint8_t c = (uint8_t)sk[i];
    if (c >= 1 && c <= 7) { c = hole(c); h[nh++] = c; }
    in[i] = c;
  }
}
#define HV(c) ((unsigned)((c) <= '9' ? (c) - '0' : ((c) | 0x20) - 'a' + 10)) /* value of a hex digit (class H) */
#define DV(c) ((unsigned)((c) - '0'))
static double dbl(uint64_t bits) { double d; memcpy(&d, &bits, 8); return d; }
/* x * 10^e and x * 0.1^e by e <= 9 single multiplications (the documented evaluation order), branch-free */
#define STEP(x, i, e, f) x = (i) < (e) ? x * (f) : x
#define SCALE(x, e, f) do { STEP(x, 0, e, f); STEP(x, 1, e, f); STEP(x, 2, e, f); STEP(x, 3, e, f); STEP(x, 4, e, f); STEP(x, 5, e, f); STEP(x, 6, e, f); STEP(x, 7, e, f); STEP(x, 8, e, f); } while (0)

#define REJECTED(r) ((r) == -20 || (r) == -1)
#define DOCUMENTED(r) (((r) >= 0 && (r) <= 6) || (r) == -20 || (r) == -1)
#define NOEL (-30)

/* Templates defined below but NOT queried by spec.py (measured at or beyond the budget, NOTES.md "path-wise" section): 304, 311, 314, 332,
 * 341-343, 350-352, 360, the prefix cells 600-603 and the concrete probes 910-914. */
/* ---- skeleton table ---- (holes stand inside a token, not at the first byte of a value, except where noted: see NOTES.md) */
#if TPL == 300
#define SK "[1" D ",2" D "]"
#elif TPL == 301
#define SK "[" D "]"
#elif TPL == 302
#define SK "[[1" D "]]"
#elif TPL == 303
#define SK "[[],[1" D "]]"
#elif TPL == 304
#define SK "[1" D "] x"
#elif TPL == 305
#define SK "[\"" L "\",1" D "]"
#elif TPL == 310
#define SK "{\"a\":1" D "}"
#elif TPL == 311
#define SK "{\"a\":1" D ",\"b\":2" D "}"
#elif TPL == 312
#define SK "{\"a\":1,\"a\":2}"
#elif TPL == 313
#define SK "{\"" L "\":1" D "}"
#elif TPL == 314
#define SK "{\"a\":1" D "} x"
#elif TPL == 315
#define SK "{\"a\":\"" L "\"}"
#elif TPL == 320
#define SK "{\"a\" 1" D "}"
#elif TPL == 321
#define SK "[1" D " 2" D "]"
#elif TPL == 322
#define SK "{\"a\":1" D " \"b\":2}"
#elif TPL == 323
#define SK "[1" D ",,2]"
#elif TPL == 324
#define SK "{\"a\",1" D "}"
#elif TPL == 325
#define SK "[,1" D "]"
#elif TPL == 330
#define SK "[1" D ",]"
#elif TPL == 331
#define SK "{\"a\":1" D ",}"
#elif TPL == 332
#define SK "[1" D "," WS "]"
#elif TPL == 340
#define SK "[[[1" D "]]]"
#elif TPL == 341
#define SK "{\"a\":{\"b\":{\"c\":1" D "}}}"
#elif TPL == 342
#define SK "[{\"a\":[1" D "]}]"
#elif TPL == 343
#define SK "{\"a\":[1" D ",2" D "]}"
#elif TPL == 350
#define SK "[1" D WS ",2" D WS "]" WS
#elif TPL == 351
#define SK "{\"a\"" WS ":1" D WS "}" WS
#elif TPL == 352
#define SK "[" WS "7]"
#elif TPL == 360
#define SK "[t,f,n,null,true,false]"
#elif TPL == 361
#define SK "[" L "]"
#elif TPL == 362
#define SK "[0x" H "]"
#elif TPL == 363
#define SK "{\"a\":0x" H "}"
#elif TPL == 364
#define SK "[1" D "//" L "\n]"
/* 6xx: container documents whose every prefix is a cell (PREFIX bytes kept, the last kept byte symbolic) */
#elif TPL == 600
#define SK "[1,2]"
#elif TPL == 601
#define SK "{\"a\":1}"
#elif TPL == 602
#define SK "[true,null]"
#elif TPL == 603
#define SK "[[1],{}]"
#elif TPL == 910
#define SK "[7]"
#elif TPL == 911
#define SK "[7,8]"
#elif TPL == 912
#define SK "[[7]]"
#elif TPL == 913
#define SK "{\"a\":7}"
#elif TPL == 914
#define SK "{\"a\":7,\"b\":8}"
#else
#error "unknown TPL"
#endif

static const char SK_[] = SK;
#ifdef PREFIX
enum { N = PREFIX };
#else
enum { N = sizeof(SK_) - 1 };
#endif

/* run the string entry point (reader 0) or the StringReader& entry point (reader 1); P0 / P1: member paths ("" = none) */
#define RUN(reader, P0, P1)                                                                                   \
  do {                                                                                                        \
    static uint8_t p0_[] = P0, p1_[] = P1;                                                                    \
    r = w_json_parse_q(in, N, STRICT, reader, &where, sizeof(p0_) > 1 ? &p0_[0] : (uint8_t*)0, sizeof(p0_) - 1, \
                       sizeof(p1_) > 1 ? &p1_[0] : (uint8_t*)0, sizeof(p1_) - 1, kinds, vals, &val, sout);     \
    OBS(r);                                                                                                   \
  } while (0)
#define PARSE() RUN(0, "", "")
#define PARSE_READER() RUN(1, "", "")

#ifndef STRICT
#define STRICT 0
#endif

void harness(void) {
  uint8_t in[N ? N : 1], h[8] = {0}, sout[48] = {0};
  uint64_t val = 99, where = 99, vals[2] = {99, 99};
  int64_t r, kinds[2] = {99, 99};
  (void)dbl;
  fill(SK_, N, in, h);

#if TPL == 300                /* [1D,2D] */
  RUN(0, "0", "1");
  ASSERT(r == 5 && val == 2, "a list of two numbers has size 2");
  ASSERT(kinds[0] == 2 && vals[0] == 10 + DV(h[0]) && kinds[1] == 2 && vals[1] == 20 + DV(h[1]), "the members are the ints 1D, 2D in order");
#elif TPL == 301              /* [D] : the hole is the first byte of the member */
  RUN(0, "0", "");
  ASSERT(r == 5 && val == 1 && kinds[0] == 2 && vals[0] == DV(h[0]), "a list of one number");
#elif TPL == 302              /* [[1D]] */
  RUN(0, "0", "00");
  ASSERT(r == 5 && val == 1 && kinds[0] == 5 && vals[0] == 1 && kinds[1] == 2 && vals[1] == 10 + DV(h[0]), "a list in a list");
#elif TPL == 303              /* [[],[1D]] */
  RUN(0, "0", "10");
  ASSERT(r == 5 && val == 2 && kinds[0] == 5 && vals[0] == 0 && kinds[1] == 2 && vals[1] == 10 + DV(h[0]), "an empty list and a one-member list in a list");
#elif TPL == 304              /* [1D] x : entry points */
  RUN(0, "", "");
  ASSERT(r == -20, "the string entry point rejects trailing non-whitespace with parse_error");
  RUN(1, "0", "");
  ASSERT(r == 5 && val == 1 && kinds[0] == 2 && vals[0] == 10 + DV(h[0]) && where == 4, "the reader entry point stops right after the closing bracket");
#elif TPL == 305              /* ["L",1D] */
  RUN(0, "0", "1");
  ASSERT(r == 5 && val == 2 && kinds[0] == 4 && vals[0] == 1 && sout[16] == h[0] && kinds[1] == 2 && vals[1] == 10 + DV(h[1]), "a string and a number in a list");
#elif TPL == 310              /* {"a":1D} */
  RUN(0, "a", "b");
  ASSERT(r == 6 && val == 1 && kinds[0] == 2 && vals[0] == 10 + DV(h[0]) && kinds[1] == NOEL, "a dictionary with the single member a = 1D");
#elif TPL == 311              /* {"a":1D,"b":2D} */
  RUN(0, "a", "b");
  ASSERT(r == 6 && val == 2 && kinds[0] == 2 && vals[0] == 10 + DV(h[0]) && kinds[1] == 2 && vals[1] == 20 + DV(h[1]), "a dictionary with the members a = 1D, b = 2D");
#elif TPL == 312              /* {"a":1,"a":2} : RFC 8259 leaves duplicate names unspecified, the statement does not mention them */
  RUN(0, "a", "");
  ASSERT(DOCUMENTED(r), "a value or a documented exception");
#elif TPL == 313              /* {"L":1D} : the key is a hole; looked up under the key 'k' (present iff L == 'k') */
  RUN(0, "k", "");
  ASSERT(r == 6 && val == 1, "a dictionary with one member");
  ASSERT(h[0] == 'k' ? (kinds[0] == 2 && vals[0] == 10 + DV(h[1])) : kinds[0] == NOEL, "the member is stored under exactly its key");
#elif TPL == 314              /* {"a":1D} x : entry points */
  RUN(0, "", "");
  ASSERT(r == -20, "the string entry point rejects trailing non-whitespace with parse_error");
  RUN(1, "a", "");
  ASSERT(r == 6 && val == 1 && kinds[0] == 2 && vals[0] == 10 + DV(h[0]) && where == 8, "the reader entry point stops right after the closing brace");
#elif TPL == 315              /* {"a":"L"} */
  RUN(0, "a", "");
  ASSERT(r == 6 && val == 1 && kinds[0] == 4 && vals[0] == 1 && sout[16] == h[0], "a dictionary with a string member");
#elif TPL >= 320 && TPL <= 325  /* missing colon / comma, doubled comma, comma for colon, leading comma: not JSON and not an extension */
  RUN(0, "", "");
  ASSERT(REJECTED(r), "a container with a missing or misplaced separator is rejected with parse_error / out_of_range");
#elif TPL == 330 || TPL == 332  /* [1D,] and [1D, WS ] : trailing comma */
  RUN(0, "0", "");
#if STRICT
  ASSERT(REJECTED(r), "strict mode rejects a trailing comma");
#else
  ASSERT(r == 5 && val == 1 && kinds[0] == 2 && vals[0] == 10 + DV(h[0]), "default mode accepts a trailing comma; one member");
#endif
#elif TPL == 331              /* {"a":1D,} */
  RUN(0, "a", "");
#if STRICT
  ASSERT(REJECTED(r), "strict mode rejects a trailing comma");
#else
  ASSERT(r == 6 && val == 1 && kinds[0] == 2 && vals[0] == 10 + DV(h[0]), "default mode accepts a trailing comma; one member");
#endif
#elif TPL == 340              /* [[[1D]]] */
  RUN(0, "00", "000");
  ASSERT(r == 5 && val == 1 && kinds[0] == 5 && vals[0] == 1 && kinds[1] == 2 && vals[1] == 10 + DV(h[0]), "three nested lists");
#elif TPL == 341              /* {"a":{"b":{"c":1D}}} */
  RUN(0, "ab", "abc");
  ASSERT(r == 6 && val == 1 && kinds[0] == 6 && vals[0] == 1 && kinds[1] == 2 && vals[1] == 10 + DV(h[0]), "three nested dictionaries");
#elif TPL == 342              /* [{"a":[1D]}] */
  RUN(0, "0a", "0a0");
  ASSERT(r == 5 && val == 1 && kinds[0] == 5 && vals[0] == 1 && kinds[1] == 2 && vals[1] == 10 + DV(h[0]), "list in dictionary in list");
#elif TPL == 343              /* {"a":[1D,2D]} */
  RUN(0, "a0", "a1");
  ASSERT(r == 6 && val == 1 && kinds[0] == 2 && vals[0] == 10 + DV(h[0]) && kinds[1] == 2 && vals[1] == 20 + DV(h[1]), "a list of two numbers in a dictionary");
#elif TPL == 350              /* [1D WS ,2D WS ] WS */
  RUN(0, "0", "1");
  ASSERT(r == 5 && val == 2 && kinds[0] == 2 && vals[0] == 10 + DV(h[0]) && kinds[1] == 2 && vals[1] == 20 + DV(h[2]), "whitespace after the members and after the list");
#elif TPL == 351              /* {"a" WS :1D WS } WS */
  RUN(0, "a", "");
  ASSERT(r == 6 && val == 1 && kinds[0] == 2 && vals[0] == 10 + DV(h[1]), "whitespace after the key, after the member and after the dictionary");
#elif TPL == 352              /* [ WS 7] : whitespace in front of a member */
  RUN(0, "0", "");
  ASSERT(r == 5 && val == 1 && kinds[0] == 2 && vals[0] == 7, "whitespace in front of a member");
#elif TPL == 360              /* [t,f,n,null,true,false] */
  RUN(0, "0", "2");
#if STRICT
  ASSERT(REJECTED(r), "strict mode rejects one-character constants");
#else
  ASSERT(r == 5 && val == 6 && kinds[0] == 1 && vals[0] == 1 && kinds[1] == 0, "default mode: t f n are true false null");
#endif
#elif TPL == 361              /* [L] : only t, f, n are values, and only in default mode */
  RUN(0, "0", "");
  ASSERT(DOCUMENTED(r), "a value or a documented exception");
#if STRICT
  ASSERT(REJECTED(r), "strict mode: no single letter is a value");
#else
  ASSERT(h[0] == 't' ? (r == 5 && kinds[0] == 1 && vals[0] == 1) : h[0] == 'f' ? (r == 5 && kinds[0] == 1 && vals[0] == 0) : h[0] == 'n' ? (r == 5 && kinds[0] == 0) : REJECTED(r), "default mode: exactly t, f, n are values");
#endif
#elif TPL == 362 || TPL == 363  /* [0xH], {"a":0xH} */
#if TPL == 362
  RUN(0, "0", "");
#else
  RUN(0, "a", "");
#endif
#if STRICT
  ASSERT(REJECTED(r), "strict mode rejects a hexadecimal integer inside a container");
#else
  ASSERT(r == (TPL == 362 ? 5 : 6) && val == 1 && kinds[0] == 2 && vals[0] == HV(h[0]), "default mode reads a hexadecimal integer inside a container");
#endif
#elif TPL == 364              /* [1D//L\n] */
  RUN(0, "0", "");
#if STRICT
  ASSERT(REJECTED(r), "strict mode rejects a comment");
#else
  ASSERT(r == 5 && val == 1 && kinds[0] == 2 && vals[0] == 10 + DV(h[0]), "default mode skips a comment inside a list");
#endif
#elif TPL >= 600 && TPL <= 603
#ifdef PREFIX
  in[N - 1] = in_u8();
#endif
  RUN(0, "", "");
  ASSERT(DOCUMENTED(r), "a value or a documented exception");
  RUN(1, "", "");
  ASSERT(DOCUMENTED(r), "a value or a documented exception (reader entry point)");
#elif TPL >= 910 && TPL <= 914
  RUN(0, "0", "");
  ASSERT(DOCUMENTED(r), "x");
#endif
}
