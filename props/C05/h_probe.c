#include "harness.h"
#include "stub_printf.h"
#include "json_cuts.h"
int64_t w_json_parse(uint8_t* in, uint64_t n, uint32_t strict, uint64_t* val, uint8_t* sout, uint64_t cap);
void harness(void) {
  uint8_t in[LEN + 1], sout[LEN + 1];
  in_bytes(in, LEN);
  uint32_t strict = in_bool();
#if CLASS == 0
  ASSUME(in[0] == '[' || in[0] == '{');
#elif CLASS == 1
  ASSUME(in[0] == '-' || in[0] == '+' || (in[0] >= '0' && in[0] <= '9'));
#elif CLASS == 2
  ASSUME(in[0] == 'n' || in[0] == 't' || in[0] == 'f');
#elif CLASS == 3
  ASSUME(in[0] == '"');
#elif CLASS == 4
  ASSUME(in[0] == ' ' || in[0] == '\t' || in[0] == '\r' || in[0] == '\n' || in[0] == '/');
#endif
  { unsigned nb = 0; for (unsigned i = 0; i < LEN; i++) nb += (in[i] == '[' || in[i] == '{'); ASSUME(nb <= NB); }
  uint64_t val = 0;
  int64_t r = w_json_parse(in, LEN, strict, &val, sout, LEN + 1);
  OBS(r);
  ASSERT(r >= 0 || r == -20 || r == -1, "only parse_error / out_of_range escape");
}
