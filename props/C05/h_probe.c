/* C05 totality probe: JSON::parse(const char*, size, strict) on LEN fully symbolic bytes (all 256 values), symbolic mode.
 * Asserted (A1): the call terminates within the unwinding bounds, every memory access of the translated code is in bounds
 * (CBMC pointer checks / ASan natively) and only parse_error or out_of_range can escape.
 * Cell: LEN, NB = max number of '[' / '{' bytes in the input (= recursion bound NB+1). */
#include "harness.h"
#include "json_cuts.h"
int64_t w_json_parse(uint8_t* in, uint64_t n, uint32_t strict, uint64_t* val, uint8_t* sout, uint64_t cap);
static int is_dig(uint8_t c) { return c >= '0' && c <= '9'; }
void harness(void) {
  uint8_t in[LEN + 1], sout[LEN + 1];
  in_bytes(in, LEN);
  uint32_t strict = in_bool();
#ifdef FIRST
  in[0] = FIRST; /* concrete first byte (cell): CBMC follows one branch of the parser's dispatch */
#endif
  { unsigned nb = 0; for (unsigned i = 0; i < LEN; i++) nb += (in[i] == '[' || in[i] == '{'); ASSUME(nb <= NB); }
  /* bound on the exponent loop of the code under test: at most one digit after e/E[+-] */
  for (unsigned i = 0; i + 2 < LEN; i++) if (in[i] == 'e' || in[i] == 'E') {
    unsigned j = i + 1;
    if (in[j] == '+' || in[j] == '-') j++;
    if (j + 1 < LEN) ASSUME(!(is_dig(in[j]) && is_dig(in[j + 1])));
  }
  uint64_t val = 0;
  int64_t r = w_json_parse(in, LEN, strict, &val, sout, LEN + 1);
  OBS(r);
  ASSERT(r >= 0 || r == -20 || r == -1, "A1: only parse_error / out_of_range escape");
#if LEN == 2
  /* the complete list of 2-byte RFC 8259 documents whose value is a container */
  if (in[0] == '[' && in[1] == ']') ASSERT(r == 5 && val == 0, "[] is the empty list in both modes");
  if (in[0] == '{' && in[1] == '}') ASSERT(r == 6 && val == 0, "{} is the empty dictionary in both modes");
#endif
}
