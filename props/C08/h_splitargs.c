/* C08: split_args(s) against an independent shell-style tokenizer written here.
 * LEN = concrete length of s (cell); bytes symbolic over all 256 values.
 * Reference definition (phosg's documented behaviour, StringsTest.cc):
 *   - arguments are separated by runs of unquoted, unescaped blanks (space or tab);
 *   - ' or " opens a quoted region that ends at the next unescaped occurrence of the same quote character; the quote
 *     characters themselves are not part of the argument; inside it blanks are literal;
 *   - a backslash (inside or outside quotes) makes the next character literal (a literal blank does not separate);
 *     a backslash at the end of the input is an error (runtime_error), so is an unterminated quoted region;
 *   - an argument starts with its first literal character or with an opening quote, as in a shell: an empty quoted
 *     region ('' or "") is an (empty) argument of its own or contributes nothing to the argument it is glued to
 *     (C17: "tokenised like a shell would"; the pinned tree dropped such arguments - fixed in /repo, see known_findings.json).
 * Every byte value, including NUL, is an ordinary literal character. */
#include "harness.h"
int64_t w_split_args(uint8_t* s, uint64_t n, uint64_t* lens, uint64_t max_pieces, uint8_t* bytes, uint64_t cap);
#define MAXP (LEN + 1)
void harness(void) {
  uint8_t s[LEN + 1];
  in_bytes(s, LEN);
  /* reference tokenizer */
  uint8_t rbytes[LEN + 1];
  uint64_t rlens[MAXP];
  uint64_t rcount = 0, rn = 0;
  int err = 0, in_arg = 0;
  uint8_t quote = 0;
  for (int i = 0; i < LEN && !err; i++) {
    uint8_t c = s[i];
    int have = 0, separable = 0;
    uint8_t lit = 0;
    if (quote) {
      if (c == quote) quote = 0;
      else if (c == '\\') { if (i + 1 >= LEN) err = 1; else { lit = s[++i]; have = 1; } }
      else { lit = c; have = 1; }
    } else if (c == '"' || c == '\'') { quote = c; if (!in_arg) { rlens[rcount++] = 0; in_arg = 1; } }
    else if (c == '\\') { if (i + 1 >= LEN) err = 1; else { lit = s[++i]; have = 1; } }
    else { lit = c; have = 1; separable = 1; }
    if (!have) continue;
    if (separable && (lit == ' ' || lit == '\t')) { in_arg = 0; continue; }
    if (!in_arg) { rlens[rcount++] = 0; in_arg = 1; }
    rbytes[rn++] = lit; rlens[rcount - 1]++;
  }
  if (quote) err = 1;
  uint64_t lens[MAXP];
  uint8_t bytes[LEN + 1];
  int64_t r = w_split_args(s, LEN, lens, MAXP, bytes, LEN + 1);
  OBS(r);
  if (err) { ASSERT(r == -5, "incomplete escape / unterminated quote is rejected with runtime_error"); return; }
  ASSERT(r == (int64_t)rcount, "argument count equals the reference tokenizer");
  if (r != (int64_t)rcount) return;
  uint64_t off = 0; int ok = 1;
  for (uint64_t p = 0; p < rcount; p++) {
    OBS(lens[p]);
    ASSERT(lens[p] == rlens[p], "argument length equals the reference tokenizer");
    if (lens[p] != rlens[p]) return;
    for (uint64_t k = 0; k < rlens[p]; k++) if (bytes[off + k] != rbytes[off + k]) ok = 0;
    off += rlens[p];
  }
  ASSERT(ok, "argument bytes equal the reference tokenizer");
}
