/* C08: split(s, delim, max_splits) laws. LEN = concrete length of s (cell); bytes of s (all 256 values), delim and
 * max_splits in [0, LEN+1] symbolic.
 * MODE 0: pieces of phosg split, glued by a reference join written here, reproduce s; piece count == min(#delim, max_splits
 *         or inf) + 1; no piece but the last contains delim, the last only when max_splits stopped the splitting.
 * MODE 1: phosg join(phosg split(s, d, m), d) == s  (the law as stated in the property, with phosg's own join). */
#include "harness.h"
int64_t w_split(uint8_t* s, uint64_t n, uint8_t delim, uint64_t max_splits, uint64_t* lens, uint64_t max_pieces, uint8_t* bytes, uint64_t cap);
int64_t w_split_join(uint8_t* s, uint64_t n, uint8_t delim, uint64_t max_splits, uint8_t* out, uint64_t cap);

#define MAXP (LEN + 2)
void harness(void) {
  uint8_t s[LEN + 1];
  in_bytes(s, LEN);
  uint8_t d = in_u8();
  uint64_t m = in_range(0, LEN + 1);
  uint64_t nd = 0;
  for (int i = 0; i < LEN; i++) nd += (s[i] == d);
#if MODE == 0
  uint64_t lens[MAXP];
  uint8_t bytes[LEN + 1];
  int64_t r = w_split(s, LEN, d, m, lens, MAXP, bytes, LEN + 1);
  OBS(r);
  uint64_t want = ((m != 0 && nd > m) ? m : nd) + 1;
  ASSERT(r == (int64_t)want, "piece count == min(#delimiters, max_splits or unlimited) + 1");
  if (r != (int64_t)want) return;
  /* reference join: pieces separated by d must spell s exactly */
  uint64_t pos = 0, off = 0;
  int ok = 1;
  for (uint64_t p = 0; p < want && ok; p++) {
    uint64_t pl = lens[p];
    OBS(pl);
    if (p > 0) {
      if (pos < LEN && s[pos] == d) pos++; else ok = 0;
    }
    if (pl > LEN - pos) { ok = 0; break; }
    for (uint64_t k = 0; k < pl; k++) {
      if (bytes[off + k] != s[pos + k]) ok = 0;
      int stopped = (m != 0 && want == m + 1 && p == want - 1);
      if (!stopped) ASSERT(bytes[off + k] != d, "a piece contains the delimiter although max_splits did not stop the splitting");
    }
    pos += pl; off += pl;
  }
  ASSERT(ok && pos == LEN, "pieces joined with the delimiter (reference join) reproduce the string");
#else
  uint8_t out[LEN + 2];
  int64_t r = w_split_join(s, LEN, d, m, out, LEN + 2);
  OBS(r);
  ASSERT(r == LEN, "join(split(s, d, m), d) has the length of s");
  if (r == LEN) for (int i = 0; i < LEN; i++) ASSERT(out[i] == s[i], "join(split(s, d, m), d) == s");
#endif
}
