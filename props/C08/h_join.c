/* C08: join(items, delim) / join(items) against the definition: items in order, the delimiter between consecutive items
 * (also when items are empty), nothing before the first or after the last.
 * COUNT = number of items (cell), item lengths symbolic in [0,ML] (ML cell), bytes symbolic (all 256 values).
 * MODE 0: char delimiter; MODE 1: std::string delimiter of DN symbolic bytes (DN cell); MODE 2: join(items) without delimiter. */
#include "harness.h"
int64_t w_join(uint8_t* bytes, uint64_t* lens, uint64_t count, uint32_t mode, uint8_t* delim, uint64_t dn, uint8_t* out, uint64_t cap);
#ifndef DN
#define DN 1
#endif
#ifndef ML
#define ML 2
#endif
#define MAXB (ML * COUNT + 1)
#define CAP (ML * COUNT + (DN) * COUNT + 2)
void harness(void) {
  uint8_t bytes[MAXB], delim[DN + 1], out[CAP], ref[CAP];
  uint64_t lens[COUNT + 1];
  in_bytes(bytes, MAXB);
  in_bytes(delim, DN);
  for (int i = 0; i < COUNT; i++) lens[i] = in_range(0, ML);
  int64_t r = w_join(bytes, lens, COUNT, MODE, delim, DN, out, CAP);
  OBS(r);
  /* reference */
  uint64_t rn = 0, off = 0;
  for (int i = 0; i < COUNT; i++) {
    if (i > 0 && MODE != 2) for (int k = 0; k < DN; k++) ref[rn++] = delim[k];
    for (uint64_t k = 0; k < lens[i]; k++) ref[rn++] = bytes[off + k];
    off += lens[i];
  }
  ASSERT(r == (int64_t)rn, "join result has the reference length (one delimiter between every two consecutive items)");
  if (r == (int64_t)rn) for (uint64_t i = 0; i < rn; i++) ASSERT(out[i] == ref[i], "join result equals the reference");
}
