/* C08: strip_* templates against their plain definitions. LEN = concrete length (cell), bytes symbolic (all 256 values).
 * WHICH 0 strip_trailing_zeroes: drop every trailing NUL
 *       1 strip_trailing_whitespace / 2 strip_leading_whitespace / 3 strip_whitespace: drop space, tab, CR, LF at the end(s)
 *       4 strip_multiline_comments(allow_unterminated symbolic): remove every slash-star ... star-slash region but keep the
 *         newlines inside it; an unterminated comment runs to the end of the input and throws runtime_error unless allowed
 *         (the string has been stripped in place by then; the wrapper reports both). */
#include "harness.h"
int64_t w_strip(uint32_t which, uint8_t* s, uint64_t n, uint32_t flag, uint8_t* out, uint64_t cap, int64_t* threw);
static int is_ws(uint8_t c) { return c == ' ' || c == '\t' || c == '\r' || c == '\n'; }
void harness(void) {
  uint8_t s[LEN + 1], out[LEN + 1], ref[LEN + 1];
  in_bytes(s, LEN);
  uint32_t flag = in_bool();
  int64_t threw = 0;
  int64_t r = w_strip(WHICH, s, LEN, flag, out, LEN + 1, &threw);
  OBS(r); OBS(threw);
  uint64_t rn = 0; int64_t want_threw = 0;
#if WHICH == 0
  uint64_t e = LEN; while (e > 0 && s[e - 1] == 0) e--;
  for (uint64_t i = 0; i < e; i++) ref[rn++] = s[i];
#elif WHICH == 1
  uint64_t e = LEN; while (e > 0 && is_ws(s[e - 1])) e--;
  for (uint64_t i = 0; i < e; i++) ref[rn++] = s[i];
#elif WHICH == 2
  uint64_t b = 0; while (b < LEN && is_ws(s[b])) b++;
  for (uint64_t i = b; i < LEN; i++) ref[rn++] = s[i];
#elif WHICH == 3
  uint64_t b = 0; while (b < LEN && is_ws(s[b])) b++;
  uint64_t e = LEN; while (e > b && is_ws(s[e - 1])) e--;
  for (uint64_t i = b; i < e; i++) ref[rn++] = s[i];
#else
  int in_c = 0;
  for (uint64_t i = 0; i < LEN;) {
    if (!in_c && s[i] == '/' && i + 1 < LEN && s[i + 1] == '*') { in_c = 1; i += 2; }
    else if (in_c && s[i] == '*' && i + 1 < LEN && s[i + 1] == '/') { in_c = 0; i += 2; }
    else { if (!in_c || s[i] == '\n') ref[rn++] = s[i]; i++; }
  }
  if (in_c && !flag) want_threw = -5;
#endif
  ASSERT(threw == want_threw, "runtime_error exactly for an unterminated comment that is not allowed");
  ASSERT(r == (int64_t)rn, "stripped length equals the reference");
  if (r == (int64_t)rn) for (uint64_t i = 0; i < rn; i++) ASSERT(out[i] == ref[i], "stripped bytes equal the reference");
}
