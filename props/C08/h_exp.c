#include "harness.h"
int64_t w_split(uint8_t* s, uint64_t n, uint8_t delim, uint64_t max_splits, uint64_t* lens, uint64_t max_pieces, uint8_t* bytes, uint64_t cap);
#define MAXP (LEN + 2)
void harness(void) {
  uint8_t s[LEN + 1];
  uint8_t d = in_u8();
#if EXP == 0 /* all concrete */
  for (int i = 0; i < LEN; i++) s[i] = (i & 1) ? ',' : 'a';
  d = ',';
#elif EXP == 1 /* delimiter positions concrete by construction, other bytes symbolic but not comparable-foldable */
  for (int i = 0; i < LEN; i++) s[i] = (i & 1) ? d : in_u8();
  for (int i = 0; i < LEN; i++) if (!(i & 1)) ASSUME(s[i] != d);
#endif
  uint64_t m = 0;
  uint64_t lens[MAXP];
  uint8_t bytes[LEN + 1];
  int64_t r = w_split(s, LEN, d, m, lens, MAXP, bytes, LEN + 1);
  ASSERT(r >= 1, "x");
}
