// C08 wrappers: split / split_context / split_args / join / strip_* / starts_with / ends_with / toupper / tolower /
// str_replace_all / skip_* / string_printf (Strings.cc, Strings.hh). Wrappers only adapt types: std::string in from
// (ptr,len), std::string out into a flat buffer, std::vector<std::string> out as (count, lengths[], concatenated bytes).
#include "wrap.hh"
#include "Strings.cc"
#include <vector>
using namespace phosg;

static inline std::string w_str(const uint8_t* p, size_t n) {
  return std::string(reinterpret_cast<const char*>(p), n);
}

// pieces -> lens[0..count), bytes concatenated. returns count or W_CAPACITY
static inline int64_t w_copy_vec(const std::vector<std::string>& v, uint64_t* lens, size_t max_pieces, uint8_t* bytes, size_t cap) {
  if (v.size() > max_pieces) return W_CAPACITY;
  size_t off = 0;
  for (size_t i = 0; i < v.size(); i++) {
    const std::string& p = v[i];
    if (p.size() > cap - off) return W_CAPACITY;
    lens[i] = p.size();
    for (size_t k = 0; k < p.size(); k++) bytes[off + k] = static_cast<uint8_t>(p[k]);
    off += p.size();
  }
  return static_cast<int64_t>(v.size());
}

WEXPORT int64_t w_split(const uint8_t* s, size_t n, uint8_t delim, size_t max_splits, uint64_t* lens, size_t max_pieces, uint8_t* bytes, size_t cap) {
  try {
    return w_copy_vec(split(w_str(s, n), static_cast<char>(delim), max_splits), lens, max_pieces, bytes, cap);
  }
  W_CATCH_ALL
}
// join(split(s, d, m), d): the law of the property with phosg's own join
WEXPORT int64_t w_split_join(const uint8_t* s, size_t n, uint8_t delim, size_t max_splits, uint8_t* out, size_t cap) {
  try {
    char d = static_cast<char>(delim);
    return w_copy_out(join(split(w_str(s, n), d, max_splits), d), out, cap);
  }
  W_CATCH_ALL
}
WEXPORT int64_t w_split_context(const uint8_t* s, size_t n, uint8_t delim, size_t max_splits, uint64_t* lens, size_t max_pieces, uint8_t* bytes, size_t cap) {
  try {
    return w_copy_vec(split_context(w_str(s, n), static_cast<char>(delim), max_splits), lens, max_pieces, bytes, cap);
  }
  W_CATCH_ALL
}
WEXPORT int64_t w_split_context_join(const uint8_t* s, size_t n, uint8_t delim, size_t max_splits, uint8_t* out, size_t cap) {
  try {
    char d = static_cast<char>(delim);
    return w_copy_out(join(split_context(w_str(s, n), d, max_splits), d), out, cap);
  }
  W_CATCH_ALL
}
WEXPORT int64_t w_split_args(const uint8_t* s, size_t n, uint64_t* lens, size_t max_pieces, uint8_t* bytes, size_t cap) {
  try {
    return w_copy_vec(split_args(w_str(s, n)), lens, max_pieces, bytes, cap);
  }
  W_CATCH_ALL
}
// join of up to 3 items given as flat buffers; mode 0: join(items, char delim), 1: join(items, std::string delim of dn bytes),
// 2: join(items) without delimiter
WEXPORT int64_t w_join(const uint8_t* bytes, const uint64_t* lens, size_t count, uint32_t mode, const uint8_t* delim, size_t dn, uint8_t* out, size_t cap) {
  try {
    std::vector<std::string> items;
    size_t off = 0;
    for (size_t i = 0; i < count; i++) {
      items.emplace_back(reinterpret_cast<const char*>(bytes + off), lens[i]);
      off += lens[i];
    }
    if (mode == 0) {
      char d = static_cast<char>(delim[0]);
      return w_copy_out(join(items, d), out, cap);
    } else if (mode == 1) {
      std::string d = w_str(delim, dn);
      return w_copy_out(join(items, d), out, cap);
    }
    return w_copy_out(join(items), out, cap);
  }
  W_CATCH_ALL
}

// which: 0 strip_trailing_zeroes 1 strip_trailing_whitespace 2 strip_leading_whitespace 3 strip_whitespace
//        4 strip_multiline_comments(allow_unterminated = flag)
// For 4 the stripped string is copied out even when the function throws (it modifies in place before throwing):
// *threw reports the exception code (0 none).
WEXPORT int64_t w_strip(uint32_t which, const uint8_t* s, size_t n, uint32_t flag, uint8_t* out, size_t cap, int64_t* threw) {
  *threw = 0;
  try {
    std::string str = w_str(s, n);
    switch (which) {
      case 0: strip_trailing_zeroes(str); break;
      case 1: strip_trailing_whitespace(str); break;
      case 2: strip_leading_whitespace(str); break;
      case 3: strip_whitespace(str); break;
      default:
        try {
          strip_multiline_comments(str, flag != 0);
        } catch (const std::runtime_error&) {
          *threw = W_RUNTIME_ERROR;
        }
    }
    return w_copy_out(str, out, cap);
  }
  W_CATCH_ALL
}

WEXPORT int64_t w_starts_with(const uint8_t* s, size_t n, const uint8_t* p, size_t pn) {
  try { return starts_with(w_str(s, n), w_str(p, pn)) ? 1 : 0; }
  W_CATCH_ALL
}
WEXPORT int64_t w_ends_with(const uint8_t* s, size_t n, const uint8_t* p, size_t pn) {
  try { return ends_with(w_str(s, n), w_str(p, pn)) ? 1 : 0; }
  W_CATCH_ALL
}
WEXPORT int64_t w_toupper(const uint8_t* s, size_t n, uint8_t* out, size_t cap) {
  try { return w_copy_out(phosg::toupper(w_str(s, n)), out, cap); }
  W_CATCH_ALL
}
WEXPORT int64_t w_tolower(const uint8_t* s, size_t n, uint8_t* out, size_t cap) {
  try { return w_copy_out(phosg::tolower(w_str(s, n)), out, cap); }
  W_CATCH_ALL
}
// target / replacement are NUL-terminated C strings (the API takes const char*)
WEXPORT int64_t w_replace_all(const uint8_t* s, size_t n, const uint8_t* target, const uint8_t* repl, uint8_t* out, size_t cap) {
  try {
    return w_copy_out(str_replace_all(w_str(s, n), reinterpret_cast<const char*>(target), reinterpret_cast<const char*>(repl)), out, cap);
  }
  W_CATCH_ALL
}
// which: 0 skip_whitespace 1 skip_non_whitespace 2 skip_word; cstr: 0 = std::string overload (s,n), 1 = const char* overload
// (s must be NUL-terminated at s[n])
WEXPORT int64_t w_skip(uint32_t which, uint32_t cstr, const uint8_t* s, size_t n, size_t offset) {
  try {
    if (cstr) {
      const char* c = reinterpret_cast<const char*>(s);
      switch (which) {
        case 0: return static_cast<int64_t>(skip_whitespace(c, offset));
        case 1: return static_cast<int64_t>(skip_non_whitespace(c, offset));
        default: return static_cast<int64_t>(skip_word(c, offset));
      }
    } else {
      std::string str = w_str(s, n);
      switch (which) {
        case 0: return static_cast<int64_t>(skip_whitespace(str, offset));
        case 1: return static_cast<int64_t>(skip_non_whitespace(str, offset));
        default: return static_cast<int64_t>(skip_word(str, offset));
      }
    }
  }
  W_CATCH_ALL
}
// string_printf: the conversion itself is vasprintf / vsnprintf (environment); the harness supplies contract models and
// checks the wrapper logic around them (length returned = bytes copied incl. NULs, NULL => bad_alloc, buffer freed)
WEXPORT int64_t w_string_printf(uint32_t arg, uint8_t* out, size_t cap) {
  try {
    return w_copy_out(string_printf("%u", arg), out, cap);
  }
  W_CATCH_ALL
}
// the same, but only the size and ONE byte of the result leave the wrapper (long results are checked at one symbolic
// position; copying 4 KiB out through a loop doubles the cost of the query)
WEXPORT int64_t w_string_printf_at(uint32_t arg, size_t idx, uint8_t* byte) {
  try {
    std::string r = string_printf("%u", arg);
    if (idx < r.size()) *byte = static_cast<uint8_t>(r[idx]);
    return static_cast<int64_t>(r.size());
  }
  W_CATCH_ALL
}
