/* C08: string_printf / string_vprintf. The conversion itself IS vasprintf (environment), so only the phosg logic around it
 * is decidable: the returned std::string consists of exactly the `length` bytes vasprintf produced (embedded NULs kept,
 * nothing read beyond them), the malloc'ed buffer is freed exactly once (CBMC --memory-leak-check / ASan natively), the
 * format and the arguments are passed through unchanged, and a NULL result becomes bad_alloc.
 * vasprintf is a CONTRACT stub: LEN (cell) symbolic bytes in a malloc'ed buffer of LEN+1 bytes, or (FAIL=1) NULL and -1. */
#include <stdarg.h>
#include <stdlib.h>
#include "harness.h"
int64_t w_string_printf(uint32_t arg, uint8_t* out, uint64_t cap);
static uint8_t produced[LEN + 1];
static uint32_t seen_arg, calls, fmt_ok;
#ifdef VERIF_NATIVE_REAL
int vasprintf(char** outp, const char* fmt, va_list va_in) {
  va_list va; va_copy(va, va_in);
#else
uint32_t X_vasprintf(uint8_t* outp_, uint8_t* fmt_, uint8_t* va_) {
  char** outp = (char**)outp_; const char* fmt = (const char*)fmt_;
  va_list va; va_copy(va, *(va_list*)va_);
#endif
  calls++;
  fmt_ok = fmt[0] == '%' && fmt[1] == 'u' && fmt[2] == 0;
  seen_arg = va_arg(va, unsigned int);
  va_end(va);
#if FAIL
  *outp = 0;
  return -1;
#else
  char* buf = (char*)malloc(LEN + 1);
#ifdef VERIF_CBMC
  __CPROVER_assume(buf != 0);
#endif
  for (int i = 0; i < LEN; i++) buf[i] = (char)(produced[i] = in_u8());
  buf[LEN] = 0;
  *outp = buf;
  return LEN;
#endif
}
void harness(void) {
  uint8_t out[LEN + 1];
  uint32_t arg = in_u32();
  int64_t r = w_string_printf(arg, out, LEN + 1);
  OBS(r);
  ASSERT(calls == 1 && fmt_ok && seen_arg == arg, "format and argument reach vasprintf unchanged, exactly one call");
#if FAIL
  ASSERT(r == -6, "NULL from vasprintf becomes bad_alloc");
#else
  ASSERT(r == LEN, "result length == length returned by vasprintf");
  if (r == LEN) for (int i = 0; i < LEN; i++) ASSERT(out[i] == produced[i], "result bytes == bytes produced by vasprintf (embedded NULs kept)");
#endif
}
