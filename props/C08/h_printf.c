/* C08: string_printf / string_vprintf. The conversion itself IS the libc printf family (environment), so what is decidable
 * is the phosg logic around it: the returned std::string consists of exactly the n bytes the formatter produced (embedded
 * NULs kept, nothing lost at an internal buffer boundary, nothing read beyond them), a malloc'ed vasprintf buffer is freed
 * exactly once (CBMC --memory-leak-check / ASan natively), the format and the arguments reach every formatter call
 * unchanged, and a NULL result of vasprintf becomes bad_alloc.
 *
 * Environment = CONTRACT model of the two libc entry points an implementation may use, both backed by the same
 * harness-owned "formatted output" F[0..LEN) (LEN = cell, bytes symbolic incl. NUL):
 *   vsnprintf(buf, size, fmt, va): stores min(LEN, size-1) bytes of F and a NUL when size > 0 (buf may be NULL when
 *                                  size == 0), touches nothing else, returns LEN                       [C99 7.19.6.12]
 *   vasprintf(&p, fmt, va):        p = malloc(LEN+1) holding F and a NUL, returns LEN; FAIL=1: p = NULL, returns -1
 * (/repo HEAD calls only vasprintf; the vsnprintf model exists so that an implementation with a fixed-size first attempt
 * is decided instead of reported as "unmodelled external".)
 * Checked: size() == LEN and ONE symbolic index i < LEN with result[i] == F[i] (any wrong byte is some i); only size and that byte leave the wrapper. */
#include <stdarg.h>
#include <stdlib.h>
#include "harness.h"
int64_t w_string_printf_at(uint32_t arg, uint64_t idx, uint8_t* byte);
static uint64_t W[LEN / 8 + 1]; /* F packed: F[i] = byte i%8 of W[i/8] */
#define F(i) ((uint8_t)(W[(i) >> 3] >> (8 * ((i) & 7))))
static uint32_t want_arg, calls, va_calls, bad_calls;
static void see(const char* fmt, va_list va) {
  calls++;
  if (!(fmt[0] == '%' && fmt[1] == 'u' && fmt[2] == 0)) bad_calls++;
  if (va_arg(va, unsigned int) != want_arg) bad_calls++;
}
#ifdef VERIF_NATIVE_REAL
int vasprintf(char** outp, const char* fmt, va_list va_in) {
  va_list va; va_copy(va, va_in);
#else
uint32_t X_vasprintf(uint8_t* outp_, uint8_t* fmt_, uint8_t* va_) {
  char** outp = (char**)outp_; const char* fmt = (const char*)fmt_;
  va_list va; va_copy(va, *(va_list*)va_);
#endif
  see(fmt, va);
  va_end(va);
  va_calls++;
#if FAIL
  *outp = 0;
  return -1;
#else
  char* buf = (char*)malloc(LEN + 1);
#ifdef VERIF_CBMC
  __CPROVER_assume(buf != 0);
#endif
  for (int i = 0; i < LEN; i++) buf[i] = (char)F(i);
  buf[LEN] = 0;
  *outp = buf;
  return LEN;
#endif
}
#ifdef VERIF_NATIVE_REAL
int vsnprintf(char* buf, size_t size, const char* fmt, va_list va_in) {
  va_list va; va_copy(va, va_in);
#else
uint32_t X_vsnprintf(uint8_t* buf_, uint64_t size, uint8_t* fmt_, uint8_t* va_) {
  char* buf = (char*)buf_; const char* fmt = (const char*)fmt_;
  va_list va; va_copy(va, *(va_list*)va_);
#endif
  see(fmt, va);
  va_end(va);
  if (size > 0) {
    uint64_t k = (uint64_t)LEN < size - 1 ? (uint64_t)LEN : size - 1;
    for (int i = 0; i < LEN; i++) if ((uint64_t)i < k) buf[i] = (char)F(i);
    buf[k] = 0;
  }
  return LEN;
}
void harness(void) {
  /* the decisive inputs first, then F packed 8 bytes per input word, LAST word first (the replay vector holds 512 words:
   * for LEN = 4097 the three words lost are F[0..23], not the bytes at the end) */
  uint64_t idx = in_range(0, LEN ? LEN - 1 : 0);
  uint32_t arg = in_u32();
  for (int w = (LEN + 7) / 8 - 1; w >= 0; w--) W[w] = in_u64();
  want_arg = arg;
  uint8_t got = 0;
  int64_t r = w_string_printf_at(arg, idx, &got);
  OBS(r);
  ASSERT(calls >= 1 && bad_calls == 0, "format and argument reach every formatter call unchanged, at least one call");
  ASSERT(va_calls <= 1, "at most one vasprintf call");
#if FAIL
  if (va_calls) { ASSERT(r == -6, "NULL from vasprintf becomes bad_alloc"); return; }
#endif
  ASSERT(r == LEN, "result length == length returned by the formatter");
#if LEN > 0
  OBS(got);
  if (r == LEN) ASSERT(got == F(idx), "result bytes == bytes the formatter produced (embedded NULs kept, every position)");
#endif
}
