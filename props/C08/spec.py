ID = 'C08'
# same wrapper TU, different operator-new block sizes (a vector<string> of k pieces needs 32*pow2ceil(k) bytes)
SSO = dict(wrap='wrap.cc', cxxflags=['-fno-inline'], cuts=['basic_stringIcSt11char_traitsIcESaIcEE9_M_createERmm$'], extra_c=['sso_bound.c'])
UNITS = {'str64': dict(SSO, new_block=64), 'str128': dict(SSO, new_block=128), 'str256': dict(SSO, new_block=256)}
BOUNDS = ''
STUBS = []
OUTSIDE = []
ASSUMPTIONS = []
FAST = ['--max-field-sensitivity-array-size', '16']


def vec_unit(pieces):
    return 'str64' if pieces <= 2 else 'str128' if pieces <= 4 else 'str256'


def queries(tier):
    qs = []
    for L in ([0, 1, 2, 3] if tier == 'quick' else [0, 1, 2, 3, 4, 5]):
        for mode in (0, 1):
            qs.append(dict(name='split_%s_len%d' % (('laws', 'join')[mode], L), unit=vec_unit(L + 1), harness='h_split.c', defs={'LEN': L, 'MODE': mode},
                           unwind=L + 2, timeout=900, mem_gb=14, backend='cadical', flags=FAST,
                           desc='split on %d symbolic bytes, symbolic delimiter and max_splits' % L, bounds='len(s) == %d, all byte values, max_splits in [0,%d]' % (L, L + 1)))
    for e in (0,1):
        qs.append(dict(name='exp%d' % e, unit='str128', harness='h_exp.c', defs={'LEN': 2, 'EXP': e}, unwind=4, timeout=600, mem_gb=14, backend='cadical', flags=FAST))
    return qs
