ID = 'C08'
# Two encodings of the same wrapper TU (wrap.cc):
#  P*: fast.  -fno-inline keeps std::string::_M_create a function, which is cut and turned into a reported bound failure
#      (sso_bound.c: every std::string <= 15 bytes, i.e. inside the small-string buffer); operator new is the deterministic
#      pool allocator of rt_model.c (VERIF_NEW_POOL); translator options --ptrdiff/--flat-unions. All libstdc++ vector/string
#      code that runs for short strings is still the real code.
#  X*: exact. default inlining, CBMC malloc model for operator new, no cut. Only feasible for tiny cells; run as a cross-check
#      of the model bounds above.
OPT = ['--ptrdiff', '--flat-unions']
SSO = dict(wrap='wrap.cc', cxxflags=['-fno-inline'], cuts=['basic_stringIcSt11char_traitsIcESaIcEE9_M_createERmm$'], extra_c=['sso_bound.c'], ir2c_flags=OPT)
UNITS = {
    'P64': dict(SSO, new_block=64, gen_defs=['VERIF_NEW_POOL=8']),
    'P128': dict(SSO, new_block=128, gen_defs=['VERIF_NEW_POOL=8']),
    'P256': dict(SSO, new_block=256, gen_defs=['VERIF_NEW_POOL=8']),
    'X128': dict(wrap='wrap.cc', new_block=128, ir2c_flags=OPT),
    # L: long results of string_printf. No string-length cut (results up to 4097 bytes leave the small-string buffer), inlined
    # libstdc++, operator new = one fixed-size CBMC malloc block that holds the longest result + NUL.
    'L': dict(wrap='wrap.cc', new_block=4224, ir2c_flags=OPT),
    # R: as P plus the reserve-ahead vector growth model vec_reserve.c (used where pieces are pushed conditionally)
    'R': dict(SSO, new_block=64, gen_defs=['VERIF_NEW_POOL=8', 'VERIF_VEC_CAP=8'], extra_c=['sso_bound.c', 'vec_reserve.c'],
              cuts=SSO['cuts'] + ['^_ZNKSt6vectorINSt7__cxx1112basic_stringIcSt11char_traitsIcESaIcEEESaIS5_EE12_M_check_lenEmPKc$', '^_ZNKSt6vectorIcSaIcEE12_M_check_lenEmPKc$',
                                  '^_ZNSt12_Vector_baseINSt7__cxx1112basic_stringIcSt11char_traitsIcESaIcEEESaIS5_EE1[13]_M_(de)?allocateE', '^_ZNSt12_Vector_baseIcSaIcEE1[13]_M_(de)?allocateE']),
}
BOUNDS = ('every input string has a concrete length per query (case split): split / split_context / split_args 0..3 bytes quick, 0..5 / 0..4 / 0..5 thorough; '
          'join 0..3 items of 0..2 bytes; strip_* 0..4 (0..6); starts/ends_with strings 0..3 x prefixes 0..2 (0..4 x 0..3); toupper/tolower/skip_* 0..3 (0..5); '
          'str_replace_all: quick strings 0..4 in 9 (length, target, replacement) cells incl. the equal-length cells (2,1,1) (3,1,1) (3,2,2) (4,2,2); thorough every string length 0..4 x target 1..2 x replacement 0..2 bytes '
          'plus (5,2,0..2) (5,1,1) (6,2,2); one symbolic checked result position per query; '
          'string_printf formatted results of exactly 0,1,3 and 255,256,257 bytes quick; 0,1,2,3,5,8 and n-1,n,n+1 for n in 16,64,128,256,512,1024,4096 thorough (one symbolic checked position, all bytes of the formatted output symbolic). '
          'Bytes range over all 256 values (str_replace_all target/replacement: non-NUL), delimiters over all 256 values, '
          'max_splits over [0, len+1], flags symbolic. Every std::string <= 15 bytes in the P and R encodings (not in unit L used for the long string_printf results).')
STUBS = ['vasprintf and vsnprintf (h_printf.c): CONTRACT models backed by the same harness-owned formatted output F[0..LEN) of symbolic bytes: vsnprintf(buf,size) stores min(LEN,size-1) bytes + NUL when size > 0 and returns LEN; '
         'vasprintf returns F in a malloc(LEN+1) buffer (or NULL/-1 in the printf_null cell); both check that the format and the argument arrive unchanged. string_printf itself is only checked as the wrapper around them '
         '(/repo HEAD calls only vasprintf; vsnprintf failure (negative return) is not modelled)',
         'std::string::_M_create cut to a reported bound failure (sso_bound.c): strings longer than 15 bytes are outside the P and R encodings',
         'operator new/delete: deterministic pool allocator of engine/rt/rt_model.c (VERIF_NEW_POOL) - no use-after-delete detection in CBMC (ASan still checks the native replay)',
         'std::allocator<char> ctors/dtor as no-ops (sso_bound.c)',
         'R unit only (split_context, split_args): std::vector growth policy and storage replaced by the reserve-ahead model vec_reserve.c (first growth reserves 8 elements in a static block, second growth = bound failure); '
         '_M_realloc_insert/emplace_back/push_back/pop_back themselves are the real code',
         'libc ctype/mem/str functions: C-locale models in engine/rt/rt_model.c (toupper, tolower, isblank, memchr, memcmp, strlen)']
OUTSIDE = ['strings longer than the stated lengths (the property text quantifies up to 4 KiB / 1 MiB): measured wall - split 5 bytes ~2-4 min, split_args 3 bytes 150 s, split_context 2 bytes 37 s',
           'the std::wstring overload of split (identical template text, instantiation not encoded)',
           'the formatting done by vasprintf/vsnprintf themselves (string_printf is a thin wrapper); formatted results longer than 4097 bytes and lengths between the boundary triples (the property text quantifies up to 1 MiB): '
           'an internal buffer whose size is not one of 16,64,128,256,512,1024,4096 is not probed at its boundary; 4096-byte cell ~80 s idle / 4-5 min on a loaded machine, 3.8 GB',
           'str_replace_all strings of 5 bytes with a 1-byte target and replacement length 0 or 2 (measured 178 s / 236 s, dropped for the thorough budget), strings above 6 bytes, targets above 2 bytes, NUL inside target/replacement (C strings)',
           'split_args: an empty quoted region alone ("") produces no argument, unlike POSIX sh; the reference follows phosg here (not demanded by the property text), see NOTES.md',
           'exact (unmodelled-growth, CBMC-malloc) encoding beyond split on 2 bytes: no verdict within 14 GB']
ASSUMPTIONS = ['references to vector elements are not kept across push_back by the code under test (reserve-ahead vector model, R unit)']
FS = ['--max-field-sensitivity-array-size', '256']
FS0 = ['--max-field-sensitivity-array-size', '0']  # str_replace_all: half the memory of 256 (symbolic offsets into the 16-byte string buffers)


def punit(pieces):
    """vector<string> of k pieces needs a 32*pow2ceil(k) byte block"""
    return 'P64' if pieces <= 2 else 'P128' if pieces <= 4 else 'P256'


def Q(name, unit, harness, defs, unwind, desc, bounds, timeout=900, mem_gb=6, **kw):
    d = dict(name=name, unit=unit, harness=harness, defs=defs, unwind=unwind, timeout=timeout, mem_gb=mem_gb, flags=FS, desc=desc, bounds=bounds)
    d.update(kw)
    return d


def queries(tier):
    quick = tier == 'quick'
    qs = []
    for L in ([0, 1, 2, 3] if quick else [0, 1, 2, 3, 4, 5]):
        for mode in (0, 1):
            qs.append(Q('split_%s_len%d' % (('laws', 'join')[mode], L), punit(L + 1), 'h_split.c', {'LEN': L, 'MODE': mode}, L + 2,
                        'split on %d symbolic bytes, symbolic delimiter and max_splits: ' % L + ('piece count, pieces spell s (reference join), delimiter-free pieces' if mode == 0 else 'phosg join(split(s,d,m),d) == s'),
                        'len(s) == %d, all byte values, all delimiters, max_splits in [0,%d]' % (L, L + 1)))
    for L in ([1] if quick else [1, 2]):
        qs.append(Q('split_laws_exact_len%d' % L, 'X128', 'h_split.c', {'LEN': L, 'MODE': 0}, L + 2, 'as split_laws, exact encoding (CBMC malloc, inlined libstdc++, no string-length cut)',
                    'len(s) == %d' % L, backend='cadical', mem_gb=10))
    for L in ([0, 1, 2] if quick else [0, 1, 2, 3, 4]):
        for mode in (0, 1):
            if mode == 1 and L == 4:
                continue
            qs.append(Q('splitctx_%s_len%d' % (('ref', 'join')[mode], L), 'R', 'h_splitctx.c', {'LEN': L, 'MODE': mode}, L + 2,
                        'split_context on %d symbolic bytes, symbolic delimiter and max_splits vs reference bracket/quote scanner: ' % L + ('exact pieces / runtime_error iff unbalanced' if mode == 0 else 'phosg join inverts it when accepted'),
                        'len(s) == %d, all byte values, all delimiters, max_splits in [0,%d]' % (L, L + 1)))
    # concrete-prefix cells of length 4: an opening quote followed by a backslash, then two symbolic bytes (escape handling inside quoted strings)
    for q0, nm in ((34, 'dq'), (39, 'sq')):
        qs.append(Q('splitctx_ref_len4_pfx_%s_bs' % nm, 'R', 'h_splitctx.c', {'LEN': 4, 'MODE': 0, 'PFX0': q0, 'PFX1': 92}, 6,
                    'split_context on 4 bytes: quote %r, backslash, two symbolic bytes; symbolic delimiter and max_splits vs reference scanner' % chr(q0),
                    'len(s) == 4, first two bytes fixed'))
    for L in ([0, 1, 2] if quick else [0, 1, 2, 3, 4]):
        qs.append(Q('splitargs_len%d' % L, 'R', 'h_splitargs.c', {'LEN': L}, L + 2,
                    'split_args on %d symbolic bytes vs reference shell-style tokenizer: exact arguments / runtime_error iff incomplete escape or open quote' % L, 'len(s) == %d, all byte values' % L, mem_gb={3: 9, 4: 13}.get(L, 6)))  # since the split_args fix d9bec56: len 3 needs > 6 GB, len 4 > 9 GB
    names = ['trailing_zeroes', 'trailing_ws', 'leading_ws', 'ws', 'comments']
    for which in range(5):
        for L in ([0, 1, 2, 3, 4] if quick else [0, 1, 2, 3, 4, 5, 6]):
            qs.append(Q('strip_%s_len%d' % (names[which], L), 'P64', 'h_strip.c', {'WHICH': which, 'LEN': L}, max(L + 2, 6),  # strlen(" \\t\\r\\n") in find_*_not_of
                        'strip_%s on %d symbolic bytes equals the reference definition' % (names[which], L), 'len(s) == %d, all byte values' % L))
    for which, nm in ((0, 'starts_with'), (1, 'ends_with')):
        for L, P in ([(0, 0), (0, 1), (1, 1), (2, 1), (2, 2), (1, 2), (3, 2)] if quick else [(l, p) for l in range(0, 5) for p in range(0, 4)]):
            qs.append(Q('%s_len%d_p%d' % (nm, L, P), 'P64', 'h_misc.c', {'WHICH': which, 'LEN': L, 'PL': P}, max(L, P) + 2, nm + ' vs reference', 'len(s) == %d, len(prefix) == %d, all byte values' % (L, P)))
    for which, nm in ((2, 'toupper'), (3, 'tolower')):
        for L in ([0, 1, 3] if quick else [0, 1, 2, 3, 4, 5]):
            qs.append(Q('%s_len%d' % (nm, L), 'P64', 'h_misc.c', {'WHICH': which, 'LEN': L}, L + 2, nm + ' vs reference', 'len(s) == %d, all byte values' % L))
    # equal-length target/replacement cells (3,2,2) (4,2,2): an in-place implementation that rescans replaced text needs len >= 3, target 2
    for L, T, R in ([(0, 1, 1), (1, 1, 0), (2, 1, 1), (2, 1, 2), (2, 2, 1), (3, 2, 0), (3, 1, 1), (3, 2, 2), (4, 2, 2)] if quick
                    else [(l, t, r) for l in range(0, 5) for t in (1, 2) for r in (0, 1, 2)] + [(5, 2, 0), (5, 2, 1), (5, 2, 2), (5, 1, 1), (6, 2, 2)]):  # (5,1,0) 178 s, (5,1,2) 236 s: dropped (budget)
        qs.append(Q('replace_len%d_t%d_r%d' % (L, T, R), 'P64', 'h_misc.c', {'WHICH': 4, 'LEN': L, 'TL': T, 'RL': R}, max(L, 2, (L // T) * R + L % T) + 2, 'str_replace_all vs reference',  # longest loop: copy of the longest result
                    'len(s) == %d, target %d bytes, replacement %d bytes (non-NUL), all byte values' % (L, T, R), flags=FS0))
    for which, nm in ((5, 'skip_whitespace'), (6, 'skip_non_whitespace'), (7, 'skip_word')):
        for L in ([0, 1, 3] if quick else [0, 1, 2, 3, 4, 5]):
            qs.append(Q('%s_len%d' % (nm, L), 'P64', 'h_misc.c', {'WHICH': which, 'LEN': L}, L + 2, nm + ' (std::string and const char* overloads) vs reference',
                        'len(s) == %d, all byte values, offset in [0, length]' % L))
    for L in ([0, 1, 3] if quick else [0, 1, 2, 3, 5, 8]):
        qs.append(Q('printf_len%d' % L, 'P64', 'h_printf.c', {'LEN': L, 'FAIL': 0}, L + 10, 'string_printf wrapper logic around the contract vsnprintf/vasprintf producing %d symbolic bytes' % L,
                    'formatted result of %d bytes (any values incl. NUL)' % L, flags=FS + ['--memory-leak-check']))
    # boundary lengths around plausible internal buffer sizes (powers of two), unit L (no 15-byte cut)
    for L in ([255, 256, 257] if quick else [15, 16, 17, 63, 64, 65, 127, 128, 129, 255, 256, 257, 511, 512, 513, 1023, 1024, 1025, 4095, 4096, 4097]):
        qs.append(Q('printf_len%d' % L, 'L', 'h_printf.c', {'LEN': L, 'FAIL': 0}, L + 10, 'string_printf wrapper logic around the contract vsnprintf/vasprintf producing %d symbolic bytes' % L,
                    'formatted result of %d bytes (any values incl. NUL), one symbolic checked position' % L, flags=FS + ['--memory-leak-check'],
                    mem_gb=6))  # 4096 bytes: 3.8 GB
    qs.append(Q('printf_null', 'P64', 'h_printf.c', {'LEN': 1, 'FAIL': 1}, 11, 'vasprintf yields NULL => bad_alloc', 'vasprintf failure'))
    jc = [(0, 2, 0, 1), (1, 2, 0, 1), (1, 2, 2, 1), (2, 2, 0, 1), (2, 2, 1, 2), (2, 2, 2, 1), (3, 1, 0, 1)]
    if not quick:
        jc += [(3, 2, 0, 1), (3, 1, 1, 2), (3, 1, 2, 1)]  # 4 items: no verdict in 900 s
    for C, ml, mode, dn in jc:
        qs.append(Q('join_%s_n%d_l%d' % (('char', 'str%d' % dn, 'nodelim')[mode], C, ml), punit(C), 'h_join.c', {'COUNT': C, 'ML': ml, 'MODE': mode, 'DN': dn}, ml * C + dn * C + 3,
                    'join of %d items (lengths symbolic 0..%d, symbolic bytes) equals the reference concatenation' % (C, ml), '%d items of 0..%d bytes, delimiter %s' % (C, ml, ('1 char', '%d-byte string' % dn, 'none')[mode])))
    return qs
