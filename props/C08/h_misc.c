/* C08: starts_with / ends_with / toupper / tolower / str_replace_all / skip_* against their plain definitions.
 * LEN = concrete length of s (cell), bytes symbolic (all 256 values).
 * WHICH 0 starts_with, 1 ends_with: prefix/suffix of PL symbolic bytes (PL cell, may exceed LEN)
 *       2 toupper, 3 tolower: ASCII letters mapped, every other byte (incl. >= 0x80 and NUL) unchanged
 *       4 str_replace_all(s, target, replacement): target of TL in {1,2} non-NUL symbolic bytes, replacement of RL in {0,1,2}
 *         non-NUL symbolic bytes (C strings); leftmost non-overlapping occurrences OF THE ORIGINAL STRING replaced, scan resumes
 *         after the match, replaced text is never rescanned; result length + ONE symbolic result position compared
 *       5 skip_whitespace, 6 skip_non_whitespace, 7 skip_word (= skip_whitespace(skip_non_whitespace)); both the std::string and
 *         the const char* overload (symbolic choice), offset symbolic in [0, length]; for the C-string overload the string
 *         ends at its first NUL. */
#include "harness.h"
int64_t w_starts_with(uint8_t* s, uint64_t n, uint8_t* p, uint64_t pn);
int64_t w_ends_with(uint8_t* s, uint64_t n, uint8_t* p, uint64_t pn);
int64_t w_toupper(uint8_t* s, uint64_t n, uint8_t* out, uint64_t cap);
int64_t w_tolower(uint8_t* s, uint64_t n, uint8_t* out, uint64_t cap);
int64_t w_replace_all(uint8_t* s, uint64_t n, uint8_t* target, uint8_t* repl, uint8_t* out, uint64_t cap);
int64_t w_skip(uint32_t which, uint32_t cstr, uint8_t* s, uint64_t n, uint64_t offset);
#ifndef PL
#define PL 1
#endif
#ifndef TL
#define TL 1
#endif
#ifndef RL
#define RL 1
#endif
static int is_ws(uint8_t c) { return c == ' ' || c == '\t' || c == '\r' || c == '\n'; }
void harness(void) {
  uint8_t s[LEN + 1];
  in_bytes(s, LEN);
  s[LEN] = 0;
#if WHICH == 0 || WHICH == 1
  uint8_t p[PL + 1];
  in_bytes(p, PL);
  int want = PL <= LEN;
  if (want) for (int i = 0; i < PL; i++) if (p[i] != s[(WHICH == 0 ? 0 : LEN - PL) + i]) want = 0;
  int64_t r = WHICH == 0 ? w_starts_with(s, LEN, p, PL) : w_ends_with(s, LEN, p, PL);
  OBS(r);
  ASSERT(r == want, "starts_with/ends_with equals the reference comparison");
#elif WHICH == 2 || WHICH == 3
  uint8_t out[LEN + 1];
  int64_t r = WHICH == 2 ? w_toupper(s, LEN, out, LEN + 1) : w_tolower(s, LEN, out, LEN + 1);
  OBS(r);
  ASSERT(r == LEN, "case mapping keeps the length");
  if (r == LEN) for (int i = 0; i < LEN; i++) {
    uint8_t c = s[i], w = c;
    if (WHICH == 2 && c >= 'a' && c <= 'z') w = (uint8_t)(c - 32);
    if (WHICH == 3 && c >= 'A' && c <= 'Z') w = (uint8_t)(c + 32);
    ASSERT(out[i] == w, "ASCII letters are mapped, every other byte is unchanged");
  }
#elif WHICH == 4
#define CAP (LEN * 2 + 1)
  uint8_t t[TL + 1], rp[RL + 1], out[CAP], ref[CAP];
  in_bytes(t, TL); in_bytes(rp, RL);
  t[TL] = 0; rp[RL] = 0;
  for (int i = 0; i < TL; i++) ASSUME(t[i] != 0);
  for (int i = 0; i < RL; i++) ASSUME(rp[i] != 0);
  /* reference: left-to-right scan of the ORIGINAL string, non-overlapping occurrences, replaced text is never rescanned.
   * Constant loop bounds (the solver unwinds every loop to --unwind); `skip` = bytes of a matched target still to pass. */
  uint64_t rn = 0;
  int skip = 0;
  for (int i = 0; i < LEN; i++) {
    if (skip) { skip--; continue; }
    int hit = i + TL <= LEN;
    if (hit) for (int k = 0; k < TL; k++) if (s[i + k] != t[k]) hit = 0;
    if (hit) { for (int k = 0; k < RL; k++) ref[rn++] = rp[k]; skip = TL - 1; }
    else ref[rn++] = s[i];
  }
  uint64_t idx = in_range(0, CAP - 1); /* ONE symbolic checked position (any wrong byte is some idx) */
  int64_t r = w_replace_all(s, LEN, t, rp, out, CAP);
  OBS(r);
  ASSERT(r == (int64_t)rn, "replace-all result has the reference length");
  if (r == (int64_t)rn && idx < rn) ASSERT(out[idx] == ref[idx], "replace-all result equals the reference");
#else
  uint32_t cstr = in_bool();
  uint64_t n = LEN;
  if (cstr) { n = 0; while (n < LEN && s[n] != 0) n++; }
  uint64_t off = in_range(0, LEN);
  ASSUME(off <= n);
  uint64_t w = off;
  if (WHICH == 6 || WHICH == 7) while (w < n && !is_ws(s[w])) w++;
  if (WHICH == 5 || WHICH == 7) while (w < n && is_ws(s[w])) w++;
  int64_t r = w_skip(WHICH - 5, cstr, s, LEN, off);
  OBS(r);
  ASSERT(r == (int64_t)w, "skip_* returns the reference offset");
#endif
}
