/* C08: split_context(s, delim, max_splits) against an independent bracket/quote scanner written here.
 * LEN = concrete length of s (cell); bytes (all 256 values), delimiter and max_splits in [0, LEN+1] symbolic.
 * Definition used by the reference: reading left to right with a stack of expected closing characters,
 *   - a character equal to the expected closer on top of the stack closes that context (unless it is backslash-escaped
 *     inside a quoted string);
 *   - inside '...' or "..." nothing opens a context, a backslash escapes the next character;
 *   - outside quotes ( [ { < ' " open a context (closers ) ] } > ' ");
 *   - a delimiter is TOP-LEVEL iff it is met with an empty stack and is not itself an opener;
 *   - the input is accepted iff the stack is empty at the end, otherwise runtime_error.
 * MODE 0: result == the reference pieces (cut at the first min(#top-level delimiters, max_splits or all) top-level
 *         delimiters): count, every piece length and every byte; rejected <=> reference says unbalanced.
 * MODE 1: when accepted, phosg join(split_context(s, d, m), d) == s. */
#include "harness.h"
int64_t w_split_context(uint8_t* s, uint64_t n, uint8_t delim, uint64_t max_splits, uint64_t* lens, uint64_t max_pieces, uint8_t* bytes, uint64_t cap);
int64_t w_split_context_join(uint8_t* s, uint64_t n, uint8_t delim, uint64_t max_splits, uint8_t* out, uint64_t cap);

#define MAXP (LEN + 2)
static uint8_t closer_of(uint8_t c) {
  switch (c) { case '(': return ')'; case '[': return ']'; case '{': return '}'; case '<': return '>'; case '\'': return '\''; case '"': return '"'; default: return 0; }
}
void harness(void) {
  uint8_t s[LEN + 1];
  in_bytes(s, LEN);
#ifdef PFX0
  s[0] = PFX0; /* concrete-prefix cell: the first byte(s) fixed (branches on them fold), the rest symbolic */
#endif
#ifdef PFX1
  s[1] = PFX1;
#endif
  uint8_t d = in_u8();
  uint64_t m = in_range(0, LEN + 1);
  /* reference scan: top[i] = 1 iff s[i] is a top-level delimiter */
  uint8_t stack[LEN + 1], top[LEN + 1];
  int depth = 0, esc = 0;
  for (int i = 0; i < LEN; i++) {
    uint8_t c = s[i];
    top[i] = 0;
    int in_quote = depth > 0 && (stack[depth - 1] == '\'' || stack[depth - 1] == '"');
    if (depth > 0 && !esc && c == stack[depth - 1]) { depth--; continue; }
    if (in_quote) {
      if (esc) esc = 0; else if (c == '\\') esc = 1;
      continue;
    }
    esc = 0;
    if (closer_of(c)) stack[depth++] = closer_of(c);
    else if (depth == 0 && c == d) top[i] = 1;
  }
  int balanced = depth == 0;
#if MODE == 0
  uint64_t lens[MAXP];
  uint8_t bytes[LEN + 1];
  int64_t r = w_split_context(s, LEN, d, m, lens, MAXP, bytes, LEN + 1);
  OBS(r);
  if (!balanced) { ASSERT(r == -5, "unbalanced brackets/quotes are rejected with runtime_error"); return; }
  /* reference pieces: cut at the first K top-level delimiters */
  uint64_t cuts = 0, start = 0, off = 0;
  int ok = 1;
  for (int i = 0; i <= LEN; i++) {
    int cut_here = (i == LEN) || (top[i] && (m == 0 || cuts < m));
    if (!cut_here) continue;
    uint64_t want_len = (uint64_t)i - start;
    if ((int64_t)cuts < r) {
      OBS(lens[cuts]);
      ASSERT(lens[cuts] == want_len, "piece length equals the reference piece (cut exactly at top-level delimiters)");
      if (lens[cuts] == want_len) { for (uint64_t k = 0; k < want_len; k++) if (bytes[off + k] != s[start + k]) ok = 0; }
      off += lens[cuts];
    }
    cuts++; start = (uint64_t)i + 1;
  }
  ASSERT(r == (int64_t)cuts, "piece count == min(#top-level delimiters, max_splits or unlimited) + 1");
  ASSERT(ok, "piece bytes equal the reference pieces");
#else
  uint8_t out[LEN + 2];
  int64_t r = w_split_context_join(s, LEN, d, m, out, LEN + 2);
  OBS(r);
  if (!balanced) { ASSERT(r == -5, "unbalanced brackets/quotes are rejected with runtime_error"); return; }
  ASSERT(r == LEN, "join(split_context(s, d, m), d) has the length of s");
  if (r == LEN) for (int i = 0; i < LEN; i++) ASSERT(out[i] == s[i], "join(split_context(s, d, m), d) == s");
#endif
}
