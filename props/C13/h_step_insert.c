/* C13 inductive step, insert: ANY well-formed tree with N nodes (kd_step.h), ONE insert(pt, v) with symbolic
 * arguments. Post: the returned iterator is at the new entry, the representation invariant holds again, and the multiset
 * of entries is the pre-state multiset plus (pt, v) (checked through the entry tags, kd_step.h). Destructor afterwards. */
#define KS_HARNESS
#include "kd_step.h"
int64_t w_kds_insert(uint8_t* st, uint64_t n, uint8_t* a, int64_t* out);
void harness(void) {
  int64_t e[4]; uint8_t eb[4];
  ks_pre();
  ks_entry(e, eb, KS_G - 1);
  int64_t rc = w_kds_insert(st, N, eb, out);
  OBS(rc);
#ifndef VERIF_CBMC
  for (int i = 0; i < KS_NOUT; i++) OBS(out[i]);
#endif
  ASSERT(rc == 0, "no exception escapes insert / destruction");
  ASSERT(out[KS_RES] == 1, "insert returns an iterator at the new (point,value) entry");
  ASSERT_WF(out);
  ASSERT(out[KS_NODES] == N + 1, "insert adds exactly one node");
  /* N + 1 nodes, each carrying a distinct tag of 0..N with that tag's (point,value): all old entries and the new one, once each */
  ASSERT(ks_tags_ok(DUMP_LIST(out), e), "after insert the tree holds the previous entries plus the new entry, each exactly once");
}
