// C13 wrappers: KDTree<Vector2<int64_t>, int> driven by a script supplied by the harness; every observation goes back
// to the harness, which holds the brute-force multiset. std::deque is the fixed-capacity shim for the solver build and
// the real libstdc++ container for the native "real" build.
#include "wrap.hh"
#include "KDTree.hh"
#include "Vector.hh"
#include "kd_layout.h"
using namespace phosg;

typedef KDTree<Vector2<int64_t>, int> Tree;
typedef Vector2<int64_t> Pt;

// One wrapper per feature, so that each query carries less code. q = {qx, qy, lox, loy, hix, hiy}.
// The tree is destroyed on return in whatever state the script left it (including empty).
static void kd_build(Tree& t, const uint8_t* px, const uint8_t* py, const uint8_t* pv, size_t np,
    const uint8_t* ex, const uint8_t* ey, const uint8_t* ev, size_t ne, int64_t* out) {
  for (size_t i = 0; i < np; i++) {
    t.insert(Pt(px[i], py[i]), pv[i]);
  }
  for (size_t i = 0; i < ne; i++) {
    out[KD_ERASE + i] = t.erase(Pt(ex[i], ey[i]), ev[i]);
  }
  out[KD_SIZE] = static_cast<int64_t>(t.size());
}

// insert, erase, then exact lookups: at(q), exists(q)
WEXPORT int64_t w_kd_lookup(const uint8_t* px, const uint8_t* py, const uint8_t* pv, size_t np,
    const uint8_t* ex, const uint8_t* ey, const uint8_t* ev, size_t ne, const uint8_t* q, int64_t* out) {
  try {
    Tree t;
    kd_build(t, px, py, pv, np, ex, ey, ev, ne, out);
    Pt qp(q[0], q[1]);
    try {
      out[KD_AT] = 100 + t.at(qp);
    } catch (const std::out_of_range&) {
      out[KD_AT] = W_OUT_OF_RANGE;
    }
    out[KD_EXISTS] = t.exists(qp);
    return 0;
  }
  W_CATCH_ALL
}

// insert, erase, then box queries: exists(lo, hi), within(lo, hi)
WEXPORT int64_t w_kd_box(const uint8_t* px, const uint8_t* py, const uint8_t* pv, size_t np,
    const uint8_t* ex, const uint8_t* ey, const uint8_t* ev, size_t ne, const uint8_t* q, int64_t* out) {
  try {
    Tree t;
    kd_build(t, px, py, pv, np, ex, ey, ev, ne, out);
    Pt lo(q[2], q[3]), hi(q[4], q[5]);
    out[KD_EXISTS_BOX] = t.exists(lo, hi);
    try {
      auto r = t.within(lo, hi);
      out[KD_WITHIN_N] = (r.size() > np) ? W_CAPACITY : static_cast<int64_t>(r.size());
      for (size_t i = 0; i < np && i < r.size(); i++) {
        out[KD_WITHIN + i] = KD_CODE(r[i].first.x, r[i].first.y, r[i].second);
      }
    } catch (const std::out_of_range&) {
      out[KD_WITHIN_N] = W_OUT_OF_RANGE;
    }
    return 0;
  }
  W_CATCH_ALL
}

// insert, erase, then iteration begin()..end()
WEXPORT int64_t w_kd_iter(const uint8_t* px, const uint8_t* py, const uint8_t* pv, size_t np,
    const uint8_t* ex, const uint8_t* ey, const uint8_t* ev, size_t ne, const uint8_t* q, int64_t* out) {
  try {
    Tree t;
    kd_build(t, px, py, pv, np, ex, ey, ev, ne, out);
    size_t n = 0;
    auto it = t.begin();
    for (; n <= np && it != t.end(); n++) {
      out[KD_ITER + n] = KD_CODE(it->first.x, it->first.y, it->second);
      ++it;
    }
    out[KD_ITER_N] = (it != t.end()) ? W_CAPACITY : static_cast<int64_t>(n);
    return 0;
  }
  W_CATCH_ALL
}

// insert np points, then run the erase-while-iterating idiom of KDTreeTest: entries whose code is flagged in
// bit `code` of predmask is set are removed with erase_advance, the others are stepped over with ++.
WEXPORT int64_t w_kd_erase_iter(const uint8_t* px, const uint8_t* py, const uint8_t* pv, size_t np, uint32_t predmask,
    int64_t* out) {
  try {
    Tree t;
    for (size_t i = 0; i < np; i++) {
      t.insert(Pt(px[i], py[i]), pv[i]);
    }
    // every loop iteration consumes one entry (erased or stepped over), so np iterations must suffice; one extra
    // iteration is allowed so that a repeated visit is observable (loop bound stays concrete)
    size_t n = 0;
    auto it = t.begin();
    for (; n <= np && it != t.end(); n++) {
      int64_t code = KD_CODE(it->first.x, it->first.y, it->second);
      out[KDI_VIS + n] = code;
      if ((predmask >> code) & 1) {
        t.erase_advance(it);
      } else {
        ++it;
      }
    }
    out[KDI_VIS_N] = (it != t.end()) ? W_CAPACITY : static_cast<int64_t>(n);
    out[KDI_SIZE] = static_cast<int64_t>(t.size());
    n = 0;
    auto it2 = t.begin();
    for (; n <= np && it2 != t.end(); n++) {
      out[KDI_ITER + n] = KD_CODE(it2->first.x, it2->first.y, it2->second);
      ++it2;
    }
    out[KDI_ITER_N] = (it2 != t.end()) ? W_CAPACITY : static_cast<int64_t>(n);
    for (size_t i = 0; i < np; i++) {
      out[KDI_EXISTS + i] = t.exists(Pt(px[i], py[i]));
    }
    return 0;
  }
  W_CATCH_ALL
}

// 3-D tree: insert, erase, exact lookups (the split dimension cycles through three axes)
typedef KDTree<Vector3<int64_t>, int> Tree3;
typedef Vector3<int64_t> Pt3;
WEXPORT int64_t w_kd3_lookup(const uint8_t* px, const uint8_t* py, const uint8_t* pz, const uint8_t* pv, size_t np,
    const uint8_t* e, size_t ne, const uint8_t* q, int64_t* out) {
  try {
    Tree3 t;
    for (size_t i = 0; i < np; i++) {
      t.insert(Pt3(px[i], py[i], pz[i]), pv[i]);
    }
    for (size_t i = 0; i < ne; i++) {
      out[KD_ERASE + i] = t.erase(Pt3(e[4 * i], e[4 * i + 1], e[4 * i + 2]), e[4 * i + 3]);
    }
    out[KD_SIZE] = static_cast<int64_t>(t.size());
    Pt3 qp(q[0], q[1], q[2]);
    try {
      out[KD_AT] = 100 + t.at(qp);
    } catch (const std::out_of_range&) {
      out[KD_AT] = W_OUT_OF_RANGE;
    }
    out[KD_EXISTS] = t.exists(qp);
    return 0;
  }
  W_CATCH_ALL
}

// 3-D tree, remaining features (same scripts as the 2-D wrappers): e = {x, y, z, v} per erase call,
// q = {qx, qy, qz, lox, loy, loz, hix, hiy, hiz}; entry codes KD_CODE3.
static void kd3_build(Tree3& t, const uint8_t* px, const uint8_t* py, const uint8_t* pz, const uint8_t* pv, size_t np,
    const uint8_t* e, size_t ne, int64_t* out) {
  for (size_t i = 0; i < np; i++) {
    t.insert(Pt3(px[i], py[i], pz[i]), pv[i]);
  }
  for (size_t i = 0; i < ne; i++) {
    out[KD_ERASE + i] = t.erase(Pt3(e[4 * i], e[4 * i + 1], e[4 * i + 2]), e[4 * i + 3]);
  }
  out[KD_SIZE] = static_cast<int64_t>(t.size());
}

WEXPORT int64_t w_kd3_box(const uint8_t* px, const uint8_t* py, const uint8_t* pz, const uint8_t* pv, size_t np,
    const uint8_t* e, size_t ne, const uint8_t* q, int64_t* out) {
  try {
    Tree3 t;
    kd3_build(t, px, py, pz, pv, np, e, ne, out);
    Pt3 lo(q[3], q[4], q[5]), hi(q[6], q[7], q[8]);
    out[KD_EXISTS_BOX] = t.exists(lo, hi);
    try {
      auto r = t.within(lo, hi);
      out[KD_WITHIN_N] = (r.size() > np) ? W_CAPACITY : static_cast<int64_t>(r.size());
      for (size_t i = 0; i < np && i < r.size(); i++) {
        out[KD_WITHIN + i] = KD_CODE3(r[i].first.x, r[i].first.y, r[i].first.z, r[i].second);
      }
    } catch (const std::out_of_range&) {
      out[KD_WITHIN_N] = W_OUT_OF_RANGE;
    }
    return 0;
  }
  W_CATCH_ALL
}

WEXPORT int64_t w_kd3_iter(const uint8_t* px, const uint8_t* py, const uint8_t* pz, const uint8_t* pv, size_t np,
    const uint8_t* e, size_t ne, const uint8_t* q, int64_t* out) {
  try {
    Tree3 t;
    kd3_build(t, px, py, pz, pv, np, e, ne, out);
    size_t n = 0;
    auto it = t.begin();
    for (; n <= np && it != t.end(); n++) {
      out[KD_ITER + n] = KD_CODE3(it->first.x, it->first.y, it->first.z, it->second);
      ++it;
    }
    out[KD_ITER_N] = (it != t.end()) ? W_CAPACITY : static_cast<int64_t>(n);
    return 0;
  }
  W_CATCH_ALL
}
