// C13 wrappers: KDTree<Vector2<int64_t>, int> driven by a script supplied by the harness; every observation goes back
// to the harness, which holds the brute-force multiset. std::deque is the fixed-capacity shim for the solver build and
// the real libstdc++ container for the native "real" build.
#include "wrap.hh"
#include "KDTree.hh"
#include "Vector.hh"
#include "kd_layout.h"
using namespace phosg;

typedef KDTree<Vector2<int64_t>, int> Tree;
typedef Vector2<int64_t> Pt;

// insert np points, erase ne (point, value) pairs, then query. q = {qx, qy, lox, loy, hix, hiy}.
// The tree is destroyed on return (in whatever state the script left it, including empty).
WEXPORT int64_t w_kd_history(const uint8_t* px, const uint8_t* py, const uint8_t* pv, size_t np,
    const uint8_t* ex, const uint8_t* ey, const uint8_t* ev, size_t ne, const uint8_t* q, int64_t* out) {
  try {
    Tree t;
    for (size_t i = 0; i < np; i++) {
      t.insert(Pt(px[i], py[i]), pv[i]);
    }
    for (size_t i = 0; i < ne; i++) {
      out[KD_ERASE + i] = t.erase(Pt(ex[i], ey[i]), ev[i]);
    }
    out[KD_SIZE] = static_cast<int64_t>(t.size());
    Pt qp(q[0], q[1]), lo(q[2], q[3]), hi(q[4], q[5]);
    try {
      out[KD_AT] = 100 + t.at(qp);
    } catch (const std::out_of_range&) {
      out[KD_AT] = W_OUT_OF_RANGE;
    }
    out[KD_EXISTS] = t.exists(qp);
    out[KD_EXISTS_BOX] = t.exists(lo, hi);
    try {
      auto r = t.within(lo, hi);
      if (r.size() > KD_MAXP) {
        return W_CAPACITY;
      }
      out[KD_WITHIN_N] = static_cast<int64_t>(r.size());
      for (size_t i = 0; i < r.size(); i++) {
        out[KD_WITHIN + i] = KD_CODE(r[i].first.x, r[i].first.y, r[i].second);
      }
    } catch (const std::out_of_range&) {
      out[KD_WITHIN_N] = W_OUT_OF_RANGE;
    }
    size_t n = 0;
    for (auto it = t.begin(); it != t.end(); ++it) {
      if (n > KD_MAXP) {
        return W_CAPACITY;
      }
      out[KD_ITER + n] = KD_CODE(it->first.x, it->first.y, it->second);
      n++;
    }
    out[KD_ITER_N] = static_cast<int64_t>(n);
    return 0;
  }
  W_CATCH_ALL
}

// insert np points, then run the erase-while-iterating idiom of KDTreeTest: entries whose code is flagged in
// pred[KD_NCODES] are removed with erase_advance, the others are stepped over with ++.
WEXPORT int64_t w_kd_erase_iter(const uint8_t* px, const uint8_t* py, const uint8_t* pv, size_t np, const uint8_t* pred,
    int64_t* out) {
  try {
    Tree t;
    for (size_t i = 0; i < np; i++) {
      t.insert(Pt(px[i], py[i]), pv[i]);
    }
    size_t n = 0;
    for (auto it = t.begin(); it != t.end();) {
      if (n >= 2 * KD_MAXP) {
        return W_CAPACITY;
      }
      int64_t code = KD_CODE(it->first.x, it->first.y, it->second);
      out[KDI_VIS + n] = code;
      n++;
      if (pred[code]) {
        t.erase_advance(it);
      } else {
        ++it;
      }
    }
    out[KDI_VIS_N] = static_cast<int64_t>(n);
    out[KDI_SIZE] = static_cast<int64_t>(t.size());
    n = 0;
    for (auto it = t.begin(); it != t.end(); ++it) {
      if (n > KD_MAXP) {
        return W_CAPACITY;
      }
      out[KDI_ITER + n] = KD_CODE(it->first.x, it->first.y, it->second);
      n++;
    }
    out[KDI_ITER_N] = static_cast<int64_t>(n);
    for (size_t i = 0; i < np; i++) {
      out[KDI_EXISTS + i] = t.exists(Pt(px[i], py[i]));
    }
    return 0;
  }
  W_CATCH_ALL
}
