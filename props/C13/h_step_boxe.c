/* C13 inductive step, box existence query: ANY well-formed tree with N nodes (kd_step.h), exists(lo,hi)
 * for a symbolic half-open box with corners in {0..KS_G}^D (empty boxes, boxes missing the data and the
 * whole grid included) equals a linear scan; the tree is unchanged afterwards. */
#define KS_HARNESS
#include "kd_step.h"
int64_t w_kds_boxe(uint8_t* st, uint64_t n, uint8_t* a, int64_t* out);
static int64_t lo[4], hi[4];
static int in_box(const int64_t* p) {
  for (int d = 0; d < KS_D; d++) if (p[d] < lo[d] || p[d] >= hi[d]) return 0;
  return 1;
}
void harness(void) {
  uint8_t ab[8];
  ks_pre();
  ks_entry(lo, ab, KS_G);
  ks_entry(hi, ab + 3, KS_G); /* the value slots of lo/hi are unused */
  int64_t rc = w_kds_boxe(st, N, ab, out);
  OBS(rc);
#ifndef VERIF_CBMC
  for (int i = 0; i < KS_NOUT; i++) OBS(out[i]);
#endif
  ASSERT(rc == 0, "no exception escapes the box queries / destruction");
  int nbox = 0;
  for (int i = 0; i < N; i++) if (in_box(PRE_ENT(i))) nbox++;
  ASSERT(out[KS_RES] == (nbox > 0), "exists(lo,hi) agrees with a linear scan");
  ASSERT(ks_unchanged(out), "box queries leave the representation unchanged");
}
