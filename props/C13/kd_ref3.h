/* C13, 3-D history harnesses (KDTree<Vector3<int64_t>,int>): symbolic script + brute-force multiset, the 3-D twin of
 * kd_ref.h. Cell (concrete): P inserts, E erase calls. Symbolic: every inserted point (grid {0..G3-1}^3, duplicates and
 * shared coordinates on every axis), every value (0/1), every erase argument (hit or miss), the probe point and the
 * half-open query box with corners in {0..G3}^3. The wrapper destroys the tree in whatever state the script left it. */
#ifndef KD_REF3_H
#define KD_REF3_H
#include "harness.h"
#include "kd_layout.h"
#ifndef G3
#define G3 3
#endif
#define KD3_ARGS uint8_t* px, uint8_t* py, uint8_t* pz, uint8_t* pv, uint64_t np, uint8_t* e, uint64_t ne, uint8_t* q, int64_t* out
static uint8_t px[P + 1], py[P + 1], pz[P + 1], pv[P + 1], e[4 * E + 1], q[9];
static int64_t out[KD_NOUT];
static uint8_t alive[P + 1];
static int n_alive;

static int in_box(int i) { return px[i] >= q[3] && px[i] < q[6] && py[i] >= q[4] && py[i] < q[7] && pz[i] >= q[5] && pz[i] < q[8]; }
static int64_t code(int i) { return KD_CODE3(px[i], py[i], pz[i], pv[i]); }

static void kd3_inputs(void) {
  for (int i = 0; i < P; i++) { px[i] = (uint8_t)in_range(0, G3 - 1); py[i] = (uint8_t)in_range(0, G3 - 1); pz[i] = (uint8_t)in_range(0, G3 - 1); pv[i] = (uint8_t)in_range(0, 1); }
  for (int i = 0; i < E; i++) { e[4 * i] = (uint8_t)in_range(0, G3 - 1); e[4 * i + 1] = (uint8_t)in_range(0, G3 - 1); e[4 * i + 2] = (uint8_t)in_range(0, G3 - 1); e[4 * i + 3] = (uint8_t)in_range(0, 1); }
  /* straight-line: --unwind is P + 2 and applies to every loop */
  q[0] = (uint8_t)in_range(0, G3 - 1); q[1] = (uint8_t)in_range(0, G3 - 1); q[2] = (uint8_t)in_range(0, G3 - 1);
  q[3] = (uint8_t)in_range(0, G3); q[4] = (uint8_t)in_range(0, G3); q[5] = (uint8_t)in_range(0, G3);
  q[6] = (uint8_t)in_range(0, G3); q[7] = (uint8_t)in_range(0, G3); q[8] = (uint8_t)in_range(0, G3);
}

static void kd3_check_build(int64_t rc) {
  OBS(rc);
#ifndef VERIF_CBMC
  for (int i = 0; i < KD_NOUT; i++) OBS(out[i]);
#endif
  ASSERT(rc == 0, "no exception escapes insert/erase/queries/destruction");
  n_alive = P;
  for (int i = 0; i < P; i++) alive[i] = 1;
  for (int k = 0; k < E; k++) {
    int hit = -1;
    for (int i = 0; i < P; i++)
      if (hit < 0 && alive[i] && px[i] == e[4 * k] && py[i] == e[4 * k + 1] && pz[i] == e[4 * k + 2] && pv[i] == e[4 * k + 3]) hit = i;
    ASSERT(out[KD_ERASE + k] == (hit >= 0), "erase reports whether a matching (point,value) entry existed");
    if (hit >= 0) { alive[hit] = 0; n_alive--; }
  }
  ASSERT(out[KD_SIZE] == n_alive, "size() is the number of entries");
}

/* multiset equality of out[base .. base+cnt) with the surviving entries (restricted to the box if box != 0); the caller
 * has asserted that cnt equals the reference count */
static int kd3_multiset_ok(int base, int64_t cnt, int box) {
  int ok = 1;
  for (int i = 0; i < P; i++) {
    if (!alive[i] || (box && !in_box(i))) continue;
    int64_t c = code(i);
    int r = 0, o = 0;
    for (int j = 0; j < P; j++) {
      if (alive[j] && (!box || in_box(j)) && code(j) == c) r++;
      if (j < cnt && out[base + j] == c) o++;
    }
    if (r != o) ok = 0;
  }
  return ok;
}
#endif
