/* C13 inductive step, exact lookup: ANY well-formed tree with N nodes (kd_step.h), exists(pt) and at(pt)
 * for a symbolic probe point equal a linear scan; the tree is unchanged afterwards. */
#define KS_HARNESS
#include "kd_step.h"
int64_t w_kds_lookup(uint8_t* st, uint64_t n, uint8_t* a, int64_t* out);
void harness(void) {
  int64_t e[4]; uint8_t eb[4];
  ks_pre();
  ks_entry(e, eb, KS_G - 1);
  int64_t rc = w_kds_lookup(st, N, eb, out);
  OBS(rc);
#ifndef VERIF_CBMC
  for (int i = 0; i < KS_NOUT; i++) OBS(out[i]);
#endif
  ASSERT(rc == 0, "no exception escapes the lookups / destruction");
  int any = 0, val_ok = 0;
  for (int i = 0; i < N; i++) if (ks_same_pt(PRE_ENT(i), e)) { any = 1; if (out[KS_RES + 1] == 100 + PRE_ENT(i)[3] && out[KS_RES + 2] == i) val_ok = 1; }
  ASSERT(out[KS_RES] == any, "exists(pt) agrees with a linear scan");
  if (any) ASSERT(val_ok, "at(pt) returns the value of an entry stored at pt (value and tag of one pre-state entry at pt)");
  else ASSERT(out[KS_RES + 1] == -1, "at(pt) throws out_of_range when no entry is stored at pt");
  ASSERT(ks_unchanged(out), "lookups leave the representation unchanged");
}
