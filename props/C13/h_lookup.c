/* C13: insert P symbolic points, erase E symbolic (point,value) pairs, then exact lookup of a symbolic probe point. */
#include "kd_ref.h"
int64_t w_kd_lookup(KD_ARGS);
void harness(void) {
  kd_inputs();
  kd_check_build(w_kd_lookup(px, py, pv, P, ex, ey, ev, E, q, out));
  int any = 0, val_ok = 0;
  for (int i = 0; i < P; i++) if (alive[i] && px[i] == q[0] && py[i] == q[1]) { any = 1; if (out[KD_AT] == 100 + pv[i]) val_ok = 1; }
  ASSERT(out[KD_EXISTS] == any, "exists(pt) agrees with a linear scan");
  if (any) ASSERT(val_ok, "at(pt) returns the value of an entry stored at pt");
  else ASSERT(out[KD_AT] == -1, "at(pt) throws out_of_range when no entry is stored at pt");
}
