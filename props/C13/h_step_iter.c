/* C13 inductive step, iteration: ANY well-formed tree with N nodes (kd_step.h), begin()..end() visits
 * exactly the multiset of entries; the tree is unchanged afterwards. */
#define KS_HARNESS
#include "kd_step.h"
int64_t w_kds_iter(uint8_t* st, uint64_t n, int64_t* out);
void harness(void) {
  ks_pre();
  int64_t rc = w_kds_iter(st, N, out);
  OBS(rc);
#ifndef VERIF_CBMC
  for (int i = 0; i < KS_NOUT; i++) OBS(out[i]);
#endif
  ASSERT(rc == 0, "no exception escapes iteration / destruction");
  ASSERT(out[KS_RES] == N, "iteration visits size() entries");
  if (out[KS_RES] == N) ASSERT(ks_tags_ok(out + KS_RES + 1, KS_EF, N, (const int64_t*)0), "iteration yields every entry exactly once (N distinct pre-state tags, unchanged)");
  ASSERT(ks_unchanged(out), "iteration leaves the representation unchanged");
}
