/* C13, 3-D: KDTree<Vector3<int64_t>,int>: P symbolic points from the 2x2x2 grid {0,1}^3 with values {0,1} (ties on every
 * axis, duplicates), E symbolic erase(point,value) calls, then exact lookup of a symbolic probe point; destructor. */
#include "harness.h"
#include "kd_layout.h"
int64_t w_kd3_lookup(uint8_t* px, uint8_t* py, uint8_t* pz, uint8_t* pv, uint64_t np, uint8_t* e, uint64_t ne, uint8_t* q, int64_t* out);

void harness(void) {
  uint8_t px[P + 1], py[P + 1], pz[P + 1], pv[P + 1], e[4 * E + 1], q[3], alive[P + 1];
  int64_t out[KD_NOUT] = {0};
  for (int i = 0; i < P; i++) { px[i] = in_bool(); py[i] = in_bool(); pz[i] = in_bool(); pv[i] = in_bool(); }
  for (int i = 0; i < 4 * E; i++) e[i] = in_bool();
  q[0] = in_bool(); q[1] = in_bool(); q[2] = in_bool();
  int64_t rc = w_kd3_lookup(px, py, pz, pv, P, e, E, q, out);
  OBS(rc);
#ifndef VERIF_CBMC
  for (int i = 0; i < KD_NOUT; i++) OBS(out[i]);
#endif
  ASSERT(rc == 0, "no exception escapes insert/erase/queries/destruction");
  int n = P;
  for (int i = 0; i < P; i++) alive[i] = 1;
  for (int k = 0; k < E; k++) {
    int hit = -1;
    for (int i = 0; i < P; i++)
      if (hit < 0 && alive[i] && px[i] == e[4 * k] && py[i] == e[4 * k + 1] && pz[i] == e[4 * k + 2] && pv[i] == e[4 * k + 3]) hit = i;
    ASSERT(out[KD_ERASE + k] == (hit >= 0), "erase reports whether a matching (point,value) entry existed");
    if (hit >= 0) { alive[hit] = 0; n--; }
  }
  ASSERT(out[KD_SIZE] == n, "size() is the number of entries");
  int any = 0, val_ok = 0;
  for (int i = 0; i < P; i++) if (alive[i] && px[i] == q[0] && py[i] == q[1] && pz[i] == q[2]) { any = 1; if (out[KD_AT] == 100 + pv[i]) val_ok = 1; }
  ASSERT(out[KD_EXISTS] == any, "exists(pt) agrees with a linear scan");
  if (any) ASSERT(val_ok, "at(pt) returns the value of an entry stored at pt");
  else ASSERT(out[KD_AT] == -1, "at(pt) throws out_of_range when no entry is stored at pt");
}
