/* C13: shared part of the history harnesses: symbolic script + brute-force multiset (plain C, independent of phosg).
 * Cell (concrete): P = number of inserts, E = number of erase calls. Symbolic: every inserted point (3x3 grid, duplicates
 * and shared coordinates allowed), every value (0/1, so identical (point,value) entries occur), every erase argument
 * (may or may not match), the probe point and the query box [lo,hi) with corners in 0..3 (covers empty boxes, boxes
 * outside the data, and the whole grid). The wrapper destroys the tree in whatever state the script left it. */
#ifndef KD_REF_H
#define KD_REF_H
#include "harness.h"
#include "kd_layout.h"
#define KD_ARGS uint8_t* px, uint8_t* py, uint8_t* pv, uint64_t np, uint8_t* ex, uint8_t* ey, uint8_t* ev, uint64_t ne, uint8_t* q, int64_t* out

static uint8_t px[P + 1], py[P + 1], pv[P + 1], ex[E + 1], ey[E + 1], ev[E + 1], q[6];
static int64_t out[KD_NOUT];
static uint8_t alive[P + 1];
static int n_alive;

static int in_box(int x, int y) { return x >= q[2] && x < q[4] && y >= q[3] && y < q[5]; }

static void kd_inputs(void) {
  for (int i = 0; i < P; i++) { px[i] = (uint8_t)in_range(0, 2); py[i] = (uint8_t)in_range(0, 2); pv[i] = (uint8_t)in_range(0, 1); }
  for (int i = 0; i < E; i++) { ex[i] = (uint8_t)in_range(0, 2); ey[i] = (uint8_t)in_range(0, 2); ev[i] = (uint8_t)in_range(0, 1); }
  q[0] = (uint8_t)in_range(0, 2); q[1] = (uint8_t)in_range(0, 2);
  q[2] = (uint8_t)in_range(0, 3); q[3] = (uint8_t)in_range(0, 3); q[4] = (uint8_t)in_range(0, 3); q[5] = (uint8_t)in_range(0, 3);
}

/* brute force: erase removes one matching (point,value) entry; checks the erase results and size() */
static void kd_check_build(int64_t rc) {
  OBS(rc);
#ifndef VERIF_CBMC
  for (int i = 0; i < KD_NOUT; i++) OBS(out[i]);
#endif
  ASSERT(rc == 0, "no exception escapes insert/erase/queries/destruction");
  n_alive = P;
  for (int i = 0; i < P; i++) alive[i] = 1;
  for (int e = 0; e < E; e++) {
    int hit = -1;
    for (int i = 0; i < P; i++) if (hit < 0 && alive[i] && px[i] == ex[e] && py[i] == ey[e] && pv[i] == ev[e]) hit = i;
    ASSERT(out[KD_ERASE + e] == (hit >= 0), "erase reports whether a matching (point,value) entry existed");
    if (hit >= 0) { alive[hit] = 0; n_alive--; }
  }
  ASSERT(out[KD_SIZE] == n_alive, "size() is the number of entries");
}

/* multiset equality of out[base .. base+cnt) with the surviving entries (restricted to the box if box != 0); the
 * caller has asserted that cnt equals the reference count, so it suffices that every reference entry's code occurs
 * equally often on both sides */
static int kd_multiset_ok(int base, int64_t cnt, int box) {
  int ok = 1;
  for (int i = 0; i < P; i++) {
    if (!alive[i] || (box && !in_box(px[i], py[i]))) continue;
    int64_t c = KD_CODE(px[i], py[i], pv[i]);
    int r = 0, o = 0;
    for (int j = 0; j < P; j++) {
      if (alive[j] && (!box || in_box(px[j], py[j])) && KD_CODE(px[j], py[j], pv[j]) == c) r++;
      if (j < cnt && out[base + j] == c) o++;
    }
    if (r != o) ok = 0;
  }
  return ok;
}
#endif
