/* C13, 3-D on the 3x3x3 grid: insert P symbolic points, erase E symbolic (point,value) pairs, then exact lookup of a
 * symbolic probe point (h_lookup3.c is the 2x2x2-grid variant that reaches P = 4). */
#include "kd_ref3.h"
int64_t w_kd3_lookup(KD3_ARGS);
void harness(void) {
  kd3_inputs();
  kd3_check_build(w_kd3_lookup(px, py, pz, pv, P, e, E, q, out));
  int any = 0, val_ok = 0;
  for (int i = 0; i < P; i++) if (alive[i] && px[i] == q[0] && py[i] == q[1] && pz[i] == q[2]) { any = 1; if (out[KD_AT] == 100 + pv[i]) val_ok = 1; }
  ASSERT(out[KD_EXISTS] == any, "exists(pt) agrees with a linear scan");
  if (any) ASSERT(val_ok, "at(pt) returns the value of an entry stored at pt");
  else ASSERT(out[KD_AT] == -1, "at(pt) throws out_of_range when no entry is stored at pt");
}
