/* C13 inductive step of the erase-while-iterating loop (`for (it = begin(); it != end();) pred ? erase_advance(it) : ++it`).
 * PRE-STATE: ANY well-formed tree with N nodes (kd_step.h) and an iterator that has consumed K entries
 * (K concrete, 0 <= K < N): in breadth-first numbering pending = [ i >= K : i == 0 or parent(i) < K ] in increasing order
 * (the breadth-first frontier: node K first), current = entry of node K. The unvisited entries are those of nodes >= K.
 * ONE step with a symbolic choice: ++it or erase_advance(it).
 * POST: (++) the tree is unchanged and the iterator is in the state of the family for K+1;
 *       (erase_advance) the tree is well formed, its multiset is the old one minus the current entry, nodes 0..K-1 (the
 *       entries already visited) are untouched, and the iterator is in the state of the family for K in the NEW tree.
 * In both cases the unvisited multiset shrinks by exactly the entry that `*it` showed, and `it != end()` iff unvisited
 * entries remain; by induction over the loop every entry present at begin() is shown exactly once (so every survivor is
 * visited exactly once and every erased entry was erased when shown), for every predicate. Base case: begin() is the K = 0
 * state (h_step_iter.c / the history harnesses). */
#define KS_HARNESS
#include "kd_step.h"
int64_t w_kds_adv(uint8_t* st, uint64_t n, uint8_t* pend, uint64_t np, uint8_t op, int64_t* out);

/* the frontier of position k in dump d: writes the node indices to f[], returns their number */
static int frontier(const int64_t* d, int64_t n, int k, int64_t* f) {
  int c = 0;
  for (int i = 0; i < KS_CAP; i++) if (i < n && i >= k && (i == 0 || ND(d, i, KS_F_PAR) < k)) f[c++] = i;
  return c;
}

void harness(void) {
  uint8_t pend[KS_MAXD];
  int64_t f[KS_MAXD + 1];
  ks_pre();
  int np = frontier(pre, N, K, f);
  for (int j = 0; j < np; j++) pend[j] = (uint8_t)f[j];
  uint8_t op = in_bool();
  int64_t rc = w_kds_adv(st, N, pend, np, op, out);
  OBS(rc);
#ifndef VERIF_CBMC
  for (int i = 0; i < KS_NOUT; i++) OBS(out[i]);
#endif
  ASSERT(rc == 0, "no exception escapes ++ / erase_advance / destruction");
  int k2;
  if (!op) {
    ASSERT(ks_unchanged(out), "++it leaves the tree unchanged");
    k2 = K + 1;
  } else {
    ASSERT_WF(out);
    ASSERT(out[KS_NODES] == N - 1, "erase_advance removes exactly one node");
    ASSERT(ks_tags_ok(DUMP_LIST(out), (const int64_t*)0), "every entry left after erase_advance is a pre-state entry, unchanged, and none occurs twice");
    ASSERT(!ks_has_tag(DUMP_LIST(out), K), "erase_advance removes exactly the entry the iterator showed");
    int same = 1;
    for (int i = 0; i < K; i++)
      if (ND(out, i, 0) != ND(pre, i, 0) || ND(out, i, 1) != ND(pre, i, 1) || ND(out, i, 2) != ND(pre, i, 2) || ND(out, i, 3) != ND(pre, i, 3) ||
          ND(out, i, 4) != ND(pre, i, 4) || ND(out, i, 5) != ND(pre, i, 5) || ND(out, i, 6) != ND(pre, i, 6) || ND(out, i, 7) != ND(pre, i, 7)) same = 0;
    ASSERT(same, "erase_advance leaves the already visited nodes untouched");
    k2 = K;
  }
  int64_t n2 = op ? N - 1 : N;
  if (out[KS_NODES] == n2) {
    int nf = frontier(out, n2, k2, f);
    ASSERT(out[KS_RES] == (k2 < n2), "it != end() exactly when unvisited entries remain");
    ASSERT(out[KS_RES + 1] == nf, "the iterator's queue holds exactly the breadth-first frontier of the unvisited part");
    if (out[KS_RES + 1] == nf) {
      int ok = 1;
      for (int j = 0; j < KS_CAP; j++) if (j < nf && out[KS_RES + 8 + j] != f[j]) ok = 0;
      ASSERT(ok, "the iterator's queue holds the frontier nodes in breadth-first order (no stale or freed node)");
    }
    if (k2 < n2) ASSERT(ks_same(out + KS_RES + 2, DUMP_ENT(out, k2)) && out[KS_RES + 6] == ND(out, k2, KS_F_TAG), "*it is the entry of the first unvisited node");
  }
}
