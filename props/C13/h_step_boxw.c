/* C13 inductive step, box contents query: ANY well-formed tree with N nodes (kd_step.h), within(lo,hi)
 * for a symbolic half-open box with corners in {0..KS_G}^D (empty boxes, boxes missing the data and the
 * whole grid included) equals a linear scan as a multiset (through the entry tags); the tree is unchanged afterwards. */
#define KS_HARNESS
#include "kd_step.h"
int64_t w_kds_boxw(uint8_t* st, uint64_t n, uint8_t* a, int64_t* out);
static int64_t lo[4], hi[4];
static int in_box(const int64_t* p) {
  for (int d = 0; d < KS_D; d++) if (p[d] < lo[d] || p[d] >= hi[d]) return 0;
  return 1;
}
void harness(void) {
  uint8_t ab[8];
  ks_pre();
  ks_entry(lo, ab, KS_G);
  ks_entry(hi, ab + 3, KS_G); /* the value slots of lo/hi are unused */
  int64_t rc = w_kds_boxw(st, N, ab, out);
  OBS(rc);
#ifndef VERIF_CBMC
  for (int i = 0; i < KS_NOUT; i++) OBS(out[i]);
#endif
  ASSERT(rc == 0, "no exception escapes the box queries / destruction");
  int nbox = 0;
  for (int i = 0; i < N; i++) if (in_box(PRE_ENT(i))) nbox++;
  ASSERT(out[KS_RES + 1] == nbox, "within(lo,hi) returns as many entries as a linear scan");
  if (out[KS_RES + 1] == nbox) {
    /* nbox results with distinct pre-state tags, unchanged, all inside the box = exactly the entries inside the box */
    ASSERT(ks_tags_ok(out + KS_RES + 2, KS_EF, nbox, (const int64_t*)0), "within(lo,hi) returns pre-state entries, none twice");
    int ok = 1;
    for (int i = 0; i < KS_CAP; i++) if (i < nbox && !in_box(out + KS_RES + 2 + KS_EF * i)) ok = 0;
    ASSERT(ok, "within(lo,hi) returns only entries inside the box");
  }
  ASSERT(ks_unchanged(out), "box queries leave the representation unchanged");
}
