/* C13: reserve-ahead model of the growth of the std::vector that KDTree::within() returns; appended to the generated C of the
 * units built with -fno-inline and the cuts `_M_check_len`, `_M_allocate`, `_M_deallocate` of
 * vector<pair<Vector2/3<long>, int/KsVal>> (everything else of std::vector - emplace_back, _M_realloc_insert, element
 * construction, size(), operator[], the destructor - is the real libstdc++ code). Same idea as props/C08/vec_reserve.c.
 *   growth policy : the first growth of an empty vector reserves VERIF_VEC_CAP elements at once (libstdc++: 1, 2, 4, ...);
 *                   a second growth is a reported bound failure (never silently wrong)
 *   storage       : one static block (one live result vector at a time; a second one is a reported bound failure)
 * Why: with the real policy, whether and when the vector reallocates depends on symbolic data (an entry is pushed only if
 * it lies inside the box); CBMC then case-splits every later element access over all blocks (measured, within() from any
 * 3-node tree: out of memory at 4 GB with the real policy). Not represented: invalidation of element references by a
 * reallocation (within() keeps none across emplace_back), capacity(), allocation failure. */
#ifndef VERIF_VEC_CAP
#define VERIF_VEC_CAP 8
#endif
static uint64_t vr_blk[4 * VERIF_VEC_CAP]; /* up to 32 bytes per element */
static uint8_t vr_used;
static uint64_t vr_check_len(uint8_t* vec, uint64_t n) {
  uint8_t** f = (uint8_t**)vec; /* _M_start, _M_finish, _M_end_of_storage */
  __CPROVER_assert(f[0] == f[1], "BOUND: reserve-ahead vector model: the vector grew a second time (more than VERIF_VEC_CAP elements)");
  __CPROVER_assume(f[0] == f[1]);
  __CPROVER_assert(n <= VERIF_VEC_CAP, "BOUND: reserve-ahead vector model: request above VERIF_VEC_CAP");
  return VERIF_VEC_CAP;
}
static uint8_t* vr_allocate(uint64_t n) {
  if (n == 0) return 0;
  __CPROVER_assert(n <= VERIF_VEC_CAP && !vr_used, "BOUND: reserve-ahead vector model: second live result vector or request above VERIF_VEC_CAP");
  __CPROVER_assume(n <= VERIF_VEC_CAP && !vr_used);
  vr_used = 1;
  return (uint8_t*)vr_blk;
}
static void vr_deallocate(uint8_t* p) {
  if (!p) return;
  __CPROVER_assert(p == (uint8_t*)vr_blk && vr_used, "vector storage released that was not handed out (or twice)");
  vr_used = 0;
}
uint64_t X__ZNKSt6vectorISt4pairIN5phosg7Vector2IlEE5KsValESaIS5_EE12_M_check_lenEmPKc(uint8_t* vec, uint64_t n, uint8_t* msg) { (void)msg; return vr_check_len(vec, n); }
uint8_t* X__ZNSt12_Vector_baseISt4pairIN5phosg7Vector2IlEE5KsValESaIS5_EE11_M_allocateEm(uint8_t* base, uint64_t n) { (void)base; return vr_allocate(n); }
void X__ZNSt12_Vector_baseISt4pairIN5phosg7Vector2IlEE5KsValESaIS5_EE13_M_deallocateEPS5_m(uint8_t* base, uint8_t* p, uint64_t n) { (void)base; (void)n; vr_deallocate(p); }
uint64_t X__ZNKSt6vectorISt4pairIN5phosg7Vector3IlEE5KsValESaIS5_EE12_M_check_lenEmPKc(uint8_t* vec, uint64_t n, uint8_t* msg) { (void)msg; return vr_check_len(vec, n); }
uint8_t* X__ZNSt12_Vector_baseISt4pairIN5phosg7Vector3IlEE5KsValESaIS5_EE11_M_allocateEm(uint8_t* base, uint64_t n) { (void)base; return vr_allocate(n); }
void X__ZNSt12_Vector_baseISt4pairIN5phosg7Vector3IlEE5KsValESaIS5_EE13_M_deallocateEPS5_m(uint8_t* base, uint8_t* p, uint64_t n) { (void)base; (void)n; vr_deallocate(p); }
uint64_t X__ZNKSt6vectorISt4pairIN5phosg7Vector2IlEEiESaIS4_EE12_M_check_lenEmPKc(uint8_t* vec, uint64_t n, uint8_t* msg) { (void)msg; return vr_check_len(vec, n); }
uint8_t* X__ZNSt12_Vector_baseISt4pairIN5phosg7Vector2IlEEiESaIS4_EE11_M_allocateEm(uint8_t* base, uint64_t n) { (void)base; return vr_allocate(n); }
void X__ZNSt12_Vector_baseISt4pairIN5phosg7Vector2IlEEiESaIS4_EE13_M_deallocateEPS4_m(uint8_t* base, uint8_t* p, uint64_t n) { (void)base; (void)n; vr_deallocate(p); }
uint64_t X__ZNKSt6vectorISt4pairIN5phosg7Vector3IlEEiESaIS4_EE12_M_check_lenEmPKc(uint8_t* vec, uint64_t n, uint8_t* msg) { (void)msg; return vr_check_len(vec, n); }
uint8_t* X__ZNSt12_Vector_baseISt4pairIN5phosg7Vector3IlEEiESaIS4_EE11_M_allocateEm(uint8_t* base, uint64_t n) { (void)base; return vr_allocate(n); }
void X__ZNSt12_Vector_baseISt4pairIN5phosg7Vector3IlEEiESaIS4_EE13_M_deallocateEPS4_m(uint8_t* base, uint8_t* p, uint64_t n) { (void)base; (void)n; vr_deallocate(p); }
