/* C13: insert P symbolic points, erase E symbolic (point,value) pairs, then the half-open box queries. */
#include "kd_ref.h"
int64_t w_kd_box(KD_ARGS);
void harness(void) {
  kd_inputs();
  kd_check_build(w_kd_box(px, py, pv, P, ex, ey, ev, E, q, out));
  int nbox = 0;
  for (int i = 0; i < P; i++) if (alive[i] && in_box(px[i], py[i])) nbox++;
  ASSERT(out[KD_EXISTS_BOX] == (nbox > 0), "exists(lo,hi) agrees with a linear scan");
  ASSERT(out[KD_WITHIN_N] == nbox, "within(lo,hi) returns as many entries as a linear scan (an empty result is an empty vector)");
  if (out[KD_WITHIN_N] == nbox) ASSERT(kd_multiset_ok(KD_WITHIN, nbox, 1), "within(lo,hi) yields exactly the multiset of surviving entries inside the box");
}
