// C13 inductive-step wrappers: the pre-state (an arbitrary well-formed KD tree) is assembled DIRECTLY from Node objects
// (private members reached through `#define private public`), then ONE real operation runs, then the complete
// representation is dumped breadth-first for the harness, which holds the invariant and the brute-force multiset
// (kd_step.h). The tree is destroyed on return (CBMC pointer checks: dangling links, double free).
// KS_D = 2: KDTree<Vector2<int64_t>,KsVal>; KS_D = 3: KDTree<Vector3<int64_t>,KsVal> (KsVal: value + entry tag, see kd_step.h).
#include "wrap.hh"
#include <deque>
#include <map>
#include <memory>
#include <utility>
#include <vector>
#define private public
#include "KDTree.hh"
#undef private
#include "Vector.hh"
#include "kd_step.h"
using namespace phosg;

#if KS_D == 3
typedef Vector3<int64_t> Pt;
#define MKPT(c) Pt((c)[0], (c)[1], (c)[2])
static inline void put_pt(int64_t* o, const Pt& p) { o[0] = p.x; o[1] = p.y; o[2] = p.z; }
#else
typedef Vector2<int64_t> Pt;
#define MKPT(c) Pt((c)[0], (c)[1])
static inline void put_pt(int64_t* o, const Pt& p) { o[0] = p.x; o[1] = p.y; o[2] = 0; }
#endif
// value type: v is the value the property talks about (== compares v only), tag identifies the individual entry (kd_step.h)
struct KsVal {
  int32_t v;
  int32_t tag;
  bool operator==(const KsVal& o) const { return v == o.v; }
  bool operator!=(const KsVal& o) const { return v != o.v; }
};
typedef KDTree<Pt, KsVal> Tree;
typedef Tree::Node Node;
// entry record: 3 coordinates, value, tag
static inline void put_ent(int64_t* o, const Pt& p, const KsVal& v) {
  put_pt(o, p);
  o[3] = v.v;
  o[4] = v.tag;
}

// build the pre-state: node i hangs on node st[PAR+i] (< i) on side st[SIDE+i]; dim = depth mod D
static void ks_assemble(Tree& t, Node** nd, const uint8_t* st, size_t n) {
  for (size_t i = 0; i < n; i++) {
    Node* p = i ? nd[st[KS_ST_PAR + i]] : nullptr;
    KsVal v = {st[KS_ST_V + i], static_cast<int32_t>(i)};
    nd[i] = new Node(p, MKPT(st + KS_ST_C + 3 * i), p ? (p->dim + 1) % Pt::dimensions() : 0, v);
    if (p) {
      if (st[KS_ST_SIDE + i]) {
        p->after_or_equal = nd[i];
      } else {
        p->before = nd[i];
      }
    }
  }
  t.root = n ? nd[0] : nullptr;
  t.node_count = n;
}

// breadth-first dump of the whole representation; q receives the nodes in dump order; returns their number
// (at most cap <= KS_MAXD nodes: more is reported as W_CAPACITY)
static size_t ks_dump(const Tree& t, Node** q, int64_t* out, size_t cap) {
  uint8_t qpar[KS_MAXD + 1], qside[KS_MAXD + 1];
  size_t n = 0;
  int64_t links = 1;
  bool overflow = false;
  out[KS_COUNT] = static_cast<int64_t>(t.node_count);
  if (t.root) {
    q[0] = t.root;
    qpar[0] = 0;
    qside[0] = 0;
    n = 1;
    if (t.root->parent) {
      links = 0;
    }
  }
  for (size_t i = 0; i < cap; i++) {
    if (i >= n) {
      break;
    }
    Node* x = q[i];
    int64_t* o = out + KS_NODE + KS_NF * i;
    o[KS_F_PAR] = qpar[i];
    o[KS_F_SIDE] = qside[i];
    o[KS_F_DIM] = static_cast<int64_t>(x->dim);
    put_ent(o + KS_F_C, x->pt, x->value);
    for (int side = 0; side < 2; side++) {
      Node* ch = side ? x->after_or_equal : x->before;
      if (ch) {
        if (n < cap) {
          q[n] = ch;
          qpar[n] = static_cast<uint8_t>(i);
          qside[n] = static_cast<uint8_t>(side);
          n++;
          if (ch->parent != x) {
            links = 0;
          }
        } else {
          overflow = true;
        }
      }
    }
  }
  out[KS_NODES] = overflow ? W_CAPACITY : static_cast<int64_t>(n);
  out[KS_LINKS] = links;
  return n;
}

// insert(pt, v); a = {x, y, z, v}
WEXPORT int64_t w_kds_insert(const uint8_t* st, size_t n, const uint8_t* a, int64_t* out) {
  try {
    Tree t;
    Node *nd[KS_MAXN], *q[KS_MAXD + 1];
    ks_assemble(t, nd, st, n);
    Pt pt = MKPT(a);
    KsVal v = {a[3], static_cast<int32_t>(n)};
    auto it = t.insert(pt, v);
    out[KS_RES] = (it != t.end()) && (it->first == pt) && (it->second.v == v.v) && (it->second.tag == v.tag);
    ks_dump(t, q, out, n + 1);
    return 0;
  }
  W_CATCH_ALL
}

// erase(pt, v)
WEXPORT int64_t w_kds_erase(const uint8_t* st, size_t n, const uint8_t* a, int64_t* out) {
  try {
    Tree t;
    Node *nd[KS_MAXN], *q[KS_MAXD + 1];
    ks_assemble(t, nd, st, n);
    KsVal v = {a[3], -1};
    out[KS_RES] = t.erase(MKPT(a), v);
    ks_dump(t, q, out, n + 1);
    return 0;
  }
  W_CATCH_ALL
}

// at(pt), exists(pt)
WEXPORT int64_t w_kds_lookup(const uint8_t* st, size_t n, const uint8_t* a, int64_t* out) {
  try {
    Tree t;
    Node *nd[KS_MAXN], *q[KS_MAXD + 1];
    ks_assemble(t, nd, st, n);
    Pt pt = MKPT(a);
    out[KS_RES] = t.exists(pt);
    try {
      const KsVal& v = t.at(pt);
      out[KS_RES + 1] = 100 + v.v;
      out[KS_RES + 2] = v.tag;
    } catch (const std::out_of_range&) {
      out[KS_RES + 1] = W_OUT_OF_RANGE;
    }
    ks_dump(t, q, out, n + 1);
    return 0;
  }
  W_CATCH_ALL
}

// exists(lo, hi); a = {lo x,y,z, hi x,y,z}
WEXPORT int64_t w_kds_boxe(const uint8_t* st, size_t n, const uint8_t* a, int64_t* out) {
  try {
    Tree t;
    Node *nd[KS_MAXN], *q[KS_MAXD + 1];
    ks_assemble(t, nd, st, n);
    out[KS_RES] = t.exists(MKPT(a), MKPT(a + 3));
    ks_dump(t, q, out, n + 1);
    return 0;
  }
  W_CATCH_ALL
}

// within(lo, hi)
WEXPORT int64_t w_kds_boxw(const uint8_t* st, size_t n, const uint8_t* a, int64_t* out) {
  try {
    Tree t;
    Node *nd[KS_MAXN], *q[KS_MAXD + 1];
    ks_assemble(t, nd, st, n);
    try {
      auto r = t.within(MKPT(a), MKPT(a + 3));
      out[KS_RES + 1] = (r.size() > n) ? W_CAPACITY : static_cast<int64_t>(r.size());
      for (size_t i = 0; i < n && i < r.size(); i++) {
        put_ent(out + KS_RES + 2 + KS_EF * i, r[i].first, r[i].second);
      }
    } catch (const std::out_of_range&) {
      out[KS_RES + 1] = W_OUT_OF_RANGE;
    }
    ks_dump(t, q, out, n + 1);
    return 0;
  }
  W_CATCH_ALL
}

// begin()..end()
WEXPORT int64_t w_kds_iter(const uint8_t* st, size_t n, int64_t* out) {
  try {
    Tree t;
    Node *nd[KS_MAXN], *q[KS_MAXD + 1];
    ks_assemble(t, nd, st, n);
    size_t k = 0;
    auto it = t.begin();
    for (; k <= n && it != t.end(); k++) {
      put_ent(out + KS_RES + 1 + KS_EF * k, it->first, it->second);
      ++it;
    }
    out[KS_RES] = (it != t.end()) ? W_CAPACITY : static_cast<int64_t>(k);
    ks_dump(t, q, out, n + 1);
    return 0;
  }
  W_CATCH_ALL
}

// One step of the erase-while-iterating loop from an arbitrary iterator position: the iterator is assembled directly
// (pending = the given nodes, current = the entry of the first of them), then op 0: ++it, op 1: erase_advance(it).
WEXPORT int64_t w_kds_adv(const uint8_t* st, size_t n, const uint8_t* pend, size_t np, uint8_t op, int64_t* out) {
  try {
    Tree t;
    Node *nd[KS_MAXN], *q[KS_MAXD + 1];
    ks_assemble(t, nd, st, n);
    Tree::Iterator it(nullptr);
    for (size_t j = 0; j < np; j++) {
      it.pending.emplace_back(nd[pend[j]]);
    }
    it.current = std::make_pair(nd[pend[0]]->pt, nd[pend[0]]->value);
    if (op) {
      t.erase_advance(it);
    } else {
      ++it;
    }
    size_t m = ks_dump(t, q, out, n + 1);
    out[KS_RES] = (it != t.end());
    size_t sz = it.pending.size();
    out[KS_RES + 1] = (sz > n + 1) ? W_CAPACITY : static_cast<int64_t>(sz);
    put_ent(out + KS_RES + 2, it.current.first, it.current.second);
    for (size_t j = 0; j < n + 1 && j < sz; j++) {
      int64_t idx = -1;
      for (size_t i = 0; i < n + 1 && i < m; i++) {
        if (q[i] == it.pending[j]) {
          idx = static_cast<int64_t>(i);
        }
      }
      out[KS_RES + 8 + j] = idx;
    }
    return 0;
  }
  W_CATCH_ALL
}
