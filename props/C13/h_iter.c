/* C13: insert P symbolic points, erase E symbolic (point,value) pairs, then iterate begin()..end(). */
#include "kd_ref.h"
int64_t w_kd_iter(KD_ARGS);
void harness(void) {
  kd_inputs();
  kd_check_build(w_kd_iter(px, py, pv, P, ex, ey, ev, E, q, out));
  ASSERT(out[KD_ITER_N] == n_alive, "iteration visits size() entries");
  if (out[KD_ITER_N] == n_alive) ASSERT(kd_multiset_ok(KD_ITER, n_alive, 0), "iteration yields exactly the multiset of surviving (point,value) entries");
}
