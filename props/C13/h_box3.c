/* C13, 3-D: insert P symbolic points, erase E symbolic (point,value) pairs, then the half-open box queries. */
#include "kd_ref3.h"
int64_t w_kd3_box(KD3_ARGS);
void harness(void) {
  kd3_inputs();
  kd3_check_build(w_kd3_box(px, py, pz, pv, P, e, E, q, out));
  int nbox = 0;
  for (int i = 0; i < P; i++) if (alive[i] && in_box(i)) nbox++;
  ASSERT(out[KD_EXISTS_BOX] == (nbox > 0), "exists(lo,hi) agrees with a linear scan");
  ASSERT(out[KD_WITHIN_N] == nbox, "within(lo,hi) returns as many entries as a linear scan (an empty result is an empty vector)");
  if (out[KD_WITHIN_N] == nbox) ASSERT(kd3_multiset_ok(KD_WITHIN, nbox, 1), "within(lo,hi) yields exactly the multiset of surviving entries inside the box");
}
