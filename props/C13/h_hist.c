/* C13: KDTree<Vector2<int64_t>,int> vs a brute-force multiset.
 * Cell (concrete): P = number of inserts, E = number of erase calls. Symbolic: every inserted point (3x3 grid, duplicates
 * and shared coordinates allowed), every value (0/1, so identical (point,value) entries occur), every erase argument
 * (may or may not match), the probe point and the query box [lo,hi) with corners in 0..3 (covers empty boxes, boxes
 * outside the data, and the whole grid). The tree is destroyed afterwards in whatever state it is (incl. empty). */
#include "harness.h"
#include "kd_layout.h"
int64_t w_kd_history(uint8_t* px, uint8_t* py, uint8_t* pv, uint64_t np, uint8_t* ex, uint8_t* ey, uint8_t* ev, uint64_t ne,
                     uint8_t* q, int64_t* out);

static int in_box(int x, int y, const uint8_t* q) { return x >= q[2] && x < q[4] && y >= q[3] && y < q[5]; }

void harness(void) {
  uint8_t px[P + 1], py[P + 1], pv[P + 1], ex[E + 1], ey[E + 1], ev[E + 1], q[6];
  int64_t out[KD_NOUT] = {0};
  for (int i = 0; i < P; i++) { px[i] = (uint8_t)in_range(0, 2); py[i] = (uint8_t)in_range(0, 2); pv[i] = (uint8_t)in_range(0, 1); }
  for (int i = 0; i < E; i++) { ex[i] = (uint8_t)in_range(0, 2); ey[i] = (uint8_t)in_range(0, 2); ev[i] = (uint8_t)in_range(0, 1); }
  q[0] = (uint8_t)in_range(0, 2); q[1] = (uint8_t)in_range(0, 2);
  for (int i = 2; i < 6; i++) q[i] = (uint8_t)in_range(0, 3);
  int64_t rc = w_kd_history(px, py, pv, P, ex, ey, ev, E, q, out);
  OBS(rc);
#ifndef VERIF_CBMC
  for (int i = 0; i < KD_NOUT; i++) OBS(out[i]);
#endif
  ASSERT(rc == 0, "no exception escapes insert/erase/size/exists/iteration/destruction");

  /* brute-force multiset */
  uint8_t alive[P + 1];
  int n = P;
  for (int i = 0; i < P; i++) alive[i] = 1;
  for (int e = 0; e < E; e++) {
    int hit = -1;
    for (int i = 0; i < P; i++) if (hit < 0 && alive[i] && px[i] == ex[e] && py[i] == ey[e] && pv[i] == ev[e]) hit = i;
    ASSERT(out[KD_ERASE + e] == (hit >= 0), "erase reports whether a matching (point,value) entry existed");
    if (hit >= 0) { alive[hit] = 0; n--; }
  }
  ASSERT(out[KD_SIZE] == n, "size() is the number of entries");

  /* exact lookup */
  int any = 0, val_ok = 0;
  for (int i = 0; i < P; i++) if (alive[i] && px[i] == q[0] && py[i] == q[1]) { any = 1; if (out[KD_AT] == 100 + pv[i]) val_ok = 1; }
  ASSERT(out[KD_EXISTS] == any, "exists(pt) agrees with a linear scan");
  if (any) ASSERT(val_ok, "at(pt) returns the value of an entry stored at pt");
  else ASSERT(out[KD_AT] == -1, "at(pt) throws out_of_range when no entry is stored at pt");

  /* box queries */
  int nbox = 0;
  for (int i = 0; i < P; i++) if (alive[i] && in_box(px[i], py[i], q)) nbox++;
  ASSERT(out[KD_EXISTS_BOX] == (nbox > 0), "exists(lo,hi) agrees with a linear scan");
  ASSERT(out[KD_WITHIN_N] == nbox, "within(lo,hi) returns as many entries as a linear scan (an empty result is an empty vector)");
  ASSERT(out[KD_ITER_N] == n, "iteration visits size() entries");
  /* multiset equality without a loop over all codes: sizes agree (above) and every surviving reference entry's code
   * occurs equally often on both sides */
  for (int i = 0; i < P; i++) {
    if (!alive[i]) continue;
    int64_t c = KD_CODE(px[i], py[i], pv[i]);
    int r_all = 0, r_box = 0, o_it = 0, o_w = 0;
    for (int j = 0; j < P; j++) if (alive[j] && KD_CODE(px[j], py[j], pv[j]) == c) { r_all++; if (in_box(px[j], py[j], q)) r_box++; }
    for (int j = 0; j < KD_MAXP; j++) {
      if (j < out[KD_ITER_N] && out[KD_ITER + j] == c) o_it++;
      if (j < out[KD_WITHIN_N] && out[KD_WITHIN + j] == c) o_w++;
    }
    ASSERT(o_it == r_all, "iteration yields exactly the multiset of surviving (point,value) entries");
    if (out[KD_WITHIN_N] >= 0) ASSERT(o_w == r_box, "within(lo,hi) yields exactly the multiset of surviving entries inside the box");
  }
}
