/* C13, inductive step: layout shared by wrap_step.cc and the h_step_*.c harnesses, plus (for the harnesses, KS_HARNESS)
 * the pre-state family, the representation invariant and the multiset helpers (plain C, independent of phosg).
 *
 * PRE-STATE FAMILY: a tree of N nodes (N concrete per cell), built directly by the wrapper from Node objects: parent /
 * before / after_or_equal links as given by the shape, dim = depth mod D, root = node 0, node_count = N. The shape is
 * symbolic: nodes are numbered breadth-first (before child first), i.e. parent(i) < i and (parent(i), side(i)) strictly
 * increasing in i - every binary-tree shape with N nodes has exactly one such numbering; the first SYMFROM-1 non-root
 * nodes may be fixed by a concrete SHAPE code to split a query into cells. The points (grid {0..KS_G-1}^D) and values
 * {0,1} are symbolic, constrained only by the REPRESENTATION INVARIANT (ks_wf):
 *   1. the nodes reachable from root through before/after_or_equal form a tree (every node is reached once, its parent
 *      pointer is the node it was reached from, root->parent == null) with exactly node_count nodes;
 *   2. root->dim == 0 and child->dim == (parent->dim + 1) mod D;
 *   3. split invariant: for every node a and every node m in the subtree a->before: m.pt[a.dim] <  a.pt[a.dim];
 *                       for every node m in the subtree a->after_or_equal:          m.pt[a.dim] >= a.pt[a.dim].
 * POST-STATE: the wrapper dumps the tree breadth-first (same numbering rule) and the harness checks ks_wf on the dump,
 * so the reached state is again a member of the family whenever it has <= the bound on N nodes.
 *
 * ENTRY IDENTITY: the tree is instantiated with the value type KsVal = { int v; int tag; } whose operator== compares v
 * only. v in {0,1} is "the value" of the property (identical (point,value) entries occur); tag is carried along by
 * the tree's copies/moves and makes every entry individually traceable: pre-state node i holds tag i, an inserted entry
 * gets tag N. "Multiset after == multiset before -/+ the entry" is then checked as: every entry found afterwards carries
 * a tag of the pre-state (or N), still has the point and value that tag had, and no tag occurs twice - a positional
 * check instead of counting (measured: counting multisets is what the SAT solver spends its time on). */
#ifndef KD_STEP_H
#define KD_STEP_H
#ifndef KS_D
#define KS_D 2                  /* dimensions: 2 = Vector2<int64_t>, 3 = Vector3<int64_t> */
#endif
#define KS_MAXN 6               /* pre-state: at most 6 nodes */
#define KS_MAXD (KS_MAXN + 1)   /* dump capacity (one more node after insert) */
/* pre-state description handed to the wrapper (bytes) */
#define KS_ST_PAR 0                          /* [KS_MAXN] parent index (node 0 = root) */
#define KS_ST_SIDE (KS_ST_PAR + KS_MAXN)     /* [KS_MAXN] 0 = parent's before, 1 = parent's after_or_equal */
#define KS_ST_C (KS_ST_SIDE + KS_MAXN)       /* [3*KS_MAXN] coordinates */
#define KS_ST_V (KS_ST_C + 3 * KS_MAXN)      /* [KS_MAXN] value (the tag of node i is i) */
#define KS_ST_LEN (KS_ST_V + KS_MAXN)
/* dump of a tree (int64_t) */
#define KS_COUNT 0              /* node_count */
#define KS_NODES 1              /* nodes reached from root, or W_CAPACITY (-100) when more than the capacity given */
#define KS_LINKS 2              /* 1 iff root->parent == null and every child's parent pointer is the node it hangs on */
#define KS_NODE 3               /* KS_MAXD records of KS_NF values */
#define KS_F_PAR 0              /* index of the parent in this dump (root: 0) */
#define KS_F_SIDE 1             /* 0 = before child, 1 = after_or_equal child */
#define KS_F_DIM 2
#define KS_F_C 3                /* 3 coordinates (z = 0 in 2-D) */
#define KS_F_V 6                /* value */
#define KS_F_TAG 7              /* tag; KS_F_C..KS_F_TAG = the entry record (KS_EF = 5 consecutive values) */
#define KS_NF 8
#define KS_EF 5                 /* entry record: c0, c1, c2, v, tag */
#define KS_DUMP_LEN (KS_NODE + KS_NF * KS_MAXD)
/* operation results follow the dump */
#define KS_RES KS_DUMP_LEN      /* first result slot */
#define KS_RES_LEN (8 + KS_EF * KS_MAXD + KS_MAXD)
#define KS_NOUT (KS_RES + KS_RES_LEN)
/* insert: KS_RES = returned iterator is at an entry equal to the argument
 * erase:  KS_RES = result
 * lookup: KS_RES = exists(pt), KS_RES+1 = 100 + at(pt).v or -1, KS_RES+2 = at(pt).tag
 * box:    KS_RES = exists(lo,hi), KS_RES+1 = within().size() (or negative code), KS_RES+2.. = entry records
 * iter:   KS_RES = number of entries visited (or -100), KS_RES+1.. = entry records
 * adv:    KS_RES = (it != end()), KS_RES+1 = pending.size() (or -100), KS_RES+2..6 = it.current entry record,
 *         KS_RES+8.. = dump index of each pending node (-1: not a node of the tree) */

#ifdef KS_HARNESS
#include "harness.h"
#ifndef KS_G
#define KS_G 3                  /* grid side */
#endif
#ifndef SYMFROM
#define SYMFROM 1               /* default: the whole shape is symbolic */
#endif
#ifndef SHAPE
#define SHAPE 0
#endif
#define ND(d, i, f) ((d)[KS_NODE + KS_NF * (i) + (f)])
#define KS_CAP (N + 1)          /* a state reached by one operation has at most N + 1 nodes: all harness loops stop there */
static uint8_t st[KS_ST_LEN];
static int64_t pre[KS_DUMP_LEN]; /* the pre-state in dump form */
static int64_t out[KS_NOUT];

/* representation invariant of a dumped tree: 0 = well formed, otherwise the number of the first clause found violated */
static int ks_wf(const int64_t* d) {
  int64_t n = d[KS_NODES];
  if (n < 0 || n > KS_CAP) return 1;
  if (d[KS_COUNT] != n) return 2;
  if (d[KS_LINKS] != 1) return 3;
  int bad = 0;
  for (int i = 0; i < KS_CAP; i++) {
    if (i >= n) continue;
    if (i == 0) { if (ND(d, 0, KS_F_DIM) != 0) bad = 4; continue; }
    int64_t p = ND(d, i, KS_F_PAR), s = ND(d, i, KS_F_SIDE);
    if (p < 0 || p >= i || s < 0 || s > 1) { if (!bad) bad = 5; continue; }
    if (ND(d, i, KS_F_DIM) != (ND(d, p, KS_F_DIM) + 1) % KS_D) { if (!bad) bad = 4; continue; }
    /* walk from node i up to the root: i lies in the `side` subtree of every ancestor on the way */
    int64_t c = i;
    for (int k = 0; k < KS_CAP; k++) {
      if (c <= 0 || c >= KS_CAP) continue;
      int64_t a = ND(d, c, KS_F_PAR), sd = ND(d, c, KS_F_SIDE);
      if (a < 0 || a >= c) { if (!bad) bad = 5; c = 0; continue; }
      int64_t da = ND(d, a, KS_F_DIM);
      if (da < 0 || da >= KS_D) { if (!bad) bad = 4; c = 0; continue; }
      int64_t ci = ND(d, i, KS_F_C + da), ca = ND(d, a, KS_F_C + da);
      if (sd ? (ci < ca) : (ci >= ca)) { if (!bad) bad = 6; }
      c = a;
    }
  }
  return bad;
}

#define ASSERT_WF(d) do { int w_ = ks_wf(d); \
  ASSERT(w_ != 1, "post-state: at most N + 1 nodes are reachable from root (no cycle)"); \
  ASSERT(w_ != 2, "post-state: node_count / size() equals the number of nodes reachable from root"); \
  ASSERT(w_ != 3, "post-state: parent links are consistent with the before/after_or_equal links (tree shape)"); \
  ASSERT(w_ != 4, "post-state: dim == depth mod D"); \
  ASSERT(w_ != 5, "post-state: dump is in breadth-first numbering"); \
  ASSERT(w_ != 6, "post-state: split invariant (before subtree < node <= after_or_equal subtree along the node's axis)"); \
  ASSERT(w_ == 0, "post-state satisfies the representation invariant"); } while (0)

/* the pre-state: symbolic (or partly concrete) shape, symbolic entries, invariant assumed */
static void ks_pre(void) {
  pre[KS_COUNT] = N; pre[KS_NODES] = N; pre[KS_LINKS] = 1;
  for (int i = 0; i < N; i++) {
    int p = 0, s = 0;
    if (i >= 1 && i < SYMFROM) { p = (int)(((uint64_t)SHAPE >> (4 * (i - 1))) & 7); s = (int)(((uint64_t)SHAPE >> (4 * (i - 1) + 3)) & 1); }
    if (i >= 1 && i >= SYMFROM) {
      p = (int)in_range(0, i - 1); s = (int)in_range(0, 1);
      if (i >= 2) ASSUME(p > ND(pre, i - 1, KS_F_PAR) || (p == ND(pre, i - 1, KS_F_PAR) && s > ND(pre, i - 1, KS_F_SIDE)));
    }
    ND(pre, i, KS_F_PAR) = p; ND(pre, i, KS_F_SIDE) = s;
    ND(pre, i, KS_F_DIM) = i ? (ND(pre, p, KS_F_DIM) + 1) % KS_D : 0;
    for (int d = 0; d < 3; d++) ND(pre, i, KS_F_C + d) = (d < KS_D) ? (int64_t)in_range(0, KS_G - 1) : 0;
    ND(pre, i, KS_F_V) = (int64_t)in_range(0, 1);
    ND(pre, i, KS_F_TAG) = i;
    st[KS_ST_PAR + i] = (uint8_t)p; st[KS_ST_SIDE + i] = (uint8_t)s;
    for (int d = 0; d < 3; d++) st[KS_ST_C + 3 * i + d] = (uint8_t)ND(pre, i, KS_F_C + d);
    st[KS_ST_V + i] = (uint8_t)ND(pre, i, KS_F_V);
  }
  ASSUME(ks_wf(pre) == 0);
}

/* a symbolic entry / point argument: e[0..2] coordinates, e[3] value; also as bytes for the wrapper */
static void ks_entry(int64_t* e, uint8_t* eb, int hi) {
  for (int d = 0; d < 3; d++) { e[d] = (d < KS_D) ? (int64_t)in_range(0, hi) : 0; eb[d] = (uint8_t)e[d]; }
  e[3] = (int64_t)in_range(0, 1); eb[3] = (uint8_t)e[3];
}

static int ks_same_pt(const int64_t* a, const int64_t* b) { return a[0] == b[0] && a[1] == b[1] && a[2] == b[2]; }
static int ks_same(const int64_t* a, const int64_t* b) { return ks_same_pt(a, b) && a[3] == b[3]; } /* (point, value) */
#define PRE_ENT(i) (pre + KS_NODE + KS_NF * (i) + KS_F_C)
#define DUMP_LIST(d) ((d) + KS_NODE + KS_F_C), KS_NF, (d)[KS_NODES]
#define DUMP_ENT(d, i) ((d) + KS_NODE + KS_NF * (i) + KS_F_C)

/* a list of n entry records (stride given): every record carries a tag in 0..N-1 and has the (point,value) that tag had in
 * the pre-state - or carries tag N and equals the new entry e (only if e != 0) -, and no tag occurs twice. The listed
 * entries are then a sub-multiset of the pre-state (+ e), each pre-state entry taken at most once. */
static int ks_tags_ok(const int64_t* base, int stride, int64_t n, const int64_t* e) {
  int ok = 1;
  for (int i = 0; i < KS_CAP; i++) {
    if (i >= n) continue;
    const int64_t* r = base + stride * i;
    int known = 0;
    for (int j = 0; j < N; j++) if (r[4] == j && ks_same(r, PRE_ENT(j))) known = 1;
    if (e && r[4] == N && ks_same(r, e)) known = 1;
    if (!known) ok = 0;
    for (int k = 0; k < KS_CAP; k++) if (k < i && base[stride * k + 4] == r[4]) ok = 0;
  }
  return ok;
}
/* tag t occurs in the list */
static int ks_has_tag(const int64_t* base, int stride, int64_t n, int64_t t) {
  int has = 0;
  for (int i = 0; i < KS_CAP; i++) if (i < n && base[stride * i + 4] == t) has = 1;
  return has;
}
/* the first N node records of dump d (and its header) are identical to the pre-state */
static int ks_unchanged(const int64_t* d) {
  int same = (d[KS_COUNT] == pre[KS_COUNT] && d[KS_NODES] == pre[KS_NODES] && d[KS_LINKS] == pre[KS_LINKS]);
  for (int i = 0; i < N; i++)
    if (ND(d, i, 0) != ND(pre, i, 0) || ND(d, i, 1) != ND(pre, i, 1) || ND(d, i, 2) != ND(pre, i, 2) || ND(d, i, 3) != ND(pre, i, 3) ||
        ND(d, i, 4) != ND(pre, i, 4) || ND(d, i, 5) != ND(pre, i, 5) || ND(d, i, 6) != ND(pre, i, 6) || ND(d, i, 7) != ND(pre, i, 7)) same = 0;
  return same;
}
#endif /* KS_HARNESS */
#endif
