ID = 'C13'
UNITS = {'kd': dict(wrap='wrap.cc', shim=True, new_block=128, cxxflags=['-DVERIF_DEQUE_CAP=5'])}
BOUNDS = 'TODO'
STUBS = []
OUTSIDE = []
ASSUMPTIONS = []

def queries(tier):
    qs = []
    cells = [(0, 0), (1, 0), (1, 1), (2, 1), (3, 0), (3, 1)]
    for p, e in cells:
        qs.append(dict(name='hist_p%d_e%d' % (p, e), unit='kd', harness='h_hist.c', defs={'P': p, 'E': e}, unwind=7, timeout=1500, mem_gb=12,
                       object_bits=12, desc='KDTree history', bounds='p=%d e=%d' % (p, e)))
    return qs
