ID = 'C13'
# shim=True: <deque> resolves to engine/shim/deque (fixed-capacity FIFO, capacity overflow = assertion failure); the native
# "real" build uses libstdc++. new_block = fixed operator-new block: KDTree nodes are 56 bytes (64 in 3-D); the vector returned by
# within() needs up to 4 * 24 = 96 bytes (4 * 32 = 128 in 3-D).
# gen_defs VERIF_NEW_ZERO + VERIF_NEW_U64: operator-new blocks are zero-filled arrays of 64-bit words, so that CBMC keeps one SSA
# symbol per node field instead of byte-level updates (measured: lookup_p3_e1 131 s / 2.6 GB -> 36 s / 0.7 GB; box_p3_e1 217 s / 7.2 GB
# -> 122 s / 2.3 GB; box_p4_e1 out of memory at 12 GB -> 795 s / 4.5 GB; inductive step erase, 3 nodes: 129 s -> 24 s).
_ZERO = ['VERIF_NEW_ZERO', 'VERIF_NEW_U64']
UNITS = {'kd': dict(wrap='wrap.cc', shim=True, new_block=128, gen_defs=_ZERO, cxxflags=['-DVERIF_DEQUE_CAP=5'],
                    per_harness={'h_lookup.c': {'new_block': 64}, 'h_lookup3.c': {'new_block': 64}, 'h_lookup3g.c': {'new_block': 64}, 'h_iter.c': {'new_block': 64},
                                 'h_iter3.c': {'new_block': 64}, 'h_erase_iter.c': {'new_block': 64}})}

# inductive-step units (wrap_step.cc, kd_step.h): KDTree<Vector2/3<int64_t>, KsVal>, state assembled directly. VERIF_NEW_ZERO + VERIF_NEW_U64:
UNITS['kds'] = dict(wrap='wrap_step.cc', shim=True, new_block=64, gen_defs=_ZERO, cxxflags=['-DVERIF_DEQUE_CAP=8', '-DKS_D=2'],
                    per_harness={'h_step_boxw.c': {'new_block': 192}})
# within(): -fno-inline keeps the vector's growth helpers functions; they are cut and replaced by the reserve-ahead model kd_vec_reserve.c
_VEC_CUTS = ['^_ZNKSt6vectorISt4pairIN5phosg7Vector[23]IlEE.*12_M_check_lenEmPKc$', '^_ZNSt12_Vector_baseISt4pairIN5phosg7Vector[23]IlEE.*11_M_allocateEm$',
             '^_ZNSt12_Vector_baseISt4pairIN5phosg7Vector[23]IlEE.*13_M_deallocateEPS[0-9]_m$']
UNITS['kdsw'] = dict(wrap='wrap_step.cc', shim=True, new_block=64, gen_defs=_ZERO + ['VERIF_VEC_CAP=8'], cxxflags=['-DVERIF_DEQUE_CAP=8', '-DKS_D=2', '-fno-inline'],
                     cuts=_VEC_CUTS, extra_c=['kd_vec_reserve.c'])
UNITS['kdsw3'] = dict(wrap='wrap_step.cc', shim=True, new_block=64, gen_defs=_ZERO + ['VERIF_VEC_CAP=8'], cxxflags=['-DVERIF_DEQUE_CAP=8', '-DKS_D=3', '-fno-inline'],
                      cuts=_VEC_CUTS, extra_c=['kd_vec_reserve.c'])
UNITS['kds3'] = dict(wrap='wrap_step.cc', shim=True, new_block=64, gen_defs=_ZERO, cxxflags=['-DVERIF_DEQUE_CAP=8', '-DKS_D=3'],
                     per_harness={'h_step_boxw.c': {'new_block': 256}})

BOUNDS = ('(1) HISTORIES, KDTree<Vector2<int64_t>,int>: P inserts of symbolic points from the 3x3 grid {0,1,2}^2 with symbolic values {0,1} (duplicate points, '
          'identical (point,value) entries and shared coordinates included), then E erase(point,value) calls with symbolic arguments '
          '(hit or miss), then (a) at/exists for a symbolic probe point, (b) exists(lo,hi)/within(lo,hi) for a symbolic half-open box with '
          'corners in {0..3}^2, (c) iteration begin()..end(); each followed by the destructor. Quick: (P,E) in {(0,0),(1,0),(1,1),(2,1)} '
          'for all three, (3,0) for lookup and iteration, (3,1) for lookup; thorough: adds (2,2),(3,0),(3,1),(3,2),(4,0),(4,1) for all three and (4,2) for lookup and iteration. '
          'Erase while iterating (erase_advance under a symbolic predicate over the entries, then size/iteration/exists): P <= 2 quick, P <= 3 thorough. '
          '3-D, KDTree<Vector3<int64_t>,int> on the 3x3x3 grid (lookup3g/box3/iter3: same three harnesses, boxes with corners in {0..3}^3): (1,1),(2,1) quick (box: (1,1)), '
          'plus (3,0),(3,1) thorough; and on the 2x2x2 grid (3,1),(4,1) exact lookups (thorough). '
          '(2) INDUCTIVE STEP, KDTree<Vector2<int64_t>,KsVal> and KDTree<Vector3<int64_t>,KsVal> (KsVal = {int v; int tag} with == on v): pre-state = EVERY tree with N nodes that '
          'satisfies the representation invariant (every binary-tree shape - symbolic -, symbolic points on the 3x3 / 3x3x3 grid, values {0,1}; assembled directly from Node objects), '
          'ONE operation with symbolic arguments - insert, erase(pt,v), at/exists(pt), exists(lo,hi), within(lo,hi), begin()..end(), or one step (++it / erase_advance(it), symbolic choice) of an '
          'iterator that has consumed K entries -, post-state = invariant again + entries = old entries -/+ the one entry + results = linear scan; destructor. '
          '2-D: N <= 3 quick (within: N <= 2; erase also N = 4), N <= 4 all operations and N = 5 for insert, erase, at/exists, exists(lo,hi), iteration and every iterator position K (thorough). '
          '3-D: N = 2 quick, N <= 4 thorough (within: N <= 3). By induction: every history of insert / erase / erase-while-iterating calls of ANY length whose tree never holds '
          'more than 5 (3-D: 4) entries keeps the invariant and the multiset, and every query on every such state agrees with a linear scan (within(): up to 4 resp. 3 entries).')
STUBS = ['std::deque -> engine/shim/deque (fixed-capacity FIFO of 5 slots (inductive-step units: 8), never reuses popped slots; overflow is an assertion failure, not reached within the bounds)',
         'inductive step of within() only (units kdsw, kdsw3): std::vector growth (_M_check_len, _M_allocate, _M_deallocate of the result vector) -> reserve-ahead model kd_vec_reserve.c: '
         'the first growth reserves 8 elements in a static block, a second growth is a reported bound failure; the rest of std::vector is the real libstdc++ code. The history harnesses use the real growth code.']
OUTSIDE = ['histories in which the tree holds more than 5 entries at some point (3-D: 4; within(): 4 resp. 3); grids larger than 3x3 / 3x3x3 (ties along every axis, duplicates and identical entries are present)',
           'from-scratch histories beyond P=4 inserts with 2 erases (box queries: 1 erase) - longer histories are covered only through the inductive step; erase_iter at P=4 holds (24 min, run once) but does not fit the tier',
           'the inductive step instantiates the template with the value type KsVal (8-byte POD, operator== on v only) instead of int; value types with non-trivial copy/move; emplace() (does not compile: std::forward(args) without template argument)',
           'depth(), at() value choice among duplicates of the same point (any stored value is accepted)',
           'insert while an iterator is live (the iterator family of the inductive step is the breadth-first frontier reached by ++ and erase_advance only)',
           "libstdc++'s std::deque itself; in the within() step queries libstdc++'s vector growth policy"]
ASSUMPTIONS = ['a box query on an empty tree is expected to return an empty result (property text: "agree with a linear scan")',
               'inductive step: the pre-state satisfies the representation invariant stated in props/C13/kd_step.h (tree shape with consistent parent links and node_count = number of nodes; '
               'dim = depth mod D; every node of a->before is < a and every node of a->after_or_equal is >= a along a.dim); every post-state is checked against the same invariant, the base case '
               '(empty tree / begin()) is the N = 0 cell and the history harnesses',
               'operator-new blocks are zero-filled arrays of 64-bit words (VERIF_NEW_ZERO, VERIF_NEW_U64): behaviour that depends on reading uninitialised operator-new memory is not explored '
               '(Node constructors initialise every member; the result vector of within() only reads elements it has constructed)']


def _cells(tier, what):
    quick = [(0, 0), (1, 0), (1, 1), (2, 1)]
    if what in ('lookup', 'iter'):
        quick.append((3, 0))
    if what == 'lookup':
        quick.append((3, 1))
    if tier == 'quick':
        return quick
    extra = [(2, 2), (3, 0), (3, 1), (4, 0), (3, 2), (4, 1)]
    if what in ('lookup', 'iter'):
        extra += [(4, 2)]
    return quick + [c for c in extra if c not in quick]


_MEM = {  # address-space cap per query (GB): measured peak RSS (box_p3_e2 9.1+, erase_iter_p3 7.3+, lookup/iter_p4_e1 4.4) plus headroom;
    # box_p3_e1 7.2, box_p2_e2 5.6, box_p4_e0 5.4, lookup_p3_e2 4.6; cells not listed stay below 3 GB
    'box_p4_e1': 7, 'box_p3_e2': 12, 'erase_iter_p3': 10, 'box_p3_e1': 8, 'box_p4_e0': 8, 'box_p2_e2': 8, 'lookup_p3_e2': 8, 'iter_p3_e2': 8,
    'lookup_p4_e1': 6, 'iter_p4_e1': 6, 'lookup_p3_e1': 6, 'iter_p3_e1': 6, 'box_p2_e1': 6, 'box_p3_e0': 6, 'erase_iter_p2': 6,
    'lookup_p2_e2': 5, 'iter_p2_e2': 5, 'lookup_p2_e1': 4, 'iter_p2_e1': 4, 'lookup_p4_e0': 4, 'iter_p4_e0': 4,
}


def queries(tier):
    qs = []
    what_desc = {
        'lookup': 'erase results, size(), exists(pt) and at(pt) for a symbolic probe point equal a brute-force multiset; destructor runs',
        'box': 'erase results, size(), exists(lo,hi) and the multiset returned by within(lo,hi) for a symbolic half-open box equal a brute-force scan; destructor runs',
        'iter': 'erase results, size() and the multiset of entries visited by begin()..end() equal the brute-force multiset; destructor runs',
    }
    for what in ('lookup', 'box', 'iter'):
        for p, e in _cells(tier, what):
            name = '%s_p%d_e%d' % (what, p, e)
            qs.append(dict(name=name, unit='kd', harness='h_%s.c' % what, defs={'P': p, 'E': e}, unwind=p + 2, timeout=2400,
                           mem_gb=_MEM.get(name, 3), object_bits=12, cost=(10 ** p) * (1 + 3 * e) * (3 if what == 'box' else 1),
                           desc='KDTree: %d symbolic inserts on the 3x3 grid, %d symbolic erases: %s' % (p, e, what_desc[what]),
                           bounds='P=%d inserts, E=%d erases, points in {0,1,2}^2, values {0,1}' % (p, e)))
    for p in ((0, 1, 2) if tier == 'quick' else (0, 1, 2, 3)):
        name = 'erase_iter_p%d' % p
        qs.append(dict(name=name, unit='kd', harness='h_erase_iter.c', defs={'P': p}, unwind=p + 2, timeout=2400,
                       mem_gb=_MEM.get(name, 3), object_bits=12, cost=(10 ** p) * 6,
                       desc='KDTree: %d symbolic inserts, erase_advance under a symbolic predicate while iterating: every original entry is seen exactly once, afterwards size(), iteration and exists(pt) equal the brute-force survivors; destructor runs (possibly on an empty tree)' % p,
                       bounds='P=%d inserts, every subset of entries erased during iteration' % p))
    if tier == 'thorough':
        for p, e in ((3, 1), (4, 1)):
            qs.append(dict(name='lookup3d_p%d_e%d' % (p, e), unit='kd', harness='h_lookup3.c', defs={'P': p, 'E': e}, unwind=p + 2, timeout=2400,
                           mem_gb=6, object_bits=12, cost=(10 ** p) * 4,
                           desc='KDTree<Vector3>: %d symbolic inserts on the 2x2x2 grid, %d symbolic erases: erase results, size(), exists(pt), at(pt) equal a brute-force multiset; destructor runs' % (p, e),
                           bounds='3-D, P=%d inserts, E=%d erases, points in {0,1}^3, values {0,1}' % (p, e)))
    qs += _hist3_queries(tier)
    qs += _step_queries(tier)
    return qs


def _hist3_queries(tier):
    # 3-D twin of the lookup / box / iteration history harnesses: KDTree<Vector3<int64_t>,int>, 3x3x3 grid, the split axis cycles x, y, z
    qs = []
    what_desc = {
        'lookup3g': 'erase results, size(), exists(pt) and at(pt) for a symbolic probe point equal a brute-force multiset; destructor runs',
        'box3': 'erase results, size(), exists(lo,hi) and the multiset returned by within(lo,hi) for a symbolic half-open box equal a brute-force scan; destructor runs',
        'iter3': 'erase results, size() and the multiset of entries visited by begin()..end() equal the brute-force multiset; destructor runs',
    }
    cells = [(1, 1), (2, 1)] if tier == 'quick' else [(1, 1), (2, 1), (3, 0), (3, 1)]
    for what in ('lookup3g', 'box3', 'iter3'):
        for p, e in cells:
            if tier == 'quick' and what == 'box3' and p > 1:
                continue
            name = '%s_p%d_e%d' % (what, p, e)
            qs.append(dict(name=name, unit='kd', harness='h_%s.c' % what, defs={'P': p, 'E': e}, unwind=p + 2, timeout=2400,
                           mem_gb=_MEM.get(name, 4), object_bits=12, cost=(10 ** p) * (1 + 3 * e) * (3 if what == 'box3' else 1),
                           desc='KDTree<Vector3<int64_t>,int>: %d symbolic inserts on the 3x3x3 grid, %d symbolic erases: %s' % (p, e, what_desc[what]),
                           bounds='3-D, P=%d inserts, E=%d erases, points in {0,1,2}^3, values {0,1}' % (p, e)))
    return qs


def _trees(n):
    if n == 0:
        return [None]
    return [(a, b) for l in range(n) for a in _trees(l) for b in _trees(n - 1 - l)]


def _shape_code(t):
    # breadth-first numbering, before child first; nibble j-1 = parent index | side << 3 of node j
    q, i, c = [(t, 0, 0)], 0, 0
    while i < len(q):
        node, p, s = q[i]
        if i:
            c |= (p | (s << 3)) << (4 * (i - 1))
        for side, ch in enumerate(node):
            if ch is not None:
                q.append((ch, i, side))
        i += 1
    return c


def shapes(n):
    if n == 0:
        return [0]
    cs = sorted(set(_shape_code(t) for t in _trees(n)))
    assert len(cs) == [1, 1, 2, 5, 14, 42, 132][n]  # Catalan numbers: every binary-tree shape is a cell
    return cs


_STEP_DESC = {
    'insert': 'one insert(pt, v) with symbolic arguments: the iterator returned is at the new entry, the representation invariant holds again, the entries are the old ones plus the new one',
    'erase': 'one erase(pt, v) with symbolic arguments (hit or miss): the result says whether a matching entry existed, the representation invariant holds again, exactly one matching entry is gone (none on a miss), every other entry is still there once',
    'lookup': 'exists(pt) and at(pt) for a symbolic probe point equal a linear scan; representation unchanged',
    'boxe': 'exists(lo,hi) for a symbolic half-open box equals a linear scan; representation unchanged',
    'boxw': 'within(lo,hi) for a symbolic half-open box returns exactly the entries inside the box, each once; representation unchanged',
    'iter': 'begin()..end() visits every entry exactly once; representation unchanged',
    'adv': 'iterator that has consumed K entries (queue = breadth-first frontier), one symbolic step ++it / erase_advance(it): the tree stays well formed, exactly the entry shown is consumed (and removed by erase_advance), visited entries are untouched, the iterator is the frontier iterator of the new state',
}
_STEP_MEM = {  # measured peak RSS + headroom (GB); cells not listed stay below 3 GB
    ('erase', 4): 4, ('erase', 5): 8, ('adv', 4): 4, ('adv', 5): 8, ('boxw', 3): 4, ('boxw', 4): 11, ('insert', 5): 6, ('lookup', 5): 6, ('boxe', 5): 6, ('iter', 5): 5,
}


def _step_q(op, n, k=None, dim=2, prefix=None):
    name = 'step%s_%s_n%d' % ('3' if dim == 3 else '', op, n) + ('_k%d' % k if k is not None else '')
    defs = {'N': n}
    if dim == 3:
        defs['KS_D'] = 3
    if k is not None:
        defs['K'] = k
    if prefix is not None:  # (number of concrete leading nodes, shape code): splits a cell by the shape of the first nodes
        defs['SYMFROM'] = prefix[0] + 1
        defs['SHAPE'] = hex(prefix[1])
        name += '_s%x' % prefix[1]
    unit = ('kdsw' if op == 'boxw' else 'kds') + ('3' if dim == 3 else '')
    return dict(name=name, unit=unit, harness='h_step_%s.c' % op, defs=defs, unwind=max(n + 3, 4), timeout=2400,
                mem_gb=_STEP_MEM.get((op, n), 3), object_bits=12, cost=(6 ** n) * (4 if op in ('erase', 'adv', 'boxw') else 1),
                desc='KDTree<Vector%d<int64_t>> inductive step: ANY well-formed tree with %d nodes (symbolic shape, symbolic points on the %s grid, values {0,1}; representation invariant assumed), %s; destructor runs' % (
                    dim, n, '3x3x3' if dim == 3 else '3x3', _STEP_DESC[op]),
                bounds='%d-D, pre-state: every tree shape with %d nodes%s, points in {0,1,2}^%d, values {0,1}; one operation' % (
                    dim, n, (', iterator position K=%d' % k) if k is not None else '', dim))


def _step_queries(tier):
    qs = []
    ops = ('insert', 'erase', 'lookup', 'boxe', 'boxw', 'iter')
    sizes = (0, 1, 2, 3) if tier == 'quick' else (0, 1, 2, 3, 4)
    for n in sizes:
        for op in ops:
            if not (tier == 'quick' and op == 'boxw' and n == 3):  # 55-75 s: thorough only
                qs.append(_step_q(op, n))
        for k in range(n):
            qs.append(_step_q('adv', n, k))
    if tier == 'quick':
        # the one 4-node cell of the quick tier: find_subtree_min_max's pruning / queue handling only matters when the erased node has
        # grandchildren (hand mutation H2 and the second-round seeded change m2 are invisible below 4 nodes)
        qs.append(_step_q('erase', 4))
    if tier != 'quick':
        for op in ('insert', 'erase', 'lookup', 'boxe', 'iter'):
            qs.append(_step_q(op, 5))
        for k in range(5):
            qs.append(_step_q('adv', 5, k))
    # 3-D instantiation (the split axis cycles x, y, z)
    for n in ((2,) if tier == 'quick' else (1, 2, 3, 4)):
        for op in ops:
            if not (n == 4 and op == 'boxw'):
                qs.append(_step_q(op, n, dim=3))
        for k in range(n):
            qs.append(_step_q('adv', n, k, dim=3))
    return qs
