ID = 'C13'
# shim=True: <deque> resolves to engine/shim/deque (fixed-capacity FIFO, capacity overflow = assertion failure); the native
# "real" build uses libstdc++. new_block = fixed operator-new block: KDTree nodes are 56 bytes; the vector returned by
# within() needs up to 4 * 24 = 96 bytes.
UNITS = {'kd': dict(wrap='wrap.cc', shim=True, new_block=128, cxxflags=['-DVERIF_DEQUE_CAP=5'],
                    per_harness={'h_lookup.c': {'new_block': 64}, 'h_lookup3.c': {'new_block': 64}, 'h_iter.c': {'new_block': 64}, 'h_erase_iter.c': {'new_block': 64}})}

BOUNDS = ('KDTree<Vector2<int64_t>,int>: P inserts of symbolic points from the 3x3 grid {0,1,2}^2 with symbolic values {0,1} (duplicate points, '
          'identical (point,value) entries and shared coordinates included), then E erase(point,value) calls with symbolic arguments '
          '(hit or miss), then (a) at/exists for a symbolic probe point, (b) exists(lo,hi)/within(lo,hi) for a symbolic half-open box with '
          'corners in {0..3}^2, (c) iteration begin()..end(); each followed by the destructor. Quick: (P,E) in {(0,0),(1,0),(1,1),(2,1)} '
          'for all three, (3,0) for lookup and iteration, (3,1) for lookup; thorough: (2,2),(3,0),(3,1),(4,0) for all three and (3,2),(4,1) for lookup and iteration. '
          'Erase while iterating (erase_advance under a symbolic predicate over the entries, then size/iteration/exists): P <= 2 quick, P <= 3 thorough. '
          'Thorough also: KDTree<Vector3<int64_t>,int> on the 2x2x2 grid, (P,E) in {(3,1),(4,1)}, erase results/size/at/exists.')
STUBS = ['std::deque -> engine/shim/deque (fixed-capacity FIFO of 5 slots, never reuses popped slots; overflow is an assertion failure, not reached for P <= 4)']
OUTSIDE = ['more than 4 points; grids larger than 3x3 (ties along both axes, duplicates and identical entries are present in the 3x3 grid)',
           'P=4 with 2 erases (lookup 11 min and iteration 10.5 min: hold, run once, not in the tier; box queries out of memory at 12 GB); box queries at P=4 with 1 erase and erase_advance at P=4: solver out of memory at 12 GB; box queries at P=3,E=2 hold (8 min, 9+ GB, run twice) but do not fit the 30-minute / 14 GB tier',
           '3-D trees beyond insert/erase/exact lookup on the 2x2x2 grid (P <= 4, E = 1); value types other than int; emplace() (does not compile: std::forward(args) without template argument)',
           'depth(), at() value choice among duplicates of the same point (any stored value is accepted)',
           "libstdc++'s std::deque itself"]
ASSUMPTIONS = ['a box query on an empty tree is expected to return an empty result (property text: "agree with a linear scan")']


def _cells(tier, what):
    quick = [(0, 0), (1, 0), (1, 1), (2, 1)]
    if what in ('lookup', 'iter'):
        quick.append((3, 0))
    if what == 'lookup':
        quick.append((3, 1))
    if tier == 'quick':
        return quick
    extra = [(2, 2), (3, 0), (3, 1), (4, 0)]
    if what in ('lookup', 'iter'):
        extra += [(3, 2), (4, 1)]
    return quick + [c for c in extra if c not in quick]


_MEM = {  # address-space cap per query (GB): measured peak RSS (box_p3_e2 9.1+, erase_iter_p3 7.3+, lookup/iter_p4_e1 4.4) plus headroom;
    # box_p3_e1 7.2, box_p2_e2 5.6, box_p4_e0 5.4, lookup_p3_e2 4.6; cells not listed stay below 3 GB
    'box_p3_e2': 12, 'erase_iter_p3': 10, 'box_p3_e1': 8, 'box_p4_e0': 8, 'box_p2_e2': 8, 'lookup_p3_e2': 8, 'iter_p3_e2': 8,
    'lookup_p4_e1': 6, 'iter_p4_e1': 6, 'lookup_p3_e1': 6, 'iter_p3_e1': 6, 'box_p2_e1': 6, 'box_p3_e0': 6, 'erase_iter_p2': 6,
    'lookup_p2_e2': 5, 'iter_p2_e2': 5, 'lookup_p2_e1': 4, 'iter_p2_e1': 4, 'lookup_p4_e0': 4, 'iter_p4_e0': 4,
}


def queries(tier):
    qs = []
    what_desc = {
        'lookup': 'erase results, size(), exists(pt) and at(pt) for a symbolic probe point equal a brute-force multiset; destructor runs',
        'box': 'erase results, size(), exists(lo,hi) and the multiset returned by within(lo,hi) for a symbolic half-open box equal a brute-force scan; destructor runs',
        'iter': 'erase results, size() and the multiset of entries visited by begin()..end() equal the brute-force multiset; destructor runs',
    }
    for what in ('lookup', 'box', 'iter'):
        for p, e in _cells(tier, what):
            name = '%s_p%d_e%d' % (what, p, e)
            qs.append(dict(name=name, unit='kd', harness='h_%s.c' % what, defs={'P': p, 'E': e}, unwind=p + 2, timeout=2400,
                           mem_gb=_MEM.get(name, 3), object_bits=12, cost=(10 ** p) * (1 + 3 * e) * (3 if what == 'box' else 1),
                           desc='KDTree: %d symbolic inserts on the 3x3 grid, %d symbolic erases: %s' % (p, e, what_desc[what]),
                           bounds='P=%d inserts, E=%d erases, points in {0,1,2}^2, values {0,1}' % (p, e)))
    for p in ((0, 1, 2) if tier == 'quick' else (0, 1, 2, 3)):
        name = 'erase_iter_p%d' % p
        qs.append(dict(name=name, unit='kd', harness='h_erase_iter.c', defs={'P': p}, unwind=p + 2, timeout=2400,
                       mem_gb=_MEM.get(name, 3), object_bits=12, cost=(10 ** p) * 6,
                       desc='KDTree: %d symbolic inserts, erase_advance under a symbolic predicate while iterating: every original entry is seen exactly once, afterwards size(), iteration and exists(pt) equal the brute-force survivors; destructor runs (possibly on an empty tree)' % p,
                       bounds='P=%d inserts, every subset of entries erased during iteration' % p))
    if tier == 'thorough':
        for p, e in ((3, 1), (4, 1)):
            qs.append(dict(name='lookup3d_p%d_e%d' % (p, e), unit='kd', harness='h_lookup3.c', defs={'P': p, 'E': e}, unwind=p + 2, timeout=2400,
                           mem_gb=6, object_bits=12, cost=(10 ** p) * 4,
                           desc='KDTree<Vector3>: %d symbolic inserts on the 2x2x2 grid, %d symbolic erases: erase results, size(), exists(pt), at(pt) equal a brute-force multiset; destructor runs' % (p, e),
                           bounds='3-D, P=%d inserts, E=%d erases, points in {0,1}^3, values {0,1}' % (p, e)))
    return qs
