ID = 'C13'
UNITS = {'kd': dict(wrap='wrap.cc', shim=True, new_block=128, cxxflags=['-DVERIF_DEQUE_CAP=5'], per_harness={'h_lookup.c': {'new_block': 64}, 'h_iter.c': {'new_block': 64}, 'h_erase_iter.c': {'new_block': 64}})}
BOUNDS = 'TODO'
STUBS = []
OUTSIDE = []
ASSUMPTIONS = []

def queries(tier):
    qs = []
    cells = [(0, 0), (1, 0), (1, 1), (2, 1), (3, 0), (3, 1)] + ([(2, 2), (3, 2), (4, 0), (4, 1), (4, 2)] if tier == 'thorough' else [])
    for what in ('lookup', 'box', 'iter'):
        for p, e in cells:
            qs.append(dict(name='%s_p%d_e%d' % (what, p, e), unit='kd', harness='h_%s.c' % what, defs={'P': p, 'E': e}, unwind=p + 2, timeout=1500, mem_gb=12,
                       object_bits=12, desc='KDTree history', bounds='p=%d e=%d' % (p, e)))
    for p in ((0, 1, 2, 3) if tier == 'quick' else (0, 1, 2, 3, 4)):
        qs.append(dict(name='erase_iter_p%d' % p, unit='kd', harness='h_erase_iter.c', defs={'P': p}, unwind=p + 2, unwindset='', timeout=1500, mem_gb=12,
                       object_bits=12, desc='KDTree erase_advance', bounds='p=%d' % p))
    return qs
