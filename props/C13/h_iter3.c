/* C13, 3-D: insert P symbolic points, erase E symbolic (point,value) pairs, then iterate begin()..end(). */
#include "kd_ref3.h"
int64_t w_kd3_iter(KD3_ARGS);
void harness(void) {
  kd3_inputs();
  kd3_check_build(w_kd3_iter(px, py, pz, pv, P, e, E, q, out));
  ASSERT(out[KD_ITER_N] == n_alive, "iteration visits size() entries");
  if (out[KD_ITER_N] == n_alive) ASSERT(kd3_multiset_ok(KD_ITER, n_alive, 0), "iteration yields exactly the multiset of surviving (point,value) entries");
}
