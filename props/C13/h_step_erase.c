/* C13 inductive step, erase: ANY well-formed tree with N nodes (kd_step.h), ONE erase(pt, v) with symbolic
 * arguments (hit or miss). Post: the result says whether a matching entry existed, the representation invariant holds
 * again, and the multiset of entries is the pre-state multiset minus exactly one (pt, v) if it was there. Destructor
 * afterwards (possibly on the empty tree). */
#define KS_HARNESS
#include "kd_step.h"
int64_t w_kds_erase(uint8_t* st, uint64_t n, uint8_t* a, int64_t* out);
void harness(void) {
  int64_t e[4]; uint8_t eb[4];
  ks_pre();
  ks_entry(e, eb, KS_G - 1);
  int64_t rc = w_kds_erase(st, N, eb, out);
  OBS(rc);
#ifndef VERIF_CBMC
  for (int i = 0; i < KS_NOUT; i++) OBS(out[i]);
#endif
  ASSERT(rc == 0, "no exception escapes erase / destruction");
  int hit = 0;
  for (int i = 0; i < N; i++) if (ks_same(PRE_ENT(i), e)) hit = 1;
  ASSERT(out[KS_RES] == hit, "erase reports whether a matching (point,value) entry existed");
  ASSERT_WF(out);
  ASSERT(out[KS_NODES] == N - hit, "erase removes exactly one node on a hit and none on a miss");
  /* N - hit nodes with distinct pre-state tags and unchanged (point,value): at most one pre-state entry is missing ... */
  ASSERT(ks_tags_ok(DUMP_LIST(out), (const int64_t*)0), "every entry left after erase is a pre-state entry, unchanged, and none occurs twice");
  /* ... and the missing one matches the argument */
  int gone_ok = 1;
  for (int j = 0; j < N; j++) if (!ks_has_tag(DUMP_LIST(out), j) && !ks_same(PRE_ENT(j), e)) gone_ok = 0;
  ASSERT(gone_ok, "the entry erase removed is one that matches (point,value)");
}
