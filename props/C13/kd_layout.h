/* C13: layout of the observation array shared by wrap.cc and the harnesses (plain C). */
#ifndef KD_LAYOUT_H
#define KD_LAYOUT_H
#define KD_MAXP 4                      /* at most 4 inserted points */
#define KD_MAXE 2                      /* at most 2 erase calls */
#define KD_CODE(x, y, v) ((int64_t)(x) * 6 + (int64_t)(y) * 2 + (int64_t)(v)) /* entry code: x,y in 0..2, v in 0..1 */
#define KD_NCODES 18
#define KD_CODE3(x, y, z, v) ((((int64_t)(x) * 3 + (int64_t)(y)) * 3 + (int64_t)(z)) * 2 + (int64_t)(v)) /* 3-D entry code: x,y,z in 0..2, v in 0..1 */
#define KD_ERASE 0                     /* [KD_MAXE] result of erase i (0/1) */
#define KD_SIZE (KD_ERASE + KD_MAXE)   /* size() */
#define KD_AT (KD_SIZE + 1)            /* at(q): 100 + value, or -1 = out_of_range */
#define KD_EXISTS (KD_AT + 1)          /* exists(q) */
#define KD_EXISTS_BOX (KD_EXISTS + 1)  /* exists(lo, hi) */
#define KD_WITHIN_N (KD_EXISTS_BOX + 1) /* within(lo, hi).size(), or the negative exception code */
#define KD_WITHIN (KD_WITHIN_N + 1)    /* [KD_MAXP] entry codes returned by within */
#define KD_ITER_N (KD_WITHIN + KD_MAXP) /* number of entries visited by begin()..end() */
#define KD_ITER (KD_ITER_N + 1)        /* [KD_MAXP + 1] entry codes in iteration order */
#define KD_NOUT (KD_ITER + KD_MAXP + 1)
/* erase-while-iterating wrapper */
#define KDI_VIS_N 0                    /* number of loop iterations of the erase loop */
#define KDI_VIS 1                      /* [2*KD_MAXP] entry code seen at each loop iteration */
#define KDI_SIZE (KDI_VIS + 2 * KD_MAXP) /* size() after the loop */
#define KDI_ITER_N (KDI_SIZE + 1)      /* entries visited by a second, plain iteration */
#define KDI_ITER (KDI_ITER_N + 1)      /* [KD_MAXP + 1] their codes */
#define KDI_EXISTS (KDI_ITER + KD_MAXP + 1) /* [KD_MAXP] exists(point i) after the loop */
#define KDI_NOUT (KDI_EXISTS + KD_MAXP)
#endif
