/* C13: erase while iterating (the idiom of KDTreeTest): insert P symbolic points, then walk begin()..end() and remove
 * every entry whose (point,value) code is flagged in a symbolic predicate (bit mask over entry codes) with erase_advance, stepping over the
 * others with ++. Checks: the walk sees every original entry exactly once (so every survivor is visited exactly once and
 * every doomed entry is seen and erased once); afterwards size(), a plain iteration and exists(pt) agree with the
 * brute-force survivors. The tree is destroyed afterwards (possibly empty). */
#include "harness.h"
#include "kd_layout.h"
int64_t w_kd_erase_iter(uint8_t* px, uint8_t* py, uint8_t* pv, uint64_t np, uint32_t predmask, int64_t* out);
#define PRED(c) ((predmask >> (c)) & 1u)

static uint8_t px[P + 1], py[P + 1], pv[P + 1];
static uint32_t predmask; /* bit c = remove entries with code c */
static int64_t out[KDI_NOUT];

/* every code of an original entry (restricted to survivors if surv) occurs equally often in out[base..base+cnt) */
static int multiset_ok(int base, int64_t cnt, int surv) {
  int ok = 1;
  for (int i = 0; i < P; i++) {
    int64_t c = KD_CODE(px[i], py[i], pv[i]);
    if (surv && PRED(c)) continue;
    int r = 0, o = 0;
    for (int j = 0; j < P; j++) {
      if (KD_CODE(px[j], py[j], pv[j]) == c) r++;
      if (j < cnt && out[base + j] == c) o++;
    }
    if (r != o) ok = 0;
  }
  return ok;
}

void harness(void) {
  for (int i = 0; i < P; i++) { px[i] = (uint8_t)in_range(0, 2); py[i] = (uint8_t)in_range(0, 2); pv[i] = (uint8_t)in_range(0, 1); }
  /* the predicate only matters on the codes of the inserted entries: one symbolic bit per entry, entries with the same
   * code share the bit of the first of them (a predicate is a function of the entry) */
  predmask = 0;
  for (int i = 0; i < P; i++) {
    uint8_t b = in_bool();
    int first = 1;
    for (int j = 0; j < P; j++) if (j < i && KD_CODE(px[j], py[j], pv[j]) == KD_CODE(px[i], py[i], pv[i])) first = 0;
    if (first && b) predmask |= 1u << KD_CODE(px[i], py[i], pv[i]);
  }
  int64_t rc = w_kd_erase_iter(px, py, pv, P, predmask, out);
  OBS(rc);
#ifndef VERIF_CBMC
  for (int i = 0; i < KDI_NOUT; i++) OBS(out[i]);
#endif
  ASSERT(rc == 0, "no exception escapes the erase-while-iterating loop or the destructor");
  int nsurv = 0;
  for (int i = 0; i < P; i++) if (!PRED(KD_CODE(px[i], py[i], pv[i]))) nsurv++;
  ASSERT(out[KDI_VIS_N] == P, "the erase loop ends after exactly one visit per original entry");
  if (out[KDI_VIS_N] == P) ASSERT(multiset_ok(KDI_VIS, P, 0), "the erase loop sees every original entry exactly once");
  ASSERT(out[KDI_SIZE] == nsurv, "size() after the loop is the number of entries not selected for removal");
  ASSERT(out[KDI_ITER_N] == nsurv, "a following iteration visits exactly the survivors");
  if (out[KDI_ITER_N] == nsurv) ASSERT(multiset_ok(KDI_ITER, nsurv, 1), "a following iteration yields exactly the multiset of survivors");
  for (int i = 0; i < P; i++) {
    int any = 0;
    for (int j = 0; j < P; j++) if (px[j] == px[i] && py[j] == py[i] && !PRED(KD_CODE(px[j], py[j], pv[j]))) any = 1;
    ASSERT(out[KDI_EXISTS + i] == any, "exists(pt) after the loop agrees with a linear scan of the survivors");
  }
}
