/* C18: format_size(size, include_bytes): unit ladder. vasprintf is a contract stub that records format + arguments and returns a
 * one-character token. Decided for all 2^64 sizes x both flags: the format is the one of the largest unit with 1024^k <= size
 * (k = 0: "%zu bytes"), the integer argument (if any) is size, and the double argument is exactly (float)size / 1024^k
 * (reference: uint64 -> float conversion, then an exact binary-exponent shift by 10k). */
#include <stdarg.h>
#include <stdlib.h>
#include "harness.h"
int64_t w_format_size(uint64_t size, uint32_t include_bytes, uint8_t* out, uint64_t cap);
static int ncall, r_unit, r_with_bytes, r_fmt_ok;
static uint64_t r_int;
static double r_val;
static const char UNITS[] = " KMGTPE";
static int str_eq(const char* a, const char* b) {
  for (int i = 0; i < 32; i++) { if (a[i] != b[i]) return 0; if (!a[i]) return 1; }
  return 0;
}
#ifdef VERIF_NATIVE_REAL
int vasprintf(char** outp, const char* fmt, va_list va_in) {
  va_list va;
  va_copy(va, va_in);
#else
uint32_t X_vasprintf(uint8_t* outp_, uint8_t* fmt_, uint8_t* va_) {
  char** outp = (char**)outp_;
  const char* fmt = (const char*)fmt_;
  va_list va;
  va_copy(va, *(va_list*)va_);
#endif
  char* buf = (char*)malloc(4);
#ifdef VERIF_CBMC
  __CPROVER_assume(buf != 0);
#endif
  ncall++;
  r_fmt_ok = 0; r_unit = -1;
  if (str_eq(fmt, "%zu bytes")) { r_fmt_ok = 1; r_unit = 0; r_with_bytes = 1; r_int = va_arg(va, uint64_t); }
  else {
    char with[] = "%zu bytes (%.02f ?B)", without[] = "%.02f ?B";
    for (int k = 1; k <= 6; k++) {
      with[17] = UNITS[k]; without[6] = UNITS[k];
      if (str_eq(fmt, with)) { r_fmt_ok = 1; r_unit = k; r_with_bytes = 1; }
      if (str_eq(fmt, without)) { r_fmt_ok = 1; r_unit = k; r_with_bytes = 0; }
    }
    ASSERT(r_fmt_ok, "UNMODELLED printf format");
    ASSUME(r_fmt_ok);
    if (r_with_bytes) r_int = va_arg(va, uint64_t);
    r_val = va_arg(va, double);
  }
  buf[0] = 'S'; buf[1] = 0;
  *outp = buf;
  va_end(va);
  return 1;
}
void harness(void) {
  uint64_t size = in_u64();
  uint32_t ib = in_bool();
  uint8_t out[8];
  int64_t rc = w_format_size(size, ib, out, sizeof(out));
  OBS(rc);
  ASSERT(rc == 1 && out[0] == 'S', "format_size returns the formatter's text, no exception");
  ASSERT(ncall == 1 && r_fmt_ok, "exactly one formatter call");
  int k = 0; /* largest k with 1024^k <= size, k <= 6 */
  for (int j = 1; j <= 6; j++) if ((size >> (10 * j)) != 0) k = j;
  OBS(r_unit);
  ASSERT(r_unit == k, "unit is the largest with 1024^k <= size");
  if (k == 0) ASSERT(r_int == size, "byte count is printed as is");
  else {
    ASSERT(r_with_bytes == (int)ib, "byte count is included iff requested");
    if (r_with_bytes) ASSERT(r_int == size, "byte count argument == size");
    /* (float)size / 2^(10k): size >= 2^(10k) so the quotient is a normal float >= 1: subtract 10k from the biased exponent */
    union { float f; uint32_t u; } c;
    c.f = (float)size;
    c.u -= ((uint32_t)(10 * k)) << 23;
    ASSERT(r_val == (double)c.f, "value argument == (float)size / 1024^k");
  }
}
