/* Model bound appended to the generated C (units built with -fno-inline and --cut _M_create):
 * every std::string stays inside libstdc++'s 15-byte small-string buffer. std::string::_M_create (the only place where
 * a std::string obtains heap storage) is cut; reaching it is a reported bound failure, never a silent truncation.
 * Effect: the "long string" paths of libstdc++ are dead in symbolic execution, so string data pointers stay concrete. */
uint8_t* X__ZNSt7__cxx1112basic_stringIcSt11char_traitsIcESaIcEE9_M_createERmm(uint8_t* self, uint8_t* cap, uint64_t old_cap) {
  (void)self; (void)cap; (void)old_cap;
  __CPROVER_assert(0, "BOUND: std::string longer than 15 bytes needs heap storage (_M_create reached)");
  __CPROVER_assume(0);
  return 0;
}
/* std::allocator<char> is an empty class; with -fno-inline its (explicitly instantiated, extern) ctors/dtor become calls */
void X__ZNSaIcEC2Ev(uint8_t* self) { (void)self; }
void X__ZNSaIcEC2ERKS_(uint8_t* self, uint8_t* o) { (void)self; (void)o; }
void X__ZNSaIcED2Ev(uint8_t* self) { (void)self; }
void X__ZNSaIcEC1Ev(uint8_t* self) { (void)self; }
void X__ZNSaIcEC1ERKS_(uint8_t* self, uint8_t* o) { (void)self; (void)o; }
void X__ZNSaIcED1Ev(uint8_t* self) { (void)self; }
