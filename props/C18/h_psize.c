/* C18: parse_size on every NUL-terminated string of LEN arbitrary bytes (all 256 values) without a '.', against the grammar
 * digits* ' '* [KkMmGgTtPpEe]? (anything after the unit letter is ignored): result == integer * 1024^k (mod 2^64); the scan
 * never reads past the terminator (pointer checks). The fractional form (double arithmetic) is outside, see spec.OUTSIDE. */
#include "harness.h"
int64_t w_parse_size(uint8_t* str, uint64_t* out);
void harness(void) {
  uint8_t s[LEN + 1];
  in_bytes(s, LEN);
  s[LEN] = 0;
#ifndef WITH_DOT
  for (int i = 0; i < LEN; i++) ASSUME(s[i] != '.');
#endif
  uint64_t r = 0;
  int64_t rc = w_parse_size(s, &r);
  OBS(rc); OBS(r);
  ASSERT(rc == 0, "parse_size does not throw");
  int i = 0;
  uint64_t ip = 0;
  while (s[i] >= '0' && s[i] <= '9') { ip = ip * 10 + (uint64_t)(s[i] - '0'); i++; }
#ifdef WITH_DOT
  /* with a '.', only the no-digit-after-the-dot form is decided here (fraction == 0) */
  if (s[i] == '.') { i++; ASSUME(!(s[i] >= '0' && s[i] <= '9')); }
#endif
  while (s[i] == ' ') i++;
  int sh = 0;
  switch (s[i]) {
    case 'K': case 'k': sh = 10; break;
    case 'M': case 'm': sh = 20; break;
    case 'G': case 'g': sh = 30; break;
    case 'T': case 't': sh = 40; break;
    case 'P': case 'p': sh = 50; break;
    case 'E': case 'e': sh = 60; break;
    default: break;
  }
  ASSERT(r == (ip << sh), "parse_size == integer part * 1024^k");
}
