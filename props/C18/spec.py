ID = 'C18'
UNITS = {'time': dict(wrap='wrap.cc', new_block=64)}
BOUNDS = ''
STUBS = []
OUTSIDE = []
ASSUMPTIONS = []

def queries(tier):
    qs = []
    def q(name, harness, defs, unwind, timeout=300, mem_gb=6, desc='', bounds='', **kw):
        d = dict(name=name, unit='time', harness=harness, defs=defs, unwind=unwind, timeout=timeout, mem_gb=mem_gb, desc=desc, bounds=bounds)
        d.update(kw)
        qs.append(d)
    for be in ('', 'cadical', 'kissat', 'cvc5'):
        q('duration_all_%s' % be, 'h_duration.c', {}, 26, 120, backend=be)
    return qs
