ID = 'C18'
UNITS = {'time': dict(wrap='wrap.cc', new_block=64, per_harness={'h_ftime.c': {'new_block': 192}})}
BOUNDS = ('format_duration: all 2^64 microsecond counts (split into the four magnitude classes, symbolic inside each) x precision {any negative, 0..6} '
          'x both admissible shapes of the seconds text (no exception, formats, pad, result text); integer field recomposition for 1 min <= usecs < 1 day. format_time: all 2^64 timestamps, date text length 19 (and 20, 26 in the thorough tier). '
          'usecs/timeval: all usecs < 2^63 and all normalised timevals below 2^63 us. format_size: all 2^64 sizes x include_bytes. '
          'parse_size: every NUL-terminated string of length 0..3 (quick) / 0..5 (thorough) over all 256 byte values without a fractional part.')
STUBS = [
    'vasprintf (h_duration.c): contract stub. "%.*lf"(p, v): records p and v, returns an ARBITRARY string of the shape the format guarantees '
    '(d+ for p == 0, else d+ "." d{p}; one integer digit if v < 9, two if v >= 10, either for 9 <= v < 10 because rounding may carry; digits arbitrary); '
    '"%lu:%s" / "%lu:%02lu:%s" / "%lu:%02lu:%02lu:%s": records the integers and the %s argument, returns the token "I" followed by the %s argument; '
    'any other format is an assertion failure. The decimal rendering itself (libc) is not modelled.',
    'vasprintf (h_fsize.c): records format, integer and double argument of the format_size formats, returns the token "S"',
    'gmtime_r (h_ftime.c): records the time_t, fills struct tm with arbitrary values; strftime: records buffer, size, format, tm; writes SLEN arbitrary '
    'non-NUL bytes + NUL and returns SLEN (the real format needs 19 characters for years 1000..9999, at most 26 for any int year); snprintf: records '
    'buffer, size, format, value; writes "." + 6 arbitrary digits (truncated to size-1) + NUL and returns 7. Calendar arithmetic and digits are libc\'s.',
]
OUTSIDE = [
    'the rendered decimal digits of every field (libc printf) and therefore the textual claims "evaluates back to the input rounded at the printed precision" '
    'and "format_size and parse_size agree to the printed precision": decided only up to the exact values/format strings handed to the formatter',
    'calendar correctness of format_time (gmtime_r/strftime are libc): decided that gmtime_r gets t / 10^6, strftime gets that tm and "%Y-%m-%d %H:%M:%S", '
    'and the microsecond field is t % 10^6 printed with ".%06u"',
    'parse_size with digits after a decimal point (double accumulation of 0.1^k factors and the double -> size_t conversion); strings longer than 5 bytes',
    'format_time_natural, now() (local time zone / clock)',
    'format_duration field arithmetic in the days class (usecs >= 86400 s): that days/hours/minutes recompose to the input needs '
    'floor(floor(x/a)/b) == floor(x/(ab)) across three 64-bit relational dividers; no verdict in 300-900 s with minisat, kissat, z3, cvc5 and cvc5 '
    '--solve-bv-as-int (also not for sub-ranges [2^48,2^52) and [2^60,2^64), nor for the days field alone); decided for the minutes and hours classes',
    'exactness of the double handed to "%.*lf" for durations >= 1 min ((double)usecs_part / 10^6 after the integer field subtraction): no verdict in 400-900 s '
    '(cvc5 FP); decided below one minute in the thorough tier (500 s)',
    'format_duration precisions above 6 (int8_t allows up to 127; the property quantifies -1..6)',
]
ASSUMPTIONS = [
    'libc printf renders "%.*lf" of a value in [0,60) with one integer digit when the value is below 9 and two when it is at least 10 (between 9 and 10 '
    'both are admitted), followed by "." and exactly p digits when p > 0',
    'x86-64 glibc: PRIu64 is "lu", struct tm starts with nine ints, time_t and suseconds_t are 64-bit',
]

PRECS_QUICK = (-1, 0, 1, 6)
PRECS_ALL = (-1, 0, 1, 2, 3, 4, 5, 6)
MAGN = {0: '< 1 min', 1: '1 min .. 1 h', 2: '1 h .. 1 day', 3: '>= 1 day'}


def queries(tier):
    thorough = tier != 'quick'
    qs = []

    def q(name, harness, defs, unwind, timeout=300, mem_gb=6, desc='', bounds='', **kw):
        d = dict(name=name, unit='time', harness=harness, defs=defs, unwind=unwind, timeout=timeout, mem_gb=mem_gb, desc=desc, bounds=bounds)
        d.update(kw)
        qs.append(d)

    # ---- format_duration -------------------------------------------------------------------------------------------------
    for mag in (0, 1, 2, 3):
        for p in (PRECS_ALL if thorough else PRECS_QUICK):
            for nint in (1, 2):
                pn = 'neg' if p < 0 else str(p)
                defs = {'MAG': mag, 'PREC': p, 'NINT': nint, 'CHECK': 0}
                if mag == 3:
                    defs['SHAPE_TIED'] = 0  # three 64-bit divisions feed the value: shape left arbitrary for every value (stronger claim)
                q('dur_m%d_p%s_n%d' % (mag, pn, nint), 'h_duration.c', defs, 26, 300,
                  desc='format_duration, usecs %s, precision %s, seconds text with %d integer digit(s): no exception; formats per magnitude class; '
                       'precision default; "0" pad iff one integer digit; result == integer text + seconds text' % (MAGN[mag], 'any negative' if p < 0 else p, nint),
                  bounds='all usecs of the class%s' % ('' if mag == 3 else ' whose seconds value admits that shape'))
    for mag in (1, 2):
        q('dur_fields_m%d' % mag, 'h_duration.c', {'MAG': mag, 'PREC': 1, 'NINT': 2, 'CHECK': 1}, 26, 900, cost=1000,
          desc='format_duration integer fields (usecs %s): hours < 24, minutes < 60, leading field >= 1, usecs - (hours,minutes) in [0, 60 s)' % MAGN[mag],
          bounds='all usecs of the class')
    if thorough:
        q('dur_value_m0', 'h_duration.c', {'MAG': 0, 'PREC': 1, 'NINT': 2, 'CHECK': 2}, 26, 1500, flags=['--cvc5', '--slice-formula'], cost=2000,
          desc='the double handed to "%.*lf" is exactly (double)usecs / 1000000 (usecs < 1 min); SMT back end cvc5 (floating-point theory)',
          bounds='all usecs < 60 s')
    # ---- timeval ------------------------------------------------------------------------------------------------------------
    q('timeval_from_usecs', 'h_timeval.c', {'MODE': 0}, 4, 300, backend='cvc5',
      desc='usecs_to_timeval(u): 0 <= tv_usec < 10^6, tv_sec*10^6 + tv_usec == u; timeval_to_usecs inverts it', bounds='all u < 2^63')
    q('timeval_to_usecs', 'h_timeval.c', {'MODE': 1}, 4, 300, backend='cvc5',
      desc='timeval_to_usecs(tv) == tv_sec*10^6 + tv_usec and usecs_to_timeval inverts it', bounds='0 <= tv_usec < 10^6, 0 <= tv_sec < 2^63/10^6 - 1')
    # ---- format_time ----------------------------------------------------------------------------------------------------------
    for sl in ((19,) if not thorough else (19, 20, 26)):
        q('ftime_text_s%d' % sl, 'h_ftime.c', {'SLEN': sl, 'CHECK': 0}, 130, 300,
          desc='format_time: gmtime_r/strftime/snprintf called once each with the right formats, tm and buffer arithmetic; result == date text + microsecond text',
          bounds='all t; strftime text length %d' % sl)
    q('ftime_values', 'h_ftime.c', {'SLEN': 19, 'CHECK': 1}, 130, 300, backend='cvc5',
      desc='format_time: seconds handed to gmtime_r and microseconds handed to snprintf satisfy secs*10^6 + us == t, us < 10^6', bounds='all 2^64 t')
    # ---- format_size / parse_size -------------------------------------------------------------------------------------------------
    q('format_size_ladder', 'h_fsize.c', {}, 34, 600,
      desc='format_size: unit == largest 1024^k <= size; byte count argument == size, included iff requested; value == (float)size / 1024^k exactly',
      bounds='all 2^64 sizes x include_bytes')
    for n in (range(0, 4) if not thorough else range(0, 6)):
        q('parse_size_len%d' % n, 'h_psize.c', {'LEN': n}, n + 3, 600,
          desc='parse_size on %d arbitrary bytes (no "."): == integer part * 1024^k (mod 2^64) for the unit letter after optional spaces; no overread' % n,
          bounds='length == %d, all byte values except "."' % n)
    if thorough:
        for n in (1, 2, 3):
            q('parse_size_dot_len%d' % n, 'h_psize.c', {'LEN': n, 'WITH_DOT': 1}, n + 3, 600,
              desc='parse_size on %d arbitrary bytes where a "." may follow the integer part but no digit follows the "."' % n, bounds='length == %d' % n)
    return qs
