ID = 'C18'
UNITS = {'time': dict(wrap='wrap.cc', new_block=64, per_harness={'h_ftime.c': {'new_block': 192}}),
         # dtx: the text-structure oracle of format_duration (h_durtext.c). Same wrapper TU; -fno-inline keeps std::to_string and
         # std::string::_M_create functions, which are cut: to_string -> integer token (h_durtext.c), _M_create -> reported bound
         # failure (sso_bound.c: every std::string <= 15 bytes; the longest correct text with one-byte tokens has 15)
         'dtx': dict(wrap='wrap.cc', new_block=64, cxxflags=['-fno-inline'], gen_defs=['VERIF_NEW_POOL=8'], ir2c_flags=['--ptrdiff', '--flat-unions'], extra_c=['sso_bound.c'],
                     cuts=['basic_stringIcSt11char_traitsIcESaIcEE9_M_createERmm$', '^_ZNSt7__cxx119to_stringE[imlyxj]$'])}
BOUNDS = ('format_duration: all 2^64 microsecond counts (split into the four magnitude classes, symbolic inside each) x precision {any negative, 0..6} '
          'x both admissible shapes of the seconds text (no exception, formats, pad, result text); integer field recomposition for 1 min <= usecs < 1 day. '
          'format_duration TEXT oracle (h_durtext.c, judges the returned string only): the same classes x precision {-1 quick / any negative thorough, 0, 6 quick / 0..6 thorough} x both shapes '
          '(structure, padding, precision, seconds value in [0,60) below one day); field values for 1 min <= usecs < 1 day, field ranges from one day; '
          'text + field recomposition together in 12 windows of 1-4 s (every usecs of the window symbolic): +-2 s around 1 s, 60 s, 3600 s, 86400 s, 1:01:00, 1d 1:01:00, 5d 1:11:10, and the last 2 s below 2^64, '
          'x precision {-1, 6} quick / {-1, 0, 1, 3, 6} thorough; exact seconds value below one minute (thorough). Every std::string of that unit <= 15 bytes. format_time: all 2^64 timestamps, date text length 19 (and 20, 26 in the thorough tier). '
          'usecs/timeval: all usecs < 2^63 and all normalised timevals below 2^63 us. format_size: all 2^64 sizes x include_bytes. '
          'parse_size: every NUL-terminated string of length 0..3 (quick) / 0..5 (thorough) over all 256 byte values without a fractional part.')
STUBS = [
    'vasprintf (h_duration.c): contract stub. "%.*lf"(p, v): records p and v, returns an ARBITRARY string of the shape the format guarantees '
    '(d+ for p == 0, else d+ "." d{p}; one integer digit if v < 9, two if v >= 10, either for 9 <= v < 10 because rounding may carry; digits arbitrary); '
    '"%lu:%s" / "%lu:%02lu:%s" / "%lu:%02lu:%02lu:%s": records the integers and the %s argument, returns the token "I" followed by the %s argument; '
    'any other format is an assertion failure. The decimal rendering itself (libc) is not modelled.',
    'vasprintf (h_durtext.c): generic token-emitting printf model, linked instead of libc in the native replay build too. Parses any format made of literal characters, %%, %c, %s, '
    '%[-+ 0]*[width|*][.prec|.*][hh|h|l|ll|z|j|t]{u,d,i} and %[-0]*[width|*][.prec|.*][l]{f,F}. An integer conversion emits ONE byte 0xC0|k (a token that cannot collide with digits, ":" or ".") and '
    'records (magnitude after the length-modifier truncation, negative?, width, minimum digits = precision, else the width if the 0 flag is effective, else 1; sign flag); no decimal digits are generated. '
    'The floating conversion records (precision, value) and emits ARBITRARY digits of the guaranteed shape (n integer digits, "." and p digits when p > 0; n = the cell\'s NINT, tied to the value as in '
    'h_duration.c unless SHAPE_TIED=0; width padding if the format asks for it). Any other conversion: assertion failure "UNMODELLED printf conversion". Bounds (reported): text < 40 bytes, '
    '<= 8 integer and <= 3 floating conversions per call of format_duration, float precision <= 8, %s argument < 24 bytes.',
    'std::to_string(int|unsigned|long|unsigned long|long long|unsigned long long) (h_durtext.c, unit dtx, generated-C modes only; not reached by today\'s format_duration): cut and replaced by the same '
    'one-byte integer token (width 0, one digit minimum). The native real build runs libstdc++\'s; the oracle reads a run of literal digits as an integer field too.',
    'std::string::_M_create (unit dtx, sso_bound.c): cut; reaching it is a reported bound failure (every std::string of the unit stays within the 15-byte small-string buffer; the longest correct '
    'format_duration text with one-byte tokens is T:T:T:0d.dddddd = 15 bytes).',
    'vasprintf (h_fsize.c): records format, integer and double argument of the format_size formats, returns the token "S"',
    'gmtime_r (h_ftime.c): records the time_t, fills struct tm with arbitrary values; strftime: records buffer, size, format, tm; writes SLEN arbitrary '
    'non-NUL bytes + NUL and returns SLEN (the real format needs 19 characters for years 1000..9999, at most 26 for any int year); snprintf: records '
    'buffer, size, format, value; writes "." + 6 arbitrary digits (truncated to size-1) + NUL and returns 7. Calendar arithmetic and digits are libc\'s.',
]
OUTSIDE = [
    'the rendered decimal digits of every field (libc printf) and therefore the textual claims "evaluates back to the input rounded at the printed precision" '
    'and "format_size and parse_size agree to the printed precision": decided only up to the exact values/format strings handed to the formatter',
    'calendar correctness of format_time (gmtime_r/strftime are libc): decided that gmtime_r gets t / 10^6, strftime gets that tm and "%Y-%m-%d %H:%M:%S", '
    'and the microsecond field is t % 10^6 printed with ".%06u"',
    'parse_size with digits after a decimal point (double accumulation of 0.1^k factors and the double -> size_t conversion); strings longer than 5 bytes',
    'format_time_natural, now() (local time zone / clock)',
    'format_duration text oracle (h_durtext.c): an implementation that does string surgery on the rendered INTEGER text (e.g. pads by looking at its length) is judged on one-byte tokens; the seconds '
    'must come from ONE floating conversion (an all-integer rendering of seconds and fraction would be rejected); a restructured formatter whose CONTROL FLOW depends on the remainders '
    '(seeded C18-r2m3: the days branch recurses on usecs - days*86400e6) is decided only in the window cells (dtxw_*: 4-150 s each under load) - on the whole-class days cells it gives no verdict '
    'in 900 s (eight 64-bit dividers; minisat, cadical, kissat); a value outside [0,60) handed to the floating conversion can leave a cell of the other shape without any path (reported VACUOUS = inconclusive, '
    'the field/value cells report the violation); a result longer than 15 bytes is a reported bound failure',
    'format_duration field arithmetic in the days class (usecs >= 86400 s): that days/hours/minutes recompose to the input needs '
    'floor(floor(x/a)/b) == floor(x/(ab)) across three 64-bit relational dividers; no verdict in 300-900 s with minisat, kissat, z3, cvc5 and cvc5 '
    '--solve-bv-as-int (also not for sub-ranges [2^48,2^52) and [2^60,2^64), nor for the days field alone; also not when usecs is built from symbolic days, hours, minutes, rest: 900 s minisat, 600 s kissat / cvc5); '
    'decided for the minutes and hours classes, for the field RANGES of the days class (dtx_ranges_m3) and completely inside the four days-class windows of h_durtext.c',
    'exactness of the double handed to "%.*lf" for durations >= 1 min ((double)usecs_part / 10^6 after the integer field subtraction): no verdict in 400-900 s '
    '(cvc5 FP; also not inside a 2 s window: minisat 900 s); decided below one minute in the thorough tier (dur_value_m0 500 s, dtx_value_m0 120 s)',
    'format_duration precisions above 6 (int8_t allows up to 127; the property quantifies -1..6)',
]
ASSUMPTIONS = [
    'libc printf renders "%.*lf" of a value in [0,60) with one integer digit when the value is below 9 and two when it is at least 10 (between 9 and 10 '
    'both are admitted), followed by "." and exactly p digits when p > 0',
    'x86-64 glibc: PRIu64 is "lu", struct tm starts with nine ints, time_t and suseconds_t are 64-bit',
]

RECURSION = '_ZN5phosg15format_durationB5cxx11Ema:2'  # a format_duration that calls itself is followed two levels deep (deeper = reported unwinding failure)
PRECS_DTX_QUICK = (-1, 0, 6)
PRECS_WIN_QUICK = (-1, 6)
PRECS_WIN_THOROUGH = (-1, 0, 1, 3, 6)
S_ = 1000000
# (tag, magnitude class, first usecs, last usecs, integer digits of the seconds text in the window)
DTX_WINDOWS = [
    ('s1_lo', 0, 0, 1 * S_ - 1, 1), ('s1_hi', 0, 1 * S_, 3 * S_, 1),
    ('min_lo', 0, 58 * S_, 60 * S_ - 1, 2), ('min_hi', 1, 60 * S_, 62 * S_, 1),
    ('hour_lo', 1, 3598 * S_, 3600 * S_ - 1, 2), ('hour_hi', 2, 3600 * S_, 3602 * S_, 1),
    ('day_lo', 2, 86398 * S_, 86400 * S_ - 1, 2), ('day_hi', 3, 86400 * S_, 86402 * S_, 1),
    ('h1m1', 2, 3660 * S_, 3662 * S_, 1),                       # 1:01:0x   every inner field one digit
    ('d1h1m1', 3, 90060 * S_, 90062 * S_, 1),                   # 1:01:01:0x
    ('d5h1', 3, 436270 * S_, 436274 * S_, 2),                   # 5:01:11:1x  (TimeTest's 5:11:11:12 minus ten hours)
    ('top', 3, 2 ** 64 - 2 * S_, 2 ** 64 - 1, 2),               # 213503982:08:01:4x, the last two seconds of the 2^64 range
]
PRECS_QUICK = (-1, 0, 1, 6)
PRECS_ALL = (-1, 0, 1, 2, 3, 4, 5, 6)
MAGN = {0: '< 1 min', 1: '1 min .. 1 h', 2: '1 h .. 1 day', 3: '>= 1 day'}


def queries(tier):
    thorough = tier != 'quick'
    qs = []

    def q(name, harness, defs, unwind, timeout=300, mem_gb=6, desc='', bounds='', **kw):
        d = dict(name=name, unit='time', harness=harness, defs=defs, unwind=unwind, timeout=timeout, mem_gb=mem_gb, desc=desc, bounds=bounds)
        d.update(kw)
        qs.append(d)

    # ---- format_duration -------------------------------------------------------------------------------------------------
    for mag in (0, 1, 2, 3):
        for p in (PRECS_ALL if thorough else PRECS_QUICK):
            for nint in (1, 2):
                pn = 'neg' if p < 0 else str(p)
                defs = {'MAG': mag, 'PREC': p, 'NINT': nint, 'CHECK': 0}
                if mag == 3:
                    defs['SHAPE_TIED'] = 0  # three 64-bit divisions feed the value: shape left arbitrary for every value (stronger claim)
                q('dur_m%d_p%s_n%d' % (mag, pn, nint), 'h_duration.c', defs, 26, 300,
                  desc='format_duration, usecs %s, precision %s, seconds text with %d integer digit(s): no exception; formats per magnitude class; '
                       'precision default; "0" pad iff one integer digit; result == integer text + seconds text' % (MAGN[mag], 'any negative' if p < 0 else p, nint),
                  bounds='all usecs of the class%s' % ('' if mag == 3 else ' whose seconds value admits that shape'))
    # ---- format_duration, text-structure oracle (h_durtext.c, unit dtx): judges the returned string only ---------------------------
    def dtx(name, defs, timeout=300, **kw):
        q(name, 'h_durtext.c', defs, 26, timeout, unit='dtx', unwindset=RECURSION, **kw)

    for mag in (0, 1, 2, 3):
        for p in (PRECS_ALL if thorough else PRECS_DTX_QUICK):
            for nint in (1, 2):
                pn = 'neg' if p < 0 else str(p)
                defs = {'MAG': mag, 'PREC': p, 'NINT': nint, 'CHECK': 0}
                if p < 0 and thorough:
                    defs['PNEG_ANY'] = 1  # every negative precision (symbolic); the quick tier takes -1
                if mag == 3:
                    defs['SHAPE_TIED'] = 0  # the value passes three 64-bit divisions: shape left arbitrary for every value (stronger claim), value range not asserted
                dtx('dtx_m%d_p%s_n%d' % (mag, pn, nint), defs, tv=(p < 0),
                    desc='format_duration text, usecs %s, precision %s, seconds text with %d integer digit(s): no exception; [D:][H:][M:]S with one integer field per unit of the '
                         'magnitude class; leading field unpadded, inner integer fields zero-padded to two digits; seconds = the text of one floating conversion with a two-digit '
                         'integer part when inner; precision requested or default%s' % (MAGN[mag], ('any negative' if thorough else -1) if p < 0 else p, nint, '' if mag == 3 else '; seconds value in [0,60)'),
                    bounds='all usecs of the class%s' % ('' if mag == 3 else ' whose seconds value admits that shape'))
    for mag in (1, 2):
        dtx('dtx_fields_m%d' % mag, {'MAG': mag, 'PREC': 1, 'NINT': 2, 'CHECK': 1}, 900, cost=1000, tv=False,
            desc='format_duration text (usecs %s): the integer fields read back from the text satisfy hours < 24, minutes < 60, leading field >= 1, usecs - (hours, minutes) in [0, 60 s)' % MAGN[mag],
            bounds='all usecs of the class')
    dtx('dtx_ranges_m3', {'MAG': 3, 'PREC': 1, 'NINT': 2, 'CHECK': 3}, 900, cost=1000, tv=False,
        desc='format_duration text (usecs >= 1 day): days field in [1, 2^64/86400e6], hours field < 24, minutes field < 60', bounds='all usecs of the class')
    # windows: +-2 s around every unit boundary (the property's quantifier) and places where every inner field is one digit / two digits / the top of the range.
    # With the high bits of usecs fixed the divisions are easy: text AND field recomposition are decided together, also in the days class, and also for an
    # implementation whose control flow depends on the remainders (a restructured formatter), which the whole-class cells cannot decide.
    for tag, mag, lo, hi, nint in DTX_WINDOWS:
        for p in (PRECS_WIN_THOROUGH if thorough else PRECS_WIN_QUICK):
            pn = 'neg' if p < 0 else str(p)
            dtx('dtxw_%s_p%s' % (tag, pn), {'MAG': mag, 'PREC': p, 'NINT': nint, 'CHECK': 6, 'USECS_LO': '%dULL' % lo, 'USECS_HI': '%dULL' % hi}, tv=False,
                desc='format_duration text + integer field values for %d <= usecs <= %d, precision %s (seconds text with %d integer digit(s)): structure, padding, precision, '
                     'seconds value in [0,60), hours < 24, minutes < 60, fields recompose to usecs' % (lo, hi, p, nint),
                bounds='all usecs of the window')
    if thorough:
        dtx('dtx_value_m0', {'MAG': 0, 'PREC': 1, 'NINT': 2, 'CHECK': 2, 'SHAPE_TIED': 0}, 1500, flags=['--cvc5', '--slice-formula'], cost=2000, tv=False,
            desc='format_duration text (usecs < 1 min): the value handed to the floating conversion whose text is returned is exactly (double)usecs / 1000000; SMT back end cvc5',
            bounds='all usecs < 60 s')
    for mag in (1, 2):
        q('dur_fields_m%d' % mag, 'h_duration.c', {'MAG': mag, 'PREC': 1, 'NINT': 2, 'CHECK': 1}, 26, 900, cost=1000,
          desc='format_duration integer fields (usecs %s): hours < 24, minutes < 60, leading field >= 1, usecs - (hours,minutes) in [0, 60 s)' % MAGN[mag],
          bounds='all usecs of the class')
    if thorough:
        q('dur_value_m0', 'h_duration.c', {'MAG': 0, 'PREC': 1, 'NINT': 2, 'CHECK': 2}, 26, 1500, flags=['--cvc5', '--slice-formula'], cost=2000,
          desc='the double handed to "%.*lf" is exactly (double)usecs / 1000000 (usecs < 1 min); SMT back end cvc5 (floating-point theory)',
          bounds='all usecs < 60 s')
    # ---- timeval ------------------------------------------------------------------------------------------------------------
    q('timeval_from_usecs', 'h_timeval.c', {'MODE': 0}, 4, 300, backend='cvc5',
      desc='usecs_to_timeval(u): 0 <= tv_usec < 10^6, tv_sec*10^6 + tv_usec == u; timeval_to_usecs inverts it', bounds='all u < 2^63')
    q('timeval_to_usecs', 'h_timeval.c', {'MODE': 1}, 4, 300, backend='cvc5',
      desc='timeval_to_usecs(tv) == tv_sec*10^6 + tv_usec and usecs_to_timeval inverts it', bounds='0 <= tv_usec < 10^6, 0 <= tv_sec < 2^63/10^6 - 1')
    # ---- format_time ----------------------------------------------------------------------------------------------------------
    for sl in ((19,) if not thorough else (19, 20, 26)):
        q('ftime_text_s%d' % sl, 'h_ftime.c', {'SLEN': sl, 'CHECK': 0}, 130, 300,
          desc='format_time: gmtime_r/strftime/snprintf called once each with the right formats, tm and buffer arithmetic; result == date text + microsecond text',
          bounds='all t; strftime text length %d' % sl)
    q('ftime_values', 'h_ftime.c', {'SLEN': 19, 'CHECK': 1}, 130, 300, backend='cvc5',
      desc='format_time: seconds handed to gmtime_r and microseconds handed to snprintf satisfy secs*10^6 + us == t, us < 10^6', bounds='all 2^64 t')
    # ---- format_size / parse_size -------------------------------------------------------------------------------------------------
    q('format_size_ladder', 'h_fsize.c', {}, 34, 600,
      desc='format_size: unit == largest 1024^k <= size; byte count argument == size, included iff requested; value == (float)size / 1024^k exactly',
      bounds='all 2^64 sizes x include_bytes')
    for n in (range(0, 4) if not thorough else range(0, 6)):
        q('parse_size_len%d' % n, 'h_psize.c', {'LEN': n}, n + 3, 600,
          desc='parse_size on %d arbitrary bytes (no "."): == integer part * 1024^k (mod 2^64) for the unit letter after optional spaces; no overread' % n,
          bounds='length == %d, all byte values except "."' % n)
    if thorough:
        for n in (1, 2, 3):
            q('parse_size_dot_len%d' % n, 'h_psize.c', {'LEN': n, 'WITH_DOT': 1}, n + 3, 600,
              desc='parse_size on %d arbitrary bytes where a "." may follow the integer part but no digit follows the "."' % n, bounds='length == %d' % n)
    return qs
