ID = 'C18'
UNITS = {'time': dict(wrap='wrap.cc', new_block=64, per_harness={'h_ftime.c': {'new_block': 192}})}
BOUNDS = ''
STUBS = []
OUTSIDE = []
ASSUMPTIONS = []

def queries(tier):
    qs = []
    def q(name, harness, defs, unwind, timeout=300, mem_gb=6, desc='', bounds='', **kw):
        d = dict(name=name, unit='time', harness=harness, defs=defs, unwind=unwind, timeout=timeout, mem_gb=mem_gb, desc=desc, bounds=bounds)
        d.update(kw)
        qs.append(d)
    for mag in (1, 3):
        q('dur_m%d_p0_n1' % mag, 'h_duration.c', {'MAG': mag, 'PREC': 0, 'NINT': 1, 'CHECK': 0}, 26, 120)
    for mode in (0, 1):
        for be in ('', 'kissat', 'cvc5'):
            q('timeval_%d_%s' % (mode, be), 'h_timeval.c', {'MODE': mode}, 4, 120, backend=be)
    q('ftime_s19', 'h_ftime.c', {'SLEN': 19, 'CHECK': 0}, 130, 300)
    for be in ('', 'kissat', 'cvc5'):
        q('ftime_val_%s' % be, 'h_ftime.c', {'SLEN': 19, 'CHECK': 1}, 130, 300, backend=be)
    q('fsize', 'h_fsize.c', {}, 34, 300)
    for n in (0, 1, 2, 3):
        q('psize_len%d' % n, 'h_psize.c', {'LEN': n}, n + 3, 300)
    return qs
