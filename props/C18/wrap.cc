// C18 wrappers: Time.cc (format_duration, format_time, usecs_to_timeval, timeval_to_usecs), Strings.cc (format_size, parse_size)
#include "wrap.hh"
#include "Strings.cc"
#include "Time.cc"
using namespace phosg;

WEXPORT int64_t w_format_duration(uint64_t usecs, int32_t precision, uint8_t* out, size_t cap) {
  try {
    return w_copy_out(format_duration(usecs, static_cast<int8_t>(precision)), out, cap);
  }
  W_CATCH_ALL
}
WEXPORT int64_t w_format_time(uint64_t t, uint8_t* out, size_t cap) {
  try {
    return w_copy_out(format_time(t), out, cap);
  }
  W_CATCH_ALL
}
WEXPORT int64_t w_usecs_to_timeval(uint64_t usecs, int64_t* out) {
  try {
    struct timeval tv = usecs_to_timeval(usecs);
    out[0] = tv.tv_sec;
    out[1] = tv.tv_usec;
    return 0;
  }
  W_CATCH_ALL
}
WEXPORT int64_t w_timeval_to_usecs(int64_t sec, int64_t usec, uint64_t* out) {
  try {
    struct timeval tv;
    tv.tv_sec = sec;
    tv.tv_usec = usec;
    *out = timeval_to_usecs(tv);
    return 0;
  }
  W_CATCH_ALL
}
WEXPORT int64_t w_format_size(uint64_t size, int include_bytes, uint8_t* out, size_t cap) {
  try {
    return w_copy_out(format_size(size, include_bytes != 0), out, cap);
  }
  W_CATCH_ALL
}
WEXPORT int64_t w_parse_size(const uint8_t* str, uint64_t* out) {
  try {
    *out = parse_size(reinterpret_cast<const char*>(str));
    return 0;
  }
  W_CATCH_ALL
}
