/* C18: format_time(t) = strftime("%Y-%m-%d %H:%M:%S", gmtime_r(t / 10^6)) + snprintf(".%06u", t % 10^6).
 * libc calendar and digit rendering are contract stubs that record what they are handed:
 *   gmtime_r(&secs, &tm)        -> records secs, fills tm with arbitrary (symbolic) field values, returns &tm
 *   strftime(buf, max, fmt, tm) -> records everything, writes SLEN arbitrary non-NUL bytes + NUL, returns SLEN
 *                                  (SLEN = concrete cell; the real format yields 19 chars for years 1000..9999, up to 26 for any int year)
 *   snprintf(buf, n, fmt, v)    -> records everything, writes '.' + 6 arbitrary digits (truncated to n-1) + NUL, returns 7
 * Decided for all 2^64 t: secs * 10^6 + usec_arg == t with usec_arg < 10^6; the tm given to strftime is the one gmtime_r filled;
 * format strings and buffer arithmetic (max == 128, snprintf writes at buf + SLEN with n == 128 - SLEN); the result is the
 * strftime text followed by the snprintf text; no exception. */
#include <stdarg.h>
#include "harness.h"
int64_t w_format_time(uint64_t t, uint8_t* out, uint64_t cap);
#ifndef SLEN
#define SLEN 19
#endif
static int n_gm, n_sf, n_sn;
static uint64_t gm_secs;
static uint32_t gm_tm[9];
static int sf_tm_same, sf_fmt_ok, sn_fmt_ok, sn_ptr_ok;
static uint64_t sf_max, sn_n;
static uint8_t* sf_buf;
static uint8_t sf_text[32], sn_text[8];
static uint32_t sn_val;

static int str_eq(const uint8_t* a, const char* b) {
  for (int i = 0; i < 24; i++) { if (a[i] != (uint8_t)b[i]) return 0; if (!a[i]) return 1; }
  return 0;
}
uint8_t* STUB(gmtime_r)(uint64_t* t, uint8_t* tm_) {
  uint32_t* tm = (uint32_t*)tm_;
  n_gm++;
  gm_secs = *t;
  for (int i = 0; i < 9; i++) { gm_tm[i] = in_u32(); tm[i] = gm_tm[i]; }
  for (int i = 36; i < 56; i++) tm_[i] = 0; /* tm_gmtoff, tm_zone */
  return tm_;
}
uint64_t STUB(strftime)(uint8_t* s, uint64_t max, uint8_t* fmt, uint8_t* tm_) {
  uint32_t* tm = (uint32_t*)tm_;
  n_sf++;
  sf_buf = s; sf_max = max;
  sf_fmt_ok = str_eq(fmt, "%Y-%m-%d %H:%M:%S");
  sf_tm_same = 1;
  for (int i = 0; i < 9; i++) if (tm[i] != gm_tm[i]) sf_tm_same = 0;
  ASSERT(max > SLEN, "strftime buffer large enough for the text");
  if (!(max > SLEN)) return 0;
  for (int i = 0; i < SLEN; i++) {
#if CHECK == 0
    uint8_t c = (uint8_t)in_range(1, 255);
#else
    uint8_t c = 'x'; /* the value check does not look at the text: keep the input vector free of constrained inputs (replayable from a sliced SMT model) */
#endif
    sf_text[i] = c; s[i] = c;
  }
  s[SLEN] = 0;
  return SLEN;
}
#ifdef VERIF_NATIVE_REAL
int snprintf(char* s_, size_t n, const char* fmt_, ...) {
#else
uint32_t X_snprintf(uint8_t* s_, uint64_t n, uint8_t* fmt_, ...) {
#endif
  uint8_t* s = (uint8_t*)s_;
  va_list va;
  va_start(va, fmt_);
  n_sn++;
  sn_fmt_ok = str_eq((const uint8_t*)fmt_, ".%06u");
  sn_val = va_arg(va, uint32_t);
  va_end(va);
  sn_n = n;
  sn_ptr_ok = (s == sf_buf + SLEN);
  sn_text[0] = '.';
#if CHECK == 0
  for (int i = 1; i < 7; i++) sn_text[i] = (uint8_t)in_range('0', '9');
#else
  for (int i = 1; i < 7; i++) sn_text[i] = '0';
#endif
  sn_text[7] = 0;
  if (n > 0) {
    uint64_t k = 0;
    for (; k < 7 && k + 1 < n; k++) s[k] = sn_text[k];
    s[k] = 0;
  }
  return 7;
}

void harness(void) {
  uint64_t t = in_u64();
  uint8_t out[64];
  int64_t rc = w_format_time(t, out, sizeof(out));
  OBS(rc);
  ASSERT(rc >= 0, "format_time does not throw");
  if (rc < 0) return;
  for (int i = 0; i < rc; i++) OBS(out[i]);
  ASSERT(n_gm == 1 && n_sf == 1 && n_sn == 1, "gmtime_r, strftime, snprintf called once each");
#if CHECK == 0
  ASSERT(sf_fmt_ok, "strftime format is %Y-%m-%d %H:%M:%S");
  ASSERT(sf_tm_same, "strftime gets the broken-down time gmtime_r produced");
  ASSERT(sf_max == 128, "strftime buffer size");
  ASSERT(sn_fmt_ok, "microsecond format is .%06u");
  ASSERT(sn_ptr_ok && sn_n == 128 - SLEN, "microsecond text is written right behind the date text, inside the buffer");
  ASSERT(rc == SLEN + 7, "result length == date text + 7");
  if (rc == SLEN + 7) {
    for (int i = 0; i < SLEN; i++) ASSERT(out[i] == sf_text[i], "result starts with the strftime text");
    for (int i = 0; i < 7; i++) ASSERT(out[SLEN + i] == sn_text[i], "result ends with the microsecond text");
  }
#else
  ASSERT(sn_val < 1000000, "microsecond field < 10^6");
  ASSERT(gm_secs <= 0xFFFFFFFFFFFFFFFFULL / 1000000, "seconds in range");
  ASSERT(gm_secs * 1000000ULL + sn_val == t, "seconds * 10^6 + microseconds == t");
#endif
}
