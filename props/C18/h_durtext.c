/* C18: TEXT-STRUCTURE oracle for format_duration(usecs, precision): judges only the RETURNED STRING, never which formatter
 * calls were made, in what order or with which format literals (h_duration.c does that for today's implementation).
 *
 * libc's number formatting is replaced by a generic token-emitting printf model (vasprintf; linked instead of libc in the native
 * replay build too). It parses ANY format made of literal characters, %%, %c, %s, integer conversions
 * %[-+ 0]*[width|*][.prec|.*][hh|h|l|ll|z|j|t]{u,d,i} and the fixed floating conversion %[-0]*[width|*][.prec|.*][l]{f,F}:
 *   integer conversion -> ONE byte 0xC0|k (a TOKEN; cannot collide with digits, ':' or '.') and table entry k = (magnitude after the
 *                         length-modifier truncation, negative?, field width, minimum number of digits = precision, else the width
 *                         when the 0 flag is effective, else 1; sign flag). Decimal digits are never generated (they stall the solver).
 *   floating conversion -> the "seconds text": arbitrary digits of the shape the format guarantees - n integer digits, then '.' and
 *                         p digits when p > 0 - with n tied to the value (v < 9: 1, v >= 10: 2, 9 <= v < 10: either (rounding may
 *                         carry)), preceded by width padding if the format asks for it; table entry (p, v, text).
 *                         The cell fixes n (NINT) among the admissible shapes (case split outside the solver).
 *   std::to_string(integer), if the code under test reaches it (unit 'dtx' cuts it): same token, width 0, one digit minimum
 *                         (generated-C modes; the native real build runs libstdc++'s and the oracle then reads the literal digits).
 * Any other conversion is an assertion failure "UNMODELLED printf conversion" (inconclusive), never a guess.
 *
 * Oracle, on the final text only:  [D ':'] [H ':'] [M ':'] S
 *   - each of D, H, M is ONE integer field: a token, or a run of literal decimal digits (read as rendered text);
 *   - the number of integer fields is the magnitude class MAG of usecs (0: < 1 min, 1: < 1 h, 2: < 1 day, 3: >= 1 day);
 *   - the leading field is unpadded (token: minimum digits 1, width <= 1, no sign), every INNER integer field is zero-padded to two
 *     digits (token: minimum digits 2 and width <= 2, so that no blank padding can appear; literal: exactly two digits);
 *   - S is '0'* followed by the text of ONE recorded floating conversion; its integer part has exactly two digits when S is an inner
 *     field (the text has two, or one and a single '0' precedes it) and is the bare text when S is the only field;
 *   - that conversion had precision == the requested one, or the default of the class (6 below one minute, 3 below one hour, else 0);
 *   - CHECK 0 (SHAPE_TIED): its value lies in [0, 60);
 *   - CHECK 1: integer field values: leading >= 1, hours < 24, minutes < 60, usecs - (days, hours, minutes) in [0, 60 s);
 *   - CHECK 3: days class, the part the solver reaches: days >= 1 (and <= 2^64/86400e6), hours < 24, minutes < 60;
 *   - CHECK 6 (window cells, USECS_LO..USECS_HI): CHECK 0 and CHECK 1 together (with the high bits of usecs fixed the dividers are easy);
 *   - CHECK 2: the value handed to the floating conversion is exactly (double)(usecs - days.. - hours.. - minutes..) / 1000000.
 * Limits (stated in spec/NOTES): an implementation that does string surgery on the rendered INTEGER text (e.g. pads by looking
 * at its length) is judged on one-byte tokens; the seconds must come from one floating conversion. */
#include <stdarg.h>
#include <stdlib.h>
#include "harness.h"
int64_t w_format_duration(uint64_t usecs, uint32_t precision, uint8_t* out, uint64_t cap);

#ifndef CHECK
#define CHECK 0
#endif
/* CHECK 0: text; 1: integer field values; 2: exact seconds value; 3: days-class field ranges; 6: text + integer field values (window cells) */
#define DO_TEXT (CHECK == 0 || CHECK == 6)
#define DO_FIELDS (CHECK == 1 || CHECK == 6)
#define DO_RANGES (CHECK == 3)
#define DO_VALUE (CHECK == 2)
#ifndef SHAPE_TIED /* 1: the number of integer digits of the seconds text follows the value; 0: the cell's NINT for any value */
#define SHAPE_TIED DO_TEXT
#endif

#define IS_TOK(c) (((c) & 0xF0u) == 0xC0u)
#define IS_DIG(c) ((c) >= '0' && (c) <= '9')
#define TOKMAX 8
struct itok { uint64_t mag; uint8_t neg, width, mind, sign; };
static struct itok itab[TOKMAX];
static int ntok;
#define FLTMAX 3
#define FTXT 12
struct ftok { int prec; double val; uint8_t txt[FTXT]; uint8_t len, nint; };
static struct ftok ftab[FLTMAX];
static int nflt;
#define OUTCAP 40

static uint8_t new_token(uint64_t mag, int neg, unsigned width, unsigned mind, int sign) {
  ASSERT(ntok < TOKMAX, "BOUND: at most 8 integer conversions per call of format_duration");
  ASSUME(ntok < TOKMAX);
  ASSERT(width < 32 && mind < 32, "BOUND: integer field width / precision below 32");
  ASSUME(width < 32 && mind < 32);
  int k = ntok++;
  itab[k].mag = mag; itab[k].neg = (uint8_t)neg; itab[k].width = (uint8_t)width; itab[k].mind = (uint8_t)mind; itab[k].sign = (uint8_t)sign;
  return (uint8_t)(0xC0u | (unsigned)k);
}

#ifdef VERIF_NATIVE_REAL
int vasprintf(char** outp, const char* fmt, va_list va_in) {
  va_list va;
  va_copy(va, va_in);
#else
uint32_t X_vasprintf(uint8_t* outp_, uint8_t* fmt_, uint8_t* va_) {
  char** outp = (char**)outp_;
  const char* fmt = (const char*)fmt_;
  va_list va;
  va_copy(va, *(va_list*)va_);
#endif
  char* buf = (char*)malloc(OUTCAP);
#ifdef VERIF_CBMC
  __CPROVER_assume(buf != 0);
#endif
  unsigned n = 0;
#define PUT(c) do { if (n < OUTCAP - 1) buf[n] = (char)(c); n++; } while (0)
  for (unsigned i = 0; i < 40 && fmt[i]; i++) {
    char c = fmt[i];
    if (c != '%') { PUT(c); continue; }
    i++;
    if (fmt[i] == '%') { PUT('%'); continue; }
    int zero = 0, left = 0, sign = 0, unmodelled = 0;
    for (int g = 0; g < 5; g++) {
      c = fmt[i];
      if (c == '0') zero = 1; else if (c == '-') left = 1; else if (c == '+') sign = '+'; else if (c == ' ') { if (!sign) sign = ' '; } else break;
      i++;
    }
    int width = 0, prec = -1;
    if (fmt[i] == '*') { width = va_arg(va, int); if (width < 0) { left = 1; width = -width; } i++; }
    else for (int g = 0; g < 3 && IS_DIG(fmt[i]); g++) { width = width * 10 + (fmt[i] - '0'); i++; }
    if (fmt[i] == '.') {
      i++; prec = 0;
      if (fmt[i] == '*') { prec = va_arg(va, int); if (prec < 0) prec = -1; i++; } /* a negative precision argument counts as omitted */
      else for (int g = 0; g < 3 && IS_DIG(fmt[i]); g++) { prec = prec * 10 + (fmt[i] - '0'); i++; }
    }
    int len = 0; /* -2 hh, -1 h, 0 none, 1 l/z/j/t, 2 ll */
    if (fmt[i] == 'h') { len = -1; i++; if (fmt[i] == 'h') { len = -2; i++; } }
    else if (fmt[i] == 'l') { len = 1; i++; if (fmt[i] == 'l') { len = 2; i++; } }
    else if (fmt[i] == 'z' || fmt[i] == 'j' || fmt[i] == 't') { len = 1; i++; }
    char cv = fmt[i];
    if (cv == 'c' && len == 0) { int ch = va_arg(va, int); PUT(ch); }
    else if (cv == 's' && len == 0 && prec < 0 && width == 0) {
      const char* s = va_arg(va, const char*);
      for (unsigned k = 0; k < 24 && s[k]; k++) PUT(s[k]);
    } else if (cv == 'u' || cv == 'd' || cv == 'i') {
      uint64_t raw, mag; int neg = 0;
      if (len >= 1) raw = va_arg(va, uint64_t); else raw = (uint64_t)va_arg(va, unsigned int);
      if (cv == 'u') mag = len >= 1 ? raw : len == 0 ? (uint64_t)(uint32_t)raw : len == -1 ? (uint64_t)(uint16_t)raw : (uint64_t)(uint8_t)raw;
      else {
        int64_t sv = len >= 1 ? (int64_t)raw : len == 0 ? (int64_t)(int32_t)raw : len == -1 ? (int64_t)(int16_t)raw : (int64_t)(int8_t)raw;
        neg = sv < 0; mag = neg ? (uint64_t)0 - (uint64_t)sv : (uint64_t)sv;
      }
      unsigned mind = prec >= 0 ? (unsigned)prec : (zero && !left && width > 0) ? (unsigned)width : 1u;
      PUT(new_token(mag, neg, (unsigned)width, mind, cv == 'u' ? 0 : sign));
    } else if ((cv == 'f' || cv == 'F') && (len == 0 || len == 1)) {
      double v = va_arg(va, double);
      int p = prec < 0 ? 6 : prec;
      ASSERT(p <= 8, "BOUND: floating conversion with at most 8 fraction digits");
      ASSUME(p <= 8);
      ASSERT(width <= 16, "BOUND: floating conversion field width at most 16");
      ASSUME(width <= 16);
      ASSERT(nflt < FLTMAX, "BOUND: at most 3 floating conversions per call of format_duration");
      ASSUME(nflt < FLTMAX);
      int k = nflt++;
#ifdef NINT
      int nint = NINT; /* cell: number of integer digits of the seconds text (case split outside the solver) */
#else
      int nint = (int)in_range(1, 2);
#endif
#if SHAPE_TIED
      /* the text LENGTH stays the cell's constant; a value outside [0,60) (which libc would print with more digits, a sign or as
       * "nan") keeps the cell's shape and is rejected by the oracle through the recorded value */
      if (v < 9.0) ASSUME(nint == 1);
      if (v >= 10.0) ASSUME(nint == 2);
#endif
      int natural = nint + (p > 0 ? 1 + p : 0);
      if (!left) for (int g = 0; g < 16; g++) if (g + natural < width) PUT(zero ? '0' : ' ');
      unsigned m = 0;
      for (int g = 0; g < 3; g++) if (g < nint) { uint8_t d = (uint8_t)in_range('0', '9'); ftab[k].txt[m++] = d; PUT(d); }
      if (p > 0) {
        ftab[k].txt[m++] = '.'; PUT('.');
        for (int g = 0; g < 8; g++) if (g < p) { uint8_t d = (uint8_t)in_range('0', '9'); ftab[k].txt[m++] = d; PUT(d); }
      }
      if (left) for (int g = 0; g < 16; g++) if (g + natural < width) PUT(' ');
      ftab[k].prec = p; ftab[k].val = v; ftab[k].len = (uint8_t)m; ftab[k].nint = (uint8_t)nint;
    } else unmodelled = 1;
    ASSERT(!unmodelled, "UNMODELLED printf conversion");
    ASSUME(!unmodelled);
  }
  ASSERT(n < OUTCAP, "BOUND: formatted text shorter than 40 characters");
  ASSUME(n < OUTCAP);
  buf[n] = 0;
  *outp = buf;
  va_end(va);
  return (uint32_t)n;
}

#ifndef VERIF_NATIVE_REAL
/* std::string std::to_string(integer), cut in unit 'dtx': sret pointer to an uninitialised std::string {char* data; size_t size; char buf[16]};
 * the text is the one-byte token of an unpadded integer conversion */
static void to_string_token(uint8_t* ret, uint64_t mag, int neg) {
  uint8_t* b = ret + 16;
  b[0] = new_token(mag, neg, 0, 1, 0);
  b[1] = 0;
  *(uint8_t**)ret = b;
  *(uint64_t*)(ret + 8) = 1;
}
void X__ZNSt7__cxx119to_stringEm(uint8_t* ret, uint64_t v) { to_string_token(ret, v, 0); }
void X__ZNSt7__cxx119to_stringEy(uint8_t* ret, uint64_t v) { to_string_token(ret, v, 0); }
void X__ZNSt7__cxx119to_stringEj(uint8_t* ret, uint32_t v) { to_string_token(ret, v, 0); }
void X__ZNSt7__cxx119to_stringEl(uint8_t* ret, uint64_t v) { int neg = (int64_t)v < 0; to_string_token(ret, neg ? (uint64_t)0 - v : v, neg); }
void X__ZNSt7__cxx119to_stringEx(uint8_t* ret, uint64_t v) { int neg = (int64_t)v < 0; to_string_token(ret, neg ? (uint64_t)0 - v : v, neg); }
void X__ZNSt7__cxx119to_stringEi(uint8_t* ret, uint32_t v) { int neg = (int32_t)v < 0; to_string_token(ret, neg ? (uint64_t)(0u - v) : (uint64_t)v, neg); }
#endif

#define US 1000000ULL
struct field { uint64_t val; uint8_t is_tok, neg, width, mind, sign, ndig, first; };

void harness(void) {
  uint64_t usecs = in_u64();
#if MAG == 0
  ASSUME(usecs < 60 * US);
#elif MAG == 1
  ASSUME(usecs >= 60 * US && usecs < 3600 * US);
#elif MAG == 2
  ASSUME(usecs >= 3600 * US && usecs < 86400 * US);
#else
  ASSUME(usecs >= 86400 * US);
#endif
#ifdef USECS_LO
  ASSUME(usecs >= USECS_LO && usecs <= USECS_HI); /* optional sub-range of the class (case split outside the solver) */
#endif
#if PREC < 0 && defined(PNEG_ANY)
  int32_t p = (int32_t)in_irange(-128, -1); /* any negative precision (symbolic): 20-110 s per cell */
#else
  int32_t p = PREC;
#endif
  uint8_t out[OUTCAP];
  int64_t rc = w_format_duration(usecs, (uint32_t)p, out, sizeof(out));
  OBS(rc < 0 ? rc : 0);
  ASSERT(rc != -1, "format_duration does not throw out_of_range");
  ASSERT(rc != -100, "BOUND: result shorter than 40 characters");
  ASSERT(rc >= 0, "format_duration does not throw");
  if (rc < 0) return;

  /* ---- parse the text: integer fields, each followed by ':' ------------------------------------------------------------- */
  struct field f[4];
  int nf = 0, pos = 0;
  for (int k = 0; k < 4; k++) {
    if (nf != k) break;
    struct field x = {0, 0, 0, 0, 0, 0, 0, 0};
    if (pos < rc && IS_TOK(out[pos])) {
      if (pos + 1 < rc && out[pos + 1] == ':') {
        struct itok t = itab[out[pos] & 0x7u];
        x.is_tok = 1; x.val = t.mag; x.neg = t.neg; x.width = t.width; x.mind = t.mind; x.sign = t.sign;
        f[nf++] = x; pos += 2;
      }
    } else if (pos < rc && IS_DIG(out[pos])) {
      int j = pos, nd = 0;
      uint64_t v = 0;
      for (int t = 0; t < 10; t++) if (nd == t && j < rc && IS_DIG(out[j])) { v = v * 10 + (uint64_t)(out[j] - '0'); nd++; j++; }
      if (j < rc && out[j] == ':') {
        x.val = v; x.ndig = (uint8_t)nd; x.first = out[pos];
        f[nf++] = x; pos = j + 1;
      }
    }
  }
  OBS(nf);
  ASSERT(nf == MAG, "number of integer fields before the seconds: none below one minute, minutes from 1 min, hours from 1 h, days from 1 day");
  if (nf != MAG) return;

  /* ---- the rest is the seconds text: '0'* + the text of one recorded floating conversion ---------------------------------- */
  int rest = (int)rc - pos;
  int km = -1, zeros = 0;
  for (int k = FLTMAX - 1; k >= 0; k--) {
    if (k >= nflt) continue;
    int z = rest - (int)ftab[k].len;
    int ok = z >= 0 && z <= 2;
    for (int i = 0; i < 2; i++) if (i < z && out[pos + i] != '0') ok = 0;
    for (int i = 0; i < FTXT; i++) if (ok && i < ftab[k].len && out[pos + z + i] != ftab[k].txt[i]) ok = 0;
    if (ok) { km = k; zeros = z; }
  }
  ASSERT(km >= 0, "the text ends with the seconds text of a floating conversion (preceded by nothing but '0')");
  if (km < 0) return;
  struct ftok s = ftab[km];
  for (int i = 0; i < rest; i++) OBS(out[pos + i]);

  uint64_t d = 0, h = 0, m = 0;
  if (MAG == 1) m = f[0].val;
  else if (MAG == 2) { h = f[0].val; m = f[1].val; }
  else if (MAG == 3) { d = f[0].val; h = f[1].val; m = f[2].val; }
  int negative = 0;
  for (int k = 0; k < MAG; k++) if (f[k].neg) negative = 1;
  ASSERT(!negative, "no integer field is negative");

#if DO_TEXT
  for (int k = 0; k < MAG; k++) {
    if (f[k].is_tok) {
      ASSERT(!f[k].sign, "integer fields carry no sign flag");
      if (k == 0) ASSERT(f[k].mind == 1 && f[k].width <= 1, "the leading field is not padded");
      else ASSERT(f[k].mind == 2 && f[k].width <= 2, "every inner integer field is zero-padded to two digits");
    } else {
      if (k == 0) ASSERT(f[k].ndig == 1 || f[k].first != '0', "the leading field is not padded");
      else ASSERT(f[k].ndig == 2, "every inner integer field is zero-padded to two digits");
    }
  }
  if (MAG == 0) ASSERT(zeros == 0 && s.nint <= 2, "a duration below one minute is the bare seconds text");
  else ASSERT(zeros + s.nint == 2, "inner seconds field has a two-digit integer part (a '0' precedes a one-digit seconds text)");
  ASSERT(s.prec == (p < 0 ? (MAG <= 0 ? 6 : MAG == 1 ? 3 : 0) : p), "precision (defaults: 6 below one minute, 3 below one hour, else 0)");
#if SHAPE_TIED
  ASSERT(s.val >= 0.0 && s.val < 60.0, "seconds value handed to the floating conversion in [0,60)");
#endif
#endif
#if DO_FIELDS
  uint64_t whole = d * 86400 * US + h * 3600 * US + m * 60 * US;
  if (MAG == 1) ASSERT(m >= 1 && m < 60, "minutes field in [1,60)");
  if (MAG == 2) { ASSERT(h >= 1 && h < 24, "hours field in [1,24)"); ASSERT(m < 60, "minutes field < 60"); }
  if (MAG == 3) { ASSERT(d >= 1 && d <= 213503982ULL, "days field in [1, 2^64/86400e6]"); ASSERT(h < 24, "hours field < 24"); ASSERT(m < 60, "minutes field < 60"); }
  ASSERT(whole <= usecs && usecs - whole < 60 * US, "fields recompose: usecs - (days, hours, minutes) in [0, 60 s)");
#endif
#if DO_RANGES
  ASSERT(d >= 1 && d <= 213503982ULL, "days field in [1, 2^64/86400e6]");
  ASSERT(h < 24, "hours field < 24");
  ASSERT(m < 60, "minutes field < 60");
#endif
#if DO_VALUE
  /* remaining microseconds written in the same shape as the definition (helps the SMT solver's congruence closure) */
  uint64_t left = MAG == 0 ? usecs : MAG == 1 ? usecs - m * 60000000ULL : MAG == 2 ? usecs - h * 3600000000ULL - m * 60000000ULL
                                   : usecs - d * 86400000000ULL - h * 3600000000ULL - m * 60000000ULL;
  ASSERT(s.val == (double)left / 1000000.0, "seconds value == remaining usecs / 10^6");
#endif
}
