/* C18: usecs_to_timeval / timeval_to_usecs are exact inverses.
 * MODE 0: u < 2^63: tv = usecs_to_timeval(u) has 0 <= tv_usec < 10^6 and tv_sec*10^6 + tv_usec == u; timeval_to_usecs(tv) == u.
 * MODE 1: normalised tv (0 <= tv_usec < 10^6, 0 <= tv_sec, total < 2^63): usecs_to_timeval(timeval_to_usecs(tv)) == tv. */
#include "harness.h"
int64_t w_usecs_to_timeval(uint64_t usecs, uint64_t* out);
int64_t w_timeval_to_usecs(uint64_t sec, uint64_t usec, uint64_t* out);
#define US 1000000ULL
void harness(void) {
  uint64_t tv[2] = {0, 0}, back = 0;
#if MODE == 0
  uint64_t u = in_range(0, 0x7FFFFFFFFFFFFFFFULL);
  ASSERT(w_usecs_to_timeval(u, tv) == 0, "usecs_to_timeval does not throw");
  OBS(tv[0]); OBS(tv[1]);
  ASSERT(tv[1] < US, "0 <= tv_usec < 10^6");
  ASSERT(tv[0] <= 0x7FFFFFFFFFFFFFFFULL / US, "tv_sec in range");
  ASSERT(tv[0] * US + tv[1] == u, "tv_sec * 10^6 + tv_usec == usecs");
  ASSERT(w_timeval_to_usecs(tv[0], tv[1], &back) == 0, "timeval_to_usecs does not throw");
  OBS(back);
  ASSERT(back == u, "timeval_to_usecs(usecs_to_timeval(u)) == u");
#else
  uint64_t sec = in_range(0, 0x7FFFFFFFFFFFFFFFULL / US - 1), us = in_range(0, US - 1);
  ASSERT(w_timeval_to_usecs(sec, us, &back) == 0, "timeval_to_usecs does not throw");
  OBS(back);
  ASSERT(back == sec * US + us, "timeval_to_usecs == tv_sec * 10^6 + tv_usec");
  ASSERT(w_usecs_to_timeval(back, tv) == 0, "usecs_to_timeval does not throw");
  ASSERT(tv[0] == sec && tv[1] == us, "usecs_to_timeval(timeval_to_usecs(tv)) == tv");
#endif
}
