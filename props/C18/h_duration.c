/* C18: format_duration(usecs, precision) for ALL 2^64 usecs x precision -128..6 (negative = default).
 * Cells (case split outside the solver): MAG = magnitude class 0: < 1 min, 1: < 1 h, 2: < 1 day, 3: >= 1 day (usecs stays symbolic
 * inside the class); PREC = -1 (any negative value, symbolic) or 0..6; NINT = number of integer digits (1|2) of the seconds text.
 * CHECK 0: no exception + string surgery (formats, precision defaults, pad, result text), seconds text shape tied to the value;
 * CHECK 1: integer field arithmetic (ranges, recomposition); CHECK 3: days class: days field and ranges only; CHECK 2: the double handed to "%.*lf" is exactly
 *          (double)remaining_usecs / 1000000.  In CHECK 1/2 the shape of the seconds text is NOT tied to the value (any NINT).
 * libc's number formatting is a contract stub (vasprintf): it RECORDS the format and the numeric arguments and returns
 *   "%.*lf"(p, v)          -> an arbitrary string of the guaranteed shape: d+ if p == 0 else d+ '.' d{p}; the integer part has one
 *                             digit when v < 9, two when v >= 10, either when 9 <= v < 10 (rounding may carry); digits arbitrary
 *   "%lu:[%02lu:[%02lu:]]%s" -> "I" followed by the %s argument (the rendered integers are replaced by the token "I")
 * Decided: no exception; which formats are used for which magnitude; precision defaults; the recorded integer fields are in
 * range and recompose to the input; the value handed to "%.*lf" is exactly (double)usecs_part / 1000000; the "0" pad is passed
 * iff the seconds string has a one-digit integer part; the result is the integer text followed by the seconds text. */
#include <stdarg.h>
#include <stdlib.h>
#include "harness.h"
int64_t w_format_duration(uint64_t usecs, uint32_t precision, uint8_t* out, uint64_t cap);

#ifndef CHECK
#define CHECK 0
#endif
#ifndef SHAPE_TIED /* 1: the number of integer digits of the seconds text follows the value; 0: any shape for any value */
#define SHAPE_TIED (CHECK == 0)
#endif
enum { F_SEC = 1, F_M, F_HM, F_DHM };
#define MAXCALL 3
static struct {
  int kind, prec;
  double val;
  uint64_t iv[3];
  char sarg[4];
  int sarg_len;
  char ret[16];
  int ret_len;
} rec[MAXCALL];
static int ncall;

static int str_eq(const char* a, const char* b) {
  for (int i = 0; i < 24; i++) { if (a[i] != b[i]) return 0; if (!a[i]) return 1; }
  return 0;
}

#ifdef VERIF_NATIVE_REAL
int vasprintf(char** outp, const char* fmt, va_list va_in) {
  va_list va;
  va_copy(va, va_in);
#else
uint32_t X_vasprintf(uint8_t* outp_, uint8_t* fmt_, uint8_t* va_) {
  char** outp = (char**)outp_;
  const char* fmt = (const char*)fmt_;
  va_list va;
  va_copy(va, *(va_list*)va_);
#endif
  char* buf = (char*)malloc(16);
#ifdef VERIF_CBMC
  __CPROVER_assume(buf != 0);
#endif
  int n = 0;
  int k = ncall < MAXCALL ? ncall : MAXCALL - 1;
  ASSERT(ncall < MAXCALL, "at most three formatter calls");
  ncall++;
  if (str_eq(fmt, "%.*lf")) {
    int p = va_arg(va, int);
    double v = va_arg(va, double);
    rec[k].kind = F_SEC; rec[k].prec = p; rec[k].val = v;
    ASSERT(p >= 0 && p <= 6, "precision handed to printf in 0..6");
#if SHAPE_TIED
    ASSERT(v >= 0.0 && v < 60.0, "seconds value handed to printf in [0,60)");
#endif
    ASSUME(p >= 0 && p <= 6);
#ifdef NINT
    int nint = NINT; /* cell: number of integer digits of the seconds text (case split outside the solver) */
#else
    int nint = (int)in_range(1, 2);
#endif
#if SHAPE_TIED
    if (v < 9.0) ASSUME(nint == 1);
    if (v >= 10.0) ASSUME(nint == 2);
#endif
    for (int i = 0; i < nint; i++) buf[n++] = (char)in_range('0', '9');
    if (p > 0) {
      buf[n++] = '.';
      for (int i = 0; i < p; i++) buf[n++] = (char)in_range('0', '9');
    }
  } else {
    int ni = str_eq(fmt, "%lu:%s") ? 1 : str_eq(fmt, "%lu:%02lu:%s") ? 2 : str_eq(fmt, "%lu:%02lu:%02lu:%s") ? 3 : 0;
    ASSERT(ni != 0, "UNMODELLED printf format");
    ASSUME(ni != 0);
    rec[k].kind = F_SEC + ni;
    for (int i = 0; i < ni; i++) rec[k].iv[i] = va_arg(va, uint64_t);
    const char* s = va_arg(va, const char*);
    int sl = 0;
    while (sl < 3 && s[sl]) { rec[k].sarg[sl] = s[sl]; sl++; }
    rec[k].sarg_len = sl;
    buf[n++] = 'I';
    for (int i = 0; i < sl; i++) buf[n++] = s[i];
  }
  buf[n] = 0;
  for (int i = 0; i <= n; i++) rec[k].ret[i] = buf[i];
  rec[k].ret_len = n;
  *outp = buf;
  va_end(va);
  return (uint32_t)n;
}

#define US 1000000ULL
void harness(void) {
  uint64_t usecs = in_u64();
#if MAG == 0
  ASSUME(usecs < 60 * US);
#elif MAG == 1
  ASSUME(usecs >= 60 * US && usecs < 3600 * US);
#elif MAG == 2
  ASSUME(usecs >= 3600 * US && usecs < 86400 * US);
#else
  ASSUME(usecs >= 86400 * US);
#endif
#ifdef USECS_LO
  ASSUME(usecs >= USECS_LO && usecs <= USECS_HI); /* optional sub-range of the class (case split outside the solver) */
#endif
#if PREC < 0
  int32_t p = (int32_t)in_irange(-128, -1);
#else
  int32_t p = PREC;
#endif
  uint8_t out[32];
  int64_t rc = w_format_duration(usecs, (uint32_t)p, out, sizeof(out));
  OBS(rc);
  ASSERT(rc != -1, "format_duration does not throw out_of_range");
  ASSERT(rc >= 0, "format_duration does not throw");
  if (rc < 0) return;
  for (int i = 0; i < rc; i++) OBS(out[i]);
  int kind = MAG == 0 ? F_SEC : MAG == 1 ? F_M : MAG == 2 ? F_HM : F_DHM;
  int ok_calls = (MAG == 0) ? (ncall == 1 && rec[0].kind == F_SEC) : (ncall == 2 && rec[0].kind == F_SEC && rec[1].kind == kind);
  ASSERT(ok_calls, "one %.*lf call for the seconds text, then (from one minute up) the format of the magnitude class");
  if (!ok_calls) return;
  /* integer fields handed to the formatter */
  uint64_t d = 0, h = 0, m = 0;
  if (kind == F_M) m = rec[1].iv[0];
  else if (kind == F_HM) { h = rec[1].iv[0]; m = rec[1].iv[1]; }
  else if (kind == F_DHM) { d = rec[1].iv[0]; h = rec[1].iv[1]; m = rec[1].iv[2]; }
  uint64_t whole = d * 86400 * US + h * 3600 * US + m * 60 * US;
#if CHECK == 0
  ASSERT(rec[0].prec == (p < 0 ? (MAG <= 0 ? 6 : MAG == 1 ? 3 : 0) : p), "precision (defaults: 6 below one minute, 3 below one hour, else 0)");
  if (MAG == 0) {
    ASSERT(rc == rec[0].ret_len, "result is the seconds text");
    for (int i = 0; i < rec[0].ret_len && i < rc; i++) ASSERT(out[i] == (uint8_t)rec[0].ret[i], "result is the seconds text");
  } else {
    /* pad: "0" iff the seconds text has a one-digit integer part */
    int one_digit = (rec[0].ret_len == 1) || (rec[0].ret[1] == '.');
    ASSERT(rec[1].sarg_len == one_digit && (!one_digit || rec[1].sarg[0] == '0'), "pad is \"0\" iff seconds text has a one-digit integer part");
    /* result = integer text + seconds text */
    ASSERT(rc == rec[1].ret_len + rec[0].ret_len, "result length");
    if (rc == rec[1].ret_len + rec[0].ret_len) {
      for (int i = 0; i < rec[1].ret_len; i++) ASSERT(out[i] == (uint8_t)rec[1].ret[i], "result starts with the integer fields text");
      for (int i = 0; i < rec[0].ret_len; i++) ASSERT(out[rec[1].ret_len + i] == (uint8_t)rec[0].ret[i], "result ends with the seconds text");
    }
  }
#elif CHECK == 1
  if (kind == F_M) ASSERT(m >= 1 && m < 60, "minutes field in [1,60)");
  if (kind == F_HM) { ASSERT(h >= 1 && h < 24, "hours field in [1,24)"); ASSERT(m < 60, "minutes field < 60"); }
  if (kind == F_DHM) { ASSERT(d >= 1 && d <= 213503982ULL, "days field in [1, 2^64/86400e6]"); ASSERT(h < 24, "hours field < 24"); ASSERT(m < 60, "minutes field < 60"); }
  ASSERT(whole <= usecs && usecs - whole < 60 * US, "fields recompose: usecs - (days, hours, minutes) in [0, 60 s)");
#elif CHECK == 3
  /* days class, the part of the field arithmetic the solver reaches: the days field is floor(usecs / 86400 s), hours < 24, minutes < 60.
   * (That hours/minutes are the right residues needs floor(floor(x/a)/b) == floor(x/(ab)) across three 64-bit dividers: no verdict, see NOTES.) */
  ASSERT(d >= 1 && d <= 213503982ULL, "days field in [1, 2^64/86400e6]");
  ASSERT(d * 86400 * US <= usecs && usecs - d * 86400 * US < 86400 * US, "days field == floor(usecs / 86400 s)");
  ASSERT(h < 24, "hours field < 24");
  ASSERT(m < 60, "minutes field < 60");
#else
  /* remaining microseconds written in the same shape as the definition (helps the SMT solver's congruence closure) */
  uint64_t rest = MAG == 0 ? usecs : MAG == 1 ? usecs - m * 60000000ULL : MAG == 2 ? usecs - h * 3600000000ULL - m * 60000000ULL
                                   : usecs - d * 86400000000ULL - h * 3600000000ULL - m * 60000000ULL;
  ASSERT(rec[0].val == (double)rest / 1000000.0, "seconds value == remaining usecs / 10^6");
#endif
}
