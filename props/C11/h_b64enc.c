/* C11: base64_encode == RFC 4648 reference encoder (written here) and base64_decode(base64_encode(x)) == x.
 * LEN = concrete data length (cell), bytes and alphabet choice (standard / URL-safe) symbolic. */
#include "harness.h"
int64_t w_b64_encode(uint8_t* in, uint64_t n, uint32_t urlsafe, uint8_t* out, uint64_t cap);
int64_t w_b64_decode(uint8_t* in, uint64_t n, uint32_t urlsafe, uint8_t* out, uint64_t cap);
#define ELEN (4 * ((LEN + 2) / 3))
static uint8_t ref_char(uint32_t v, int urlsafe) { /* RFC 4648 table 1 / table 2 */
  if (v < 26) return (uint8_t)('A' + v);
  if (v < 52) return (uint8_t)('a' + (v - 26));
  if (v < 62) return (uint8_t)('0' + (v - 52));
  if (v == 62) return urlsafe ? '-' : '+';
  return urlsafe ? '_' : '/';
}
void harness(void) {
  uint8_t x[LEN + 1], enc[ELEN + 1], ref[ELEN + 1], dec[LEN + 1];
  in_bytes(x, LEN);
  uint32_t urlsafe = in_bool();
  /* reference: 24-bit groups, '=' padding */
  uint64_t rn = 0;
  for (int i = 0; i < LEN; i += 3) {
    int rem = LEN - i;
    uint32_t g = (uint32_t)x[i] << 16;
    if (rem > 1) g |= (uint32_t)x[i + 1] << 8;
    if (rem > 2) g |= x[i + 2];
    ref[rn++] = ref_char((g >> 18) & 63, urlsafe);
    ref[rn++] = ref_char((g >> 12) & 63, urlsafe);
    ref[rn++] = rem > 1 ? ref_char((g >> 6) & 63, urlsafe) : '=';
    ref[rn++] = rem > 2 ? ref_char(g & 63, urlsafe) : '=';
  }
  int64_t r = w_b64_encode(x, LEN, urlsafe, enc, ELEN + 1);
  OBS(r);
  ASSERT(r == ELEN, "encoded length is 4*ceil(n/3)");
  if (r != ELEN) return;
  for (int i = 0; i < ELEN; i++) { OBS(enc[i]); ASSERT(enc[i] == ref[i], "encoding equals the RFC 4648 reference encoder"); }
  int64_t d = w_b64_decode(enc, ELEN, urlsafe, dec, LEN + 1);
  OBS(d);
  ASSERT(d == LEN, "decode(encode(x)) has the length of x");
  if (d == LEN) for (int i = 0; i < LEN; i++) ASSERT(dec[i] == x[i], "decode(encode(x)) == x");
}
