// C11 wrappers: render_netloc / parse_netloc (Network.cc). Network.cc is included whole (socket headers and all); only the two
// functions are reachable from the wrappers, so only they are translated.
#include "wrap.hh"
#include "Network.cc"
using namespace phosg;

WEXPORT int64_t w_render_netloc(const uint8_t* host, size_t n, int32_t port, uint8_t* out, size_t cap) {
  try {
    return w_copy_out(render_netloc(std::string(reinterpret_cast<const char*>(host), n), port), out, cap);
  }
  W_CATCH_ALL
}
WEXPORT int64_t w_parse_netloc(const uint8_t* text, size_t n, int32_t default_port, uint8_t* host_out, size_t cap, uint32_t* port_out) {
  try {
    auto r = parse_netloc(std::string(reinterpret_cast<const char*>(text), n), default_port);
    *port_out = r.second;
    return w_copy_out(r.first, host_out, cap);
  }
  W_CATCH_ALL
}
