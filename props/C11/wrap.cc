// C11 wrappers: base64, rot13 (Encoding.cc), escapers (Strings.cc), netloc (Network.cc)
#include "wrap.hh"
#include "Encoding.cc"
#include "Strings.cc"
using namespace phosg;

WEXPORT int64_t w_b64_decode(const uint8_t* in, size_t n, int urlsafe, uint8_t* out, size_t cap) {
  try {
    std::string r = base64_decode(in, n, urlsafe ? URLSAFE_ALPHABET : nullptr);
    return w_copy_out(r, out, cap);
  }
  W_CATCH_ALL
}
WEXPORT int64_t w_b64_encode(const uint8_t* in, size_t n, int urlsafe, uint8_t* out, size_t cap) {
  try {
    std::string r = base64_encode(in, n, urlsafe ? URLSAFE_ALPHABET : nullptr);
    return w_copy_out(r, out, cap);
  }
  W_CATCH_ALL
}
WEXPORT int64_t w_rot13(const uint8_t* in, size_t n, uint8_t* out, size_t cap) {
  try {
    return w_copy_out(rot13(in, n), out, cap);
  }
  W_CATCH_ALL
}
WEXPORT int64_t w_escape_quotes(const uint8_t* in, size_t n, uint8_t* out, size_t cap) {
  try {
    return w_copy_out(escape_quotes(std::string(reinterpret_cast<const char*>(in), n)), out, cap);
  }
  W_CATCH_ALL
}
WEXPORT int64_t w_escape_controls(const uint8_t* in, size_t n, int non_ascii, uint8_t* out, size_t cap) {
  try {
    return w_copy_out(escape_controls(std::string(reinterpret_cast<const char*>(in), n), non_ascii), out, cap);
  }
  W_CATCH_ALL
}
WEXPORT int64_t w_escape_url(const uint8_t* in, size_t n, int escape_slash, uint8_t* out, size_t cap) {
  try {
    return w_copy_out(escape_url(std::string(reinterpret_cast<const char*>(in), n), escape_slash), out, cap);
  }
  W_CATCH_ALL
}
