/* C11: base64_decode strictness + RFC 4648 value.  LEN = concrete input length (cell), bytes and alphabet symbolic. */
#include "harness.h"
int64_t w_b64_decode(uint8_t* in, uint64_t n, uint32_t urlsafe, uint8_t* out, uint64_t cap);

static int ref_val(uint8_t c, int urlsafe) { /* RFC 4648 tables 1 and 2 */
  if (c >= 'A' && c <= 'Z') return c - 'A';
  if (c >= 'a' && c <= 'z') return c - 'a' + 26;
  if (c >= '0' && c <= '9') return c - '0' + 52;
  if (c == (urlsafe ? '-' : '+')) return 62;
  if (c == (urlsafe ? '_' : '/')) return 63;
  return -1;
}

void harness(void) {
  uint8_t in[LEN + 1], out[LEN + 4], ref[LEN + 4];
  in_bytes(in, LEN);
  uint32_t urlsafe = in_bool();
  int64_t r = w_b64_decode(in, LEN, urlsafe, out, sizeof(out));
  /* reference decoder */
  int valid = (LEN % 4) == 0;
  uint64_t rn = 0;
  if (valid) {
    for (int q = 0; q < LEN / 4; q++) {
      const uint8_t* c = in + 4 * q;
      int last = (q == LEN / 4 - 1);
      int v0 = ref_val(c[0], urlsafe), v1 = ref_val(c[1], urlsafe), v2 = ref_val(c[2], urlsafe), v3 = ref_val(c[3], urlsafe);
      if (v0 < 0 || v1 < 0) { valid = 0; break; }
      if (v2 >= 0 && v3 >= 0) {
        ref[rn++] = (uint8_t)((v0 << 2) | (v1 >> 4)); ref[rn++] = (uint8_t)((v1 << 4) | (v2 >> 2)); ref[rn++] = (uint8_t)((v2 << 6) | v3);
      } else if (last && v2 >= 0 && c[3] == '=') {
        ref[rn++] = (uint8_t)((v0 << 2) | (v1 >> 4)); ref[rn++] = (uint8_t)((v1 << 4) | (v2 >> 2));
      } else if (last && c[2] == '=' && c[3] == '=') {
        ref[rn++] = (uint8_t)((v0 << 2) | (v1 >> 4));
      } else { valid = 0; break; }
    }
  }
  OBS(r);
  if (!valid) {
    ASSERT(r == -2, "invalid base64 text is rejected with invalid_argument");
  } else {
    ASSERT(r == (int64_t)rn, "valid base64 text is accepted with the RFC 4648 length");
    if (r == (int64_t)rn) {
      for (uint64_t i = 0; i < rn; i++) ASSERT(out[i] == ref[i], "decoded bytes equal the RFC 4648 reference");
    }
  }
}
