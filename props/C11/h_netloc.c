/* C11: render_netloc / parse_netloc. LEN = concrete host length (cell, >= 1), host bytes symbolic (all values except ':'),
 * port symbolic in [0, 65535], default_port symbolic in [0, 65535].
 *  (a) render_netloc(host, port) == host              when port == 0
 *                                == host ":" DECIMAL   otherwise, DECIMAL = the decimal digits of port without leading zeros
 *      (reference digits computed here by repeated subtraction, independent of the library);
 *  (b) parse_netloc(render_netloc(host, port), default_port) == (host, port != 0 ? port : default_port).
 * render_netloc's std::to_string(int) is cut (unit 'net', -fno-inline) and replaced IN THE GENERATED-C MODES by the exact,
 * division-free model below (digits by repeated subtraction, the small-string std::string object built by hand): with the
 * real libstdc++ digit loop the symbolic-position writes into the std::string object push CBMC into its array theory (no
 * verdict, > 8 GB). The native real build runs the real std::to_string, and translation validation compares the two
 * character by character on the sampled ports. Values outside (-100000, 100000) are a reported bound failure.
 * parse_netloc's std::stod calls strtod = stub, EXACT for texts that are 1..5 decimal digits (value accumulated in integers,
 * converted once); any other text: contract (arbitrary value, end pointer inside the text, nothing consumed => 0). */
#include "harness.h"
#include "stub_printf.h" /* exact decimal/hex printf family for the generated-C modes: a render_netloc that formats the port with snprintf is judged by the same rule */
int64_t w_render_netloc(uint8_t* host, uint64_t n, uint32_t port, uint8_t* out, uint64_t cap);
int64_t w_parse_netloc(uint8_t* text, uint64_t n, uint32_t default_port, uint8_t* host_out, uint64_t cap, uint32_t* port_out);

static double strtod_model(const uint8_t* s, uint8_t** endp) {
  unsigned nd = 0; uint32_t v = 0;
  while (nd < 6 && s[nd] >= '0' && s[nd] <= '9') { v = v * 10u + (uint32_t)(s[nd] - '0'); nd++; }
  if (nd >= 1 && nd <= 5 && s[nd] == 0) { if (endp) *endp = (uint8_t*)s + nd; return (double)v; }
  /* contract for everything else */
  uint64_t left = 0; while (left < 16 && s[left]) left++;
  uint64_t used = in_range(0, 16); ASSUME(used <= left);
  uint64_t bits = in_u64(); ASSUME((bits & 0x7FF0000000000000ull) != 0x7FF0000000000000ull);
  if (used == 0) bits = 0;
  if (endp) *endp = (uint8_t*)s + used;
  double d; memcpy(&d, &bits, 8); return d;
}
#ifdef VERIF_NATIVE_REAL
double strtod(const char* s, char** e) { return strtod_model((const uint8_t*)s, (uint8_t**)e); }
#else
double X_strtod(uint8_t* s, uint8_t* e) { return strtod_model(s, (uint8_t**)e); }
#endif

#ifndef VERIF_NATIVE_REAL
/* std::string std::to_string(int) -- sret pointer to an uninitialised std::string {char* data; size_t size; char buf[16]} */
void X__ZNSt7__cxx119to_stringEi(uint8_t* ret, uint32_t val) {
  uint32_t neg = ((int32_t)val < 0), u = neg ? 0u - val : val;
#ifdef VERIF_CBMC
  __CPROVER_assert(u < 100000u, "BOUND: to_string model covers |value| < 100000");
#else
  if (!(u < 100000u)) ASSERT(0, "BOUND: to_string model covers |value| < 100000"); /* silent unless it fails: this stub does not exist in the real build */
#endif
  ASSUME(u < 100000u);
  static const uint32_t pw[5] = {10000, 1000, 100, 10, 1};
  uint8_t dg[5]; uint32_t nd = 1;
  for (int k = 0; k < 5; k++) {
    uint8_t c = 0;
    for (int j = 0; j < 9; j++) if (u >= pw[k]) { u -= pw[k]; c++; }
    dg[k] = c;
    if (c != 0 && nd < (uint32_t)(5 - k)) nd = (uint32_t)(5 - k);
  }
  uint32_t total = neg + nd;
  uint8_t* buf = ret + 16;
  for (uint32_t i = 0; i < 7; i++) { /* every position written at a constant offset; value selected */
    uint8_t c = 0;
    if (i < total) { if (neg && i == 0) c = '-'; else c = (uint8_t)('0' + dg[5 - nd + (i - neg)]); }
    buf[i] = c;
  }
  *(uint8_t**)ret = buf;
  *(uint64_t*)(ret + 8) = total;
}
#endif
#define CAP (LEN + 8)
void harness(void) {
  uint8_t host[LEN + 1], text[CAP], ref[CAP], h2[CAP];
  in_bytes(host, LEN);
  for (int i = 0; i < LEN; i++) ASSUME(host[i] != ':');
  uint32_t port = (uint32_t)in_range(0, 65535), defport = (uint32_t)in_range(0, 65535);
  /* reference text */
  uint64_t rn = 0;
  for (int i = 0; i < LEN; i++) ref[rn++] = host[i];
  if (port != 0) {
    ref[rn++] = ':';
    static const uint32_t pw[5] = {10000, 1000, 100, 10, 1};
    uint32_t rest = port; int started = 0;
    for (int k = 0; k < 5; k++) {
      uint32_t dgt = 0;
      for (int j = 0; j < 9; j++) if (rest >= pw[k]) { rest -= pw[k]; dgt++; }
      if (dgt || started || k == 4) { ref[rn++] = (uint8_t)('0' + dgt); started = 1; }
    }
  }
  int64_t r = w_render_netloc(host, LEN, port, text, CAP);
  OBS(r);
  ASSERT(r == (int64_t)rn, "rendered netloc has the reference length (host, ':' and all decimal digits of the port)");
  if (r != (int64_t)rn) return;
  for (uint64_t i = 0; i < rn; i++) { OBS(text[i]); ASSERT(text[i] == ref[i], "rendered netloc equals host ':' decimal(port)"); }
  uint32_t p2 = 0xFFFFFFFFu;
  int64_t hl = w_parse_netloc(text, (uint64_t)r, defport, h2, CAP, &p2);
  OBS(hl); OBS(p2);
  ASSERT(hl == LEN, "parse_netloc(render_netloc(host, port)) returns a host of the same length");
  if (hl == LEN) for (int i = 0; i < LEN; i++) ASSERT(h2[i] == host[i], "parse_netloc(render_netloc(host, port)) returns the host");
  ASSERT(p2 == (port != 0 ? port : defport), "parse_netloc(render_netloc(host, port)) returns the port (default port when none was rendered)");
}
