/* C11: escapers. WHICH: 0 escape_quotes, 1 escape_controls(non_ascii symbolic), 2 escape_url(escape_slash symbolic).
 * LEN symbolic bytes in. Output alphabet restriction + an independent unescaper (written here) inverts the escaping. */
#include "harness.h"
#include "stub_printf.h"
int64_t w_escape_quotes(uint8_t* in, uint64_t n, uint8_t* out, uint64_t cap);
int64_t w_escape_controls(uint8_t* in, uint64_t n, uint32_t non_ascii, uint8_t* out, uint64_t cap);
int64_t w_escape_url(uint8_t* in, uint64_t n, uint32_t escape_slash, uint8_t* out, uint64_t cap);

static int hexval(uint8_t c) {
  if (c >= '0' && c <= '9') return c - '0';
  if (c >= 'A' && c <= 'F') return c - 'A' + 10;
  if (c >= 'a' && c <= 'f') return c - 'a' + 10;
  return -1;
}
#define CAP (LEN * 4 + 1)
void harness(void) {
  uint8_t in[LEN + 1], out[CAP], dec[CAP];
  uint64_t n = LEN; /* length is a case-split cell; bytes are symbolic */
  in_bytes(in, LEN);
  uint32_t flag = in_bool();
  int64_t r;
#if WHICH == 0
  r = w_escape_quotes(in, n, out, CAP);
#elif WHICH == 1
  r = w_escape_controls(in, n, flag, out, CAP);
#else
  r = w_escape_url(in, n, flag, out, CAP);
#endif
  OBS(r);
  ASSERT(r >= 0, "escaper does not throw and the result fits 4 bytes per input byte");
  if (r < 0) return;
  /* independent unescaper */
  uint64_t dn = 0; int ok = 1;
  for (int64_t i = 0; i < r && ok;) {
    uint8_t c = out[i];
    OBS(c);
#if WHICH == 2
    /* RFC 3986 percent-decoding; only unreserved + the documented extras may appear raw */
    int raw_ok = (c >= '0' && c <= '9') || (c >= 'A' && c <= 'Z') || (c >= 'a' && c <= 'z') || c == '-' || c == '_' || c == '.' || c == '~' || c == '=' || c == '&' || (!flag && c == '/');
    if (c == '%') {
      if (i + 3 <= r && hexval(out[i + 1]) >= 0 && hexval(out[i + 2]) >= 0) { dec[dn++] = (uint8_t)(hexval(out[i + 1]) * 16 + hexval(out[i + 2])); i += 3; }
      else ok = 0;
    } else { ASSERT(raw_ok, "escape_url emits only permitted characters"); dec[dn++] = c; i++; }
#else
    ASSERT(c >= 0x20 && c <= 0x7E || (WHICH == 1 && !flag && (c & 0x80)), "escaper emits only printable ASCII (or raw high bytes in utf8 mode)");
    if (c == '"') { ASSERT(0, "no raw double quote in the output"); }
    if (c == '\\' && (WHICH == 1 || (i + 1 < r && (out[i + 1] == 'x' || out[i + 1] == '"')))) {
      if (i + 1 >= r) { ok = 0; break; }
      uint8_t e = out[i + 1];
      if (e == 'x') {
        if (i + 4 <= r && hexval(out[i + 2]) >= 0 && hexval(out[i + 3]) >= 0) { dec[dn++] = (uint8_t)(hexval(out[i + 2]) * 16 + hexval(out[i + 3])); i += 4; }
        else ok = 0;
      } else {
        uint8_t v;
        switch (e) { case '"': v = '"'; break; case '\'': v = '\''; break; case '\\': v = '\\'; break; case 't': v = '\t'; break; case 'r': v = '\r'; break;
          case 'n': v = '\n'; break; case 'f': v = '\f'; break; case 'b': v = '\b'; break; case 'a': v = '\a'; break; case 'v': v = '\v'; break; default: v = 0; ok = 0; }
        dec[dn++] = v; i += 2;
      }
    } else { dec[dn++] = c; i++; }
#endif
  }
#if WHICH == 0
  /* escape_quotes does not escape backslash, so it is not injective ("\\x41" literal vs escaped 'A'); C11 only asks for:
     no raw quote, no non-printable byte. Those are the assertions above; no inverse is claimed. */
  (void)dn; (void)ok;
#else
  ASSERT(ok, "output is well-formed escape syntax");
  ASSERT(dn == n, "unescaped length equals input length");
  if (ok && dn == n) for (uint64_t i = 0; i < n; i++) ASSERT(dec[i] == in[i], "independent unescaper returns the input");
#endif
}
