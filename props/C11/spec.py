ID = 'C11'
UNITS = {'enc': dict(wrap='wrap.cc', new_block=64, per_harness={'h_b64dec.c': {'new_block': 320}})}
BOUNDS = 'base64_decode: every input of length 0..8 over all 256 byte values, both alphabets'
STUBS = []
OUTSIDE = []
ASSUMPTIONS = []

def queries(tier):
    qs = []
    for n in ([0, 1, 2, 3, 4, 5, 8] if tier == 'quick' else range(0, 13)):
        qs.append(dict(name='b64dec_len%d' % n, unit='enc', harness='h_b64dec.c', defs={'LEN': n}, unwind=66,
                       unwindset='', timeout=300, mem_gb=6,
                       desc='base64_decode on %d symbolic bytes, symbolic alphabet choice: throws invalid_argument iff not RFC-4648-valid, else bytes equal reference decoder' % n,
                       bounds='input length == %d, all byte values' % n))
    for which, nm in ((0, 'quotes'), (1, 'controls'), (2, 'url')):
      for L in ([0, 1, 2] if tier == 'quick' else [0, 1, 2, 3]):
        qs.append(dict(name='escape_%s_len%d' % (nm, L), unit='enc', harness='h_escape.c', defs={'WHICH': which, 'LEN': L}, unwind=4 * L + 14,
                       timeout=900, mem_gb=8, desc='escape_%s on %d symbolic bytes (all 256 values): alphabet restriction and independent unescaper inverts' % (nm, L),
                       bounds='input length == %d' % L))
    return qs
