ID = 'C11'
UNITS = {'enc': dict(wrap='wrap.cc')}
BOUNDS = 'base64_decode: every input of length 0..8 over all 256 byte values, both alphabets'
STUBS = []
OUTSIDE = []
ASSUMPTIONS = []

def queries(tier):
    qs = []
    for n in ([0, 1, 2, 3, 4, 5, 8] if tier == 'quick' else range(0, 13)):
        qs.append(dict(name='b64dec_len%d' % n, unit='enc', harness='h_b64dec.c', defs={'LEN': n}, unwind=66,
                       unwindset='', timeout=300, mem_gb=6,
                       desc='base64_decode on %d symbolic bytes, symbolic alphabet choice: throws invalid_argument iff not RFC-4648-valid, else bytes equal reference decoder' % n,
                       bounds='input length == %d, all byte values' % n))
    return qs
