ID = 'C11'
# 'net': fast encoding (see props/C08/spec.py): -fno-inline, std::string::_M_create cut to a reported bound failure (strings <= 15 bytes),
# deterministic pool allocator, --ptrdiff/--flat-unions
UNITS = {'net': dict(wrap='wrap_net.cc', new_block=64, cxxflags=['-fno-inline'], cuts=['basic_stringIcSt11char_traitsIcESaIcEE9_M_createERmm$', '^_ZNSt7__cxx119to_stringEi$'], extra_c=['sso_bound.c'],
                     ir2c_flags=['--ptrdiff', '--flat-unions'], gen_defs=['VERIF_NEW_POOL=8']),
         'enc': dict(wrap='wrap.cc', new_block=64, per_harness={'h_b64dec.c': {'new_block': 320}, 'h_b64enc.c': {'new_block': 320}})}
BOUNDS = ('base64_decode: every input of length 0..8 (0..12 thorough) over all 256 byte values, both alphabets; base64_encode + decode(encode(x)): data 0..4 (0..7) bytes; '
          'rot13: 0..4 (0..6) bytes; escapers: 0..2 (0..3) bytes; render/parse_netloc: host of 1 (1..3) symbolic colon-free bytes, EVERY port 0..65535 and default port 0..65535 symbolic')
STUBS = ['vasprintf (h_escape.c): engine/rt/stub_printf.h, exact hex model',
         'std::to_string(int) (h_netloc.c, generated-C modes only): exact division-free decimal model for |value| < 100000 building the small-string object by hand; the native real build runs the real libstdc++ '
         'function and translation validation compares both character by character',
         'strtod (h_netloc.c): exact for texts of 1..5 decimal digits, contract (arbitrary value, end inside the text) otherwise',
         "unit 'net': std::string::_M_create cut to a reported bound failure (strings <= 15 bytes), deterministic pool allocator, std::allocator<char> no-ops (sso_bound.c)"]
OUTSIDE = ['inputs longer than the stated lengths',
           'render_netloc with ports outside 0..65535 (parse_netloc returns uint16_t: no round trip is claimed there) and hosts longer than 3 bytes or containing a colon',
           'the real libstdc++ std::to_string digit loop on a symbolic value: its symbolic-position writes into the std::string object send CBMC into its array theory (no verdict, > 8 GB); replaced by the model above',
           'escape_quotes is not injective (it does not escape backslash): only "no raw quote, no non-printable byte" is claimed for it, as in the statement']
ASSUMPTIONS = []

def queries(tier):
    qs = []
    for n in ([0, 1, 2, 3, 4, 5, 8] if tier == 'quick' else range(0, 13)):
        qs.append(dict(name='b64dec_len%d' % n, unit='enc', harness='h_b64dec.c', defs={'LEN': n}, unwind=66,
                       unwindset='', timeout=300, mem_gb=6,
                       desc='base64_decode on %d symbolic bytes, symbolic alphabet choice: throws invalid_argument iff not RFC-4648-valid, else bytes equal reference decoder' % n,
                       bounds='input length == %d, all byte values' % n))
    for which, nm in ((0, 'quotes'), (1, 'controls'), (2, 'url')):
      for L in ([0, 1, 2] if tier == 'quick' else [0, 1, 2, 3]):
        qs.append(dict(name='escape_%s_len%d' % (nm, L), unit='enc', harness='h_escape.c', defs={'WHICH': which, 'LEN': L}, unwind=4 * L + 14,
                       timeout=900, mem_gb=8, desc='escape_%s on %d symbolic bytes (all 256 values): alphabet restriction and independent unescaper inverts' % (nm, L),
                       bounds='input length == %d' % L))
    for L in ([0, 1, 2, 3, 4] if tier == 'quick' else range(0, 8)):
        qs.append(dict(name='b64enc_len%d' % L, unit='enc', harness='h_b64enc.c', defs={'LEN': L}, unwind=66, timeout=600, mem_gb=6,
                       desc='base64_encode of %d symbolic bytes, symbolic alphabet: equals the RFC 4648 reference encoder; base64_decode inverts it' % L, bounds='data length == %d, all byte values, both alphabets' % L))
    for L in ([0, 1, 2, 4] if tier == 'quick' else range(0, 7)):
        qs.append(dict(name='rot13_len%d' % L, unit='enc', harness='h_rot13.c', defs={'LEN': L}, unwind=L + 2, timeout=300, mem_gb=4,
                       desc='rot13 on %d symbolic bytes: reference mapping (only ASCII letters move, by 13) and involution' % L, bounds='length == %d, all byte values' % L))
    for L in ([1, 2] if tier == 'quick' else [1, 2, 3, 4]):
        qs.append(dict(name='netloc_len%d' % L, unit='net', harness='h_netloc.c', defs={'LEN': L}, unwind=max(L + 9, 11), timeout=900, mem_gb=8,
                       desc='render_netloc text == host ":" decimal(port) for every port 0..65535 and %d symbolic colon-free host bytes; parse_netloc inverts it' % L,
                       bounds='host length == %d (all byte values but colon), port in [0,65535], default_port in [0,65535]' % L))
    return qs
