/* C11: rot13 is an involution and changes only ASCII letters (each letter moves 13 places inside its own case).
 * LEN = concrete length (cell), bytes symbolic over all 256 values. */
#include "harness.h"
int64_t w_rot13(uint8_t* in, uint64_t n, uint8_t* out, uint64_t cap);
void harness(void) {
  uint8_t x[LEN + 1], y[LEN + 1], z[LEN + 1];
  in_bytes(x, LEN);
  int64_t r = w_rot13(x, LEN, y, LEN + 1);
  OBS(r);
  ASSERT(r == LEN, "rot13 keeps the length");
  if (r != LEN) return;
  for (int i = 0; i < LEN; i++) {
    uint8_t c = x[i], w = c;
    if (c >= 'a' && c <= 'z') w = (uint8_t)('a' + (c - 'a' + 13) % 26);
    else if (c >= 'A' && c <= 'Z') w = (uint8_t)('A' + (c - 'A' + 13) % 26);
    OBS(y[i]);
    ASSERT(y[i] == w, "letters rotate by 13 within their case, every other byte is unchanged");
  }
  int64_t r2 = w_rot13(y, LEN, z, LEN + 1);
  ASSERT(r2 == LEN, "rot13 keeps the length (second application)");
  if (r2 == LEN) for (int i = 0; i < LEN; i++) ASSERT(z[i] == x[i], "rot13(rot13(x)) == x");
}
