/* C04 kernel 6: serialize / deep copy / equality on value TREES of a concrete shape (cell SHAPE, leaf kinds KA, KB) with
 * symbolic leaves, symbolic 1-byte keys and symbolic options (all 64 sets; HEX_INTEGERS is forced when a leaf is an int
 * because decimal digits are libstdc++'s std::to_string).
 *   shapes: 0 []  1 {}  2 [a]  3 [a,b]  4 {k0:a}  5 {k0:a,k1:b}  6 [[a]]  7 {k0:[a]}  8 [{k0:a}]  9 [[],{}]  10 [a,[b]]
 * Oracle (independent of JSON.cc): the RFC 8259 compact text of the tree, built here from the shape: members separated by
 * ',', '"key":value', leaves null/true/false (n/t/f iff ONE_CHARACTER_TRIVIAL_CONSTANTS), ints [-]0xHEX, plain 1-byte strings
 * in quotes (string/key bytes are restricted to characters that need no escape; escaping is kernels 1 and 4). Asserted:
 *   - without FORMAT the output equals the compact text; with FORMAT the output minus its insignificant whitespace (SP, LF
 *     outside string literals, the only whitespace it may contain) equals the compact text: same value, standard JSON;
 *   - two-member dictionaries: key order ascending iff SORT_DICT_KEYS, otherwise either order;
 *   - WHAT 1: a copy serializes to the same text; WHAT 2: modifying the copy leaves the original's text unchanged (deep);
 *     WHAT 3: the modified copy serializes with the new leaf; WHAT 4: orig == copy, !(orig != copy), and after the copy's
 *     first leaf is replaced by leaf b: orig == copy iff the two leaves are equal values.
 * std::map (SORT_DICT_KEYS) runs the real libstdc++ header code over rbtree_model.h. */
#include "harness.h"
#include "stub_printf.h"
#include "json_cuts.h"
#include "rbtree_model.h"
int64_t w_json_tree(uint32_t what, uint32_t shape, uint32_t ka, uint64_t va, uint32_t kb, uint64_t vb, uint8_t* k, uint32_t options, uint8_t* out, uint64_t cap);
#define CAP 160
static uint8_t exp_[CAP];
static unsigned en;
static void put(uint8_t c) { if (en < CAP) exp_[en++] = c; }
static void put_leaf(int kind, uint64_t val, uint32_t options) {
  if (kind == 0 || kind == 1) {
    const char* full = kind == 0 ? "null" : val ? "true" : "false";
    if (options & 2) put((uint8_t)full[0]);
    else for (unsigned i = 0; full[i]; i++) put((uint8_t)full[i]);
  } else if (kind == 2) {
    int64_t v = (int64_t)val;
    uint64_t mag = v < 0 ? (uint64_t)0 - (uint64_t)v : (uint64_t)v;
    if (v < 0) put('-');
    put('0'); put('x');
    int started = 0;
    for (int q = 15; q >= 0; q--) {
      unsigned d = (unsigned)((mag >> (4 * q)) & 0xF);
      if (d || started || q == 0) { put((uint8_t)(d < 10 ? '0' + d : 'A' + d - 10)); started = 1; }
    }
  } else { put('"'); put((uint8_t)val); put('"'); }
}
static void put_key(uint8_t c) { put('"'); put(c); put('"'); put(':'); }
static int plain(uint8_t c) { return c >= 0x20 && c <= 0x7E && c != '"' && c != '\\'; }
static int leaf_eq(int ka, uint64_t va, int kb, uint64_t vb) {
  if (ka != kb) return 0; /* int/float cross-compare does not arise: no float leaves here */
  if (ka == 0) return 1;
  if (ka == 4) return (uint8_t)va == (uint8_t)vb;
  return va == vb;
}
static void build(int shape, int ka, uint64_t va, int kb, uint64_t vb, const uint8_t* k, uint32_t options, int swap) {
  en = 0;
  switch (shape) {
    case 0: put('['); put(']'); break;
    case 1: put('{'); put('}'); break;
    case 2: put('['); put_leaf(ka, va, options); put(']'); break;
    case 3: put('['); put_leaf(ka, va, options); put(','); put_leaf(kb, vb, options); put(']'); break;
    case 4: put('{'); put_key(k[0]); put_leaf(ka, va, options); put('}'); break;
    case 5:
      put('{');
      if (!swap) { put_key(k[0]); put_leaf(ka, va, options); put(','); put_key(k[1]); put_leaf(kb, vb, options); }
      else { put_key(k[1]); put_leaf(kb, vb, options); put(','); put_key(k[0]); put_leaf(ka, va, options); }
      put('}'); break;
    case 6: put('['); put('['); put_leaf(ka, va, options); put(']'); put(']'); break;
    case 7: put('{'); put_key(k[0]); put('['); put_leaf(ka, va, options); put(']'); put('}'); break;
    case 8: put('['); put('{'); put_key(k[0]); put_leaf(ka, va, options); put('}'); put(']'); break;
    case 9: put('['); put('['); put(']'); put(','); put('{'); put('}'); put(']'); break;
    default: put('['); put_leaf(ka, va, options); put(','); put('['); put_leaf(kb, vb, options); put(']'); put(']'); break;
  }
}
static int matches(const uint8_t* t, unsigned n) {
  if (n != en) return 0;
  for (unsigned i = 0; i < en; i++) if (t[i] != exp_[i]) return 0;
  return 1;
}
void harness(void) {
  uint8_t out[CAP], strip[CAP], k[2];
  uint32_t options = (uint32_t)in_range(0, 63);
  uint64_t va = in_u64(), vb = in_u64();
  k[0] = in_u8(); k[1] = in_u8();
  ASSUME(plain(k[0]) && plain(k[1]) && k[0] != k[1]);
  if (KA == 1) va &= 1;
  if (KB == 1) vb &= 1;
  if (KA == 4) { va &= 0xFF; ASSUME(plain((uint8_t)va)); }
  if (KB == 4) { vb &= 0xFF; ASSUME(plain((uint8_t)vb)); }
  if (KA == 2 || KB == 2) ASSUME(options & 1);
  int64_t r = w_json_tree(WHAT, SHAPE, KA, va, KB, vb, k, options, out, CAP);
  OBS(r);
  ASSERT(r >= 0, "serialize / copy / compare of the tree does not throw and the text fits the buffer");
  if (r < 0) return;
#if WHAT == 4
  ASSERT((r & 1) && !(r & 2), "a copy compares equal to its source");
  int same = leaf_eq(KA, va, KB, vb);
  ASSERT(((r >> 2) & 1) == same && ((r >> 3) & 1) == !same, "after replacing a leaf of the copy, equality holds exactly when the new leaf equals the old one");
#else
  /* WHAT 3: the modified copy has leaf b in place of leaf a */
  int xa = WHAT == 3 ? KB : KA; uint64_t xv = WHAT == 3 ? vb : va;
  /* strip insignificant whitespace (outside string literals; leaves and keys here contain no quote or backslash) */
  unsigned sn = 0; int instr = 0, ws_ok = 1;
  for (int64_t i = 0; i < r; i++) {
    uint8_t c = out[i];
    if (c == '"') instr = !instr;
    if (!instr && (c == ' ' || c == '\n')) { if (!(options & 4)) ws_ok = 0; continue; }
    strip[sn++] = c;
  }
  ASSERT(ws_ok, "no whitespace is emitted without FORMAT");
  build(SHAPE, xa, xv, KB, vb, k, options, 0);
  int m0 = matches(strip, sn);
  int m1 = 0;
#if SHAPE == 5
  build(SHAPE, xa, xv, KB, vb, k, options, 1);
  m1 = matches(strip, sn);
  int want_swap = k[1] < k[0];
  if (options & 8) ASSERT(want_swap ? m1 : m0, "SORT_DICT_KEYS emits the keys in ascending byte order");
#endif
  ASSERT(m0 || m1, "serialized tree (minus FORMAT whitespace) is the RFC 8259 compact text of the value");
#endif
}
