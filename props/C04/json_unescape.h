/* Independent reader of an escaped JSON string BODY (the text between the quotes), written from RFC 8259 section 7 plus
 * \xHH (the documented non-standard escape of HEX_ESCAPE_CODES). mode: 0 STANDARD, 1 HEX, 2 CONTROL_ONLY.
 * Asserts the per-mode alphabet and returns the number of decoded bytes in dec[], or -1 if the text is malformed. */
#ifndef JSON_UNESCAPE_H
#define JSON_UNESCAPE_H
static int ju_hexval(uint8_t c) {
  if (c >= '0' && c <= '9') return c - '0';
  if (c >= 'A' && c <= 'F') return c - 'A' + 10;
  if (c >= 'a' && c <= 'f') return c - 'a' + 10;
  return -1;
}
static int64_t json_unescape(const uint8_t* out, int64_t r, int mode, uint8_t* dec) {
  int64_t dn = 0;
  for (int64_t i = 0; i < r;) {
    uint8_t c = out[i];
    ASSERT(c != '"', "no raw double quote in the escaped text");
    ASSERT(c >= 0x20, "no raw control byte in the escaped text");
    ASSERT(c <= 0x7E || mode == 2, "only CONTROL_ONLY mode emits bytes above 0x7E");
    if (c != '\\') { dec[dn++] = c; i++; continue; }
    if (i + 1 >= r) return -1;
    uint8_t e = out[i + 1];
    if (e == 'u') {
      if (!(i + 6 <= r && ju_hexval(out[i + 2]) >= 0 && ju_hexval(out[i + 3]) >= 0 && ju_hexval(out[i + 4]) >= 0 && ju_hexval(out[i + 5]) >= 0)) return -1;
      unsigned v = (unsigned)((ju_hexval(out[i + 2]) << 12) | (ju_hexval(out[i + 3]) << 8) | (ju_hexval(out[i + 4]) << 4) | ju_hexval(out[i + 5]));
      ASSERT(v <= 0xFF, "\\u escape denotes a single byte (U+0000..U+00FF)");
      dec[dn++] = (uint8_t)v; i += 6;
    } else if (e == 'x') {
      ASSERT(mode != 0, "STANDARD mode uses no \\x escape");
      if (!(i + 4 <= r && ju_hexval(out[i + 2]) >= 0 && ju_hexval(out[i + 3]) >= 0)) return -1;
      dec[dn++] = (uint8_t)(ju_hexval(out[i + 2]) * 16 + ju_hexval(out[i + 3])); i += 4;
    } else {
      uint8_t v;
      switch (e) { case '"': v = '"'; break; case '\\': v = '\\'; break; case '/': v = '/'; break; case 'b': v = '\b'; break; case 'f': v = '\f'; break;
        case 'n': v = '\n'; break; case 'r': v = '\r'; break; case 't': v = '\t'; break; default: return -1; }
      dec[dn++] = v; i += 2;
    }
  }
  return dn;
}
#endif
