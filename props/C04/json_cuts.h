/* Bodies for functions cut out of the generated C (spec.UNITS[...]['cuts']).
 * std::to_string(long): decimal digit generation is libstdc++'s, not phosg's, and digit loops (/100, %100 on 64 bits) are not
 * decidable here. CONTRACT stub: returns the canonical decimal text the HARNESS prepared for the value it passed in (the
 * harness builds the value from that text, so text and value agree by construction; the stub asserts it is asked for that
 * value). In the real native build cuts do not apply: the real std::to_string runs and must produce the same text.
 * libstdc++ std::string layout: {char* p; size_t n; union{char buf[16]; size_t cap;}}. */
#ifndef JSON_CUTS_H
#define JSON_CUTS_H
static uint8_t ts_text[24];
static uint64_t ts_len;
static uint64_t ts_value;
static unsigned ts_calls;
#ifndef VERIF_NATIVE_REAL
#include <stdlib.h>
void X__ZNSt7__cxx119to_stringEl(uint8_t* ret, uint64_t v) {
  ASSERT(v == ts_value, "std::to_string is asked for the value under test");
  ts_calls++;
  uint8_t* p = ret + 16;
  if (ts_len > 15) {
    p = (uint8_t*)malloc(32);
#ifdef VERIF_CBMC
    __CPROVER_assume(p != 0);
#endif
    *(uint64_t*)(ret + 16) = 31; /* capacity */
  }
  *(uint8_t**)ret = p;
  *(uint64_t*)(ret + 8) = ts_len;
  for (uint64_t i = 0; i < ts_len; i++) p[i] = ts_text[i];
  p[ts_len] = 0;
}
#endif
#endif
