/* C04 kernel 1: JSON::escape_string(s, mode) for MODE 0 STANDARD / 1 HEX / 2 CONTROL_ONLY on LEN symbolic bytes (all 256
 * values). Oracle: an independent JSON string-body UNescaper written from RFC 8259 section 7 (plus \xHH, the documented
 * non-standard escape of HEX mode) maps the output back to the input; alphabet restrictions per mode:
 *   STANDARD: output is printable ASCII and uses only RFC 8259 escapes (so it is a standard JSON string body);
 *   HEX: printable ASCII; CONTROL_ONLY: bytes above 0x7E may appear raw, nothing below 0x20 and no raw quote. */
#include "harness.h"
#include "stub_printf.h"
int64_t w_json_escape(uint8_t* in, uint64_t n, uint32_t mode, uint8_t* out, uint64_t cap);

#include "json_unescape.h"
#define CAP (LEN * 6 + 1)
void harness(void) {
  uint8_t in[LEN + 1], out[CAP], dec[CAP];
  in_bytes(in, LEN);
  int64_t r = w_json_escape(in, LEN, MODE, out, CAP);
  OBS(r);
  ASSERT(r >= 0, "escape_string does not throw and emits at most 6 bytes per input byte");
  if (r < 0) return;
  for (int64_t i = 0; i < r; i++) OBS(out[i]);
  int64_t dn = json_unescape(out, r, MODE, dec);
  int ok = dn >= 0;
  ASSERT(ok, "every backslash starts a well-formed escape");
  ASSERT(dn == LEN, "unescaped length equals the input length");
  if (ok && dn == LEN) for (uint64_t i = 0; i < LEN; i++) ASSERT(dec[i] == in[i], "independent unescaper returns the input bytes");
}
