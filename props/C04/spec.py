ID = 'C04'
CUTS = [r'^_ZNSt7__cxx119to_stringEl$']
SERIALIZE = '_ZNK5phosg4JSON9serializeB5cxx11Ejm'
# std::variant<...>::_M_reset visitor = the recursive part of ~JSON
RESET = '_ZSt10__do_visitIvZNSt8__detail9__variant16_Variant_storageILb0EJDnbldNSt7__cxx1112basic_stringIcSt11char_traitsIcESaIcEEESt6vectorISt10unique_ptrIN5phosg4JSONESt14default_deleteISC_EESaISF_EESt13unordered_mapIS8_SF_vvvEEE8_M_resetEvEUlOT_E_JRSt7variantIJDnbldS8_SH_SJ_EEEEDcOT0_DpOT1_'
SCALAR_REC = '%s:1,%s:1' % (SERIALIZE, RESET)  # scalars: serialize() and ~JSON never recurse (asserted by the unwinding assertions)
UNITS = {'ser': dict(wrap='wrap.cc', shim=True, new_block=96, cxxflags=['-DVERIF_UMAP_CAP=2'], cuts=CUTS, ir2c_flags=['--union-fp-bytes'])}
BOUNDS = ('serializer side only, one scalar value at a time, the KIND of the value a concrete cell, its content symbolic. '
          'escape_string: every byte string of length 0..1 (quick) / 0..2 (thorough) x 3 modes. serialize: null, both booleans, every int64 with HEX_INTEGERS '
          '(incl. INT64_MIN/MAX), ints of 1..2 (quick) / 1,2,3,5 (thorough) decimal digits without it, strings of length 0 (quick) / 0..1 (thorough), each x all 64 '
          'option sets (symbolic); doubles: every %g text of the shapes listed in the query names (1-6 integer digits, 0-5 fraction digits, optional 2-3 digit '
          'exponent) x 64 option sets. operator<=>/==/!=: all 25 kind pairs (thorough), all values, strings of length <= 2. Copies: every scalar kind, strings <= 3 bytes.')
STUBS = ['vasprintf: engine/rt/stub_printf.h (exact for %X/%c/%s family) in h_escape.c, h_scalar.c, h_copy.c; in h_float.c a CONTRACT stub for "%g" returning an arbitrary '
         'member of the %g output language (the digits are not computed from the double; shortest-six-digit rounding is printf\'s, not phosg\'s)',
         'std::to_string(long) cut and replaced by a contract stub (json_cuts.h): returns the canonical decimal text the harness prepared for exactly that value; '
         'decimal digit generation is libstdc++\'s',
         'engine/shim/unordered_map replaces std::unordered_map in the translated TU (dictionaries are not reached by any query)',
         'ir2c --union-fp-bytes: double members of std::variant storage emitted as byte arrays (CBMC loses pointers stored in double-typed fields, see NOTES.md)']
OUTSIDE = ['the parse half of the round trip: JSON::parse of the serialized text, re-serialization, strict-mode acceptance BY THE PHOSG PARSER, agreement with an independent JSON '
           'implementation on whole documents. Whole-parser queries give no verdict even at input length 1 (see props/C05 OUTSIDE for the measurement). What is decided '
           'instead: the serialized scalar text is RFC 8259 text of the right value (independent readers in the harnesses).',
           'value TREES (lists, dictionaries, nesting), FORMAT layout, SORT_DICT_KEYS, deep copy / equality of containers: measured: serialize of the empty list built by '
           'JSON::list() does not leave symbolic execution in 900 s (the std::variant index is not constant-folded after the container moves, so CBMC explores every '
           'alternative incl. the std::map path).',
           'the digits printf("%g") produces for a given double (six significant digits) and the decimal digits of std::to_string for ints beyond 5 digits (incl. '
           'INT64_MIN/MAX in decimal): libc / libstdc++ digit loops are not decidable here; both are contract stubs',
           'NaN and infinities (the property is about finite doubles; serialize prints nan/inf + ".0", not JSON)']
ASSUMPTIONS = ['the %g output language assumed by h_float.c: [-] digits [. digits] | [-] digit [. digits] e(+|-) dd[d] (C11 7.21.6.1 for finite values)',
               'std::to_string(long) returns the canonical decimal text of its argument']

def queries(tier):
    qs = []
    for mode, nm in ((0, 'std'), (1, 'hex'), (2, 'ctl')):
        for L in ([0, 1] if tier == 'quick' else [0, 1, 2]):
            qs.append(dict(name='escape_%s_len%d' % (nm, L), unit='ser', harness='h_escape.c', defs={'MODE': mode, 'LEN': L}, unwind=6 * L + 18,
                           timeout=900, mem_gb=6, desc='JSON::escape_string mode %s on %d symbolic bytes (all 256 values): alphabet per mode, independent unescaper inverts' % (nm, L),
                           bounds='input length == %d, all byte values' % L))
    shapes = [(1, 0, 0), (1, 1, 0), (2, 0, 0), (1, 0, 1), (1, 1, 1), (1, 5, 1), (6, 0, 0)] if tier == 'quick' else \
             [(i, f, 0) for i in (1, 2, 3, 6) for f in (0, 1, 2, 5)] + [(1, f, 1) for f in (0, 1, 2, 5)]
    for (i, f, e) in shapes:
        qs.append(dict(name='float_i%d_f%d_e%d' % (i, f, e), unit='ser', harness='h_float.c', defs={'IDIG': i, 'FDIG': f, 'EXPO': e}, unwind=i + f + 12, unwindset=SCALAR_REC,
                       timeout=600, mem_gb=4, desc='serialize(double) text rule with %%g as a contract stub: %d integer digits, %d fraction digits, exponent part %s; all 64 option sets' % (i, f, 'present' if e else 'absent'),
                       bounds='%%g text shape: %d int digits, %d fraction digits, exponent %d (2-3 exponent digits)' % (i, f, e)))
    qs.append(dict(name='scalar_null', unit='ser', harness='h_scalar.c', defs={'KIND': 0}, unwind=10, unwindset=SCALAR_REC, timeout=600, mem_gb=4,
                   desc='serialize(null) x 64 option sets: exact text', bounds='64 option sets'))
    qs.append(dict(name='scalar_bool', unit='ser', harness='h_scalar.c', defs={'KIND': 1}, unwind=10, unwindset=SCALAR_REC, timeout=600, mem_gb=4,
                   desc='serialize(false/true) x 64 option sets: exact text', bounds='both values x 64 option sets'))
    qs.append(dict(name='scalar_hexint', unit='ser', harness='h_scalar.c', defs={'KIND': 2}, unwind=22, unwindset=SCALAR_REC, timeout=900, mem_gb=6,
                   desc='serialize(int64) with HEX_INTEGERS: exact text for every int64 (incl. INT64_MIN/MAX) x 32 option sets', bounds='all 2^64 values'))
    for nd in ([1, 2] if tier == 'quick' else [1, 2, 3, 5]):
        qs.append(dict(name='scalar_decint_%ddig' % nd, unit='ser', harness='h_scalar.c', defs={'KIND': 3, 'NDIG': nd}, unwind=nd + 18, unwindset=SCALAR_REC, timeout=900, mem_gb=6,
                       desc='serialize(int64) without HEX_INTEGERS returns exactly std::to_string(value) (%d-digit values, both signs) x 32 option sets' % nd,
                       bounds='%d decimal digits' % nd))
    for L in ([0] if tier == 'quick' else [0, 1]):  # length 2: SAT back end > 14 GB
        qs.append(dict(name='scalar_string_len%d' % L, unit='ser', harness='h_scalar.c', defs={'KIND': 4, 'LEN': L}, unwind=6 * L + 20, unwindset=SCALAR_REC, timeout=900, mem_gb=6,
                       desc='serialize(string of %d symbolic bytes) x 64 option sets: quotes + body that un-escapes to the input, alphabet of the selected mode' % L,
                       bounds='string length == %d, all byte values' % L))
    CMPREC = '_ZNK5phosg4JSONssERKS0_:1,%s:1' % RESET
    pairs = [(a, b) for a in range(5) for b in range(5)] if tier == 'thorough' else [(0, 0), (1, 1), (2, 2), (3, 3), (2, 3), (3, 2), (4, 4), (1, 2), (0, 4)]
    for (a, b) in pairs:
        for (la, lb) in ([(0, 0)] if not (a == 4 or b == 4) else ([(1, 1), (1, 2)] if tier == 'quick' else [(0, 0), (0, 1), (1, 1), (1, 2), (2, 1), (2, 2)])):
            if (a != 4 and la) or (b != 4 and lb):
                continue
            qs.append(dict(name='cmp_k%d_k%d_l%d_l%d' % (a, b, la, lb), unit='ser', harness='h_cmp.c', defs={'KA': a, 'KB': b, 'LA': la, 'LB': lb}, unwind=10,
                           unwindset=CMPREC, timeout=600, mem_gb=4,
                           desc='operator<=> / == / != on scalars of kinds %d and %d (string lengths %d, %d), all values symbolic, vs reference ordering' % (a, b, la, lb),
                           bounds='kinds (%d,%d), string lengths (%d,%d)' % (a, b, la, lb)))
    COPYREC = '%s:1,%s:1,_ZNK5phosg4JSONssERKS0_:1,_ZN5phosg4JSONaSERKS0_:1' % (SERIALIZE, RESET)
    for (k, over, L) in ([(0, 4, 0), (1, 2, 0), (2, 4, 0), (3, 2, 0), (4, 0, 1), (4, 4, 2)] if tier == 'quick' else
                         [(k, o, 0) for k in (0, 1, 2, 3) for o in (0, 1, 2, 3, 4)] + [(4, o, L) for o in (0, 2, 4) for L in (0, 1, 2, 3)]):
        qs.append(dict(name='copy_k%d_over%d_len%d' % (k, over, L), unit='ser', harness='h_copy.c', defs={'KIND': k, 'OVER': over, 'LEN': L}, unwind=L + 22,
                       unwindset=COPYREC, timeout=900, mem_gb=8,
                       desc='copy construction / assignment of a scalar of kind %d (over a value of kind %d; string length %d): equal, same alternative, deep' % (k, over, L),
                       bounds='source kind %d, overwritten kind %d, string length %d' % (k, over, L)))
    return qs
