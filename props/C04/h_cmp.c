/* C04 kernel 5: JSON::operator<=> / == / != on two scalar values. Kinds KA, KB are concrete cells (0 null, 1 bool, 2 int,
 * 3 float, 4 string of LA / LB bytes); all values symbolic (every int64, every double bit pattern incl. NaN/inf/-0, all
 * bytes). Reference written from JSON.hh: int and float compare numerically with each other (the int converted to
 * double, as C++ does for int64 <=> double); same kinds compare by value (strings bytewise unsigned, then by length;
 * NaN is unordered); any other pair of kinds is unordered. == is "equivalent", != is its negation. */
#include "harness.h"
int64_t w_json_cmp_scalar(uint32_t ka, uint64_t va, uint32_t kb, uint64_t vb, uint8_t* sa, uint64_t na, uint8_t* sb, uint64_t nb);
#ifndef LA
#define LA 0
#endif
#ifndef LB
#define LB 0
#endif
#define EQV 0
#define LESS 1
#define GREATER 2
#define UNORD 3
static int cmp_d(double a, double b) { return a < b ? LESS : a > b ? GREATER : a == b ? EQV : UNORD; }
static double as_d(uint64_t bits) { double d; memcpy(&d, &bits, 8); return d; }
void harness(void) {
  uint8_t sa[LA + 1], sb[LB + 1];
  uint64_t va = in_u64(), vb = in_u64();
  in_bytes(sa, LA); in_bytes(sb, LB);
  if (KA == 1) va &= 1;
  if (KB == 1) vb &= 1;
  int ref;
  if (KA == 2 && KB == 3) ref = cmp_d((double)(int64_t)va, as_d(vb));
  else if (KA == 3 && KB == 2) ref = cmp_d(as_d(va), (double)(int64_t)vb);
  else if (KA != KB) ref = UNORD;
  else if (KA == 0) ref = EQV;
  else if (KA == 1) ref = va < vb ? LESS : va > vb ? GREATER : EQV;
  else if (KA == 2) ref = (int64_t)va < (int64_t)vb ? LESS : (int64_t)va > (int64_t)vb ? GREATER : EQV;
  else if (KA == 3) ref = cmp_d(as_d(va), as_d(vb));
  else {
    ref = EQV;
    for (unsigned i = 0; i < LA && i < LB && ref == EQV; i++) ref = sa[i] < sb[i] ? LESS : sa[i] > sb[i] ? GREATER : EQV;
    if (ref == EQV) ref = LA < LB ? LESS : LA > LB ? GREATER : EQV;
  }
  int64_t r = w_json_cmp_scalar(KA, va, KB, vb, sa, LA, sb, LB);
  OBS(r);
  ASSERT(r >= 0, "comparison of scalars does not throw");
  if (r < 0) return;
  ASSERT((r & 15) == ref, "operator<=> equals the reference ordering");
  ASSERT(((r >> 4) & 1) == (ref == EQV), "operator== is true exactly for equivalent values");
  ASSERT(((r >> 5) & 1) == (ref != EQV), "operator!= is the negation of operator==");
}
