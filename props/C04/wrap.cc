// C04 wrappers: JSON::escape_string, JSON::serialize of scalars, operator<=> on scalars, string round trip (JSON.cc)
#include "wrap.hh"
#include "Strings.cc"
#include "JSON.cc"
using namespace phosg;

#define W_PARSE_ERROR (-20)
#define W_TYPE_ERROR (-21)
#define W_JSON_CATCH                                              \
  catch (const JSON::parse_error&) { return W_PARSE_ERROR; }      \
  catch (const JSON::type_error&) { return W_TYPE_ERROR; }        \
  W_CATCH_ALL

static inline std::string w_str(const uint8_t* in, size_t n) { return std::string(reinterpret_cast<const char*>(in), n); }

// kind: 0 null, 1 bool, 2 int, 3 float, 4 string. val: bool 0/1, int value, float IEEE bits; string bytes in (s, n)
static JSON make_scalar(int kind, uint64_t val, const uint8_t* s, size_t n) {
  switch (kind) {
    case 0: return JSON(nullptr);
    case 1: return JSON(val != 0);
    case 2: return JSON(static_cast<int64_t>(val));
    case 3: { double d; memcpy(&d, &val, 8); return JSON(d); }
    default: return JSON(w_str(s, n));
  }
}

WEXPORT int64_t w_json_escape(const uint8_t* in, size_t n, int mode, uint8_t* out, size_t cap) {
  try {
    return w_copy_out(JSON::escape_string(w_str(in, n), static_cast<JSON::StringEscapeMode>(mode)), out, cap);
  }
  W_JSON_CATCH
}

// serialize(options) of one scalar value
WEXPORT int64_t w_json_ser_scalar(int kind, uint64_t val, const uint8_t* s, size_t n, uint32_t options, uint8_t* out, size_t cap) {
  try {
    JSON j = make_scalar(kind, val, s, n);
    return w_copy_out(j.serialize(options), out, cap);
  }
  W_JSON_CATCH
}

// a <=> b on scalars: 0 equivalent, 1 less, 2 greater, 3 unordered; bit 4 = (a == b), bit 5 = (a != b)
WEXPORT int64_t w_json_cmp_scalar(int ka, uint64_t va, int kb, uint64_t vb, const uint8_t* sa, size_t na, const uint8_t* sb, size_t nb) {
  try {
    JSON a = make_scalar(ka, va, sa, na);
    JSON b = make_scalar(kb, vb, sb, nb);
    std::partial_ordering o = (a <=> b);
    int64_t r = (o == std::partial_ordering::equivalent) ? 0 : (o == std::partial_ordering::less) ? 1 : (o == std::partial_ordering::greater) ? 2 : 3;
    if (a == b) r |= 16;
    if (a != b) r |= 32;
    return r;
  }
  W_JSON_CATCH
}

// Value trees of a concrete SHAPE with up to two leaves a, b (kind/value as make_scalar; a string leaf is the 1-byte string
// (char)val) and up to two 1-byte dictionary keys k[0], k[1]:
//   0 []   1 {}   2 [a]   3 [a,b]   4 {k0:a}   5 {k0:a,k1:b}   6 [[a]]   7 {k0:[a]}   8 [{k0:a}]   9 [[],{}]   10 [a,[b]]
static JSON leaf(int kind, uint64_t val) {
  uint8_t c = static_cast<uint8_t>(val);
  return make_scalar(kind, val, &c, 1);
}
static JSON make_tree(int shape, int ka, uint64_t va, int kb, uint64_t vb, const uint8_t* k) {
  std::string k0(reinterpret_cast<const char*>(k), 1), k1(reinterpret_cast<const char*>(k + 1), 1);
  switch (shape) {
    case 0: return JSON::list();
    case 1: return JSON::dict();
    case 2: return JSON::list({leaf(ka, va)});
    case 3: return JSON::list({leaf(ka, va), leaf(kb, vb)});
    case 4: return JSON::dict({{k0, leaf(ka, va)}});
    case 5: return JSON::dict({{k0, leaf(ka, va)}, {k1, leaf(kb, vb)}});
    case 6: return JSON::list({JSON::list({leaf(ka, va)})});
    case 7: return JSON::dict({{k0, JSON::list({leaf(ka, va)})}});
    case 8: return JSON::list({JSON::dict({{k0, leaf(ka, va)}})});
    case 9: return JSON::list({JSON::list(), JSON::dict()});
    default: return JSON::list({leaf(ka, va), JSON::list({leaf(kb, vb)})});
  }
}
// the first leaf of the tree (shapes with a leaf)
static JSON& first_leaf(JSON& j, int shape, const uint8_t* k) {
  std::string k0(reinterpret_cast<const char*>(k), 1);
  switch (shape) {
    case 2: case 3: case 10: return j.at(0);
    case 4: case 5: return j.at(k0);
    case 6: return j.at(0).at(0);
    case 7: return j.at(k0).at(0);
    default: return j.at(0).at(k0);
  }
}
// what: 0 serialize the tree; 1 serialize a copy (copy constructor); 2 copy, overwrite the copy's first leaf with leaf b,
// serialize the ORIGINAL (deep copy: must be unchanged); 3 same, serialize the modified COPY;
// 4 return (orig == copy) | (orig != copy) << 1 | (orig == modified copy) << 2 | (orig != modified copy) << 3
WEXPORT int64_t w_json_tree(int what, int shape, int ka, uint64_t va, int kb, uint64_t vb, const uint8_t* k, uint32_t options, uint8_t* out, size_t cap) {
  try {
    JSON orig = make_tree(shape, ka, va, kb, vb, k);
    if (what == 0) return w_copy_out(orig.serialize(options), out, cap);
    JSON copy(orig);
    if (what == 1) return w_copy_out(copy.serialize(options), out, cap);
    if (what == 4) {
      int64_t r = (orig == copy ? 1 : 0) | (orig != copy ? 2 : 0);
      first_leaf(copy, shape, k) = leaf(kb, vb);
      return r | (orig == copy ? 4 : 0) | (orig != copy ? 8 : 0);
    }
    first_leaf(copy, shape, k) = leaf(kb, vb);
    return w_copy_out((what == 2 ? orig : copy).serialize(options), out, cap);
  }
  W_JSON_CATCH
}
