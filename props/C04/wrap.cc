// C04 wrappers: JSON::escape_string, JSON::serialize of scalars, operator<=> on scalars, string round trip (JSON.cc)
#include "wrap.hh"
#include "Strings.cc"
#include "JSON.cc"
using namespace phosg;

#define W_PARSE_ERROR (-20)
#define W_TYPE_ERROR (-21)
#define W_JSON_CATCH                                              \
  catch (const JSON::parse_error&) { return W_PARSE_ERROR; }      \
  catch (const JSON::type_error&) { return W_TYPE_ERROR; }        \
  W_CATCH_ALL

static inline std::string w_str(const uint8_t* in, size_t n) { return std::string(reinterpret_cast<const char*>(in), n); }

// kind: 0 null, 1 bool, 2 int, 3 float, 4 string. val: bool 0/1, int value, float IEEE bits; string bytes in (s, n)
static JSON make_scalar(int kind, uint64_t val, const uint8_t* s, size_t n) {
  switch (kind) {
    case 0: return JSON(nullptr);
    case 1: return JSON(val != 0);
    case 2: return JSON(static_cast<int64_t>(val));
    case 3: { double d; memcpy(&d, &val, 8); return JSON(d); }
    default: return JSON(w_str(s, n));
  }
}

static int describe_kind(const JSON& j) {
  return j.is_null() ? 0 : j.is_bool() ? 1 : j.is_int() ? 2 : j.is_float() ? 3 : j.is_string() ? 4 : j.is_list() ? 5 : 6;
}

WEXPORT int64_t w_json_escape(const uint8_t* in, size_t n, int mode, uint8_t* out, size_t cap) {
  try {
    return w_copy_out(JSON::escape_string(w_str(in, n), static_cast<JSON::StringEscapeMode>(mode)), out, cap);
  }
  W_JSON_CATCH
}

// serialize(options) of one scalar value
WEXPORT int64_t w_json_ser_scalar(int kind, uint64_t val, const uint8_t* s, size_t n, uint32_t options, uint8_t* out, size_t cap) {
  try {
    JSON j = make_scalar(kind, val, s, n);
    return w_copy_out(j.serialize(options), out, cap);
  }
  W_JSON_CATCH
}

// a <=> b on scalars: 0 equivalent, 1 less, 2 greater, 3 unordered; bit 4 = (a == b), bit 5 = (a != b)
WEXPORT int64_t w_json_cmp_scalar(int ka, uint64_t va, int kb, uint64_t vb, const uint8_t* sa, size_t na, const uint8_t* sb, size_t nb) {
  try {
    JSON a = make_scalar(ka, va, sa, na);
    JSON b = make_scalar(kb, vb, sb, nb);
    std::partial_ordering o = (a <=> b);
    int64_t r = (o == std::partial_ordering::equivalent) ? 0 : (o == std::partial_ordering::less) ? 1 : (o == std::partial_ordering::greater) ? 2 : 3;
    if (a == b) r |= 16;
    if (a != b) r |= 32;
    return r;
  }
  W_JSON_CATCH
}

// copy construction / copy assignment of a scalar: bit 0 copy == orig, bit 1 !(copy != orig), bit 2 same alternative
// (null/bool/int/float/string), bit 3 assigned == orig, bit 4 same alternative after assignment over a value of kind `over`,
// bit 5 (strings) the original is unchanged after the copy's text was modified, bit 6 the copy reflects the modification
WEXPORT int64_t w_json_copy_scalar(int kind, uint64_t val, const uint8_t* s, size_t n, int over, uint8_t* out, size_t cap) {
  try {
    JSON orig = make_scalar(kind, val, s, n);
    JSON copy(orig);
    int64_t r = (copy == orig ? 1 : 0) | (!(copy != orig) ? 2 : 0) | (describe_kind(copy) == describe_kind(orig) ? 4 : 0);
    JSON assigned = make_scalar(over, 1, s, n);
    assigned = orig;
    r |= (assigned == orig ? 8 : 0) | (describe_kind(assigned) == describe_kind(orig) ? 16 : 0);
    if (kind == 4) {
      copy.as_string().push_back('!');
      const std::string& o = orig.as_string();
      r |= ((o.size() == n) && (n == 0 || memcmp(o.data(), s, n) == 0)) ? 32 : 0;
      r |= (copy.as_string().size() == n + 1) ? 64 : 0;
    }
    if (describe_kind(assigned) != describe_kind(orig)) return r; // (reported by bit 4) do not format a value of the wrong kind
    if (kind >= 3) return r; // float text is kernel 3 (%g is not modelled here), string text is kernel 4
    int64_t w = w_copy_out(assigned.serialize(0x01), out, cap); // hex ints: no decimal digit generation involved
    if (w < 0) return w;
    return r | (w << 8);
  }
  W_JSON_CATCH
}
