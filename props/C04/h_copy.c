/* C04 kernel 6: copies of scalar values are equal to their source, keep the int/float kind, and are deep.
 * KIND (cell) = kind of the source value (0 null, 1 bool, 2 int, 4 string of LEN bytes; 3 float: every bit pattern except
 * NaN, which is never equal to itself), OVER (cell) = kind of the value that is overwritten by copy ASSIGNMENT.
 * Asserted: copy-constructed and copy-assigned values compare == (and not !=) to the source and hold the same alternative;
 * the assigned null/bool/int serializes to the same text as an independently formatted source (ints in hex, so no libstdc++
 * decimal digits are involved; float and string text rules are kernels 3 and 4); for strings,
 * appending to the copy leaves the source bytes untouched (deep copy). */
#include "harness.h"
#include "stub_printf.h"
#include "json_cuts.h"
int64_t w_json_copy_scalar(uint32_t kind, uint64_t val, uint8_t* s, uint64_t n, uint32_t over, uint8_t* out, uint64_t cap);
#ifndef LEN
#define LEN 0
#endif
#define CAP (LEN * 6 + 32)
void harness(void) {
  uint8_t s[LEN + 1], out[CAP];
  uint64_t val = in_u64();
  in_bytes(s, LEN);
  if (KIND == 1) val &= 1;
  if (KIND == 3) { double d; memcpy(&d, &val, 8); ASSUME(d == d); }
  int64_t r = w_json_copy_scalar(KIND, val, s, LEN, OVER, out, CAP);
  OBS(r);
  ASSERT(r >= 0, "copying a scalar does not throw");
  if (r < 0) return;
  ASSERT((r & 1) && (r & 2), "a copy-constructed value compares equal to its source");
  ASSERT(r & 4, "a copy-constructed value holds the same alternative (int stays int, float stays float)");
  ASSERT((r & 8) && (r & 16), "a copy-assigned value compares equal to its source and holds the same alternative");
  if (KIND == 4) ASSERT((r & 32) && (r & 64), "modifying the copy of a string leaves the source unchanged (deep copy)");
  int64_t w = r >> 8;
  if (KIND == 0) ASSERT(w == 4 && out[0] == 'n' && out[1] == 'u' && out[2] == 'l' && out[3] == 'l', "assigned null serializes as null");
  if (KIND == 1) ASSERT(val ? (w == 4 && out[0] == 't') : (w == 5 && out[0] == 'f'), "assigned bool serializes as the source bool");
  if (KIND == 2) {
    /* expected text from an independent nibble formatter */
    int64_t v = (int64_t)val;
    uint64_t mag = v < 0 ? (uint64_t)0 - (uint64_t)v : (uint64_t)v;
    uint8_t exp[24]; unsigned n = 0; int started = 0;
    if (v < 0) exp[n++] = '-';
    exp[n++] = '0'; exp[n++] = 'x';
    for (int k = 15; k >= 0; k--) {
      unsigned d = (unsigned)((mag >> (4 * k)) & 0xF);
      if (d || started || k == 0) { exp[n++] = (uint8_t)(d < 10 ? '0' + d : 'A' + d - 10); started = 1; }
    }
    ASSERT(w == (int64_t)n, "assigned int serializes to the text of the source (length)");
    if (w == (int64_t)n) for (unsigned i = 0; i < n; i++) ASSERT(out[i] == exp[i], "assigned int serializes to the text of the source");
  }
}
