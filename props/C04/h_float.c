/* C04 kernel 3: text rule of JSON::serialize for doubles (JSON.cc, case 3: "%g" + ".0" suffix rule).
 * vasprintf("%g", double) is a CONTRACT stub: it returns an arbitrary member of the language printf's %g produces for a
 * finite double (chosen by the solver, independent of the argument): sign? then either a plain decimal
 * [0-9]+ ( '.' [0-9]+ )?  or scientific  [0-9] ( '.' [0-9]+ )? 'e' [+-] [0-9][0-9]+ . One query therefore covers every finite
 * double whose %g text has the given shape, whatever its magnitude (1e+20, 2e+06, 1e-07, 1.5e+300 ...).
 * Asserted on the serialize() result: it is a number per RFC 8259 section 6 (so strict parsers accept it), it carries a
 * fraction or an exponent (so it reads back as a float, not an int), and it is the %g text itself or the %g text plus ".0"
 * (value unchanged). Shape cell: IDIG integer digits, FDIG fraction digits (0 = no '.'), EXPO 0/1 exponent part present. */
#include "harness.h"
#include <stdlib.h>
int64_t w_json_ser_scalar(uint32_t kind, uint64_t val, uint8_t* s, uint64_t n, uint32_t options, uint8_t* out, uint64_t cap);

#define GMAX (1 + IDIG + 1 + FDIG + 2 + 3 + 1)
static uint8_t g_text[GMAX];
static unsigned g_len;
static unsigned g_calls;

#ifdef VERIF_NATIVE_REAL
int vasprintf(char** outp, const char* fmt, __builtin_va_list va) {
#else
uint32_t X_vasprintf(uint8_t* outp_, uint8_t* fmt, uint8_t* va) {
  char** outp = (char**)outp_;
#endif
  (void)va;
  ASSERT(fmt[0] == '%' && fmt[1] == 'g' && fmt[2] == 0, "serialize formats a double with %g only");
  g_calls++;
  char* buf = (char*)malloc(GMAX + 1);
#ifdef VERIF_CBMC
  __CPROVER_assume(buf != 0);
#endif
  for (unsigned i = 0; i < g_len; i++) buf[i] = (char)g_text[i];
  buf[g_len] = 0;
  *outp = buf;
  return g_len;
}

/* The same contract for snprintf/vsnprintf("%g") into a caller-supplied buffer (C99: at most size-1 characters are stored,
 * the would-be length is returned), so that a serializer that formats into a fixed buffer is judged by the same rule
 * (seeded change C04-m3: a 13-byte buffer truncates "-d.ddddde+ddd"). Other formats: real libc natively, unmodelled here. */
#include <stdarg.h>
#ifdef VERIF_NATIVE_REAL
int vsnprintf(char* buf, size_t size, const char* fmt, va_list va);
int snprintf(char* buf, size_t size, const char* fmt, ...) {
  if (!(fmt[0] == '%' && fmt[1] == 'g' && fmt[2] == 0)) { va_list va; va_start(va, fmt); int r = vsnprintf(buf, size, fmt, va); va_end(va); return r; }
#else
uint32_t X_snprintf(uint8_t* buf, uint64_t size, uint8_t* fmt, ...) {
  if (!(fmt[0] == '%' && fmt[1] == 'g' && fmt[2] == 0)) { ASSERT(0, "UNMODELLED printf format in snprintf"); ASSUME(0); }
#endif
  g_calls++;
  for (unsigned i = 0; i < GMAX; i++) if (i < g_len && (uint64_t)i + 1 < size) buf[i] = (char)g_text[i];
  if (size) buf[(g_len < size - 1) ? g_len : size - 1] = 0;
  return g_len;
}

static int is_dig(uint8_t c) { return c >= '0' && c <= '9'; }

/* RFC 8259 section 6 number grammar on [t, t+n): returns 1 if the whole text is a number; *has_frac_or_exp set */
static int rfc_number(const uint8_t* t, unsigned n, int* frac_or_exp) {
  unsigned i = 0;
  *frac_or_exp = 0;
  if (i < n && t[i] == '-') i++;
  if (i >= n) return 0;
  if (t[i] == '0') i++;
  else if (t[i] >= '1' && t[i] <= '9') { while (i < n && is_dig(t[i])) i++; }
  else return 0;
  if (i < n && t[i] == '.') {
    i++;
    if (i >= n || !is_dig(t[i])) return 0;
    while (i < n && is_dig(t[i])) i++;
    *frac_or_exp = 1;
  }
  if (i < n && (t[i] == 'e' || t[i] == 'E')) {
    i++;
    if (i < n && (t[i] == '+' || t[i] == '-')) i++;
    if (i >= n || !is_dig(t[i])) return 0;
    while (i < n && is_dig(t[i])) i++;
    *frac_or_exp = 1;
  }
  return i == n;
}

void harness(void) {
  /* build a member of the %g language with the cell's shape */
  unsigned k = 0;
  if (in_bool()) g_text[k++] = '-';
  for (unsigned i = 0; i < IDIG; i++) { uint8_t d = (uint8_t)('0' + in_range(0, 9)); g_text[k++] = d; }
  /* %g never prints a leading zero in front of another integer digit */
  ASSUME(IDIG == 1 || g_text[k - IDIG] != '0');
#if EXPO
  ASSUME(IDIG == 1);
#endif
  if (FDIG) {
    g_text[k++] = '.';
    for (unsigned i = 0; i < FDIG; i++) { uint8_t d = (uint8_t)('0' + in_range(0, 9)); g_text[k++] = d; }
  }
#if EXPO
  g_text[k++] = 'e';
  g_text[k++] = in_bool() ? '+' : '-';
  g_text[k++] = (uint8_t)('0' + in_range(0, 9));
  g_text[k++] = (uint8_t)('0' + in_range(0, 9));
  if (in_bool()) { ASSUME(g_text[k - 2] != '0'); g_text[k++] = (uint8_t)('0' + in_range(0, 9)); } /* three-digit exponents (e+100 .. e+308) have no leading zero */
#endif
  g_len = k;
  uint32_t options = (uint32_t)in_range(0, 63);
  uint64_t bits = in_u64(); /* the double itself: irrelevant to the text rule under the contract stub */
  uint8_t out[GMAX + 4];
  int64_t r = w_json_ser_scalar(3, bits, out, 0, options, out, sizeof(out));
  OBS(r);
  ASSERT(r >= 0, "serialize(double) does not throw");
  ASSERT(g_calls == 1, "exactly one %g conversion");
  if (r < 0) return;
  int foe = 0;
  int ok = rfc_number(out, (unsigned)r, &foe);
  ASSERT(ok, "serialized double is a number per RFC 8259 section 6");
  ASSERT(foe, "serialized double carries a fraction or an exponent (reads back as float)");
  int same = ((unsigned)r == g_len);
  int plus0 = ((unsigned)r == g_len + 2) && out[g_len] == '.' && out[g_len + 1] == '0';
  ASSERT(same || plus0, "serialized double is the %g text, optionally followed by .0");
  for (unsigned i = 0; i < g_len && i < (unsigned)r; i++) ASSERT(out[i] == g_text[i], "the %g digits are kept unchanged");
}
