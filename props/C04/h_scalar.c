/* C04 kernel 4: JSON::serialize(options) of one scalar, all 64 option sets (options symbolic), exact expected text.
 * KIND 0 / 1: null / booleans -> "null" "true" "false", or "n" "t" "f" iff ONE_CHARACTER_TRIVIAL_CONSTANTS (0x02)
 * (the kind of the value is a concrete cell so that CBMC follows one branch of serialize's switch)
 * KIND 2: int64, HEX_INTEGERS (0x01) set -> [-]0x<uppercase hex magnitude, no leading zeros>, every int64 incl. INT64_MIN;
 *         expected text from an independent nibble formatter. vasprintf: engine/rt/stub_printf.h (exact for %lX).
 * KIND 3: int64, HEX_INTEGERS clear -> canonical decimal. std::to_string is a contract stub (json_cuts.h): the harness chooses
 *         NDIG decimal digits + sign, computes the value by Horner and expects exactly that text back.
 * KIND 4: string of LEN symbolic bytes -> '"' body '"' where body un-escapes (independent reader, json_unescape.h) to the
 *         input and obeys the alphabet of the mode selected by the options: ESCAPE_CONTROLS_ONLY (0x20) over
 *         HEX_ESCAPE_CODES (0x10) over standard.
 * No other option bit may change the text (FORMAT, SORT_DICT_KEYS and the bits of other kinds are symbolic too). */
#include "harness.h"
#include "stub_printf.h"
#include "json_cuts.h"
#include "json_unescape.h"
int64_t w_json_ser_scalar(uint32_t kind, uint64_t val, uint8_t* s, uint64_t n, uint32_t options, uint8_t* out, uint64_t cap);
#ifndef LEN
#define LEN 0
#endif
#define CAP (LEN * 6 + 32)

static void expect_text(const uint8_t* out, int64_t r, const uint8_t* exp, unsigned n) {
  ASSERT(r == (int64_t)n, "serialized text has the expected length");
  if (r == (int64_t)n) for (unsigned i = 0; i < n; i++) ASSERT(out[i] == exp[i], "serialized text equals the expected text");
}

void harness(void) {
  uint8_t out[CAP], exp[CAP], s[LEN + 1];
  uint32_t options = (uint32_t)in_range(0, 63);
  unsigned n = 0;
  int64_t r;
#if KIND == 0 || KIND == 1
  uint32_t bv = in_bool(); /* KIND 0: null; KIND 1: false / true */
  const char* full = KIND == 0 ? "null" : bv ? "true" : "false";
  if (options & 2) exp[n++] = (uint8_t)full[0];
  else for (unsigned i = 0; full[i]; i++) exp[n++] = (uint8_t)full[i];
  r = w_json_ser_scalar(KIND, bv, s, 0, options, out, CAP);
  OBS(r);
  expect_text(out, r, exp, n);
#elif KIND == 2
  int64_t v = in_i64();
  ASSUME(options & 1);
  uint64_t mag = v < 0 ? (uint64_t)0 - (uint64_t)v : (uint64_t)v;
  if (v < 0) exp[n++] = '-';
  exp[n++] = '0'; exp[n++] = 'x';
  int started = 0;
  for (int k = 15; k >= 0; k--) {
    unsigned d = (unsigned)((mag >> (4 * k)) & 0xF);
    if (d || started || k == 0) { exp[n++] = (uint8_t)(d < 10 ? '0' + d : 'A' + d - 10); started = 1; }
  }
  r = w_json_ser_scalar(2, (uint64_t)v, s, 0, options, out, CAP);
  OBS(r);
  expect_text(out, r, exp, n);
#elif KIND == 3
  ASSUME(!(options & 1));
  int neg = in_bool();
  uint64_t m = 0;
  if (neg) exp[n++] = '-';
  for (unsigned i = 0; i < NDIG; i++) {
    unsigned d = (unsigned)in_range(0, 9);
    if (i == 0 && NDIG > 1) ASSUME(d != 0);
    exp[n++] = (uint8_t)('0' + d);
    m = m * 10 + d;
  }
  ASSUME(!(neg && m == 0));               /* "-0" is not canonical */
  ASSUME(m <= (neg ? 0x8000000000000000ULL : 0x7FFFFFFFFFFFFFFFULL)); /* int64 range (matters for NDIG == 19) */
  uint64_t v = neg ? (uint64_t)0 - m : m;
  for (unsigned i = 0; i < n; i++) ts_text[i] = exp[i];
  ts_len = n; ts_value = v;
  r = w_json_ser_scalar(2, v, s, 0, options, out, CAP);
  OBS(r);
  expect_text(out, r, exp, n);
#else
  in_bytes(s, LEN);
  r = w_json_ser_scalar(4, 0, s, LEN, options, out, CAP);
  OBS(r);
  ASSERT(r >= 2, "serialized string has at least the two quotes");
  if (r < 2) return;
  ASSERT(out[0] == '"' && out[r - 1] == '"', "serialized string is enclosed in double quotes");
  int mode = (options & 0x20) ? 2 : (options & 0x10) ? 1 : 0;
  uint8_t dec[CAP];
  int64_t dn = json_unescape(out + 1, r - 2, mode, dec);
  ASSERT(dn == LEN, "string body un-escapes to the input length");
  if (dn == LEN) for (unsigned i = 0; i < LEN; i++) ASSERT(dec[i] == s[i], "string body un-escapes to the input bytes");
#endif
}
