/* Model of the two libstdc++.so runtime symbols std::map needs (JSON::serialize with SORT_DICT_KEYS builds a
 * std::map<string, JSON*>): node linking and in-order stepping of the red-black tree. The model links the node exactly where
 * libstdc++'s header code decided (left/right child of p) and maintains root/leftmost/rightmost in the header, but does NOT
 * rebalance or colour: rebalancing changes the shape of the tree, never the in-order sequence, and the header code only
 * relies on the binary-search-tree structure. Only compiled for the generated C (the real build links the real symbols).
 * struct _Rb_tree_node_base { int color; base* parent; base* left; base* right; }; header: parent=root, left=leftmost, right=rightmost */
#ifndef RBTREE_MODEL_H
#define RBTREE_MODEL_H
#ifndef VERIF_NATIVE_REAL
#define RB_PARENT(n) (*(uint8_t**)((n) + 8))
#define RB_LEFT(n) (*(uint8_t**)((n) + 16))
#define RB_RIGHT(n) (*(uint8_t**)((n) + 24))
void X__ZSt29_Rb_tree_insert_and_rebalancebPSt18_Rb_tree_node_baseS0_RS_(uint8_t insert_left, uint8_t* x, uint8_t* p, uint8_t* header) {
  RB_PARENT(x) = p; RB_LEFT(x) = 0; RB_RIGHT(x) = 0; *(uint32_t*)x = 1; /* black: only the header is red */
  if (insert_left) {
    RB_LEFT(p) = x; /* also sets leftmost when p == header */
    if (p == header) { RB_PARENT(header) = x; RB_RIGHT(header) = x; }
    else if (p == RB_LEFT(header)) RB_LEFT(header) = x;
  } else {
    RB_RIGHT(p) = x;
    if (p == RB_RIGHT(header)) RB_RIGHT(header) = x;
  }
}
/* in-order successor, as libstdc++'s tree.cc (the header node terminates the climb: header.parent = root, root.parent = header) */
static uint8_t* rb_increment(uint8_t* x) {
  if (RB_RIGHT(x) != 0) {
    x = RB_RIGHT(x);
    while (RB_LEFT(x) != 0) x = RB_LEFT(x);
  } else {
    uint8_t* y = RB_PARENT(x);
    while (x == RB_RIGHT(y)) { x = y; y = RB_PARENT(y); }
    if (RB_RIGHT(x) != y) x = y;
  }
  return x;
}
uint8_t* X__ZSt18_Rb_tree_incrementPSt18_Rb_tree_node_base(uint8_t* x) { return rb_increment(x); }
uint8_t* X__ZSt18_Rb_tree_incrementPKSt18_Rb_tree_node_base(uint8_t* x) { return rb_increment(x); }
/* in-order predecessor; the header (colour red = 0, parent->parent == self) steps to rightmost. Inserted nodes are black (1). */
uint8_t* X__ZSt18_Rb_tree_decrementPSt18_Rb_tree_node_base(uint8_t* x) {
  if (*(uint32_t*)x == 0 && RB_PARENT(RB_PARENT(x)) == x) return RB_RIGHT(x);
  if (RB_LEFT(x) != 0) {
    uint8_t* y = RB_LEFT(x);
    while (RB_RIGHT(y) != 0) y = RB_RIGHT(y);
    return y;
  }
  uint8_t* y = RB_PARENT(x);
  while (x == RB_LEFT(y)) { x = y; y = RB_PARENT(y); }
  return y;
}
#endif
#endif
