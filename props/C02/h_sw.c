/* C02/C01: StringWriter positional put. Prior contents: n symbolic bytes (n in [0,LEN]); pput_<WHICH>(off, v).
 * Cell OFFS=0: off in [0, LEN+4]; OFFS=1: off >= 2^63 (off+width is beyond std::string::max_size() = 2^63-1, including offsets whose
 * off+width overflows). The writer grows to cover the write (zero-filling the gap) or throws; it never stores outside
 * its string. Offsets in (LEN+4, 2^63) would allocate more than the modelled heap block: outside the claim. */
#include "c02.h"
static const uint8_t PW[] = {1, 2, 4, 8};
#define CAP (LEN + 4 + 8 + 1)
void harness(void) {
  uint8_t init[LEN], out[CAP];
  in_bytes(init, LEN);
  for (int i = 0; i < CAP; i++) out[i] = 0xA5;
#ifdef NFIX
  uint64_t n = NFIX; /* prior size is a case-split cell (std::string sizes are kept concrete) */
#else
  uint64_t n = in_range(0, LEN);
#endif
  uint64_t v = in_u64();
  const uint64_t w = PW[WHICH];
#if OFFS == 0
  uint64_t off = in_range(0, LEN + 4);
#else
  uint64_t off = in_u64();
  ASSUME(off >= (1ULL << 63));
#endif
  int64_t rc = w_sw_pput(init, n, off, WHICH, v, out, CAP);
  OBS(rc);
#if OFFS == 0
  uint64_t nn = (off + w > n) ? off + w : n;
  ASSERT(rc == (int64_t)nn, "size afterwards is max(old size, off+width)");
  if (rc == (int64_t)nn) {
    for (uint64_t i = 0; i < CAP; i++) {
      if (i >= nn) break;
      uint8_t want;
      if (i >= off && i < off + w) want = (uint8_t)(v >> (8 * ((WHICH == 1 || WHICH == 3) ? (w - 1 - (i - off)) : (i - off))));
      else if (i < n) want = init[i];
      else want = 0;
      ASSERT(out[i] == want, "value bytes at [off,off+w), old bytes kept, gap zero-filled");
    }
  }
#else
  ASSERT(rc == W_LENGTH_ERROR || rc == W_OUT_OF_RANGE, "a write the string cannot grow to cover is rejected with an exception (no store)");
#endif
}
