/* C02: fixed-width getters. WHICH selects the accessor (see table), POS: 0 positional pget_*(off) with UNCONSTRAINED
 * 64-bit offset, 1 cursor get_*(advance) from a symbolic cursor in [0,n].  Success => [off, off+width) inside [0,n),
 * the value is the independent big/little-endian composition of exactly those bytes, cursor advanced by exactly width;
 * failure => out_of_range, cursor untouched. */
#include "c02.h"
/*                        u8 u16l u16b u32l u32b u64l u64b u24l u24b u48l u48b s24b s48l f32b f64l */
static const uint8_t W[] = {1, 2, 2, 4, 4, 8, 8, 3, 3, 6, 6, 3, 6, 4, 8};
static const uint8_t BE[] = {0, 0, 1, 0, 1, 0, 1, 0, 1, 0, 1, 1, 0, 1, 0};
void harness(void) {
  READER_SETUP();
  const uint64_t w = W[WHICH];
  uint64_t val = 0, where = 0;
#if POS == 0
  uint64_t off = in_u64();
  CELL(off, w);
  uint64_t cur = 0; uint32_t adv = 0;
  int64_t rc = w_pget(buf, n, WHICH, off, &val);
#else
  uint64_t cur = in_range(0, n);
  uint64_t off = cur;
  uint32_t adv = in_bool();
  int64_t rc = w_get(buf, n, cur, WHICH, adv, &val, &where);
#endif
  OBS(rc);
  ASSERT(rc == 0 || rc == W_OUT_OF_RANGE, "returns or throws out_of_range, nothing else");
  if (rc == 0) {
    OBS(val); OBS(where);
    ASSERT(INSIDE(off, w, n), "a served read lies entirely inside the buffer");
    if (INSIDE(off, w, n)) {
      uint64_t ref = 0;
      for (uint64_t k = 0; k < w; k++) {
        uint64_t b = buf[off + k];
        ref |= b << (8 * (BE[WHICH] ? (w - 1 - k) : k));
      }
      ASSERT(val == ref, "value is the big/little-endian composition of the bytes at [off, off+width)");
    }
    ASSERT(where == (adv ? cur + w : cur), "cursor advances by exactly the width, or stays when advance=false");
  } else {
    ASSERT(!INSIDE(off, w, n), "an in-range read is served, not rejected");
    ASSERT(where == cur, "a rejected read leaves the cursor alone");
  }
  ASSERT(where <= n, "the cursor is never left beyond the end of the data");
}
