/* C02: pointer-returning throwing forms pgetv / getv / peek.  OP: 0 pgetv, 1 getv, 2 peek.
 * n in [0,LEN] symbolic, cursor in [0,n] symbolic, offset and size UNCONSTRAINED 64-bit (cell WRAP selects whether
 * offset+size overflows). Success => the slice [off, off+size) lies inside [0,n) and the pointer is buf+off;
 * failure => out_of_range; the cursor never ends beyond n. */
#include "c02.h"
void harness(void) {
  READER_SETUP();
  uint64_t size = in_u64();
  uint64_t delta = 0, where = 0;
#if OP == 0
  uint64_t off = in_u64();
  CELL(off, size);
  int64_t rc = w_pgetv(buf, n, off, size, &delta);
  where = 0;
  uint64_t cur = 0, adv = 0;
#else
  uint64_t cur = in_range(0, n);
  uint64_t off = cur;
  CELL(off, size);
#if OP == 1
  uint32_t adv = in_bool();
  int64_t rc = w_getv(buf, n, cur, size, adv, &delta, &where);
#else
  uint32_t adv = 0;
  int64_t rc = w_peek(buf, n, cur, size, &delta, &where);
#endif
#endif
  OBS(rc);
  ASSERT(rc == 0 || rc == W_OUT_OF_RANGE, "returns or throws out_of_range, nothing else");
  if (rc == 0) {
    OBS(delta); OBS(where);
    ASSERT(INSIDE(off, size, n), "a returned slice [off, off+size) lies entirely inside the buffer");
    ASSERT((int64_t)delta == (int64_t)off, "the returned pointer is data+offset");
    ASSERT(where == (adv ? cur + size : cur), "cursor advances by exactly size (getv, advance) or stays");
  } else {
    ASSERT(!INSIDE(off, size, n), "an in-range request is served, not rejected");
    ASSERT(where == cur, "a rejected request leaves the cursor alone");
  }
  ASSERT(where <= n, "the cursor is never left beyond the end of the data");
}
