/* C02: one inductive step of the cursor invariant for the non-reading cursor operations.
 * Pre-state: any n in [0,LEN], any cursor in [0,n] (the invariant). OP: 0 skip(a) 1 skip_if(pat,a) 2 truncate(a) 3 go(a);
 * a UNCONSTRAINED 64-bit. Post: cursor <= size unless the operation was go() (or truncate() below the cursor, which like
 * go() is an explicit repositioning by the caller); eof()/remaining() are consistent with where()/size(). */
#include "c02.h"
void harness(void) {
  READER_SETUP();
  uint8_t pat[LEN];
  in_bytes(pat, LEN);
  uint64_t cur = in_range(0, n);
  uint64_t a = in_u64();
  uint64_t where = 0, size_after = 0, remaining = 0; uint8_t eof = 0;
  int64_t rc = w_cursor_op(buf, n, cur, OP, a, pat, &where, &size_after, &remaining, &eof);
  OBS(rc); OBS(where); OBS(size_after); OBS(remaining); OBS(eof);
  ASSERT(remaining == size_after - where, "remaining() == size() - where()");
  ASSERT((eof != 0) == (where >= size_after), "eof() <=> where() >= size()");
#if OP == 0
  ASSERT(rc == 0 || rc == W_OUT_OF_RANGE, "skip returns or throws out_of_range");
  ASSERT(where <= n, "skip never leaves the cursor beyond the end");
  if (!((uint64_t)(cur + a) < cur)) { /* cur + a representable */
    if (a <= n - cur) ASSERT(rc == 0 && where == cur + a, "skip inside the data advances by exactly a");
    else ASSERT(rc == W_OUT_OF_RANGE && where == n, "skip beyond the end clamps to the end and throws");
  }
  ASSERT(size_after == n, "size unchanged");
#elif OP == 1
  ASSERT(rc == 0 || rc == 1, "skip_if never throws");
  int match = (a <= n - cur);
  if (match) for (uint64_t i = 0; i < LEN; i++) if (i < a && buf[cur + i] != pat[i]) match = 0;
  ASSERT(rc == match, "skip_if reports whether the next a bytes equal the pattern");
  ASSERT(where == (match ? cur + a : cur), "skip_if advances by exactly a on a match only");
  ASSERT(where <= n, "skip_if never leaves the cursor beyond the end");
  ASSERT(size_after == n, "size unchanged");
#elif OP == 2
  if (a <= n) ASSERT(rc == 0 && size_after == a, "truncate shrinks to exactly a");
  else ASSERT(rc == W_INVALID_ARGUMENT && size_after == n, "truncate cannot extend");
  ASSERT(where == cur, "truncate does not move the cursor");
  ASSERT(size_after <= n, "a reader never grows beyond its buffer");
#else
  ASSERT(rc == 0 && where == a && size_after == n, "go moves the cursor to a");
#endif
}
