/* C02: BufferWriter over a caller-owned buffer of cap bytes (cap symbolic in [0,LEN], placed at the END of an array so a
 * write past the end leaves the object). OP: 0 pwrite(off,src,size) with off/size UNCONSTRAINED (cell WRAP);
 * 1 two sequential write() calls with unconstrained sizes (cursor history); 2 typed put_* after `pre` single-byte puts;
 * 3 typed pput_*(off) with unconstrained off. A store either lands entirely inside the buffer (and only there) or the
 * writer throws runtime_error and the buffer is unchanged. */
#include "c02.h"
static const uint8_t PW[] = {1, 2, 4, 8};
void harness(void) {
  uint8_t arr[LEN + 1], arr0[LEN + 1], src[LEN + 8], src2[LEN + 8];
  in_bytes(arr0, LEN + 1);
  for (int i = 0; i < LEN + 1; i++) arr[i] = arr0[i];
  in_bytes(src, LEN + 8);
  in_bytes(src2, LEN + 8);
  uint64_t cap = in_range(0, LEN);
  uint8_t* buf = arr + (LEN + 1 - cap); /* arr[0 .. LEN-cap] in front of the buffer acts as a canary for under-writes */
  const uint64_t base = LEN + 1 - cap;
  uint64_t off = 0, size = 0, off2 = 0, size2 = 0; int n_ok = 0; /* model: up to two stores (off,size,src) */
  int64_t rc;
#if OP == 0
  off = in_u64(); size = in_u64();
  CELL(off, size);
  rc = w_bw_pwrite(buf, cap, off, src, size);
  ASSERT(rc == 0 || rc == W_RUNTIME_ERROR, "stores or throws runtime_error, nothing else");
  if (rc == 0) { ASSERT(INSIDE(off, size, cap), "an accepted store lies entirely inside the buffer"); n_ok = 1; }
  else ASSERT(!INSIDE(off, size, cap), "an in-range store is accepted");
#elif OP == 1
  size = in_u64(); size2 = in_u64();
  CELL(size, size2);
  uint64_t code = 0;
  rc = w_bw_write2(buf, cap, src, size, src2, size2, &code);
  off = 0; off2 = size;
  ASSERT(rc >= 0 && rc <= 2, "wrapper protocol");
  ASSERT((rc == 2) == ((int64_t)code == 0), "wrapper protocol");
  ASSERT(rc == 2 || (int64_t)code == W_RUNTIME_ERROR, "a rejected write throws runtime_error");
  if (rc >= 1) ASSERT(INSIDE(0, size, cap), "first write accepted => inside the buffer"); else ASSERT(!INSIDE(0, size, cap), "in-range first write accepted");
  if (rc == 2) ASSERT(INSIDE(size, size2, cap), "second write accepted => [size1, size1+size2) inside the buffer");
  if (rc == 1) ASSERT(!INSIDE(size, size2, cap), "in-range second write accepted");
  n_ok = (int)rc;
#else
  uint64_t v = in_u64();
  const uint64_t w = PW[WHICH];
#if OP == 2
  uint32_t pre = (uint32_t)in_range(0, LEN);
  off = pre;
  rc = w_bw_put(buf, cap, pre, WHICH, v);
  /* the `pre` single-byte puts themselves must fit, otherwise they throw first */
  if (pre > cap) { ASSERT(rc == W_RUNTIME_ERROR, "put beyond the end throws"); }
#else
  off = in_u64();
  CELL(off, w);
  rc = w_bw_pput(buf, cap, off, WHICH, v);
#endif
  size = w;
  for (uint64_t k = 0; k < 8; k++) if (k < w) src[k] = (uint8_t)(v >> (8 * ((WHICH == 1 || WHICH == 3) ? (w - 1 - k) : k))); /* u16b/u64b big, u32l little */
  ASSERT(rc == 0 || rc == W_RUNTIME_ERROR, "stores or throws runtime_error, nothing else");
  if (rc == 0) { ASSERT(INSIDE(off, size, cap), "an accepted store lies entirely inside the buffer"); n_ok = 1; }
  else ASSERT(!INSIDE(off, size, cap), "an in-range store is accepted");
#endif
  OBS(rc);
  /* frame: every byte of the backing array is either the model's stored byte or unchanged */
  for (uint64_t i = 0; i < LEN + 1; i++) {
    uint8_t want = arr0[i];
#if OP == 2
    if (i >= base && i - base < off && i - base < cap) want = 0xEE; /* the pre-fill puts that fitted */
#endif
    if (n_ok >= 1 && INSIDE(off, size, cap) && i >= base + off && i < base + off + size) want = src[i - base - off];
    if (n_ok >= 2 && INSIDE(off2, size2, cap) && i >= base + off2 && i < base + off2 + size2) want = src2[i - base - off2];
    ASSERT(arr[i] == want, "buffer holds exactly the accepted stores; nothing else (incl. the guard bytes) changed");
  }
}
