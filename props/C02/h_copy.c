/* C02: copying forms into a caller buffer. OP: 0 pread(off,void*,size) 1 preadx(off,void*,size) 2 read(void*,size,adv)
 * 3 readx(void*,size,adv). offset (or cursor in [0,n]) and size UNCONSTRAINED (cell WRAP: off+size overflows or not).
 * clamping forms copy exactly min(size, n-off) bytes (0 when off>=n); throwing forms copy exactly size bytes or throw
 * out_of_range; nothing beyond the copied prefix of the destination is written (canary), the cursor stays <= n. */
#include "c02.h"
void harness(void) {
  READER_SETUP();
  uint8_t out[LEN + 2], out0[LEN + 2];
  in_bytes(out0, LEN + 2);
  for (int i = 0; i < LEN + 2; i++) out[i] = out0[i];
  uint64_t size = in_u64();
  uint64_t where = 0;
#if OP < 2
  uint64_t off = in_u64(), cur = 0; uint32_t adv = 0;
  CELL(off, size);
#else
  uint64_t cur = in_range(0, n), off = cur; uint32_t adv = in_bool();
  CELL(off, size);
#endif
#if OP == 0
  int64_t rc = w_pread_v(buf, n, off, out, size);
#elif OP == 1
  int64_t rc = w_preadx_v(buf, n, off, out, size);
#elif OP == 2
  int64_t rc = w_read_v(buf, n, cur, out, size, adv, &where);
#else
  int64_t rc = w_readx_v(buf, n, cur, out, size, adv, &where);
#endif
  OBS(rc); OBS(where);
  uint64_t copied = 0;
#if OP == 0 || OP == 2
  uint64_t expect = (off >= n) ? 0 : (size <= n - off ? size : n - off);
  ASSERT(rc >= 0, "clamping forms never throw");
  ASSERT(rc == (int64_t)expect, "clamping read returns exactly the length of the in-range prefix");
  copied = rc >= 0 ? (uint64_t)rc : 0;
#else
  ASSERT(rc == 0 || rc == W_OUT_OF_RANGE, "returns or throws out_of_range, nothing else");
  if (rc == 0) {
    ASSERT(INSIDE(off, size, n), "a served exact read lies entirely inside the buffer");
    copied = size;
  } else {
    /* preadx(void*) also rejects the empty read at off == n; that is allowed ("or throws") */
    ASSERT(!INSIDE(off, size, n) || off == n, "an in-range read is served, not rejected");
  }
#endif
  if (copied <= n && off <= n && copied <= n - off) {
    for (uint64_t i = 0; i < LEN + 2; i++) {
      if (i < copied) ASSERT(out[i] == buf[off + i], "copied bytes equal the model slice");
      else ASSERT(out[i] == out0[i], "destination beyond the copied prefix is untouched");
    }
  }
#if OP >= 2
  ASSERT(where == (adv ? cur + copied : cur), "cursor advances by exactly the number of bytes delivered");
  ASSERT(where <= n, "the cursor is never left beyond the end of the data");
#endif
}
