/* shared by the C02 harnesses: wrapper prototypes (generated-C parameter types), exception codes, buffer set-up */
#ifndef C02_H
#define C02_H
#include "harness.h"
#define W_OUT_OF_RANGE (-1)
#define W_INVALID_ARGUMENT (-2)
#define W_LENGTH_ERROR (-3)
#define W_LOGIC_ERROR (-4)
#define W_RUNTIME_ERROR (-5)
#define W_CAPACITY (-100)
#define NULLPTR_DELTA 0x7FFFFFFFFFFFFFF0LL
#ifndef LEN
#define LEN 4 /* size of the backing array; the reader length n is symbolic in [0, LEN] */
#endif
#ifndef WRAP
#define WRAP 0 /* 0: offset+size does not overflow 64 bits; 1: it does (the two cells together = all of size_t x size_t) */
#endif

int64_t w_pgetv(uint8_t* buf, uint64_t n, uint64_t off, uint64_t size, uint64_t* delta);
int64_t w_getv(uint8_t* buf, uint64_t n, uint64_t cur, uint64_t size, uint32_t adv, uint64_t* delta, uint64_t* where);
int64_t w_peek(uint8_t* buf, uint64_t n, uint64_t cur, uint64_t size, uint64_t* delta, uint64_t* where);
int64_t w_pget(uint8_t* buf, uint64_t n, uint32_t which, uint64_t off, uint64_t* val);
int64_t w_get(uint8_t* buf, uint64_t n, uint64_t cur, uint32_t which, uint32_t adv, uint64_t* val, uint64_t* where);
int64_t w_pread_v(uint8_t* buf, uint64_t n, uint64_t off, uint8_t* out, uint64_t size);
int64_t w_preadx_v(uint8_t* buf, uint64_t n, uint64_t off, uint8_t* out, uint64_t size);
int64_t w_read_v(uint8_t* buf, uint64_t n, uint64_t cur, uint8_t* out, uint64_t size, uint32_t adv, uint64_t* where);
int64_t w_readx_v(uint8_t* buf, uint64_t n, uint64_t cur, uint8_t* out, uint64_t size, uint32_t adv, uint64_t* where);
int64_t w_pread_s(uint8_t* buf, uint64_t n, uint64_t off, uint64_t size, uint8_t* out, uint64_t cap);
int64_t w_preadx_s(uint8_t* buf, uint64_t n, uint64_t off, uint64_t size, uint8_t* out, uint64_t cap);
int64_t w_read_s(uint8_t* buf, uint64_t n, uint64_t cur, uint64_t size, uint32_t adv, uint8_t* out, uint64_t cap, uint64_t* where);
int64_t w_readx_s(uint8_t* buf, uint64_t n, uint64_t cur, uint64_t size, uint32_t adv, uint8_t* out, uint64_t cap, uint64_t* where);
int64_t w_all(uint8_t* buf, uint64_t n, uint64_t cur, uint8_t* out, uint64_t cap);
int64_t w_sub(uint8_t* buf, uint64_t n, uint32_t form, uint32_t bits, uint64_t off, uint64_t size, uint64_t* delta, uint64_t* sub_size, uint64_t* sub_where);
int64_t w_cursor_op(uint8_t* buf, uint64_t n, uint64_t cur, uint32_t op, uint64_t a, uint8_t* pat, uint64_t* where, uint64_t* size_after, uint64_t* remaining, uint8_t* eof);
int64_t w_get_line(uint8_t* buf, uint64_t n, uint64_t cur, uint32_t adv, uint8_t* out, uint64_t cap, uint64_t* where);
int64_t w_get_cstr(uint8_t* buf, uint64_t n, uint64_t cur, uint32_t adv, uint8_t* out, uint64_t cap, uint64_t* where);
int64_t w_pget_cstr(uint8_t* buf, uint64_t n, uint64_t off, uint8_t* out, uint64_t cap);
int64_t w_bw_pwrite(uint8_t* buf, uint64_t cap, uint64_t off, uint8_t* src, uint64_t size);
int64_t w_bw_write2(uint8_t* buf, uint64_t cap, uint8_t* s1, uint64_t n1, uint8_t* s2, uint64_t n2, uint64_t* code);
int64_t w_bw_put(uint8_t* buf, uint64_t cap, uint32_t pre, uint32_t which, uint64_t v);
int64_t w_bw_pput(uint8_t* buf, uint64_t cap, uint64_t off, uint32_t which, uint64_t v);
int64_t w_sw_pput(uint8_t* init, uint64_t n, uint64_t off, uint32_t which, uint64_t v, uint8_t* out, uint64_t cap);
int64_t w_sw_write(uint8_t* init, uint64_t n, uint8_t* blk, uint64_t bn, uint8_t* out, uint64_t cap);

/* Reader data: n symbolic bytes placed at the END of a LEN-byte array, so that the byte after the reader's data is
 * outside the array object (CBMC's bounds checks / ASan see an over-read directly). */
#define READER_SETUP()                         \
  uint8_t arr[LEN];                            \
  in_bytes(arr, LEN);                          \
  uint64_t n = in_range(0, LEN);               \
  uint8_t* buf = arr + (LEN - n)

/* the (a, b) pair lies in this query's cell: WRAP=0 -> a+b fits in 64 bits, WRAP=1 -> a+b overflows */
#if WRAP
#define CELL(a, b) ASSUME((uint64_t)((a) + (b)) < (a))
#else
#define CELL(a, b) ASSUME(!((uint64_t)((a) + (b)) < (a)))
#endif
/* mathematically exact: [a, a+b) inside [0, n) */
#define INSIDE(a, b, n) ((a) <= (n) && (b) <= (n) - (a))
#endif
