// C02 wrappers: StringReader / BufferWriter / StringWriter bounds behaviour (Strings.hh, Strings.cc).
// Each wrapper builds the object over the caller's buffer, performs ONE operation and reports what came back
// (offset of the returned pointer relative to the buffer, sizes, cursor) through out-parameters; exceptions -> codes.
#include "wrap.hh"
// std headers first so that `#define private public` only affects the phosg headers (needed to observe the data pointer
// of BitReader sub-readers, which has no public accessor)
#include <algorithm>
#include <deque>
#include <functional>
#include <map>
#include <memory>
#include <set>
#include <sstream>
#include <string>
#include <unordered_map>
#include <unordered_set>
#include <vector>
#define private public
#include "Strings.cc"
#undef private
using namespace phosg;

#define NULLPTR_DELTA 0x7FFFFFFFFFFFFFF0LL /* reported when a returned pointer is null (default-constructed reader) */

static inline int64_t delta_of(const void* p, const uint8_t* base) {
  if (p == nullptr) return NULLPTR_DELTA;
  return static_cast<int64_t>(reinterpret_cast<uintptr_t>(p) - reinterpret_cast<uintptr_t>(base));
}

// ---- pointer-returning forms ----
WEXPORT int64_t w_pgetv(const uint8_t* buf, size_t n, size_t off, size_t size, int64_t* delta) {
  try {
    StringReader r(buf, n);
    *delta = delta_of(r.pgetv(off, size), buf);
    return 0;
  }
  W_CATCH_ALL
}
WEXPORT int64_t w_getv(const uint8_t* buf, size_t n, size_t cur, size_t size, int adv, int64_t* delta, uint64_t* where) {
  StringReader r(buf, n, cur);
  try {
    *delta = delta_of(r.getv(size, adv), buf);
    *where = r.where();
    return 0;
  } catch (const std::out_of_range&) {
    *where = r.where();
    return W_OUT_OF_RANGE;
  }
  W_CATCH_ALL
}
WEXPORT int64_t w_peek(const uint8_t* buf, size_t n, size_t cur, size_t size, int64_t* delta, uint64_t* where) {
  StringReader r(buf, n, cur);
  try {
    *delta = delta_of(r.peek(size), buf);
    *where = r.where();
    return 0;
  } catch (const std::out_of_range&) {
    *where = r.where();
    return W_OUT_OF_RANGE;
  }
  W_CATCH_ALL
}

// ---- fixed-width positional / cursor getters: value out, cursor out ----
// which: 0 u8, 1 u16l, 2 u16b, 3 u32l, 4 u32b, 5 u64l, 6 u64b, 7 u24l, 8 u24b, 9 u48l, 10 u48b, 11 s24b, 12 s48l, 13 f32b(bits), 14 f64l(bits)
WEXPORT int64_t w_pget(const uint8_t* buf, size_t n, int which, size_t off, uint64_t* val) {
  try {
    StringReader r(buf, n);
    switch (which) {
      case 0: *val = r.pget_u8(off); break;
      case 1: *val = r.pget_u16l(off); break;
      case 2: *val = r.pget_u16b(off); break;
      case 3: *val = r.pget_u32l(off); break;
      case 4: *val = r.pget_u32b(off); break;
      case 5: *val = r.pget_u64l(off); break;
      case 6: *val = r.pget_u64b(off); break;
      case 7: *val = r.pget_u24l(off); break;
      case 8: *val = r.pget_u24b(off); break;
      case 9: *val = r.pget_u48l(off); break;
      case 10: *val = r.pget_u48b(off); break;
      case 11: *val = static_cast<uint32_t>(r.pget_s24b(off)) & 0xFFFFFF; break;
      case 12: *val = static_cast<uint64_t>(r.pget_s48l(off)) & 0xFFFFFFFFFFFFULL; break;
      case 13: { float f = r.pget_f32b(off); uint32_t b; memcpy(&b, &f, 4); *val = b; break; }
      case 14: { double f = r.pget_f64l(off); uint64_t b; memcpy(&b, &f, 8); *val = b; break; }
      default: return W_CAPACITY;
    }
    return 0;
  }
  W_CATCH_ALL
}
WEXPORT int64_t w_get(const uint8_t* buf, size_t n, size_t cur, int which, int adv, uint64_t* val, uint64_t* where) {
  StringReader r(buf, n, cur);
  try {
    switch (which) {
      case 0: *val = r.get_u8(adv); break;
      case 1: *val = r.get_u16l(adv); break;
      case 2: *val = r.get_u16b(adv); break;
      case 3: *val = r.get_u32l(adv); break;
      case 4: *val = r.get_u32b(adv); break;
      case 5: *val = r.get_u64l(adv); break;
      case 6: *val = r.get_u64b(adv); break;
      case 7: *val = r.get_u24l(adv); break;
      case 8: *val = r.get_u24b(adv); break;
      case 9: *val = r.get_u48l(adv); break;
      case 10: *val = r.get_u48b(adv); break;
      case 11: *val = static_cast<uint32_t>(r.get_s24b(adv)) & 0xFFFFFF; break;
      case 12: *val = static_cast<uint64_t>(r.get_s48l(adv)) & 0xFFFFFFFFFFFFULL; break;
      case 13: { float f = r.get_f32b(adv); uint32_t b; memcpy(&b, &f, 4); *val = b; break; }
      case 14: { double f = r.get_f64l(adv); uint64_t b; memcpy(&b, &f, 8); *val = b; break; }
      default: return W_CAPACITY;
    }
    *where = r.where();
    return 0;
  } catch (const std::out_of_range&) {
    *where = r.where();
    return W_OUT_OF_RANGE;
  }
  W_CATCH_ALL
}

// ---- copying forms into a caller buffer ----
WEXPORT int64_t w_pread_v(const uint8_t* buf, size_t n, size_t off, uint8_t* out, size_t size) {
  try {
    StringReader r(buf, n);
    return static_cast<int64_t>(r.pread(off, out, size));
  }
  W_CATCH_ALL
}
WEXPORT int64_t w_preadx_v(const uint8_t* buf, size_t n, size_t off, uint8_t* out, size_t size) {
  try {
    StringReader r(buf, n);
    r.preadx(off, out, size);
    return 0;
  }
  W_CATCH_ALL
}
WEXPORT int64_t w_read_v(const uint8_t* buf, size_t n, size_t cur, uint8_t* out, size_t size, int adv, uint64_t* where) {
  StringReader r(buf, n, cur);
  try {
    int64_t ret = static_cast<int64_t>(r.read(out, size, adv));
    *where = r.where();
    return ret;
  } catch (const std::out_of_range&) {
    *where = r.where();
    return W_OUT_OF_RANGE;
  }
  W_CATCH_ALL
}
WEXPORT int64_t w_readx_v(const uint8_t* buf, size_t n, size_t cur, uint8_t* out, size_t size, int adv, uint64_t* where) {
  StringReader r(buf, n, cur);
  try {
    r.readx(out, size, adv);
    *where = r.where();
    return 0;
  } catch (const std::out_of_range&) {
    *where = r.where();
    return W_OUT_OF_RANGE;
  }
  W_CATCH_ALL
}

// ---- std::string-returning forms ----
WEXPORT int64_t w_pread_s(const uint8_t* buf, size_t n, size_t off, size_t size, uint8_t* out, size_t cap) {
  try {
    StringReader r(buf, n);
    return w_copy_out(r.pread(off, size), out, cap);
  }
  W_CATCH_ALL
}
WEXPORT int64_t w_preadx_s(const uint8_t* buf, size_t n, size_t off, size_t size, uint8_t* out, size_t cap) {
  try {
    StringReader r(buf, n);
    return w_copy_out(r.preadx(off, size), out, cap);
  }
  W_CATCH_ALL
}
WEXPORT int64_t w_read_s(const uint8_t* buf, size_t n, size_t cur, size_t size, int adv, uint8_t* out, size_t cap, uint64_t* where) {
  StringReader r(buf, n, cur);
  try {
    int64_t ret = w_copy_out(r.read(size, adv), out, cap);
    *where = r.where();
    return ret;
  } catch (const std::out_of_range&) {
    *where = r.where();
    return W_OUT_OF_RANGE;
  }
  W_CATCH_ALL
}
WEXPORT int64_t w_readx_s(const uint8_t* buf, size_t n, size_t cur, size_t size, int adv, uint8_t* out, size_t cap, uint64_t* where) {
  StringReader r(buf, n, cur);
  try {
    int64_t ret = w_copy_out(r.readx(size, adv), out, cap);
    *where = r.where();
    return ret;
  } catch (const std::out_of_range&) {
    *where = r.where();
    return W_OUT_OF_RANGE;
  }
  W_CATCH_ALL
}
WEXPORT int64_t w_all(const uint8_t* buf, size_t n, size_t cur, uint8_t* out, size_t cap) {
  try {
    StringReader r(buf, n, cur);
    return w_copy_out(r.all(), out, cap);
  }
  W_CATCH_ALL
}

// ---- sub-readers: form 0 sub(off), 1 sub(off,size), 2 subx(off), 3 subx(off,size); bits=1 -> the *_bits variants ----
WEXPORT int64_t w_sub(const uint8_t* buf, size_t n, int form, int bits, size_t off, size_t size, int64_t* delta, uint64_t* sub_size, uint64_t* sub_where) {
  try {
    StringReader r(buf, n);
    if (bits) {
      BitReader b = (form == 0) ? r.sub_bits(off) : (form == 1) ? r.sub_bits(off, size) : (form == 2) ? r.subx_bits(off) : r.subx_bits(off, size);
      *delta = delta_of(b.data, buf);
      *sub_size = b.size();
      *sub_where = b.where();
    } else {
      StringReader s = (form == 0) ? r.sub(off) : (form == 1) ? r.sub(off, size) : (form == 2) ? r.subx(off) : r.subx(off, size);
      *delta = delta_of(s.data, buf);
      *sub_size = s.size();
      *sub_where = s.where();
    }
    return 0;
  }
  W_CATCH_ALL
}

// ---- cursor operations: op 0 skip(a), 1 skip_if(pat,a), 2 truncate(a), 3 go(a) ----
WEXPORT int64_t w_cursor_op(const uint8_t* buf, size_t n, size_t cur, int op, size_t a, const uint8_t* pat, uint64_t* where, uint64_t* size_after, uint64_t* remaining, uint8_t* eof) {
  StringReader r(buf, n, cur);
  int64_t ret = 0;
  try {
    switch (op) {
      case 0: r.skip(a); break;
      case 1: ret = r.skip_if(pat, a) ? 1 : 0; break;
      case 2: r.truncate(a); break;
      case 3: r.go(a); break;
      default: return W_CAPACITY;
    }
  } catch (const std::out_of_range&) {
    ret = W_OUT_OF_RANGE;
  } catch (const std::invalid_argument&) {
    ret = W_INVALID_ARGUMENT;
  } catch (...) {
    ret = W_UNKNOWN_EXCEPTION;
  }
  *where = r.where();
  *size_after = r.size();
  *remaining = r.remaining();
  *eof = r.eof();
  return ret;
}

// ---- line / C-string readers ----
WEXPORT int64_t w_get_line(const uint8_t* buf, size_t n, size_t cur, int adv, uint8_t* out, size_t cap, uint64_t* where) {
  StringReader r(buf, n, cur);
  try {
    int64_t ret = w_copy_out(r.get_line(adv), out, cap);
    *where = r.where();
    return ret;
  } catch (const std::out_of_range&) {
    *where = r.where();
    return W_OUT_OF_RANGE;
  }
  W_CATCH_ALL
}
WEXPORT int64_t w_get_cstr(const uint8_t* buf, size_t n, size_t cur, int adv, uint8_t* out, size_t cap, uint64_t* where) {
  StringReader r(buf, n, cur);
  try {
    int64_t ret = w_copy_out(r.get_cstr(adv), out, cap);
    *where = r.where();
    return ret;
  } catch (const std::out_of_range&) {
    *where = r.where();
    return W_OUT_OF_RANGE;
  }
  W_CATCH_ALL
}
WEXPORT int64_t w_pget_cstr(const uint8_t* buf, size_t n, size_t off, uint8_t* out, size_t cap) {
  try {
    StringReader r(buf, n);
    return w_copy_out(r.pget_cstr(off), out, cap);
  }
  W_CATCH_ALL
}

// ---- BufferWriter over a caller buffer ----
WEXPORT int64_t w_bw_pwrite(uint8_t* buf, size_t cap, size_t off, const uint8_t* src, size_t size) {
  try {
    BufferWriter w(buf, cap);
    w.pwrite(off, src, size);
    return 0;
  }
  W_CATCH_ALL
}
// two sequential write() calls (cursor history); returns the number of calls that succeeded, *code = exception code of the failing one
WEXPORT int64_t w_bw_write2(uint8_t* buf, size_t cap, const uint8_t* s1, size_t n1, const uint8_t* s2, size_t n2, int64_t* code) {
  BufferWriter w(buf, cap);
  int64_t done = 0;
  *code = 0;
  try {
    w.write(s1, n1);
    done = 1;
    w.write(s2, n2);
    done = 2;
  } catch (const std::runtime_error&) {
    *code = W_RUNTIME_ERROR;
  } catch (...) {
    *code = W_UNKNOWN_EXCEPTION;
  }
  return done;
}
// typed puts: which 0 put_u8, 1 put_u16b, 2 put_u32l, 3 put_u64b after `pre` put_u8 calls (cursor = pre)
WEXPORT int64_t w_bw_put(uint8_t* buf, size_t cap, int pre, int which, uint64_t v) {
  try {
    BufferWriter w(buf, cap);
    for (int i = 0; i < pre; i++) w.put_u8(0xEE);
    switch (which) {
      case 0: w.put_u8(v); break;
      case 1: w.put_u16b(v); break;
      case 2: w.put_u32l(v); break;
      case 3: w.put_u64b(v); break;
      default: return W_CAPACITY;
    }
    return 0;
  }
  W_CATCH_ALL
}
WEXPORT int64_t w_bw_pput(uint8_t* buf, size_t cap, size_t off, int which, uint64_t v) {
  try {
    BufferWriter w(buf, cap);
    switch (which) {
      case 0: w.pput_u8(off, v); break;
      case 1: w.pput_u16b(off, v); break;
      case 2: w.pput_u32l(off, v); break;
      case 3: w.pput_u64b(off, v); break;
      default: return W_CAPACITY;
    }
    return 0;
  }
  W_CATCH_ALL
}

// ---- StringWriter: prior contents init[0..n), then ONE positional put; result copied out ----
WEXPORT int64_t w_sw_pput(const uint8_t* init, size_t n, size_t off, int which, uint64_t v, uint8_t* out, size_t cap) {
  try {
    StringWriter w;
    w.write(init, n);
    switch (which) {
      case 0: w.pput_u8(off, v); break;
      case 1: w.pput_u16b(off, v); break;
      case 2: w.pput_u32l(off, v); break;
      case 3: w.pput_u64b(off, v); break;
      default: return W_CAPACITY;
    }
    return w_copy_out(w.str(), out, cap);
  }
  W_CATCH_ALL
}
// append forms: write(block) after prior contents
WEXPORT int64_t w_sw_write(const uint8_t* init, size_t n, const uint8_t* blk, size_t bn, uint8_t* out, size_t cap) {
  try {
    StringWriter w;
    w.write(init, n);
    w.write(blk, bn);
    return w_copy_out(w.str(), out, cap);
  }
  W_CATCH_ALL
}
