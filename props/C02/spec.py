ID = 'C02'
UNITS = {'sr': dict(wrap='wrap.cc', new_block=64)}
BOUNDS = ('reader/writer buffer length symbolic in 0..LEN with LEN=4 (quick) and LEN in {1,4,8} (thorough); buffer contents symbolic; '
          'every offset and size argument is an unconstrained 64-bit value (two cells per accessor: offset+size fits in 64 bits / overflows); '
          'cursor pre-state any value in [0,n] (one inductive step of the invariant cursor<=n per operation, which covers histories of any length); '
          'StringWriter::pput offsets 0..LEN+4 or >= 2^63')
STUBS = ['operator new hands out fixed 64-byte blocks (std::string storage); allocation never fails']
OUTSIDE = ['StringWriter::pput offsets in (LEN+4, 2^63): the string would have to grow beyond the modelled heap block',
           'pget<T>(offset, size) / get<T>(advance, size) with a caller-supplied size smaller than sizeof(T) (the caller overrides the check)',
           'BitReader reads (BitReader::pread has no bounds check by design and is not anchored by C02); only the extent of sub_bits/subx_bits readers is checked',
           'skip(a) where cursor+a overflows 64 bits moves the cursor backwards without throwing; the cursor stays inside the data, so this is not a C02 violation (recorded in NOTES.md)',
           'truncate(a) below the cursor leaves cursor > size: treated like go() (explicit repositioning by the caller)',
           'host big-endian builds']
ASSUMPTIONS = ['x86-64 little-endian host configuration of Platform.hh']


def Q(name, harness, defs, unwind=12, timeout=180, desc='', bounds='', **kw):
    d = dict(name=name, unit='sr', harness=harness, defs=defs, unwind=unwind, timeout=timeout, mem_gb=3, desc=desc, bounds=bounds, tv_runs=40)
    d.update(kw)
    return d


GET_NAMES = ['u8', 'u16l', 'u16b', 'u32l', 'u32b', 'u64l', 'u64b', 'u24l', 'u24b', 'u48l', 'u48b', 's24b', 's48l', 'f32b', 'f64l']
PUT_NAMES = ['u8', 'u16b', 'u32l', 'u64b']


def queries(tier):
    qs = []
    quick = tier == 'quick'
    lens = [4] if quick else [1, 4, 8]
    for L in lens:
        sfx = '' if L == 4 else '_L%d' % L
        bnd = 'reader length 0..%d (symbolic), offset/size full 64-bit, ' % L

        def cells(base, harness, defs, unwind, desc, wraps=(0, 1)):
            for wrap in wraps:
                d = dict(defs); d.update(LEN=L, WRAP=wrap)
                # translation validation only in the no-overflow cell: on the unpatched tree the overflow cell makes the real
                # code perform wild reads/writes natively (UB), which cannot be compared run-by-run
                qs.append(Q('%s_%s%s' % (base, 'wrap' if wrap else 'nowrap', sfx), harness, d, unwind=unwind, tv=not wrap, desc=desc + (' [offset+size overflows 2^64]' if wrap else ' [offset+size < 2^64]'),
                            bounds=bnd + ('sum overflows' if wrap else 'sum does not overflow')))
        for op, nm in ((0, 'pgetv'), (1, 'getv'), (2, 'peek')):
            cells(nm, 'h_ptr.c', {'OP': op}, L + 2, '%s: served => slice inside buffer and pointer == data+off; else out_of_range; cursor <= n' % nm)
        gets = range(len(GET_NAMES)) if not quick else [0, 2, 3, 6, 7, 8, 9, 10, 11, 12, 13]
        for w in gets:
            if L != 4 and w not in (3, 8, 10):
                continue
            cells('pget_' + GET_NAMES[w], 'h_get.c', {'WHICH': w, 'POS': 0}, L + 10, 'pget_%s(off): served => inside buffer and value == endian composition; else out_of_range' % GET_NAMES[w])
            cells('get_' + GET_NAMES[w], 'h_get.c', {'WHICH': w, 'POS': 1}, L + 10, 'get_%s(advance) from any cursor<=n: same + cursor advance exact, cursor <= n' % GET_NAMES[w], wraps=(0,))
        for op, nm in ((0, 'pread_v'), (1, 'preadx_v'), (2, 'read_v'), (3, 'readx_v')):
            cells(nm, 'h_copy.c', {'OP': op}, L + 4, '%s into caller buffer: exact prefix / exact slice / out_of_range; destination frame; cursor <= n' % nm)
        for op, nm in ((0, 'pread_s'), (1, 'preadx_s'), (2, 'read_s'), (3, 'readx_s')):
            cells(nm, 'h_str.c', {'OP': op}, L + 4, '%s returning std::string: exact prefix / exact slice / out_of_range; cursor <= n' % nm)
        cells('all', 'h_str.c', {'OP': 4}, L + 4, 'all(): exactly the n bytes', wraps=(0,))
        for bits in (0, 1):
            for form, nm in ((0, 'sub1'), (1, 'sub2'), (2, 'subx1'), (3, 'subx2')):
                cells(nm + ('_bits' if bits else ''), 'h_sub.c', {'FORM': form, 'BITS': bits}, L + 2, 'sub-reader extent inside parent, prefix/exact semantics',
                      wraps=(0, 1) if form in (1, 3) else (0,))
        for op, nm in ((0, 'skip'), (1, 'skip_if'), (2, 'truncate'), (3, 'go')):
            cells('cursor_' + nm, 'h_cursor.c', {'OP': op}, L + 3, 'inductive step of cursor<=size for %s(a), a unconstrained' % nm, wraps=(0,))
        for op, nm in ((0, 'get_line'), (1, 'get_cstr')):
            cells(nm, 'h_line.c', {'OP': op}, L + 4, '%s from any cursor<=n: bytes up to delimiter, no over-read, cursor just after delimiter and <= n' % nm, wraps=(0,))
        cells('pget_cstr', 'h_line.c', {'OP': 2}, L + 4, 'pget_cstr(off), off unconstrained: bytes up to NUL or out_of_range, no over-read')
        cells('bw_pwrite', 'h_bw.c', {'OP': 0}, L + 10, 'BufferWriter::pwrite(off,src,size): inside buffer or runtime_error; frame')
        cells('bw_write2', 'h_bw.c', {'OP': 1}, L + 10, 'BufferWriter: two write() calls with unconstrained sizes: each inside buffer or runtime_error; frame')
        for w in range(4):
            if L != 4 and w != 2:
                continue
            cells('bw_put_' + PUT_NAMES[w], 'h_bw.c', {'OP': 2, 'WHICH': w}, L + 10, 'BufferWriter::put_%s at cursor 0..%d: inside buffer or runtime_error; frame' % (PUT_NAMES[w], L), wraps=(0,))
            cells('bw_pput_' + PUT_NAMES[w], 'h_bw.c', {'OP': 3, 'WHICH': w}, L + 10, 'BufferWriter::pput_%s(off), off unconstrained: inside buffer or runtime_error; frame' % PUT_NAMES[w])
        for w in range(4):
            for nfix in ([0, 3] if quick else range(0, L + 1)):
                for offs in (0, 1):
                    qs.append(Q('sw_pput_%s_n%d_%s%s' % (PUT_NAMES[w], nfix, 'huge' if offs else 'small', sfx), 'h_sw.c', {'WHICH': w, 'OFFS': offs, 'LEN': L, 'NFIX': nfix}, unwind=L + 16, tv=not offs,
                                desc='StringWriter::pput_%s(off) on a %d-byte string: grows to cover the write with a zero-filled gap, or throws' % (PUT_NAMES[w], nfix),
                                bounds='prior size %d (symbolic contents), offset %s' % (nfix, '>= 2^63 (incl. offsets whose end overflows)' if offs else '0..%d' % (L + 4))))
    return qs
