/* C02: delimiter-scanning readers. OP: 0 get_line(adv) 1 get_cstr(adv) 2 pget_cstr(off) (off UNCONSTRAINED).
 * Pre-state: n in [0,LEN], cursor in [0,n], all bytes symbolic. The result is exactly the bytes up to the delimiter
 * (for get_line: up to '\n' or the end of the data, one trailing '\r' stripped), read only from inside the buffer, and
 * the cursor ends just after the delimiter - never beyond the end of the data. */
#include "c02.h"
void harness(void) {
  READER_SETUP();
  uint8_t out[LEN + 2];
  for (int i = 0; i < LEN + 2; i++) out[i] = 0;
  uint64_t where = 0;
#if OP == 2
  uint64_t off = in_u64(), cur = 0; uint32_t adv = 0;
  CELL(off, (uint64_t)(LEN + 1)); /* the scan forms off+k+1 for k <= LEN: cell WRAP=1 is where that overflows */
  int64_t rc = w_pget_cstr(buf, n, off, out, LEN + 2);
#else
  uint64_t cur = in_range(0, n), off = cur; uint32_t adv = in_bool();
#if OP == 0
  int64_t rc = w_get_line(buf, n, cur, adv, out, LEN + 2, &where);
#else
  int64_t rc = w_get_cstr(buf, n, cur, adv, out, LEN + 2, &where);
#endif
#endif
  OBS(rc); OBS(where);
  /* reference scan */
  const uint8_t delim = (OP == 0) ? '\n' : 0;
  uint64_t k = 0; int found = 0;
  if (off <= n) {
    for (uint64_t i = 0; i < LEN; i++) {
      if (!found && off + k < n) { if (buf[off + k] == delim) found = 1; else k++; }
    }
  }
  ASSERT(rc >= 0 || rc == W_OUT_OF_RANGE, "returns or throws out_of_range, nothing else");
#if OP == 0
  if (off >= n) {
    ASSERT(rc == W_OUT_OF_RANGE, "get_line at the end of the data throws out_of_range");
    ASSERT(where == cur, "a rejected read leaves the cursor alone");
  } else {
    uint64_t len = k;
    if (len > 0 && buf[off + len - 1] == '\r') len--;
    ASSERT(rc == (int64_t)len, "line length: bytes up to newline/end, one trailing CR stripped");
    if (rc == (int64_t)len) for (uint64_t i = 0; i < len; i++) ASSERT(out[i] == buf[off + i], "line bytes equal the model slice");
    ASSERT(where == (adv ? (found ? cur + k + 1 : n) : cur), "cursor ends just after the newline, or at the end of the data when the last line has none");
  }
#else
  if (!found) {
    ASSERT(rc == W_OUT_OF_RANGE, "an unterminated C string runs into the end of the data: out_of_range, no over-read");
    ASSERT(where == cur, "a rejected read leaves the cursor alone");
  } else {
    ASSERT(rc == (int64_t)k, "C string length: bytes up to the NUL");
    if (rc == (int64_t)k) for (uint64_t i = 0; i < k; i++) ASSERT(out[i] == buf[off + i], "string bytes equal the model slice");
    ASSERT(where == (adv ? cur + k + 1 : cur), "cursor ends just after the NUL");
  }
#endif
  ASSERT(where <= n, "the cursor is never left beyond the end of the data");
}
