/* C02: sub-readers. FORM: 0 sub(off) 1 sub(off,size) 2 subx(off) 3 subx(off,size); BITS: 0 StringReader, 1 BitReader
 * (sub_bits / subx_bits; sizes in bits). offset/size UNCONSTRAINED. The sub-reader never extends beyond its parent:
 * 0 <= data-parent.data, data-parent.data + size <= n; clamping forms give the in-range prefix, throwing forms the
 * exact slice or out_of_range. */
#include "c02.h"
void harness(void) {
  READER_SETUP();
  uint64_t off = in_u64();
#if FORM == 1 || FORM == 3
  uint64_t size = in_u64();
  CELL(off, size);
#else
  uint64_t size = 0; /* single-argument forms have no sum: only the WRAP=0 cell exists */
#endif
  uint64_t delta = 0, ssize = 0, swhere = 0;
  int64_t rc = w_sub(buf, n, FORM, BITS, off, size, &delta, &ssize, &swhere);
  OBS(rc);
  const uint64_t unit = BITS ? 8 : 1;
#if FORM >= 2
  ASSERT(rc == 0 || rc == W_OUT_OF_RANGE, "returns or throws out_of_range, nothing else");
#else
  ASSERT(rc == 0, "clamping forms never throw");
#endif
  if (rc == 0) {
    OBS(delta); OBS(ssize); OBS(swhere);
    uint64_t bytes = ssize / unit;
    ASSERT(ssize % unit == 0, "bit sub-reader covers whole bytes");
    ASSERT(swhere == 0, "sub-reader starts at its own offset 0");
    if (ssize != 0) {
      ASSERT((int64_t)delta != NULLPTR_DELTA && delta <= n && bytes <= n - delta, "sub-reader lies inside its parent");
      ASSERT(delta == off, "sub-reader starts at the requested offset");
    }
#if FORM == 0
    ASSERT(bytes == (off <= n ? n - off : 0), "sub(off) covers exactly the rest of the parent (empty when off is beyond the end)");
#elif FORM == 2
    ASSERT(off <= n && bytes == n - off, "subx(off) covers exactly the rest of the parent");
#elif FORM == 1
    ASSERT(bytes == ((off >= n) ? 0 : (size <= n - off ? size : n - off)), "sub(off,size) is the in-range prefix of the request");
#else
    ASSERT(INSIDE(off, size, n) && bytes == size, "subx(off,size) is exactly the requested slice");
#endif
  } else {
#if FORM == 2
    ASSERT(off > n, "an in-range sub-reader request is served");
#else
    ASSERT(!INSIDE(off, size, n), "an in-range sub-reader request is served");
#endif
  }
}
