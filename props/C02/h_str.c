/* C02: std::string-returning forms. OP: 0 pread(off,size) 1 preadx(off,size) 2 read(size,adv) 3 readx(size,adv) 4 all().
 * Same contract as h_copy.c; the returned string is copied out by the wrapper (capacity LEN+2, W_CAPACITY if longer). */
#include "c02.h"
void harness(void) {
  READER_SETUP();
  uint8_t out[LEN + 2];
  for (int i = 0; i < LEN + 2; i++) out[i] = 0;
  uint64_t size = in_u64();
  uint64_t where = 0;
#if OP < 2
  uint64_t off = in_u64(), cur = 0; uint32_t adv = 0;
#else
  uint64_t cur = in_range(0, n), off = cur; uint32_t adv = in_bool();
#endif
#if OP == 4
  off = 0; size = n;
#endif
  CELL(off, size);
#if OP == 0
  int64_t rc = w_pread_s(buf, n, off, size, out, LEN + 2);
#elif OP == 1
  int64_t rc = w_preadx_s(buf, n, off, size, out, LEN + 2);
#elif OP == 2
  int64_t rc = w_read_s(buf, n, cur, size, adv, out, LEN + 2, &where);
#elif OP == 3
  int64_t rc = w_readx_s(buf, n, cur, size, adv, out, LEN + 2, &where);
#else
  int64_t rc = w_all(buf, n, cur, out, LEN + 2);
#endif
  OBS(rc); OBS(where);
  uint64_t copied = 0;
#if OP == 0 || OP == 2 || OP == 4
  uint64_t expect = (off >= n) ? 0 : (size <= n - off ? size : n - off);
  ASSERT(rc >= 0, "clamping forms never throw");
  ASSERT(rc == (int64_t)expect, "clamping read returns exactly the in-range prefix");
  copied = rc >= 0 ? (uint64_t)rc : 0;
#else
  ASSERT(rc >= 0 || rc == W_OUT_OF_RANGE, "returns or throws out_of_range, nothing else");
  if (rc >= 0) {
    ASSERT(INSIDE(off, size, n), "a served exact read lies entirely inside the buffer");
    ASSERT((uint64_t)rc == size, "exact read returns exactly size bytes");
    copied = (uint64_t)rc;
  } else {
    ASSERT(!INSIDE(off, size, n), "an in-range read is served, not rejected");
  }
#endif
  if (copied <= n && off <= n && copied <= n - off) {
    for (uint64_t i = 0; i < copied; i++) ASSERT(out[i] == buf[off + i], "returned bytes equal the model slice");
  }
#if OP == 2 || OP == 3
  ASSERT(where == (adv ? cur + copied : cur), "cursor advances by exactly the number of bytes delivered");
  ASSERT(where <= n, "the cursor is never left beyond the end of the data");
#endif
}
