// C15 wrappers: parent-side loop of Subprocess::communicate (Process.cc) against the OS model in the harness.
// The Subprocess object is assembled from the default constructor plus its (protected) fields: the pipe()/fork() constructor
// uses std::set (out-of-line libstdc++ tree code, no model) and its child branch cannot be encoded anyway.
#include "wrap.hh"
#include <algorithm>
#include <deque>
#include <functional>
#include <memory>
#include <set>
#include <string>
#include <unordered_map>
#include <unordered_set>
#include <utility>
#include <vector>
#include <poll.h>
#include <stdio.h>
#define private public
#define protected public
#include "Filesystem.hh"
#include "Process.hh"
#undef private
#undef protected
#include "Filesystem.cc"
#include "Process.cc"
#include "Strings.cc"
#include "Time.cc"
using namespace phosg;

#define W_TIMED_OUT (-30)
// out_status: the wait status cached in the object after communicate (or -1)
WEXPORT int64_t w_communicate(int stdin_fd, int stdout_fd, int pid, const uint8_t* in, size_t in_n, uint64_t timeout_usecs,
    uint8_t* out, size_t cap, int64_t* out_status) {
  *out_status = -1;
  try {
    Subprocess sp;
    sp.stdin_write_fd = stdin_fd;
    sp.stdout_read_fd = stdout_fd;
    sp.child_pid = pid;
    sp.terminated = false;
    std::string r = sp.communicate(in, in_n, timeout_usecs);
    *out_status = sp.exit_status;
    return w_copy_out(r, out, cap);
  }
  W_CATCH_ALL
}
