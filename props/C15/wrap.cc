// C15 wrappers: parent-side loop of Subprocess::communicate (Process.cc) against the OS model in the harness.
// The Subprocess object is assembled from the default constructor plus its (protected) fields: the pipe()/fork() constructor
// uses std::set (out-of-line libstdc++ tree code, no model) and its child branch cannot be encoded anyway.
#include "wrap.hh"
#ifndef VERIF_NATIVE_REAL
// solver build only: std::set (used by the Subprocess constructor for three descriptors) is libstdc++'s out-of-line red-black
// tree, for which there is no model; shim_set.hh is a fixed-capacity sorted array with the same interface subset. The real
// build (translation validation, replays) uses libstdc++'s std::set.
#define _GLIBCXX_SET 1
#include "shim_set.hh"
#endif
#include <algorithm>
#include <deque>
#include <functional>
#include <memory>
#include <set>
#include <string>
#include <unordered_map>
#include <unordered_set>
#include <utility>
#include <vector>
#include <poll.h>
#include <stdio.h>
#define private public
#define protected public
#include "Filesystem.hh"
#include "Process.hh"
#undef private
#undef protected
#include "Filesystem.cc"
#include "Process.cc"
#include "Strings.cc"
#include "Time.cc"
using namespace phosg;

// st[0]: the wait status cached in the object after communicate (or -1); st[1], st[2]: stdin_write_fd / stdout_read_fd members
// afterwards. The Subprocess is destroyed before the wrapper returns (its destructor reaps a child that is still running).
WEXPORT int64_t w_communicate(int stdin_fd, int stdout_fd, int pid, const uint8_t* in, size_t in_n, uint64_t timeout_usecs,
    uint8_t* out, size_t cap, int64_t* st) {
  int64_t r;
  {
    Subprocess sp;
    sp.stdin_write_fd = stdin_fd;
    sp.stdout_read_fd = stdout_fd;
    sp.child_pid = pid;
    sp.terminated = false;
    try {
      std::string s = sp.communicate(in, in_n, timeout_usecs);
      r = w_copy_out(s, out, cap);
    } catch (const std::runtime_error&) {
      r = W_RUNTIME_ERROR;
    } catch (const std::exception&) {
      r = W_STD_EXCEPTION;
    } catch (...) {
      r = W_UNKNOWN_EXCEPTION;
    }
    st[0] = sp.exit_status;
    st[1] = sp.stdin_write_fd;
    st[2] = sp.stdout_read_fd;
  }
  return r;
}

// run_process with a one-word command line. st[0] = exit_status of the result, st[1] / st[2] = sizes of stdout / stderr contents.
WEXPORT int64_t w_run_process(const uint8_t* in, size_t in_n, int has_stdin, int check, uint64_t timeout_usecs,
    uint8_t* out, size_t out_cap, uint8_t* err, size_t err_cap, int64_t* st) {
  try {
    std::vector<std::string> cmd;
    cmd.emplace_back("c");
    std::string input(reinterpret_cast<const char*>(in), in_n);
    SubprocessResult r = run_process(cmd, has_stdin ? &input : nullptr, check != 0, nullptr, nullptr, timeout_usecs);
    st[0] = r.exit_status;
    st[1] = static_cast<int64_t>(r.stdout_contents.size());
    st[2] = static_cast<int64_t>(r.stderr_contents.size());
    if (w_copy_out(r.stdout_contents, out, out_cap) < 0 || w_copy_out(r.stderr_contents, err, err_cap) < 0) return W_CAPACITY;
    return 0;
  }
  W_CATCH_ALL
}
