/* C15: run_process (Subprocess constructor in the parent, the non-blocking poll loop, the drain after exit, `check`) against
 * an OS model written here: pipe()/fork()/fcntl()/waitpid()/poll()/read()/write()/kill()/close()/gettimeofday().
 *
 * Cell (concrete, one query each): EVS = the child's script, SCHED = when its events happen, HAS_IN / IN_N = stdin payload
 * (none / that many bytes), CAP = stdin pipe capacity, CHECK = the `check` argument, STATUS0 = whether the child's wait
 * status is 0 or symbolic non-zero, MVR/MVE/MVW/MVC = how many bytes a read of stdout / read of stderr / write to stdin / child
 * read moves when it could move more than one. Symbolic inside a cell: all stdout, stderr and payload bytes, the wait status
 * (any non-zero exit code / terminating signal / core flag when STATUS0 == 0), all clock values.
 *
 * pipe() number k hands out the descriptors (3+2k, 4+2k): stdin pipe (3 = child's read end, 4 = parent's write end), stdout
 * pipe (5 = parent's read end, 6 = child's write end), stderr pipe (7, 8). fork() returns the child's pid (parent side; the
 * child branch of the constructor is never executed). The child holds its own copies of 3, 6, 8.
 * Child script EVS, executed in order: 1..9 write that many bytes to stdout, A..C write 1..3 bytes to stderr, c close stdout,
 * d close stderr, r read 1..all bytes waiting in stdin (blocks while empty and the write end is open), e read stdin to EOF
 * (blocks until the parent closed the write end; consumes everything meanwhile), k close stdin, x exit (closes everything;
 * always last). SCHED: one base-36 digit per event = number of the parent's OS calls (waitpid, poll, read, write) between
 * the previous event (or the start) and this one; an event whose time has come but which blocks delays itself and all later
 * events. Nothing in run_process blocks (poll has a 1 s timeout), so the child is never "forced": the schedule alone decides.
 * Pipes: bytes written before exit/close stay readable; read() returns 1..min(requested, available), 0 at EOF, -1/EAGAIN on an
 * empty pipe with a live writer (the descriptor must have been made non-blocking, otherwise assertion); write() moves
 * 1..min(n, room), -1/EAGAIN when full, -1/EPIPE once the child closed its end. poll() reports POLLIN / POLLHUP / POLLOUT /
 * POLLERR exactly for that state, 0 after its timeout. waitpid(WNOHANG): 0 until the exit, then the pid, once.
 *
 * Oracle: run_process returns (no exception) unless CHECK and the status is non-zero, in which case it throws runtime_error;
 * the result holds exactly the bytes the child wrote to stdout and to stderr (in order) and the child's wait status; the
 * child receives a prefix of the payload, all of it if it reads to EOF; the child is reaped exactly once; never more than TMAX
 * OS calls; every descriptor handed out by pipe() is closed exactly once when run_process has returned or thrown; no
 * descriptor is used after it was closed, nothing but pipe descriptors is closed. */
#include "harness.h"
#include "env_msg.h"
#ifndef VERIF_NATIVE_REAL
void X__ZN5phosg8io_errorC1Ei(uint8_t* self, uint32_t fd) { (void)self; (void)fd; }
void X__ZN5phosg16string_for_errorB5cxx11Ei(uint8_t* sret, uint32_t err) { (void)err; *(uint8_t**)sret = sret + 16; *(uint64_t*)(sret + 8) = 0; sret[16] = 0; }
#endif
int64_t w_run_process(uint8_t* in, uint64_t in_n, uint32_t has_stdin, uint32_t check, uint64_t timeout_usecs,
    uint8_t* out, uint64_t out_cap, uint8_t* err, uint64_t err_cap, int64_t* st);

#ifdef VERIF_NATIVE_REAL
int* __errno_location(void);
#define SET_ERRNO(v) (*__errno_location() = (v))
#else
uint8_t* X___errno_location(void);
#define SET_ERRNO(v) (*(int32_t*)X___errno_location() = (v))
#endif
#define PID 1234
#define POLLIN_ 1
#define POLLOUT_ 4
#define POLLERR_ 8
#define POLLHUP_ 16
#define WNOHANG_ 1
#define FD_IN_R 3  /* child */
#define FD_IN_W 4  /* parent */
#define FD_OUT_R 5 /* parent */
#define FD_OUT_W 6 /* child */
#define FD_ERR_R 7 /* parent */
#define FD_ERR_W 8 /* child */
#ifndef IN_N
#define IN_N 0
#endif
#ifndef HAS_IN
#define HAS_IN (IN_N > 0)
#endif
#ifndef CHECK
#define CHECK 0
#endif
#ifndef STATUS0
#define STATUS0 1
#endif
#ifndef EVS
#define EVS "1x"
#endif
#ifndef SCHED
#define SCHED "00"
#endif
#ifndef CAP
#define CAP (IN_N ? IN_N : 1)
#endif
#ifndef TMAX
#define TMAX 24
#endif
#define WMAX 3
#define NEV ((int)sizeof(EVS) - 1)
#define MAXEV 5
static const char evs[] = EVS;
static const char sched[] = SCHED;
#ifndef MVR
#define MVR ""
#define LIMR ""
#endif
#ifndef MVE
#define MVE ""
#define LIME ""
#endif
#ifndef MVW
#define MVW ""
#define LIMW ""
#endif
#ifndef MVC
#define MVC ""
#define LIMC ""
#endif
static const char mv_plan[4][8] = {MVR, MVE, MVW, MVC}, mv_lim[4][8] = {LIMR, LIME, LIMW, LIMC};
static int mv_used[4], mv_bad;
static uint8_t mv_limseen[4][4];
#ifdef SCHED_FROM_INPUT
static uint8_t mv_in[4][4];
#endif

static uint8_t data[2][WMAX + 1], payload[IN_N + 1], got_in[IN_N + 1];
static uint64_t cum[2][MAXEV + 1], Wt[2];
static int delay[MAXEV + 1], fired_at[MAXEV + 1];
static int next_ev;
static uint64_t written[2], consumed[2]; /* [0] stdout, [1] stderr */
static uint64_t delivered, child_read;
static int wr_open[2], in_reader_open, exited, reaped, reap_count, write_failed, forked;
static uint32_t status;
static int t, pipes_made;
static uint8_t opened[10], closed[10], nonblock[10];
static uint64_t clk[4];
static int clock_reads;

static int tick(void) {
  ASSERT(t < TMAX, "BOUND: number of OS calls (no livelock inside the bound)");
  ASSUME(t < TMAX);
  if (HAS_IN && !closed[FD_IN_W] && ((IN_N > 0 && delivered == IN_N) || write_failed)) ASSERT(0, "the stdin write end is closed as soon as the payload is delivered or the write failed");
  return t++;
}
static uint64_t moved(int kind, uint64_t lim) {
  if (lim < 2) return 1;
  int k = mv_used[kind]++;
  if (k < 4) mv_limseen[kind][k] = (uint8_t)lim;
#ifdef SCHED_FROM_INPUT
  uint64_t d = k < 4 ? mv_in[kind][k] : 1;
  if (d < 1) d = 1;
  if (d > lim) d = lim;
  return d;
#else
  if (k >= (int)sizeof(mv_plan[kind]) - 1 || mv_plan[kind][k] == 0) { mv_bad = 1; return 1; }
  uint64_t d = (uint64_t)(mv_plan[kind][k] - '0');
  if (d < 1 || d > lim || (uint64_t)(mv_lim[kind][k] - '0') != lim) { mv_bad = 1; return 1; }
  return d;
#endif
}
static int child_try(int j) {
  if (exited || next_ev >= NEV) return 0;
  char k = evs[next_ev];
  if (k >= '1' && k <= '9') { written[0] = cum[0][next_ev]; }
  else if (k >= 'A' && k <= 'C') { written[1] = cum[1][next_ev]; }
  else if (k == 'c') { wr_open[0] = 0; }
  else if (k == 'd') { wr_open[1] = 0; }
  else if (k == 'k') { in_reader_open = 0; }
  else if (k == 'r') {
    if (delivered > child_read) child_read += moved(3, delivered - child_read);
    else if (!closed[FD_IN_W]) return 0;
  }
  else if (k == 'e') { child_read = delivered; if (!closed[FD_IN_W]) return 0; }
  else { exited = 1; wr_open[0] = wr_open[1] = 0; in_reader_open = 0; }
  fired_at[next_ev] = j;
  next_ev++;
  return 1;
}
static void child_run(int j) {
  for (int i = 0; i < MAXEV; i++)
    if (i < NEV && i == next_ev && j >= (i ? fired_at[i - 1] : 0) + delay[i]) child_try(j);
}

static int fd_ok(uint32_t fd) { return fd >= 3 && fd <= 8 && opened[fd] && !closed[fd]; }

uint32_t STUB(pipe)(uint8_t* fds) {
  ASSERT(pipes_made < 3 && !forked, "three pipes are made, before fork");
  ASSUME(pipes_made < 3);
  uint32_t r = 3 + 2 * (uint32_t)pipes_made, w = r + 1;
  pipes_made++;
  opened[r] = opened[w] = 1;
  ((uint32_t*)fds)[0] = r; ((uint32_t*)fds)[1] = w;
  return 0;
}
uint32_t STUB(fork)(void) {
  ASSERT(!forked && pipes_made == 3, "one fork, after the three pipes");
  forked = 1;
  return PID;
}
uint32_t STUB(fcntl)(uint32_t fd, uint32_t cmd, uint64_t arg) {
  ASSERT(fd_ok(fd), "fcntl on an open pipe descriptor");
  if (cmd == 3) return fd == FD_IN_W ? 1u : 0u;  /* F_GETFL: O_WRONLY / O_RDONLY */
  if (cmd == 4) { nonblock[fd] = (arg & 04000) != 0; return 0; } /* F_SETFL, O_NONBLOCK */
  ASSERT(0, "fcntl command other than F_GETFL / F_SETFL");
  return (uint32_t)-1;
}
uint32_t STUB(gettimeofday)(uint8_t* tv, uint8_t* tz) {
  (void)tz;
  int k = clock_reads++;
  ASSERT(k < 4, "BOUND: clock reads");
  ASSUME(k < 4);
  ((uint64_t*)tv)[0] = 1000;
  ((uint64_t*)tv)[1] = clk[k];
  return 0;
}
struct pfd { int32_t fd; int16_t events; int16_t revents; };
static int16_t ready(int32_t fd, int16_t events) {
  int16_t r = 0;
  if (fd == FD_OUT_R || fd == FD_ERR_R) {
    int s = fd == FD_ERR_R;
    if ((events & POLLIN_) && written[s] > consumed[s]) r |= POLLIN_;
    if (!wr_open[s]) r |= POLLHUP_;
  }
  if (fd == FD_IN_W) {
    if ((events & POLLOUT_) && delivered - child_read < CAP) r |= POLLOUT_; /* Linux: also while the reader is gone */
    if (!in_reader_open) r |= POLLERR_;
  }
  return r;
}
uint32_t STUB(poll)(uint8_t* fds_, uint64_t n, uint32_t timeout_ms) {
  struct pfd* fds = (struct pfd*)fds_;
  ASSERT(!reaped, "no poll for a child that has been reaped");
  ASSUME(!reaped);
  ASSERT((int32_t)timeout_ms >= 0, "run_process never blocks for ever in poll");
  int j = tick();
  child_run(j);
  ASSERT(n <= 3, "at most three descriptors are polled");
  int cnt = 0;
  for (int i = 0; i < 3; i++) if ((uint64_t)i < n) {
    ASSERT(fd_ok((uint32_t)fds[i].fd) && (fds[i].fd == FD_IN_W || fds[i].fd == FD_OUT_R || fds[i].fd == FD_ERR_R), "poll only on the parent's open pipe ends");
    fds[i].revents = ready(fds[i].fd, fds[i].events);
    if (fds[i].revents) cnt++;
  }
  return (uint32_t)cnt;
}
uint64_t STUB(read)(uint32_t fd, uint8_t* buf, uint64_t n) {
  int j = tick();
  child_run(j);
  ASSERT(fd_ok(fd) && (fd == FD_OUT_R || fd == FD_ERR_R), "read on an open read end of the parent");
  ASSUME(fd == FD_OUT_R || fd == FD_ERR_R);
  int s = fd == FD_ERR_R;
  uint64_t avail = written[s] - consumed[s];
  if (avail == 0) {
    if (!wr_open[s]) return 0;
    ASSERT(nonblock[fd], "blocking read on an empty pipe whose writer is alive");
    SET_ERRNO(11); /* EAGAIN */
    return (uint64_t)-1;
  }
  ASSERT(n >= 1, "read asks for at least one byte");
  uint64_t k = moved(s, avail < n ? avail : n);
  for (uint64_t i = 0; i < WMAX; i++) if (i < k) buf[i] = data[s][consumed[s] + i];
  consumed[s] += k;
  return k;
}
uint64_t STUB(write)(uint32_t fd, uint8_t* buf, uint64_t n) {
  int j = tick();
  child_run(j);
  ASSERT(fd_ok(fd) && fd == FD_IN_W, "write on the open stdin pipe");
  ASSERT(n == IN_N - delivered, "write passes the undelivered rest of the payload");
  ASSUME(n == IN_N - delivered);
  if (!in_reader_open) { write_failed = 1; SET_ERRNO(32); return (uint64_t)-1; } /* EPIPE */
  uint64_t room = CAP - (delivered - child_read);
  if (room == 0 || n == 0) {
    if (n == 0) return 0;
    ASSERT(nonblock[fd], "blocking write on a full pipe");
    SET_ERRNO(11);
    return (uint64_t)-1;
  }
  uint64_t k = moved(2, room < n ? room : n);
  for (uint64_t i = 0; i < IN_N; i++) if (i < k) got_in[delivered + i] = buf[i];
  delivered += k;
  return k;
}
uint32_t STUB(waitpid)(uint32_t pid, uint8_t* st, uint32_t options) {
  ASSERT(!reaped, "waitpid on a child that was already reaped");
  ASSUME(!reaped);
  int j = tick();
  child_run(j);
  ASSERT(pid == PID && forked, "waitpid on the child");
  if (!exited) {
    ASSERT(options & WNOHANG_, "run_process never blocks in waitpid while the child runs");
    return 0;
  }
  reaped = 1; reap_count++;
  *(uint32_t*)st = status;
  return PID;
}
uint32_t STUB(kill)(uint32_t pid, uint32_t sig) {
  (void)pid; (void)sig;
  ASSERT(0, "without a timeout the child is never signalled");
  return 0;
}
uint32_t STUB(close)(uint32_t fd) {
  ASSERT(fd >= 3 && fd <= 8 && opened[fd], "close on a descriptor that did not come from pipe()");
  ASSUME(fd >= 3 && fd <= 8);
  ASSERT(!closed[fd], "a pipe descriptor is closed twice");
  closed[fd] = 1;
  return 0;
}

static int b36(char c) { return c <= '9' ? c - '0' : c - 'a' + 10; }

void harness(void) {
  uint8_t out[WMAX + 1], err[WMAX + 1];
  int64_t st[3] = {-2, -2, -2};
  in_bytes(data[0], WMAX);
  in_bytes(data[1], WMAX);
  in_bytes(payload, IN_N);
  { /* wait status: 0, or (STATUS0 == 0) any non-zero exit code / death by signal 1..126 with or without core dump */
    uint32_t by_signal = in_bool(), code = (uint32_t)in_range(1, 255), sig = (uint32_t)in_range(1, 126), core = in_bool();
    status = STATUS0 ? 0 : (by_signal ? (sig | (core << 7)) : (code << 8));
  }
  for (int k = 0; k < 4; k++) clk[k] = in_range(0, 999999);
  Wt[0] = Wt[1] = 0;
  for (int i = 0; i < MAXEV; i++) {
    if (i < NEV && evs[i] >= '1' && evs[i] <= '9') Wt[0] += (uint64_t)(evs[i] - '0');
    if (i < NEV && evs[i] >= 'A' && evs[i] <= 'C') Wt[1] += (uint64_t)(evs[i] - 'A' + 1);
    cum[0][i] = Wt[0]; cum[1][i] = Wt[1];
    fired_at[i] = TMAX + 1;
  }
  ASSERT(Wt[0] <= WMAX && Wt[1] <= WMAX && NEV <= MAXEV && NEV >= 1 && evs[NEV - 1] == 'x', "BOUND: script shape");
  for (int i = 0; i < MAXEV; i++) {
    delay[i] = 0;
    if (i < NEV) {
#ifdef SCHED_FROM_INPUT
      delay[i] = (int)in_range(0, TMAX);
#else
      delay[i] = b36(sched[i]);
#endif
    }
  }
#ifdef SCHED_FROM_INPUT
  for (int k = 0; k < 4; k++) for (int i = 0; i < 4; i++) mv_in[k][i] = (uint8_t)in_range(1, 3);
#endif
  wr_open[0] = wr_open[1] = 1; in_reader_open = 1;
  int64_t r = w_run_process(payload, IN_N, HAS_IN, CHECK, 0, out, sizeof(out), err, sizeof(err), st);
  OBS(r); OBS(st[0]); OBS(st[1]); OBS(st[2]); OBS(t);
  for (int k = 0; k < 4; k++) { OBS(mv_used[k]); for (int i = 0; i < 4; i++) OBS(mv_limseen[k][i]); }
  for (int i = 0; i < MAXEV; i++) if (i < NEV) OBS(fired_at[i]);
#ifndef SCHED_FROM_INPUT
  for (int k = 0; k < 4; k++) if (mv_plan[k][mv_used[k] < 7 ? mv_used[k] : 7] != 0) mv_bad = 1;
  ASSERT(!mv_bad, "BOUND: the run has exactly the choice points (and limits) of the MVR/MVE/MVW/MVC plan of this cell");
#endif
  ASSERT(forked && pipes_made == 3, "three pipes and one fork");
  ASSERT(exited && next_ev == NEV, "run_process ends only after the child ran its whole script and exited");
  ASSERT(reap_count == 1 && reaped, "the child has been reaped exactly once");
  ASSERT(closed[FD_IN_R] && closed[FD_OUT_W] && closed[FD_ERR_W], "the parent closed its copies of the child's pipe ends");
  if (!HAS_IN || delivered == IN_N || write_failed) ASSERT(closed[FD_IN_W], "the stdin write end is closed when there is no payload / after delivery / after a failed write");
  ASSERT(child_read <= delivered && delivered <= IN_N, "the child reads what was delivered");
  for (uint64_t i = 0; i < IN_N; i++) if (i < delivered) ASSERT(got_in[i] == payload[i], "the child receives the payload bytes in order");
  for (int i = 0; i < NEV; i++) if (evs[i] == 'e') ASSERT(HAS_IN ? delivered == IN_N : delivered == 0, "a child that reads its stdin to EOF got the whole payload");
#ifndef KF_FDLEAK_EXCL
  ASSERT(closed[FD_IN_W] && closed[FD_OUT_R] && closed[FD_ERR_R], "every pipe descriptor is closed when run_process is done (no descriptor leak)");
#endif
#ifndef KF_FDLEAK_ONLY
  if (CHECK && status != 0) {
    ASSERT(r == -5, "check: a non-zero wait status throws runtime_error");
  } else {
    ASSERT(r == 0, "run_process returns without an exception");
    if (r == 0) {
      ASSERT(st[0] == (int64_t)status, "the result carries the child's wait status");
      ASSERT((uint64_t)st[1] == Wt[0], "stdout_contents has every byte the child wrote to stdout");
      ASSERT((uint64_t)st[2] == Wt[1], "stderr_contents has every byte the child wrote to stderr");
      if ((uint64_t)st[1] == Wt[0]) for (uint64_t i = 0; i < WMAX; i++) if (i < Wt[0]) ASSERT(out[i] == data[0][i], "stdout bytes in order");
      if ((uint64_t)st[2] == Wt[1]) for (uint64_t i = 0; i < WMAX; i++) if (i < Wt[1]) ASSERT(err[i] == data[1][i], "stderr bytes in order");
    }
  }
#endif
}
