// verification shim: fixed-capacity sorted-array model of std::set (subset used by phosg: emplace/insert, count/contains/find,
// erase by key, ascending iteration, size/empty/clear). Capacity overflow is an assertion failure.
#pragma once
#include <cstddef>
#include <utility>
#include <initializer_list>
#ifndef VERIF_SET_CAP
#define VERIF_SET_CAP 4
#endif
extern "C" void verif_assert(int c);
namespace std {
template <typename K, typename C = void, typename A = void>
class set {
  K items_[VERIF_SET_CAP];
  size_t n_ = 0;
public:
  using key_type = K; using value_type = K; using iterator = const K*; using const_iterator = const K*;
  set() = default;
  set(initializer_list<K> il) { for (const K& k : il) insert(k); }
  bool empty() const { return n_ == 0; }
  size_t size() const { return n_; }
  const K* begin() const { return items_; }
  const K* end() const { return items_ + n_; }
  const K* find(const K& k) const { for (size_t i = 0; i < n_; i++) if (!(items_[i] < k) && !(k < items_[i])) return items_ + i; return end(); }
  size_t count(const K& k) const { return find(k) != end() ? 1 : 0; }
  bool contains(const K& k) const { return find(k) != end(); }
  pair<const K*, bool> insert(const K& k) {
    size_t i = 0;
    while (i < n_ && items_[i] < k) i++;
    if (i < n_ && !(k < items_[i])) return {items_ + i, false};
    verif_assert(n_ < VERIF_SET_CAP);  // capacity bound is part of the stated bound
    for (size_t j = n_; j > i; j--) items_[j] = items_[j - 1];
    items_[i] = k; n_++;
    return {items_ + i, true};
  }
  template <typename... Args>
  pair<const K*, bool> emplace(Args&&... args) { return insert(K(std::forward<Args>(args)...)); }
  size_t erase(const K& k) {
    size_t i = 0;
    while (i < n_ && items_[i] < k) i++;
    if (i == n_ || k < items_[i]) return 0;
    for (size_t j = i; j + 1 < n_; j++) items_[j] = items_[j + 1];
    n_--;
    return 1;
  }
  void clear() { n_ = 0; }
};
}
