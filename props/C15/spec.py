ID = 'C15'
FS0 = ['--max-field-sensitivity-array-size', '0']
UNITS = {
    # communicate reads in 4096-byte pieces (`read(fd, 4096)`, a literal): replaced by VERIF_COMM_BLOCK in a copy of Process.cc
    'proc': dict(wrap='wrap.cc', shim=True, new_block=64, cuts=[r'^_ZN5phosg8io_errorC1Ei$', r'^_ZN5phosg16string_for_errorB5cxx11Ei$'], cxxflags=['-DVERIF_COMM_BLOCK=4', '-DVERIF_DEQUE_CAP=4'],  # deque shim capacity 4 (>= W+1 chunks)
                 src_subst={'Process.cc': [(r'read\(this->stdout_read_fd, 4096\)', 'read(this->stdout_read_fd, VERIF_COMM_BLOCK)', 1)]}),
}
BOUNDS = ('Subprocess::communicate, parent side only, no stdin payload, W = 0 stdout bytes (the largest size with a verdict, see NOTES.md), child exit at any '
          'of <= 6 OS calls, any exit code 0..255, timeout 0 (no deadline); read block 4 instead of 4096; deque shim capacity 4')
STUBS = ['OS model in h_comm.c: waitpid (WNOHANG returns 0 until the child exited, then the pid once; blocking wait lets the child finish), poll (POLLIN/POLLHUP exactly for the pipe state, '
         '0 on timeout, infinite timeout blocks until the fair child\'s next action, poll(-1) on an empty set = deadlock assertion), read (1..min(requested, available), 0 at EOF), '
         'kill (SIGKILL ends the child, ESRCH after reaping), close (each pipe end at most once), gettimeofday (arbitrary non-decreasing)',
         'vasprintf -> constant text; io_error(int) constructor and string_for_error() cut to message-free models (exception TEXT is outside the claim)',
         'engine/shim unordered_map (capacity 4) and deque (capacity 4)']
OUTSIDE = ['deadlines (timeout != 0): the OS model has no fair notion of time passing, every run hits the OS-call bound (inconclusive, 376-582 s)',
           'any stdout payload (W >= 1): no verdict within 20 GB (NOTES.md) - so "returns the child\'s complete stdout" and the post-exit drain are NOT decided by the solver '
           '(the drain defect is shown by a native replay of a hand-written schedule only)',
           'stdin payloads, stderr, run_process (its Subprocess constructor needs std::set = out-of-line libstdc++ tree code and 128 KiB read blocks), the pipe()/fork()/exec constructor, '
           'the child side, real pipe capacity, signals other than SIGKILL, wall-clock deadlock freedom, descriptor leaks of ~Subprocess']
ASSUMPTIONS = ['the OS model over-approximates scheduling and chunking but is not the kernel', 'communicate is uniform in its read block size (4096 -> 4 by src_subst, both builds)',
               'a Subprocess assembled from the default constructor + fields behaves like one made by the forking constructor in the parent']

def queries(tier):
    qs = []
    # W >= 1 runs out of 20 GB (measured); only W = 0 is queried. Deadline cells (TIMEOUT != 0) exist in the harness but are not
    # queried: with a finite poll timeout the model's child may idle for ever, so the OS-call bound is always reachable (NOTES.md).
    for to in (0,):
        for w in [0]:
            qs.append(dict(name='comm_w%d_to%d' % (w, to), unit='proc', harness='h_comm.c', defs={'WMAX': w, 'TIMEOUT': to, 'TMAX': (6 if to == 0 else 14) + 3 * w}, unwind=5 + w, unwindset='harness.0:%d' % ((8 if to == 0 else 16) + 3 * w), timeout=1500, mem_gb=18, flags=FS0, backend='cadical',
                           desc='Subprocess::communicate (no stdin payload) vs OS model: child writes <= %d bytes in arbitrary chunks/timing and exits; %s' % (w, 'no deadline' if to == 0 else 'deadline 1 s, arbitrary clock'),
                           bounds='<= %d stdout bytes, <= %d OS calls (clock reads included)' % (w, (6 if to == 0 else 14) + 3 * w)))
    return qs
