ID = 'C15'
TECHNIQUE = ('bounded symbolic model checking (CBMC/SAT) of C translated from the LLVM IR of the real Subprocess::communicate / run_process code against a '
             'nondeterministic OS model written in the harness; the child\'s schedule (event positions, transfer amounts) is case-split into concrete cells, '
             'payload bytes, wait status and clock values are solver variables in every cell')
FS512 = ['--max-field-sensitivity-array-size', '512']
CUTS = [r'^_ZN5phosg8io_errorC1Ei$', r'^_ZN5phosg16string_for_errorB5cxx11Ei$']
SUBST = {'Process.cc': [(r'read\(this->stdout_read_fd, 4096\)', 'read(this->stdout_read_fd, VERIF_COMM_BLOCK)', 1),
                        (r'READ_BLOCK_SIZE = 128 \* 1024;', 'READ_BLOCK_SIZE = VERIF_RUN_BLOCK;', 1)]}
UNITS = {
    'proc': dict(wrap='wrap.cc', shim=True, new_block=64, per_harness={'h_run.c': {'new_block': 128}}, cuts=CUTS + ['basic_stringIcSt11char_traitsIcESaIcEE9_M_createERmm$'],
                 cxxflags=['-DVERIF_COMM_BLOCK=4', '-DVERIF_RUN_BLOCK=4', '-DVERIF_DEQUE_CAP=4', '-DVERIF_UMAP_CAP=3', '-DVERIF_UMAP_REVERSE_ITER', '-fno-inline'], src_subst=SUBST,
                 ir2c_flags=['--ptrdiff', '--flat-unions', '--zero-allocas'], gen_defs=['VERIF_NEW_POOL=16', 'VERIF_NEW_POOL_LIFO'], extra_c=['sso_bound.c']),
}
BOUNDS = ('One query = one CELL: concrete child script (sequence of events: write k bytes to stdout / stderr, close stdout, read stdin, read stdin to EOF, close '
          'stdin, exit), concrete position of every event on the axis of the parent\'s OS calls, concrete amount for every read()/write() that could move more '
          'than one byte, (deadline cells) concrete index FL of the first clock read that sees the deadline passed. SYMBOLIC inside a cell: every stdout / stderr / '
          'payload byte, the wait status (any exit code 0..255 or death by signal 1..126 with/without core), every clock value after the first. '
          'Subprocess::communicate: W = 0..3 stdout bytes in every chunking (scripts x, 1x, 2x, 11x, 3x, 12x, 21x, 111x) plus close-stdout scripts cx, 1cx; stdin payload 0, 1, 2 bytes '
          '(scripts x, kx, ex, rx, e1x, 1ex, r1x with 1 byte; ex, rx, rex, rrx, rkx, e1x with 2 bytes, pipe capacity 1 or 2); deadline 2 ms (scripts x, 1x, 2x, ex+1 byte payload); '
          'blocking-descriptor cells: 3-byte payload, both pipes 1 byte, script r11ex, and 2-byte payload script e1x. '
          'cells.json lists for every script ALL positions (an event marked LATE stands for "this OS call or any later": the query proves that the parent forces the event by then, '
          'so later positions are the same run) and the complete tree of read/write amounts (completeness of the tree is checked when spec.py is loaded; the limits are asserted in the queries). '
          'QUICK runs the complete lists of x, 1x, 2x, cx (no payload), x+payload, and the deadline script x (every 2nd cell) and every n-th cell of the other lists (TIERS in spec.py); '
          'THOROUGH runs the complete lists of x, 1x, 2x, 11x, 3x, cx, the 1-byte-payload scripts x/kx/ex/rx, ex with 2 bytes (capacity 1), deadline x, and every n-th cell '
          '(n = 2..20, see TIERS) of 12x, 21x, 111x, 1cx and the remaining payload / deadline lists. '
          'run_process (h_run.c): stdout + stderr <= 2 bytes (scripts x, 1x, Ax, 2x, Bx, 11x, 1Ax, A1x, AAx), payload 1 byte (x, kx, ex, e1x) or 2 bytes (ex, capacity 1 and 2), every event '
          '0..3 OS calls after the previous one (0..2 for the scripts with a payload > 1 byte or AAx), `check` on/off with status 0 / symbolic non-zero on the 1x cells; no timeout. '
          'Read block 4 bytes in communicate (source: 4096) and in run_process (source: 128 KiB), both replaced by src_subst; every std::string <= 15 bytes; deque shim capacity 4, '
          'unordered_map shim capacity 3, std::set shim capacity 4.')
STUBS = ['OS model in h_comm.c (communicate): waitpid (WNOHANG: 0 until the child exited, then the pid once; blocking: runs the child to its exit or reports deadlock), poll (POLLIN/POLLHUP/'
         'POLLOUT/POLLERR exactly for the pipe state; timeout -1 blocks until the fair child\'s next steps make something ready - nothing can: "deadlock" assertion; timeout 0 returns at once; '
         'timeout > 0 with nothing ready lets the whole timeout elapse), read (concrete amount 1..min(requested, available), 0 at EOF, never on an empty pipe with a live writer), write '
         '(concrete amount 1..min(n, room), EPIPE when the reader is gone, EAGAIN when full and O_NONBLOCK; WBLOCK cells: POSIX blocking write = returns when all n bytes are in, sleeps '
         'while full, deadlock assertion when the child cannot make room), fcntl (F_GETFL/F_SETFL on the stdin end), kill (SIGKILL ends the child, ESRCH after reaping, allowed only '
         'after the deadline was seen), close (each pipe end at most once), gettimeofday (deadline cells: first value fixed, later values symbolic, non-decreasing, at least 1 ms before the '
         'deadline until read number FL, at or past it from then on; at most 10 ms past)',
         'OS model in h_run.c (run_process): pipe (descriptors 3..8), fork (parent side only), fcntl, waitpid(WNOHANG), poll with 1 s timeout, non-blocking read/write (EAGAIN / EPIPE), close '
         '(only pipe descriptors, each once), gettimeofday (symbolic, feeds elapsed_time only), kill (never without a timeout)',
         'vasprintf -> constant text; io_error(int) constructor and string_for_error() cut to message-free models (exception TEXT is outside the claim)',
         'std::string::_M_create cut to a reported bound failure (sso_bound.c): strings longer than 15 bytes are outside the encoding; operator new/delete: deterministic pool allocator with '
         'stack-order reuse (engine/rt/rt_model.c VERIF_NEW_POOL + VERIF_NEW_POOL_LIFO): no use-after-delete detection in CBMC (ASan checks the native runs)',
         'engine/shim unordered_map (capacity 3, iteration newest-first = the order libstdc++ gives for <= 3 int keys) and deque (capacity 4); props/C15/shim_set.hh for std::set (solver build only)']
OUTSIDE = ['signals delivered to the PARENT: a write to a pipe whose reader is gone raises SIGPIPE, which terminates the calling process unless the application ignores it; the model returns '
           'EPIPE only. run_process / communicate do not protect against SIGPIPE (confirmed with a real child: exit status 141 of the parent); not repaired by commit 8fd4a36',
           'run_process with timeout_usecs != 0 (SIGTERM / SIGKILL escalation): not encoded',
           'real pipe capacity (64 KiB), payloads beyond 3 bytes / outputs beyond 3 bytes, read blocks other than 4: block-boundary logic is decided for the substituted constants only',
           'timing resolution below 1 ms around the deadline (communicate polls with timeout 0 in a busy loop during the last millisecond: unbounded in any model); deadlines other than 2 ms',
           'EINTR from poll / waitpid / read / write, poll failures, fork / pipe failures, the child side of fork (dup2 / exec), cwd / env arguments',
           'busy waiting: run_process spins (poll returns at once) while a pipe end reports only POLLHUP / POLLERR and the child is still running - a performance matter, not asserted',
           '~Subprocess does not close the descriptors of a Subprocess built with pipes that was not used through run_process (observation, the property text only speaks about run_process)',
           'deadline cells: the combinations of FL and read amounts are those the native exploration found consistent; they are decided by the solver one by one but their list is not proven complete',
           'cells not listed in cells.json / runcells.json: positions later than TMAX (covered only through LATE cells), run_process delays > 3 OS calls between events']
ASSUMPTIONS = ['the OS model is an over-approximation of scheduling written from POSIX / Linux pipe semantics; it is not the kernel',
               'communicate and run_process are uniform in their read block size (4096 / 131072 -> 4 by src_subst, both builds)',
               'a Subprocess assembled from the default constructor + fields (h_comm.c) behaves like one made by the forking constructor in the parent; h_run.c runs the real constructor',
               'ir2c --zero-allocas and the pool allocator: behaviour that depends on reading UNINITIALISED stack or operator-new memory is not explored (the model shows zeros / stale bytes)',
               'libstdc++ iterates an unordered_map<int,...> with <= 3 keys newest-first (the shim does the same); translation validation compares the OS call order of both builds on every tv query',
               'cbmc --max-field-sensitivity-array-size 512 (performance only)']

LB = '_ZSt13__lower_boundIN9__gnu_cxx17__normal_iteratorIP6pollfdSt6vectorIS2_SaIS2_EEEES2_NS0_5__ops14_Iter_comp_valIZN5phosg4Poll'
COMM = '_ZN5phosg10Subprocess11communicateB5cxx11EPKvmm'
DQ = '_ZNSt5dequeINSt7__cxx1112basic_stringIcSt11char_traitsIcESaIcEEEvE'
UM = '_ZNSt13unordered_mapIisvvvE'


def comm_unwindset(w, in_n, tmax, main_iters):
    nf = 2 if in_n else 1
    d = {'draw_clock.0': 14,
         DQ + 'D2Ev.0': 6, DQ + 'C2Ev.0': 6, LB + '3addEisE3__0EEET_SE_SE_RKT0_T1__c653dc.0': 3, LB + '6removeEibE3__1EEET_SE_SE_RKT0_T1__b9d0c1.0': 3,
         # the three loops of communicate (main, drain, concatenation) all get the bound of the main loop: their numbering follows the
         # block layout clang chooses and changes when the code changes (seeded mutant m2: main loop became .2)
         COMM + '.0': main_iters, COMM + '.1': main_iters, COMM + '.2': main_iters,
         '_ZNKSt13unordered_mapIisvvvE4findERKi.0': 5, UM + '7emplaceIJRKiEJRKsEEESt4pairINS0_8iteratorEbESt21piecewise_construct_tSt5tupleIJDpT_EESA_IJDpT0_EE.0': 5,
         UM + '5clearEv.0': 5, UM + 'C2Ev.0': 5, UM + 'C2EOS0_.0': 5,
         'verif_memset_loop.0': 6, 'verif_memcpy_loop.0': 20, '_ZN5phosg10Subprocess4waitEb.0': 2, '_ZN5phosg4Poll4pollEi.0': nf + 1,
         'verif_memmove_loop.0': 8 * (nf - 1) + 2, 'verif_memmove_loop.1': 8 * (nf - 1) + 2, 'strlen.0': 20}
    return ','.join('%s:%d' % kv for kv in d.items())


def Q(name, evs, sched, late, tmax, plan=('', '', ''), lims=('', '', ''), in_n=0, timeout_us=0, fl=99, cap=None, mem_gb=3, to=600, tv=False, ocap=None, wblock=0, **kw):
    w = sum(int(c) for c in evs if c.isdigit())
    defs = {'EVS': '"%s"' % evs, 'SCHED': '"%s"' % sched, 'LATE': '"%s"' % late, 'IN_N': in_n, 'TIMEOUT': timeout_us, 'TMAX': tmax, 'FL': fl}
    for k, nm in enumerate('RWC'):
        if plan[k]:
            defs['MV' + nm] = '"%s"' % plan[k]
            defs['LIM' + nm] = '"%s"' % lims[k]
    if cap is not None:
        defs['CAP'] = cap
    if ocap is not None:
        defs['OCAP'] = ocap
    if wblock:
        defs['WBLOCK'] = 1
    return dict(name=name, unit='proc', harness='h_comm.c', defs=defs, unwind=7, unwindset=comm_unwindset(w, in_n, tmax, w + len(evs) + in_n + 3), timeout=to, mem_gb=mem_gb,
                flags=FS512, backend='cadical', object_bits=12, tv=tv, tv_runs=20, cost=5,
                desc='Subprocess::communicate vs OS model: child script %s (1-9 write n stdout bytes, c close stdout, r/e read stdin / to EOF, k close stdin, x exit), %s; '
                     'all bytes, the wait status%s symbolic: returns exactly the child\'s output, child reaped once, descriptors closed at most once, stdin closed on delivery, no deadlock'
                     % (evs, ('%d-byte stdin payload (pipe capacity %s)' % (in_n, cap if cap is not None else in_n)) if in_n else 'no stdin payload',
                        ', the clock values' if timeout_us else '') +
                     ('; deadline %d us: throws only after the clock passed it and the child was SIGKILLed' % timeout_us if timeout_us else '') +
                     ('; stdin is a blocking descriptor (write returns when everything is in the pipe), stdout pipe holds %s byte(s)' % ocap if wblock else ''),
                bounds='events at OS calls %s (LATE flags %s: 1 = that call or any later), amounts read/write/child-read %s, FL %s, <= %d OS calls' % (sched, late, '/'.join(p or '-' for p in plan), fl if timeout_us else '-', tmax), **kw)


RUNP = '_ZN5phosg11run_processERKSt6vectorINSt7__cxx1112basic_stringIcSt11char_traitsIcESaIcEEESaIS6_EEPKS6_bSC_PKSt13unordered_mapIS6_S6_vvvEm'


def RQ(name, evs, sched, in_n=0, has_in=None, cap=None, check=0, status0=1, plan=('', '', '', ''), lims=('', '', '', ''), kf=None, mem_gb=4, to=900, tv=False, **kw):
    """one run_process cell (h_run.c)"""
    w = sum(int(c) for c in evs if c.isdigit()) + sum(ord(c) - 64 for c in evs if c in 'ABC')
    tmax = sum(B36.index(c) for c in sched) + 3 * w + 2 * len(evs) + 2 * in_n + 8
    defs = {'EVS': '"%s"' % evs, 'SCHED': '"%s"' % sched, 'IN_N': in_n, 'HAS_IN': int(in_n > 0 if has_in is None else has_in), 'CHECK': check, 'STATUS0': status0, 'TMAX': tmax}
    for k, nm in enumerate('REWC'):
        if plan[k]:
            defs['MV' + nm] = '"%s"' % plan[k]
            defs['LIM' + nm] = '"%s"' % lims[k]
    if cap is not None:
        defs['CAP'] = cap
    if kf:
        defs[kf] = 1
    us = {RUNP + '.0': tmax // 2 + 3, RUNP + '.1': tmax // 2 + 3, RUNP + '.2': tmax // 2 + 3, RUNP + '.3': tmax // 2 + 3, RUNP + '.4': tmax // 2 + 3, RUNP + '.5': tmax // 2 + 3,  # loop numbering follows clang's block layout
          'verif_memcpy_loop.0': 20, 'verif_memmove_loop.0': 18, 'verif_memmove_loop.1': 18, 'strlen.0': 20, '_ZN5phosg10Subprocess4waitEb.0': 2}
    return dict(name=name, unit='proc', harness='h_run.c', defs=defs, unwind=9, unwindset=','.join('%s:%d' % kv for kv in us.items()), timeout=to, mem_gb=mem_gb,
                flags=FS512, backend='cadical', object_bits=12, tv=tv, tv_runs=20, cost=20,
                desc='run_process (real Subprocess constructor, poll loop, drain, check=%d) vs OS model: child script %s (1-9 stdout bytes, A-C 1-3 stderr bytes, r/e/k stdin, x exit), %s, wait status %s; '
                     'all bytes symbolic: result strings == what the child wrote per stream, status returned, throws iff check and status != 0, child reaped once, every pipe() descriptor closed exactly once'
                     % (check, evs, ('%d-byte stdin payload (pipe capacity %s)' % (in_n, cap if cap is not None else in_n)) if in_n else 'no stdin data', '0' if status0 else 'symbolic non-zero'),
                bounds='each event %s OS calls after the previous one, amounts stdout/stderr/stdin/child %s, <= %d OS calls' % ('/'.join(sched), '/'.join(p or '-' for p in plan), tmax), **kw)


import json, os
B36 = '0123456789abcdefghijklmnopqrstuvwxyz'
CELLS = json.load(open(os.path.join(os.path.dirname(os.path.abspath(__file__)), 'cells.json')))


def check_plan_trees(r):
    """the move plans listed for one schedule must form a complete tree: wherever a run had a choice point with limit L after
    the amounts P, the list contains P+[d] for every d in 1..L (the limits are asserted by the queries themselves)"""
    by = {}
    for sc, late, plan, lims, fl in r['cells']:
        by.setdefault((sc, late, fl), []).append((tuple(plan), tuple(lims)))
    for key, pl in by.items():
        have = set(p for p, _ in pl)
        # completeness per kind, the other two kinds fixed: every proper prefix choice is branched completely
        for p, l in pl:
            for k in range(3):
                for n in range(len(p[k])):
                    for d in range(1, int(l[k][n]) + 1):
                        want = p[k][:n] + str(d)
                        if not any(q[k].startswith(want) and all(q[j] == p[j] or j == k for j in range(3)) or q[k].startswith(want) for q in have):
                            raise Exception('cells.json: incomplete move-plan tree for %s %s: %s' % (r['evs'], key, want))


for _r in CELLS:
    if not _r['timeout']:  # deadline cells: combinations of FL and amounts that contradict each other are left out, the list is not a full tree
        check_plan_trees(_r)


# which cells of cells.json run in which tier: (evs, in_n, cap, timeout) -> (quick stride, thorough stride); stride n = every n-th cell
# of the list (deterministic), 0 = not in that tier. Everything listed with stride 1 is the COMPLETE cell list of that script.
TIERS = {
    # stdout only, no payload, no deadline
    ('x', 0, 1, 0): (1, 1), ('1x', 0, 1, 0): (1, 1), ('2x', 0, 1, 0): (1, 1), ('11x', 0, 1, 0): (6, 1), ('3x', 0, 1, 0): (8, 1),
    ('12x', 0, 1, 0): (32, 4), ('21x', 0, 1, 0): (45, 4), ('111x', 0, 1, 0): (0, 24), ('cx', 0, 1, 0): (1, 1), ('1cx', 0, 1, 0): (0, 2),
    # stdin payload of 1 / 2 bytes
    ('x', 1, 1, 0): (1, 1), ('kx', 1, 1, 0): (5, 1), ('ex', 1, 1, 0): (3, 1), ('rx', 1, 1, 0): (0, 1), ('e1x', 1, 1, 0): (16, 2), ('1ex', 1, 1, 0): (0, 4),
    ('r1x', 1, 1, 0): (0, 4), ('ex', 2, 1, 0): (9, 1), ('ex', 2, 2, 0): (0, 2), ('rx', 2, 2, 0): (28, 3), ('rex', 2, 1, 0): (0, 3), ('rrx', 2, 1, 0): (0, 6),
    ('rkx', 2, 1, 0): (0, 6), ('e1x', 2, 1, 0): (0, 8),
    # deadline 2 ms
    ('x', 0, 1, 2000): (2, 1), ('1x', 0, 1, 2000): (34, 6), ('2x', 0, 1, 2000): (0, 20), ('ex', 1, 1, 2000): (0, 12),
}
RUNCELLS = json.load(open(os.path.join(os.path.dirname(os.path.abspath(__file__)), 'runcells.json')))
RUNTIERS = {('x', 0, 1): (1, 1), ('1x', 0, 1): (4, 1), ('Ax', 0, 1): (8, 2), ('2x', 0, 1): (16, 2), ('Bx', 0, 1): (0, 4), ('11x', 0, 1): (26, 6), ('1Ax', 0, 1): (16, 4),
            ('A1x', 0, 1): (0, 4), ('AAx', 0, 1): (0, 4), ('x', 1, 1): (2, 1), ('kx', 1, 1): (8, 2), ('ex', 1, 1): (8, 2), ('e1x', 1, 1): (14, 2), ('ex', 2, 1): (0, 1), ('ex', 2, 2): (0, 2)}


def queries(tier):
    qs = []
    for r in CELLS:
        stride = TIERS.get((r['evs'], r['in_n'], r['cap'], r['timeout']), (0, 0))[0 if tier == 'quick' else 1]
        if not stride:
            continue
        for k, (sc, late, plan, lims, fl) in enumerate(r['cells']):
            if k % stride:
                continue
            nm = '%s_%s_i%dc%d_%s_%s_%s%s' % ('d' if r['timeout'] else 'c', r['evs'], r['in_n'], r['cap'], sc, late, '.'.join(plan), '_fl%d' % fl if r['timeout'] else '')
            qs.append(Q(nm, r['evs'], sc, late, r['tmax'], plan, lims, in_n=r['in_n'], cap=r['cap'], timeout_us=r['timeout'], fl=fl, tv=(k % (16 * stride) == 0)))
    # blocking stdin descriptor (POSIX: write() returns when everything is in the pipe) + bounded stdout pipe: the child echoes
    # while the parent is still writing. Script r11ex = read 1, write 1, write 1, read to EOF, exit; 3-byte payload, both pipes
    # hold 1 byte. All-forced schedule (the child only moves when the parent blocks) and two early ones.
    for sc, late in (('yyyyy', '11111'), ('00000', '00000'), ('12345', '00000')):
        qs.append(Q('wb_r11ex_i3c1o1_%s_%s' % (sc, late), 'r11ex', sc, late, 34, in_n=3, cap=1, ocap=1, wblock=1, tv=True))
    for sc, late in (('mmm', '111'), ('000', '000')):
        qs.append(Q('wb_e1x_i2c1_%s_%s' % (sc, late), 'e1x', sc, late, 22, in_n=2, cap=1, wblock=1, tv=(sc == 'mmm')))
    for r in RUNCELLS:
        stride = RUNTIERS.get((r['evs'], r['in_n'], r['cap']), (0, 0))[0 if tier == 'quick' else 1]
        if not stride:
            continue
        for k, (sc, plan, lims, tmax_seen) in enumerate(r['cells']):
            if k % stride:
                continue
            nm = 'run_%s_i%dc%d_%s_%s' % (r['evs'], r['in_n'], r['cap'], sc, '.'.join(plan))
            qs.append(RQ(nm, r['evs'], sc, in_n=r['in_n'], cap=r['cap'], plan=plan, lims=lims, tv=(k % (8 * stride) == 0)))
            # the `check` argument and non-zero wait statuses: on a quarter of the cells of the one-byte script
            if r['evs'] == '1x' and r['in_n'] == 0 and k % (8 if tier == 'quick' else 4) == 0:
                qs.append(RQ(nm + '_st', r['evs'], sc, plan=plan, lims=lims, check=0, status0=0))
                qs.append(RQ(nm + '_chk0', r['evs'], sc, plan=plan, lims=lims, check=1, status0=1))
                qs.append(RQ(nm + '_chk', r['evs'], sc, plan=plan, lims=lims, check=1, status0=0))
    return qs
