ID = 'C15'
FS512 = ['--max-field-sensitivity-array-size', '512']
CUTS = [r'^_ZN5phosg8io_errorC1Ei$', r'^_ZN5phosg16string_for_errorB5cxx11Ei$']
SUBST = {'Process.cc': [(r'read\(this->stdout_read_fd, 4096\)', 'read(this->stdout_read_fd, VERIF_COMM_BLOCK)', 1)]}
UNITS = {
    'proc': dict(wrap='wrap.cc', shim=True, new_block=64, cuts=CUTS + ['basic_stringIcSt11char_traitsIcESaIcEE9_M_createERmm$'],
                 cxxflags=['-DVERIF_COMM_BLOCK=4', '-DVERIF_DEQUE_CAP=4', '-fno-inline'], src_subst=SUBST,
                 ir2c_flags=['--ptrdiff', '--flat-unions', '--zero-allocas'], gen_defs=['VERIF_NEW_POOL=16', 'VERIF_NEW_POOL_LIFO'], extra_c=['sso_bound.c']),
}
BOUNDS = ''
STUBS = []
OUTSIDE = []
ASSUMPTIONS = []

LB = '_ZSt13__lower_boundIN9__gnu_cxx17__normal_iteratorIP6pollfdSt6vectorIS2_SaIS2_EEEES2_NS0_5__ops14_Iter_comp_valIZN5phosg4Poll'
COMM = '_ZN5phosg10Subprocess11communicateB5cxx11EPKvmm'
DQ = '_ZNSt5dequeINSt7__cxx1112basic_stringIcSt11char_traitsIcESaIcEEEvE'
UM = '_ZNSt13unordered_mapIisvvvE'


def comm_unwindset(w, in_n, tmax, main_iters):
    nf = 2 if in_n else 1
    d = {'harness.0': 7, 'harness.1': tmax + 3, 'harness.2': 7, 'harness.3': 7, 'harness.4': 7,
         'harness.5': tmax + 3, 'harness.6': tmax + 3, 'harness.7': tmax + 3, 'harness.8': tmax + 3, 'harness.9': tmax + 3,
         'in_bytes.0': 5, 'model_reset.0': in_n + 2, 'child_run.0': 7, 'child_run.1': 7, 'poll_scan.0': 4, 'X_poll.0': 8, 'X_read.0': 5, 'X_write.0': in_n + 2,
         'X_waitpid.0': 7, 'run_case.0': in_n + 2, 'run_case.1': 7, 'run_case.2': 5,
         DQ + 'D2Ev.0': 6, DQ + 'C2Ev.0': 6, LB + '3addEisE3__0EEET_SE_SE_RKT0_T1__c653dc.0': 3, LB + '6removeEibE3__1EEET_SE_SE_RKT0_T1__b9d0c1.0': 3,
         COMM + '.0': main_iters, COMM + '.1': w + 3, COMM + '.2': w + 2,
         '_ZNKSt13unordered_mapIisvvvE4findERKi.0': 5, UM + '7emplaceIJRKiEJRKsEEESt4pairINS0_8iteratorEbESt21piecewise_construct_tSt5tupleIJDpT_EESA_IJDpT0_EE.0': 5,
         UM + '5clearEv.0': 5, UM + 'C2Ev.0': 5, UM + 'C2EOS0_.0': 5,
         'verif_memset_loop.0': 6, 'verif_memcpy_loop.0': 6, '_ZN5phosg10Subprocess4waitEb.0': 2, '_ZN5phosg4Poll4pollEi.0': nf + 1,
         'verif_memmove_loop.0': 8 * (nf - 1) + 2, 'verif_memmove_loop.1': 8 * (nf - 1) + 2, 'strlen.0': 2}
    return ','.join('%s:%d' % kv for kv in d.items())


def Q(name, evs, sched, in_n=0, timeout_us=0, cap=None, mem_gb=4, to=600, **kw):
    w = sum(int(c) for c in evs if c.isdigit())
    tmax = 3 * (w + len(evs) + in_n) + 4 + (10 if timeout_us else 0)
    defs = {'EVS': '"%s"' % evs, 'SCHED': '"%s"' % sched, 'IN_N': in_n, 'TIMEOUT': timeout_us, 'TMAX': tmax}
    if cap is not None:
        defs['CAP'] = cap
    return dict(name=name, unit='proc', harness='h_comm.c', defs=defs, unwind=3, unwindset=comm_unwindset(w, in_n, tmax, w + len(evs) + in_n + 3), timeout=to, mem_gb=mem_gb,
                flags=FS512, backend='cadical', object_bits=12, desc=name, bounds='', tv_runs=8, **kw)


def queries(tier):
    qs = []
    qs.append(Q('c_1x_00', '1x', '00'))
    qs.append(Q('c_1x_03', '1x', '03'))
    qs.append(Q('c_1x_s3', '1x', '*3'))
    qs.append(Q('c_1x_ss', '1x', '**'))
    qs.append(Q('c_2x_s5', '2x', '*5'))
    qs.append(Q('c_11x_ss5', '11x', '**5'))
    return qs
