ID = 'C15'
FS0 = ['--max-field-sensitivity-array-size', '0']
UNITS = {
    # communicate reads in 4096-byte pieces (`read(fd, 4096)`, a literal): replaced by VERIF_COMM_BLOCK in a copy of Process.cc
    'proc': dict(wrap='wrap.cc', shim=True, new_block=64, cuts=[r'^_ZN5phosg8io_errorC1Ei$', r'^_ZN5phosg16string_for_errorB5cxx11Ei$'], cxxflags=['-DVERIF_COMM_BLOCK=4', '-DVERIF_DEQUE_CAP=4'],  # deque shim capacity 4 (>= W+1 chunks)
                 src_subst={'Process.cc': [(r'read\(this->stdout_read_fd, 4096\)', 'read(this->stdout_read_fd, VERIF_COMM_BLOCK)', 1)]}),
}
BOUNDS = ''
STUBS = []
OUTSIDE = []
ASSUMPTIONS = []

def queries(tier):
    qs = []
    for to in (0, 1000000):
        for w in ([0, 1] if tier == 'quick' else [0, 1, 2]):
            qs.append(dict(name='comm_w%d_to%d' % (w, to), unit='proc', harness='h_comm.c', defs={'WMAX': w, 'TIMEOUT': to, 'TMAX': 6 + 3 * w}, unwind=6 + w, unwindset='harness.0:%d' % (8 + 3 * w), timeout=1200, mem_gb=12, flags=FS0, backend='cadical',
                           desc='Subprocess::communicate (no stdin payload) vs OS model: child writes <= %d bytes in arbitrary chunks/timing and exits; %s' % (w, 'no deadline' if to == 0 else 'deadline 1 s, arbitrary clock'),
                           bounds='<= %d stdout bytes, <= %d OS calls' % (w, 6 + 3 * w)))
    return qs
