ID = 'C15'
FS0 = ['--max-field-sensitivity-array-size', '0']
FS512 = ['--max-field-sensitivity-array-size', '512']
CUTS = [r'^_ZN5phosg8io_errorC1Ei$', r'^_ZN5phosg16string_for_errorB5cxx11Ei$']
SUBST = {'Process.cc': [(r'read\(this->stdout_read_fd, 4096\)', 'read(this->stdout_read_fd, VERIF_COMM_BLOCK)', 1)]}
UNITS = {
    'old': dict(wrap='wrap.cc', shim=True, new_block=64, cuts=CUTS, cxxflags=['-DVERIF_COMM_BLOCK=4', '-DVERIF_DEQUE_CAP=4'], src_subst=SUBST),
    'proc': dict(wrap='wrap.cc', shim=True, new_block=64, cuts=CUTS + ['basic_stringIcSt11char_traitsIcESaIcEE9_M_createERmm$'],
                 cxxflags=['-DVERIF_COMM_BLOCK=4', '-DVERIF_DEQUE_CAP=4', '-fno-inline'], src_subst=SUBST,
                 ir2c_flags=['--ptrdiff', '--flat-unions', '--zero-allocas'], gen_defs=['VERIF_NEW_POOL=16', 'VERIF_NEW_POOL_LIFO'], extra_c=['sso_bound.c']),
}
BOUNDS = ''
STUBS = []
OUTSIDE = []
ASSUMPTIONS = []

def Q(name, unit, defs, unwind, unwindset='', flags=FS512, mem_gb=8, timeout=600, **kw):
    return dict(name=name, unit=unit, harness='h_comm.c', defs=defs, unwind=unwind, unwindset=unwindset, timeout=timeout, mem_gb=mem_gb, flags=flags, backend='cadical', desc=name, bounds='', **kw)

def queries(tier):
    qs = []
    for unit, fl in (('old', FS0), ('proc', FS512), ):
        for w, evs in ((0, 'x'), (1, 'wx'), (2, 'wwx')):
            qs.append(Q('%s_w%d_sym' % (unit, w), unit, {'W': w, 'EVS': '"%s"' % evs, 'TMAX': 8 + 3 * w}, 8, flags=fl, mem_gb=10))
    return qs
