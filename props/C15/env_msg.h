/* Environment stubs shared by the C15 harnesses: exception-message formatting. phosg builds the what() text of io_error /
 * cannot_open_file with vasprintf("%d ... %zu ... %zd") and strerror_r; the TEXT of exception messages is not part of any
 * C15 claim (only whether and what type is thrown), so both are replaced by constant-text models. */
#ifndef C15_ENV_MSG_H
#define C15_ENV_MSG_H
#include <stdlib.h>
#include "harness.h"
uint32_t STUB(vasprintf)(uint8_t* outp, uint8_t* fmt, uint8_t* va) {
  (void)fmt; (void)va;
  char* b = (char*)malloc(2);
#ifdef VERIF_CBMC
  __CPROVER_assume(b != 0);
#endif
  b[0] = 'E'; b[1] = 0;
  *(char**)outp = b;
  return 1;
}
#ifndef VERIF_NATIVE_REAL
/* generated C only: the text strerror_r produces is consumed by the vasprintf model above alone, which ignores it
 * (the real build keeps libc's strerror_r; <string.h> declares it, so it cannot be redefined in this file) */
uint8_t* X_strerror_r(uint32_t err, uint8_t* buf, uint64_t n) { (void)err; (void)n; return buf; }
#endif
#endif
