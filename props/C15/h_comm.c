/* C15: Subprocess::communicate, parent side, against a nondeterministic OS model.
 *
 * Cell (concrete, one query each): W = number of stdout bytes, EVS = the child's script as a string of event kinds,
 * IN_N = stdin payload size, TIMEOUT (0 = no deadline), optionally SCHED = when the events happen.
 * Symbolic inside a cell: the bytes, the chunk sizes of the child's writes (each >= 1, sum W), how many bytes every
 * read()/write() moves (1..possible), the wait status (any exit code / terminating signal), the clock, the stdin pipe
 * capacity and - unless SCHED is given - the OS call at which every child event happens.
 *
 * Child script EVS, executed in order, event i not later than the parent's OS call number at[i] (OS calls = gettimeofday,
 * waitpid, poll, read, write; the child runs "inside" them) and earlier when a blocking call of the parent needs it
 * (the child is fair: it eventually does its next step):
 *   w  write the next chunk to stdout            c  close stdout
 *   r  read 1..all bytes waiting in its stdin (blocks while the pipe is empty and the parent holds the write end open)
 *   e  read stdin until end-of-file (blocks until the parent has closed the write end; consumes everything)
 *   k  close stdin                               x  exit (closes everything), wait status symbolic; always last
 * Pipes: bytes written before exit/close stay readable; read() returns 1..min(requested, available), 0 at EOF (writer gone
 * and empty) and must not be called on an empty pipe with a live writer (it would block: assertion). The stdin pipe holds
 * at most CAP bytes (symbolic 1..IN_N); write() moves 1..min(n, room) bytes, fails with EPIPE once the child closed its
 * end, and must not be called without room (it would block: assertion). poll() reports POLLIN (data), POLLHUP (writer
 * gone), POLLOUT (room) and POLLERR (reader gone) exactly for that state; timeout -1 blocks until the child's next steps
 * make something ready - if the child cannot step or has nothing left to do: "deadlock" assertion; timeout 0 returns at
 * once; timeout > 0 either lets child steps make something ready in time or the full timeout elapses. waitpid(WNOHANG) = 0
 * until the exit, then the pid once (a second successful reap is an assertion); blocking waitpid runs the child to its
 * exit (cannot: deadlock assertion). kill(SIGKILL) ends the child at once; kill on a reaped child = ESRCH.
 * Clock: every value is a multiple of 1 ms (CLOCK_UNIT); any OS call may take 0..3 ms, a poll that times out takes at
 * least its timeout. (With a microsecond clock communicate's last millisecond is a busy loop of poll(0) calls - unbounded
 * in any model; the granularity is what bounds the loop. TIMEOUT is a multiple of 1 ms.)
 *
 * Oracle: no deadline: communicate returns (no exception) exactly the W bytes, in order. Always: at most TMAX OS calls
 * (no livelock), child reaped exactly once when the Subprocess is gone, every descriptor closed at most once, the fd
 * members are -1 exactly for closed descriptors, the stdin write end is closed as soon as the payload is delivered (before
 * the next OS call) and also when there is no payload; the cached status is the model's. With a deadline: an exception is
 * allowed only after gettimeofday returned a value >= first value + TIMEOUT, and only after the child was SIGKILLed. */
#include "harness.h"
#include "env_msg.h"
#ifndef VERIF_NATIVE_REAL
/* generated C only (spec: cuts): message-text helpers, see NOTES.md. Exception TEXT is not part of the claim. */
void X__ZN5phosg8io_errorC1Ei(uint8_t* self, uint32_t fd) { (void)self; (void)fd; }
void X__ZN5phosg16string_for_errorB5cxx11Ei(uint8_t* sret, uint32_t err) { (void)err; *(uint8_t**)sret = sret + 16; *(uint64_t*)(sret + 8) = 0; sret[16] = 0; }
#endif
int64_t w_communicate(uint32_t stdin_fd, uint32_t stdout_fd, uint32_t pid, uint8_t* in, uint64_t in_n, uint64_t timeout_usecs,
    uint8_t* out, uint64_t cap, int64_t* st);

#ifdef VERIF_NATIVE_REAL
int* __errno_location(void);
#define SET_ERRNO(v) (*__errno_location() = (v))
#else
uint8_t* X___errno_location(void);
#define SET_ERRNO(v) (*(int32_t*)X___errno_location() = (v))
#endif
#define IN_FD 7
#define OUT_FD 8
#define PID 1234
#define POLLIN_ 1
#define POLLOUT_ 4
#define POLLERR_ 8
#define POLLHUP_ 16
#define WNOHANG_ 1
#define CLOCK_UNIT 1000u
#ifndef W
#define W 1
#endif
#ifndef IN_N
#define IN_N 0
#endif
#ifndef TIMEOUT
#define TIMEOUT 0
#endif
#ifndef EVS
#define EVS "wx"
#endif
#ifndef CAP
#define CAP (IN_N ? IN_N : 1) /* stdin pipe capacity in bytes */
#endif
#ifndef TMAX
#define TMAX 16
#endif
#define NEV ((int)sizeof(EVS) - 1)
static const char evs[] = EVS;
#ifdef SCHED
static const char sched[] = SCHED; /* digit i = OS call index (base 36) at which event i happens at the latest */
#endif

static uint8_t data[W + 1], payload[IN_N + 1], got_in[IN_N + 1];
static uint64_t chunk[NEV + 1];
static int at[NEV + 1];
static int next_ev;                /* child program counter */
static uint64_t written, consumed; /* stdout pipe */
static uint64_t delivered, child_read, in_cap; /* stdin pipe */
static int out_writer_open = 1, in_reader_open = 1, exited, reaped, killed, reap_count;
static uint32_t status;
static int t; /* OS call counter */
static uint8_t mv2[TMAX + 1], mv3[TMAX + 1], fire_n[TMAX + 1]; /* per OS call: move a 2nd / a 3rd byte if possible; child steps during a timed poll */
static uint8_t clk_inc[TMAX + 1];
static uint64_t clock_us, first_clock, clock_seen_max;
static int clock_read;
static int closed_in, closed_out;

static int tick(void) {
  ASSERT(t < TMAX, "BOUND: number of OS calls (no livelock inside the bound)");
  ASSUME(t < TMAX);
  if (closed_in == 0 && IN_N > 0 && delivered == IN_N) ASSERT(0, "the stdin write end is closed as soon as the payload is delivered");
  clock_us += (uint64_t)clk_inc[t] * CLOCK_UNIT;
  return t++;
}
static int child_can_step(void) {
  if (exited || next_ev >= NEV) return 0;
  char k = evs[next_ev];
  if (k == 'r') return delivered > child_read || closed_in;
  if (k == 'e') return closed_in;
  return 1;
}
/* how many bytes one read()/write() moves: 1, 2 or 3 (solver's choice per OS call), never more than `lim` */
static uint64_t moved(int j, uint64_t lim) {
  uint64_t k = 1;
  if (lim >= 2 && mv2[j]) k = 2;
  if (lim >= 3 && k == 2 && mv3[j]) k = 3;
  return k;
}
static void child_step(int j) { /* performs event next_ev (must be able to) */
  char k = evs[next_ev];
  if (k == 'w' || (k >= '1' && k <= '9')) { written += chunk[next_ev]; }
  else if (k == 'c') { out_writer_open = 0; }
  else if (k == 'k') { in_reader_open = 0; }
  else if (k == 'r') { child_read += moved(j, delivered - child_read); }
  else if (k == 'e') { child_read = delivered; }
  else { exited = 1; out_writer_open = 0; in_reader_open = 0; }
  next_ev++;
}
static void child_run(int j) { /* events scheduled for OS call j or earlier happen now */
  for (int i = 0; i < NEV; i++)
    if (i == next_ev && at[i] <= j && child_can_step()) child_step(j);
}

uint32_t STUB(gettimeofday)(uint8_t* tv, uint8_t* tz) {
  (void)tz;
  ASSERT(!reaped, "the clock is not consulted for a child that has been reaped");
  ASSUME(!reaped);
  int j = tick();
  child_run(j);
  if (!clock_read) { clock_read = 1; first_clock = clock_us; }
  if (clock_us > clock_seen_max) clock_seen_max = clock_us;
  ((uint64_t*)tv)[0] = clock_us / 1000000u + 1000;
  ((uint64_t*)tv)[1] = clock_us % 1000000u;
  return 0;
}
struct pfd { int32_t fd; int16_t events; int16_t revents; };
static int16_t ready(int32_t fd, int16_t events) {
  int16_t r = 0;
  if (fd == OUT_FD && !closed_out) {
    if ((events & POLLIN_) && written > consumed) r |= POLLIN_;
    if (!out_writer_open) r |= POLLHUP_;
  }
  if (fd == IN_FD && !closed_in) {
    if ((events & POLLOUT_) && in_reader_open && delivered - child_read < in_cap) r |= POLLOUT_;
    if (!in_reader_open) r |= POLLERR_;
  }
  return r;
}
static int poll_scan(struct pfd* fds, uint64_t n) {
  int cnt = 0;
  for (int i = 0; i < 2; i++) if ((uint64_t)i < n) {
    ASSERT((fds[i].fd == OUT_FD && !closed_out) || (fds[i].fd == IN_FD && !closed_in), "poll only on open descriptors of this Subprocess");
    fds[i].revents = ready(fds[i].fd, fds[i].events);
    if (fds[i].revents) cnt++;
  }
  return cnt;
}
uint32_t STUB(poll)(uint8_t* fds_, uint64_t n, uint32_t timeout_ms) {
  struct pfd* fds = (struct pfd*)fds_;
  ASSERT(!(reaped && timeout_ms != 0), "no waiting poll for a child that has been reaped");
  ASSUME(!(reaped && timeout_ms != 0));
  int j = tick();
  child_run(j);
  ASSERT(n <= 2, "at most two descriptors are polled");
  int cnt = poll_scan(fds, n);
  if (cnt == 0 && (int32_t)timeout_ms < 0) {
    /* blocks until child steps make something ready */
    for (int i = 0; i < NEV; i++) if (cnt == 0 && child_can_step()) { child_step(j); cnt = poll_scan(fds, n); }
    ASSERT(cnt != 0, "poll(-1) can never return: deadlock");
    ASSUME(cnt != 0);
  } else if (cnt == 0 && timeout_ms > 0) {
    /* up to fire_n[j] child steps happen during the wait (stopping as soon as something is ready) */
    for (int i = 0; i < NEV; i++) if (cnt == 0 && i < fire_n[j] && child_can_step()) { child_step(j); cnt = poll_scan(fds, n); }
    if (cnt == 0) clock_us += (uint64_t)timeout_ms * 1000u; /* the whole timeout elapsed */
  }
  return (uint32_t)cnt;
}
uint64_t STUB(read)(uint32_t fd, uint8_t* buf, uint64_t n) {
  int j = tick();
  child_run(j);
  ASSERT(fd == OUT_FD && !closed_out, "read on the open stdout pipe");
  uint64_t avail = written - consumed;
  if (avail == 0) {
    ASSERT(!out_writer_open, "blocking read on an empty pipe whose writer is alive");
    ASSUME(!out_writer_open);
    return 0;
  }
  uint64_t k = moved(j, avail < n ? avail : n);
  for (uint64_t i = 0; i < W; i++) if (i < k) buf[i] = data[consumed + i];
  consumed += k;
  return k;
}
uint64_t STUB(write)(uint32_t fd, uint8_t* buf, uint64_t n) {
  int j = tick();
  child_run(j);
  ASSERT(fd == IN_FD && !closed_in, "write on the open stdin pipe");
  ASSERT(n >= 1 && n <= IN_N - delivered, "write passes the undelivered rest of the payload");
  ASSUME(n >= 1 && n <= IN_N - delivered);
  if (!in_reader_open) { SET_ERRNO(32); return (uint64_t)-1; } /* EPIPE */
  uint64_t room = in_cap - (delivered - child_read);
  ASSERT(room > 0, "blocking write on a full pipe (poll did not report it writable)");
  ASSUME(room > 0);
  uint64_t k = moved(j, room < n ? room : n);
  for (uint64_t i = 0; i < IN_N; i++) if (i < k) got_in[delivered + i] = buf[i];
  delivered += k;
  return k;
}
uint32_t STUB(waitpid)(uint32_t pid, uint8_t* st, uint32_t options) {
  int j = tick();
  child_run(j);
  ASSERT(pid == PID, "waitpid on the child");
  ASSERT(!reaped, "waitpid on a child that was already reaped");
  ASSUME(!reaped);
  if (!exited) {
    if (options & WNOHANG_) return 0;
    for (int i = 0; i < NEV; i++) if (!exited && child_can_step()) child_step(j);
    ASSERT(exited, "blocking waitpid can never return: deadlock");
    ASSUME(exited);
  }
  reaped = 1; reap_count++;
  *(uint32_t*)st = status;
  return PID;
}
uint32_t STUB(kill)(uint32_t pid, uint32_t sig) {
  ASSERT(pid == PID, "kill on the child");
  if (reaped) { SET_ERRNO(3); return (uint32_t)-1; } /* ESRCH */
  if (sig == 9 && !exited) { exited = 1; killed = 1; status = 9; out_writer_open = 0; in_reader_open = 0; }
  return 0;
}
uint32_t STUB(close)(uint32_t fd) {
  if (fd == IN_FD) { ASSERT(!closed_in, "stdin pipe closed twice"); closed_in = 1; }
  else if (fd == OUT_FD) { ASSERT(!closed_out, "stdout pipe closed twice"); closed_out = 1; }
  else ASSERT(0, "close on a descriptor that is not ours");
  return 0;
}

static int b36(char c) { return c <= '9' ? c - '0' : c - 'a' + 10; }

void harness(void) {
  uint8_t out[W + 1];
  int64_t st[3] = {-2, -2, -2};
  in_bytes(data, W);
  in_bytes(payload, IN_N);
  status = (uint32_t)in_range(0, 0xFFFF);
  ASSUME((status & 0x7F) != 0x7F);                       /* not "stopped" */
  ASSUME((status & 0x7F) == 0 || (status >> 8) == 0);    /* exit code or terminating signal (+ core flag) */
  in_cap = CAP;
  /* chunk sizes: every write event writes >= 1 byte, together W */
  uint64_t sum = 0;
  int nwr = 0;
  for (int i = 0; i < NEV; i++) {
    chunk[i] = 0;
    if (evs[i] == 'w') { chunk[i] = in_range(1, W ? W : 1); sum += chunk[i]; nwr++; }
    else if (evs[i] >= '1' && evs[i] <= '9') { chunk[i] = (uint64_t)(evs[i] - '0'); sum += chunk[i]; nwr++; }
  }
  ASSUME(sum == W);
  int prev = 0;
  for (int i = 0; i < NEV; i++) {
#ifdef SCHED
    if (sched[i] != '?') at[i] = b36(sched[i]); else
#endif
    at[i] = (int)in_range(0, TMAX);
    ASSUME(at[i] >= prev);
    prev = at[i];
  }
  for (int j = 0; j <= TMAX; j++) {
    mv2[j] = in_bool(); mv3[j] = in_bool();
    fire_n[j] = (uint8_t)in_range(0, NEV);
    clk_inc[j] = TIMEOUT ? (uint8_t)in_range(0, 3) : 0;
  }
  clock_us = (uint64_t)in_range(0, 5) * CLOCK_UNIT;
  int64_t r = w_communicate(IN_FD, OUT_FD, PID, payload, IN_N, TIMEOUT, out, sizeof(out), st);
  OBS(r); OBS(st[0]); OBS(st[1]); OBS(st[2]); OBS(t);
  ASSERT(reap_count == 1 && reaped, "the child has been reaped exactly once when the Subprocess is gone");
  ASSERT((st[1] == -1) == (closed_in != 0) && (st[1] == -1 || st[1] == IN_FD), "stdin_write_fd is -1 exactly when that descriptor was closed");
  ASSERT((st[2] == -1) == (closed_out != 0) && (st[2] == -1 || st[2] == OUT_FD), "stdout_read_fd is -1 exactly when that descriptor was closed");
  if (IN_N == 0) ASSERT(closed_in, "the unused stdin pipe was closed");
  if (delivered == IN_N) ASSERT(closed_in, "stdin closed after complete delivery");
  for (uint64_t i = 0; i < IN_N; i++) if (i < delivered) ASSERT(got_in[i] == payload[i], "the child receives the payload bytes in order");
  if (r < 0) {
#if TIMEOUT == 0
    ASSERT(0, "communicate without a deadline returns instead of throwing");
#else
    ASSERT(r == -5, "only runtime_error is thrown");
    ASSERT(clock_read && clock_seen_max >= first_clock + TIMEOUT, "communicate throws only when the deadline has really been reached");
    ASSERT(killed, "a timed-out child is killed");
#endif
  } else {
    ASSERT(exited && !killed, "communicate returns normally only after the child exited by itself");
    ASSERT(next_ev == NEV, "the child ran its whole script");
    ASSERT((uint64_t)r == W, "communicate returns every byte the child wrote (nothing lost at exit)");
    if ((uint64_t)r == W) for (uint64_t i = 0; i < W; i++) ASSERT(out[i] == data[i], "communicate returns the child's bytes in order");
    ASSERT(st[0] == (int64_t)status, "the cached wait status is the child's");
  }
}
