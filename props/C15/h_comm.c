/* C15: Subprocess::communicate, parent side, against a nondeterministic OS model (no stdin payload: stdin_size == 0).
 * The child is an automaton with a symbolic script: it writes W (<= WMAX) symbolic bytes to its stdout in solver-chosen
 * chunks at solver-chosen moments (one "child step" happens inside every OS call the parent makes) and exits with a
 * symbolic status once everything is written, at a solver-chosen moment. Pipe semantics: bytes written before the exit stay
 * readable after it; read() delivers 1..min(requested, available) bytes, 0 once the writer is gone and the pipe is empty;
 * poll() reports POLLIN / POLLHUP exactly for that state, returns 0 on timeout, and with an infinite timeout blocks until
 * the child's next action (fair child); waitpid(WNOHANG) returns 0 until the child has exited, then the pid once; blocking
 * waitpid lets the child run to completion; kill(SIGKILL) ends the child; gettimeofday is arbitrary but non-decreasing.
 * TIMEOUT cell: 0 = no deadline, else microseconds.
 * Oracle: without a deadline communicate must return (no exception) exactly the W bytes the child wrote, in order, and the
 * child must have been reaped with the model's wait status. With a deadline it may instead throw, but only if some
 * observed clock value reached the deadline; if it returns, the result is again all W bytes. Never a partial result. */
#include "harness.h"
#include "env_msg.h"
#ifndef VERIF_NATIVE_REAL
/* generated C only (spec: cuts): message-text helpers. io_error(int) formats "io error on fd N: ..."; string_for_error(errno)
 * returns "<n> (<strerror>)" and is used only inside exception messages ("poll failed: ...", "kill failed: ...",
 * "waitpid failed: ..."); its model returns an empty std::string (libstdc++ SSO layout: pointer to the in-object buffer,
 * size 0, NUL). Exception TEXT is not part of the claim; throw sites, types and control flow are encoded. */
void X__ZN5phosg8io_errorC1Ei(uint8_t* self, uint32_t fd) { (void)self; (void)fd; }
void X__ZN5phosg16string_for_errorB5cxx11Ei(uint8_t* sret, uint32_t err) { (void)err; *(uint8_t**)sret = sret + 16; *(uint64_t*)(sret + 8) = 0; sret[16] = 0; }
#endif
int64_t w_communicate(uint32_t stdin_fd, uint32_t stdout_fd, uint32_t pid, uint8_t* in, uint64_t in_n, uint64_t timeout_usecs,
    uint8_t* out, uint64_t cap, int64_t* out_status);

#ifdef VERIF_NATIVE_REAL
int* __errno_location(void);
#define __errno_location_() ((uint8_t*)__errno_location())
#else
uint8_t* X___errno_location(void);
#define __errno_location_() X___errno_location()
#endif
#define IN_FD 7
#define OUT_FD 8
#define PID 1234
#ifndef TMAX
#define TMAX 12 /* OS calls with a scheduled child step */
#endif
#define POLLIN_ 1
#define POLLOUT_ 4
#define POLLERR_ 8
#define POLLHUP_ 16
#define WNOHANG_ 1

static uint8_t data[WMAX + 1];
static uint64_t W;               /* script length */
static uint64_t written, consumed; /* bytes the child has written / the parent has read */
static int exited, reaped, killed;
static uint32_t status;          /* wait status reported at reaping */
static int t;                    /* OS call counter */
static uint8_t sched_wr[TMAX + 1], sched_ex[TMAX + 1], sched_rd[TMAX + 1];
static uint64_t clock_inc[TMAX + 1];
static uint64_t clock_us, clock_max_seen, start_clock;
static int closed_in, closed_out, os_calls_bound_hit;

static int tick(void) { /* index of this OS call in the schedule */
  ASSERT(t < TMAX, "BOUND: number of OS calls");
  ASSUME(t < TMAX);
  return t++;
}
static void child_step(int j) {
  if (exited) return;
  uint64_t k = sched_wr[j];
  if (k > W - written) k = W - written;
  written += k;
  if (written == W && sched_ex[j]) exited = 1;
}
static void child_next_action(void) { /* the child does the next thing it would eventually do */
  if (exited) return;
  if (written < W) written++; else exited = 1;
}
static void child_finish(void) { written = W; exited = 1; }

uint32_t STUB(gettimeofday)(uint8_t* tv, uint8_t* tz) {
  (void)tz;
  int j = tick();
  child_step(j);
  clock_us += clock_inc[j];
  if (clock_us > clock_max_seen) clock_max_seen = clock_us;
  ((uint64_t*)tv)[0] = 1000;      /* tv_sec */
  ((uint64_t*)tv)[1] = clock_us;  /* tv_usec */
  return 0;
}
struct pfd { int32_t fd; int16_t events; int16_t revents; };
static int16_t ready(struct pfd* p) {
  int16_t r = 0;
  if (p->fd == OUT_FD && !closed_out) {
    if ((p->events & POLLIN_) && written > consumed) r |= POLLIN_;
    if (exited) r |= POLLHUP_;
  }
  return r;
}
uint32_t STUB(poll)(uint8_t* fds_, uint64_t n, uint32_t timeout_ms) {
  struct pfd* fds = (struct pfd*)fds_;
  int j = tick();
  child_step(j);
  ASSERT(n <= 2, "at most two descriptors are polled");
  int cnt = 0;
  for (int i = 0; i < 2; i++) if ((uint64_t)i < n) { fds[i].revents = ready(&fds[i]); if (fds[i].revents) cnt++; }
  if (cnt == 0 && (int32_t)timeout_ms < 0) {
    /* infinite timeout: blocks until something happens; with nothing registered that can happen it blocks forever */
    int can = 0;
    for (int i = 0; i < 2; i++) if ((uint64_t)i < n && fds[i].fd == OUT_FD && !closed_out) can = 1;
    ASSERT(can, "poll(-1) can never return: deadlock");
    ASSUME(can);
    child_next_action();
    for (int i = 0; i < 2; i++) if ((uint64_t)i < n) { fds[i].revents = ready(&fds[i]); if (fds[i].revents) cnt++; }
  }
  return (uint32_t)cnt;
}
uint64_t STUB(read)(uint32_t fd, uint8_t* buf, uint64_t n) {
  int j = tick();
  child_step(j);
  ASSERT(fd == OUT_FD && !closed_out, "read on the open stdout pipe");
  uint64_t avail = written - consumed;
  if (avail == 0) {
    ASSERT(exited, "blocking read on an empty pipe whose writer is alive (poll did not report it readable)");
    return 0;
  }
  uint64_t k = sched_rd[j];
  if (k < 1) k = 1;
  if (k > avail) k = avail;
  if (k > n) k = n;
  for (uint64_t i = 0; i < WMAX; i++) if (i < k) buf[i] = data[consumed + i];
  consumed += k;
  return k;
}
uint32_t STUB(waitpid)(uint32_t pid, uint8_t* st, uint32_t options) {
  int j = tick();
  child_step(j);
  ASSERT(pid == PID, "waitpid on the child");
  if (reaped) { *(int32_t*)__errno_location_() = 10; return (uint32_t)-1; } /* ECHILD */
  if (!exited) {
    if (options & WNOHANG_) return 0;
    child_finish();
  }
  reaped = 1;
  *(uint32_t*)st = status;
  return PID;
}
uint32_t STUB(kill)(uint32_t pid, uint32_t sig) {
  ASSERT(pid == PID, "kill on the child");
  if (reaped) { *(int32_t*)__errno_location_() = 3; return (uint32_t)-1; } /* ESRCH */
  if (sig == 9 && !exited) { exited = 1; killed = 1; status = 9; W = written; }
  return 0;
}
uint32_t STUB(close)(uint32_t fd) {
  if (fd == IN_FD) { ASSERT(!closed_in, "stdin pipe closed twice"); closed_in = 1; }
  else if (fd == OUT_FD) { ASSERT(!closed_out, "stdout pipe closed twice"); closed_out = 1; }
  else ASSERT(0, "close on a descriptor that is not ours");
  return 0;
}

void harness(void) {
  uint8_t out[WMAX + 1];
  in_bytes(data, WMAX);
  W = in_range(0, WMAX);
  status = (uint32_t)in_range(0, 255) << 8; /* normal exit with any code */
  for (int j = 0; j <= TMAX; j++) {
    sched_wr[j] = (uint8_t)in_range(0, WMAX);
    sched_ex[j] = in_bool();
    sched_rd[j] = (uint8_t)in_range(1, WMAX ? WMAX : 1);
    clock_inc[j] = in_range(0, 400000);
  }
  clock_us = 0;
  int64_t st = -2;
  int64_t r = w_communicate(IN_FD, OUT_FD, PID, data, 0, TIMEOUT, out, sizeof(out), &st);
  OBS(r); OBS(st);
  if (r < 0) {
#if TIMEOUT == 0
    ASSERT(0, "communicate without a deadline returns instead of throwing");
#else
    ASSERT(clock_max_seen >= TIMEOUT, "communicate throws only when the deadline has really been reached");
#endif
  } else {
    ASSERT(exited && reaped, "the child has exited and has been reaped when communicate returns");
    ASSERT((uint64_t)r == W, "communicate returns every byte the child wrote (nothing lost at exit)");
    if ((uint64_t)r == W) for (uint64_t i = 0; i < WMAX; i++) if (i < W) ASSERT(out[i] == data[i], "communicate returns the child's bytes in order");
    ASSERT(st == (int64_t)status, "the cached wait status is the child's");
    ASSERT(closed_in, "the unused stdin pipe was closed");
  }
}
