/* C15: Subprocess::communicate, parent side, against an OS model (child automaton + pipes + clock) written here.
 *
 * Cell (concrete, one query each): EVS = the child's script, SCHED = when its events happen, IN_N = stdin payload size,
 * CAP = stdin pipe capacity, TIMEOUT (0 = no deadline, else microseconds, a multiple of 1000).
 * Symbolic inside a cell: all stdout bytes, all payload bytes, how many bytes every read()/write()/child read moves
 * (1..possible), the wait status (any exit code / terminating signal / core flag), every clock increment, and - for the
 * events marked '*' in SCHED - the OS call at which the event happens (decided by a case split inside the harness: one
 * execution of communicate per position, selected by symbolic inputs; every position gets its own, fully folded symbolic
 * execution).
 *
 * Child script EVS, executed strictly in order; OS calls of the parent that "take time" are numbered 0,1,2,.. (gettimeofday,
 * waitpid, poll, read, write); event i happens immediately before OS call number at[i] is served - or earlier when a blocking
 * call of the parent cannot return otherwise (fair child: it eventually does its next step):
 *   1..9 write that many bytes to stdout          c  close stdout
 *   r  read 1..all bytes waiting in its stdin (blocks while the pipe is empty and the parent holds the write end open)
 *   e  read stdin until end-of-file (blocks until the parent has closed the write end; consumes everything)
 *   k  close stdin                                x  exit (closes everything), wait status symbolic; always the last event
 * An event whose time has come but which blocks (r, e) delays itself and all later events.
 * Pipes: bytes written before exit/close stay readable; read() returns 1..min(requested, available), 0 at EOF (writer gone
 * and empty) and must not be called on an empty pipe with a live writer (it would block for ever: assertion). The stdin
 * pipe holds at most CAP bytes; write() moves 1..min(n, room) bytes, fails with EPIPE once the child closed its end, and
 * must not be called without room. poll() reports POLLIN (data), POLLHUP (writer gone), POLLOUT (room), POLLERR (reader
 * gone) exactly for that state; timeout -1 blocks until child steps make something ready - if the child cannot step or
 * has nothing left to do: "deadlock" assertion; timeout 0 returns at once; timeout > 0 with nothing ready lets the whole
 * timeout elapse (a child step during the wait is the same observation as that step just before the call, which the
 * schedule covers). waitpid(WNOHANG) = 0 until the exit, then the pid, once; blocking waitpid runs the child to its exit
 * (cannot: deadlock assertion). kill(SIGKILL) ends the child at once; kill on a reaped child = ESRCH.
 * Clock (deadline cells only): tv_sec is constant, tv_usec a multiple of 1 ms that stays below 1 s; any OS call may take
 * 0..3 ms (symbolic), a poll that times out additionally takes exactly its timeout. (With a microsecond clock the last
 * millisecond before the deadline is a busy loop of poll(0) calls, unbounded in any model.)
 *
 * Oracle: no deadline: communicate returns (no exception) exactly the bytes the child wrote, in order. Always: at most
 * TMAX OS calls, child reaped exactly once when the Subprocess is gone, every descriptor closed at most once, the fd members
 * are -1 exactly for closed descriptors, the stdin write end is closed before the next OS call once the payload is
 * delivered (or once the write failed) and also when there is no payload; the child receives a prefix of the payload and
 * all of it if it reads to EOF; the cached status is the model's. With a deadline: an exception is allowed only after
 * gettimeofday returned a value >= first value + TIMEOUT, and only with the child SIGKILLed; after that observation the
 * parent asks for the time at most once more. */
#include "harness.h"
#include "env_msg.h"
#ifndef VERIF_NATIVE_REAL
/* generated C only (spec: cuts): message-text helpers, see NOTES.md. Exception TEXT is not part of the claim. */
void X__ZN5phosg8io_errorC1Ei(uint8_t* self, uint32_t fd) { (void)self; (void)fd; }
void X__ZN5phosg16string_for_errorB5cxx11Ei(uint8_t* sret, uint32_t err) { (void)err; *(uint8_t**)sret = sret + 16; *(uint64_t*)(sret + 8) = 0; sret[16] = 0; }
#endif
int64_t w_communicate(uint32_t stdin_fd, uint32_t stdout_fd, uint32_t pid, uint8_t* in, uint64_t in_n, uint64_t timeout_usecs,
    uint8_t* out, uint64_t cap, int64_t* st);

#ifdef VERIF_NATIVE_REAL
int* __errno_location(void);
#define SET_ERRNO(v) (*__errno_location() = (v))
#else
uint8_t* X___errno_location(void);
#define SET_ERRNO(v) (*(int32_t*)X___errno_location() = (v))
#endif
#define IN_FD 7
#define OUT_FD 8
#define PID 1234
#define POLLIN_ 1
#define POLLOUT_ 4
#define POLLERR_ 8
#define POLLHUP_ 16
#define WNOHANG_ 1
#define CLOCK_UNIT 1000u
#ifndef IN_N
#define IN_N 0
#endif
#ifndef TIMEOUT
#define TIMEOUT 0
#endif
#ifndef EVS
#define EVS "1x"
#endif
#ifndef SCHED
#define SCHED "00"
#endif
#ifndef CAP
#define CAP (IN_N ? IN_N : 1) /* stdin pipe capacity in bytes */
#endif
#ifndef TMAX
#define TMAX 16
#endif
#ifndef WMAX
#define WMAX 3
#endif
#define NEV ((int)sizeof(EVS) - 1)
#define MAXEV 5
static const char evs[] = EVS;
static const char sched[] = SCHED; /* char i: OS call index (base 36) of event i, or '*' = every position (case split) */

static uint8_t data[WMAX + 1], payload[IN_N + 1], got_in[IN_N + 1];
static uint64_t cum[MAXEV + 1];    /* stdout bytes written once event i has happened */
static uint64_t W;                 /* stdout bytes of the whole script */
static int at[MAXEV + 1], due_[MAXEV + 1];
static int next_ev;                /* child program counter */
static uint64_t written, consumed; /* stdout pipe */
static uint64_t delivered, child_read; /* stdin pipe */
static int out_writer_open, in_reader_open, exited, reaped, killed, reap_count, write_failed;
static uint32_t status, status_in;
static int t; /* OS call counter */
static uint8_t mv2[TMAX + 1], mv3[TMAX + 1]; /* per OS call: move a 2nd / a 3rd byte if possible */
static uint8_t clk_inc[TMAX + 1];
static uint64_t clock0, clock_us, first_clock;
static int clock_read, late_reads;
static int closed_in, closed_out, kill9_calls;

static void model_reset(void) {
  next_ev = 0; written = consumed = 0; delivered = child_read = 0;
  out_writer_open = 1; in_reader_open = 1; exited = reaped = killed = reap_count = write_failed = 0;
  status = status_in; t = 0; clock_us = clock0; first_clock = 0; clock_read = late_reads = 0; closed_in = closed_out = kill9_calls = 0;
  for (int i = 0; i < IN_N; i++) got_in[i] = 0;
}
static int tick(void) {
  ASSERT(t < TMAX, "BOUND: number of OS calls (no livelock inside the bound)");
  ASSUME(t < TMAX);
  if (!closed_in && IN_N > 0 && (delivered == IN_N || write_failed)) ASSERT(0, "the stdin write end is closed as soon as the payload is delivered or the write failed");
  if (TIMEOUT) clock_us += (uint64_t)clk_inc[t] * CLOCK_UNIT;
  return t++;
}
/* how many bytes one read()/write() moves: 1, 2 or 3 (solver's choice per OS call), never more than `lim` */
static uint64_t moved(int j, uint64_t lim) {
  uint64_t k = 1;
  if (lim >= 2 && mv2[j]) k = 2;
  if (lim >= 3 && k == 2 && mv3[j]) k = 3;
  return k;
}
/* the child tries its next event; 1 = done (program counter advanced), 0 = nothing left / blocked. A blocked `e` still
 * consumes what is in its stdin pipe. */
static int child_try(int j) {
  if (exited || next_ev >= NEV) return 0;
  char k = evs[next_ev];
  if (k >= '1' && k <= '9') { written = cum[next_ev]; }
  else if (k == 'c') { out_writer_open = 0; }
  else if (k == 'k') { in_reader_open = 0; }
  else if (k == 'r') {
    if (delivered > child_read) child_read += moved(j, delivered - child_read);
    else if (!closed_in) return 0;
  }
  else if (k == 'e') { child_read = delivered; if (!closed_in) return 0; }
  else { exited = 1; out_writer_open = 0; in_reader_open = 0; }
  next_ev++;
  return 1;
}
static void child_run(int j) { /* events scheduled for OS call j or earlier happen now (and with them every earlier event) */
  int due = 0;
  for (int i = MAXEV - 1; i >= 0; i--) { if (i < NEV && at[i] <= j) due = 1; due_[i] = due; }
  for (int i = 0; i < MAXEV; i++)
    if (i < NEV && i == next_ev && due_[i]) child_try(j);
}

uint32_t STUB(gettimeofday)(uint8_t* tv, uint8_t* tz) {
  (void)tz;
  ASSERT(!reaped, "the clock is not consulted for a child that has been reaped");
  ASSUME(!reaped);
  ASSERT(late_reads < 2, "after seeing the deadline passed the parent reads the clock at most once more");
  ASSUME(late_reads < 2);
  int j = tick();
  child_run(j);
  ASSUME(clock_us < 1000000u);
  if (!clock_read) { clock_read = 1; first_clock = clock_us; }
  if (TIMEOUT && clock_us >= first_clock + TIMEOUT) late_reads++;
  ((uint64_t*)tv)[0] = 1000;      /* tv_sec */
  ((uint64_t*)tv)[1] = clock_us;  /* tv_usec */
  return 0;
}
struct pfd { int32_t fd; int16_t events; int16_t revents; };
static int16_t ready(int32_t fd, int16_t events) {
  int16_t r = 0;
  if (fd == OUT_FD && !closed_out) {
    if ((events & POLLIN_) && written > consumed) r |= POLLIN_;
    if (!out_writer_open) r |= POLLHUP_;
  }
  if (fd == IN_FD && !closed_in) {
    if ((events & POLLOUT_) && in_reader_open && delivered - child_read < CAP) r |= POLLOUT_;
    if (!in_reader_open) r |= POLLERR_;
  }
  return r;
}
static int poll_scan(struct pfd* fds, uint64_t n) {
  int cnt = 0;
  for (int i = 0; i < 2; i++) if ((uint64_t)i < n) {
    ASSERT((fds[i].fd == OUT_FD && !closed_out) || (fds[i].fd == IN_FD && !closed_in), "poll only on open descriptors of this Subprocess");
    fds[i].revents = ready(fds[i].fd, fds[i].events);
    if (fds[i].revents) cnt++;
  }
  return cnt;
}
uint32_t STUB(poll)(uint8_t* fds_, uint64_t n, uint32_t timeout_ms) {
  struct pfd* fds = (struct pfd*)fds_;
  ASSERT(!(reaped && timeout_ms != 0), "no waiting poll for a child that has been reaped");
  ASSUME(!(reaped && timeout_ms != 0));
#if TIMEOUT
  ASSERT((int32_t)timeout_ms >= 0 && (uint64_t)timeout_ms * 1000u <= TIMEOUT, "with a deadline poll never waits longer than the timeout");
  ASSUME((int32_t)timeout_ms >= 0 && (uint64_t)timeout_ms * 1000u <= TIMEOUT);
#else
  ASSERT(timeout_ms == 0 || timeout_ms == (uint32_t)-1, "without a deadline poll blocks or does not wait at all");
  ASSUME(timeout_ms == 0 || timeout_ms == (uint32_t)-1);
#endif
  int j = tick();
  child_run(j);
  ASSERT(n <= 2, "at most two descriptors are polled");
  int cnt = poll_scan(fds, n);
  if (cnt == 0 && (int32_t)timeout_ms < 0) {
    /* blocks until child steps make something ready */
    for (int i = 0; i <= MAXEV; i++) if (cnt == 0) { child_try(j); cnt = poll_scan(fds, n); }
    ASSERT(cnt != 0, "poll(-1) can never return: deadlock");
    ASSUME(cnt != 0);
  } else if (cnt == 0 && timeout_ms > 0) {
    clock_us += (uint64_t)timeout_ms * 1000u; /* the whole timeout elapses */
  }
  return (uint32_t)cnt;
}
uint64_t STUB(read)(uint32_t fd, uint8_t* buf, uint64_t n) {
  int j = tick();
  child_run(j);
  ASSERT(fd == OUT_FD && !closed_out, "read on the open stdout pipe");
  uint64_t avail = written - consumed;
  if (avail == 0) {
    ASSERT(!out_writer_open, "blocking read on an empty pipe whose writer is alive");
    ASSUME(!out_writer_open);
    return 0;
  }
  uint64_t k = moved(j, avail < n ? avail : n);
  for (uint64_t i = 0; i < WMAX; i++) if (i < k) buf[i] = data[consumed + i];
  consumed += k;
  return k;
}
uint64_t STUB(write)(uint32_t fd, uint8_t* buf, uint64_t n) {
  int j = tick();
  child_run(j);
  ASSERT(fd == IN_FD && !closed_in, "write on the open stdin pipe");
  ASSERT(n >= 1 && n == IN_N - delivered, "write passes the undelivered rest of the payload");
  ASSUME(n >= 1 && n == IN_N - delivered);
  if (!in_reader_open) { write_failed = 1; SET_ERRNO(32); return (uint64_t)-1; } /* EPIPE */
  uint64_t room = CAP - (delivered - child_read);
  ASSERT(room > 0, "blocking write on a full pipe (poll did not report it writable)");
  ASSUME(room > 0);
  uint64_t k = moved(j, room < n ? room : n);
  for (uint64_t i = 0; i < IN_N; i++) if (i < k) got_in[delivered + i] = buf[i];
  delivered += k;
  return k;
}
uint32_t STUB(waitpid)(uint32_t pid, uint8_t* st, uint32_t options) {
  ASSERT(!reaped, "waitpid on a child that was already reaped");
  ASSUME(!reaped);
  int j = tick();
  child_run(j);
  ASSERT(pid == PID, "waitpid on the child");
  if (!exited) {
    if (options & WNOHANG_) return 0;
    for (int i = 0; i < MAXEV; i++) if (!exited) child_try(j);
    ASSERT(exited, "blocking waitpid can never return: deadlock");
    ASSUME(exited);
  }
  reaped = 1; reap_count++;
  *(uint32_t*)st = status;
  return PID;
}
uint32_t STUB(kill)(uint32_t pid, uint32_t sig) {
  ASSERT(pid == PID, "kill on the child");
  if (reaped) { SET_ERRNO(3); return (uint32_t)-1; } /* ESRCH */
  if (sig == 9) kill9_calls++;
  if (sig == 9 && !exited) { exited = 1; killed = 1; status = 9; out_writer_open = 0; in_reader_open = 0; }
  return 0;
}
uint32_t STUB(close)(uint32_t fd) {
  if (fd == IN_FD) { ASSERT(!closed_in, "stdin pipe closed twice"); closed_in = 1; }
  else if (fd == OUT_FD) { ASSERT(!closed_out, "stdout pipe closed twice"); closed_out = 1; }
  else ASSERT(0, "close on a descriptor that is not ours");
  return 0;
}

static int b36(char c) { return c <= '9' ? c - '0' : c - 'a' + 10; }

static void run_case(void) {
  uint8_t out[WMAX + 1];
  int64_t st[3] = {-2, -2, -2};
  model_reset();
  int64_t r = w_communicate(IN_FD, OUT_FD, PID, payload, IN_N, TIMEOUT, out, sizeof(out), st);
  OBS(r); OBS(st[0]); OBS(st[1]); OBS(st[2]); OBS(t);
  ASSERT(reap_count == 1 && reaped, "the child has been reaped exactly once when the Subprocess is gone");
  ASSERT((st[1] == -1) == (closed_in != 0) && (st[1] == -1 || st[1] == IN_FD), "stdin_write_fd is -1 exactly when that descriptor was closed");
  ASSERT((st[2] == -1) == (closed_out != 0) && (st[2] == -1 || st[2] == OUT_FD), "stdout_read_fd is -1 exactly when that descriptor was closed");
  if (IN_N == 0) ASSERT(closed_in, "the unused stdin pipe was closed");
  if (delivered == IN_N || write_failed) ASSERT(closed_in, "stdin closed after complete delivery / failed write");
  ASSERT(child_read <= delivered && delivered <= IN_N, "the child reads what was delivered");
  for (uint64_t i = 0; i < IN_N; i++) if (i < delivered) ASSERT(got_in[i] == payload[i], "the child receives the payload bytes in order");
  if (r < 0) {
#if TIMEOUT == 0
    ASSERT(0, "communicate without a deadline returns instead of throwing");
#else
    ASSERT(r == -5, "only runtime_error is thrown");
    ASSERT(late_reads > 0, "communicate throws only after the clock was seen at or past the deadline");
    ASSERT(kill9_calls == 1, "a timed-out child has been sent SIGKILL (once)");
    ASSERT(killed || next_ev == NEV, "a child that was not killed ran its whole script");
#endif
  } else {
    ASSERT(exited && !killed, "communicate returns normally only after the child exited by itself");
    ASSERT(next_ev == NEV, "the child ran its whole script");
    for (int i = 0; i < NEV; i++) if (evs[i] == 'e') ASSERT(child_read == IN_N && delivered == IN_N, "a child that reads its stdin to EOF got the whole payload");
    ASSERT((uint64_t)r == W, "communicate returns every byte the child wrote (nothing lost at exit)");
    if ((uint64_t)r == W) for (uint64_t i = 0; i < WMAX; i++) if (i < W) ASSERT(out[i] == data[i], "communicate returns the child's bytes in order");
    ASSERT(st[0] == (int64_t)status, "the cached wait status is the child's");
  }
}

void harness(void) {
  int lo[MAXEV], hi[MAXEV], sel[MAXEV];
  in_bytes(data, WMAX);
  in_bytes(payload, IN_N);
  status_in = (uint32_t)in_range(0, 0xFFFF);
  ASSUME((status_in & 0x7F) != 0x7F);                        /* not "stopped" */
  ASSUME((status_in & 0x7F) == 0 || (status_in >> 8) == 0);  /* exit code, or terminating signal (+ core flag) */
  W = 0;
  for (int i = 0; i < MAXEV; i++) {
    if (i < NEV && evs[i] >= '1' && evs[i] <= '9') W += (uint64_t)(evs[i] - '0');
    cum[i] = W;
  }
  ASSERT(W <= WMAX && NEV <= MAXEV && NEV >= 1 && evs[NEV - 1] == 'x', "BOUND: script shape");
  for (int j = 0; j <= TMAX; j++) {
    mv2[j] = in_bool(); mv3[j] = in_bool();
    clk_inc[j] = TIMEOUT ? (uint8_t)in_range(0, 3) : 0;
  }
  clock0 = TIMEOUT ? (uint64_t)in_range(0, 5) * CLOCK_UNIT : 0;
  /* schedule: concrete positions from SCHED; a '*' position ranges over [previous event's position, next concrete position
   * (or TMAX)] and is chosen by a symbolic selector; every choice is executed separately below */
  for (int i = 0; i < MAXEV; i++) {
    if (i < NEV && sched[i] != '*') { lo[i] = hi[i] = b36(sched[i]); sel[i] = lo[i]; }
    else if (i < NEV) { lo[i] = 0; hi[i] = TMAX; sel[i] = (int)in_range(0, TMAX); }
    else { lo[i] = hi[i] = sel[i] = 0; }
  }
  for (int i = MAXEV - 2; i >= 0; i--) if (i + 1 < NEV && hi[i] > hi[i + 1]) hi[i] = hi[i + 1];
  for (int i = 1; i < MAXEV; i++) if (i < NEV && lo[i] < lo[i - 1]) lo[i] = lo[i - 1];
  int ran = 0;
  for (int a0 = 0; a0 <= TMAX; a0++) if (a0 >= lo[0] && a0 <= hi[0])
    for (int a1 = 0; a1 <= TMAX; a1++) if (a1 >= lo[1] && a1 <= hi[1] && (NEV < 2 || a1 >= a0))
      for (int a2 = 0; a2 <= TMAX; a2++) if (a2 >= lo[2] && a2 <= hi[2] && (NEV < 3 || a2 >= a1))
        for (int a3 = 0; a3 <= TMAX; a3++) if (a3 >= lo[3] && a3 <= hi[3] && (NEV < 4 || a3 >= a2))
          for (int a4 = 0; a4 <= TMAX; a4++) if (a4 >= lo[4] && a4 <= hi[4] && (NEV < 5 || a4 >= a3))
            if (sel[0] == a0 && sel[1] == a1 && sel[2] == a2 && sel[3] == a3 && sel[4] == a4) {
              at[0] = a0; at[1] = a1; at[2] = a2; at[3] = a3; at[4] = a4;
              run_case();
              ran = 1;
            }
  ASSUME(ran);
}
