/* C15: Subprocess::communicate, parent side, against an OS model (child automaton + pipes + clock) written here.
 *
 * Cell (concrete, one query each): EVS = the child's script, SCHED = when its events happen, IN_N = stdin payload size,
 * CAP = stdin pipe capacity, TIMEOUT (0 = no deadline, else microseconds, a multiple of 1000), MVR/MVW/MVC = how many bytes
 * every read()/write()/child read moves when it could move more than one (every possibility is a cell of its own).
 * Symbolic inside a cell: all stdout bytes, all payload bytes, the wait status (any exit code / terminating signal / core flag) and every clock value.
 * SCHED gives the position of every event (one base-36 digit per event, see below). LATE marks events ('1') whose
 * position means "at this OS call OR ANY LATER ONE": such an event is never triggered by the schedule, and the query
 * asserts that it nevertheless has happened by the end of that OS call (because a blocking call of the parent forced it),
 * or that the parent made no OS call with that index any more (child killed at the deadline); all later positions then
 * give literally the same run, so one query decides them all.
 *
 * Child script EVS, executed strictly in order; OS calls of the parent that "take time" are numbered 0,1,2,.. (gettimeofday,
 * waitpid, poll, read, write); event i happens immediately before OS call number at[i] is served - or earlier when a blocking
 * call of the parent cannot return otherwise (fair child: it eventually does its next step):
 *   1..9 write that many bytes to stdout          c  close stdout
 *   r  read 1..all bytes waiting in its stdin (blocks while the pipe is empty and the parent holds the write end open)
 *   e  read stdin until end-of-file (blocks until the parent has closed the write end; consumes everything)
 *   k  close stdin                                x  exit (closes everything), wait status symbolic; always the last event
 * An event whose time has come but which blocks (r, e) delays itself and all later events.
 * Pipes: bytes written before exit/close stay readable; read() returns 1..min(requested, available), 0 at EOF (writer gone
 * and empty) and must not be called on an empty pipe with a live writer (it would block for ever: assertion). The stdin
 * pipe holds at most CAP bytes; write() moves 1..min(n, room) bytes (the behaviour of a non-blocking descriptor, or of a
 * blocking one interrupted by a signal), fails with EPIPE once the child closed its end, and must not be called without
 * room. Cells with WBLOCK=1 use the POSIX semantics of a blocking descriptor instead: write() returns only when all n bytes
 * are in the pipe, sleeping while it is full (only the child can make room; it cannot: "deadlock" assertion) - unless the
 * code under test has switched the descriptor to O_NONBLOCK (fcntl is modelled), then EAGAIN when full. OCAP bounds the
 * stdout pipe: a child write blocks while its chunk does not fit. poll() reports POLLIN (data), POLLHUP (writer gone), POLLOUT (room), POLLERR (reader
 * gone) exactly for that state; timeout -1 blocks until child steps make something ready - if the child cannot step or
 * has nothing left to do: "deadlock" assertion; timeout 0 returns at once; timeout > 0 with nothing ready lets the whole
 * timeout elapse (a child step during the wait is the same observation as that step just before the call, which the
 * schedule covers). waitpid(WNOHANG) = 0 until the exit, then the pid, once; blocking waitpid runs the child to its exit
 * (cannot: deadlock assertion). kill(SIGKILL) ends the child at once; kill on a reaped child = ESRCH.
 * Clock (deadline cells only): the first gettimeofday returns a fixed value, every later one a fresh symbolic value (tv_sec
 * constant, at most 10 ms past the deadline), non-decreasing; the cell fixes FL = the index of the first clock read that is at or past the deadline (= first value +
 * TIMEOUT): reads before FL return values at least 1 ms before the deadline, reads from FL on values >= deadline. (Without
 * the 1 ms margin the parent's last millisecond is a busy loop of poll(0) calls of unbounded length.) A poll with nothing
 * ready waits its whole timeout, so the next clock read must be at or past the deadline (a cell whose FL contradicts this
 * is reported as a bound failure, not silently skipped). The model also checks the parent's arithmetic: before the
 * deadline it passes a timeout of at least 1 ms and never more than TIMEOUT, after it a timeout of 0.
 *
 * Oracle: no deadline: communicate returns (no exception) exactly the bytes the child wrote, in order. Always: at most
 * TMAX OS calls, child reaped exactly once when the Subprocess is gone, every descriptor closed at most once, the fd members
 * are -1 exactly for closed descriptors, the stdin write end is closed before the next OS call once the payload is
 * delivered (or once the write failed) and also when there is no payload; the child receives a prefix of the payload and
 * all of it if it reads to EOF; the cached status is the model's. With a deadline: an exception is allowed only after
 * gettimeofday returned a value >= first value + TIMEOUT, and only with the child SIGKILLed; after that observation the
 * parent asks for the time at most once more. */
#include "harness.h"
#include "env_msg.h"
#ifndef VERIF_NATIVE_REAL
/* generated C only (spec: cuts): message-text helpers, see NOTES.md. Exception TEXT is not part of the claim. */
void X__ZN5phosg8io_errorC1Ei(uint8_t* self, uint32_t fd) { (void)self; (void)fd; }
void X__ZN5phosg16string_for_errorB5cxx11Ei(uint8_t* sret, uint32_t err) { (void)err; *(uint8_t**)sret = sret + 16; *(uint64_t*)(sret + 8) = 0; sret[16] = 0; }
#endif
int64_t w_communicate(uint32_t stdin_fd, uint32_t stdout_fd, uint32_t pid, uint8_t* in, uint64_t in_n, uint64_t timeout_usecs,
    uint8_t* out, uint64_t cap, int64_t* st);

#ifdef VERIF_NATIVE_REAL
int* __errno_location(void);
#define SET_ERRNO(v) (*__errno_location() = (v))
#else
uint8_t* X___errno_location(void);
#define SET_ERRNO(v) (*(int32_t*)X___errno_location() = (v))
#endif
#define IN_FD 7
#define OUT_FD 8
#define PID 1234
#define POLLIN_ 1
#define POLLOUT_ 4
#define POLLERR_ 8
#define POLLHUP_ 16
#define WNOHANG_ 1
#ifndef IN_N
#define IN_N 0
#endif
#ifndef TIMEOUT
#define TIMEOUT 0
#endif
#ifndef EVS
#define EVS "1x"
#endif
#ifndef SCHED
#define SCHED "00"
#endif
#ifndef CAP
#define CAP (IN_N ? IN_N : 1) /* stdin pipe capacity in bytes */
#endif
#ifndef OCAP
#define OCAP 99 /* stdout pipe capacity in bytes (99 = never full): a child write blocks while the chunk does not fit */
#endif
#ifndef WBLOCK
#define WBLOCK 0 /* 1: write() on a descriptor without O_NONBLOCK returns only when ALL bytes are in the pipe (POSIX blocking write) */
#endif
#ifndef TMAX
#define TMAX 16
#endif
#ifndef WMAX
#define WMAX 3
#endif
#define NEV ((int)sizeof(EVS) - 1)
#define MAXEV 5
static const char evs[] = EVS;
#ifndef LATE
#define LATE "00000"
#endif
static const char sched[] = SCHED; /* char i: OS call index (base 36) of event i */
static const char late_s[] = LATE; /* char i: '1' = "that OS call or any later one" */

static uint8_t data[WMAX + 1], payload[IN_N + 1], got_in[IN_N + 1];
static uint64_t cum[MAXEV + 1];    /* stdout bytes written once event i has happened */
static uint64_t W;                 /* stdout bytes of the whole script */
static int at[MAXEV + 1], due_[MAXEV + 1], late[MAXEV + 1], fired_at[MAXEV + 1];
static int next_ev;                /* child program counter */
static uint64_t written, consumed; /* stdout pipe */
static uint64_t delivered, child_read; /* stdin pipe */
static int out_writer_open, in_reader_open, exited, reaped, killed, reap_count, write_failed;
static uint32_t status, status_in;
static int t; /* OS call counter */
/* How many bytes a read()/write()/child read moves when more than one could move ("choice point"): concrete per cell.
 * MVR / MVW / MVC (parent's reads of stdout, parent's writes to stdin, child's reads of stdin) list the amount for the
 * 1st, 2nd.. choice point of that kind; LIMR / LIMW / LIMC the number of bytes that could have moved there. The cell list
 * contains, for every schedule, the complete tree of amounts 1..lim (checked in spec.py); the query asserts that the run
 * has exactly these choice points with exactly these limits. */
#ifndef MVR
#define MVR ""
#define LIMR ""
#endif
#ifndef MVW
#define MVW ""
#define LIMW ""
#endif
#ifndef MVC
#define MVC ""
#define LIMC ""
#endif
static const char mv_plan[3][8] = {MVR, MVW, MVC}, mv_lim[3][8] = {LIMR, LIMW, LIMC};
static int mv_used[3], mv_bad;
static uint8_t mv_limseen[3][4];
#ifdef SCHED_FROM_INPUT
static uint8_t mv_in[3][4];
#endif
#ifndef FL
#define FL 99 /* index of the first clock read that sees the deadline passed */
#endif
#define NCLK 12
#ifndef CLK0
#define CLK0 5000u /* tv_usec of the first clock read */
#endif
static uint64_t clk_val[NCLK], first_clock, last_clock;
static int clock_reads, late_reads, last_read_late, must_be_late, first_late;
static int closed_in, closed_out, kill9_calls, nonblock_in;

static void model_reset(void) {
  next_ev = 0; written = consumed = 0; delivered = child_read = 0;
  out_writer_open = 1; in_reader_open = 1; exited = reaped = killed = reap_count = write_failed = 0;
  status = status_in; t = 0; first_clock = last_clock = 0; clock_reads = late_reads = last_read_late = must_be_late = 0; closed_in = closed_out = kill9_calls = nonblock_in = 0;
  mv_used[0] = mv_used[1] = mv_used[2] = mv_bad = 0;
  for (int k = 0; k < 3; k++) for (int i = 0; i < 4; i++) mv_limseen[k][i] = 0;
  for (int i = 0; i < IN_N; i++) got_in[i] = 0;
  for (int i = 0; i < MAXEV; i++) fired_at[i] = TMAX + 1;
}
static int tick(void) {
  ASSERT(t < TMAX, "BOUND: number of OS calls (no livelock inside the bound)");
  ASSUME(t < TMAX);
  if (!closed_in && IN_N > 0 && (delivered == IN_N || write_failed)) ASSERT(0, "the stdin write end is closed as soon as the payload is delivered or the write failed");
  return t++;
}
/* how many bytes one read()/write()/child read moves; lim = how many could move */
static uint64_t moved(int kind, uint64_t lim) {
  if (lim < 2) return 1;
  int k = mv_used[kind]++;
  if (k < 4) mv_limseen[kind][k] = (uint8_t)lim;
#ifdef SCHED_FROM_INPUT
  uint64_t d = k < 4 ? mv_in[kind][k] : 1;
  if (d < 1) d = 1;
  if (d > lim) d = lim;
  return d;
#else
  if (k >= (int)sizeof(mv_plan[kind]) - 1 || mv_plan[kind][k] == 0) { mv_bad = 1; return 1; }
  uint64_t d = (uint64_t)(mv_plan[kind][k] - '0');
  if (d < 1 || d > lim || (uint64_t)(mv_lim[kind][k] - '0') != lim) { mv_bad = 1; return 1; }
  return d;
#endif
}
/* the child tries its next event; 1 = done (program counter advanced), 0 = nothing left / blocked. A blocked `e` still
 * consumes what is in its stdin pipe. */
static int child_try(int j) {
  if (exited || next_ev >= NEV) return 0;
  char k = evs[next_ev];
  if (k >= '1' && k <= '9') { if (cum[next_ev] - consumed > OCAP) return 0; written = cum[next_ev]; }
  else if (k == 'c') { out_writer_open = 0; }
  else if (k == 'k') { in_reader_open = 0; }
  else if (k == 'r') {
    if (delivered > child_read) child_read += moved(2, delivered - child_read);
    else if (!closed_in) return 0;
  }
  else if (k == 'e') { child_read = delivered; if (!closed_in) return 0; }
  else { exited = 1; out_writer_open = 0; in_reader_open = 0; }
  fired_at[next_ev] = j;
  next_ev++;
  return 1;
}
static void child_run(int j) { /* events scheduled for OS call j or earlier happen now (and with them every earlier event) */
  int due = 0;
  for (int i = MAXEV - 1; i >= 0; i--) { if (i < NEV && !late[i] && at[i] <= j) due = 1; due_[i] = due; }
  for (int i = 0; i < MAXEV; i++)
    if (i < NEV && i == next_ev && due_[i]) child_try(j);
}

uint32_t STUB(gettimeofday)(uint8_t* tv, uint8_t* tz) {
  (void)tz;
  ASSERT(TIMEOUT != 0, "without a deadline the clock is not consulted");
  ASSERT(!reaped, "the clock is not consulted for a child that has been reaped");
  ASSUME(!reaped);
  ASSERT(late_reads < 2, "after seeing the deadline passed the parent reads the clock at most once more");
  ASSUME(late_reads < 2);
  int j = tick();
  child_run(j);
  int k = clock_reads++;
  ASSERT(k < NCLK, "BOUND: number of clock reads");
  ASSUME(k < NCLK);
  int is_late = k >= first_late;
  uint64_t v;
  if (k == 0) { ASSERT(!is_late, "BOUND: the first clock read defines the deadline, it cannot be late"); v = first_clock = clk_val[0]; }
  else if (is_late) v = first_clock + TIMEOUT + clk_val[k];
  else { ASSUME(clk_val[k] + 1000u <= TIMEOUT); v = first_clock + clk_val[k]; }
  ASSERT(!(must_be_late && !is_late), "BOUND: FL inconsistent - a poll waited its whole timeout, the next clock value is at or past the deadline");
  ASSUME(!(must_be_late && !is_late));
  ASSUME(v >= last_clock);
  last_clock = v;
  last_read_late = is_late;
  if (is_late) late_reads++;
  ((uint64_t*)tv)[0] = 1000; /* tv_sec */
  ((uint64_t*)tv)[1] = v;    /* tv_usec */
  return 0;
}
struct pfd { int32_t fd; int16_t events; int16_t revents; };
static int16_t ready(int32_t fd, int16_t events) {
  int16_t r = 0;
  if (fd == OUT_FD && !closed_out) {
    if ((events & POLLIN_) && written > consumed) r |= POLLIN_;
    if (!out_writer_open) r |= POLLHUP_;
  }
  if (fd == IN_FD && !closed_in) {
    if ((events & POLLOUT_) && delivered - child_read < CAP) r |= POLLOUT_; /* Linux: also while the reader is gone */
    if (!in_reader_open) r |= POLLERR_;
  }
  return r;
}
static int poll_scan(struct pfd* fds, uint64_t n) {
  int cnt = 0;
  for (int i = 0; i < 2; i++) if ((uint64_t)i < n) {
    ASSERT((fds[i].fd == OUT_FD && !closed_out) || (fds[i].fd == IN_FD && !closed_in), "poll only on open descriptors of this Subprocess");
    fds[i].revents = ready(fds[i].fd, fds[i].events);
    if (fds[i].revents) cnt++;
  }
  return cnt;
}
uint32_t STUB(poll)(uint8_t* fds_, uint64_t n, uint32_t timeout_ms) {
  struct pfd* fds = (struct pfd*)fds_;
  ASSERT(!(reaped && timeout_ms != 0), "no waiting poll for a child that has been reaped");
  ASSUME(!(reaped && timeout_ms != 0));
#if TIMEOUT
  ASSERT(kill9_calls || late_reads < 2, "after seeing the deadline passed twice the parent does not poll again");
  ASSUME(kill9_calls || late_reads < 2);
  if (!reaped) {
    if (last_read_late) ASSERT(timeout_ms == 0, "at or past the deadline poll does not wait");
    else ASSERT((int32_t)timeout_ms >= 1 && (uint64_t)timeout_ms * 1000u <= TIMEOUT, "before the deadline poll waits at least 1 ms and at most the timeout");
  }
#else
  ASSERT(timeout_ms == 0 || timeout_ms == (uint32_t)-1, "without a deadline poll blocks or does not wait at all");
  ASSUME(timeout_ms == 0 || timeout_ms == (uint32_t)-1);
#endif
  int j = tick();
  child_run(j);
  ASSERT(n <= 2, "at most two descriptors are polled");
  int cnt = poll_scan(fds, n);
#if TIMEOUT
  if (cnt == 0 && !reaped && !last_read_late) must_be_late = 1; /* the whole timeout elapses */
#else
  if (cnt == 0 && (int32_t)timeout_ms < 0) {
    /* blocks until child steps make something ready */
    for (int i = 0; i <= MAXEV; i++) if (cnt == 0) { child_try(j); cnt = poll_scan(fds, n); }
    ASSERT(cnt != 0, "poll(-1) can never return: deadlock");
    ASSUME(cnt != 0);
  }
#endif
  return (uint32_t)cnt;
}
uint64_t STUB(read)(uint32_t fd, uint8_t* buf, uint64_t n) {
  int j = tick();
  child_run(j);
  ASSERT(fd == OUT_FD && !closed_out, "read on the open stdout pipe");
  uint64_t avail = written - consumed;
  if (avail == 0) {
    ASSERT(!out_writer_open, "blocking read on an empty pipe whose writer is alive");
    ASSUME(!out_writer_open);
    return 0;
  }
  uint64_t k = moved(0, avail < n ? avail : n);
  for (uint64_t i = 0; i < WMAX; i++) if (i < k) buf[i] = data[consumed + i];
  consumed += k;
  return k;
}
uint64_t STUB(write)(uint32_t fd, uint8_t* buf, uint64_t n) {
  int j = tick();
  child_run(j);
  ASSERT(fd == IN_FD && !closed_in, "write on the open stdin pipe");
  ASSERT(n >= 1 && n == IN_N - delivered, "write passes the undelivered rest of the payload");
  ASSUME(n >= 1 && n == IN_N - delivered);
  if (!in_reader_open) { write_failed = 1; SET_ERRNO(32); return (uint64_t)-1; } /* EPIPE */
  uint64_t room = CAP - (delivered - child_read);
  if (WBLOCK && !nonblock_in) {
    /* POSIX blocking write: returns when all n bytes are in the pipe; while the pipe is full the call sleeps and only the
     * child can make room */
    uint64_t done = 0;
    for (int round = 0; round <= IN_N + MAXEV; round++) if (done < n) {
      room = CAP - (delivered - child_read);
      if (room == 0) {
        int moved_on = child_try(j);
        if (!in_reader_open) { write_failed = 1; SET_ERRNO(32); return (uint64_t)-1; }
        room = CAP - (delivered - child_read);
        ASSERT(moved_on || room > 0, "write() on the blocking stdin descriptor can never complete: deadlock");
        ASSUME(moved_on || room > 0);
      }
      uint64_t k = room < n - done ? room : n - done;
      for (uint64_t i = 0; i < IN_N; i++) if (i < k) got_in[delivered + i] = buf[done + i];
      delivered += k; done += k;
    }
    ASSERT(done == n, "BOUND: rounds of the blocking write");
    ASSUME(done == n);
    return n;
  }
  if (room == 0) {
    ASSERT(nonblock_in, "blocking write on a full pipe (poll did not report it writable)");
    ASSUME(nonblock_in);
    SET_ERRNO(11); /* EAGAIN */
    return (uint64_t)-1;
  }
  uint64_t k = moved(1, room < n ? room : n);
  for (uint64_t i = 0; i < IN_N; i++) if (i < k) got_in[delivered + i] = buf[i];
  delivered += k;
  return k;
}
uint32_t STUB(waitpid)(uint32_t pid, uint8_t* st, uint32_t options) {
  ASSERT(!reaped, "waitpid on a child that was already reaped");
  ASSUME(!reaped);
  ASSERT(kill9_calls || late_reads < 2, "after seeing the deadline passed twice the parent kills the child before waiting again");
  ASSUME(kill9_calls || late_reads < 2);
  int j = tick();
  child_run(j);
  ASSERT(pid == PID, "waitpid on the child");
  if (!exited) {
    if (options & WNOHANG_) return 0;
    for (int i = 0; i < MAXEV; i++) if (!exited) child_try(j);
    ASSERT(exited, "blocking waitpid can never return: deadlock");
    ASSUME(exited);
  }
  reaped = 1; reap_count++;
  *(uint32_t*)st = status;
  return PID;
}
uint32_t STUB(kill)(uint32_t pid, uint32_t sig) {
  ASSERT(pid == PID, "kill on the child");
  ASSERT(late_reads > 0, "the child is killed only after the clock was seen at or past the deadline");
  ASSUME(late_reads > 0);
  if (reaped) { SET_ERRNO(3); return (uint32_t)-1; } /* ESRCH */
  if (sig == 9) kill9_calls++;
  if (sig == 9 && !exited) { exited = 1; killed = 1; status = 9; out_writer_open = 0; in_reader_open = 0; }
  return 0;
}
/* fcntl: only F_GETFL / F_SETFL on the stdin write end (a repaired communicate makes it non-blocking) */
uint32_t STUB(fcntl)(uint32_t fd, uint32_t cmd, uint64_t arg) {
  ASSERT(fd == IN_FD && !closed_in, "fcntl on the open stdin descriptor");
  if (cmd == 3) return 1; /* F_GETFL: O_WRONLY */
  if (cmd == 4) { nonblock_in = (arg & 04000) != 0; return 0; } /* F_SETFL, O_NONBLOCK */
  ASSERT(0, "fcntl command other than F_GETFL / F_SETFL");
  return (uint32_t)-1;
}
uint32_t STUB(close)(uint32_t fd) {
  if (fd == IN_FD) { ASSERT(!closed_in, "stdin pipe closed twice"); closed_in = 1; }
  else if (fd == OUT_FD) { ASSERT(!closed_out, "stdout pipe closed twice"); closed_out = 1; }
  else ASSERT(0, "close on a descriptor that is not ours");
  return 0;
}

static void draw_clock(void) {
  /* clk_val[0]: tv_usec of the first read (concrete: the deadline computed from it must be a constant for CBMC, otherwise the
   * test "deadline != 0" in communicate does not fold and the paths diverge); clk_val[k]: distance of read k from the first read (before the deadline) or
   * from the deadline (at or past it), at most 10 ms; all values stay below one second */
  for (int k = 1; k < NCLK; k++) clk_val[k] = TIMEOUT ? in_range(0, 9999) : 0;
  clk_val[0] = CLK0;
}
static int b36(char c) { return c <= '9' ? c - '0' : c - 'a' + 10; }

static void run_case(void) {
  uint8_t out[WMAX + 1];
  int64_t st[3] = {-2, -2, -2};
  model_reset();
  int64_t r = w_communicate(IN_FD, OUT_FD, PID, payload, IN_N, TIMEOUT, out, sizeof(out), st);
  OBS(r); OBS(st[0]); OBS(st[1]); OBS(st[2]); OBS(t);
  ASSERT(reap_count == 1 && reaped, "the child has been reaped exactly once when the Subprocess is gone");
  ASSERT((st[1] == -1) == (closed_in != 0) && (st[1] == -1 || st[1] == IN_FD), "stdin_write_fd is -1 exactly when that descriptor was closed");
  ASSERT((st[2] == -1) == (closed_out != 0) && (st[2] == -1 || st[2] == OUT_FD), "stdout_read_fd is -1 exactly when that descriptor was closed");
  if (IN_N == 0) ASSERT(closed_in, "the unused stdin pipe was closed");
  if (delivered == IN_N || write_failed) ASSERT(closed_in, "stdin closed after complete delivery / failed write");
  ASSERT(child_read <= delivered && delivered <= IN_N, "the child reads what was delivered");
  for (uint64_t i = 0; i < IN_N; i++) if (i < delivered) ASSERT(got_in[i] == payload[i], "the child receives the payload bytes in order");
  if (r < 0) {
#if TIMEOUT == 0
    ASSERT(0, "communicate without a deadline returns instead of throwing");
#else
    ASSERT(r == -5, "only runtime_error is thrown");
    ASSERT(late_reads > 0, "communicate throws only after the clock was seen at or past the deadline");
    ASSERT(kill9_calls == 1, "a timed-out child has been sent SIGKILL (once)");
    ASSERT(killed || next_ev == NEV, "a child that was not killed ran its whole script");
#endif
  } else {
    ASSERT(exited && !killed, "communicate returns normally only after the child exited by itself");
    ASSERT(next_ev == NEV, "the child ran its whole script");
    for (int i = 0; i < NEV; i++) if (evs[i] == 'e') ASSERT(child_read == IN_N && delivered == IN_N, "a child that reads its stdin to EOF got the whole payload");
    ASSERT((uint64_t)r == W, "communicate returns every byte the child wrote (nothing lost at exit)");
    if ((uint64_t)r == W) for (uint64_t i = 0; i < WMAX; i++) if (i < W) ASSERT(out[i] == data[i], "communicate returns the child's bytes in order");
    ASSERT(st[0] == (int64_t)status, "the cached wait status is the child's");
  }
}

void harness(void) {
    in_bytes(data, WMAX);
  in_bytes(payload, IN_N);
  { /* wait status: normal exit with any code, or death by any signal 1..126 with or without core dump */
    uint32_t by_signal = in_bool(), code = (uint32_t)in_range(0, 255), sig = (uint32_t)in_range(1, 126), core = in_bool();
    status_in = by_signal ? (sig | (core << 7)) : (code << 8);
  }
  W = 0;
  for (int i = 0; i < MAXEV; i++) {
    if (i < NEV && evs[i] >= '1' && evs[i] <= '9') W += (uint64_t)(evs[i] - '0');
    cum[i] = W;
  }
  ASSERT(W <= WMAX && NEV <= MAXEV && NEV >= 1 && evs[NEV - 1] == 'x', "BOUND: script shape");
  for (int i = 0; i < MAXEV; i++) for (int k = 0; k < MAXEV; k++) if (i < k && k < NEV) {
    ASSERT(!(evs[i] == 'c' && evs[k] >= '1' && evs[k] <= '9'), "BOUND: no write after closing stdout");
    ASSERT(!(evs[i] == 'k' && (evs[k] == 'r' || evs[k] == 'e')), "BOUND: no read after closing stdin");
  }
  draw_clock();
#ifdef SCHED_FROM_INPUT
  first_late = TIMEOUT ? (int)in_range(1, 99) : 99;
#else
  first_late = FL;
#endif
  int prev = 0;
  for (int i = 0; i < MAXEV; i++) {
    at[i] = 0; late[i] = 0;
    if (i < NEV) {
#ifdef SCHED_FROM_INPUT /* native exploration only (gen_cells.py) */
      at[i] = (int)in_range(0, TMAX); late[i] = in_bool();
#else
      at[i] = b36(sched[i]); late[i] = late_s[i] == '1';
#endif
      ASSERT(at[i] >= prev && at[i] <= TMAX, "BOUND: SCHED is non-decreasing and within TMAX");
      prev = at[i];
    }
  }
#ifdef SCHED_FROM_INPUT
  for (int k = 0; k < 3; k++) for (int i = 0; i < 4; i++) mv_in[k][i] = (uint8_t)in_range(1, 3);
#endif
  run_case();
  for (int k = 0; k < 3; k++) { OBS(mv_used[k]); for (int i = 0; i < 4; i++) OBS(mv_limseen[k][i]); }
#ifndef SCHED_FROM_INPUT
  for (int k = 0; k < 3; k++) if (mv_plan[k][mv_used[k] < 7 ? mv_used[k] : 7] != 0) mv_bad = 1; /* plan longer than the run */
  ASSERT(!mv_bad, "BOUND: the run has exactly the choice points (and limits) of the MVR/MVW/MVC plan of this cell");
#endif
  if (first_late < 99) ASSERT(clock_reads > first_late, "BOUND: FL lies beyond the clock reads of this run (it is the same run as FL = 99)");
  for (int i = 0; i < MAXEV; i++) if (i < NEV) {
    OBS(fired_at[i]);
    if (late[i]) ASSERT(fired_at[i] <= at[i] || t <= at[i], "BOUND: an event marked LATE has been forced by the end of its OS call, or the run ended before that call (all later positions are the same run)");
  }
}
