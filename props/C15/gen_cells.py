#!/usr/bin/env python3
"""Offline helper (NOT part of any verdict): proposes the list of schedule cells for h_comm.c / h_run.c.

For a child script it walks the tree of event positions. For every event it runs the harness natively against the real
build with the event (and all later ones) never triggered by the schedule and looks at which OS call the blocking parent
forces it (F). Positions before F are emitted as exact cells, F itself as a LATE cell ("at F or any later call"). Whether a
LATE cell really covers all later positions is NOT taken from here: the query asserts it (fired_at[i] <= at[i]) for all
symbolic inputs, and every cell is decided by the solver. A wrong table can only make queries inconclusive or leave a
position out of the list - the list in cells.json is what spec.BOUNDS claims, nothing more.

usage: gen_cells.py <kept run.py work dir with proc.real.o> > cells.json
"""
import json, os, random, subprocess, sys, tempfile

RT = '/verif/engine/rt'
HERE = os.path.dirname(os.path.abspath(__file__))
B36 = '0123456789abcdefghijklmnopqrstuvwxyz'
WMAX = 3


def build(kept, harness, unit, evs, in_n, cap, timeout, tmax, extra=''):
    t = tempfile.mkdtemp(prefix='c15gen_')
    defs = ['-DEVS="%s"' % evs, '-DIN_N=%d' % in_n, '-DCAP=%d' % cap, '-DTIMEOUT=%d' % timeout, '-DTMAX=%d' % tmax, '-DSCHED_FROM_INPUT'] + extra.split()
    subprocess.check_call(['gcc', '-O1', '-w', '-DVERIF_NATIVE_REAL', '-I' + RT, '-I' + HERE] + defs + ['-c', os.path.join(HERE, harness), '-o', t + '/h.o'])
    subprocess.check_call(['gcc', '-O1', '-w', '-DVERIF_NATIVE_REAL', '-I' + RT, '-c', RT + '/native_main.c', '-o', t + '/m.o'])
    subprocess.check_call(['g++', '-fsanitize=address,undefined', t + '/h.o', t + '/m.o', os.path.join(kept, unit + '.real.o'), '-o', t + '/exe', '-lz', '-lpthread', '-lm'])
    return t


def run(t, nev, in_n, timeout, tmax, sched, plan, fl=99):
    """sched: list of (pos, late); plan: 3 lists of amounts. returns dict(fired, used, lims, fails)"""
    vals = [0x41, 0x42, 0x43][:WMAX] + [0x61 + i for i in range(in_n)] + [0, 0, 1, 0]
    if timeout:
        vals += [0] * 11 + [fl]
    for pos, late in sched:
        vals += [pos, late]
    for k in range(3):
        vals += (list(plan[k]) + [1, 1, 1, 1])[:4]
    with open(t + '/rep.txt', 'w') as f:
        f.write('# x\n' + '\n'.join('0x%x' % v for v in vals) + '\n')
    out = subprocess.run([t + '/exe', '--replay', t + '/rep.txt'], capture_output=True, text=True, env=dict(os.environ, ASAN_OPTIONS='detect_leaks=0')).stdout
    obs = [int(l.split()[1]) for l in out.split('\n') if l.startswith('O ')]
    fails = [l for l in out.split('\n') if l.startswith('A ') and l.split()[2] == '0']
    if 'END' not in out:
        fails.append('no END: ' + out[-200:])
    if len(obs) < 5 + 15 + nev:
        return dict(fired=[tmax + 1] * nev, used=[0, 0, 0], lims=[[], [], []], fails=fails + ['short output'], t=tmax + 1)
    fired = obs[-nev:]
    mv = obs[-nev - 15:-nev]
    used = [mv[5 * k] for k in range(3)]
    lims = [mv[5 * k + 1:5 * k + 1 + used[k]] for k in range(3)]
    return dict(fired=fired, used=used, lims=lims, fails=fails, t=obs[4])


def plan_tree(runner):
    """all complete move plans of one schedule: runner(plan) -> result; returns list of (plan, lims) leaves"""
    leaves = []
    work = [([], [], [])]
    seen = set()
    while work:
        plan = work.pop()
        r = runner(plan)
        ext = False
        for k in range(3):
            if r['used'][k] > len(plan[k]):
                lim = r['lims'][k][len(plan[k])]
                for d in range(1, lim + 1):
                    np_ = [list(x) for x in plan]
                    np_[k] = np_[k] + [d]
                    key = tuple(tuple(x) for x in np_)
                    if key not in seen:
                        seen.add(key); work.append(key)
                ext = True
                break
        if not ext:
            leaves.append((tuple(tuple(x) for x in plan), tuple(tuple(x) for x in r['lims']), r))
    return leaves


def cells_for(kept, harness, unit, evs, in_n=0, cap=None, timeout=0, tmax=None, extra=''):
    nev = len(evs)
    w = sum(int(c) for c in evs if c.isdigit())
    if cap is None:
        cap = in_n if in_n else 1
    if tmax is None:
        tmax = 3 * (w + nev + in_n) + 4
    t = build(kept, harness, unit, evs, in_n, cap, timeout, tmax, extra)
    out = []
    problems = []
    S = lambda xs: ''.join(str(x) for x in xs)

    def forced_time(prefix, i):
        sched = prefix + [(tmax, 1)] * (nev - i)
        f = 0
        for plan, lims, r in plan_tree(lambda pl: run(t, nev, in_n, timeout, tmax, sched, pl)):
            if r['fails']:
                problems.append((sched, r['fails'][:2]))
            f = max(f, r['fired'][i])
        return f

    def rec_deadline(prefix):
        """deadline cells: exact positions only (nothing blocks), every FL whose run is consistent"""
        i = len(prefix)
        if i == nev:
            for fl in list(range(1, 12)) + [99]:
                for plan, lims, r in plan_tree(lambda pl: run(t, nev, in_n, timeout, tmax, prefix, pl, fl)):
                    if any('BOUND' in f for f in r['fails']):
                        continue
                    if r['fails']:
                        problems.append((prefix, fl, r['fails'][:2]))
                    out.append((''.join(B36[p] for p, _ in prefix), ''.join(str(l) for _, l in prefix), [S(x) for x in plan], [S(x) for x in lims], fl))
            return
        prev = prefix[-1][0] if prefix else 0
        for p in range(prev, tmax + 1):
            # if with events i.. never triggered every consistent run makes at most p OS calls, positions >= p are one and the same run
            never = prefix + [(p, 1)] * (nev - i)
            tmaxrun = 0
            for fl in list(range(1, 12)) + [99]:
                for plan, lims, r in plan_tree(lambda pl: run(t, nev, in_n, timeout, tmax, never, pl, fl)):
                    if not any('BOUND: FL' in f for f in r['fails']):
                        tmaxrun = max(tmaxrun, r['t'])
            if tmaxrun <= p:
                rec_deadline(never)
                return
            rec_deadline(prefix + [(p, 0)])

    def rec(prefix):
        i = len(prefix)
        if i == nev:
            for plan, lims, r in plan_tree(lambda pl: run(t, nev, in_n, timeout, tmax, prefix, pl)):
                if r['fails']:
                    problems.append((prefix, r['fails'][:2]))
                out.append((''.join(B36[p] for p, _ in prefix), ''.join(str(l) for _, l in prefix), [S(x) for x in plan], [S(x) for x in lims]))
            return
        prev = prefix[-1][0] if prefix else 0
        f = forced_time(prefix, i)
        if f > tmax:  # never forced within the bound: exact positions only, up to tmax - 1
            for p in range(prev, tmax):
                rec(prefix + [(p, 0)])
            return
        for p in range(prev, max(f, prev)):
            rec(prefix + [(p, 0)])
        rec(prefix + [(max(f, prev), 1)])
    if timeout:
        rec_deadline([])
    else:
        rec([])
    subprocess.call(['rm', '-rf', t])
    return dict(evs=evs, in_n=in_n, cap=cap, timeout=timeout, tmax=tmax, cells=out, problems=[str(p) for p in problems[:5]])


def run_rp(t, nev, in_n, tmax, delays, plan):
    """h_run.c: one native run; delays: list of ints; plan: 4 lists"""
    vals = [0x41, 0x42, 0x43, 0x51, 0x52, 0x53] + [0x61 + i for i in range(in_n)] + [0, 1, 1, 0] + [5, 6, 7, 8]
    vals += list(delays)
    for k in range(4):
        vals += (list(plan[k]) + [1, 1, 1, 1])[:4]
    with open(t + '/rep.txt', 'w') as f:
        f.write('# x\n' + '\n'.join('0x%x' % v for v in vals) + '\n')
    out = subprocess.run([t + '/exe', '--replay', t + '/rep.txt'], capture_output=True, text=True, env=dict(os.environ, ASAN_OPTIONS='detect_leaks=0')).stdout
    obs = [int(l.split()[1]) for l in out.split('\n') if l.startswith('O ')]
    fails = [l for l in out.split('\n') if l.startswith('A ') and l.split()[2] == '0']
    if 'END' not in out:
        fails.append('no END: ' + out[-200:])
    if len(obs) < 5 + 20 + nev:
        return dict(used=[0] * 4, lims=[[]] * 4, fails=fails + ['short output'], t=tmax + 1)
    mv = obs[-nev - 20:-nev]
    used = [mv[5 * k] for k in range(4)]
    lims = [mv[5 * k + 1:5 * k + 1 + used[k]] for k in range(4)]
    return dict(used=used, lims=lims, fails=fails, t=obs[4])


def plan_tree4(runner):
    leaves = []
    work = [((), (), (), ())]
    seen = set()
    while work:
        plan = work.pop()
        r = runner(plan)
        ext = False
        for k in range(4):
            if r['used'][k] > len(plan[k]):
                lim = r['lims'][k][len(plan[k])]
                for d in range(1, lim + 1):
                    np_ = list(plan)
                    np_[k] = tuple(plan[k]) + (d,)
                    key = tuple(np_)
                    if key not in seen:
                        seen.add(key); work.append(key)
                ext = True
                break
        if not ext:
            leaves.append((plan, tuple(tuple(x) for x in r['lims']), r))
    return leaves


def run_cells_for(kept, evs, in_n=0, has_in=None, cap=None, dmax=3):
    import itertools
    nev = len(evs)
    if cap is None:
        cap = in_n if in_n else 1
    if has_in is None:
        has_in = int(in_n > 0)
    tmax = 60
    t = build(kept, 'h_run.c', 'proc', evs, in_n, cap, 0, tmax, '-DHAS_IN=%d -DKF_FDLEAK_EXCL=1' % has_in)
    out = []
    problems = []
    S = lambda xs: ''.join(str(x) for x in xs)
    for delays in itertools.product(range(dmax + 1), repeat=nev):
        for plan, lims, r in plan_tree4(lambda pl: run_rp(t, nev, in_n, tmax, delays, pl)):
            if r['fails']:
                problems.append((delays, r['fails'][:2]))
            out.append((''.join(B36[d] for d in delays), [S(x) for x in plan], [S(x) for x in lims], r['t']))
    subprocess.call(['rm', '-rf', t])
    return dict(kind='run', evs=evs, in_n=in_n, has_in=has_in, cap=cap, cells=out, problems=[str(p) for p in problems[:5]])


if __name__ == '__main__' and len(sys.argv) > 2 and sys.argv[2] == 'run':
    kept = sys.argv[1]
    res = []
    for evs in sys.argv[3:]:
        parts = evs.split(':')  # evs[:in_n[:cap[:dmax]]]
        e = parts[0]
        in_n = int(parts[1]) if len(parts) > 1 and parts[1] else 0
        cap = int(parts[2]) if len(parts) > 2 and parts[2] else None
        dmax = int(parts[3]) if len(parts) > 3 else 3
        r = run_cells_for(kept, e, in_n, None, cap, dmax)
        sys.stderr.write('run %s in_n=%d cap=%s: %d cells, max t %d, problems %d %s\n' % (e, in_n, r['cap'], len(r['cells']), max(c[3] for c in r['cells']), len(r['problems']), r['problems'][:1]))
        res.append(r)
    json.dump(res, sys.stdout, indent=0)
    sys.exit(0)

if __name__ == '__main__':
    kept = sys.argv[1]
    res = []
    for evs in sys.argv[2:]:
        parts = evs.split(':')  # evs[:in_n[:cap[:timeout[:tmax]]]]
        e = parts[0]
        in_n = int(parts[1]) if len(parts) > 1 else 0
        cap = int(parts[2]) if len(parts) > 2 and parts[2] else None
        to = int(parts[3]) if len(parts) > 3 else 0
        tm = int(parts[4]) if len(parts) > 4 else None
        r = cells_for(kept, 'h_comm.c', 'proc', e, in_n, cap, to, tm)
        sys.stderr.write('%s in_n=%d cap=%s: %d cells, tmax %d, problems %d\n' % (e, in_n, r['cap'], len(r['cells']), r['tmax'], len(r['problems'])))
        res.append(r)
    json.dump(res, sys.stdout, indent=0)
