// C19 wrappers: unit-test expectation helpers (UnitTest.hh / UnitTest.cc).
// The wrappers only adapt types: they call the helper, and report what escaped:
//   0 = helper returned normally, 1 = phosg::expectation_failed escaped, 2 = anything else escaped.
#include "wrap.hh"
#include "Strings.cc"
#include "UnitTest.cc"
using namespace phosg;

// ---- exception zoo for the callback (indices are shared with the harness: T_* in h_raises.c)
struct UserErr : std::runtime_error {
  UserErr() : std::runtime_error("user") {}
};
struct UserErr2 : UserErr {};
struct Tag {
  int tag = 0;
};
// multiple inheritance (typeinfo is __vmi_class_type_info); runtime_error is the primary base (offset 0)
struct UserMI : std::runtime_error, Tag {
  UserMI() : std::runtime_error("mi") {}
};

static const char kCallFile[] = "callsite.cc";
static const char kCbFile[] = "callback.cc";

static __attribute__((noinline)) void behave(uint32_t b) {
  switch (b) {
    case 0: return;
    case 1: throw std::runtime_error("b1");
    case 2: throw std::logic_error("b2");
    case 3: throw std::out_of_range("b3");
    case 4: throw std::invalid_argument("b4");
    case 5: throw expectation_failed("from callback", kCbFile, 7);
    case 6: throw std::bad_alloc();
    case 7: throw std::exception();
    case 8: throw UserErr();
    case 9: throw UserErr2();
    case 10: throw std::length_error("b10");
    case 11: throw 42;
    case 12: throw UserMI();
    default: return; // 13 is handled by the caller (empty std::function -> std::bad_function_call)
  }
}

static inline const char* cstr(const char* s) { return s; }
static inline const char* cstr(const std::string& s) { return s.c_str(); }

// out[0] = line carried by the escaping expectation_failed, out[1] = 1 iff its file is the call site's file pointer,
// out[2] (only when read_msg) = class of the carried message text: 1 "expected exception, but none raised",
// 2 "incorrect exception type raised", 3 the text produced by the harness's vasprintf stub, 4 anything else
template <typename E>
static int run_raises(uint32_t b, uint64_t line, uint32_t read_msg, uint64_t* out) {
  try {
    if (b == 13) {
      expect_raises_fn<E>(kCallFile, line, std::function<void()>());
    } else {
      expect_raises_fn<E>(kCallFile, line, [b]() { behave(b); });
    }
    return 0;
  } catch (const expectation_failed& e) {
    out[0] = e.line;
    out[1] = (e.file == kCallFile);
    if (read_msg) {
      const char* m = cstr(e.msg);
      out[2] = !strcmp(m, "expected exception, but none raised") ? 1
          : !strcmp(m, "incorrect exception type raised")        ? 2
          : !strcmp(m, "formatted-message-text..")               ? 3
                                                                 : 4;
    }
    return 1;
  } catch (...) {
    return 2;
  }
}

WEXPORT int32_t w_expect_raises(uint32_t e, uint32_t b, uint64_t line, uint32_t read_msg, uint64_t* out) {
  switch (e) {
    case 1: return run_raises<std::runtime_error>(b, line, read_msg, out);
    case 2: return run_raises<std::logic_error>(b, line, read_msg, out);
    case 3: return run_raises<std::out_of_range>(b, line, read_msg, out);
    case 4: return run_raises<std::invalid_argument>(b, line, read_msg, out);
    case 5: return run_raises<expectation_failed>(b, line, read_msg, out);
    case 6: return run_raises<std::bad_alloc>(b, line, read_msg, out);
    case 7: return run_raises<std::exception>(b, line, read_msg, out);
    case 8: return run_raises<UserErr>(b, line, read_msg, out);
    case 9: return run_raises<UserErr2>(b, line, read_msg, out);
    case 10: return run_raises<std::length_error>(b, line, read_msg, out);
    case 11: return run_raises<int>(b, line, read_msg, out);
    case 12: return run_raises<UserMI>(b, line, read_msg, out);
    case 13: return run_raises<std::bad_function_call>(b, line, read_msg, out);
    default: return -1;
  }
}

static const char kMsg[] = "the message";

WEXPORT int32_t w_expect_generic(uint8_t pred, uint64_t line, uint64_t* out) {
  try {
    expect_generic(pred, kMsg, kCallFile, line);
    return 0;
  } catch (const expectation_failed& e) {
    out[0] = e.line;
    out[1] = (e.file == kCallFile);
    out[2] = !strcmp(cstr(e.msg), kMsg);
    return 1;
  } catch (...) {
    return 2;
  }
}

// comparison macros: rel 0 eq, 1 ne, 2 gt, 3 ge, 4 lt, 5 le, 6 expect(a)
#define REL_BODY(a, b)                                        \
  uint64_t here = 0;                                          \
  try {                                                       \
    switch (rel) {                                            \
      case 0: here = __LINE__; expect_eq(a, b); break;        \
      case 1: here = __LINE__; expect_ne(a, b); break;        \
      case 2: here = __LINE__; expect_gt(a, b); break;        \
      case 3: here = __LINE__; expect_ge(a, b); break;        \
      case 4: here = __LINE__; expect_lt(a, b); break;        \
      case 5: here = __LINE__; expect_le(a, b); break;        \
      default: here = __LINE__; expect(a == b); break;        \
    }                                                         \
    return 0;                                                 \
  } catch (const expectation_failed& e) {                     \
    out[0] = (e.line == here) && (here != 0);                 \
    out[1] = !strcmp(e.file, __FILE__);                       \
    return 1;                                                 \
  } catch (...) {                                             \
    return 2;                                                 \
  }

WEXPORT int32_t w_rel_i64(uint32_t rel, int64_t a, int64_t b, uint64_t* out) { REL_BODY(a, b) }
WEXPORT int32_t w_rel_u64(uint32_t rel, uint64_t a, uint64_t b, uint64_t* out) { REL_BODY(a, b) }
WEXPORT int32_t w_rel_f64(uint32_t rel, double a, double b, uint64_t* out) { REL_BODY(a, b) }
WEXPORT int32_t w_rel_str(uint32_t rel, const uint8_t* a, size_t an, const uint8_t* b, size_t bn, uint64_t* out) {
  std::string sa(reinterpret_cast<const char*>(a), an), sb(reinterpret_cast<const char*>(b), bn);
  REL_BODY(sa, sb)
}
