/* C19: expect_generic(pred, msg, file, line) throws expectation_failed(msg, file, line) iff !pred. */
#include "harness.h"
int32_t w_expect_generic(uint8_t pred, uint64_t line, uint64_t* out);
#include <stdlib.h>
#ifdef VERIF_NATIVE_REAL
int vasprintf(char** outp, const char* fmt, __builtin_va_list va) {
#else
uint32_t X_vasprintf(uint8_t* outp_, uint8_t* fmt, uint8_t* va) {
  char** outp = (char**)outp_;
#endif
  static const char text[] = "formatted-message-text..";
  char* buf = (char*)malloc(sizeof(text));
  ASSUME(buf != 0);
  for (unsigned i = 0; i < sizeof(text); i++) buf[i] = text[i];
  *outp = buf;
  return (int)(sizeof(text) - 1);
}

void harness(void) {
  uint8_t pred = in_bool();
  uint64_t line = in_u64();
  uint64_t out[3] = {0, 0, 0};
  int32_t r = (int32_t)w_expect_generic(pred, line, out);
  OBS(r); OBS(out[0]); OBS(out[1]); OBS(out[2]);
  if (pred) {
    ASSERT(r == 0, "expect_generic(true, ...) does nothing");
  } else {
    ASSERT(r == 1, "expect_generic(false, ...) throws expectation_failed");
    ASSERT(out[0] == line, "carries the line");
    ASSERT(out[1] == 1, "carries the file");
    ASSERT(out[2] == 1, "carries the message");
  }
}
