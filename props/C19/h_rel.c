/* C19: the comparison macros expect_eq/ne/gt/ge/lt/le/expect throw expectation_failed (with the macro's __FILE__/__LINE__)
 * iff the stated relation is false. KIND: 0 = int64, 1 = uint64, 2 = double, 3 = std::string (LA/LB = concrete lengths).
 * Oracle: the relation evaluated in C in the harness (strings: lexicographic unsigned byte order, shorter prefix first). */
#include "harness.h"
int32_t w_rel_i64(uint32_t rel, int64_t a, int64_t b, uint64_t* out);
int32_t w_rel_u64(uint32_t rel, uint64_t a, uint64_t b, uint64_t* out);
int32_t w_rel_f64(uint32_t rel, double a, double b, uint64_t* out);
int32_t w_rel_str(uint32_t rel, uint8_t* a, uint64_t an, uint8_t* b, uint64_t bn, uint64_t* out);
#include <stdlib.h>
#ifdef VERIF_NATIVE_REAL
int vasprintf(char** outp, const char* fmt, __builtin_va_list va) {
#else
uint32_t X_vasprintf(uint8_t* outp_, uint8_t* fmt, uint8_t* va) {
  char** outp = (char**)outp_;
#endif
  static const char text[] = "formatted-message-text..";
  char* buf = (char*)malloc(sizeof(text));
  ASSUME(buf != 0);
  for (unsigned i = 0; i < sizeof(text); i++) buf[i] = text[i];
  *outp = buf;
  return (int)(sizeof(text) - 1);
}
#ifndef LA
#define LA 0
#define LB 0
#endif

void harness(void) {
  uint32_t rel = (uint32_t)in_range(0, 6);
  uint64_t out[2] = {0, 0};
  int32_t r;
  int eq, lt; /* reference: a == b, a < b (for doubles also unordered) */
  int unordered = 0;
#if KIND == 0
  int64_t a = in_i64(), b = in_i64();
  eq = (a == b); lt = (a < b);
  r = (int32_t)w_rel_i64(rel, a, b, out);
#elif KIND == 1
  uint64_t a = in_u64(), b = in_u64();
  eq = (a == b); lt = (a < b);
  r = (int32_t)w_rel_u64(rel, a, b, out);
#elif KIND == 2
  uint64_t ua = in_u64(), ub = in_u64();
  double a, b;
  memcpy(&a, &ua, 8); memcpy(&b, &ub, 8);
  unordered = (a != a) || (b != b);
  eq = (a == b); lt = (a < b);
  r = (int32_t)w_rel_f64(rel, a, b, out);
#else
  uint8_t a[LA + 1], b[LB + 1];
  in_bytes(a, LA); in_bytes(b, LB);
  eq = (LA == LB); lt = 0;
  {
    int decided = 0;
    for (int i = 0; i < LA && i < LB; i++) {
      if (!decided && a[i] != b[i]) { decided = 1; eq = 0; lt = a[i] < b[i]; }
    }
    if (!decided) lt = (LA < LB);
  }
  r = (int32_t)w_rel_str(rel, a, LA, b, LB, out);
#endif
  int gt = !unordered && !eq && !lt;
  int holds;
  switch (rel) {
    case 0: holds = eq; break;
    case 1: holds = !eq; break;
    case 2: holds = gt; break;
    case 3: holds = gt || eq; break;
    case 4: holds = lt; break;
    case 5: holds = lt || eq; break;
    default: holds = eq; break; /* expect(a == b) */
  }
  OBS(rel); OBS(r); OBS(out[0]); OBS(out[1]);
  if (holds) {
    ASSERT(r == 0, "expect_<rel> does nothing when the relation holds");
  } else {
    ASSERT(r == 1, "expect_<rel> throws expectation_failed when the relation is false");
    ASSERT(out[0] == 1, "carries the macro's line");
    ASSERT(out[1] == 1, "carries the macro's file");
  }
}
