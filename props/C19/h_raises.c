/* C19: expect_raises_fn<E>(file, line, fn).  E = concrete expected type (cell), behaviour of fn symbolic.
 * Oracle: C++ [except.handle]: a handler for `const E&` matches iff the thrown type is E or has E as an unambiguous public
 * base. The hierarchy below is written from the C++ standard ([std.exceptions], [bad.alloc], [func.wrap.badcall]) and
 * from the declarations in UnitTest.hh / wrap.cc, independently of the translator's typeinfo-derived table. */
#include "harness.h"
int32_t w_expect_raises(uint32_t e, uint32_t b, uint64_t line, uint32_t read_msg, uint64_t* out);
#ifndef READ_MSG
#define READ_MSG 0 /* 1: the wrapper also reads the text behind the msg pointer of the escaping expectation_failed */
#endif

/* vasprintf: formatting is not the subject. Model: a fixed 24-character text (long enough to live on the heap inside
 * std::string, so that stale pointers into it are detectable). */
#include <stdlib.h>
#ifdef VERIF_NATIVE_REAL
int vasprintf(char** outp, const char* fmt, __builtin_va_list va) {
#else
uint32_t X_vasprintf(uint8_t* outp_, uint8_t* fmt, uint8_t* va) {
  char** outp = (char**)outp_;
#endif
  static const char text[] = "formatted-message-text..";
  char* buf = (char*)malloc(sizeof(text));
  ASSUME(buf != 0);
  for (unsigned i = 0; i < sizeof(text); i++) buf[i] = text[i];
  *outp = buf;
  return (int)(sizeof(text) - 1);
}

enum { T_NONE = 0, T_RUNTIME = 1, T_LOGIC = 2, T_OOR = 3, T_INVARG = 4, T_EXPFAIL = 5, T_BADALLOC = 6, T_EXCEPTION = 7,
       T_USER = 8, T_USER2 = 9, T_LENGTH = 10, T_INT = 11, T_USERMI = 12, T_BADCALL = 13, T_COUNT = 14 };
/* direct public base, -1 = none */
static const int parent[T_COUNT] = {
  -1,
  T_EXCEPTION,  /* runtime_error : exception */
  T_EXCEPTION,  /* logic_error : exception */
  T_LOGIC,      /* out_of_range : logic_error */
  T_LOGIC,      /* invalid_argument : logic_error */
  T_LOGIC,      /* phosg::expectation_failed : logic_error (UnitTest.hh) */
  T_EXCEPTION,  /* bad_alloc : exception */
  -1,           /* exception */
  T_RUNTIME,    /* UserErr : runtime_error */
  T_USER,       /* UserErr2 : UserErr */
  T_LOGIC,      /* length_error : logic_error */
  -1,           /* int */
  T_RUNTIME,    /* UserMI : runtime_error, Tag */
  T_EXCEPTION,  /* bad_function_call : exception (thrown by calling an empty std::function) */
};

static int is_a(int t, int e) {
  for (int k = 0; k < 4 && t >= 0; k++) {
    if (t == e) return 1;
    t = parent[t];
  }
  return 0;
}

void harness(void) {
  uint32_t b = (uint32_t)in_range(0, T_COUNT - 1);
  uint64_t line = in_u64();
  uint64_t out[3] = {0, 0, 0};
#ifdef B_ONLY
  ASSUME(b == B_ONLY);
#endif
  int32_t r = (int32_t)w_expect_raises(E, b, line, READ_MSG, out);
  OBS(b); OBS(r); OBS(out[0]); OBS(out[1]); OBS(out[2]);
  int thrown = (b == T_NONE) ? -1 : (int)b; /* behaviour k>0 throws type k; 13 = empty function -> bad_function_call */
  int expect_ok = (thrown >= 0) && is_a(thrown, E);
  ASSERT(r == 0 || r == 1, "nothing but expectation_failed ever escapes expect_raises_fn");
  if (expect_ok) {
    ASSERT(r == 0, "expect_raises_fn returns normally when fn throws E or a type derived from E");
  } else {
    ASSERT(r != 0, "expect_raises_fn fails when fn returns normally or throws a type unrelated to E");
    if (r == 1) {
      ASSERT(out[1] == 1, "the failure carries the call site's file");
      ASSERT(out[0] == line, "the failure carries the call site's line");
#if READ_MSG
      if (b == T_NONE) ASSERT(out[2] == 1, "message says that nothing was raised");
      else if (b == T_INT) ASSERT(out[2] == 2, "message says that an incorrect type was raised");
      else ASSERT(out[2] == 3, "message is the formatted text (vasprintf stub)");
#endif
    }
  }
}
