ID = 'C19'
UNITS = {'ut': dict(wrap='wrap.cc', new_block=64)}
BOUNDS = ('expect_raises_fn<E> for 13 expected types E (runtime_error, logic_error, out_of_range, invalid_argument, phosg::expectation_failed, '
          'bad_alloc, std::exception (specialisation), user type : runtime_error, user type two levels below runtime_error, length_error, int, '
          'user type with multiple inheritance, bad_function_call) x 14 callback behaviours (returns / throws one of 12 types / is an empty '
          'std::function), line number any 64-bit value; expect_generic: pred and line symbolic; comparison macros: all int64/uint64/double '
          'operand pairs, std::string operands up to 2 bytes (quick) / 3 bytes (thorough), all 7 macros')
STUBS = ['vasprintf (called by string_printf for failure messages): returns the fixed 24-byte text "formatted-message-text.." - message '
         'FORMATTING is not checked, only that the carried message pointer is readable and is the literal / the formatted text',
         'std exception objects thrown by the callback: constructors/what() are the runtime model (rt_model.c): what() == "what"']
OUTSIDE = ['operand evaluation of the comparison macros beyond int64/uint64/double/std::string (the relation is the language\'s)',
           'catching through a base class at non-zero offset / virtual base (needs pointer adjustment; the translator reports it as unmodelled)',
           'the text of what() / of formatted messages',
           'msg_* queries are not translation-validated on their own (tv=False): on the unpatched tree the real build aborts under ASan '
           '(use-after-free) where generated C just reads; the exception lowering they rely on is validated by the raises_* queries']
ASSUMPTIONS = ['the translator\'s landing-pad model (ir2c.py: type ids + subclass table from the IR typeinfo objects, __si and __vmi class type info, '
               'and the fixed libstdc++ hierarchy STD_BASES) - validated per query by running the same harness on generated C and on the real '
               'g++ build for 200 pseudo-random (E, behaviour) draws per E: all 14 behaviours are hit for every E (checked, see NOTES.md)']
ENAMES = {1: 'runtime_error', 2: 'logic_error', 3: 'out_of_range', 4: 'invalid_argument', 5: 'expectation_failed', 6: 'bad_alloc',
          7: 'exception', 8: 'UserErr', 9: 'UserErr2', 10: 'length_error', 11: 'int', 12: 'UserMI', 13: 'bad_function_call'}

def queries(tier):
    qs = []
    for e, nm in ENAMES.items():
        qs.append(dict(name='raises_%s' % nm, unit='ut', harness='h_raises.c', defs={'E': e}, unwind=40, timeout=300, mem_gb=4,
                       tv_runs=200, desc='expect_raises_fn<%s>: behaviour of fn symbolic over 14 behaviours' % nm, bounds='E = %s' % nm))
    for e, nm in ENAMES.items():
        qs.append(dict(name='msg_%s' % nm, unit='ut', harness='h_raises.c', defs={'E': e, 'READ_MSG': 1}, unwind=40, timeout=300, mem_gb=4,
                       tv=False, desc='expect_raises_fn<%s>: the message pointer carried by the failure is readable and is the right text' % nm, bounds='E = %s' % nm))
    qs.append(dict(name='generic', unit='ut', harness='h_generic.c', defs={}, unwind=40, timeout=300, mem_gb=4, tv_runs=40,
                   desc='expect_generic: throws expectation_failed(msg,file,line) iff !pred; pred, line symbolic', bounds='all'))
    for k, nm in ((0, 'i64'), (1, 'u64'), (2, 'f64')):
        qs.append(dict(name='rel_%s' % nm, unit='ut', harness='h_rel.c', defs={'KIND': k}, unwind=40, timeout=300, mem_gb=4, tv_runs=200,
                       desc='expect_eq/ne/gt/ge/lt/le/expect on two symbolic %s operands, relation symbolic' % nm, bounds='all 2^128 operand pairs x 7 macros'))
    for la, lb in ([(0, 0), (1, 1), (2, 1), (2, 2)] if tier == 'quick' else [(a, b) for a in range(4) for b in range(4)]):
        qs.append(dict(name='rel_str_%d_%d' % (la, lb), unit='ut', harness='h_rel.c', defs={'KIND': 3, 'LA': la, 'LB': lb}, unwind=40, timeout=300, mem_gb=4, tv_runs=100,
                       desc='expect_<rel> on std::string operands of length %d and %d, all byte values' % (la, lb), bounds='lengths %d,%d' % (la, lb)))
    return qs
