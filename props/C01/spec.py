import os, re
ID = 'C01'
UNITS = {'rw': dict(wrap='wrap.cc', new_block=64)}
BOUNDS = ('harness 1 (layout/round trip): every value of every accessor width (8/16/32/64-bit, floats as IEEE bit patterns), accessor symbolic within its '
          'width group, 0/1/3 filler bytes in front, every offset of a 12-byte BufferWriter; reader accessors (incl. 24/48-bit) on 10 symbolic bytes at cursor 0..2. '
          'harness 2 (positional writes): prior size 0..8 (cell) with symbolic contents, offset 0..size+4. '
          'harness 3 (sequences): <= 4 operations (kinds are the cell: all 10x10 ordered pairs + selected triples/quads), every value, block byte, '
          'block/string length (0..3) and positional offset symbolic (or enumerated as a cell), buffer <= 40 bytes, at most 3 variable-length items per sequence. '
          'harness 4 (bits): BitWriter 0..24,31..33 bits with optional truncate(any t) and write-after-truncate cells; BitReader over 1..9 symbolic bytes, '
          'read sizes up to 64 at any bit offset inside the data; writer->reader round trip up to 64 bits')
STUBS = ['operator new hands out fixed 64-byte blocks (std::string storage); allocation never fails']
OUTSIDE = ['sequences longer than 4 operations / buffers beyond 40 bytes; more than 3 variable-length items in one sequence (measured: 4 symbolic-length blocks exhaust 3 GB)',
           'host big-endian builds (only the x86-64 little-endian configuration is compiled; the PHOSG_BIG_ENDIAN branches are not)',
           'BitReader reads beyond the end of its data (BitReader::pread has no bounds check by design)',
           'a positional write that destroys the NUL terminator of an earlier C string (the reference reader of the sequence harness does not model it; excluded by ASSUME)',
           'get<T>/pget<T>/put<T>/pput<T> instantiated by the caller with types other than the named accessors',
           'StringWriter::pput offsets beyond size+4 (growth beyond the modelled heap block); huge offsets are covered in C02',
           'accessors added to Strings.hh later are not picked up automatically: the accessor table props/C01/acc.h is written by hand (a renamed/removed accessor fails to compile -> inconclusive)']
ASSUMPTIONS = ['x86-64 little-endian host configuration of Platform.hh']

HERE = os.path.dirname(os.path.abspath(__file__))


def table(macro):
    txt = open(os.path.join(HERE, 'acc.h')).read()
    body = txt[txt.index('#define %s(X)' % macro):]
    body = body[:body.index('\n/*')] if '\n/*' in body else body[:body.index('#endif')]
    return [(int(i), s, t, int(b), int(k), int(o)) for i, s, t, b, k, o in re.findall(r'X\((\d+), (\w+), (\w+), (\d+), (\d), (\d)\)', body)]


WR = table('WRITER_ACCESSORS')
RD = table('READER_ACCESSORS')
RD_IDX = set(r[0] for r in RD)


def Q(name, harness, defs, unwind=14, timeout=180, desc='', bounds='', **kw):
    d = dict(name=name, unit='rw', harness=harness, defs=defs, unwind=unwind, timeout=timeout, mem_gb=3, desc=desc, bounds=bounds, tv_runs=40)
    d.update(kw)
    return d


def queries(tier):
    qs = []
    quick = tier == 'quick'
    for bits in (8, 16, 32, 64):
        names = [r[1] for r in WR if r[3] == bits]
        for pre in ([1] if quick else ([0, 1, 3] if bits == 16 else [0, 1])):
            qs.append(Q('layout_w%d_pre%d' % (bits, pre), 'h_layout.c', {'BITS': bits, 'PRE': pre}, unwind=14,
                        desc='put_X/pput_X (StringWriter, BufferWriter) for X in {%s} (accessor symbolic): exact big/little-endian bytes and width; get_X/pget_X round trip + cursor where StringReader has X' % ','.join(names),
                        bounds='all %d-bit values, %d filler byte(s) in front, every offset in a 12-byte buffer' % (bits, pre)))
    for bits in (8, 16, 24, 32, 48, 64):
        names = [r[1] for r in RD if r[3] == bits]
        qs.append(Q('read_w%d' % bits, 'h_rd.c', {'BITS': bits}, unwind=12,
                    desc='get_X/pget_X for X in {%s} (accessor symbolic) on arbitrary bytes == independent decoder (+ sign extension), cursor advance' % ','.join(names),
                    bounds='10 symbolic bytes, cursor 0..2'))
    # harness 2: positional writes into the growable writer
    if quick:
        cells = [(sfx, 3) for sfx in ('u8', 'u16l', 'u32b', 'f64r')]
    else:
        cells = [(r[1], n) for r in WR for n in (0, 3)] + [(sfx, n) for sfx in ('u16l', 'u32b', 's64l', 'f32r') for n in (1, 2, 5, 8)]
    for sfx, nfix in cells:
        i, _, t, bits, kind, order = [r for r in WR if r[1] == sfx][0]
        qs.append(Q('pput_%s_n%d' % (sfx, nfix), 'h_pput.c', {'WHICH': i, 'BITS': bits, 'NFIX': nfix}, unwind=nfix + 16,
                    desc='StringWriter::pput_%s into a %d-byte string at offset 0..%d: size max(n,off+w), zero-filled gap, frame' % (sfx, nfix, nfix + 4),
                    bounds='prior size %d with symbolic contents, offset 0..%d, all values' % (nfix, nfix + 4)))
    # harness 4: bit streams
    for m in ([0, 1, 7, 8, 9, 20] if quick else list(range(0, 25)) + [31, 32, 33]):
        qs.append(Q('bitwriter_m%d' % m, 'h_bits.c', {'MODE': 0, 'M': m}, unwind=m + 20, desc='BitWriter: %d symbolic bits, optional truncate(t) with any t: MSB-first packing, zero tail, size()' % m, bounds='%d bits, t any 64-bit value' % m))
    for m, t, m2 in ([(5, 3, 4), (9, 8, 8), (16, 11, 3)] if quick else [(5, 3, 4), (9, 8, 8), (16, 11, 3)] + [(a, t, b) for a in (1, 5, 8, 9, 16, 20) for t in sorted(set([0, a // 2, max(a - 1, 0), a, (a // 8) * 8])) for b in (1, 9)]):
        qs.append(Q('bitwriter_trunc_m%d_t%d_%d' % (m, t, m2), 'h_bits.c', {'MODE': 1, 'M': m, 'T': t, 'M2': m2}, unwind=m + m2 + 20, desc='BitWriter: %d bits, truncate(%d), %d more bits: packing continues at bit %d' % (m, t, m2, t), bounds='bits symbolic'))
    for nb, mx in ([(4, 16)] if quick else [(1, 8), (4, 16), (6, 32), (8, 64)]):
        qs.append(Q('bitreader_n%d_s%d' % (nb, mx), 'h_bits.c', {'MODE': 2, 'NBYTES': nb, 'MAXSZ': mx}, unwind=max(mx, nb) + 4, timeout=600,
                    desc='BitReader over %d symbolic bytes: go/read/read/pread with sizes <= %d at any bit offset: MSB-first values, cursor arithmetic' % (nb, mx), bounds='reads inside the data only'))
    for m in ([3, 12] if quick else [0, 1, 3, 8, 9, 12, 17, 24, 40, 64]):
        qs.append(Q('bit_roundtrip_m%d' % m, 'h_bits.c', {'MODE': 3, 'M': m}, unwind=m + 4, desc='BitWriter -> BitReader round trip of %d bits' % m, bounds='%d symbolic bits' % m))
    # harness 3: sequences (operation kinds are the cell, everything else symbolic)
    # (kinds, PO) ; PO = -1: positional-write offset symbolic, 0..4: offset cell (see h_seq.c)
    if quick:
        seqs = [((0, 1), -1), ((6, 2), -1), ((3, 7), -1), ((4, 10, 8), -1), ((9, 0), -1), ((7, 2), 3), ((1, 7, 5), 1)]
    else:
        kinds = [0, 1, 2, 3, 4, 5, 6, 7, 8, 9]
        base = [(a,) for a in kinds + [10]] + [(a, b) for a in kinds for b in kinds] + [(10, 10), (10, 6), (0, 10), (10, 7)]
        base += [(0, 7, 1), (5, 7, 0), (6, 7, 6), (7, 7, 2), (2, 6, 5), (10, 3, 6), (4, 8, 9), (1, 5, 10), (6, 6, 6), (3, 0, 7), (7, 0, 7), (8, 7, 4), (1, 7, 5)]
        base += [(1, 6, 7, 2), (0, 5, 6, 3), (7, 2, 7, 0), (6, 10, 4, 7), (9, 8, 1, 0), (2, 7, 0, 7), (4, 10, 8)]
        seqs = []
        for sq in base:
            if 7 not in sq:
                seqs.append((sq, -1))
            else:
                # a positional write followed by appends makes the string length symbolic (memory): enumerate the offset instead
                last_is_pput_only = all(x != 7 for x in sq[:-1])
                if last_is_pput_only or sq in ((5, 7, 0), (1, 6, 7, 2)):
                    seqs.append((sq, -1))
                if sq == (6, 10, 4, 7):
                    continue  # 90-110 s per offset cell; the symbolic-offset query above covers them
                for po in (range(5) if len(sq) == 3 else (0, 1, 3)):
                    if po in (1, 4) and any(sq[i] == 7 and i > 0 and sq[i - 1] == 6 for i in range(len(sq))):
                        continue  # the positional write would hit the terminator of the C string just written (excluded by the harness)
                    if po == 0 and sq[0] == 6:
                        continue  # likewise: offset 0 lies inside the leading C string
                    seqs.append((sq, po))
    for sq, po in seqs:
        defs = {'K%d' % i: (sq[i] if i < len(sq) else -1) for i in range(4)}
        defs['PO'] = po
        qs.append(Q('seq_' + '_'.join(str(x) for x in sq) + ('' if po < 0 else '_po%d' % po), 'h_seq.c', defs, unwind=44, timeout=600,
                    desc='sequence of writer ops %s then matching reads (%s): str() == byte model, values/cursor/eof' % (sq, 'positional offset symbolic' if po < 0 else 'positional offset cell %d' % po),
                    bounds='kinds fixed, all values/lengths%s symbolic, buffer <= 40 bytes' % ('/offsets' if po < 0 else '')))
    return qs
