#ifndef C01_H
#define C01_H
#include "harness.h"
#include "acc.h"
#define W_OUT_OF_RANGE (-1)
#define W_LOGIC_ERROR (-4)
#define W_RUNTIME_ERROR (-5)
#define W_CAPACITY (-100)
int64_t w_sw_put(uint32_t which, uint32_t pre, uint64_t v, uint8_t* out, uint64_t cap);
int64_t w_bw_put(uint32_t which, uint32_t pre, uint64_t v, uint8_t* buf, uint64_t cap);
int64_t w_bw_pput(uint32_t which, uint64_t off, uint64_t v, uint8_t* buf, uint64_t cap);
int64_t w_sw_pput(uint32_t which, uint8_t* init, uint64_t n, uint64_t off, uint64_t v, uint8_t* out, uint64_t cap);
int64_t w_sr_get(uint32_t which, uint8_t* buf, uint64_t n, uint64_t cur, uint32_t adv, uint64_t* val, uint64_t* where);
int64_t w_sr_pget(uint32_t which, uint8_t* buf, uint64_t n, uint64_t off, uint64_t* val);
int64_t w_seq(uint32_t k, uint32_t* kind, uint64_t* val, uint64_t* aux, uint64_t* go, uint8_t* out, uint64_t cap, uint64_t* rd, uint64_t* pos, uint8_t* eof);
int64_t w_bitwriter(uint64_t bits, uint32_t m, uint64_t t, uint8_t* out, uint64_t cap, uint64_t* size);
int64_t w_bitwriter2(uint64_t bits, uint32_t m, uint64_t t, uint64_t bits2, uint32_t m2, uint8_t* out, uint64_t cap, uint64_t* size);
int64_t w_bitreader(uint8_t* buf, uint64_t nbits, uint64_t start, uint32_t size1, uint32_t size2, uint32_t adv2, uint64_t* v1, uint64_t* v2, uint64_t* where, uint64_t* remaining, uint8_t* eof);
int64_t w_bitreader_pread(uint8_t* buf, uint64_t nbits, uint64_t off, uint32_t size, uint64_t* v);
int64_t w_bit_roundtrip(uint64_t bits, uint32_t m, uint64_t* back);

/* reference encoding: byte k (k < nb) of an nb-byte big- or little-endian encoding of the low 8*nb bits of v */
static inline uint8_t enc_byte(uint64_t v, unsigned nb, int big, unsigned k) { return (uint8_t)(v >> (8 * (big ? (nb - 1 - k) : k))); }
/* reference decoder: value of nb bytes at p, big/little-endian; then extension to 64 bits as the C++ return type does */
static inline uint64_t dec_bytes(const uint8_t* p, unsigned nb, int big) {
  uint64_t r = 0;
  for (unsigned k = 0; k < 8; k++) if (k < nb) r |= (uint64_t)p[k] << (8 * (big ? (nb - 1 - k) : k));
  return r;
}
static inline uint64_t extend(uint64_t lo, unsigned bits, int is_signed) { /* lo holds `bits` significant bits */
  if (bits == 64) return lo;
  uint64_t m = (1ULL << bits) - 1;
  lo &= m;
  if (is_signed && ((lo >> (bits - 1)) & 1)) return lo | ~m; /* two's complement sign extension from bit bits-1 */
  return lo;
}
/* accessor tables (from acc.h): width in bits, kind (0 unsigned, 1 signed, 2 float), big-endian?, exists? */
#define X(i, sfx, T, bits, kind, order) [i] = bits,
static const uint8_t WR_BITS[48] = {WRITER_ACCESSORS(X)};
static const uint8_t RD_BITS[48] = {READER_ACCESSORS(X)};
#undef X
#define X(i, sfx, T, bits, kind, order) [i] = kind,
static const uint8_t WR_KIND[48] = {WRITER_ACCESSORS(X)};
static const uint8_t RD_KIND[48] = {READER_ACCESSORS(X)};
#undef X
#define X(i, sfx, T, bits, kind, order) [i] = (order >= 2),
static const uint8_t WR_BIG[48] = {WRITER_ACCESSORS(X)};
static const uint8_t RD_BIG[48] = {READER_ACCESSORS(X)};
#undef X
#endif
