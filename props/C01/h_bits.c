/* C01 harness 4: bit streams. -DMODE:
 *  0  BitWriter: M (cell) symbolic bits via write(bool); symbolic choice: no truncate / truncate(t) with symbolic t (any
 *     64-bit value). str() is the MSB-first packing (bit i lives in byte i/8 at bit 7-(i%8)), unused tail bits are zero,
 *     length ceil(size/8), size() == M or t; truncate beyond the size throws logic_error and changes nothing.
 *  1  BitWriter: M bits, truncate(T) (cell, T <= M), then M2 (cell) more bits: result = first T bits followed by the new ones.
 *  2  BitReader over NBYTES (cell) symbolic bytes: go(start), read(size1), read(size2, advance2) with symbolic start/sizes
 *     (sizes <= MAXSZ, start+size1+size2 <= 8*NBYTES: BitReader has no bounds check, reads past the data are outside the
 *     claim): values are the MSB-first bit strings, cursor advances by exactly the size, remaining()/eof() consistent;
 *     pread(off,size) likewise without moving; size > 64 throws logic_error.
 *  3  writer -> reader round trip of M bits read back one at a time. */
#include "c01.h"
#ifndef M
#define M 0
#endif
#ifndef M2
#define M2 0
#endif
#define CAPB ((M + M2) / 8 + 2)
static int ref_bit(const uint8_t* p, uint64_t i) { return (p[i >> 3] >> (7 - (i & 7))) & 1; }
void harness(void) {
#if MODE == 0 || MODE == 1
  uint64_t bits = in_u64();
  uint8_t out[CAPB];
  for (int i = 0; i < CAPB; i++) out[i] = 0xC3;
  uint64_t size = 0, t;
#if MODE == 0
  uint32_t do_trunc = in_bool();
  t = do_trunc ? in_u64() : ~0ULL;
  if (do_trunc) ASSUME(t != ~0ULL);
  int64_t n = w_bitwriter(bits, M, t, out, CAPB, &size);
  OBS(n); OBS(size);
  uint64_t total = M;
  if (do_trunc && t > M) {
    ASSERT(n == W_LOGIC_ERROR, "truncate() beyond the current size throws logic_error");
    return;
  }
  if (do_trunc) total = t;
  uint64_t first = total, m2 = 0, bits2 = 0;
#else
  t = T; /* cell: the string length after truncate stays concrete */
  uint64_t bits2 = in_u64();
  int64_t n = w_bitwriter2(bits, M, t, bits2, M2, out, CAPB, &size);
  OBS(n); OBS(size);
  uint64_t first = t, m2 = M2, total = t + M2;
#endif
  ASSERT(n == (int64_t)((total + 7) / 8), "str() has ceil(size/8) bytes");
  ASSERT(size == total, "size() counts the bits written (or kept by truncate)");
  if (n == (int64_t)((total + 7) / 8)) {
    for (uint64_t i = 0; i < 8 * CAPB; i++) {
      if (i < 8 * (uint64_t)n) {
        int want = 0;
        if (i < first) want = (int)((bits >> i) & 1);
        else if (i < first + m2) want = (int)((bits2 >> (i - first)) & 1);
        ASSERT(ref_bit(out, i) == want, "bit i is stored MSB-first in byte i/8; bits beyond size() are zero");
      }
    }
  }
#elif MODE == 2
  uint8_t buf[NBYTES];
  in_bytes(buf, NBYTES);
  const uint64_t nbits = 8 * NBYTES;
  uint64_t start = in_range(0, nbits);
  uint32_t s1 = (uint32_t)in_range(0, MAXSZ), s2 = (uint32_t)in_range(0, MAXSZ), adv2 = in_bool();
  ASSUME(start + s1 + s2 <= nbits);
  uint64_t v1 = 0, v2 = 0, where = 0, remaining = 0, pv = 0; uint8_t eof = 0;
  int64_t rc = w_bitreader(buf, nbits, start, s1, s2, adv2, &v1, &v2, &where, &remaining, &eof);
  OBS(rc); OBS(v1); OBS(v2); OBS(where);
  ASSERT(rc == (int64_t)nbits, "size() is the bit length given");
  uint64_t r1 = 0, r2 = 0;
  for (uint32_t i = 0; i < MAXSZ; i++) if (i < s1) r1 = (r1 << 1) | (uint64_t)ref_bit(buf, start + i);
  for (uint32_t i = 0; i < MAXSZ; i++) if (i < s2) r2 = (r2 << 1) | (uint64_t)ref_bit(buf, start + s1 + i);
  ASSERT(v1 == r1, "read(size) returns the next size bits, first bit most significant");
  ASSERT(v2 == r2, "the second read continues exactly where the first stopped");
  ASSERT(where == start + s1 + (adv2 ? s2 : 0), "cursor advances by exactly the number of bits read (not at all with advance=false)");
  ASSERT(remaining == nbits - where && (eof != 0) == (where >= nbits), "remaining()/eof() consistent with the cursor");
  rc = w_bitreader_pread(buf, nbits, start, s1, &pv);
  ASSERT(rc == 0 && pv == r1, "pread(offset,size) returns the same bits without a cursor");
  uint32_t big = (uint32_t)in_range(65, 255);
  rc = w_bitreader_pread(buf, nbits, 0, big, &pv);
  ASSERT(rc == W_LOGIC_ERROR, "more than 64 bits at once is rejected with logic_error");
#else
  uint64_t bits = in_u64(), back = 0;
  int64_t rc = w_bit_roundtrip(bits, M, &back);
  OBS(rc); OBS(back);
  ASSERT(rc == M, "reading the M bits back advances the bit cursor to M");
  ASSERT(back == (M == 64 ? bits : (bits & ((1ULL << (M % 64)) - 1))), "bits written with BitWriter are read back unchanged, in order, by BitReader");
#endif
}
