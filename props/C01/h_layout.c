/* C01 harness 1: byte layout + round trip of the writer accessors of ONE width (cell: -DBITS = 8|16|32|64, -DPRE = number
 * of filler bytes appended first, so the value is not at offset 0 / aligned). Symbolic: WHICH accessor of that width
 * (index into the table of acc.h: u/s/f x native/r/b/l), the value (all 64 bits; the accessor's parameter type keeps the low
 * BITS), the positional offset, advance flag.
 *  - StringWriter::put_X and BufferWriter::put_X append exactly BITS/8 bytes = the reference big/little-endian encoding
 *  - BufferWriter::pput_X stores the same bytes at the offset and nothing else
 *  - where StringReader has an accessor of the same name: get_X / pget_X on those bytes return exactly the value (sign-/
 *    zero-extended per its type, bit-exact for floats incl. NaN payloads and -0), get advances the cursor by exactly
 *    BITS/8 (or 0 with advance=false) */
#include "c01.h"
#define NB (BITS / 8)
#define CAP 12
void harness(void) {
  uint32_t which = (uint32_t)in_range(0, 33);
  ASSUME(WR_BITS[which] == BITS);
  const int big = WR_BIG[which], kind = WR_KIND[which], has_reader = (RD_BITS[which] == BITS);
  uint64_t v = in_u64();
  const uint32_t pre = PRE;
  uint8_t out[CAP], buf[CAP], buf2[CAP];
  for (int i = 0; i < CAP; i++) { out[i] = 0xC3; buf[i] = 0xC3; buf2[i] = 0xC3; }
  int64_t n = w_sw_put(which, pre, v, out, CAP);
  OBS(which); OBS(n);
  ASSERT(n == (int64_t)(pre + NB), "StringWriter::put appends exactly the encoded width");
  for (unsigned k = 0; k < CAP; k++) {
    if (k < pre) ASSERT(out[k] == 0xEE, "earlier bytes untouched");
    else if (k < pre + NB) { OBS(out[k]); ASSERT(out[k] == enc_byte(v, NB, big, k - pre), "StringWriter::put bytes are the big/little-endian encoding of the value"); }
  }
  int64_t rc = w_bw_put(which, pre, v, buf, CAP);
  ASSERT(rc == 0, "BufferWriter::put fits");
  for (unsigned k = 0; k < CAP; k++) {
    if (k < pre) ASSERT(buf[k] == 0xEE, "earlier bytes untouched");
    else if (k < pre + NB) ASSERT(buf[k] == enc_byte(v, NB, big, k - pre), "BufferWriter::put bytes are the big/little-endian encoding of the value");
    else ASSERT(buf[k] == 0xC3, "BufferWriter::put writes exactly the encoded width");
  }
  uint64_t off = in_range(0, CAP - NB);
  rc = w_bw_pput(which, off, v, buf2, CAP);
  ASSERT(rc == 0, "BufferWriter::pput fits");
  for (unsigned k = 0; k < CAP; k++) {
    if (k >= off && k < off + NB) ASSERT(buf2[k] == enc_byte(v, NB, big, (unsigned)(k - off)), "BufferWriter::pput bytes are the encoding at the offset");
    else ASSERT(buf2[k] == 0xC3, "BufferWriter::pput writes nothing else");
  }
  uint32_t adv = in_bool();
  if (has_reader && n == (int64_t)(pre + NB)) {
    uint64_t val = 0, where = 0, val2 = 0;
    rc = w_sr_get(which, out, (uint64_t)n, pre, adv, &val, &where);
    OBS(rc); OBS(val); OBS(where);
    ASSERT(rc == 0, "matching getter accepts the bytes");
    ASSERT(val == extend(v, BITS, kind == 1), "get returns exactly the value that was put");
    ASSERT(where == (adv ? pre + NB : pre), "get advances the cursor by exactly the encoded width");
    rc = w_sr_pget(which, out, (uint64_t)n, pre, &val2);
    ASSERT(rc == 0 && val2 == extend(v, BITS, kind == 1), "pget returns exactly the value that was put");
  }
}
