/* C01 harness 2: positional writes into a growable StringWriter. Cell: -DBITS width group, -DNFIX prior size (contents
 * symbolic). Symbolic: WHICH accessor of that width, value, offset in [0, NFIX+4] (so the write lands inside, straddles
 * the end, starts exactly at the end, or starts up to 4 bytes past the end).
 * After pput_X(off, v): size == max(n, off+w); bytes [off, off+w) are the big/little-endian encoding; bytes in [n, off) are
 * zero (zero-extension); every other byte is unchanged. */
#include "c01.h"
#define NB (BITS / 8)
#ifndef WHICH
#error WHICH
#endif
#define CAP (NFIX + 4 + 8 + 1)
void harness(void) {
  const uint32_t which = WHICH; /* cell: with a symbolic accessor the 34-way switch over std::string growth paths exhausts memory */
  const int big = WR_BIG[WHICH];
  uint8_t init[NFIX + 1], out[CAP];
  in_bytes(init, NFIX);
  for (int i = 0; i < CAP; i++) out[i] = 0xA5;
  const uint64_t n = NFIX;
  uint64_t v = in_u64();
  uint64_t off = in_range(0, NFIX + 4);
  int64_t rc = w_sw_pput(which, init, n, off, v, out, CAP);
  OBS(which); OBS(rc);
  uint64_t nn = (off + NB > n) ? off + NB : n;
  ASSERT(rc == (int64_t)nn, "size afterwards is max(old size, off+width)");
  if (rc == (int64_t)nn) {
    for (uint64_t i = 0; i < CAP; i++) {
      if (i >= nn) break;
      uint8_t want;
      if (i >= off && i < off + NB) want = enc_byte(v, NB, big, (unsigned)(i - off));
      else if (i < n) want = init[i];
      else want = 0;
      ASSERT(out[i] == want, "encoding at [off,off+w), old bytes kept, gap between the old end and off zero-filled");
    }
  }
}
